(* Lemmas about Lts/Trigger.v.  Property theorems (Properties/C15.v) are closed
   by [exact] from the lemmas here. *)
From Verif Require Import Base.Prelude Misc.Level Lts.Trigger.
From Coq Require Import Permutation.
Open Scope Z_scope.

(* ------------------------------------------------------------------ *)
(* the level byte                                                      *)
(* ------------------------------------------------------------------ *)

Lemma level_byte_roundtrip l : level_ok l -> byte_level (level_byte l) = l.
Proof.
  unfold level_ok, byte_level, level_byte, to_i8, to_u8. intros H.
  rewrite Z2N.id by (apply Z.mod_pos_bound; lia).
  rewrite Z.mod_mod by lia.
  destruct (Z_lt_le_dec l 0) as [Hn|Hp].
  - assert (E : l mod 256 = l + 256) by (symmetry; apply (Z.mod_unique l 256 (-1)); lia).
    rewrite E. destruct (l + 256 <? 128) eqn:C; lia.
  - rewrite Z.mod_small by lia. destruct (l <? 128) eqn:C; lia.
Qed.

(* the same, as a statement about all 256 values of an int8 *)
Lemma level_byte_roundtrip_all :
  forallb (fun l => byte_level (level_byte l) =? l) all_levels = true /\ length all_levels = 256%nat.
Proof. split; vm_compute; reflexivity. Qed.

Lemma level_byte_lt l : (level_byte l < 256)%N.
Proof.
  unfold level_byte, to_u8. pose proof (Z.mod_pos_bound l 256 ltac:(lia)). lia.
Qed.

Lemma level_byte_10 l : level_ok l -> level_byte l = 10%N -> l = 10.
Proof.
  intros H E. rewrite <- (level_byte_roundtrip l H), E. reflexivity.
Qed.

(* ------------------------------------------------------------------ *)
(* splitting                                                           *)
(* ------------------------------------------------------------------ *)

Lemma split_nl_app body rest : ~ In 10%N body ->
  split_nl (body ++ 10%N :: rest) = Some (body ++ [10%N], rest).
Proof.
  induction body as [|b t IH]; intros H; cbn [app split_nl].
  - reflexivity.
  - destruct (b =? 10)%N eqn:E.
    + apply N.eqb_eq in E. exfalso. apply H. left. auto.
    + rewrite IH; [reflexivity|]. intros I. apply H. right. exact I.
Qed.

Lemma split_nl_length p : forall l r, split_nl p = Some (l, r) ->
  length p = (length l + length r)%nat /\ (1 <= length l)%nat.
Proof.
  induction p as [|b t IH]; intros l r H; cbn [split_nl] in H; [discriminate|].
  destruct (b =? 10)%N.
  - inversion H; subst. cbn. lia.
  - destruct (split_nl t) as [[l' r']|]; [|discriminate]. inversion H; subst.
    destruct (IH l' r eq_refl). cbn. lia.
Qed.

(* the fuel of [flush]: any fuel of at least length p gives the same result *)
Lemma flush_fuel lw : forall f1 f2 p sc,
  (length p <= f1)%nat -> (length p <= f2)%nat -> flush f1 lw p sc = flush f2 lw p sc.
Proof.
  induction f1 as [|f1 IH]; intros f2 p sc H1 H2.
  - destruct p; [|cbn in H1; lia]. destruct f2; reflexivity.
  - destruct f2 as [|f2].
    + destruct p; [reflexivity|cbn in H2; lia].
    + cbn [flush]. destruct p as [|b t]; [reflexivity|].
      destruct (split_nl (b :: t)) as [[line rest]|] eqn:E; [|reflexivity].
      destruct (split_nl_length _ _ _ E) as [L1 L2].
      destruct line as [|b0 body]; [reflexivity|].
      destruct (next_outcome sc) as [[e|] sc']; [reflexivity|].
      rewrite (IH f2 rest sc'); [reflexivity| |]; cbn [length] in *; lia.
Qed.

Lemma flush_fuel_suffices lw p sc k : flush (length p + k) lw p sc = flush (length p) lw p sc.
Proof. apply flush_fuel; lia. Qed.

(* ------------------------------------------------------------------ *)
(* frames                                                              *)
(* ------------------------------------------------------------------ *)

Definition frame (x : level * bytes) : bytes := level_byte (fst x) :: snd x.
Definition frames (hs : list (level * bytes)) : bytes := flat_map frame hs.
Definition dest_view (lw : bool) (x : level * bytes) : dcall := dest_write lw (fst x) (snd x).
Definition held_ok (x : level * bytes) : Prop := level_ok (fst x) /\ fst x <> 10 /\ line_ok (snd x).

Lemma frames_app a b : frames (a ++ b) = frames a ++ frames b.
Proof. apply flat_map_app. Qed.

(* the round trip: what trigger() reads back from the buffer is exactly what
   WriteLevel put there - the two premises (level <> 10, no interior newline)
   are used exactly here *)
Lemma frame_split_roundtrip lw hs : forall fuel, Forall held_ok hs ->
  (length (frames hs) <= fuel)%nat ->
  flush fuel lw (frames hs) [] = (map (dest_view lw) hs, TOk, []).
Proof.
  induction hs as [|[l p] hs IH]; intros fuel H Hf.
  - destruct fuel; reflexivity.
  - inversion H as [|x xs Hx Hxs]; subst. destruct Hx as (Hl & H10 & body & Hp & Hb). cbn [fst snd] in *.
    subst p. change (frames ((l, body ++ [10%N]) :: hs)) with (level_byte l :: (body ++ [10%N]) ++ frames hs) in *.
    destruct fuel as [|fuel]; [cbn in Hf; lia|]. cbn [flush].
    assert (E : split_nl (level_byte l :: (body ++ [10%N]) ++ frames hs) =
                Some (level_byte l :: body ++ [10%N], frames hs)).
    { cbn [split_nl]. destruct (level_byte l =? 10)%N eqn:E10.
      - apply N.eqb_eq in E10. exfalso. apply H10. apply level_byte_10; assumption.
      - rewrite <- app_assoc. cbn [app]. rewrite split_nl_app by exact Hb. reflexivity. }
    rewrite E. cbn [next_outcome].
    rewrite IH; [|exact Hxs|cbn [length] in Hf; rewrite app_length in Hf; lia].
    cbn [map]. unfold dest_view at 2. cbn [fst snd]. rewrite level_byte_roundtrip by exact Hl. reflexivity.
Qed.

(* ------------------------------------------------------------------ *)
(* refinement                                                          *)
(* ------------------------------------------------------------------ *)

Definition buf_content (s : tstate) : bytes := match s_buf s with Some b => b | None => [] end.

Definition R (s : tstate) (ss : sstate) : Prop :=
  s_script s = [] /\ s_triggered s = fired ss /\
  (fired ss = false -> Forall held_ok (held ss) /\ buf_content s = frames (held ss)).

Definition op_ret (o : op) : mret := match o with OWrite _ p => ROk (blen p) | _ => ROk 0 end.

Lemma trigger_R c s ss : R s ss -> fired ss = false ->
  exists s1, trigger c s = (s1, map (dest_view (t_lw c)) (held ss), TOk) /\
             s_script s1 = [] /\ s_triggered s1 = true.
Proof.
  intros (Hs & Ht & Hb) Hf. destruct (Hb Hf) as [Hok Hc]. rewrite Hf in Ht.
  unfold trigger. rewrite Ht. unfold buf_content in Hc. destruct (s_buf s) as [p|].
  - subst p. rewrite Hs, frame_split_roundtrip by (auto; lia). eexists; repeat split.
  - destruct (held ss) as [|x t]; [|destruct x; discriminate]. cbn [map]. eexists; repeat split. cbn. exact Hs.
Qed.

Lemma R_fired s ss : s_script s = [] -> s_triggered s = true -> fired ss = true -> R s ss.
Proof. intros A B C. unfold R. rewrite A, B, C. repeat split. discriminate. discriminate. Qed.

Lemma R_unfired s ss : s_script s = [] -> s_triggered s = false -> fired ss = false ->
  Forall held_ok (held ss) -> buf_content s = frames (held ss) -> R s ss.
Proof. intros A B C D E. unfold R. rewrite A, B, C. repeat split; assumption. Qed.

Lemma step_refines c s ss o : R s ss -> op_ok o ->
  forall s1 cs r ss1 out,
  step c s o = (s1, cs, r) -> spec_step (t_cond c) (t_trig c) ss o = (ss1, out) ->
  R s1 ss1 /\ cs = map (dest_view (t_lw c)) out /\ r = op_ret o.
Proof.
  intros HR Hop s1 cs r ss1 out Hstep Hspec.
  pose proof HR as (Hs & Ht & Hb).
  destruct o as [l p| |]; cbn [step spec_step op_ret] in *.
  - (* WriteLevel *)
    destruct Hop as (Hl & H10 & Hp). unfold write_level in Hstep. rewrite Ht in Hstep.
    destruct (fired ss) eqn:Hf; cbn [negb andb] in Hstep.
    + (* already triggered: pass through *)
      rewrite Ht, Hs in Hstep. cbn [negb andb next_outcome app] in Hstep.
      inversion Hstep; inversion Hspec; subst. split; [|split; reflexivity].
      apply R_fired; cbn; auto.
    + destruct (l >=? t_trig c) eqn:Hge.
      * (* this line triggers *)
        destruct (trigger_R c s ss HR Hf) as (s' & Htr & Hs' & Ht'). rewrite Htr in Hstep.
        rewrite Ht', Hs' in Hstep. cbn [negb andb next_outcome] in Hstep.
        inversion Hstep; inversion Hspec; subst. split; [|split].
        -- apply R_fired; cbn; auto.
        -- rewrite map_app. reflexivity.
        -- reflexivity.
      * rewrite Ht in Hstep. cbn [negb andb] in Hstep.
        destruct (Hb eq_refl) as [Hok Hc].
        destruct (l <=? t_cond c) eqn:Hle.
        -- (* held *)
           inversion Hstep; inversion Hspec; subst. split; [|split; reflexivity].
           apply R_unfired; cbn [s_script s_triggered s_buf fired held]; auto.
           ++ apply Forall_app. split; auto. constructor; [|constructor]. exact (conj Hl (conj H10 Hp)).
           ++ unfold buf_content in *. cbn [s_buf]. rewrite frames_app, <- Hc.
              cbn. rewrite app_nil_r. reflexivity.
        -- (* above ConditionalLevel, below TriggerLevel: pass through *)
           rewrite Hs in Hstep. cbn [next_outcome app] in Hstep.
           inversion Hstep; inversion Hspec; subst. split; [|split; reflexivity].
           apply R_unfired; cbn; auto.
  - (* Trigger *)
    destruct (fired ss) eqn:Hf.
    + unfold trigger in Hstep. rewrite Ht in Hstep.
      inversion Hstep; inversion Hspec; subst. split; [exact HR|split; reflexivity].
    + destruct (trigger_R c s ss HR Hf) as (s' & Htr & Hs' & Ht'). rewrite Htr in Hstep.
      inversion Hstep; inversion Hspec; subst. split; [|split; reflexivity].
      apply R_fired; cbn; auto.
  - (* Close *)
    inversion Hstep; inversion Hspec; subst. split; [|split; reflexivity].
    destruct (fired ss) eqn:Hf.
    + apply R_fired; cbn; auto.
    + apply R_unfired; cbn; auto.
Qed.

Lemma run_refines c h : forall s ss, R s ss -> Forall op_ok h ->
  map fst (fst (run c s h)) = map (map (dest_view (t_lw c))) (fst (spec_run (t_cond c) (t_trig c) ss h)) /\
  map snd (fst (run c s h)) = map op_ret h /\
  R (snd (run c s h)) (snd (spec_run (t_cond c) (t_trig c) ss h)).
Proof.
  induction h as [|o t IH]; intros s ss HR Hok; cbn [run spec_run].
  - cbn. auto.
  - inversion Hok; subst.
    destruct (step c s o) as [[s1 cs] r] eqn:E1.
    destruct (spec_step (t_cond c) (t_trig c) ss o) as [ss1 out] eqn:E2.
    destruct (step_refines c s ss o HR H1 _ _ _ _ _ E1 E2) as (HR1 & Hcs & Hr).
    specialize (IH s1 ss1 HR1 H2).
    destruct (run c s1 t) as [rs s2]. destruct (spec_run (t_cond c) (t_trig c) ss1 t) as [outs ss2].
    cbn [fst snd map] in *. destruct IH as (I1 & I2 & I3). subst. rewrite I1, I2. auto.
Qed.

Lemma R_init : R (init []) sinit.
Proof. repeat split; cbn; auto. Qed.

(* the refinement theorem: all histories, all threshold pairs, both kinds of destination *)
Lemma refines_spec c h : Forall op_ok h ->
  map fst (fst (run c (init []) h)) =
    map (map (dest_view (t_lw c))) (fst (spec_run (t_cond c) (t_trig c) sinit h)) /\
  map snd (fst (run c (init []) h)) = map op_ret h.
Proof.
  intros H. destruct (run_refines c h (init []) sinit R_init H) as (A & B & _). auto.
Qed.

(* ------------------------------------------------------------------ *)
(* what the specification says, in closed form                         *)
(* ------------------------------------------------------------------ *)

Definition writes (h : list op) : list (level * bytes) :=
  flat_map (fun o => match o with OWrite l p => [(l, p)] | _ => [] end) h.

Definition no_close (h : list op) : Prop := Forall (fun o => o <> OClose) h.

(* nothing fires: no Trigger() and every line below TriggerLevel *)
Definition quiet (trig : level) (o : op) : Prop :=
  match o with OWrite l _ => l < trig | OTrigger => False | OClose => True end.

(* if the trigger never happens, the held lines are never written: each
   operation's output is the line itself when above ConditionalLevel, nothing otherwise *)
Lemma spec_never_triggered cond trig h : forall s, fired s = false -> Forall (quiet trig) h ->
  fst (spec_run cond trig s h) =
    map (fun o => match o with
                  | OWrite l p => if l <=? cond then [] else [(l, p)]
                  | _ => []
                  end) h /\
  fired (snd (spec_run cond trig s h)) = false.
Proof.
  induction h as [|o t IH]; intros s Hf Hq; cbn [spec_run map]; [auto|].
  inversion Hq as [|x xs Hx Hxs]; subst.
  destruct o as [l p| |]; cbn [spec_step quiet] in *; try contradiction.
  - rewrite Hf. replace (l >=? trig) with false by (symmetry; rewrite Z.geb_leb; apply Z.leb_gt; exact Hx).
    destruct (l <=? cond).
    + destruct (IH {| held := held s ++ [(l, p)]; fired := false |} eq_refl Hxs) as [I1 I2].
      destruct (spec_run cond trig _ t). cbn [fst snd] in *. rewrite I1. auto.
    + destruct (IH s Hf Hxs) as [I1 I2]. destruct (spec_run cond trig s t). cbn [fst snd] in *. rewrite I1. auto.
  - destruct (IH {| held := []; fired := fired s |} Hf Hxs) as [I1 I2].
    destruct (spec_run cond trig _ t). cbn [fst snd] in *. rewrite I1. auto.
Qed.

(* once fired, every line is written at once, and nothing else *)
Lemma spec_after_trigger cond trig h : forall s, fired s = true ->
  fst (spec_run cond trig s h) = map (fun o => match o with OWrite l p => [(l, p)] | _ => [] end) h.
Proof.
  induction h as [|o t IH]; intros s Hf; cbn [spec_run map]; [auto|].
  destruct o as [l p| |]; cbn [spec_step]; rewrite ?Hf.
  - specialize (IH s Hf). destruct (spec_run cond trig s t). cbn [fst] in *. rewrite IH. reflexivity.
  - specialize (IH s Hf). destruct (spec_run cond trig s t). cbn [fst] in *. rewrite IH. reflexivity.
  - specialize (IH {| held := []; fired := true |} eq_refl). destruct (spec_run cond trig _ t). cbn [fst] in *. rewrite IH. reflexivity.
Qed.

(* conservation: without Close, every written line is either delivered exactly
   once or still held - nothing lost, nothing duplicated, nothing altered *)
Lemma spec_conservation cond trig h : forall s, no_close h ->
  Permutation (concat (fst (spec_run cond trig s h)) ++ held (snd (spec_run cond trig s h)))
              (held s ++ writes h).
Proof.
  induction h as [|o t IH]; intros s Hn; cbn [spec_run writes flat_map].
  - cbn. rewrite app_nil_r. apply Permutation_refl.
  - inversion Hn as [|x xs Hx Hxs]; subst. fold (writes t).
    destruct o as [l p| |]; cbn [spec_step]; [| |congruence].
    + destruct (fired s) eqn:Hf; [|destruct (l >=? trig); [|destruct (l <=? cond)]].
      * specialize (IH s Hxs). destruct (spec_run cond trig s t) as [outs s2]. cbn [fst snd concat app] in *.
        apply Permutation_cons_app. exact IH.
      * specialize (IH {| held := []; fired := true |} Hxs). destruct (spec_run cond trig _ t) as [outs s2].
        cbn [fst snd concat held app] in *. rewrite <- !app_assoc. apply Permutation_app_head. cbn [app].
        apply perm_skip. exact IH.
      * specialize (IH {| held := held s ++ [(l, p)]; fired := false |} Hxs).
        destruct (spec_run cond trig _ t) as [outs s2]. cbn [fst snd concat held app] in *.
        rewrite <- app_assoc in IH. exact IH.
      * specialize (IH s Hxs). destruct (spec_run cond trig s t) as [outs s2]. cbn [fst snd concat app] in *.
        apply Permutation_cons_app. exact IH.
    + destruct (fired s) eqn:Hf.
      * specialize (IH s Hxs). destruct (spec_run cond trig s t) as [outs s2]. cbn [fst snd concat app] in *. exact IH.
      * specialize (IH {| held := []; fired := true |} Hxs). destruct (spec_run cond trig _ t) as [outs s2].
        cbn [fst snd concat held app] in *. rewrite <- app_assoc. apply Permutation_app_head. exact IH.
Qed.

Lemma spec_fired_no_held cond trig h : forall s, (fired s = true -> held s = []) ->
  fired (snd (spec_run cond trig s h)) = true -> held (snd (spec_run cond trig s h)) = [].
Proof.
  induction h as [|o t IH]; intros s Hs; cbn [spec_run]; [auto|].
  destruct (spec_step cond trig s o) as [s1 out] eqn:E.
  assert (H1 : fired s1 = true -> held s1 = []).
  { destruct o as [l p| |]; cbn [spec_step] in E.
    - destruct (fired s) eqn:Hf; [inversion E; subst; rewrite Hf; auto|].
      destruct (l >=? trig); [inversion E; subst; auto|].
      destruct (l <=? cond); inversion E; subst; cbn; try discriminate; try (rewrite Hf; discriminate).
    - destruct (fired s) eqn:Hf; inversion E; subst; auto; try (rewrite Hf; auto).
    - inversion E; subst. auto. }
  specialize (IH s1 H1). destruct (spec_run cond trig s1 t). cbn [snd] in *. exact IH.
Qed.

(* the model inherits it: for every valid history without Close the destination
   log together with what is still held is a permutation of what was written;
   once triggered nothing is held *)
Lemma no_loss_no_dup c h : Forall op_ok h -> no_close h ->
  exists rest,
    Permutation (concat (map fst (fst (run c (init []) h))) ++ map (dest_view (t_lw c)) rest)
                (map (dest_view (t_lw c)) (writes h)) /\
    (s_triggered (snd (run c (init []) h)) = true -> rest = []).
Proof.
  intros Hok Hn.
  destruct (run_refines c h (init []) sinit R_init Hok) as (A & _ & (_ & Ht & _)).
  exists (held (snd (spec_run (t_cond c) (t_trig c) sinit h))). split.
  - rewrite A. rewrite <- concat_map. rewrite <- map_app.
    apply Permutation_map. apply (spec_conservation (t_cond c) (t_trig c) h sinit Hn).
  - rewrite Ht. apply spec_fired_no_held. cbn. discriminate.
Qed.

(* ------------------------------------------------------------------ *)
(* the exclusions are necessary                                        *)
(* ------------------------------------------------------------------ *)

Definition cx_cfg : tcfg := {| t_cond := 20; t_trig := 30; t_lw := true |}.

(* a held line at level 10: its level byte is the separator.  The line "a\n" comes
   out as an empty line at level 10 followed by "\n" at level 97 *)
Lemma level_10_counterexample :
  let h := [OWrite 10 [97; 10]%N; OTrigger] in
  map fst (fst (run cx_cfg (init []) h)) = [[]; [(Some 10, []); (Some 97, [10%N])]] /\
  map (map (dest_view true)) (fst (spec_run 20 30 sinit h)) = [[]; [(Some 10, [97; 10]%N)]].
Proof. vm_compute. split; reflexivity. Qed.

(* a held line with an interior newline: "a\nb\n" at level 0 comes out as "a\n" at
   level 0 and "\n" at level 98 *)
Lemma interior_newline_counterexample :
  let h := [OWrite 0 [97; 10; 98; 10]%N; OTrigger] in
  map fst (fst (run cx_cfg (init []) h)) = [[]; [(Some 0, [97; 10]%N); (Some 98, [10%N])]] /\
  map (map (dest_view true)) (fst (spec_run 20 30 sinit h)) = [[]; [(Some 0, [97; 10; 98; 10]%N)]].
Proof. vm_compute. split; reflexivity. Qed.

(* a held line that is not newline-terminated: trigger() indexes an empty slice *)
Lemma unterminated_line_panics :
  map snd (fst (run cx_cfg (init []) [OWrite 0 [97]%N; OTrigger])) = [ROk 1; RPanic].
Proof. vm_compute. reflexivity. Qed.

(* ------------------------------------------------------------------ *)
(* concurrency                                                         *)
(* ------------------------------------------------------------------ *)

(* [run] as a left fold (the LTS appends at the end) *)
Definition exec (c : tcfg) (x : list (list dcall * mret) * tstate) (o : op) : list (list dcall * mret) * tstate :=
  let '(s1, cs, r) := step c (snd x) o in (fst x ++ [(cs, r)], s1).

Lemma run_fold c h : forall acc s,
  fold_left (exec c) h (acc, s) = (acc ++ fst (run c s h), snd (run c s h)).
Proof.
  induction h as [|o t IH]; intros acc s; cbn [fold_left run].
  - cbn. rewrite app_nil_r. reflexivity.
  - unfold exec at 2. cbn [snd fst]. destruct (step c s o) as [[s1 cs] r].
    rewrite IH. destruct (run c s1 t) as [rs s2]. cbn [fst snd]. rewrite <- app_assoc. reflexivity.
Qed.

Definition strip (x : nat * list dcall * mret) : list dcall * mret := (snd (fst x), snd x).
Definition tid (x : nat * list dcall * mret) : nat := fst (fst x).

(* the operations whose body has completed, in lock order *)
Definition done (st : cstate) : list (nat * op) :=
  match cs_lock st with
  | Some (_, false) => removelast (cs_acq st)
  | _ => cs_acq st
  end.

(* operations thread t still has to start *)
Definition todo (st : cstate) (t : nat) : list op :=
  match cs_lock st with
  | Some (t', _) => if Nat.eqb t' t then tl (nth t (cs_progs st) []) else nth t (cs_progs st) []
  | None => nth t (cs_progs st) []
  end.

Record inv (c : tcfg) (sc : script) (progs : list (list op)) (st : cstate) : Prop := {
  inv_run : fold_left (exec c) (map snd (done st)) ([], init sc) = (map strip (cs_log st), cs_state st);
  inv_tid : map tid (cs_log st) = map fst (done st);
  inv_lock : forall t b, cs_lock st = Some (t, b) ->
             exists o rest, nth_error (cs_progs st) t = Some (o :: rest) /\
                            (b = false -> exists acq', cs_acq st = acq' ++ [(t, o)]);
  inv_prog : forall t, ops_of t (cs_acq st) ++ todo st t = nth t progs []
}.

Lemma nth_upd_eq {A} (l : list A) : forall i x d, (i < length l)%nat -> nth i (upd l i x) d = x.
Proof. induction l as [|a l IH]; intros [|i] x d H; cbn in *; try lia; auto. apply IH. lia. Qed.

Lemma nth_upd_neq {A} (l : list A) : forall i j x d, i <> j -> nth j (upd l i x) d = nth j l d.
Proof.
  induction l as [|a l IH]; intros [|i] [|j] x d H; cbn; auto; try congruence.
Qed.

Lemma ops_of_app t a b : ops_of t (a ++ b) = ops_of t a ++ ops_of t b.
Proof. unfold ops_of. rewrite filter_app, map_app. reflexivity. Qed.

Lemma inv_init c sc progs : inv c sc progs (cinit sc progs).
Proof.
  constructor; cbn; auto.
  - intros t b H. discriminate.
Qed.

Lemma inv_step c sc progs st t : inv c sc progs st -> inv c sc progs (cstep c st t).
Proof.
  intros Hinv. pose proof Hinv as [Irun Itid Ilock Iprog]. unfold cstep.
  destruct (nth_error (cs_progs st) t) as [[|o rest]|] eqn:En; try exact Hinv.
  assert (Hnth : nth t (cs_progs st) [] = o :: rest) by (apply nth_error_nth; exact En).
  assert (Hlen : (t < length (cs_progs st))%nat) by (apply nth_error_Some; congruence).
  destruct (cs_lock st) as [[t' ran]|] eqn:El.
  - destruct (Nat.eqb t' t) eqn:Et; [|exact Hinv].
    apply Nat.eqb_eq in Et. subst t'.
    destruct ran.
    + (* release *)
      unfold done, todo in *. rewrite El in *.
      constructor; cbn [cs_lock cs_acq cs_log cs_state cs_progs]; unfold done, todo; cbn [cs_lock cs_acq cs_progs]; auto.
      * intros ? ? H; discriminate.
      * intros u. specialize (Iprog u). destruct (Nat.eqb t u) eqn:Eu.
        -- apply Nat.eqb_eq in Eu. subst u. rewrite nth_upd_eq by exact Hlen.
           rewrite Hnth in Iprog. exact Iprog.
        -- apply Nat.eqb_neq in Eu. rewrite nth_upd_neq by exact Eu. exact Iprog.
    + (* the body runs *)
      destruct (Ilock t false eq_refl) as (o' & rest' & Ho & Hacq). rewrite En in Ho. inversion Ho; subst o' rest'.
      destruct (Hacq eq_refl) as [acq' Ha].
      destruct (step c (cs_state st) o) as [[s1 calls] r] eqn:Es.
      unfold done, todo in *. rewrite El in *. rewrite Ha in Irun, Itid. rewrite removelast_last in Irun, Itid.
      constructor; cbn [cs_lock cs_acq cs_log cs_state cs_progs]; unfold done, todo; cbn [cs_lock cs_acq cs_progs].
      * rewrite Ha, map_app, fold_left_app, Irun. cbn [map fold_left]. unfold exec. cbn [snd fst]. rewrite Es.
        rewrite map_app. reflexivity.
      * rewrite Ha, !map_app, Itid. reflexivity.
      * intros u b H. inversion H; subst. exists o, rest. split; auto; try discriminate.
      * exact Iprog.
  - (* acquire *)
    unfold done, todo in *. rewrite El in *.
    constructor; cbn [cs_lock cs_acq cs_log cs_state cs_progs]; unfold done, todo; cbn [cs_lock cs_acq cs_progs].
    + rewrite removelast_last. exact Irun.
    + rewrite removelast_last. exact Itid.
    + intros u b H. inversion H; subst. exists o, rest. split; auto. intros _. eexists; reflexivity.
    + intros u. specialize (Iprog u). rewrite ops_of_app. destruct (Nat.eqb t u) eqn:Eu.
      * apply Nat.eqb_eq in Eu. subst u. rewrite Hnth in *. unfold ops_of at 2. cbn [filter fst]. rewrite Nat.eqb_refl.
        cbn [map snd tl]. rewrite <- app_assoc. exact Iprog.
      * unfold ops_of at 2. cbn [filter fst]. rewrite Eu. cbn [map]. rewrite app_nil_r. exact Iprog.
Qed.

Lemma inv_crun c sc progs sched : inv c sc progs (crun c sc progs sched).
Proof.
  unfold crun. generalize (inv_init c sc progs). generalize (cinit sc progs).
  induction sched as [|t sched IH]; intros st H; cbn [fold_left]; auto.
  apply IH. apply inv_step. exact H.
Qed.

(* every interleaving equals the sequential history in lock-acquisition order:
   for every set of thread programs and every schedule, whenever no method is in
   progress, the per-operation results, the destination calls and the writer's
   state are those of running the acquired operations one after the other, and
   that history is an interleaving of the programs (each thread's operations in
   program order, followed by what it has not started yet) *)
Lemma concurrent_sequential c sc progs sched :
  let st := crun c sc progs sched in
  cs_lock st = None ->
  run c (init sc) (map snd (cs_acq st)) = (map strip (cs_log st), cs_state st) /\
  map tid (cs_log st) = map fst (cs_acq st) /\
  forall t, ops_of t (cs_acq st) ++ nth t (cs_progs st) [] = nth t progs [].
Proof.
  intros st Hl. destruct (inv_crun c sc progs sched) as [Irun Itid _ Iprog]. fold st in Irun, Itid, Iprog.
  unfold done, todo in *. rewrite Hl in *. split; [|split; auto].
  rewrite run_fold in Irun. cbn [app] in Irun.
  destruct (run c (init sc) (map snd (cs_acq st))). exact Irun.
Qed.

(* mutual exclusion as seen in the trace: at any time at most one body is between Lock and Unlock,
   and a blocked thread changes nothing *)
Lemma blocked_is_noop c st t t' b : cs_lock st = Some (t', b) -> t' <> t -> cstep c st t = st.
Proof.
  intros Hl Hn. unfold cstep. destruct (nth_error (cs_progs st) t) as [[|o rest]|]; auto.
  rewrite Hl. apply Nat.eqb_neq in Hn. rewrite Hn. reflexivity.
Qed.

(* ------------------------------------------------------------------ *)
(* model-level corollaries                                             *)
(* ------------------------------------------------------------------ *)

(* if the trigger never happens (no Trigger(), every line below TriggerLevel) the
   held lines are never written: every operation's destination calls are the line
   itself when it is above ConditionalLevel, and nothing otherwise *)
Lemma never_triggered c h : Forall op_ok h -> Forall (quiet (t_trig c)) h ->
  map fst (fst (run c (init []) h)) =
  map (fun o => match o with
                | OWrite l p => if l <=? t_cond c then [] else [dest_write (t_lw c) l p]
                | _ => []
                end) h.
Proof.
  intros Hok Hq. destruct (refines_spec c h Hok) as [A _]. rewrite A.
  destruct (spec_never_triggered (t_cond c) (t_trig c) h sinit eq_refl Hq) as [B _]. rewrite B.
  rewrite map_map. apply map_ext. intros [l p| |]; auto. destruct (l <=? t_cond c); reflexivity.
Qed.

(* once triggered, everything is passed through at once - for any bytes whatsoever *)
Lemma after_trigger_passthrough c h : forall s, s_triggered s = true -> s_script s = [] ->
  map fst (fst (run c s h)) =
  map (fun o => match o with OWrite l p => [dest_write (t_lw c) l p] | _ => [] end) h.
Proof.
  induction h as [|o t IH]; intros s Ht Hs; cbn [run map]; [reflexivity|].
  destruct o as [l p| |]; cbn [step].
  - unfold write_level. rewrite Ht. cbn [negb andb]. rewrite Ht, Hs. cbn [negb andb next_outcome app].
    match goal with |- context [run c ?s1 t] => specialize (IH s1 ltac:(cbn; auto) ltac:(cbn; auto)); destruct (run c s1 t) end.
    cbn [fst map] in *. rewrite IH. reflexivity.
  - unfold trigger. rewrite Ht.
    specialize (IH s Ht Hs). destruct (run c s t). cbn [fst map] in *. rewrite IH. reflexivity.
  - match goal with |- context [run c ?s1 t] => specialize (IH s1 ltac:(cbn; auto) ltac:(cbn; auto)); destruct (run c s1 t) end.
    cbn [fst map] in *. rewrite IH. reflexivity.
Qed.
