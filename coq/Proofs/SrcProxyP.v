(* hlog/internal/mutil/writer_proxy.go: basicWriter's WriteHeader, Write, maybeWriteHeader, Status, BytesWritten,
   re-translated by srcgen on every run (Gen/ProxySrc.v), are the model's response proxy (Misc/Hlog.v:
   write_header, write, maybe_write_header, p_code, p_bytes).
   The receiver is the record of basicWriter's scalar fields; the embedded http.ResponseWriter and the tee writer are
   opaque (Base/GoExt.v): calls on them are logged and answered by the environment ([ans k] = the answer to the k-th
   external call).  The model's [outcome] of a body write is that answer read as (int, error). *)
From Verif Require Import Base.Prelude Base.GoSem Base.GoEff Base.GoExt Misc.Hlog Gen.ProxySrc.
Open Scope Z_scope.

Definition abs (b : basicWriter_st) : proxy :=
  {| p_wroteHeader := basicWriter_wroteHeader b; p_code := basicWriter_code b; p_bytes := basicWriter_bytes b;
     p_tee := basicWriter_tee b |}.

Definition fRW : list N := [82;101;115;112;111;110;115;101;87;114;105;116;101;114]%N.   (* ResponseWriter *)
Definition fTee : list N := [116;101;101]%N.
Definition mWriteHeader : list N := [87;114;105;116;101;72;101;97;100;101;114]%N.
Definition mWrite : list N := [87;114;105;116;101]%N.

(* the calls of the log as the model's calls on the underlying writer, given what was answered *)
Definition header_calls (cs : list ucall) : list ocall :=
  flat_map (fun c => match c with UWriteHeader code => [OCall fRW mWriteHeader [OVInt code]] | _ => [] end) cs.

Theorem WriteHeader_src (ans : nat -> oval) b code :
  exists b', ProxySrc.WriteHeader ans b code = Ok (tt, b') /\
    abs b' = fst (write_header (abs b) code) /\
    basicWriter_calls b' = basicWriter_calls b ++ header_calls (snd (write_header (abs b) code)) /\
    basicWriter_ResponseWriter b' = basicWriter_ResponseWriter b.
Proof.
  destruct b as [rw wh c by_ tee calls]. unfold ProxySrc.WriteHeader, write_header, abs.
  cbn [basicWriter_wroteHeader basicWriter_code basicWriter_bytes basicWriter_tee basicWriter_calls p_wroteHeader p_code p_bytes p_tee].
  destruct wh; cbn [negb].
  - eexists. split; [reflexivity|]. cbn. rewrite app_nil_r. repeat split; reflexivity.
  - eexists. split; [reflexivity|]. cbn. repeat split; reflexivity.
Qed.

Theorem maybeWriteHeader_src (ans : nat -> oval) b :
  exists b', ProxySrc.maybeWriteHeader ans b = Ok (tt, b') /\
    abs b' = fst (maybe_write_header (abs b)) /\
    basicWriter_calls b' = basicWriter_calls b ++ header_calls (snd (maybe_write_header (abs b))).
Proof.
  unfold ProxySrc.maybeWriteHeader, maybe_write_header.
  destruct (WriteHeader_src ans b 200) as (b' & E & Ha & Hc & _).
  replace (p_wroteHeader (abs b)) with (basicWriter_wroteHeader b) by reflexivity.
  destruct (basicWriter_wroteHeader b) eqn:W; cbn [negb].
  - exists b. split; [reflexivity|]. cbn. rewrite app_nil_r. split; reflexivity.
  - rewrite E. cbn [bind]. exists b'. split; [reflexivity|]. split; assumption.
Qed.

(* Write: the header (if not sent yet), one Write on the underlying writer answered (n, err), one Write of buf[:n] on
   the tee if there is one; the state is the model's [write] with that answer as outcome; the caller gets n and the
   first error *)
Theorem Write_src (ans : nat -> oval) b buf :
  let hdr := snd (write_header (abs b) 200) in
  let k := (length (basicWriter_calls b) + length (header_calls hdr))%nat in
  let n := oval_int (oval_fst (ans k)) in
  let err := oval_err (oval_snd (ans k)) in
  (basicWriter_tee b = true -> 0 <= n <= len buf) ->
  exists b' err', ProxySrc.Write ans b buf = Ok ((n, err'), b') /\
    abs b' = fst (write (abs b) (len buf) {| o_n := n; o_err := negb (err_isnil err) |}) /\
    basicWriter_calls b' = basicWriter_calls b ++ header_calls hdr ++ [OCall fRW mWrite [OVBytes buf]] ++
       (if basicWriter_tee b then [OCall fTee mWrite [OVBytes (slice buf 0 n)]] else []) /\
    err' = (if basicWriter_tee b then (if err_isnil err then oval_err (oval_snd (ans (S k))) else err) else err).
Proof.
  cbv zeta. intros Htee. unfold ProxySrc.Write.
  destruct (WriteHeader_src ans b 200) as (b1 & E & Ha & Hc & _). rewrite E. cbn [bind]. cbv zeta.
  assert (Hk : length (basicWriter_calls b1) = (length (basicWriter_calls b) + length (header_calls (snd (write_header (abs b) 200))))%nat)
    by (rewrite Hc, app_length; reflexivity).
  rewrite Hk.
  set (k := (length (basicWriter_calls b) + length (header_calls (snd (write_header (abs b) 200))))%nat) in *.
  unfold set_basicWriter_calls. cbn [basicWriter_tee basicWriter_calls basicWriter_bytes].
  assert (Ht : basicWriter_tee b1 = basicWriter_tee b).
  { apply (f_equal p_tee) in Ha. cbn [abs p_tee] in Ha. rewrite Ha. unfold write_header. destruct (p_wroteHeader (abs b)); reflexivity. }
  rewrite Ht. unfold write. destruct (write_header (abs b) 200) as [p1 c1] eqn:EW. cbn [fst snd] in *.
  destruct (basicWriter_tee b) eqn:T.
  - rewrite slice_ok_true by (specialize (Htee eq_refl); lia). cbn [guard].
    rewrite app_length. cbn [length]. replace (length (basicWriter_calls b1) + 1)%nat with (S k) by lia.
    destruct (err_isnil (oval_err (oval_snd (ans k)))) eqn:Ee.
    + eexists. eexists. split; [reflexivity|]. unfold set_basicWriter_bytes, abs, add_bytes.
      cbn [basicWriter_wroteHeader basicWriter_code basicWriter_bytes basicWriter_tee basicWriter_calls o_n].
      apply (f_equal (fun p => (p_wroteHeader p, p_code p, p_bytes p, p_tee p))) in Ha. cbn [abs p_wroteHeader p_code p_bytes p_tee] in Ha.
      inversion Ha as [[H1 H2 H3 H4]]. rewrite H1, H2, H3. rewrite ?Ht. split; [reflexivity|]. rewrite Hc, <- !app_assoc. split; reflexivity.
    + eexists. eexists. split; [reflexivity|]. unfold set_basicWriter_bytes, abs, add_bytes.
      cbn [basicWriter_wroteHeader basicWriter_code basicWriter_bytes basicWriter_tee basicWriter_calls o_n].
      apply (f_equal (fun p => (p_wroteHeader p, p_code p, p_bytes p, p_tee p))) in Ha. cbn [abs p_wroteHeader p_code p_bytes p_tee] in Ha.
      inversion Ha as [[H1 H2 H3 H4]]. rewrite H1, H2, H3. rewrite ?Ht. split; [reflexivity|]. rewrite Hc, <- !app_assoc. split; reflexivity.
  - eexists. eexists. split; [reflexivity|]. unfold set_basicWriter_bytes, abs, add_bytes.
    cbn [basicWriter_wroteHeader basicWriter_code basicWriter_bytes basicWriter_tee basicWriter_calls o_n].
    apply (f_equal (fun p => (p_wroteHeader p, p_code p, p_bytes p, p_tee p))) in Ha. cbn [abs p_wroteHeader p_code p_bytes p_tee] in Ha.
    inversion Ha as [[H1 H2 H3 H4]]. rewrite H1, H2, H3. rewrite ?Ht. split; [reflexivity|]. rewrite Hc, app_nil_r, <- !app_assoc. split; reflexivity.
Qed.

Theorem Status_src (ans : nat -> oval) b : ProxySrc.Status b = Ok (p_code (abs b), b).
Proof. reflexivity. Qed.
Theorem BytesWritten_src (ans : nat -> oval) b : ProxySrc.BytesWritten b = Ok (p_bytes (abs b), b).
Proof. reflexivity. Qed.

Lemma proxy_counts : length ProxySrc.translated_functions = 5%nat /\ length ProxySrc.skipped_functions = 0%nat.
Proof. split; reflexivity. Qed.
