(* C08: the binary build decodes to the event the JSON build emits.
   For the same field list [kvs]:
     binary build   enc_event kvs      (Enc/CborEnc.v)   --decoder-->  text t1
     JSON build     json_event kvs     (Enc/JsonEv.v)    =  t2 ++ newline
   and t1, t2 are JSON texts of equivalent values ([jv_equiv]). *)
From Coq Require Import QArith.
From Verif Require Import Base.Prelude Base.Decimal Base.Utf8 Base.JsonSpec Base.CborSpec.
From Verif Require Import Enc.CborEnc Enc.CborDec Proofs.CborSpecP Proofs.CborEncP Proofs.CborDecP Proofs.Cbor2JsonP.
From Verif Require Import Enc.JsonEnc Enc.JsonEv Proofs.DecimalP Proofs.JsonEncP.
Open Scope N_scope.

(* ------------------------------------------------------------------ *)
(* equivalence of JSON values                                          *)
(* ------------------------------------------------------------------ *)
(* same keys (as scalar lists) in the same order; strings, booleans, null
   equal; numbers denote the same rational; arrays and objects recursively *)
Inductive jv_equiv : jv -> jv -> Prop :=
| JQ_null : jv_equiv JNull JNull
| JQ_bool b : jv_equiv (JBool b) (JBool b)
| JQ_str cs : jv_equiv (JStr cs) (JStr cs)
| JQ_num t1 t2 : num_value t1 = num_value t2 -> jv_equiv (JNum t1) (JNum t2)
| JQ_arr l1 l2 : Forall2 jv_equiv l1 l2 -> jv_equiv (JArr l1) (JArr l2)
| JQ_obj m1 m2 : Forall2 (fun a b => fst a = fst b /\ jv_equiv (snd a) (snd b)) m1 m2 -> jv_equiv (JObj m1) (JObj m2).

Lemma jv_equiv_refl : forall v, jv_equiv v v.
Proof.
  fix IH 1. intros [| b | t | cs | l | m]; try constructor; auto.
  - induction l as [|x l IHl]; constructor; auto.
  - induction m as [|[k x] m IHm]; constructor; auto.
Qed.

(* [Eq3 t1 t2]: both texts are JSON, of equivalent values *)
Definition Eq3 (t1 t2 : list N) : Prop := exists v1 v2, Json t1 v1 /\ Json t2 v2 /\ jv_equiv v1 v2.

Lemma Eq3_same t v : Json t v -> Eq3 t t.
Proof. intros H. exists v, v. split; [auto|split; [auto|apply jv_equiv_refl]]. Qed.

(* ------------------------------------------------------------------ *)
(* arrays and objects of texts                                         *)
(* ------------------------------------------------------------------ *)
Lemma JElems_join ts vs : ts <> [] -> Forall2 Json ts vs -> JElems (join_comma ts) vs.
Proof.
  intros Hne F. induction F as [|t v ts vs J F IH]; [congruence|].
  destruct ts as [|t2 ts2].
  - inversion F; subst. cbn. constructor; auto.
  - rewrite join_comma_cons. apply JE_cons; auto. apply IH. discriminate.
Qed.

Lemma json_arr_Json ts vs : Forall2 Json ts vs -> Json (json_arr ts) (JArr vs).
Proof.
  intros F. unfold json_arr. destruct ts as [|t ts].
  - inversion F; subst. apply Json_arr_empty.
  - apply Json_arr_of_elems. apply JElems_join; [discriminate|auto].
Qed.

Lemma Eq3_arr ps : Forall (fun p => Eq3 (fst p) (snd p)) ps -> Eq3 (json_arr (map fst ps)) (json_arr (map snd ps)).
Proof.
  intros F.
  assert (G : exists v1s v2s, Forall2 Json (map fst ps) v1s /\ Forall2 Json (map snd ps) v2s /\ Forall2 jv_equiv v1s v2s).
  { induction F as [|[a b] ps (v1 & v2 & J1 & J2 & E) _ (v1s & v2s & F1 & F2 & FE)].
    - exists [], []. repeat split; constructor.
    - exists (v1 :: v1s), (v2 :: v2s). cbn [map fst snd] in *. repeat split; constructor; auto. }
  destruct G as (v1s & v2s & F1 & F2 & FE).
  exists (JArr v1s), (JArr v2s). split; [apply json_arr_Json; auto|split; [apply json_arr_Json; auto|constructor; auto]].
Qed.

Lemma join_pairs_cons k v k2 v2 t : join_pairs ((k, v) :: (k2, v2) :: t) = k ++ [58] ++ v ++ [44] ++ join_pairs ((k2, v2) :: t).
Proof. reflexivity. Qed.

Lemma JMembers_join (ps : list (list N * list N)) (ms : list (list N * jv)) : ps <> [] ->
  Forall2 (fun p m => JString (fst p) (fst m) /\ Json (snd p) (snd m)) ps ms -> JMembers (join_pairs ps) ms.
Proof.
  intros Hne F. induction F as [|[k t] [c v] ps ms [K J] F IH]; [congruence|]. cbn [fst snd] in *.
  destruct ps as [|[k2 t2] ps2].
  - inversion F; subst. cbn [join_pairs]. apply (JM_one [] k [] c t v); auto; constructor.
  - rewrite join_pairs_cons. apply (JM_cons [] k [] c t v); auto; try constructor. apply IH. discriminate.
Qed.

Lemma json_obj_Json ps ms :
  Forall2 (fun p m => JString (fst p) (fst m) /\ Json (snd p) (snd m)) ps ms -> Json (json_obj ps) (JObj ms).
Proof.
  intros F. unfold json_obj. destruct ps as [|p ps].
  - inversion F; subst. apply Json_obj_empty.
  - apply Json_obj_of_members. apply JMembers_join; [discriminate|auto].
Qed.

(* members with the same key text on both sides *)
Lemma Eq3_obj (qs : list (list N * (list N * list N))) :
  Forall (fun q => Eq3 (fst (snd q)) (snd (snd q))) qs ->
  Eq3 (json_obj (map (fun q => (json_string (fst q), fst (snd q))) qs))
      (json_obj (map (fun q => (json_string (fst q), snd (snd q))) qs)).
Proof.
  intros F.
  assert (G : exists m1 m2,
     Forall2 (fun p m => JString (fst p) (fst m) /\ Json (snd p) (snd m)) (map (fun q => (json_string (fst q), fst (snd q))) qs) m1 /\
     Forall2 (fun p m => JString (fst p) (fst m) /\ Json (snd p) (snd m)) (map (fun q => (json_string (fst q), snd (snd q))) qs) m2 /\
     Forall2 (fun a b => fst a = fst b /\ jv_equiv (snd a) (snd b)) m1 m2).
  { induction F as [|[k [a b]] qs (v1 & v2 & J1 & J2 & E) _ (m1 & m2 & F1 & F2 & FE)].
    - exists [], []. repeat split; constructor.
    - cbn [fst snd] in *. destruct (json_string_good_all k) as [K _].
      exists ((go_runes k, v1) :: m1), ((go_runes k, v2) :: m2). cbn [map fst snd]. repeat split; constructor; auto. }
  destruct G as (m1 & m2 & F1 & F2 & FE).
  exists (JObj m1), (JObj m2). split; [apply json_obj_Json; auto|split; [apply json_obj_Json; auto|constructor; auto]].
Qed.

(* ------------------------------------------------------------------ *)
(* text identities between the decoder model and the JSON encoder model *)
(* ------------------------------------------------------------------ *)
Lemma go_decode_agree s : go_decode_size s = option_map snd (go_decode_rune s).
Proof.
  unfold go_decode_size, go_decode_rune, in_rng, JsonEnc.inr. destruct s as [|b0 t]; [reflexivity|].
  destruct (b0 <? 128); [reflexivity|].
  destruct ((194 <=? b0) && (b0 <=? 223)).
  { destruct t as [|b1 t]; [reflexivity|]. destruct ((128 <=? b1) && (b1 <=? 191)); reflexivity. }
  destruct ((224 <=? b0) && (b0 <=? 239)).
  { destruct t as [|b1 [|b2 t]]; try reflexivity. destruct (_ && _); reflexivity. }
  destruct ((240 <=? b0) && (b0 <=? 244)); [|reflexivity].
  destruct t as [|b1 [|b2 [|b3 t]]]; try reflexivity. destruct (_ && _); reflexivity.
Qed.

Lemma esc_agree f : forall s, esc_json f s = esc_body f s.
Proof.
  induction f as [|f IH]; intros s; cbn [esc_json esc_body]; [reflexivity|]. destruct s as [|b t]; [reflexivity|].
  rewrite go_decode_agree. destruct (128 <=? b).
  - destruct (go_decode_rune (b :: t)) as [[c n]|]; cbn [option_map snd]; rewrite IH; reflexivity.
  - rewrite IH.
    replace (CborDec.plain_byte b) with (no_escape b).
    + destruct (no_escape b); reflexivity.
    + unfold CborDec.plain_byte, no_escape. destruct (b <=? 126); destruct (32 <=? b); reflexivity.
Qed.

Lemma quoted_json_string s : appendQuotedJSON s = json_string s.
Proof. unfold appendQuotedJSON, json_string. rewrite esc_agree. reflexivity. Qed.

Lemma flat_join {A} (g : A -> list N) : forall r x,
  g x ++ flat_map (fun y => 44 :: g y) r = join_comma (g x :: map g r).
Proof.
  induction r as [|y r IH]; intros x; cbn [flat_map map].
  - rewrite app_nil_r. reflexivity.
  - rewrite join_comma_cons. rewrite <- (IH y). reflexivity.
Qed.

Lemma slice_json_arr {A} (g : A -> list N) l : slice_txt g l = json_arr (map g l).
Proof.
  destruct l as [|x r]; [reflexivity|]. unfold slice_txt, json_arr. cbn [map].
  rewrite <- flat_join. rewrite <- !app_assoc. reflexivity.
Qed.
