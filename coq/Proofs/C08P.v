(* C08: the binary build decodes to the event the JSON build emits.
   For the same field list [kvs]:
     binary build   enc_event kvs      (Enc/CborEnc.v)   --decoder-->  text t1
     JSON build     json_event kvs     (Enc/JsonEv.v)    =  t2 ++ newline
   and t1, t2 are JSON texts of equivalent values ([jv_equiv]). *)
From Coq Require Import QArith Qabs Lqa.
From Verif Require Import Base.Prelude Base.Decimal Base.Utf8 Base.JsonSpec Base.CborSpec.
From Verif Require Import Enc.CborEnc Enc.CborDec Proofs.CborSpecP Proofs.CborEncP Proofs.CborDecP Proofs.Cbor2JsonP.
From Verif Require Import Enc.JsonEnc Enc.JsonEv Proofs.DecimalP Proofs.JsonEncP.
Open Scope N_scope.

(* ------------------------------------------------------------------ *)
(* equivalence of JSON values                                          *)
(* ------------------------------------------------------------------ *)
(* same keys (as scalar lists) in the same order; strings, booleans, null
   equal; numbers denote the same rational; arrays and objects recursively *)
Inductive jv_equiv : jv -> jv -> Prop :=
| JQ_null : jv_equiv JNull JNull
| JQ_bool b : jv_equiv (JBool b) (JBool b)
| JQ_str cs : jv_equiv (JStr cs) (JStr cs)
| JQ_num t1 t2 : num_value t1 = num_value t2 -> jv_equiv (JNum t1) (JNum t2)
| JQ_arr l1 l2 : Forall2 jv_equiv l1 l2 -> jv_equiv (JArr l1) (JArr l2)
| JQ_obj m1 m2 : Forall2 (fun a b => fst a = fst b /\ jv_equiv (snd a) (snd b)) m1 m2 -> jv_equiv (JObj m1) (JObj m2).

Lemma jv_equiv_refl : forall v, jv_equiv v v.
Proof.
  fix IH 1. intros [| b | t | cs | l | m]; try constructor; auto.
  - induction l as [|x l IHl]; constructor; auto.
  - induction m as [|[k x] m IHm]; constructor; auto.
Qed.

(* [Eq3 t1 t2]: both texts are JSON, of equivalent values *)
Definition Eq3 (t1 t2 : list N) : Prop := exists v1 v2, Json t1 v1 /\ Json t2 v2 /\ jv_equiv v1 v2.

Lemma Eq3_same t v : Json t v -> Eq3 t t.
Proof. intros H. exists v, v. split; [auto|split; [auto|apply jv_equiv_refl]]. Qed.

(* ------------------------------------------------------------------ *)
(* arrays and objects of texts                                         *)
(* ------------------------------------------------------------------ *)
Lemma JElems_join ts vs : ts <> [] -> Forall2 Json ts vs -> JElems (join_comma ts) vs.
Proof.
  intros Hne F. induction F as [|t v ts vs J F IH]; [congruence|].
  destruct ts as [|t2 ts2].
  - inversion F; subst. cbn. constructor; auto.
  - rewrite join_comma_cons. apply JE_cons; auto. apply IH. discriminate.
Qed.

Lemma json_arr_Json ts vs : Forall2 Json ts vs -> Json (json_arr ts) (JArr vs).
Proof.
  intros F. unfold json_arr. destruct ts as [|t ts].
  - inversion F; subst. apply Json_arr_empty.
  - apply Json_arr_of_elems. apply JElems_join; [discriminate|auto].
Qed.

Lemma Eq3_arr ps : Forall (fun p => Eq3 (fst p) (snd p)) ps -> Eq3 (json_arr (map fst ps)) (json_arr (map snd ps)).
Proof.
  intros F.
  assert (G : exists v1s v2s, Forall2 Json (map fst ps) v1s /\ Forall2 Json (map snd ps) v2s /\ Forall2 jv_equiv v1s v2s).
  { induction F as [|[a b] ps (v1 & v2 & J1 & J2 & E) _ (v1s & v2s & F1 & F2 & FE)].
    - exists [], []. repeat split; constructor.
    - exists (v1 :: v1s), (v2 :: v2s). cbn [map fst snd] in *. repeat split; constructor; auto. }
  destruct G as (v1s & v2s & F1 & F2 & FE).
  exists (JArr v1s), (JArr v2s). split; [apply json_arr_Json; auto|split; [apply json_arr_Json; auto|constructor; auto]].
Qed.

Lemma join_pairs_cons k v k2 v2 t : join_pairs ((k, v) :: (k2, v2) :: t) = k ++ [58] ++ v ++ [44] ++ join_pairs ((k2, v2) :: t).
Proof. reflexivity. Qed.

Lemma JMembers_join (ps : list (list N * list N)) (ms : list (list N * jv)) : ps <> [] ->
  Forall2 (fun p m => JString (fst p) (fst m) /\ Json (snd p) (snd m)) ps ms -> JMembers (join_pairs ps) ms.
Proof.
  intros Hne F. induction F as [|[k t] [c v] ps ms [K J] F IH]; [congruence|]. cbn [fst snd] in *.
  destruct ps as [|[k2 t2] ps2].
  - inversion F; subst. cbn [join_pairs]. apply (JM_one [] k [] c t v); auto; constructor.
  - rewrite join_pairs_cons. apply (JM_cons [] k [] c t v); auto; try constructor. apply IH. discriminate.
Qed.

Lemma json_obj_Json ps ms :
  Forall2 (fun p m => JString (fst p) (fst m) /\ Json (snd p) (snd m)) ps ms -> Json (json_obj ps) (JObj ms).
Proof.
  intros F. unfold json_obj. destruct ps as [|p ps].
  - inversion F; subst. apply Json_obj_empty.
  - apply Json_obj_of_members. apply JMembers_join; [discriminate|auto].
Qed.

(* members with the same key text on both sides *)
Lemma Eq3_obj (qs : list (list N * (list N * list N))) :
  Forall (fun q => Eq3 (fst (snd q)) (snd (snd q))) qs ->
  Eq3 (json_obj (map (fun q => (json_string (fst q), fst (snd q))) qs))
      (json_obj (map (fun q => (json_string (fst q), snd (snd q))) qs)).
Proof.
  intros F.
  assert (G : exists m1 m2,
     Forall2 (fun p m => JString (fst p) (fst m) /\ Json (snd p) (snd m)) (map (fun q => (json_string (fst q), fst (snd q))) qs) m1 /\
     Forall2 (fun p m => JString (fst p) (fst m) /\ Json (snd p) (snd m)) (map (fun q => (json_string (fst q), snd (snd q))) qs) m2 /\
     Forall2 (fun a b => fst a = fst b /\ jv_equiv (snd a) (snd b)) m1 m2).
  { induction F as [|[k [a b]] qs (v1 & v2 & J1 & J2 & E) _ (m1 & m2 & F1 & F2 & FE)].
    - exists [], []. repeat split; constructor.
    - cbn [fst snd] in *. destruct (json_string_good_all k) as [K _].
      exists ((go_runes k, v1) :: m1), ((go_runes k, v2) :: m2). cbn [map fst snd]. repeat split; constructor; auto. }
  destruct G as (m1 & m2 & F1 & F2 & FE).
  exists (JObj m1), (JObj m2). split; [apply json_obj_Json; auto|split; [apply json_obj_Json; auto|constructor; auto]].
Qed.

(* ------------------------------------------------------------------ *)
(* text identities between the decoder model and the JSON encoder model *)
(* ------------------------------------------------------------------ *)
Lemma go_decode_agree s : go_decode_size s = option_map snd (go_decode_rune s).
Proof.
  unfold go_decode_size, go_decode_rune, in_rng, JsonEnc.inr. destruct s as [|b0 t]; [reflexivity|].
  destruct (b0 <? 128); [reflexivity|].
  destruct ((194 <=? b0) && (b0 <=? 223)).
  { destruct t as [|b1 t]; [reflexivity|]. destruct ((128 <=? b1) && (b1 <=? 191)); reflexivity. }
  destruct ((224 <=? b0) && (b0 <=? 239)).
  { destruct t as [|b1 [|b2 t]]; try reflexivity. destruct (_ && _); reflexivity. }
  destruct ((240 <=? b0) && (b0 <=? 244)); [|reflexivity].
  destruct t as [|b1 [|b2 [|b3 t]]]; try reflexivity. destruct (_ && _); reflexivity.
Qed.

Lemma esc_agree f : forall s, esc_json f s = esc_body f s.
Proof.
  induction f as [|f IH]; intros s; cbn [esc_json esc_body]; [reflexivity|]. destruct s as [|b t]; [reflexivity|].
  rewrite go_decode_agree. destruct (128 <=? b).
  - destruct (go_decode_rune (b :: t)) as [[c n]|]; cbn [option_map snd]; rewrite IH; reflexivity.
  - rewrite IH.
    replace (CborDec.plain_byte b) with (no_escape b).
    + destruct (no_escape b); reflexivity.
    + unfold CborDec.plain_byte, no_escape. destruct (b <=? 126); destruct (32 <=? b); reflexivity.
Qed.

Lemma quoted_json_string s : appendQuotedJSON s = json_string s.
Proof. unfold appendQuotedJSON, json_string. rewrite esc_agree. reflexivity. Qed.

Lemma flat_join {A} (g : A -> list N) : forall r x,
  g x ++ flat_map (fun y => 44 :: g y) r = join_comma (g x :: map g r).
Proof.
  induction r as [|y r IH]; intros x; cbn [flat_map map].
  - rewrite app_nil_r. reflexivity.
  - rewrite join_comma_cons. rewrite <- (IH y). reflexivity.
Qed.

Lemma slice_json_arr {A} (g : A -> list N) l : slice_txt g l = json_arr (map g l).
Proof.
  destruct l as [|x r]; [reflexivity|]. unfold slice_txt, json_arr. cbn [map].
  rewrite <- flat_join. rewrite <- !app_assoc. reflexivity.
Qed.

Lemma hex_txt_agree s : CborDec.quote (hexString s) = hex_txt s.
Proof. reflexivity. Qed.

Lemma data_url_agree s : data_url s = cbor_txt (b64enc (length s) s).
Proof. reflexivity. Qed.

Lemma nan32_agree b : CborEnc.f32_is_nan b = f_isnan true b.
Proof. reflexivity. Qed.
Lemma nan64_agree b : CborEnc.f64_is_nan b = f_isnan false b.
Proof. reflexivity. Qed.


(* ---- joins ---- *)
Lemma join_comma_snoc ts t : ts <> [] -> join_comma (ts ++ [t]) = join_comma ts ++ [44] ++ t.
Proof.
  induction ts as [|a ts IH]; intros H; [congruence|]. destruct ts as [|b ts].
  - reflexivity.
  - change ((a :: b :: ts) ++ [t]) with (a :: b :: (ts ++ [t])). rewrite !join_comma_cons.
    change (b :: ts ++ [t]) with ((b :: ts) ++ [t]). rewrite IH by discriminate. rewrite <- !app_assoc. reflexivity.
Qed.

Lemma join_comma_nonempty ts : ts <> [] -> Forall (fun t => t <> []) ts -> join_comma ts <> [].
Proof.
  intros Hne F. destruct ts as [|a ts]; [congruence|]. inversion F; subst.
  destruct ts; [cbn; auto|]. rewrite join_comma_cons. destruct a; [congruence|discriminate].
Qed.

Lemma join_pairs_snoc ps k t : ps <> [] -> join_pairs (ps ++ [(k, t)]) = join_pairs ps ++ [44] ++ k ++ [58] ++ t.
Proof.
  induction ps as [|[a x] ps IH]; intros H; [congruence|]. destruct ps as [|[b y] ps].
  - cbn [app join_pairs]. rewrite <- !app_assoc. reflexivity.
  - change (((a, x) :: (b, y) :: ps) ++ [(k, t)]) with ((a, x) :: (b, y) :: (ps ++ [(k, t)])). rewrite !join_pairs_cons.
    change ((b, y) :: ps ++ [(k, t)]) with (((b, y) :: ps) ++ [(k, t)]). rewrite IH by discriminate. rewrite <- !app_assoc. reflexivity.
Qed.

Definition good_txt (t : list N) : Prop := t <> [] /\ last_byte t <> 0x7B.

Lemma join_pairs_good ps : ps <> [] -> Forall (fun p => good_txt (snd p)) ps -> good_txt (join_pairs ps).
Proof.
  induction ps as [|[k t] ps IH]; intros Hne F; [congruence|]. inversion F as [|? ? [Ht Hl] F']; subst. cbn [snd] in *.
  destruct ps as [|[k2 t2] ps2].
  - cbn [join_pairs]. split; [destruct k; discriminate|]. rewrite !app_assoc. rewrite last_byte_app; auto.
  - rewrite join_pairs_cons. destruct (IH ltac:(discriminate) F') as [Hn Hl2]. split; [destruct k; discriminate|].
    rewrite !app_assoc. rewrite last_byte_app; auto.
Qed.

Lemma Json_good t v : Json t v -> good_txt t.
Proof. apply Json_last. Qed.

Section C08.
Variable Orc : oracle.                     (* the decoder's side of the Go library *)
Variable JO : joracle.                     (* the JSON encoder's side *)
Variable f64_of_time : Z -> N -> N.        (* the binary encoder's float conversions *)
Variable f64_of_dur : Z -> Z -> N.
Hypothesis f64_of_time_range : forall s n, f64_of_time s n < 2 ^ 64.
Hypothesis f64_of_dur_range : forall d u, f64_of_dur d u < 2 ^ 64.

(* ---- the oracle hypotheses: both builds call the same Go functions ---- *)
(* the fval of a bit pattern is about that bit pattern *)
Hypothesis H_bits32 : forall b, f_bits (jo_f32 JO b) = b.
Hypothesis H_bits64 : forall b, f_bits (jo_f64 JO b) = b.
(* the decoder's strconv.AppendFloat(.., 'f', -1, ..) is the JSON encoder's 'f' text *)
Hypothesis H_f32 : forall b, o_f32 Orc b = Some (f_txt_f (jo_f32 JO b)).
Hypothesis H_f64 : forall b, o_f64 Orc b = Some (f_txt_f (jo_f64 JO b)).
(* strconv's correctness: both texts are JSON numbers and denote the same number *)
Definition float_texts_agree (f : fval) : Prop :=
  float_ok f /\ num_value (cleanup_exp (f_txt_e f)) = num_value (f_txt_f f).
Hypothesis H_fa32 : forall b, float_texts_agree (jo_f32 JO b).
Hypothesis H_fa64 : forall b, float_texts_agree (jo_f64 JO b).
(* whole-second instants: the JSON layout prints what the decoder prints
   (TimeFieldFormat = RFC3339, the times are in UTC); the text needs no escaping *)
Hypothesis H_time : forall secs, o_tsi Orc secs = Some (jo_time JO (secs, 0)).
Hypothesis H_time_plain : forall t, plain_text (jo_time JO t).
Notation prec := (-1)%Z.
Notation dec_prim := (Cbor2JsonP.json_prim Orc f64_of_time f64_of_dur).
Notation dec_cval := (Cbor2JsonP.json_cval Orc f64_of_time f64_of_dur).
Notation dec_fields := (Cbor2JsonP.json_fields Orc f64_of_time f64_of_dur).
Notation jenc_prim := (JsonEv.json_prim JO prec f64_of_dur).
Notation jenc_val := (JsonEv.json_val JO prec f64_of_dur).
Notation jenc_fields := (JsonEv.json_fields JO prec f64_of_dur).
Notation jenc_event := (JsonEv.json_event JO prec f64_of_dur).

Definition stringer_jtxt (o : option (list N)) : list N := match o with None => s_null | Some s => json_string s end.
Definition dur_jtxt (u : Z) (i : bool) (d : Z) : list N := duration_txt (mk_dval JO f64_of_dur u d) u i prec.

(* the text the JSON build appends for a primitive *)
Definition jt_prim (p : prim) : list N :=
  match p with
  | PString s | PBytes s => json_string s
  | PStrings l => json_arr (map json_string l)
  | PStringer o => stringer_jtxt o
  | PStringers l => json_arr (map stringer_jtxt l)
  | PHex s => hex_txt s
  | PJSON s => s
  | PCBOR s => cbor_txt (jo_b64 JO s)
  | PBool b => bool_txt b
  | PBools l => json_arr (map bool_txt l)
  | PInt z => print_Z z
  | PInts l => json_arr (map print_Z l)
  | PUint n => print_N n
  | PUints l => json_arr (map print_N l)
  | PF32 b => float_txt true (jo_f32 JO b) prec
  | PFs32 l => json_arr (map (fun b => float_txt true (jo_f32 JO b) prec) l)
  | PF64 b => float_txt false (jo_f64 JO b) prec
  | PFs64 l => json_arr (map (fun b => float_txt false (jo_f64 JO b) prec) l)
  | PTime t => quoted (jo_time JO t)
  | PTimes l => json_arr (map (fun t => quoted (jo_time JO t)) l)
  | PDur u i d => dur_jtxt u i d
  | PDurs u i l => json_arr (map (dur_jtxt u i) l)
  | PIface (inl j) => j
  | PIface (Datatypes.inr e) => json_string (lit_marshaling_error ++ e)
  | PType None => json_string s_nil_type
  | PType (Some s) => json_string s
  | PIP ip => json_string (jo_ip JO ip)
  | PMAC ha => json_string (jo_mac JO ha)
  | PPrefix ip mask => json_string (jo_prefix JO ip mask)
  | PNil => JsonSpec.lit_null
  end.

Lemma jenc_prim_shape dst p : jenc_prim dst p = dst ++ jt_prim p.
Proof.
  destruct p; cbn [JsonEv.json_prim jt_prim]; try reflexivity;
  try match goal with
  | |- AppendStrings _ _ = _ =>
      unfold AppendStrings; rewrite (append_slice_shape AppendString json_string) by reflexivity; rewrite slice_json_arr; reflexivity
  | |- AppendStringer _ ?o _ = _ => rewrite AppendStringer_shape; destruct o; reflexivity
  | |- AppendStringers _ _ _ = _ =>
      unfold AppendStringers; rewrite (append_slice_shape _ (fun v => stringer_txt v null_iface)) by (intros; apply AppendStringer_shape);
      rewrite slice_json_arr; first [reflexivity | (f_equal; f_equal; apply map_ext; intros [s|]; reflexivity)]
  | |- AppendHex _ _ = _ => apply AppendHex_shape
  | |- appendCBOR _ _ = _ => apply appendCBOR_shape
  | |- AppendBools _ _ = _ => unfold AppendBools; rewrite (append_slice_shape AppendBool bool_txt) by reflexivity; rewrite slice_json_arr; reflexivity
  | |- AppendInts _ _ = _ => unfold AppendInts; rewrite (append_slice_shape AppendInt print_Z) by reflexivity; rewrite slice_json_arr; reflexivity
  | |- AppendUints _ _ = _ => unfold AppendUints; rewrite (append_slice_shape AppendUint print_N) by reflexivity; rewrite slice_json_arr; reflexivity
  | |- AppendFloat32 _ _ _ = _ => apply appendFloat_shape
  | |- AppendFloat64 _ _ _ = _ => apply appendFloat_shape
  | |- AppendFloats32 _ _ _ = _ =>
      unfold AppendFloats32; rewrite (append_slice_shape _ (fun f => float_txt true f prec)) by (intros; apply appendFloat_shape);
      rewrite slice_json_arr, map_map; reflexivity
  | |- AppendFloats64 _ _ _ = _ =>
      unfold AppendFloats64; rewrite (append_slice_shape _ (fun f => float_txt false f prec)) by (intros; apply appendFloat_shape);
      rewrite slice_json_arr, map_map; reflexivity
  | |- AppendTime _ _ _ = _ => apply AppendTime_shape
  | |- AppendTimes _ _ _ = _ =>
      unfold AppendTimes; rewrite (append_slice_shape _ (fun t => time_txt t TFLayout)) by (intros; apply AppendTime_shape);
      rewrite slice_json_arr, map_map; reflexivity
  | |- AppendDuration _ _ _ _ _ = _ => apply AppendDuration_shape
  | |- AppendDurations _ _ ?u ?i _ = _ =>
      unfold AppendDurations; rewrite (append_slice_shape _ (fun x => duration_txt x u i prec)) by (intros; apply AppendDuration_shape);
      rewrite slice_json_arr, map_map; reflexivity
  end.
  - destruct m; reflexivity.
  - destruct t; reflexivity.
Qed.

(* ---- equivalence of the two texts, primitive by primitive ---- *)
Definition json_ok (s : list N) : Prop := exists v, Json s v.

(* what C08 quantifies over, beyond well-formedness and size *)
Definition prim_c08 (p : prim) : Prop :=
  match p with
  | PTime t => snd t = 0                                   (* whole-second instants; see C08_time_partial *)
  | PTimes l => Forall (fun t : Z * N => snd t = 0) l
  | PJSON s => json_ok s                                   (* the embedded text is JSON *)
  | PIface (inl j) => json_ok j
  (* package net: 4/16-byte IPs, 6-byte MACs, canonical prefixes: the JSON side's library text is the
     text of the decoder's model of the same function and needs no escaping *)
  | PIP ip => (length ip = 4 \/ length ip = 16)%nat /\ jo_ip JO ip = ip_string ip /\ Forall (fun b => no_escape b = true) (jo_ip JO ip)
  | PMAC ha => length ha = 6%nat /\ jo_mac JO ha = mac_string ha /\ Forall (fun b => no_escape b = true) (jo_mac JO ha)
  | PPrefix ip mask =>
      jo_prefix JO ip mask = ipnet_string ip (mask_size_ones mask mod 256) /\
      Forall (fun b => no_escape b = true) (jo_prefix JO ip mask)
  (* encoding/base64 *)
  | PCBOR s => jo_b64 JO s = b64enc (length s) s /\ Forall JsonEncP.b64char (jo_b64 JO s)
  | _ => True
  end.

Lemma eq3_string s : Eq3 (appendQuotedJSON s) (json_string s).
Proof. rewrite quoted_json_string. apply (Eq3_same _ (JStr (go_runes s))). apply string_good. Qed.

Lemma eq3_stringer o : Eq3 (stringer_json o) (stringer_jtxt o).
Proof.
  destruct o as [s|]; cbn [stringer_json stringer_jtxt]; [apply eq3_string|].
  apply (Eq3_same _ JNull). apply Json_null.
Qed.

Lemma eq3_slice {A} (g1 g2 : A -> list N) l : (forall x, In x l -> Eq3 (g1 x) (g2 x)) ->
  Eq3 (json_arr (map g1 l)) (json_arr (map g2 l)).
Proof.
  intros H. pose proof (Eq3_arr (map (fun x => (g1 x, g2 x)) l)) as E. rewrite !map_map in E. cbn [fst snd] in E.
  apply E. apply Forall_forall. intros p Hp. apply in_map_iff in Hp as (x & <- & Hx). cbn [fst snd]. auto.
Qed.

Lemma eq3_slice_opt {A} (jf : A -> option (list N)) (g2 : A -> list N) l :
  (forall x, In x l -> exists t, jf x = Some t /\ Eq3 t (g2 x)) ->
  exists js, all_some (map jf l) = Some js /\ Eq3 (json_arr js) (json_arr (map g2 l)).
Proof.
  intros H.
  assert (G : exists js, all_some (map jf l) = Some js /\ Forall (fun p => Eq3 (fst p) (snd p)) (combine js (map g2 l)) /\ length js = length l).
  { induction l as [|x l IH].
    - exists []. repeat split; constructor.
    - destruct (H x (or_introl eq_refl)) as (t & Et & E3).
      destruct IH as (js & Ea & F & L); [intros y Hy; apply H; right; auto|].
      exists (t :: js). cbn [map all_some]. rewrite Et, Ea. split; [reflexivity|]. split; [constructor; auto|cbn; lia]. }
  destruct G as (js & Ea & F & L). exists js. split; auto.
  pose proof (Eq3_arr _ F) as E.
  assert (L2 : length js = length (map g2 l)) by (rewrite map_length; auto).
  assert (M1 : map fst (combine js (map g2 l)) = js).
  { clear -L2. revert L2. generalize (map g2 l). induction js as [|a js IH]; intros [|b m] L; cbn in *; try lia; auto. f_equal. apply IH. lia. }
  assert (M2 : map snd (combine js (map g2 l)) = map g2 l).
  { clear -L2. revert L2. generalize (map g2 l). induction js as [|a js IH]; intros [|b m] L; cbn in *; try lia; auto. f_equal. apply IH. lia. }
  rewrite M1, M2 in E. exact E.
Qed.

Lemma Json_number t : is_json_number t = true -> Json t (JNum t).
Proof. intros H. apply Json_num. apply is_json_number_sound. auto. Qed.

Lemma eq3_float (w32 : bool) (f : fval) (t : list N) :
  float_texts_agree f ->
  (if f_isnan w32 (f_bits f) then Some lit_NaN else if f_ispinf w32 (f_bits f) then Some lit_pInf
   else if f_isninf w32 (f_bits f) then Some lit_nInf else Some (f_txt_f f)) = Some t ->
  Eq3 t (float_txt w32 f prec).
Proof.
  intros [[Hf He] Hn] Ht. pose proof (float_good_txt w32 f prec (conj Hf He)) as [J _].
  unfold float_jv in *. unfold float_txt in *.
  destruct (f_isnan w32 (f_bits f)); [inversion Ht; subst; eapply Eq3_same; exact J|].
  destruct (f_ispinf w32 (f_bits f)); [inversion Ht; subst; eapply Eq3_same; exact J|].
  destruct (f_isninf w32 (f_bits f)); [inversion Ht; subst; eapply Eq3_same; exact J|].
  inversion Ht; subst t. destruct (f_use_e w32 (f_bits f) prec).
  - exists (JNum (f_txt_f f)), (JNum (cleanup_exp (f_txt_e f))). split; [apply Json_number; auto|]. split; [exact J|].
    constructor. symmetry. exact Hn.
  - eapply Eq3_same. exact J.
Qed.

Lemma eq3_f32 b : exists t, f32_json Orc b = Some t /\ Eq3 t (float_txt true (jo_f32 JO b) prec).
Proof.
  assert (E : f32_json Orc b =
     (if f_isnan true (f_bits (jo_f32 JO b)) then Some lit_NaN else if f_ispinf true (f_bits (jo_f32 JO b)) then Some lit_pInf
      else if f_isninf true (f_bits (jo_f32 JO b)) then Some lit_nInf else Some (f_txt_f (jo_f32 JO b)))).
  { rewrite H_bits32. unfold f32_json. rewrite H_f32. reflexivity. }
  destruct (f32_json Orc b) as [t|] eqn:Et.
  - exists t. split; auto. apply (eq3_float true (jo_f32 JO b) t (H_fa32 b)). auto.
  - exfalso. repeat (destruct (_ : bool) in E; try discriminate).
Qed.

Lemma eq3_f64 b : exists t, f64_json Orc b = Some t /\ Eq3 t (float_txt false (jo_f64 JO b) prec).
Proof.
  assert (E : f64_json Orc b =
     (if f_isnan false (f_bits (jo_f64 JO b)) then Some lit_NaN else if f_ispinf false (f_bits (jo_f64 JO b)) then Some lit_pInf
      else if f_isninf false (f_bits (jo_f64 JO b)) then Some lit_nInf else Some (f_txt_f (jo_f64 JO b)))).
  { rewrite H_bits64. unfold f64_json. rewrite H_f64. reflexivity. }
  destruct (f64_json Orc b) as [t|] eqn:Et.
  - exists t. split; auto. apply (eq3_float false (jo_f64 JO b) t (H_fa64 b)). auto.
  - exfalso. repeat (destruct (_ : bool) in E; try discriminate).
Qed.

Lemma Json_quoted_plain t : plain_text t -> Json (quoted t) (JStr (go_runes t)).
Proof. intros H. apply Json_str. apply plain_quoted_good. auto. Qed.

Lemma eq3_time secs : exists t, time_json Orc f64_of_time (secs, 0) = Some t /\ Eq3 t (quoted (jo_time JO (secs, 0))).
Proof.
  unfold time_json. cbn. rewrite H_time. cbn [option_map]. eexists. split; [reflexivity|].
  apply (Eq3_same _ (JStr (go_runes (jo_time JO (secs, 0))))). apply Json_quoted_plain. apply H_time_plain.
Qed.

Lemma eq3_dur u i d :
  exists t, dur_json Orc f64_of_dur u i d = Some t /\ Eq3 t (dur_jtxt u i d).
Proof.
  unfold dur_json, dur_jtxt, duration_txt. destruct i.
  - eexists. split; [reflexivity|].
    cbn [mk_dval d_ns]. apply (Eq3_same _ (JNum (print_Z (wrap64 (Z.quot d u))))). apply print_Z_Json.
  - cbn [mk_dval d_quot]. apply eq3_f64.
Qed.

Lemma json_string_quoted s : Forall (fun b => no_escape b = true) s -> json_string s = CborDec.quote s.
Proof. intros H. rewrite json_string_plain by auto. reflexivity. Qed.

Theorem prim_eq3 p : wf_prim p -> small_prim p -> prim_c08 p -> exists t1, dec_prim p = Some t1 /\ Eq3 t1 (jt_prim p).
Proof.
  destruct p; cbn [wf_prim small_prim prim_c08 Cbor2JsonP.json_prim jt_prim]; intros W Sm C8.
  - eexists; split; [reflexivity|apply eq3_string].
  - eexists; split; [reflexivity|]. apply eq3_slice. intros; apply eq3_string.
  - eexists; split; [reflexivity|apply eq3_stringer].
  - eexists; split; [reflexivity|]. apply eq3_slice. intros; apply eq3_stringer.
  - eexists; split; [reflexivity|apply eq3_string].
  - eexists; split; [reflexivity|]. rewrite hex_txt_agree. destruct W as [Wb _].
    destruct (hex_good [] s Wb) as (_ & [J _] & _). eapply Eq3_same; exact J.
  - eexists; split; [reflexivity|]. destruct C8 as [v J]. eapply Eq3_same; exact J.
  - eexists; split; [reflexivity|]. destruct C8 as [E B]. rewrite data_url_agree, <- E.
    destruct (rawcbor_good [] _ B) as (_ & J & _). eapply Eq3_same; exact J.
  - eexists; split; [reflexivity|]. destruct b; [apply (Eq3_same _ (JBool true)); apply Json_true|apply (Eq3_same _ (JBool false)); apply Json_false].
  - eexists; split; [reflexivity|]. apply (eq3_slice (fun b : bool => if b then CborDec.lit_true else CborDec.lit_false) bool_txt).
    intros [|] _; [apply (Eq3_same _ (JBool true)); apply Json_true|apply (Eq3_same _ (JBool false)); apply Json_false].
  - eexists; split; [reflexivity|]. eapply Eq3_same. apply print_Z_Json.
  - eexists; split; [reflexivity|]. apply eq3_slice. intros; eapply Eq3_same; apply print_Z_Json.
  - eexists; split; [reflexivity|]. eapply Eq3_same. apply print_N_Json.
  - eexists; split; [reflexivity|]. apply eq3_slice. intros; eapply Eq3_same; apply print_N_Json.
  - apply eq3_f32.
  - destruct (eq3_slice_opt (f32_json Orc) (fun b => float_txt true (jo_f32 JO b) prec) l) as (js & Ea & E); [intros; apply eq3_f32|].
    rewrite Ea. eexists; split; [reflexivity|exact E].
  - apply eq3_f64.
  - destruct (eq3_slice_opt (f64_json Orc) (fun b => float_txt false (jo_f64 JO b) prec) l) as (js & Ea & E); [intros; apply eq3_f64|].
    rewrite Ea. eexists; split; [reflexivity|exact E].
  - destruct t as [secs nanos]. cbn [snd] in C8. subst nanos. apply eq3_time.
  - destruct (eq3_slice_opt (time_json Orc f64_of_time) (fun t => quoted (jo_time JO t)) l) as (js & Ea & E).
    { intros [secs nanos] Hin. rewrite Forall_forall in C8. specialize (C8 _ Hin). cbn [snd] in C8. subst nanos. apply eq3_time. }
    rewrite Ea. eexists; split; [reflexivity|exact E].
  - apply eq3_dur.
  - destruct (eq3_slice_opt (dur_json Orc f64_of_dur unit useInt) (dur_jtxt unit useInt) l) as (js & Ea & E).
    { intros d Hin. apply eq3_dur. }
    rewrite Ea. eexists; split; [reflexivity|exact E].
  - destruct m as [j|e]; (eexists; split; [reflexivity|]).
    + destruct C8 as [v J]. eapply Eq3_same; exact J.
    + apply eq3_string.
  - destruct t as [s|]; (eexists; split; [reflexivity|]); apply eq3_string.
  - destruct C8 as (C8 & E & P).
    assert (Hl : ((length ip =? 4) || (length ip =? 16))%nat = true) by (destruct C8 as [-> | ->]; reflexivity).
    rewrite Hl. eexists; split; [reflexivity|].
    rewrite <- E, <- (json_string_quoted _ P). eapply Eq3_same. apply string_good.
  - destruct C8 as (C8 & E & P). rewrite C8. cbn. eexists; split; [reflexivity|].
    rewrite <- E, <- (json_string_quoted _ P). eapply Eq3_same. apply string_good.
  - destruct C8 as [C8 P]. eexists; split; [reflexivity|]. rewrite <- C8, <- (json_string_quoted _ P). eapply Eq3_same. apply string_good.
  - eexists; split; [reflexivity|]. apply (Eq3_same _ JNull). apply Json_null.
Qed.

(* ---- nesting ---- *)
Fixpoint jt_cval (v : cval) : list N :=
  match v with
  | VP p => jt_prim p
  | VArr l => json_arr (map jt_cval l)
  | VDict kvs => json_obj (map (fun kv => (json_string (fst kv), jt_cval (snd kv))) kvs)
  end.
Definition jt_members (kvs : list (list N * cval)) : list (list N * list N) :=
  map (fun kv => (json_string (fst kv), jt_cval (snd kv))) kvs.

Fixpoint cval_c08 (v : cval) : Prop :=
  match v with
  | VP p => prim_c08 p
  | VArr l => (fix all (l : list cval) : Prop := match l with [] => True | x :: t => cval_c08 x /\ all t end) l
  | VDict kvs =>
      (fix all (l : list (list N * cval)) : Prop := match l with [] => True | (k, x) :: t => cval_c08 x /\ all t end) kvs
  end.
Definition fields_c08 (kvs : list (list N * cval)) : Prop := Forall (fun kv => cval_c08 (snd kv)) kvs.

Definition val_shape (x : cval) : Prop := (forall d, jenc_val d x = d ++ jt_cval x) /\ good_txt (jt_cval x).

Lemma arr_fold l : Forall val_shape l -> forall ts, Forall (fun t => t <> []) ts ->
  (fix go (l : list cval) (buf : bytes) : bytes :=
     match l with [] => buf | x :: t => go t (jenc_val (AppendArrayDelim buf) x) end) l (join_comma ts)
  = join_comma (ts ++ map jt_cval l).
Proof.
  induction 1 as [|x l [Sx [Gx _]] _ IH]; intros ts Fts; cbn [map]; [rewrite app_nil_r; reflexivity|].
  rewrite Sx.
  assert (E : AppendArrayDelim (join_comma ts) ++ jt_cval x = join_comma (ts ++ [jt_cval x])).
  { destruct ts as [|a ts'].
    - reflexivity.
    - pose proof (join_comma_nonempty (a :: ts') ltac:(discriminate) Fts) as Hn.
      unfold AppendArrayDelim. destruct (join_comma (a :: ts')) eqn:Ej; [congruence|]. rewrite <- Ej.
      rewrite join_comma_snoc by discriminate. rewrite <- app_assoc. reflexivity. }
  rewrite E. rewrite IH by (apply Forall_app; split; auto).
  rewrite <- app_assoc. reflexivity.
Qed.

Lemma fields_fold_j kvs : Forall (fun kv => val_shape (snd kv)) kvs -> forall b0 ps, Forall (fun p => good_txt (snd p)) ps ->
  fold_left (fun b kv => jenc_val (AppendKey b (fst kv)) (snd kv)) kvs (b0 ++ [0x7B] ++ join_pairs ps)
  = b0 ++ [0x7B] ++ join_pairs (ps ++ jt_members kvs).
Proof.
  induction 1 as [|[k x] kvs [Sx Gx] _ IH]; intros b0 ps Fps; cbn [fold_left jt_members map fst snd]; [rewrite app_nil_r; reflexivity|].
  cbn [fst snd] in *. rewrite Sx, AppendKey_shape.
  assert (E : ((b0 ++ [0x7B] ++ join_pairs ps) ++
               (if last_byte (b0 ++ [0x7B] ++ join_pairs ps) =? 0x7B then [] else [0x2C]) ++ json_string k ++ [0x3A]) ++ jt_cval x
              = b0 ++ [0x7B] ++ join_pairs (ps ++ [(json_string k, jt_cval x)])).
  { destruct ps as [|p ps'].
    - cbn [join_pairs app]. rewrite ?app_nil_r. rewrite last_byte_snoc. cbn [N.eqb Pos.eqb app]. rewrite <- !app_assoc. reflexivity.
    - destruct (join_pairs_good (p :: ps') ltac:(discriminate) Fps) as [Hn Hl].
      assert (L : last_byte (b0 ++ [0x7B] ++ join_pairs (p :: ps')) = last_byte (join_pairs (p :: ps'))) by (rewrite app_assoc; apply last_byte_app; auto).
      rewrite L. replace (last_byte (join_pairs (p :: ps')) =? 0x7B) with false by lia.
      rewrite join_pairs_snoc by discriminate. rewrite <- !app_assoc. reflexivity. }
  rewrite E. rewrite IH by (apply Forall_app; split; auto; constructor; auto).
  rewrite <- app_assoc. reflexivity.
Qed.

Lemma dict_fix_fold kvs : forall buf,
  (fix go (l : list (list N * cval)) (buf : bytes) : bytes :=
     match l with [] => buf | (k, x) :: t => go t (jenc_val (AppendKey buf k) x) end) kvs buf
  = fold_left (fun b kv => jenc_val (AppendKey b (fst kv)) (snd kv)) kvs buf.
Proof. induction kvs as [|[k x] t IH]; intros buf; cbn [fold_left fst snd]; auto. Qed.

(* fields of a dict / an event: decoder text and JSON-build text *)
Lemma members_eq3 kvs :
  Forall (fun kv => forall t1, dec_cval (snd kv) = Some t1 -> Eq3 t1 (jt_cval (snd kv))) kvs ->
  forall ps, all_some (map (fun kv => option_map (fun j => (appendQuotedJSON (fst kv), j)) (dec_cval (snd kv))) kvs) = Some ps ->
  Eq3 (json_obj ps) (json_obj (jt_members kvs)).
Proof.
  intros F ps Ha.
  assert (G : exists qs : list (list N * (list N * list N)),
     ps = map (fun q => (json_string (fst q), fst (snd q))) qs /\
     jt_members kvs = map (fun q => (json_string (fst q), snd (snd q))) qs /\
     Forall (fun q => Eq3 (fst (snd q)) (snd (snd q))) qs).
  { revert ps Ha. induction F as [|[k x] kvs Hx _ IH]; intros ps Ha; cbn [map all_some] in Ha.
    - inversion Ha; subst. exists []. repeat split; constructor.
    - cbn [fst snd] in *. destruct (dec_cval x) as [t1|] eqn:Ex; [|discriminate]. cbn [option_map] in Ha.
      destruct (all_some _) as [ps'|] eqn:Ea; [|discriminate]. inversion Ha; subst.
      destruct (IH ps' eq_refl) as (qs & E1 & E2 & FQ).
      exists ((k, (t1, jt_cval x)) :: qs). cbn [map fst snd jt_members]. rewrite quoted_json_string.
      split; [f_equal; auto|]. split; [f_equal; auto|]. constructor; auto. }
  destruct G as (qs & -> & -> & FQ). apply Eq3_obj. auto.
Qed.

Theorem cval_eq3 : forall v, wf_cval v -> small_cval v -> cval_c08 v ->
  val_shape v /\ exists t1, dec_cval v = Some t1 /\ Eq3 t1 (jt_cval v).
Proof.
  induction v as [p|l IHl|kvs IHl] using cval_ind'; intros W Sm C8.
  - destruct (prim_eq3 p W Sm C8) as (t1 & E1 & E3). split; [|exists t1; auto].
    split; [intros d; apply jenc_prim_shape|]. destruct E3 as (v1 & v2 & _ & J2 & _). eapply Json_good; eauto.
  - (* arrays *)
    assert (G : Forall val_shape l /\ exists js, all_some (map dec_cval l) = Some js /\ Eq3 (json_arr js) (json_arr (map jt_cval l))).
    { assert (Hall : Forall (fun x => val_shape x /\ exists t1, dec_cval x = Some t1 /\ Eq3 t1 (jt_cval x)) l).
      { clear -IHl W Sm C8. induction l as [|x t IH]; [constructor|]. inversion IHl as [|? ? Px Pt]; subst.
        cbn in W, Sm, C8. destruct W as [Wx Wt]. destruct Sm as [Sx St]. destruct C8 as [Cx Ct]. constructor; auto. }
      split; [eapply Forall_impl; [|exact Hall]; intros x [H _]; exact H|].
      apply eq3_slice_opt. intros x Hx. rewrite Forall_forall in Hall. apply (Hall x Hx). }
    destruct G as (Fs & js & Ea & E3). split.
    + split.
      * intros d. cbn [JsonEv.json_val jt_cval]. pose proof (arr_fold l Fs [] ltac:(constructor)) as AF. cbn [join_comma app] in AF.
        rewrite AF. unfold AppendArrayEnd, AppendArrayStart, json_arr. rewrite <- ?app_assoc. reflexivity.
      * destruct E3 as (v1 & v2 & _ & J2 & _). eapply Json_good; eauto.
    + cbn [Cbor2JsonP.json_cval jt_cval]. rewrite Ea. eexists; split; [reflexivity|exact E3].
  - (* dicts *)
    assert (Hall : Forall (fun kv => val_shape (snd kv) /\ exists t1, dec_cval (snd kv) = Some t1 /\ Eq3 t1 (jt_cval (snd kv))) kvs).
    { clear -IHl W Sm C8. induction kvs as [|[k x] t IH]; [constructor|]. inversion IHl as [|? ? Px Pt]; subst.
      cbn in W, Sm, C8. destruct W as (Wk & Wx & Wt). destruct Sm as (Sk & Sx & St). destruct C8 as [Cx Ct]. constructor; auto. }
    assert (Fs : Forall (fun kv => val_shape (snd kv)) kvs) by (eapply Forall_impl; [|exact Hall]; intros kv [H _]; exact H).
    assert (Fe : Forall (fun kv => forall t1, dec_cval (snd kv) = Some t1 -> Eq3 t1 (jt_cval (snd kv))) kvs).
    { eapply Forall_impl; [|exact Hall]. intros kv [_ (t & Et & E3)] t1 E1. congruence. }
    assert (Ha : exists ps, all_some (map (fun kv => option_map (fun j => (appendQuotedJSON (fst kv), j)) (dec_cval (snd kv))) kvs) = Some ps).
    { clear -Hall. induction Hall as [|[k x] t [_ (t1 & E1 & _)] _ (ps & IH)]; [exists []; reflexivity|].
      cbn [map all_some fst snd] in *. rewrite E1. cbn [option_map]. rewrite IH. eexists; reflexivity. }
    destruct Ha as (ps & Ha). pose proof (members_eq3 kvs Fe ps Ha) as E3.
    split.
    + split.
      * intros d. cbn [JsonEv.json_val jt_cval]. rewrite dict_fix_fold.
        pose proof (fields_fold_j kvs Fs [] [] ltac:(constructor)) as FF. cbn [join_pairs app] in FF.
        unfold AppendBeginMarker. cbn [app]. rewrite FF. unfold AppendEndMarker, json_obj, jt_members. rewrite <- ?app_assoc. reflexivity.
      * destruct E3 as (v1 & v2 & _ & J2 & _). eapply Json_good; eauto.
    + cbn [Cbor2JsonP.json_cval jt_cval]. rewrite Ha. eexists; split; [reflexivity|exact E3].
Qed.

(* ---- whole events ---- *)
Lemma shapes_of kvs : wf_fields kvs -> small_fields kvs -> fields_c08 kvs ->
  Forall (fun kv => val_shape (snd kv)) kvs /\
  Forall (fun kv => forall t1, dec_cval (snd kv) = Some t1 -> Eq3 t1 (jt_cval (snd kv))) kvs /\
  exists ps, all_some (map (fun kv => option_map (fun j => (appendQuotedJSON (fst kv), j)) (dec_cval (snd kv))) kvs) = Some ps.
Proof.
  intros W Sm C8.
  assert (Hall : Forall (fun kv => val_shape (snd kv) /\ exists t1, dec_cval (snd kv) = Some t1 /\ Eq3 t1 (jt_cval (snd kv))) kvs).
  { unfold wf_fields, small_fields, fields_c08 in *. rewrite Forall_forall in *. intros kv Hin.
    destruct (W kv Hin) as [_ Wv]. destruct (Sm kv Hin) as [_ Sv]. apply cval_eq3; auto. }
  split; [eapply Forall_impl; [|exact Hall]; intros kv [H _]; exact H|]. split.
  - eapply Forall_impl; [|exact Hall]. intros kv [_ (t & Et & E3)] t1 E1. congruence.
  - clear -Hall. induction Hall as [|[k x] t [_ (t1 & E1 & _)] _ (ps & IH)]; [exists []; reflexivity|].
    cbn [map all_some fst snd] in *. rewrite E1. cbn [option_map]. rewrite IH. eexists; reflexivity.
Qed.

Lemma jenc_event_shape kvs : Forall (fun kv => val_shape (snd kv)) kvs ->
  jenc_event kvs = json_obj (jt_members kvs) ++ [10].
Proof.
  intros Fs. unfold JsonEv.json_event, JsonEv.json_fields.
  pose proof (fields_fold_j kvs Fs [] [] ltac:(constructor)) as FF. cbn [join_pairs app] in FF.
  unfold AppendBeginMarker. cbn [app]. rewrite FF. unfold AppendLineBreak, AppendEndMarker, json_obj. rewrite <- ?app_assoc. reflexivity.
Qed.

Theorem decode_equiv kvs : wf_fields kvs -> small_fields kvs -> fields_c08 kvs ->
  exists t1 v1 t2 v2,
    decodes Orc (enc_event f64_of_time f64_of_dur kvs) t1 /\ Json t1 v1 /\
    jenc_event kvs = t2 ++ [10] /\ Json t2 v2 /\ jv_equiv v1 v2.
Proof.
  intros W Sm C8. destruct (shapes_of kvs W Sm C8) as (Fs & Fe & ps & Ha).
  destruct (members_eq3 kvs Fe ps Ha) as (v1 & v2 & J1 & J2 & E).
  exists (json_obj ps), v1, (json_obj (jt_members kvs)), v2.
  split; [|split; [exact J1|split; [apply jenc_event_shape; auto|split; [exact J2|exact E]]]].
  apply (event_decodes Orc f64_of_time f64_of_dur f64_of_time_range f64_of_dur_range); auto.
  unfold Cbor2JsonP.json_fields. rewrite Ha. reflexivity.
Qed.

(* the same through the stream decoder: one line, no error *)
Corollary decode_equiv_line kvs : wf_fields kvs -> small_fields kvs -> fields_c08 kvs ->
  fits_memory (enc_event f64_of_time f64_of_dur kvs) ->
  exists t1 v1 t2 v2 a,
    cbor2json Orc (enc_event f64_of_time f64_of_dur kvs) = (t1 ++ [10], FOk, a) /\ Json t1 v1 /\
    jenc_event kvs = t2 ++ [10] /\ Json t2 v2 /\ jv_equiv v1 v2.
Proof.
  intros W Sm C8 Hm. destruct (decode_equiv kvs W Sm C8) as (t1 & v1 & t2 & v2 & D & J1 & E2 & J2 & E).
  destruct (stream_decodes Orc [enc_event f64_of_time f64_of_dur kvs] [t1]) as (a & R).
  { constructor; [exact D|constructor]. } { cbn [concat]. rewrite app_nil_r. exact Hm. }
  cbn [concat] in R. rewrite app_nil_r in R. unfold lines in R. cbn [map concat] in R. rewrite app_nil_r in R.
  exists t1, v1, t2, v2, a. auto.
Qed.

(* ---- the context splice of the JSON build (log.go newEvent): the line of
   (pre, ctx, ev) is the line of the concatenated field list ---- *)
Lemma join_pairs_app ps qs : ps <> [] -> qs <> [] -> join_pairs (ps ++ qs) = join_pairs ps ++ [44] ++ join_pairs qs.
Proof.
  intros Hp. revert ps Hp. induction qs as [|[k t] qs IH] using rev_ind; intros ps Hp Hq; [congruence|].
  destruct qs as [|q qs'].
  - cbn [app]. rewrite join_pairs_snoc by auto. reflexivity.
  - rewrite app_assoc. rewrite join_pairs_snoc by (destruct ps; [congruence|discriminate]).
    rewrite IH by (auto; discriminate). rewrite (join_pairs_snoc (q :: qs')) by discriminate. rewrite <- !app_assoc. reflexivity.
Qed.

Lemma members_good kvs : Forall (fun kv => val_shape (snd kv)) kvs -> Forall (fun p : list N * list N => good_txt (snd p)) (jt_members kvs).
Proof. intros F. unfold jt_members. apply Forall_forall. intros p Hp. apply in_map_iff in Hp as (kv & <- & Hin). rewrite Forall_forall in F. apply (F kv Hin). Qed.

Theorem json_context_splice pre ctx ev :
  Forall (fun kv => val_shape (snd kv)) pre -> Forall (fun kv => val_shape (snd kv)) ctx -> Forall (fun kv => val_shape (snd kv)) ev ->
  JsonEv.json_event_ctx JO prec f64_of_dur pre ctx ev = jenc_event (pre ++ ctx ++ ev).
Proof.
  intros Fp Fc Fe.
  assert (Fall : Forall (fun kv => val_shape (snd kv)) (pre ++ ctx ++ ev)) by (repeat (apply Forall_app; split); auto).
  rewrite (jenc_event_shape _ Fall). unfold JsonEv.json_event_ctx, JsonEv.json_context, JsonEv.json_fields.
  pose proof (fields_fold_j pre Fp [] [] ltac:(constructor)) as Ep. cbn [join_pairs app] in Ep.
  pose proof (fields_fold_j ctx Fc [] [] ltac:(constructor)) as Ec. cbn [join_pairs app] in Ec.
  unfold AppendBeginMarker. cbn [app]. rewrite Ep, Ec.
  set (mp := jt_members pre). set (mc := jt_members ctx).
  assert (Gp : Forall (fun p : list N * list N => good_txt (snd p)) mp) by (apply members_good; auto).
  assert (Gc : Forall (fun p : list N * list N => good_txt (snd p)) mc) by (apply members_good; auto).
  assert (Hbuf : (if 1 <? N.of_nat (length (123 :: join_pairs mc)) then AppendObjectData (123 :: join_pairs mp) (123 :: join_pairs mc) else 123 :: join_pairs mp)
                 = [] ++ [123] ++ join_pairs (mp ++ mc)).
  { destruct mc as [|c mc'] eqn:Emc.
    - cbn [join_pairs length]. rewrite app_nil_r. reflexivity.
    - destruct (join_pairs_good (c :: mc') ltac:(discriminate) Gc) as [Hn _].
      assert (L1 : (1 <? N.of_nat (length (123 :: join_pairs (c :: mc')))) = true).
      { destruct (join_pairs (c :: mc')); [congruence|]. cbn [length]. lia. }
      rewrite L1. unfold AppendObjectData. destruct mp as [|a mp'] eqn:Emp.
      + cbn [join_pairs length app]. reflexivity.
      + destruct (join_pairs_good (a :: mp') ltac:(discriminate) Gp) as [Hn2 _].
        assert (L2 : (1 <? N.of_nat (length (123 :: join_pairs (a :: mp')))) = true).
        { destruct (join_pairs (a :: mp')); [congruence|]. cbn [length]. lia. }
        rewrite L2. rewrite join_pairs_app by discriminate. cbn [app]. rewrite <- !app_assoc. reflexivity. }
  rewrite Hbuf.
  pose proof (fields_fold_j ev Fe [] (mp ++ mc) ltac:(apply Forall_app; split; auto)) as Ee.
  rewrite Ee. unfold AppendLineBreak, AppendEndMarker, json_obj, jt_members, mp, mc. rewrite !map_app. cbn [app].
  rewrite <- ?app_assoc. reflexivity.
Qed.

(* ---- the two fixed defects as theorems ---- *)
(* e480b62: every unsigned and signed 64-bit integer decodes to its exact decimal text
   (the text the JSON build prints), which reads back as the number *)
Theorem uint_exact n : (n < 2 ^ 64) ->
  item_json Orc (cbor_AppendUint64 [] n) (print_N n) /\ AppendUint [] n = print_N n /\ parse_N (print_N n) = Some n.
Proof. intros H. split; [apply json_uint; auto|]. split; [reflexivity|apply parse_print_N]. Qed.

Theorem int_exact z : int64_ok z ->
  item_json Orc (cbor_AppendInt64 [] z) (print_Z z) /\ AppendInt [] z = print_Z z /\ parse_Z (print_Z z) = Some z.
Proof. intros H. split; [apply json_int; auto|]. split; [reflexivity|apply parse_print_Z]. Qed.

(* cb46159: Bytes decode with the escaping of text strings: the JSON build's
   string text, a JSON string that denotes Go's reading of the bytes *)
Theorem bytes_escaped s : wf_str s -> (len s < 2 ^ 63) ->
  item_json Orc (cbor_AppendBytes [] s) (json_string s) /\
  item_json Orc (cbor_AppendString [] s) (json_string s) /\
  AppendBytes [] s = json_string s /\ JString (json_string s) (go_runes s).
Proof.
  intros W H. rewrite <- quoted_json_string. split; [apply json_bytes; auto|]. split; [apply Cbor2JsonP.json_string; auto|].
  split; [rewrite quoted_json_string; reflexivity|]. rewrite quoted_json_string. apply json_string_good_all.
Qed.
End C08.

(* ------------------------------------------------------------------ *)
(* fractional timestamps (partial)                                     *)
(* ------------------------------------------------------------------ *)
(* The binary format carries a fractional instant as float64 seconds (CBOR
   tag 1), the decoder prints that float with RFC3339Nano; the JSON build
   prints the exact instant with its layout.  What can be said needs the
   numeric meaning of float bits and of timestamp texts, which are oracles:
     val64 bits : the rational value of a finite float64 pattern
     inst txt   : the instant (seconds since the epoch) a timestamp text denotes
   Assumed: (A1) the conversion float64(secs) + float64(nanos)*1e-9 is within
   e1 of the exact instant (|secs| < 2^33: e1 = 2^-20 s); (A2) the decoder's
   text of a float denotes an instant within e2 of the float (it splits the
   float into seconds and nanoseconds: e2 = 2^-20 s + 1 ns); (A3) the JSON
   layout (RFC3339: whole seconds) denotes the instant truncated to seconds.
   Then the decoded text denotes an instant within e1 + e2 of the logged one,
   and the two texts agree at the precision of the JSON layout up to that
   tolerance. *)
Section TimePartial.
Local Open Scope Q_scope.
Variable Orc : oracle.
Variable JO : joracle.
Variable f64_of_time : Z -> N -> N.
Variable val64 : N -> Q.
Variable inst : list N -> option Q.
Variables e1 e2 : Q.

Definition exact_instant (secs : Z) (nanos : N) : Q := inject_Z secs + inject_Z (Z.of_N nanos) / inject_Z 1000000000.

Theorem time_partial secs nanos txt q j :
  nanos <> 0%N -> (nanos < 1000000000)%N ->
  o_tsf Orc W64 (canon64 (f64_of_time secs nanos)) = Some txt ->
  (* A1 *) Qabs (val64 (canon64 (f64_of_time secs nanos)) - exact_instant secs nanos) <= e1 ->
  (* A2 *) inst txt = Some q -> Qabs (q - val64 (canon64 (f64_of_time secs nanos))) <= e2 ->
  (* A3 *) inst (jo_time JO (secs, nanos)) = Some j -> j = inject_Z secs ->
  time_json Orc f64_of_time (secs, nanos) = Some (CborDec.quote txt) /\
  Qabs (q - exact_instant secs nanos) <= e1 + e2 /\
  (j <= q + (e1 + e2) /\ q - (e1 + e2) < j + 1).
Proof.
  intros Hn Hlt Ho A1 Hq A2 Hj Ej.
  split.
  { unfold time_json. replace (nanos =? 0)%N with false by lia. rewrite Ho. reflexivity. }
  apply Qabs_Qle_condition in A1. apply Qabs_Qle_condition in A2.
  assert (Hx : 0 <= exact_instant secs nanos - inject_Z secs /\ exact_instant secs nanos - inject_Z secs < 1).
  { unfold exact_instant. 
    assert (H0 : 0 <= inject_Z (Z.of_N nanos) / inject_Z 1000000000).
    { apply Qle_shift_div_l; [reflexivity|]. rewrite Qmult_0_l. change 0 with (inject_Z 0). rewrite <- Zle_Qle. lia. }
    assert (H1 : inject_Z (Z.of_N nanos) / inject_Z 1000000000 < 1).
    { apply Qlt_shift_div_r; [reflexivity|]. rewrite Qmult_1_l. rewrite <- Zlt_Qlt. lia. }
    split; lra. }
  split.
  - apply Qabs_Qle_condition. lra.
  - subst j. lra.
Qed.
End TimePartial.

(* ------------------------------------------------------------------ *)
(* the oracle hypotheses as one record, and the main statements        *)
(* ------------------------------------------------------------------ *)
Record c08_oracles (Orc : oracle) (JO : joracle) (f64_of_time : Z -> N -> N) (f64_of_dur : Z -> Z -> N) : Prop := {
  co_time_range : forall s n, f64_of_time s n < 2 ^ 64;
  co_dur_range : forall d u, f64_of_dur d u < 2 ^ 64;
  co_bits32 : forall b, f_bits (jo_f32 JO b) = b;
  co_bits64 : forall b, f_bits (jo_f64 JO b) = b;
  co_f32 : forall b, o_f32 Orc b = Some (f_txt_f (jo_f32 JO b));
  co_f64 : forall b, o_f64 Orc b = Some (f_txt_f (jo_f64 JO b));
  co_fa32 : forall b, float_texts_agree (jo_f32 JO b);
  co_fa64 : forall b, float_texts_agree (jo_f64 JO b);
  co_time : forall secs, o_tsi Orc secs = Some (jo_time JO (secs, 0));
  co_time_plain : forall t, plain_text (jo_time JO t) }.

Theorem C08_main Orc JO ft fd : c08_oracles Orc JO ft fd ->
  forall kvs, wf_fields kvs -> small_fields kvs -> fields_c08 JO kvs ->
  exists t1 v1 t2 v2,
    decodes Orc (enc_event ft fd kvs) t1 /\ Json t1 v1 /\
    JsonEv.json_event JO (-1) fd kvs = t2 ++ [10] /\ Json t2 v2 /\ jv_equiv v1 v2.
Proof. intros [H1 H2 H3 H4 H5 H6 H7 H8 H9 H10]. apply decode_equiv; auto. Qed.

Theorem C08_main_line Orc JO ft fd : c08_oracles Orc JO ft fd ->
  forall kvs, wf_fields kvs -> small_fields kvs -> fields_c08 JO kvs -> fits_memory (enc_event ft fd kvs) ->
  exists t1 v1 t2 v2 a,
    cbor2json Orc (enc_event ft fd kvs) = (t1 ++ [10], FOk, a) /\ Json t1 v1 /\
    JsonEv.json_event JO (-1) fd kvs = t2 ++ [10] /\ Json t2 v2 /\ jv_equiv v1 v2.
Proof. intros [H1 H2 H3 H4 H5 H6 H7 H8 H9 H10]. apply decode_equiv_line; auto. Qed.

Theorem C08_prim Orc JO ft fd : c08_oracles Orc JO ft fd ->
  forall p, wf_prim p -> small_prim p -> prim_c08 JO p ->
  exists t1 v1 v2, Cbor2JsonP.json_prim Orc ft fd p = Some t1 /\ item_json Orc (enc_prim ft fd [] p) t1 /\
    (forall dst, JsonEv.json_prim JO (-1) fd dst p = dst ++ jt_prim JO fd p) /\
    Json t1 v1 /\ Json (jt_prim JO fd p) v2 /\ jv_equiv v1 v2.
Proof.
  intros [H1 H2 H3 H4 H5 H6 H7 H8 H9 H10] p W Sm C8.
  destruct (prim_eq3 Orc JO ft fd H3 H4 H5 H6 H7 H8 H9 H10 p W Sm C8) as (t1 & E1 & v1 & v2 & J1 & J2 & E).
  exists t1, v1, v2. split; auto. split; [apply (prim_decodes Orc ft fd H1 H2); auto|].
  split; [intros; apply jenc_prim_shape|auto].
Qed.

Theorem C08_splice Orc JO ft fd : c08_oracles Orc JO ft fd ->
  forall pre ctx ev, wf_fields (pre ++ ctx ++ ev) -> small_fields (pre ++ ctx ++ ev) -> fields_c08 JO (pre ++ ctx ++ ev) ->
  JsonEv.json_event_ctx JO (-1) fd pre ctx ev = JsonEv.json_event JO (-1) fd (pre ++ ctx ++ ev).
Proof.
  intros [H1 H2 H3 H4 H5 H6 H7 H8 H9 H10] pre ctx ev W Sm C8.
  destruct (shapes_of Orc JO ft fd H3 H4 H5 H6 H7 H8 H9 H10 _ W Sm C8) as (Fs & _).
  apply Forall_app in Fs as [Fp Fs]. apply Forall_app in Fs as [Fc Fe].
  eapply json_context_splice; eauto.
Qed.

(* ---- fractional timestamps far from the epoch: the binary format cannot carry them ----
   CBOR tag 1 carries float64 seconds.  Every float64 is m * 2^e with |m| < 2^53.
   T9 is the instant 2^34 s + 123456789 ns (year 2514) in nanoseconds.  No float64 is
   within one microsecond of it: scaled by 10^9 * 2^18 (and by 2^(-18-e) when e < -18)
   the claim |m * 2^e - T9/10^9| > 10^-6 reads as below. *)
Definition T9 : Z := (2^34 * 10^9 + 123456789)%Z.
Lemma time_far_coarse : forall m p : Z, (1 <= p -> Z.abs (m * p * 10^9 - T9 * 2^18) > 10^3 * 2^18)%Z.
Proof. intros m p Hp. unfold T9. set (x := (m * p)%Z). clearbody x. lia. Qed.
Lemma time_far_fine : forall m p : Z, (2 <= p -> Z.abs m < 2^53 -> Z.abs (m * 10^9 - T9 * 2^18 * p) > 10^3 * 2^18 * p)%Z.
Proof. intros m p Hp Hm. unfold T9. lia. Qed.
Theorem time_far_refuted : forall m e : Z, (Z.abs m < 2^53)%Z ->
  if (-18 <=? e)%Z then (Z.abs (m * 2^(e+18) * 10^9 - T9 * 2^18) > 10^3 * 2^18)%Z
  else (Z.abs (m * 10^9 - T9 * 2^18 * 2^(-18-e)) > 10^3 * 2^18 * 2^(-18-e))%Z.
Proof.
  intros m e Hm. destruct (Z.leb_spec (-18) e) as [H|H].
  - apply time_far_coarse. assert (0 < 2^(e+18))%Z by (apply Z.pow_pos_nonneg; lia). lia.
  - apply time_far_fine; [|exact Hm].
    replace (-18 - e)%Z with (Z.succ (-19 - e)) by lia. rewrite Z.pow_succ_r by lia.
    assert (0 < 2^(-19-e))%Z by (apply Z.pow_pos_nonneg; lia). lia.
Qed.
