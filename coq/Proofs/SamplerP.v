(* Lemmas about Lts/Sampler.v.  Property theorems (Properties/C13.v) are closed
   by [exact] from the lemmas here. *)
From Verif Require Import Base.Prelude Misc.Level Lts.Sampler.
Open Scope N_scope.

(* ------------------------------------------------------------------ *)
(* BasicSampler, sequential                                            *)
(* ------------------------------------------------------------------ *)

(* results of k calls starting with counter value c (n >= 2) *)
Fixpoint basic_results (n c : N) (k : nat) : list bool :=
  match k with
  | O => []
  | S k' => let c' := inc32 c in (c' mod n =? 1) :: basic_results n c' k'
  end.

Fixpoint iter_inc (c : N) (k : nat) : N :=
  match k with O => c | S k' => iter_inc (inc32 c) k' end.

Lemma run_basic n c h : 2 <= n ->
  run_sampler (SBasic n c) h = (basic_results n c (length h), SBasic n (iter_inc c (length h))).
Proof.
  intros Hn. revert c. induction h as [|[now lvl] h IH]; intros c; cbn [run_sampler length basic_results iter_inc]; auto.
  cbn [sample]. unfold basic_sample.
  replace (n =? 0) with false by lia. replace (n =? 1) with false by lia.
  rewrite IH. reflexivity.
Qed.

Lemma iter_inc_closed c k : c < two32 -> iter_inc c k = (c + N.of_nat k) mod two32.
Proof.
  revert c. induction k as [|k IH]; intros c Hc; cbn [iter_inc].
  - rewrite N.add_0_r. rewrite N.mod_small; auto.
  - rewrite IH by (unfold inc32, two32; apply N.mod_upper_bound; lia).
    unfold inc32. rewrite N.add_mod_idemp_l by (unfold two32; lia). f_equal. lia.
Qed.

(* closed form of the i-th decision *)
Lemma basic_results_nth n c k i : c < two32 -> (i < k)%nat ->
  nth i (basic_results n c k) false = (((c + N.of_nat i + 1) mod two32) mod n =? 1).
Proof.
  revert c i. induction k as [|k IH]; intros c i Hc Hi; [lia|].
  cbn [basic_results]. destruct i as [|i].
  - cbn [nth]. unfold inc32. rewrite N.add_0_r. reflexivity.
  - cbn [nth]. rewrite IH; [|unfold inc32, two32; apply N.mod_upper_bound; lia|lia].
    unfold inc32. f_equal. f_equal.
    rewrite <- N.add_assoc. rewrite N.add_mod_idemp_l by (unfold two32; lia). f_equal. lia.
Qed.

Lemma basic_results_length n c k : length (basic_results n c k) = k.
Proof. revert c; induction k as [|k IH]; intros c; cbn; auto. Qed.

(* without wrap: the decisions are "i mod n = 0" for the i-th call (0-based) *)
Definition every_nth (n : N) (k : nat) : list bool := map (fun i => N.of_nat i mod n =? 0) (seq 0 k).

Lemma mod_succ_eq_1 a n : 2 <= n -> ((a + 1) mod n =? 1) = (a mod n =? 0).
Proof.
  intros Hn.
  pose proof (N.div_mod' a n) as Ha. pose proof (N.mod_upper_bound a n ltac:(lia)) as Hr.
  set (q := a / n) in *. set (r := a mod n) in *. clearbody q r.
  destruct (r =? 0) eqn:E.
  - apply N.eqb_eq in E. apply N.eqb_eq.
    symmetry. apply (N.mod_unique _ _ q); lia.
  - apply N.eqb_neq in E. apply N.eqb_neq. intros C.
    destruct (N.eq_dec (r + 1) n) as [Q|Q].
    + assert ((a + 1) mod n = 0); [|lia].
      symmetry. apply (N.mod_unique _ _ (q + 1)); lia.
    + assert ((a + 1) mod n = r + 1); [|lia].
      symmetry. apply (N.mod_unique _ _ q); lia.
Qed.

Lemma basic_results_nowrap n k c0 : 2 <= n -> c0 + N.of_nat k < two32 ->
  basic_results n c0 k = map (fun i => (c0 + N.of_nat i) mod n =? 0) (seq 0 k).
Proof.
  intros Hn. revert c0. unfold two32. induction k as [|k IH]; intros c0 Hk; [reflexivity|].
  cbn [basic_results seq map]. unfold two32 in *. f_equal.
  - unfold inc32, two32. rewrite (N.mod_small (c0 + 1)) by lia. rewrite mod_succ_eq_1 by lia. f_equal. f_equal. lia.
  - unfold inc32, two32. rewrite (N.mod_small (c0 + 1)) by lia. rewrite IH by lia.
    rewrite <- seq_shift, map_map. apply map_ext. intros i. f_equal. f_equal. lia.
Qed.

Lemma count_every_nth n k : 1 <= n -> count_true (every_nth n k) = (N.of_nat k + n - 1) / n.
Proof.
  intros Hn. unfold every_nth. induction k as [|k IH].
  - cbn. symmetry. apply N.div_small. lia.
  - rewrite seq_S, map_app, count_true_app, IH. cbn [map count_true Nat.add].
    set (a := N.of_nat k).
    replace (N.of_nat (S k) + n - 1) with (a + n) by lia.
    pose proof (N.div_mod' a n) as Ha. pose proof (N.mod_upper_bound a n ltac:(lia)) as Hr.
    set (q := a / n) in *. set (r := a mod n) in *. clearbody q r.
    destruct (r =? 0) eqn:E.
    + apply N.eqb_eq in E.
      assert (H1 : (a + n - 1) / n = q) by (symmetry; apply (N.div_unique _ _ _ (n - 1)); lia).
      assert (H2 : (a + n) / n = q + 1) by (symmetry; apply (N.div_unique _ _ _ 0); lia).
      rewrite H1, H2. cbn [count_true]. lia.
    + apply N.eqb_neq in E.
      assert (H1 : (a + n - 1) / n = q + 1) by (symmetry; apply (N.div_unique _ _ _ (r - 1)); lia).
      assert (H2 : (a + n) / n = q + 1) by (symmetry; apply (N.div_unique _ _ _ r); lia).
      rewrite H1, H2. cbn [count_true]. lia.
Qed.

(* the sequential statement: for every history of k < 2^32 Sample calls on a
   fresh BasicSampler{N}, the decisions are exactly "every N-th, the first
   included" and their number is ceil(k/N) *)
Lemma basic_exact n h : 2 <= n -> N.of_nat (length h) < two32 ->
  fst (run_sampler (SBasic n 0) h) = every_nth n (length h) /\
  count_true (fst (run_sampler (SBasic n 0) h)) = (N.of_nat (length h) + n - 1) / n.
Proof.
  intros Hn Hk. rewrite run_basic by lia. cbn [fst].
  rewrite basic_results_nowrap by lia. split.
  - reflexivity.
  - rewrite <- count_every_nth by lia. reflexivity.
Qed.

(* when N divides 2^32 the wrap is harmless: the statement holds for every k *)
Lemma basic_results_div n k c0 : 2 <= n -> two32 mod n = 0 -> c0 < two32 ->
  basic_results n c0 k = map (fun i => (c0 + N.of_nat i) mod n =? 0) (seq 0 k).
Proof.
  intros Hn Hd. revert c0. induction k as [|k IH]; intros c0 Hc; [reflexivity|].
  assert (Hmm : forall a, (a mod two32) mod n = a mod n).
  { intros a. pose proof (N.div_mod' a two32) as Ha.
    pose proof (N.div_mod' two32 n) as Ht. rewrite Hd, N.add_0_r in Ht.
    rewrite Ha at 2. rewrite Ht at 2.
    rewrite <- N.mul_assoc, N.mul_comm, N.add_comm, N.mod_add by lia. reflexivity. }
  cbn [basic_results seq map]. f_equal.
  - unfold inc32. rewrite Hmm. rewrite mod_succ_eq_1 by lia. f_equal. f_equal. lia.
  - rewrite IH by (unfold inc32, two32; apply N.mod_upper_bound; lia).
    rewrite <- seq_shift, map_map. apply map_ext. intros i.
    unfold inc32. f_equal.
    rewrite <- (Hmm (_ + N.of_nat i)). rewrite N.add_mod_idemp_l by (unfold two32; lia).
    rewrite Hmm. f_equal. lia.
Qed.

Lemma basic_exact_div n h : 2 <= n -> two32 mod n = 0 ->
  fst (run_sampler (SBasic n 0) h) = every_nth n (length h) /\
  count_true (fst (run_sampler (SBasic n 0) h)) = (N.of_nat (length h) + n - 1) / n.
Proof.
  intros Hn Hd. rewrite run_basic by lia. cbn [fst].
  rewrite basic_results_div by (auto; unfold two32; lia). split.
  - reflexivity.
  - rewrite <- count_every_nth by lia. reflexivity.
Qed.

Lemma basic_zero cnt h : fst (run_sampler (SBasic 0 cnt) h) = repeat false (length h)
  /\ snd (run_sampler (SBasic 0 cnt) h) = SBasic 0 cnt.
Proof.
  induction h as [|[now lvl] h [IH1 IH2]]; cbn [run_sampler length repeat]; auto.
  cbn [sample]. unfold basic_sample. cbn [N.eqb].
  destruct (run_sampler (SBasic 0 cnt) h) as [rs s'] eqn:E. cbn [fst snd] in *. subst. auto.
Qed.

Lemma basic_one cnt h : fst (run_sampler (SBasic 1 cnt) h) = repeat true (length h)
  /\ snd (run_sampler (SBasic 1 cnt) h) = SBasic 1 cnt.
Proof.
  induction h as [|[now lvl] h [IH1 IH2]]; cbn [run_sampler length repeat]; auto.
  cbn [sample]. unfold basic_sample. cbn [N.eqb Pos.eqb].
  destruct (run_sampler (SBasic 1 cnt) h) as [rs s'] eqn:E. cbn [fst snd] in *. subst. auto.
Qed.

(* ------------------------------------------------------------------ *)
(* K5: the uint32 wrap                                                 *)
(* ------------------------------------------------------------------ *)
(* after 2^32-4 calls on a fresh BasicSampler{3} the counter is 2^32-4 (closed
   form), and the next five calls give admit, reject, reject, reject, admit:
   three rejected events between two admissions where N=3 promises two. *)
Lemma basic_wrap_witness :
  (forall k : nat, N.of_nat k = two32 - 4 -> iter_inc 0 k = two32 - 4) /\
  basic_results 3 (two32 - 4) 5 = [true; false; false; false; true].
Proof.
  split.
  - intros k Hk. rewrite iter_inc_closed by (unfold two32; lia). rewrite Hk. vm_compute. reflexivity.
  - vm_compute. reflexivity.
Qed.

(* the index 2^32-1 exists as a natural number (never computed in unary) *)
Lemma wrap_index_exists : exists i : nat, N.of_nat i = two32 - 1.
Proof. exists (N.to_nat (two32 - 1)). apply N2Nat.id. Qed.

(* in terms of the property's wording: the decision of call number 2^32-1
   (0-based) on a fresh BasicSampler{3} is "reject" although 3 divides 2^32-1 *)
Lemma basic_wrap_refuted :
  forall i : nat, N.of_nat i = two32 - 1 ->
    (N.of_nat i mod 3 =? 0) = true /\
    forall k, (i < k)%nat -> nth i (basic_results 3 0 k) false = false.
Proof.
  intros i Hi. split; [rewrite Hi; vm_compute; reflexivity|].
  intros k Hk. rewrite basic_results_nth by (auto; unfold two32; lia).
  rewrite Hi. vm_compute. reflexivity.
Qed.

(* ------------------------------------------------------------------ *)
(* BasicSampler, concurrent                                            *)
(* ------------------------------------------------------------------ *)
(* every schedule's decision sequence (in the order the atomic adds took
   effect) is the sequential one *)
Lemma bstep_log n s t : 2 <= n ->
  map snd (b_log s) = basic_results n 0 (length (b_log s)) ->
  b_cnt s = iter_inc 0 (length (b_log s)) ->
  let s' := bstep n s t in
  map snd (b_log s') = basic_results n 0 (length (b_log s')) /\
  b_cnt s' = iter_inc 0 (length (b_log s')).
Proof.
  intros Hn Hl Hc. unfold bstep.
  destruct (nth_error (b_todo s) t) as [[|k]|]; cbn zeta; auto.
  unfold basic_sample. replace (n =? 0) with false by lia. replace (n =? 1) with false by lia.
  cbn [b_log b_cnt]. rewrite app_length, map_app, Hl. cbn [length map snd].
  rewrite Nat.add_1_r.
  assert (G : forall k c, basic_results n c (S k) = basic_results n c k ++ [inc32 (iter_inc c k) mod n =? 1]).
  { clear. induction k as [|k IH]; intros c; [reflexivity|].
    change (basic_results n c (S (S k))) with ((inc32 c mod n =? 1) :: basic_results n (inc32 c) (S k)).
    rewrite IH. reflexivity. }
  assert (G2 : forall k c, iter_inc c (S k) = inc32 (iter_inc c k)).
  { clear. induction k as [|k IH]; intros c; [reflexivity|].
    change (iter_inc c (S (S k))) with (iter_inc (inc32 c) (S k)). rewrite IH. reflexivity. }
  rewrite G, G2, Hc. auto.
Qed.

Lemma brun_sequential n todo sched : 2 <= n ->
  let s := brun n todo sched in
  map snd (b_log s) = basic_results n 0 (length (b_log s)) /\
  b_cnt s = iter_inc 0 (length (b_log s)).
Proof.
  intros Hn. unfold brun.
  set (s0 := {| b_cnt := 0; b_todo := todo; b_log := [] |}).
  assert (H0 : map snd (b_log s0) = basic_results n 0 (length (b_log s0)) /\ b_cnt s0 = iter_inc 0 (length (b_log s0))) by (cbn; auto).
  revert H0. generalize s0. induction sched as [|t sched IH]; intros s [H1 H2]; cbn [fold_left]; auto.
  apply IH. apply bstep_log; auto.
Qed.

(* number of calls made: every step by a thread with work left logs exactly
   one decision, and a thread never exceeds its quota *)
Definition total (l : list nat) : nat := fold_right Nat.add 0%nat l.

Lemma total_upd l t k : nth_error l t = Some (S k) -> total l = S (total (upd l t k)).
Proof.
  revert t. induction l as [|x l IH]; intros [|t] H; cbn [nth_error upd] in *; try discriminate.
  - inversion H; subst. unfold total; cbn [fold_right]. lia.
  - unfold total in *; cbn [fold_right]. rewrite (IH _ H). lia.
Qed.

Lemma brun_conservation n todo sched :
  let s := brun n todo sched in (length (b_log s) + total (b_todo s) = total todo)%nat.
Proof.
  unfold brun.
  set (s0 := {| b_cnt := 0; b_todo := todo; b_log := [] |}).
  assert (H0 : (length (b_log s0) + total (b_todo s0) = total todo)%nat) by reflexivity.
  revert H0. generalize s0. induction sched as [|t sched IH]; intros s H; cbn [fold_left]; auto.
  apply IH. unfold bstep. destruct (nth_error (b_todo s) t) as [[|k]|] eqn:E; auto.
  destruct (basic_sample n (b_cnt s)) as [r c]. cbn [b_log b_todo].
  rewrite app_length. cbn [length]. rewrite (total_upd _ _ _ E) in H. lia.
Qed.

Lemma basic_concurrent n todo sched : 2 <= n ->
  let s := brun n todo sched in
  total (b_todo s) = 0%nat -> N.of_nat (total todo) < two32 ->
  map snd (b_log s) = every_nth n (total todo) /\
  count_true (map snd (b_log s)) = (N.of_nat (total todo) + n - 1) / n.
Proof.
  intros Hn s Hdone Hk.
  pose proof (brun_conservation n todo sched) as Hc. fold s in Hc. cbn zeta in Hc.
  destruct (brun_sequential n todo sched Hn) as [Hl _]. fold s in Hl.
  assert (L : length (b_log s) = total todo) by lia.
  rewrite Hl, L. rewrite basic_results_nowrap by lia.
  split.
  - reflexivity.
  - rewrite <- count_every_nth by lia. reflexivity.
Qed.

(* ------------------------------------------------------------------ *)
(* BurstSampler refines the window specification                       *)
(* ------------------------------------------------------------------ *)
Open Scope Z_scope.

Lemma burst_refines_gen burst period h : (0 < burst)%N -> 0 < period ->
  forall next w, (w_seen w < two32)%N -> burst_ok period w h ->
  fst (run_sampler (SBurst burst period next (w_seen w) (w_end w)) h) = burst_spec burst period next w h.
Proof.
  intros Hb Hp. induction h as [|[now lvl] h IH]; intros next w Hw Hok; [reflexivity|].
  cbn [burst_ok] in Hok. destruct Hok as [Hov [Hs Hok]].
  cbn [run_sampler burst_spec sample].
  replace ((0 <? burst)%N && (0 <? period)) with true by lia.
  unfold burst_inc, win_step in *. unfold burst_in_burst.
  destruct (now >=? w_end w) eqn:E; cbn [w_seen w_end] in *.
  - rewrite wrap64_id by lia.
    replace (1 <=? burst)%N with true by lia.
    specialize (IH next {| w_end := now + period; w_seen := 1 |} Hs Hok). cbn [w_seen w_end] in IH.
    destruct (run_sampler _ h) as [rs s']. cbn [fst] in *. rewrite IH. reflexivity.
  - unfold inc32. rewrite N.mod_small by lia.
    destruct (w_seen w + 1 <=? burst)%N eqn:E2.
    + specialize (IH next {| w_end := w_end w; w_seen := (w_seen w + 1)%N |} Hs Hok). cbn [w_seen w_end] in IH.
      destruct (run_sampler _ h) as [rs s']. cbn [fst] in *. rewrite IH. reflexivity.
    + destruct next as [nx|].
      * destruct (sample nx now lvl) as [r nx'].
        specialize (IH (Some nx') {| w_end := w_end w; w_seen := (w_seen w + 1)%N |} Hs Hok). cbn [w_seen w_end] in IH.
        destruct (run_sampler _ h) as [rs s']. cbn [fst] in *. rewrite IH. reflexivity.
      * specialize (IH None {| w_end := w_end w; w_seen := (w_seen w + 1)%N |} Hs Hok). cbn [w_seen w_end] in IH.
        destruct (run_sampler _ h) as [rs s']. cbn [fst] in *. rewrite IH. reflexivity.
Qed.

Lemma burst_refines burst period next h : (0 < burst)%N -> 0 < period ->
  burst_ok period {| w_end := 0; w_seen := 0 |} h ->
  fst (run_sampler (SBurst burst period next 0 0) h) = burst_spec burst period next {| w_end := 0; w_seen := 0 |} h.
Proof.
  intros Hb Hp Hok.
  apply (burst_refines_gen burst period h Hb Hp next {| w_end := 0; w_seen := 0 |}); auto.
  cbn. unfold two32. lia.
Qed.

(* Burst = 0 or Period <= 0: every event goes to NextSampler; reject if none *)
Lemma burst_disabled burst period h : (burst = 0%N \/ period <= 0) ->
  forall next cnt resetAt,
  fst (run_sampler (SBurst burst period next cnt resetAt) h) =
  match next with None => repeat false (length h) | Some nx => fst (run_sampler nx h) end.
Proof.
  intros Hz. induction h as [|[now lvl] h IH]; intros next cnt resetAt.
  - destruct next; reflexivity.
  - cbn [run_sampler sample].
    replace ((0 <? burst)%N && (0 <? period)) with false by lia.
    destruct next as [nx|].
    + destruct (sample nx now lvl) as [r nx'].
      specialize (IH (Some nx') cnt resetAt).
      destruct (run_sampler (SBurst _ _ _ _ _) h) as [rs s']. cbn [fst] in *. rewrite IH.
      destruct (run_sampler nx' h). reflexivity.
    + specialize (IH None cnt resetAt).
      destruct (run_sampler (SBurst _ _ _ _ _) h) as [rs s']. cbn [fst length repeat] in *. rewrite IH. reflexivity.
Qed.

(* ------------------------------------------------------------------ *)
(* LevelSampler                                                        *)
(* ------------------------------------------------------------------ *)
Definition sub_result (o : option sampler) now lvl : bool * option sampler :=
  match o with None => (true, None) | Some x => let '(r, x') := sample x now lvl in (r, Some x') end.

Lemma level_sampler_spec t d i w e now lvl :
  sample (SLevel t d i w e) now lvl =
  if lvl =? TraceLevel then let '(r, x) := sub_result t now lvl in (r, SLevel x d i w e)
  else if lvl =? DebugLevel then let '(r, x) := sub_result d now lvl in (r, SLevel t x i w e)
  else if lvl =? InfoLevel then let '(r, x) := sub_result i now lvl in (r, SLevel t d x w e)
  else if lvl =? WarnLevel then let '(r, x) := sub_result w now lvl in (r, SLevel t d i x e)
  else if lvl =? ErrorLevel then let '(r, x) := sub_result e now lvl in (r, SLevel t d i w x)
  else (true, SLevel t d i w e).
Proof.
  cbn [sample]. unfold sub_result.
  destruct (lvl =? TraceLevel). { destruct t as [x|]; [destruct (sample x now lvl)|]; reflexivity. }
  destruct (lvl =? DebugLevel). { destruct d as [x|]; [destruct (sample x now lvl)|]; reflexivity. }
  destruct (lvl =? InfoLevel). { destruct i as [x|]; [destruct (sample x now lvl)|]; reflexivity. }
  destruct (lvl =? WarnLevel). { destruct w as [x|]; [destruct (sample x now lvl)|]; reflexivity. }
  destruct (lvl =? ErrorLevel). { destruct e as [x|]; [destruct (sample x now lvl)|]; reflexivity. }
  reflexivity.
Qed.

(* ------------------------------------------------------------------ *)
(* the gate                                                            *)
(* ------------------------------------------------------------------ *)
Lemma gate_rejects_before_sampler g now lvl :
  (lvl < g_level g \/ lvl < g_global g) -> should g now lvl = (false, g).
Proof.
  intros H. unfold should. destruct (negb (g_has_writer g)); auto.
  replace ((lvl <? g_level g) || (lvl <? g_global g)) with true by lia. reflexivity.
Qed.

Lemma gate_disable_sampling g now lvl :
  g_has_writer g = true -> g_sampling_disabled g = true -> g_level g <= lvl -> g_global g <= lvl ->
  should g now lvl = (true, g).
Proof.
  intros Hw Hd H1 H2. unfold should. rewrite Hw, Hd. cbn [negb].
  replace ((lvl <? g_level g) || (lvl <? g_global g)) with false by lia.
  destruct (g_sampler g); reflexivity.
Qed.

Lemma gate_iff g now lvl :
  fst (should g now lvl) = true <->
  g_has_writer g = true /\ g_level g <= lvl /\ g_global g <= lvl /\
  match g_sampler g with
  | None => True
  | Some s => g_sampling_disabled g = true \/ fst (sample s now lvl) = true
  end.
Proof.
  unfold should. destruct (g_has_writer g); cbn [negb fst].
  2:{ split; [discriminate|]. intros [H _]; discriminate. }
  destruct ((lvl <? g_level g) || (lvl <? g_global g)) eqn:E; cbn [fst].
  { split; [discriminate|]. intros (_ & H1 & H2 & _). lia. }
  destruct (g_sampler g) as [s|]; cbn [fst].
  2:{ split; auto. intros _. repeat split; auto; lia. }
  destruct (g_sampling_disabled g); cbn [fst].
  { split; auto. intros _. repeat split; auto; lia. }
  destruct (sample s now lvl) as [r s']. cbn [fst].
  split.
  - intros ->. repeat split; auto; lia.
  - intros (_ & _ & _ & [H|H]); [discriminate|auto].
Qed.
