(* Obligations over the tables regenerated from /repo (coq/Gen): they tie the
   hand-written gate model (Misc/Level.v, Lts/Sampler.v should, Misc/Gate.v)
   to the current source.  Each is a finite check by vm_compute. *)
From Coq Require Import String List ZArith Bool.
From Verif Require Import Misc.GenTypes Gen.Consts Gen.LevelGate Gen.EventMethods Misc.Level.
Import ListNotations.
Local Open Scope string_scope.

(* the level constants of log.go are the ones the model uses *)
Lemma level_consts_ok :
  level_consts = [("DebugLevel", DebugLevel); ("InfoLevel", InfoLevel); ("WarnLevel", WarnLevel);
                  ("ErrorLevel", ErrorLevel); ("FatalLevel", FatalLevel); ("PanicLevel", PanicLevel);
                  ("NoLevel", NoLevel); ("Disabled", Disabled); ("TraceLevel", TraceLevel)].
Proof. vm_compute. reflexivity. Qed.

(* Logger.should has the shape the model transcribes: writer test, both
   level comparisons with these operators and operand order, sampler consulted
   last and only when sampling is not disabled *)
Lemma should_shape :
  should_stmts = ["if l.w == nil { return false }";
                  "if lvl < l.level || lvl < GlobalLevel() { return false }";
                  "if l.sampler != nil && !samplingDisabled() { return l.sampler.Sample(lvl) }";
                  "return true"].
Proof. vm_compute. reflexivity. Qed.

(* newEvent: gate first; a filtered event still runs its done callback (with
   the empty message) and is nil; an enabled one carries done *)
Lemma newEvent_shape :
  firstn 2 logger_newEvent_stmts =
    ["enabled := l.should(level)"; "if !enabled { if done != nil { done("""") } return nil }"] /\
  In "e.done = done" logger_newEvent_stmts.
Proof. vm_compute. split; [reflexivity|]. tauto. Qed.

Lemma withlevel_shape :
  withlevel_stmts =
    ["switch level { case TraceLevel: return l.Trace() case DebugLevel: return l.Debug() case InfoLevel: return l.Info() case WarnLevel: return l.Warn() case ErrorLevel: return l.Error() case FatalLevel: return l.newEvent(FatalLevel, nil) case PanicLevel: return l.newEvent(PanicLevel, nil) case NoLevel: return l.Log() case Disabled: return nil default: return l.newEvent(level, nil) }"].
Proof. vm_compute. reflexivity. Qed.

Lemma write_shape :
  event_write_stmts =
    ["if e == nil { return nil }";
     "if e.level != Disabled { e.buf = enc.AppendEndMarker(e.buf) e.buf = enc.AppendLineBreak(e.buf) if e.w != nil { _, err = e.w.WriteLevel(e.level, e.buf) } }";
     "putEvent(e)"; "return"].
Proof. vm_compute. reflexivity. Qed.

Lemma panic_fatal_shape :
  panic_stmts = ["return l.newEvent(PanicLevel, func(msg string) { panic(msg) })"] /\
  fatal_stmts = ["return l.newEvent(FatalLevel, func(msg string) { if closer, ok := l.w.(io.Closer); ok { closer.Close() } os.Exit(1) })"].
Proof. vm_compute. split; reflexivity. Qed.

(* every exported *Event method is inert on a nil receiver, as far as its
   guard shape tells (delegations followed) *)
Lemma event_methods_inert : all_exported_inert event_methods = true.
Proof. vm_compute. reflexivity. Qed.

Lemma event_methods_no_opaque : no_opaque event_methods = true.
Proof. vm_compute. reflexivity. Qed.
