(* C08 groundwork: what the decoder (Enc/CborDec.v) makes of the bytes of each
   encoder primitive (Enc/CborEnc.v), and of arrays / dicts / events built
   from them.  The decoder is executed symbolically on [encoding ++ rest];
   the allocation meter is erased ([exec]). *)
From Verif Require Import Base.Prelude Base.Decimal Base.CborSpec Enc.CborEnc Enc.CborDec
  Proofs.CborSpecP Proofs.CborEncP Proofs.CborDecP.
Open Scope N_scope.

(* ------------------------------------------------------------------ *)
(* execution with the meter erased                                     *)
(* ------------------------------------------------------------------ *)
Definition na {A} (r : res A) : res A :=
  match r with
  | Ret a s => Ret a (mkst (rest s) (outr s) 0)
  | Fail k s => Fail k (mkst (rest s) (outr s) 0)
  | Crash k s => Crash k (mkst (rest s) (outr s) 0)
  | OOF => OOF
  end.

Definition exec {A} (p : prog A) (r o : list N) : res A := na (run p (mkst r o 0)).

Lemma exec_alloc_irrelevant {A} (p : prog A) r o a : na (run p (mkst r o a)) = exec p r o.
Proof.
  unfold exec. pose proof (run_shift p (mkst r o 0) [] a) as H. unfold shift_st in H. cbn [rest outr alloc] in H.
  rewrite app_nil_r, N.add_0_l in H. rewrite H. destruct (run p (mkst r o 0)) as [x s|k s|k s|]; cbn; try rewrite app_nil_r; reflexivity.
Qed.

Lemma exec_bind {A B} (p : prog A) (f : A -> prog B) r o :
  exec (pbind p f) r o =
  match exec p r o with
  | Ret a s => exec (f a) (rest s) (outr s)
  | Fail k s => Fail k s
  | Crash k s => Crash k s
  | OOF => OOF
  end.
Proof.
  unfold exec at 1 2. rewrite run_pbind. destruct (run p (mkst r o 0)) as [x s|k s|k s|]; cbn [na rest outr]; auto.
  destruct s as [r' o' a']. cbn [rest outr]. apply exec_alloc_irrelevant.
Qed.

Lemma exec_ret {A} (a : A) r o : exec (PRet a) r o = Ret a (mkst r o 0).
Proof. reflexivity. Qed.
Lemma exec_readbyte {A} (k : N -> prog A) b r o : exec (PReadByte k) (b :: r) o = exec (k b) r o.
Proof. reflexivity. Qed.
Lemma exec_peekrb {A} (k : N -> prog A) b r o : exec (PPeekRB k) (b :: r) o = exec (k b) (b :: r) o.
Proof. reflexivity. Qed.
Lemma exec_peek {A} (k : N -> prog A) b r o : exec (PPeek k) (b :: r) o = exec (k b) (b :: r) o.
Proof. reflexivity. Qed.
Lemma exec_peek_app {A} (k : N -> prog A) e b te r o : e = b :: te -> exec (PPeek k) (e ++ r) o = exec (k b) (e ++ r) o.
Proof. intros ->. reflexivity. Qed.
Lemma exec_alloc {A} n (k : prog A) r o : exec (PAlloc n k) r o = exec k r o.
Proof. unfold exec. cbn [run rest outr alloc]. apply exec_alloc_irrelevant. Qed.
Lemma exec_write {A} bs (k : prog A) r o : exec (PWrite bs k) r o = exec k r (rev bs ++ o).
Proof. unfold exec. cbn [run rest outr alloc]. rewrite rev_append_rev. apply exec_alloc_irrelevant. Qed.

Lemma exec_run {A} (p : prog A) r o a x r' o' :
  exec p r o = Ret x (mkst r' o' 0) -> exists a', run p (mkst r o a) = Ret x (mkst r' o' a').
Proof.
  intros H. rewrite <- (exec_alloc_irrelevant p r o a) in H.
  destruct (run p (mkst r o a)) as [y s|k s|k s|]; cbn in H; try discriminate.
  inversion H; subst. destruct s as [r1 o1 a1]. cbn. eexists; reflexivity.
Qed.

Lemma split_at_exact bs r : split_at (bs ++ r) (N.of_nat (length bs)) [] = Some (bs, r).
Proof.
  apply (split_at_app bs _ bs [] r). rewrite split_at_spec.
  replace (N.of_nat (length bs) <? N.of_nat (length bs)) with false by lia.
  rewrite Nat2N.id, firstn_all, skipn_all. reflexivity.
Qed.

Lemma exec_readN {A} (k : list N -> prog A) bs r o :
  exec (PReadN (lenZ bs) k) (bs ++ r) o = exec (k bs) r o.
Proof.
  unfold exec. cbn [run rest outr alloc]. destruct (lenZ bs <=? 0)%Z eqn:E.
  - assert (bs = []) by (destruct bs; [auto|rewrite lenZ_cons in E; pose proof (lenZ_nonneg bs); lia]). subst. reflexivity.
  - replace (Z.to_N (lenZ bs)) with (N.of_nat (length bs)) by (unfold lenZ; lia).
    rewrite split_at_exact. apply exec_alloc_irrelevant.
Qed.

Lemma exec_readNBytes bs r o : exec (readNBytes (lenZ bs)) (bs ++ r) o = Ret bs (mkst r o 0).
Proof.
  unfold readNBytes, maxPrealloc. pose proof (lenZ_nonneg bs).
  replace (lenZ bs <? 0)%Z with false by lia.
  destruct (4096 <? lenZ bs)%Z.
  - change (4096 <? 0)%Z with false. cbv iota. rewrite exec_alloc, exec_readN. reflexivity.
  - replace (lenZ bs <? 0)%Z with false by lia. rewrite exec_alloc, exec_readN. reflexivity.
Qed.

(* ------------------------------------------------------------------ *)
(* initial bytes and arguments                                         *)
(* ------------------------------------------------------------------ *)
Lemma major_minor m ai : m < 8 -> ai < 32 -> major_of (m * 32 + ai) = m * 32 /\ minor_of (m * 32 + ai) = ai.
Proof.
  intros Hm Ha.
  assert (C : forallb (fun m => forallb (fun k => (major_of (m * 32 + k) =? m * 32) && (minor_of (m * 32 + k) =? k)) (rangeN 32)) (rangeN 8) = true)
    by (vm_compute; reflexivity).
  rewrite forallb_forall in C. specialize (C m (in_rangeN m 8 Hm)).
  rewrite forallb_forall in C. specialize (C ai (in_rangeN ai 32 Ha)).
  apply andb_true_iff in C as [C1 C2]. split; lia.
Qed.

Lemma wrap64_mod z : (wrap64 z mod two64Z = z mod two64Z)%Z.
Proof. unfold wrap64, two63Z, two64Z. lia. Qed.

Lemma be_value_snoc l b : be_value (l ++ [b]) = be_value l * 256 + b.
Proof. unfold be_value. rewrite fold_left_app. reflexivity. Qed.

Lemma acc64_snoc l b : acc64 (l ++ [b]) = wrap64 (wrap64 (acc64 l * 256) + Z.of_N b).
Proof. unfold acc64. rewrite fold_left_app. reflexivity. Qed.

Lemma acc64_mod l : (acc64 l mod two64Z = Z.of_N (be_value l) mod two64Z)%Z.
Proof.
  induction l as [|b l IH] using rev_ind; [reflexivity|].
  rewrite acc64_snoc, be_value_snoc, !wrap64_mod.
  rewrite Z.add_mod by (unfold two64Z; lia). rewrite wrap64_mod.
  rewrite Z.mul_mod by (unfold two64Z; lia). rewrite IH.
  rewrite <- Z.mul_mod by (unfold two64Z; lia). rewrite <- Z.add_mod by (unfold two64Z; lia).
  f_equal. lia.
Qed.

Lemma acc64_small l : be_value l < 2 ^ 63 -> acc64 l = Z.of_N (be_value l).
Proof.
  intros H. pose proof (acc64_mod l) as M. pose proof (acc64_range l) as R.
  unfold two63Z, two64Z in *. change (2 ^ 63) with 9223372036854775808 in H. lia.
Qed.

(* decodeIntAdditionalType on the argument bytes of a head *)
Lemma exec_intAT m ai n h : HeadA m ai n h -> n < 2 ^ 64 ->
  exists args, h = (m * 32 + ai) :: args /\
    forall r o, exists v, exec (decodeIntAdditionalType ai) (args ++ r) o = Ret v (mkst r o 0) /\
                          (v mod two64Z = Z.of_N n)%Z /\ (n < 2 ^ 63 -> v = Z.of_N n).
Proof.
  intros HA Hn.
  assert (G : forall k : nat, n < P8 k -> forall r o,
     exists v, exec (pb <- readNBytes (Z.of_nat k);; (if index_ok k pb then PRet (acc64 (firstn k pb)) else PCrash PIndexRange))
                 (be_bytes k n ++ r) o = Ret v (mkst r o 0) /\ (v mod two64Z = Z.of_N n)%Z /\ (n < 2 ^ 63 -> v = Z.of_N n)).
  { intros k Hk r o. exists (acc64 (be_bytes k n)). rewrite exec_bind.
    replace (Z.of_nat k) with (lenZ (be_bytes k n)) by (unfold lenZ; rewrite be_bytes_length; reflexivity).
    rewrite exec_readNBytes. cbn [rest outr]. unfold index_ok. rewrite be_bytes_length, Nat.leb_refl.
    rewrite <- (be_bytes_length k n) at 1. rewrite firstn_all. split; [reflexivity|].
    pose proof (be_value_be_bytes k n Hk) as E. split.
    - rewrite acc64_mod, E. apply Z.mod_small. unfold two64Z. change (2^64) with 18446744073709551616 in Hn. lia.
    - intros H63. rewrite acc64_small; rewrite E; auto. }
  inversion HA; subst.
  - exists []. split; [reflexivity|]. intros r o. exists (Z.of_N n). unfold decodeIntAdditionalType.
    replace (n <=? 23) with true by lia. split; [reflexivity|]. split; [|auto].
    apply Z.mod_small. unfold two64Z. lia.
  - eexists; split; [reflexivity|]. intros r o. unfold decodeIntAdditionalType. change (24 <=? 23) with false. cbv iota.
    change (24 =? additionalTypeIntUint8) with true. cbv iota. apply (G 1%nat). rewrite P8_1. auto.
  - eexists; split; [reflexivity|]. intros r o. unfold decodeIntAdditionalType. change (25 <=? 23) with false. cbv iota.
    change (25 =? additionalTypeIntUint8) with false. change (25 =? additionalTypeIntUint16) with true. cbv iota.
    apply (G 2%nat). rewrite P8_2. auto.
  - eexists; split; [reflexivity|]. intros r o. unfold decodeIntAdditionalType. change (26 <=? 23) with false. cbv iota.
    change (26 =? additionalTypeIntUint8) with false. change (26 =? additionalTypeIntUint16) with false.
    change (26 =? additionalTypeIntUint32) with true. cbv iota. apply (G 4%nat). rewrite P8_4. auto.
  - eexists; split; [reflexivity|]. intros r o. unfold decodeIntAdditionalType. change (27 <=? 23) with false. cbv iota.
    change (27 =? additionalTypeIntUint8) with false. change (27 =? additionalTypeIntUint16) with false.
    change (27 =? additionalTypeIntUint32) with false. change (27 =? additionalTypeIntUint64) with true. cbv iota.
    apply (G 8%nat). rewrite P8_8. auto.
Qed.

(* ------------------------------------------------------------------ *)
(* strings                                                             *)
(* ------------------------------------------------------------------ *)
Lemma lenZ_len {A} (s : list A) : lenZ s = Z.of_N (len s).
Proof. unfold lenZ, len. lia. Qed.

Lemma exec_readByte b r o : exec readByte (b :: r) o = Ret b (mkst r o 0).
Proof. reflexivity. Qed.

Lemma exec_decodeString (nq : bool) ai h s r o : HeadA 2 ai (len s) h -> len s < 2 ^ 63 ->
  exec (decodeString nq) (h ++ s ++ r) o = Ret (if nq then s else appendQuotedJSON s) (mkst r o 0).
Proof.
  intros HA Hl. destruct (exec_intAT 2 ai (len s) h HA ltac:(change (2^64) with 18446744073709551616; change (2^63) with 9223372036854775808 in Hl; lia)) as (args & Eh & Hargs).
  subst h. destruct (HeadA_ai _ _ _ _ HA) as [Hai _]. destruct (major_minor 2 ai ltac:(lia) ltac:(lia)) as [Mj Mn].
  cbn [app]. unfold decodeString. rewrite exec_bind, exec_readByte. cbn [rest outr]. rewrite Mj, Mn.
  change (negb (2 * 32 =? majorTypeByteString)) with false. cbv iota.
  rewrite exec_bind. destruct (Hargs (s ++ r) o) as (v & Ev & _ & Hv). rewrite Ev. cbn [rest outr].
  rewrite (Hv Hl). rewrite <- lenZ_len. rewrite exec_bind, exec_readNBytes. cbn [rest outr].
  destruct nq; rewrite exec_alloc, exec_ret; reflexivity.
Qed.

Lemma exec_decodeUTF8String ai h s r o : HeadA 3 ai (len s) h -> len s < 2 ^ 63 ->
  exec decodeUTF8String (h ++ s ++ r) o = Ret (appendQuotedJSON s) (mkst r o 0).
Proof.
  intros HA Hl. destruct (exec_intAT 3 ai (len s) h HA ltac:(change (2^64) with 18446744073709551616; change (2^63) with 9223372036854775808 in Hl; lia)) as (args & Eh & Hargs).
  subst h. destruct (HeadA_ai _ _ _ _ HA) as [Hai _]. destruct (major_minor 3 ai ltac:(lia) ltac:(lia)) as [Mj Mn].
  cbn [app]. unfold decodeUTF8String. rewrite exec_bind, exec_readByte. cbn [rest outr]. rewrite Mj, Mn.
  change (negb (3 * 32 =? majorTypeUtf8String)) with false. cbv iota.
  rewrite exec_bind. destruct (Hargs (s ++ r) o) as (v & Ev & _ & Hv). rewrite Ev. cbn [rest outr].
  rewrite (Hv Hl). rewrite <- lenZ_len. rewrite exec_bind, exec_readNBytes. cbn [rest outr].
  rewrite exec_alloc, exec_ret. reflexivity.
Qed.

(* the head the encoder writes for a length / value *)
Lemma append_head_A m l : m < 8 -> l < 2 ^ 64 ->
  exists ai h, append_head [] (m * 32) l = h /\ HeadA m ai l h.
Proof.
  intros Hm Hl. unfold append_head, additionalMax. destruct (l <=? 23) eqn:E.
  - exists l, [m * 32 + l]. split.
    + cbn [app]. unfold to_byte. rewrite N.mod_small by lia. rewrite lor_major by lia. reflexivity.
    + constructor; lia.
  - destruct (prefix_headA m l [] Hm Hl) as (h & Eh & HA & _). exists (prefix_ai l), h. split; auto.
Qed.

Lemma exec_intAT24 a rs o : a < 256 ->
  exec (decodeIntAdditionalType 24) (a :: rs) o = Ret (Z.of_N a) (mkst rs o 0).
Proof.
  intros Ha. unfold decodeIntAdditionalType. change (24 <=? 23) with false. cbv iota.
  change (24 =? additionalTypeIntUint8) with true. cbv iota. rewrite exec_bind.
  change (Z.of_nat 1) with (lenZ [a]). change (a :: rs) with ([a] ++ rs). rewrite exec_readNBytes. cbn [rest outr].
  change (index_ok 1 [a]) with true. cbv iota. rewrite exec_ret. f_equal.
  unfold acc64. cbn [firstn fold_left]. unfold wrap64, two63Z, two64Z. lia.
Qed.

Lemma exec_intAT25 a b rs o : a < 256 -> b < 256 ->
  exec (decodeIntAdditionalType 25) (a :: b :: rs) o = Ret (Z.of_N (a * 256 + b)) (mkst rs o 0).
Proof.
  intros Ha Hb. unfold decodeIntAdditionalType. change (25 <=? 23) with false. cbv iota.
  change (25 =? additionalTypeIntUint8) with false. change (25 =? additionalTypeIntUint16) with true. cbv iota. rewrite exec_bind.
  change (Z.of_nat 2) with (lenZ [a; b]). change (a :: b :: rs) with ([a; b] ++ rs). rewrite exec_readNBytes. cbn [rest outr].
  change (index_ok 2 [a; b]) with true. cbv iota. rewrite exec_ret. f_equal.
  unfold acc64. cbn [firstn fold_left]. unfold wrap64, two63Z, two64Z. lia.
Qed.

Section Dec.
Variable Orc : oracle.

(* [e] is one item; the decoder turns it into the text [j] (given enough fuel) *)
Definition item_json (e j : list N) : Prop :=
  e <> [] /\ exists d, forall f r o, (d <= f)%nat ->
     exec (cbor2JsonOneObject Orc f) (e ++ r) o = Ret tt (mkst r (rev j ++ o) 0).

Lemma item_json_decodes e j : item_json e j -> decodes Orc e j.
Proof.
  intros (Hne & d & H). split; auto. specialize (H d [] [] (le_n d)). rewrite !app_nil_r in H.
  destruct (exec_run _ _ _ 0 _ _ _ H) as (a' & R). exists d, a'. exact R.
Qed.

(* one object whose initial byte has a leaf major type *)
Lemma exec_one_leaf f b0 t o s r :
  (major_of b0 =? majorTypeArray) = false -> (major_of b0 =? majorTypeMap) = false ->
  exec (leaf Orc (major_of b0)) (b0 :: t) o = Ret s (mkst r o 0) ->
  exec (cbor2JsonOneObject Orc (S f)) (b0 :: t) o = Ret tt (mkst r (rev s ++ o) 0).
Proof.
  intros H1 H2 H. cbn [cbor2JsonOneObject]. rewrite exec_peek, H1, H2, exec_bind, H. cbn [rest outr].
  rewrite exec_alloc, exec_write, exec_ret. reflexivity.
Qed.

Lemma json_string s : wf_str s -> len s < 2 ^ 63 -> item_json (cbor_AppendString [] s) (appendQuotedJSON s).
Proof.
  intros [Hb Hl] H63. unfold cbor_AppendString. change majorTypeUtf8String with (3 * 32).
  destruct (append_head_A 3 (len s) ltac:(lia) Hl) as (ai & h & Eh & HA). rewrite Eh.
  destruct (HeadA_first _ _ _ _ HA) as (t & Et). destruct (HeadA_ai _ _ _ _ HA) as [Hai _].
  destruct (major_minor 3 ai ltac:(lia) ltac:(lia)) as [Mj Mn].
  split; [rewrite Et; cbn [app]; discriminate|]. exists 1%nat. intros f r o Hf. destruct f as [|f]; [lia|].
  rewrite <- app_assoc. pose proof (exec_decodeUTF8String ai h s r o HA H63) as E. rewrite Et in *. cbn [app] in *.
  apply exec_one_leaf; rewrite ?Mj; try reflexivity. unfold leaf.
  change (3 * 32 =? majorTypeUnsignedInt) with false. change (3 * 32 =? majorTypeNegativeInt) with false.
  change (3 * 32 =? majorTypeByteString) with false. change (3 * 32 =? majorTypeUtf8String) with true. cbv iota. exact E.
Qed.

Lemma json_bytes s : wf_str s -> len s < 2 ^ 63 -> item_json (cbor_AppendBytes [] s) (appendQuotedJSON s).
Proof.
  intros [Hb Hl] H63. unfold cbor_AppendBytes. change majorTypeByteString with (2 * 32).
  destruct (append_head_A 2 (len s) ltac:(lia) Hl) as (ai & h & Eh & HA). rewrite Eh.
  destruct (HeadA_first _ _ _ _ HA) as (t & Et). destruct (HeadA_ai _ _ _ _ HA) as [Hai _].
  destruct (major_minor 2 ai ltac:(lia) ltac:(lia)) as [Mj Mn].
  split; [rewrite Et; cbn [app]; discriminate|]. exists 1%nat. intros f r o Hf. destruct f as [|f]; [lia|].
  rewrite <- app_assoc. pose proof (exec_decodeString false ai h s r o HA H63) as E. rewrite Et in *. cbn [app] in *.
  apply exec_one_leaf; rewrite ?Mj; try reflexivity. unfold leaf.
  change (2 * 32 =? majorTypeUnsignedInt) with false. change (2 * 32 =? majorTypeNegativeInt) with false.
  change (2 * 32 =? majorTypeByteString) with true. cbv iota. exact E.
Qed.

(* ---- integers ---- *)
Lemma json_uint n : n < 2 ^ 64 -> item_json (cbor_AppendUint64 [] n) (print_N n).
Proof.
  intros Hn. change (cbor_AppendUint64 [] n) with (append_head [] (0 * 32) n).
  destruct (append_head_A 0 n ltac:(lia) Hn) as (ai & h & Eh & HA). rewrite Eh.
  destruct (exec_intAT 0 ai n h HA Hn) as (args & Et & Hargs). destruct (HeadA_ai _ _ _ _ HA) as [Hai _].
  destruct (major_minor 0 ai ltac:(lia) ltac:(lia)) as [Mj Mn].
  split; [rewrite Et; discriminate|]. exists 1%nat. intros f r o Hf. destruct f as [|f]; [lia|].
  rewrite Et. cbn [app]. apply exec_one_leaf; rewrite ?Mj; try reflexivity. unfold leaf.
  change (0 * 32 =? majorTypeUnsignedInt) with true. cbv iota.
  rewrite exec_bind, exec_readByte. cbn [rest outr]. rewrite Mn, exec_bind.
  destruct (Hargs r o) as (v & Ev & Hv & _). rewrite Ev. cbn [rest outr]. rewrite exec_ret, Hv, N2Z.id. reflexivity.
Qed.

Lemma int64_head z : int64_ok z ->
  exists m n, cbor_AppendInt64 [] z = append_head [] (m * 32) n /\ n < 2 ^ 63 /\
              ((0 <= z)%Z /\ m = 0 /\ n = Z.to_N z \/ (z < 0)%Z /\ m = 1 /\ n = Z.to_N (-1 - z)).
Proof.
  intros Hz. unfold cbor_AppendInt64, append_head, additionalMax, to_byte. destruct (z <? 0)%Z eqn:E.
  - rewrite neg_content by (auto; lia). exists 1, (Z.to_N (-1 - z)).
    assert (Hc : (0 <= -1 - z < two63Z)%Z) by (unfold int64_ok, two63Z in *; lia).
    split; [|split; [unfold two63Z in *; change (2^63) with 9223372036854775808; lia|right; repeat split; lia]].
    change majorTypeNegativeInt with (1 * 32).
    replace (Z.to_N (-1 - z) <=? 23) with (-1 - z <=? Z.of_N 23)%Z by lia.
    destruct (-1 - z <=? Z.of_N 23)%Z eqn:E2.
    + rewrite Z.mod_small by lia. rewrite N.mod_small by lia. reflexivity.
    + rewrite Z.mod_small by (unfold two63Z, two64Z in *; lia). reflexivity.
  - exists 0, (Z.to_N z).
    assert (Hc : (0 <= z < two63Z)%Z) by (unfold int64_ok, two63Z in *; lia).
    split; [|split; [unfold two63Z in *; change (2^63) with 9223372036854775808; lia|left; repeat split; lia]].
    change majorTypeUnsignedInt with (0 * 32).
    replace (Z.to_N z <=? 23) with (z <=? Z.of_N 23)%Z by lia.
    destruct (z <=? Z.of_N 23)%Z eqn:E2.
    + rewrite Z.mod_small by lia. rewrite N.mod_small by lia. reflexivity.
    + rewrite Z.mod_small by (unfold two63Z, two64Z in *; lia). reflexivity.
Qed.

Lemma print_Z_nonneg z : (0 <= z)%Z -> print_Z z = print_N (Z.to_N z).
Proof. intros H. unfold print_Z. replace (z <? 0)%Z with false by lia. reflexivity. Qed.

(* decodeInteger on a head of major type 0 or 1 *)
Lemma exec_decodeInteger m ai n h r o : HeadA m ai n h -> n < 2 ^ 63 -> (m = 0 \/ m = 1) ->
  exec decodeInteger (h ++ r) o = Ret (if m =? 0 then Z.of_N n else (-1 - Z.of_N n)%Z) (mkst r o 0).
Proof.
  intros HA Hn Hm.
  destruct (exec_intAT m ai n h HA ltac:(change (2^64) with 18446744073709551616; change (2^63) with 9223372036854775808 in Hn; lia)) as (args & Et & Hargs).
  destruct (HeadA_ai _ _ _ _ HA) as [Hai Hm8]. destruct (major_minor m ai Hm8 ltac:(lia)) as [Mj Mn].
  rewrite Et. cbn [app]. unfold decodeInteger. rewrite exec_bind, exec_readByte. cbn [rest outr]. rewrite Mj, Mn.
  destruct (Hargs r o) as (v & Ev & _ & Hv). specialize (Hv Hn).
  destruct Hm as [-> | ->].
  - change (negb (0 * 32 =? majorTypeUnsignedInt) && negb (0 * 32 =? majorTypeNegativeInt)) with false. cbv iota.
    rewrite exec_bind, Ev. cbn [rest outr]. change (0 * 32 =? 0) with true. cbv iota. rewrite exec_ret, Hv. reflexivity.
  - change (negb (1 * 32 =? majorTypeUnsignedInt) && negb (1 * 32 =? majorTypeNegativeInt)) with false. cbv iota.
    rewrite exec_bind, Ev. cbn [rest outr]. change (1 * 32 =? 0) with false. cbv iota. rewrite exec_ret, Hv.
    rewrite wrap64_id; [reflexivity|]. change (2^63) with 9223372036854775808 in Hn. unfold two63Z. lia.
Qed.

Lemma json_int z : int64_ok z -> item_json (cbor_AppendInt64 [] z) (print_Z z).
Proof.
  intros Hz. destruct (int64_head z Hz) as (m & n & E & Hn & Hcase). rewrite E.
  assert (Hm : m = 0 \/ m = 1) by (destruct Hcase as [(_ & -> & _)|(_ & -> & _)]; auto).
  destruct (append_head_A m n ltac:(lia) ltac:(change (2^64) with 18446744073709551616; change (2^63) with 9223372036854775808 in Hn; lia)) as (ai & h & Eh & HA).
  rewrite Eh. destruct (HeadA_first _ _ _ _ HA) as (t & Et). destruct (HeadA_ai _ _ _ _ HA) as [Hai Hm8].
  destruct (major_minor m ai Hm8 ltac:(lia)) as [Mj Mn].
  split; [rewrite Et; discriminate|]. exists 1%nat. intros f r o Hf. destruct f as [|f]; [lia|].
  destruct Hcase as [(Hz0 & -> & ->)|(Hz0 & -> & ->)].
  - (* non-negative: major 0 *)
    destruct (exec_intAT 0 ai _ h HA ltac:(change (2^64) with 18446744073709551616; change (2^63) with 9223372036854775808 in Hn; lia)) as (args & Et2 & Hargs).
    rewrite Et2. cbn [app]. apply exec_one_leaf; rewrite ?Mj; try reflexivity. unfold leaf.
    change (0 * 32 =? majorTypeUnsignedInt) with true. cbv iota.
    rewrite exec_bind, exec_readByte. cbn [rest outr]. rewrite Mn, exec_bind.
    destruct (Hargs r o) as (v & Ev & Hv & _). rewrite Ev. cbn [rest outr]. rewrite exec_ret, Hv, N2Z.id, print_Z_nonneg by lia. reflexivity.
  - (* negative: major 1 *)
    pose proof (exec_decodeInteger 1 ai _ h r o HA Hn ltac:(auto)) as E1. rewrite Et in *. cbn [app] in *.
    apply exec_one_leaf; rewrite ?Mj; try reflexivity. unfold leaf.
    change (1 * 32 =? majorTypeUnsignedInt) with false. change (1 * 32 =? majorTypeNegativeInt) with true. cbv iota.
    rewrite exec_bind, E1. cbn [rest outr]. change (1 =? 0) with false. cbv iota. rewrite exec_ret.
    replace (-1 - Z.of_N (Z.to_N (-1 - z)))%Z with z by lia. reflexivity.
Qed.

(* ---- booleans, null ---- *)
Lemma json_bool b : item_json (cbor_AppendBool [] b) (if b then lit_true else lit_false).
Proof.
  split; [destruct b; discriminate|]. exists 1%nat. intros f r o Hf. destruct f as [|f]; [lia|].
  destruct b; (apply exec_one_leaf; [reflexivity|reflexivity|reflexivity]).
Qed.

Lemma json_nil : item_json (cbor_AppendNil []) lit_null.
Proof.
  split; [discriminate|]. exists 1%nat. intros f r o Hf. destruct f as [|f]; [lia|].
  apply exec_one_leaf; reflexivity.
Qed.

(* ---- tagged byte strings ---- *)
(* after the tag head d9 hi lo *)
Lemma exec_tag_hex rs o : exec (decodeTagData Orc) (217 :: 1 :: 7 :: rs) o =
  exec (octets <- decodeString true;; PRet (quote (hexString octets))) rs o.
Proof.
  unfold decodeTagData. rewrite exec_bind, exec_readByte. cbn [rest outr].
  change (major_of 217) with 192. change (minor_of 217) with 25.
  change (negb (192 =? majorTypeTags)) with false. cbv iota.
  change (25 =? additionalTypeTimestamp) with false. change (25 =? additionalTypeIntUint8) with false.
  change (25 =? additionalTypeIntUint16) with true. cbv iota.
  rewrite exec_bind, exec_intAT25 by lia. cbn [rest outr]. reflexivity.
Qed.

Lemma exec_tag_json rs o : exec (decodeTagData Orc) (217 :: 1 :: 6 :: rs) o =
  exec (PPeekRB (fun pb => if negb (major_of pb =? majorTypeByteString) then PFail EUnsupportedEmbedded else decodeString true)) rs o.
Proof.
  unfold decodeTagData. rewrite exec_bind, exec_readByte. cbn [rest outr].
  change (major_of 217) with 192. change (minor_of 217) with 25.
  change (negb (192 =? majorTypeTags)) with false. cbv iota.
  change (25 =? additionalTypeTimestamp) with false. change (25 =? additionalTypeIntUint8) with false.
  change (25 =? additionalTypeIntUint16) with true. cbv iota.
  rewrite exec_bind, exec_intAT25 by lia. cbn [rest outr]. reflexivity.
Qed.

Lemma exec_tag_addr rs o : exec (decodeTagData Orc) (217 :: 1 :: 4 :: rs) o =
  exec (octets <- decodeString true ;;
        if (length octets =? 6)%nat then PRet (quote (mac_string octets))
        else if (length octets =? 4)%nat || (length octets =? 16)%nat then PRet (quote (ip_string octets))
        else PFail EBadNetAddrLen) rs o.
Proof.
  unfold decodeTagData. rewrite exec_bind, exec_readByte. cbn [rest outr].
  change (major_of 217) with 192. change (minor_of 217) with 25.
  change (negb (192 =? majorTypeTags)) with false. cbv iota.
  change (25 =? additionalTypeTimestamp) with false. change (25 =? additionalTypeIntUint8) with false.
  change (25 =? additionalTypeIntUint16) with true. cbv iota.
  rewrite exec_bind, exec_intAT25 by lia. cbn [rest outr]. reflexivity.
Qed.

Lemma exec_tag_prefix rs o : exec (decodeTagData Orc) (217 :: 1 :: 5 :: rs) o =
  exec (pb <- readByte ;;
        if negb (pb =? N.lor majorTypeMap 1) then PFail EBadPrefixShape
        else octets <- decodeString true ;; val <- decodeInteger ;; PRet (quote (ipnet_string octets val))) rs o.
Proof.
  unfold decodeTagData. rewrite exec_bind, exec_readByte. cbn [rest outr].
  change (major_of 217) with 192. change (minor_of 217) with 25.
  change (negb (192 =? majorTypeTags)) with false. cbv iota.
  change (25 =? additionalTypeTimestamp) with false. change (25 =? additionalTypeIntUint8) with false.
  change (25 =? additionalTypeIntUint16) with true. cbv iota.
  rewrite exec_bind, exec_intAT25 by lia. cbn [rest outr]. reflexivity.
Qed.

Lemma exec_tag_cbor rs o : exec (decodeTagData Orc) (216 :: 63 :: rs) o =
  exec (PPeekRB (fun pb => if negb (major_of pb =? majorTypeByteString) then PFail EUnsupportedEmbedded
                           else decodeStringToDataUrl lit_app_cbor)) rs o.
Proof.
  unfold decodeTagData. rewrite exec_bind, exec_readByte. cbn [rest outr].
  change (major_of 216) with 192. change (minor_of 216) with 24.
  change (negb (192 =? majorTypeTags)) with false. cbv iota.
  change (24 =? additionalTypeTimestamp) with false. change (24 =? additionalTypeIntUint8) with true. cbv iota.
  rewrite exec_bind, exec_intAT24 by lia. cbn [rest outr]. reflexivity.
Qed.

(* one object that starts with a tag byte *)
Lemma exec_one_tag f b0 t o s r : major_of b0 = majorTypeTags ->
  exec (decodeTagData Orc) (b0 :: t) o = Ret s (mkst r o 0) ->
  exec (cbor2JsonOneObject Orc (S f)) (b0 :: t) o = Ret tt (mkst r (rev s ++ o) 0).
Proof.
  intros Hm H. apply exec_one_leaf; rewrite ?Hm; try reflexivity. exact H.
Qed.

(* a byte string item: head + content *)
Lemma bytes_item s : wf_str s -> exists ai h, cbor_AppendBytes [] s = h ++ s /\ HeadA 2 ai (len s) h.
Proof.
  intros [Hb Hl]. unfold cbor_AppendBytes. change majorTypeByteString with (2 * 32).
  destruct (append_head_A 2 (len s) ltac:(lia) Hl) as (ai & h & Eh & HA). exists ai, h. rewrite Eh. auto.
Qed.

Lemma tag16_nil t : tag16 [] t = [217; to_byte (t / 256); to_byte (N.land t 255)].
Proof. reflexivity. Qed.

Lemma cbor_AppendBytes_dst dst s : cbor_AppendBytes dst s = dst ++ cbor_AppendBytes [] s.
Proof. unfold cbor_AppendBytes. rewrite append_head_dst, <- app_assoc. reflexivity. Qed.

Lemma json_hex s : wf_str s -> len s < 2 ^ 63 -> item_json (cbor_AppendHex [] s) (quote (hexString s)).
Proof.
  intros W H63. destruct (bytes_item s W) as (ai & h & E & HA).
  unfold cbor_AppendHex. rewrite cbor_AppendBytes_dst, E, tag16_nil.
  split; [discriminate|]. exists 1%nat. intros f r o Hf. destruct f as [|f]; [lia|].
  change ([217; to_byte (additionalTypeTagHexString / 256); to_byte (N.land additionalTypeTagHexString 255)]) with [217; 1; 7].
  cbn [app]. apply exec_one_tag; [reflexivity|]. rewrite exec_tag_hex, exec_bind. rewrite <- app_assoc.
  rewrite (exec_decodeString true ai h s r o HA H63). cbn [rest outr]. reflexivity.
Qed.

Lemma major_of_head2 ai n h : HeadA 2 ai n h -> exists b t, h = b :: t /\ major_of b = majorTypeByteString.
Proof.
  intros HA. destruct (HeadA_first _ _ _ _ HA) as (t & Et). destruct (HeadA_ai _ _ _ _ HA) as [Hai _].
  destruct (major_minor 2 ai ltac:(lia) ltac:(lia)) as [Mj _]. eexists _, t. split; [exact Et|exact Mj].
Qed.

Lemma json_rawjson s : wf_str s -> len s < 2 ^ 63 -> item_json (cbor_AppendEmbeddedJSON [] s) s.
Proof.
  intros W H63. destruct (bytes_item s W) as (ai & h & E & HA).
  assert (EJ : cbor_AppendEmbeddedJSON [] s = [217; 1; 6] ++ cbor_AppendBytes [] s).
  { unfold cbor_AppendEmbeddedJSON, cbor_AppendBytes. cbn [app]. rewrite append_head_dst, <- app_assoc. reflexivity. }
  rewrite EJ, E.
  split; [discriminate|]. exists 1%nat. intros f r o Hf. destruct f as [|f]; [lia|].
  cbn [app]. apply exec_one_tag; [reflexivity|]. rewrite exec_tag_json. rewrite <- app_assoc.
  pose proof (exec_decodeString true ai h s r o HA H63) as Ed.
  destruct (major_of_head2 _ _ _ HA) as (b & t & Eh & Mb). rewrite Eh in *. cbn [app] in *.
  rewrite exec_peekrb, Mb. change (negb (majorTypeByteString =? majorTypeByteString)) with false. cbv iota. exact Ed.
Qed.

(* ---- network addresses ---- *)
Lemma json_addr_gen s j : wf_str s -> len s < 2 ^ 63 ->
  (if (length s =? 6)%nat then Some (quote (mac_string s))
   else if (length s =? 4)%nat || (length s =? 16)%nat then Some (quote (ip_string s)) else None) = Some j ->
  item_json (cbor_AppendBytes (tag16 [] additionalTypeTagNetworkAddr) s) j.
Proof.
  intros W H63 Hj. destruct (bytes_item s W) as (ai & h & E & HA).
  rewrite cbor_AppendBytes_dst, E, tag16_nil.
  split; [discriminate|]. exists 1%nat. intros f r o Hf. destruct f as [|f]; [lia|].
  change ([217; to_byte (additionalTypeTagNetworkAddr / 256); to_byte (N.land additionalTypeTagNetworkAddr 255)]) with [217; 1; 4].
  cbn [app]. apply exec_one_tag; [reflexivity|]. rewrite exec_tag_addr, exec_bind. rewrite <- app_assoc.
  rewrite (exec_decodeString true ai h s r o HA H63). cbn [rest outr].
  destruct (length s =? 6)%nat; [inversion Hj; subst; reflexivity|].
  destruct ((length s =? 4)%nat || (length s =? 16)%nat); [inversion Hj; subst; reflexivity|discriminate].
Qed.

Lemma json_ip s : wf_str s -> (length s = 4 \/ length s = 16)%nat ->
  item_json (cbor_AppendIPAddr [] s) (quote (ip_string s)).
Proof.
  intros W Hl. apply json_addr_gen; auto.
  - unfold len. change (2^63) with 9223372036854775808. destruct Hl as [-> | ->]; lia.
  - destruct Hl as [-> | ->]; reflexivity.
Qed.

Lemma json_mac s : wf_str s -> length s = 6%nat -> item_json (cbor_AppendMACAddr [] s) (quote (mac_string s)).
Proof.
  intros W Hl. apply json_addr_gen; auto.
  - unfold len. rewrite Hl. change (2^63) with 9223372036854775808. lia.
  - rewrite Hl. reflexivity.
Qed.

(* ---- embedded CBOR: a data URL ---- *)
Lemma exec_decodeStringToDataUrl mime ai h s r o : HeadA 2 ai (len s) h -> len s < 2 ^ 60 -> (lenZ mime <= 16)%Z ->
  exec (decodeStringToDataUrl mime) (h ++ s ++ r) o =
  Ret (lit_data ++ mime ++ lit_b64 ++ b64enc (length s) s ++ [34]) (mkst r o 0).
Proof.
  intros HA Hl Hm.
  assert (H63 : len s < 2 ^ 63) by (change (2^60) with 1152921504606846976 in Hl; change (2^63) with 9223372036854775808; lia).
  destruct (exec_intAT 2 ai (len s) h HA ltac:(change (2^64) with 18446744073709551616; change (2^63) with 9223372036854775808 in H63; lia)) as (args & Eh & Hargs).
  subst h. destruct (HeadA_ai _ _ _ _ HA) as [Hai _]. destruct (major_minor 2 ai ltac:(lia) ltac:(lia)) as [Mj Mn].
  cbn [app]. unfold decodeStringToDataUrl. rewrite exec_bind, exec_readByte. cbn [rest outr]. rewrite Mj, Mn.
  change (negb (2 * 32 =? majorTypeByteString)) with false. cbv iota.
  rewrite exec_bind. destruct (Hargs (s ++ r) o) as (v & Ev & _ & Hv). rewrite Ev. cbn [rest outr].
  rewrite (Hv H63). rewrite <- lenZ_len. rewrite exec_bind, exec_readNBytes. cbn [rest outr].
  pose proof (lenZ_nonneg s) as Hb0. pose proof (lenZ_nonneg mime) as Hm0.
  assert (HL : (lenZ s < 1152921504606846976)%Z) by (rewrite lenZ_len; change (2^60) with 1152921504606846976 in Hl; lia).
  assert (E1 : wrap64 (lenZ s + 2) = (lenZ s + 2)%Z) by (apply wrap64_small; unfold two63Z; lia).
  rewrite E1.
  assert (Hd : (0 <= (lenZ s + 2) / 3 <= lenZ s + 2)%Z) by (split; [apply Z.div_pos; lia|apply Z.div_le_upper_bound; lia]).
  assert (E2 : wrap64 ((lenZ s + 2) / 3) = ((lenZ s + 2) / 3)%Z) by (apply wrap64_small; unfold two63Z; lia).
  rewrite E2.
  assert (E3 : wrap64 ((lenZ s + 2) / 3 * 4) = ((lenZ s + 2) / 3 * 4)%Z) by (apply wrap64_small; unfold two63Z; lia).
  rewrite E3.
  assert (E4 : wrap64 (15 + lenZ mime) = (15 + lenZ mime)%Z) by (apply wrap64_small; unfold two63Z; lia).
  rewrite E4.
  assert (E5 : wrap64 (15 + lenZ mime + (lenZ s + 2) / 3 * 4) = (15 + lenZ mime + (lenZ s + 2) / 3 * 4)%Z) by (apply wrap64_small; unfold two63Z; lia).
  rewrite E5.
  replace (15 + lenZ mime + (lenZ s + 2) / 3 * 4 <? 0)%Z with false by lia.
  rewrite exec_alloc, exec_ret. reflexivity.
Qed.

Definition data_url (s : list N) : list N := lit_data ++ lit_app_cbor ++ lit_b64 ++ b64enc (length s) s ++ [34].

Lemma json_rawcbor s : wf_str s -> len s < 2 ^ 60 -> item_json (cbor_AppendEmbeddedCBOR [] s) (data_url s).
Proof.
  intros W Hl. destruct (bytes_item s W) as (ai & h & E & HA).
  assert (EJ : cbor_AppendEmbeddedCBOR [] s = [216; 63] ++ cbor_AppendBytes [] s).
  { unfold cbor_AppendEmbeddedCBOR, cbor_AppendBytes. cbn [app]. rewrite append_head_dst, <- app_assoc. reflexivity. }
  rewrite EJ, E.
  split; [discriminate|]. exists 1%nat. intros f r o Hf. destruct f as [|f]; [lia|].
  cbn [app]. apply exec_one_tag; [reflexivity|]. rewrite exec_tag_cbor. rewrite <- app_assoc.
  pose proof (exec_decodeStringToDataUrl lit_app_cbor ai h s r o HA Hl ltac:(cbn; lia)) as Ed.
  destruct (major_of_head2 _ _ _ HA) as (b & t & Eh & Mb). rewrite Eh in *. cbn [app] in *.
  rewrite exec_peekrb, Mb. change (negb (majorTypeByteString =? majorTypeByteString)) with false. cbv iota. exact Ed.
Qed.

(* ---- IP prefix ---- *)
Lemma json_prefix ip mask : wf_str ip -> len ip < 2 ^ 63 ->
  item_json (cbor_AppendIPPrefix [] ip mask) (quote (ipnet_string ip (mask_size_ones mask mod 256))).
Proof.
  intros W H63. destruct (bytes_item ip W) as (ai & h & E & HA).
  set (ml := Z.to_N (mask_size_ones mask mod 256)).
  assert (Hml : ml < 256) by (unfold ml; pose proof (Z.mod_pos_bound (mask_size_ones mask) 256 ltac:(lia)); lia).
  assert (EP : cbor_AppendIPPrefix [] ip mask = [217; 1; 5; 161] ++ cbor_AppendBytes [] ip ++ append_head [] (0 * 32) ml).
  { unfold cbor_AppendIPPrefix. fold ml. unfold cbor_AppendUint8, cbor_AppendUint.
    change (cbor_AppendUint64 ?d ml) with (append_head d (0 * 32) ml).
    rewrite append_head_dst, cbor_AppendBytes_dst. rewrite <- !app_assoc. reflexivity. }
  rewrite EP, E.
  destruct (append_head_A 0 ml ltac:(lia) ltac:(change (2^64) with 18446744073709551616; lia)) as (ai2 & h2 & Eh2 & HA2). rewrite Eh2.
  split; [discriminate|]. exists 1%nat. intros f r o Hf. destruct f as [|f]; [lia|].
  cbn [app]. apply exec_one_tag; [reflexivity|]. rewrite exec_tag_prefix, exec_bind, exec_readByte. cbn [rest outr].
  change (negb (161 =? N.lor majorTypeMap 1)) with false. cbv iota.
  rewrite exec_bind. rewrite <- !app_assoc.
  rewrite (exec_decodeString true ai h ip (h2 ++ r) o HA H63). cbn [rest outr].
  rewrite exec_bind.
  rewrite (exec_decodeInteger 0 ai2 ml h2 r o HA2 ltac:(change (2^63) with 9223372036854775808; lia) ltac:(auto)). cbn [rest outr].
  change (0 =? 0) with true. cbv iota. rewrite exec_ret. unfold ml.
  rewrite Z2N.id by (pose proof (Z.mod_pos_bound (mask_size_ones mask) 256 ltac:(lia)); lia). reflexivity.
Qed.

(* ---- floats ---- *)
Lemma accU_snoc w l b : accU w (l ++ [b]) = (accU w l * 256 + b) mod 2 ^ w.
Proof. unfold accU. rewrite fold_left_app. reflexivity. Qed.

Lemma accU_be w l : accU w l = be_value l mod 2 ^ w.
Proof.
  induction l as [|b l IH] using rev_ind.
  { unfold accU, be_value. cbn [fold_left]. symmetry. apply N.mod_0_l. apply N.pow_nonzero. lia. }
  rewrite accU_snoc, be_value_snoc, IH.
  assert (Hw : 2 ^ w <> 0) by (apply N.pow_nonzero; lia).
  rewrite N.add_mod by auto. rewrite N.mul_mod_idemp_l by auto. rewrite <- N.add_mod by auto. reflexivity.
Qed.

Lemma f32_bytes b : cbor_AppendFloat32 [] b = 250 :: be_bytes 4 (canon32 b).
Proof.
  unfold cbor_AppendFloat32, canon32. destruct (f32_is_nan b); [reflexivity|].
  destruct (b =? f32_pos_inf) eqn:E1; [apply N.eqb_eq in E1; subst; reflexivity|].
  destruct (b =? f32_neg_inf) eqn:E2; [apply N.eqb_eq in E2; subst; reflexivity|]. reflexivity.
Qed.

Lemma f64_bytes b : cbor_AppendFloat64 [] b = 251 :: be_bytes 8 (canon64 b).
Proof.
  unfold cbor_AppendFloat64, canon64. destruct (f64_is_nan b); [reflexivity|].
  destruct (b =? f64_pos_inf) eqn:E1; [apply N.eqb_eq in E1; subst; reflexivity|].
  destruct (b =? f64_neg_inf) eqn:E2; [apply N.eqb_eq in E2; subst; reflexivity|]. reflexivity.
Qed.

Lemma exec_decodeFloat32 b r o : b < 2 ^ 32 ->
  exec decodeFloat (250 :: be_bytes 4 b ++ r) o = Ret (W32, b) (mkst r o 0).
Proof.
  intros Hb. unfold decodeFloat. rewrite exec_bind, exec_readByte. cbn [rest outr].
  change (major_of 250) with 224. change (minor_of 250) with 26.
  change (negb (224 =? majorTypeSimpleAndFloat)) with false. cbv iota.
  change (26 =? additionalTypeFloat16) with false. change (26 =? additionalTypeFloat32) with true. cbv iota.
  rewrite exec_bind. change 4%Z with (lenZ (be_bytes 4 b)). rewrite exec_readNBytes. cbn [rest outr].
  change (index_ok 4 (be_bytes 4 b)) with true. cbv iota. rewrite exec_ret. f_equal. f_equal.
  change (firstn 4 (be_bytes 4 b)) with (be_bytes 4 b). rewrite accU_be, be_value_be_bytes by (rewrite P8_4; auto).
  apply N.mod_small; auto.
Qed.

Lemma exec_decodeFloat64 b r o : b < 2 ^ 64 ->
  exec decodeFloat (251 :: be_bytes 8 b ++ r) o = Ret (W64, b) (mkst r o 0).
Proof.
  intros Hb. unfold decodeFloat. rewrite exec_bind, exec_readByte. cbn [rest outr].
  change (major_of 251) with 224. change (minor_of 251) with 27.
  change (negb (224 =? majorTypeSimpleAndFloat)) with false. cbv iota.
  change (27 =? additionalTypeFloat16) with false. change (27 =? additionalTypeFloat32) with false.
  change (27 =? additionalTypeFloat64) with true. cbv iota.
  rewrite exec_bind. change 8%Z with (lenZ (be_bytes 8 b)). rewrite exec_readNBytes. cbn [rest outr].
  change (index_ok 8 (be_bytes 8 b)) with true. cbv iota. rewrite exec_ret. f_equal. f_equal.
  change (firstn 8 (be_bytes 8 b)) with (be_bytes 8 b). rewrite accU_be, be_value_be_bytes by (rewrite P8_8; auto).
  apply N.mod_small; auto.
Qed.

(* the JSON text of a float: the quoted specials (same strings as the JSON
   encoder) or the text strconv gives for the bits *)
Definition f32_json (b : N) : option (list N) :=
  if f32_is_nan b then Some lit_NaN else if b =? f32_pos_inf then Some lit_pInf
  else if b =? f32_neg_inf then Some lit_nInf else o_f32 Orc b.
Definition f64_json (b : N) : option (list N) :=
  if f64_is_nan b then Some lit_NaN else if b =? f64_pos_inf then Some lit_pInf
  else if b =? f64_neg_inf then Some lit_nInf else o_f64 Orc b.

Lemma canon32_lt b : b < 2 ^ 32 -> canon32 b < 2 ^ 32.
Proof. unfold canon32. destruct (f32_is_nan b); auto. intros _. vm_compute. reflexivity. Qed.
Lemma canon64_lt b : b < 2 ^ 64 -> canon64 b < 2 ^ 64.
Proof. unfold canon64. destruct (f64_is_nan b); auto. intros _. vm_compute. reflexivity. Qed.

Lemma f32_json_canon b : f32_json (canon32 b) = f32_json b.
Proof.
  unfold f32_json, canon32. destruct (f32_is_nan b) eqn:E; [|rewrite E; reflexivity]. reflexivity.
Qed.
Lemma f64_json_canon b : f64_json (canon64 b) = f64_json b.
Proof.
  unfold f64_json, canon64. destruct (f64_is_nan b) eqn:E; [|rewrite E; reflexivity]. reflexivity.
Qed.

Lemma exec_simple_f32 b r o t : b < 2 ^ 32 -> f32_json b = Some t ->
  exec (decodeSimpleFloat Orc) (250 :: be_bytes 4 b ++ r) o = Ret t (mkst r o 0).
Proof.
  intros Hb Ht. unfold decodeSimpleFloat. rewrite exec_peekrb.
  change (major_of 250) with 224. change (minor_of 250) with 26.
  change (negb (224 =? majorTypeSimpleAndFloat)) with false. cbv iota.
  change (26 =? additionalTypeBoolTrue) with false. change (26 =? additionalTypeBoolFalse) with false.
  change (26 =? additionalTypeNull) with false.
  change ((26 =? additionalTypeFloat16) || (26 =? additionalTypeFloat32) || (26 =? additionalTypeFloat64)) with true. cbv iota.
  rewrite exec_bind, exec_decodeFloat32 by auto. cbn [rest outr fst snd]. unfold f32_json in Ht.
  destruct (f32_is_nan b); [inversion Ht; reflexivity|].
  destruct (b =? f32_pos_inf); [inversion Ht; reflexivity|].
  destruct (b =? f32_neg_inf); [inversion Ht; reflexivity|]. rewrite Ht. reflexivity.
Qed.

Lemma exec_simple_f64 b r o t : b < 2 ^ 64 -> f64_json b = Some t ->
  exec (decodeSimpleFloat Orc) (251 :: be_bytes 8 b ++ r) o = Ret t (mkst r o 0).
Proof.
  intros Hb Ht. unfold decodeSimpleFloat. rewrite exec_peekrb.
  change (major_of 251) with 224. change (minor_of 251) with 27.
  change (negb (224 =? majorTypeSimpleAndFloat)) with false. cbv iota.
  change (27 =? additionalTypeBoolTrue) with false. change (27 =? additionalTypeBoolFalse) with false.
  change (27 =? additionalTypeNull) with false.
  change ((27 =? additionalTypeFloat16) || (27 =? additionalTypeFloat32) || (27 =? additionalTypeFloat64)) with true. cbv iota.
  rewrite exec_bind, exec_decodeFloat64 by auto. cbn [rest outr fst snd]. unfold f64_json in Ht.
  destruct (f64_is_nan b); [inversion Ht; reflexivity|].
  destruct (b =? f64_pos_inf); [inversion Ht; reflexivity|].
  destruct (b =? f64_neg_inf); [inversion Ht; reflexivity|]. rewrite Ht. reflexivity.
Qed.

Lemma json_f32 b t : b < 2 ^ 32 -> f32_json b = Some t -> item_json (cbor_AppendFloat32 [] b) t.
Proof.
  intros Hb Ht. rewrite f32_bytes. split; [discriminate|]. exists 1%nat. intros f r o Hf. destruct f as [|f]; [lia|].
  cbn [app]. apply exec_one_leaf; [reflexivity|reflexivity|]. change (major_of 250) with 224.
  change (leaf Orc 224) with (decodeSimpleFloat Orc).
  apply exec_simple_f32; [apply canon32_lt; auto|rewrite f32_json_canon; auto].
Qed.

Lemma json_f64 b t : b < 2 ^ 64 -> f64_json b = Some t -> item_json (cbor_AppendFloat64 [] b) t.
Proof.
  intros Hb Ht. rewrite f64_bytes. split; [discriminate|]. exists 1%nat. intros f r o Hf. destruct f as [|f]; [lia|].
  cbn [app]. apply exec_one_leaf; [reflexivity|reflexivity|]. change (major_of 251) with 224.
  change (leaf Orc 224) with (decodeSimpleFloat Orc).
  apply exec_simple_f64; [apply canon64_lt; auto|rewrite f64_json_canon; auto].
Qed.

(* ------------------------------------------------------------------ *)
(* arrays and maps                                                     *)
(* ------------------------------------------------------------------ *)
Fixpoint join_comma (js : list (list N)) : list N :=
  match js with
  | [] => []
  | [j] => j
  | j :: t => j ++ [44] ++ join_comma t
  end.
Definition json_arr (js : list (list N)) : list N := [91] ++ join_comma js ++ [93].
Lemma join_comma_cons j j2 t : join_comma (j :: j2 :: t) = j ++ [44] ++ join_comma (j2 :: t).
Proof. reflexivity. Qed.
Fixpoint join_pairs (kvs : list (list N * list N)) : list N :=
  match kvs with
  | [] => []
  | [(k, v)] => k ++ [58] ++ v
  | (k, v) :: t => k ++ [58] ++ v ++ [44] ++ join_pairs t
  end.
Definition json_obj (kvs : list (list N * list N)) : list N := [123] ++ join_pairs kvs ++ [125].

Lemma item_first e j : item_json e j -> exists b t, e = b :: t /\ is_break_byte b = false.
Proof.
  intros (Hne & d & H). destruct e as [|b t]; [congruence|]. exists b, t. split; auto.
  destruct (is_break_byte b) eqn:E; auto. exfalso.
  unfold is_break_byte in E. apply N.eqb_eq in E. change (N.lor majorTypeSimpleAndFloat additionalTypeBreak) with 255 in E. subst b.
  specialize (H (S d) [] [] ltac:(lia)). cbn [app] in H.
  cbn [cbor2JsonOneObject] in H. rewrite exec_peek in H. change (major_of 255) with 224 in H.
  change (224 =? majorTypeArray) with false in H. change (224 =? majorTypeMap) with false in H. cbv iota in H.
  rewrite exec_bind in H. change (leaf Orc 224) with (decodeSimpleFloat Orc) in H.
  unfold decodeSimpleFloat in H. rewrite exec_peekrb in H. change (major_of 255) with 224 in H. change (minor_of 255) with 31 in H.
  cbn in H. discriminate.
Qed.

Definition items_ok (items : list (list N * list N)) : Prop := Forall (fun p => item_json (fst p) (snd p)) items.

(* the loop of an indefinite-length array, entered at the top *)
Lemma array_indef_loop items : items_ok items -> exists d, forall f i ln r o, (d <= f)%nat ->
  exec (array_loop Orc f true i ln) (concat (map fst items) ++ 255 :: r) o =
  Ret tt (mkst r (rev (join_comma (map snd items) ++ [93]) ++ o) 0).
Proof.
  induction 1 as [|[e j] t Hx Ht (d & IH)].
  - exists 1%nat. intros f i ln r o Hf. destruct f as [|f]; [lia|]. reflexivity.
  - cbn [fst snd] in Hx. destruct Hx as (Hne & de & He).
    destruct (item_first e j (conj Hne (ex_intro _ de He))) as (b & te & Ee & Hb).
    exists (S (Nat.max de d)). intros f i ln r o Hf. destruct f as [|f]; [lia|].
    cbn [map concat fst snd]. rewrite <- app_assoc. cbn [array_loop orb]. cbv zeta.
    rewrite (exec_peek_app _ _ _ _ _ _ Ee), Hb.
    rewrite exec_bind, (He f _ o ltac:(lia)). cbn [rest outr].
    destruct t as [|[e2 j2] t2].
    + cbn [map concat app join_comma]. rewrite exec_peek. change (is_break_byte 255) with true. cbv iota.
      rewrite exec_readbyte, exec_write, exec_ret. rewrite rev_app_distr. reflexivity.
    + inversion Ht as [|? ? Hx2 _]; subst. cbn [fst snd] in Hx2.
      destruct (item_first e2 j2 Hx2) as (b2 & te2 & Ee2 & Hb2).
      cbn [map concat fst snd]. rewrite <- app_assoc. rewrite (exec_peek_app _ _ _ _ _ _ Ee2), Hb2.
      rewrite exec_write.
      specialize (IH f (i + 1)%Z ln r (rev [44] ++ rev j ++ o) ltac:(lia)). cbn [map concat fst snd] in IH.
      rewrite <- app_assoc in IH. rewrite IH. f_equal. f_equal.
      change (join_comma (j :: j2 :: map snd t2)) with (j ++ [44] ++ join_comma (j2 :: map snd t2)).
      rewrite !rev_app_distr. rewrite <- !app_assoc. reflexivity.
Qed.

Lemma json_array_indef items : items_ok items ->
  item_json (159 :: concat (map fst items) ++ [255]) (json_arr (map snd items)).
Proof.
  intros Ho. destruct (array_indef_loop items Ho) as (d & H). split; [discriminate|].
  exists (S d). intros f r o Hf. destruct f as [|f]; [lia|].
  cbn [app]. cbn [cbor2JsonOneObject]. rewrite exec_peek. change (major_of 159) with 128.
  change (128 =? majorTypeArray) with true. cbv iota.
  rewrite exec_write, exec_bind, exec_readByte. cbn [rest outr].
  change (negb (major_of 159 =? majorTypeArray)) with false. cbv iota.
  rewrite exec_bind. change (minor_of 159) with 31. unfold container_header.
  change (31 =? additionalTypeInfiniteCount) with true. cbv iota. rewrite exec_ret. cbn [rest outr fst snd].
  rewrite <- app_assoc. cbn [app]. rewrite (H f 0%Z 0%Z r _ ltac:(lia)). f_equal. f_equal.
  unfold json_arr. rewrite !rev_app_distr. cbn [rev app]. rewrite <- !app_assoc. reflexivity.
Qed.

(* the loop of a definite-length array *)
Lemma array_def_loop items : items_ok items -> exists d, forall f i r o, (d <= f)%nat ->
  exec (array_loop Orc f false i (i + Z.of_nat (length items))) (concat (map fst items) ++ r) o =
  Ret tt (mkst r (rev (join_comma (map snd items) ++ [93]) ++ o) 0).
Proof.
  induction 1 as [|[e j] t Hx Ht (d & IH)].
  - exists 1%nat. intros f i r o Hf. destruct f as [|f]; [lia|].
    cbn [length map concat app array_loop orb]. replace (i <? i + Z.of_nat 0)%Z with false by lia. reflexivity.
  - cbn [fst snd] in Hx. destruct Hx as (Hne & de & He).
    exists (S (Nat.max de d)). intros f i r o Hf. destruct f as [|f]; [lia|].
    cbn [map concat fst snd length]. rewrite <- app_assoc. cbn [array_loop orb]. cbv zeta.
    replace (i <? i + Z.of_nat (S (length t)))%Z with true by lia.
    rewrite exec_bind, (He f _ o ltac:(lia)). cbn [rest outr].
    specialize (IH f (i + 1)%Z r).
    replace (i + 1 + Z.of_nat (length t))%Z with (i + Z.of_nat (S (length t)))%Z in IH by lia.
    destruct t as [|[e2 j2] t2].
    + cbn [length]. replace (i + 1 <? i + Z.of_nat 1)%Z with false by lia.
      rewrite (IH _ ltac:(lia)). cbn [map join_comma snd]. f_equal. f_equal. change (rev ([] ++ [93])) with [93]. rewrite (rev_app_distr j [93]). cbn [rev app]. reflexivity.
    + replace (i + 1 <? i + Z.of_nat (S (length ((e2, j2) :: t2))))%Z with true by (cbn [length]; lia).
      rewrite exec_write. rewrite (IH _ ltac:(lia)). f_equal. f_equal.
      cbn [map snd fst]. rewrite join_comma_cons.
      rewrite !rev_app_distr. rewrite <- !app_assoc. reflexivity.
Qed.

Lemma json_array_def items ai h : items_ok items -> HeadA 4 ai (len items) h -> len items < 2 ^ 63 ->
  item_json (h ++ concat (map fst items)) (json_arr (map snd items)).
Proof.
  intros Ho HA H63. destruct (array_def_loop items Ho) as (d & H).
  destruct (exec_intAT 4 ai (len items) h HA ltac:(change (2^64) with 18446744073709551616; change (2^63) with 9223372036854775808 in H63; lia)) as (args & Eh & Hargs).
  destruct (HeadA_ai _ _ _ _ HA) as [Hai _]. destruct (major_minor 4 ai ltac:(lia) ltac:(lia)) as [Mj Mn].
  split; [rewrite Eh; discriminate|]. exists (S d). intros f r o Hf. destruct f as [|f]; [lia|].
  rewrite Eh. cbn [app]. cbn [cbor2JsonOneObject]. rewrite exec_peek, Mj.
  change (4 * 32 =? majorTypeArray) with true. cbv iota.
  rewrite exec_write, exec_bind, exec_readByte. cbn [rest outr]. rewrite Mj, Mn.
  change (negb (4 * 32 =? majorTypeArray)) with false. cbv iota.
  rewrite exec_bind. unfold container_header.
  assert (Hinf : (ai =? additionalTypeInfiniteCount) = false) by (unfold additionalTypeInfiniteCount; lia). rewrite Hinf.
  rewrite exec_bind. rewrite <- app_assoc. destruct (Hargs (concat (map fst items) ++ r) (rev [91] ++ o)) as (v & Ev & _ & Hv).
  rewrite Ev. cbn [rest outr]. rewrite exec_ret. cbn [rest outr fst snd]. rewrite (Hv H63).
  replace (Z.of_N (len items)) with (0 + Z.of_nat (length items))%Z by (unfold len; lia).
  rewrite (H f 0%Z r _ ltac:(lia)). f_equal. f_equal.
  unfold json_arr. rewrite !rev_app_distr. cbn [rev app]. rewrite <- !app_assoc. reflexivity.
Qed.

(* the loop of an indefinite-length map, entered at the top at an even position *)
Definition pairs_ok (kvs : list ((list N * list N) * (list N * list N))) : Prop :=
  Forall (fun p => item_json (fst (fst p)) (snd (fst p)) /\ item_json (fst (snd p)) (snd (snd p))) kvs.

Lemma map_indef_loop kvs : pairs_ok kvs -> exists d, forall f i ln r o, (d <= f)%nat -> (i mod 2 = 0)%Z ->
  exec (map_loop Orc f true i ln) (concat (map (fun p => fst (fst p) ++ fst (snd p)) kvs) ++ 255 :: r) o =
  Ret tt (mkst r (rev (join_pairs (map (fun p => (snd (fst p), snd (snd p))) kvs) ++ [125]) ++ o) 0).
Proof.
  induction 1 as [|[[ek jk] [ev jv]] t Hx Ht (d & IH)].
  - exists 1%nat. intros f i ln r o Hf Hi. destruct f as [|f]; [lia|]. reflexivity.
  - cbn [fst snd] in Hx. destruct Hx as [(Hnk & dk & Hk) (Hnv & dv & Hv)].
    destruct (item_first ek jk (conj Hnk (ex_intro _ dk Hk))) as (bk & tk & Eek & Hbk).
    destruct (item_first ev jv (conj Hnv (ex_intro _ dv Hv))) as (bv & tv & Eev & Hbv).
    exists (S (S (Nat.max (Nat.max dk dv) d))). intros f i ln r o Hf Hi. destruct f as [|[|f]]; [lia|lia|].
    cbn [map concat fst snd]. rewrite <- !app_assoc.
    (* key *)
    cbn [map_loop orb]. cbv zeta. rewrite (exec_peek_app _ _ _ _ _ _ Eek), Hbk.
    rewrite exec_bind, (Hk (S f) _ o ltac:(lia)). cbn [rest outr].
    replace (i mod 2 =? 0)%Z with true by lia. rewrite exec_write.
    (* value *)
    cbn [map_loop orb]. cbv zeta. rewrite (exec_peek_app _ _ _ _ _ _ Eev), Hbv.
    rewrite exec_bind, (Hv f _ _ ltac:(lia)). cbn [rest outr].
    replace ((i + 1) mod 2 =? 0)%Z with false by (rewrite Z.add_mod, Hi by lia; reflexivity).
    destruct t as [|[[ek2 jk2] [ev2 jv2]] t2].
    + cbn [map concat app join_pairs]. rewrite exec_peek. change (is_break_byte 255) with true. cbv iota.
      rewrite exec_readbyte, exec_write, exec_ret. f_equal. f_equal. cbn [fst snd].
      rewrite !rev_app_distr. cbn [rev app]. rewrite <- !app_assoc. reflexivity.
    + inversion Ht as [|? ? Hx2 _]; subst. cbn [fst snd] in Hx2. destruct Hx2 as [Hk2 _].
      destruct (item_first ek2 jk2 Hk2) as (b2 & te2 & Ee2 & Hb2).
      cbn [map concat fst snd]. rewrite <- !app_assoc. rewrite (exec_peek_app _ _ _ _ _ _ Ee2), Hb2.
      rewrite exec_write.
      specialize (IH f (i + 1 + 1)%Z ln r (rev [44] ++ rev jv ++ rev [58] ++ rev jk ++ o) ltac:(lia)
                    ltac:(replace (i + 1 + 1)%Z with (i + 2)%Z by lia; rewrite Z.add_mod, Hi by lia; reflexivity)).
      cbn [map concat fst snd] in IH. rewrite <- !app_assoc in IH. rewrite IH. f_equal. f_equal.
      change (join_pairs ((jk, jv) :: (jk2, jv2) :: map (fun p => (snd (fst p), snd (snd p))) t2))
        with (jk ++ [58] ++ jv ++ [44] ++ join_pairs ((jk2, jv2) :: map (fun p => (snd (fst p), snd (snd p))) t2)).
      rewrite !rev_app_distr. cbn [rev app]. rewrite <- !app_assoc. reflexivity.
Qed.

Lemma json_map_indef kvs : pairs_ok kvs ->
  item_json (191 :: concat (map (fun p => fst (fst p) ++ fst (snd p)) kvs) ++ [255])
            (json_obj (map (fun p => (snd (fst p), snd (snd p))) kvs)).
Proof.
  intros Ho. destruct (map_indef_loop kvs Ho) as (d & H). split; [discriminate|].
  exists (S d). intros f r o Hf. destruct f as [|f]; [lia|].
  cbn [app]. cbn [cbor2JsonOneObject]. rewrite exec_peek. change (major_of 191) with 160.
  change (160 =? majorTypeArray) with false. change (160 =? majorTypeMap) with true. cbv iota.
  rewrite exec_bind, exec_readByte. cbn [rest outr].
  change (negb (major_of 191 =? majorTypeMap)) with false. cbv iota.
  rewrite exec_bind. change (minor_of 191) with 31. unfold container_header.
  change (31 =? additionalTypeInfiniteCount) with true. cbv iota. rewrite exec_ret. cbn [rest outr fst snd].
  rewrite exec_write. rewrite <- app_assoc. cbn [app]. rewrite (H f 0%Z 0%Z r _ ltac:(lia) ltac:(reflexivity)). f_equal. f_equal.
  unfold json_obj. rewrite !rev_app_distr. cbn [rev app]. rewrite <- !app_assoc. reflexivity.
Qed.
End Dec.


(* ------------------------------------------------------------------ *)
(* every primitive, every nesting, whole events                        *)
(* ------------------------------------------------------------------ *)
Fixpoint all_some {A} (l : list (option A)) : option (list A) :=
  match l with
  | [] => Some []
  | None :: _ => None
  | Some x :: t => match all_some t with Some r => Some (x :: r) | None => None end
  end.

Lemma int64_indep : dst_indep cbor_AppendInt64.
Proof.
  intros dst v. unfold cbor_AppendInt64. destruct (if (v <? 0)%Z then _ else _) as [mj cv].
  destruct (cv <=? Z.of_N additionalMax)%Z; [reflexivity|]. unfold appendCborTypePrefix.
  destruct (if _ <? 256 then _ else _). reflexivity.
Qed.
Lemma uint64_indep : dst_indep cbor_AppendUint64.
Proof.
  intros dst v. unfold cbor_AppendUint64. destruct (v <=? additionalMax); [reflexivity|]. unfold appendCborTypePrefix.
  destruct (if _ <? 256 then _ else _). reflexivity.
Qed.
Lemma f32_indep : dst_indep cbor_AppendFloat32.
Proof.
  intros dst v. unfold cbor_AppendFloat32. destruct (f32_is_nan v); [reflexivity|].
  destruct (v =? f32_pos_inf); [reflexivity|]. destruct (v =? f32_neg_inf); [reflexivity|]. rewrite <- app_assoc. reflexivity.
Qed.
Lemma f64_indep : dst_indep cbor_AppendFloat64.
Proof.
  intros dst v. unfold cbor_AppendFloat64. destruct (f64_is_nan v); [reflexivity|].
  destruct (v =? f64_pos_inf); [reflexivity|]. destruct (v =? f64_neg_inf); [reflexivity|]. rewrite <- app_assoc. reflexivity.
Qed.

Section All.
Variable Orc : oracle.
Variable f64_of_time : Z -> N -> N.
Variable f64_of_dur : Z -> Z -> N.
Hypothesis f64_of_time_range : forall s n, f64_of_time s n < 2 ^ 64.
Hypothesis f64_of_dur_range : forall d u, f64_of_dur d u < 2 ^ 64.

Notation item_json := (item_json Orc).

Lemma time_indep : dst_indep (cbor_AppendTime f64_of_time).
Proof.
  intros dst [secs nanos]. unfold cbor_AppendTime. destruct (nanos =? 0).
  - unfold appendIntegerTimestamp. destruct (if (secs <? 0)%Z then _ else _) as [mj v]. unfold appendCborTypePrefix.
    destruct (if _ <? 256 then _ else _). rewrite <- app_assoc. reflexivity.
  - unfold appendFloatTimestamp. rewrite (f64_indep (dst ++ _)), (f64_indep ([] ++ _)), <- !app_assoc. reflexivity.
Qed.
Lemma dur_indep u i : dst_indep (cbor_AppendDuration f64_of_dur u i).
Proof. intros dst v. unfold cbor_AppendDuration. destruct i; [apply int64_indep|apply f64_indep]. Qed.

(* ---- time, duration ---- *)
Definition time_json (t : Z * N) : option (list N) :=
  let '(secs, nanos) := t in
  if nanos =? 0 then option_map quote (o_tsi Orc secs)
  else option_map quote (o_tsf Orc W64 (canon64 (f64_of_time secs nanos))).

Definition dur_json (unit : Z) (useInt : bool) (d : Z) : option (list N) :=
  if useInt then Some (print_Z (wrap64 (Z.quot d unit))) else f64_json Orc (f64_of_dur d unit).

Lemma exec_tag_time rs o : exec (decodeTagData Orc) (193 :: rs) o = exec (decodeTimeStamp Orc) rs o.
Proof.
  unfold decodeTagData. rewrite exec_bind, exec_readByte. cbn [rest outr].
  change (major_of 193) with 192. change (minor_of 193) with 1.
  change (negb (192 =? majorTypeTags)) with false. cbv iota.
  change (1 =? additionalTypeTimestamp) with true. cbv iota. reflexivity.
Qed.

Lemma json_time t j : int64_ok (fst t) -> time_json t = Some j -> item_json (cbor_AppendTime f64_of_time [] t) j.
Proof.
  destruct t as [secs nanos]. cbn [fst]. intros Hs Hj. unfold cbor_AppendTime, time_json in *.
  destruct (nanos =? 0).
  - destruct (o_tsi Orc secs) as [t0|] eqn:Eo; [|discriminate]. cbn in Hj. inversion Hj; subst j. clear Hj.
    assert (G : exists m n ai h, appendIntegerTimestamp [] secs = 193 :: h /\ HeadA m ai n h /\ n < 2 ^ 63 /\ (m = 0 \/ m = 1) /\
                (if m =? 0 then Z.of_N n else (-1 - Z.of_N n)%Z) = secs).
    { unfold appendIntegerTimestamp. destruct (secs <? 0)%Z eqn:E.
      - rewrite neg_content by (auto; lia). set (c := (-1 - secs)%Z).
        assert (Hc : (0 <= c < two63Z)%Z) by (unfold c, int64_ok, two63Z in *; lia).
        rewrite Z.mod_small by (unfold two63Z, two64Z in *; lia).
        destruct (prefix_headA 1 (Z.to_N c) ([] ++ [N.lor majorTypeTags additionalTypeTimestamp]) ltac:(lia) ltac:(unfold two63Z in *; change (2^64) with 18446744073709551616; lia)) as (h & Eh & HA & _).
        exists 1, (Z.to_N c), (prefix_ai (Z.to_N c)), h. change majorTypeNegativeInt with (1 * 32). rewrite Eh.
        repeat split; auto; [unfold two63Z in *; change (2^63) with 9223372036854775808; lia|change (1 =? 0) with false; cbv iota; unfold c; lia].
      - assert (Hc : (0 <= secs < two63Z)%Z) by (unfold int64_ok, two63Z in *; lia).
        rewrite Z.mod_small by (unfold two63Z, two64Z in *; lia).
        destruct (prefix_headA 0 (Z.to_N secs) ([] ++ [N.lor majorTypeTags additionalTypeTimestamp]) ltac:(lia) ltac:(unfold two63Z in *; change (2^64) with 18446744073709551616; lia)) as (h & Eh & HA & _).
        exists 0, (Z.to_N secs), (prefix_ai (Z.to_N secs)), h. change majorTypeUnsignedInt with (0 * 32). rewrite Eh.
        repeat split; auto; [unfold two63Z in *; change (2^63) with 9223372036854775808; lia|change (0 =? 0) with true; cbv iota; lia]. }
    destruct G as (m & n & ai & h & E & HA & Hn & Hm & Hv). rewrite E.
    split; [discriminate|]. exists 1%nat. intros f r o Hf. destruct f as [|f]; [lia|].
    cbn [app]. apply exec_one_tag; [reflexivity|]. rewrite exec_tag_time.
    destruct (HeadA_first _ _ _ _ HA) as (t & Et). destruct (HeadA_ai _ _ _ _ HA) as [Hai Hm8].
    destruct (major_minor m ai Hm8 ltac:(lia)) as [Mj Mn].
    pose proof (exec_decodeInteger m ai n h r o HA Hn Hm) as Ed. rewrite Hv in Ed.
    unfold decodeTimeStamp. rewrite Et in *. cbn [app] in *. rewrite exec_peekrb, Mj.
    assert (Hb : ((m * 32 =? majorTypeUnsignedInt) || (m * 32 =? majorTypeNegativeInt)) = true) by (destruct Hm as [-> | ->]; reflexivity).
    rewrite Hb. rewrite exec_bind, Ed. cbn [rest outr]. rewrite Eo. cbn [ask]. rewrite exec_bind, exec_ret. cbn [rest outr].
    rewrite exec_ret. reflexivity.
  - set (b := f64_of_time secs nanos) in *.
    destruct (o_tsf Orc W64 (canon64 b)) as [t0|] eqn:Eo; [|discriminate]. cbn in Hj. inversion Hj; subst j. clear Hj.
    unfold appendFloatTimestamp. fold b. rewrite f64_indep, f64_bytes.
    split; [discriminate|]. exists 1%nat. intros f r o Hf. destruct f as [|f]; [lia|].
    change (([] ++ [N.lor majorTypeTags additionalTypeTimestamp]) ++ 251 :: be_bytes 8 (canon64 b)) with (193 :: 251 :: be_bytes 8 (canon64 b)).
    cbn [app]. apply exec_one_tag; [reflexivity|]. rewrite exec_tag_time.
    unfold decodeTimeStamp. rewrite exec_peekrb. change (major_of 251) with 224.
    change ((224 =? majorTypeUnsignedInt) || (224 =? majorTypeNegativeInt)) with false. cbv iota.
    change (224 =? majorTypeSimpleAndFloat) with true. cbv iota.
    rewrite exec_bind, exec_decodeFloat64 by (apply canon64_lt; apply f64_of_time_range). cbn [rest outr fst snd].
    rewrite Eo. cbn [ask]. rewrite exec_bind, exec_ret. cbn [rest outr]. rewrite exec_ret. reflexivity.
Qed.

Lemma json_dur u i d j : dur_json u i d = Some j -> item_json (cbor_AppendDuration f64_of_dur u i [] d) j.
Proof.
  unfold dur_json, cbor_AppendDuration. destruct i.
  - intros H; inversion H; subst. apply json_int. apply wrap64_range.
  - intros H. apply json_f64; auto.
Qed.

(* ---- slices ---- *)
Lemma all_some_map {A} (jf : A -> option (list N)) vals js : all_some (map jf vals) = Some js ->
  Forall2 (fun v j => jf v = Some j) vals js.
Proof.
  revert js. induction vals as [|v t IH]; intros js H; cbn in H.
  - inversion H; constructor.
  - destruct (jf v) as [j|] eqn:E; [|discriminate]. destruct (all_some (map jf t)) as [r|]; [|discriminate].
    inversion H; subst. constructor; auto.
Qed.

Lemma items_of {A} (ap : list N -> A -> list N) (jf : A -> option (list N)) vals js :
  (forall v j, In v vals -> jf v = Some j -> item_json (ap [] v) j) ->
  Forall2 (fun v j => jf v = Some j) vals js ->
  exists items, items_ok Orc items /\ map fst items = map (ap []) vals /\ map snd items = js.
Proof.
  intros H F. induction F as [|v j vals js Hj _ IH].
  - exists []. repeat split; constructor.
  - destruct IH as (items & Ho & E1 & E2); [intros; apply H; auto; right; auto|].
    exists ((ap [] v, j) :: items). repeat split; cbn [map fst snd]; try congruence.
    constructor; auto. cbn [fst snd]. apply H; auto. left; auto.
Qed.

Lemma json_slice {A} (ap : list N -> A -> list N) (jf : A -> option (list N)) vals js :
  dst_indep ap -> (forall v j, In v vals -> jf v = Some j -> item_json (ap [] v) j) ->
  all_some (map jf vals) = Some js -> len vals < 2 ^ 63 ->
  item_json (cbor_slice ap [] vals) (json_arr js).
Proof.
  intros Hi H Ha Hl. apply all_some_map in Ha. destruct (items_of ap jf vals js H Ha) as (items & Ho & E1 & E2).
  rewrite cbor_slice_fast_eq by auto. unfold cbor_slice_fast. destruct (len vals =? 0) eqn:E0.
  - apply len_nil_iff in E0. subst vals. inversion Ha; subst.
    change (cbor_AppendArrayEnd (cbor_AppendArrayStart [])) with (159 :: concat (map fst (@nil (list N * list N))) ++ [255]).
    apply (json_array_indef Orc []). constructor.
  - change majorTypeArray with (4 * 32).
    destruct (append_head_A 4 (len vals) ltac:(lia) ltac:(change (2^64) with 18446744073709551616; change (2^63) with 9223372036854775808 in Hl; lia)) as (ai & h & Eh & HA).
    rewrite Eh, flat_map_concat_map, <- E1, <- E2.
    assert (El : len vals = len items) by (unfold len; rewrite <- (map_length fst items), E1, map_length; reflexivity).
    rewrite El in HA, Hl. apply (json_array_def Orc items ai h Ho HA Hl).
Qed.

(* ---- all primitives ---- *)
Definition stringer_json (o : option (list N)) : list N :=
  match o with None => lit_null | Some s => appendQuotedJSON s end.

Definition json_prim (p : prim) : option (list N) :=
  match p with
  | PString s | PBytes s => Some (appendQuotedJSON s)
  | PStrings l => Some (json_arr (map appendQuotedJSON l))
  | PStringer o => Some (stringer_json o)
  | PStringers l => Some (json_arr (map stringer_json l))
  | PHex s => Some (quote (hexString s))
  | PJSON s => Some s
  | PCBOR s => Some (data_url s)
  | PBool b => Some (if b then lit_true else lit_false)
  | PBools l => Some (json_arr (map (fun b : bool => if b then lit_true else lit_false) l))
  | PInt z => Some (print_Z z)
  | PInts l => Some (json_arr (map print_Z l))
  | PUint n => Some (print_N n)
  | PUints l => Some (json_arr (map print_N l))
  | PF32 b => f32_json Orc b
  | PFs32 l => option_map json_arr (all_some (map (f32_json Orc) l))
  | PF64 b => f64_json Orc b
  | PFs64 l => option_map json_arr (all_some (map (f64_json Orc) l))
  | PTime t => time_json t
  | PTimes l => option_map json_arr (all_some (map time_json l))
  | PDur u i d => dur_json u i d
  | PDurs u i l => option_map json_arr (all_some (map (dur_json u i) l))
  | PIface (inl j) => Some j
  | PIface (inr e) => Some (appendQuotedJSON (lit_marshaling_error ++ e))
  | PType None => Some (appendQuotedJSON lit_nil)
  | PType (Some s) => Some (appendQuotedJSON s)
  | PIP ip => if ((length ip =? 4) || (length ip =? 16))%nat then Some (quote (ip_string ip)) else None
  | PMAC ha => if (length ha =? 6)%nat then Some (quote (mac_string ha)) else None
  | PPrefix ip mask => Some (quote (ipnet_string ip (mask_size_ones mask mod 256)))
  | PNil => Some lit_null
  end.

(* sizes the decoder's int64 arithmetic can represent (a Go slice is far smaller) *)
Definition small_str (s : list N) : Prop := len s < 2 ^ 60.
Definition small_prim (p : prim) : Prop :=
  match p with
  | PString s | PBytes s | PHex s | PJSON s | PCBOR s | PIP s | PMAC s | PPrefix s _ => small_str s
  | PStrings l => len l < 2 ^ 63 /\ Forall small_str l
  | PStringer (Some s) | PType (Some s) => small_str s
  | PStringers l => Forall (fun o => match o with Some s => small_str s | None => True end) l
  | PBools l => len l < 2 ^ 63
  | PInts l => len l < 2 ^ 63 | PUints l => len l < 2 ^ 63
  | PFs32 l => len l < 2 ^ 63 | PFs64 l => len l < 2 ^ 63 | PTimes l => len l < 2 ^ 63 | PDurs _ _ l => len l < 2 ^ 63
  | PIface (inl j) => small_str j
  | PIface (inr e) => small_str (lit_marshaling_error ++ e)
  | _ => True
  end.

Lemma small63 s : small_str s -> len s < 2 ^ 63.
Proof. unfold small_str. change (2^60) with 1152921504606846976. change (2^63) with 9223372036854775808. lia. Qed.

Lemma all_some_total {A} (f : A -> list N) (l : list A) : all_some (map (fun x => Some (f x)) l) = Some (map f l).
Proof. induction l as [|x t IH]; cbn; [reflexivity|]. rewrite IH. reflexivity. Qed.

Notation enc_prim := (CborEnc.enc_prim f64_of_time f64_of_dur).

Theorem prim_decodes p j : wf_prim p -> small_prim p -> json_prim p = Some j -> item_json (enc_prim [] p) j.
Proof.
  destruct p; cbn [wf_prim small_prim json_prim CborEnc.enc_prim]; intros W Sm Hj.
  - inversion Hj; subst. apply json_string; auto. apply small63; auto.
  - (* Strings *) inversion Hj; subst. destruct W as [Wl Ws]. destruct Sm as [Sl Ss].
    rewrite cbor_AppendStrings_fast_eq. unfold cbor_AppendStrings_fast. change majorTypeArray with (4 * 32).
    destruct (append_head_A 4 (len l) ltac:(lia) Wl) as (ai & h & Eh & HA). rewrite Eh, flat_map_concat_map.
    destruct (items_of cbor_AppendString (fun s => Some (appendQuotedJSON s)) l (map appendQuotedJSON l)) as (items & Ho & E1 & E2).
    { intros v j0 Hin E. inversion E; subst. rewrite Forall_forall in Ws, Ss. apply json_string; auto. apply small63; auto. }
    { clear. induction l; constructor; auto. }
    rewrite <- E1, <- E2.
    assert (El : len l = len items) by (unfold len; rewrite <- (map_length fst items), E1, map_length; reflexivity).
    rewrite El in HA, Sl. apply (json_array_def Orc items ai h Ho HA Sl).
  - (* Stringer *) inversion Hj; subst. destruct o as [s|]; cbn [cbor_AppendStringer stringer_json].
    + apply json_string; auto. apply small63; auto.
    + apply json_nil.
  - (* Stringers *) inversion Hj; subst.
    assert (E : cbor_AppendStringers [] l = 159 :: concat (map (cbor_AppendStringer []) l) ++ [255]).
    { assert (Hind : dst_indep cbor_AppendStringer).
      { intros dst [s|]; cbn [cbor_AppendStringer]; [apply string_indep|reflexivity]. }
      unfold cbor_AppendStringers. destruct l as [|v0 rest0]; [reflexivity|].
      rewrite (fold_left_indep _ Hind), (Hind (cbor_AppendArrayStart [])). unfold cbor_AppendArrayEnd, cbor_AppendArrayStart.
      cbn [map concat app]. rewrite flat_map_concat_map, <- !app_assoc. reflexivity. }
    rewrite E.
    destruct (items_of cbor_AppendStringer (fun o => Some (stringer_json o)) l (map stringer_json l)) as (items & Ho & E1 & E2).
    { intros v j0 Hin Ej. inversion Ej; subst. rewrite Forall_forall in W, Sm. specialize (W v Hin). specialize (Sm v Hin).
      destruct v as [s|]; cbn [cbor_AppendStringer stringer_json]; [apply json_string; auto; apply small63; auto|apply json_nil]. }
    { clear. induction l; constructor; auto. }
    rewrite <- E1, <- E2. apply json_array_indef; auto.
  - inversion Hj; subst. apply json_bytes; auto. apply small63; auto.
  - inversion Hj; subst. apply json_hex; auto. apply small63; auto.
  - inversion Hj; subst. apply json_rawjson; auto. apply small63; auto.
  - inversion Hj; subst. apply json_rawcbor; auto.
  - inversion Hj; subst. apply json_bool.
  - inversion Hj; subst. apply (json_slice cbor_AppendBool (fun b : bool => Some (if b then lit_true else lit_false))); auto.
    + apply bool_indep.
    + intros v j0 _ E. inversion E; subst. apply json_bool.
    + apply all_some_total.
  - inversion Hj; subst. apply json_int; auto.
  - inversion Hj; subst. destruct W as [Wl Wv]. apply (json_slice cbor_AppendInt64 (fun z => Some (print_Z z))); auto.
    + apply int64_indep.
    + intros v j0 Hin E. inversion E; subst. rewrite Forall_forall in Wv. apply json_int; auto.
    + apply all_some_total.
  - inversion Hj; subst. apply json_uint; auto.
  - inversion Hj; subst. destruct W as [Wl Wv]. apply (json_slice cbor_AppendUint64 (fun n => Some (print_N n))); auto.
    + apply uint64_indep.
    + intros v j0 Hin E. inversion E; subst. rewrite Forall_forall in Wv. apply json_uint; auto.
    + apply all_some_total.
  - apply json_f32; auto.
  - destruct W as [Wl Wv]. destruct (all_some (map (f32_json Orc) l)) as [js|] eqn:E; [|discriminate]. inversion Hj; subst.
    apply (json_slice cbor_AppendFloat32 (f32_json Orc)); auto; [apply f32_indep|].
    intros v j0 Hin Ej. rewrite Forall_forall in Wv. apply json_f32; auto.
  - apply json_f64; auto.
  - destruct W as [Wl Wv]. destruct (all_some (map (f64_json Orc) l)) as [js|] eqn:E; [|discriminate]. inversion Hj; subst.
    apply (json_slice cbor_AppendFloat64 (f64_json Orc)); auto; [apply f64_indep|].
    intros v j0 Hin Ej. rewrite Forall_forall in Wv. apply json_f64; auto.
  - apply json_time; auto.
  - destruct W as [Wl Wv]. destruct (all_some (map time_json l)) as [js|] eqn:E; [|discriminate]. inversion Hj; subst.
    apply (json_slice (cbor_AppendTime f64_of_time) time_json); auto; [apply time_indep|].
    intros v j0 Hin Ej. rewrite Forall_forall in Wv. apply json_time; auto.
  - apply json_dur; auto.
  - destruct (all_some (map (dur_json unit useInt) l)) as [js|] eqn:E; [|discriminate]. inversion Hj; subst.
    apply (json_slice (cbor_AppendDuration f64_of_dur unit useInt) (dur_json unit useInt)); auto; [apply dur_indep|].
    intros v j0 Hin Ej. apply json_dur; auto.
  - destruct m as [j0|e]; inversion Hj; subst; cbn [cbor_AppendInterface wf_iface] in *.
    + apply json_rawjson; auto. apply small63; auto.
    + apply json_string; auto. apply small63; auto.
  - destruct t as [s|]; inversion Hj; subst; cbn [cbor_AppendType wf_ostr] in *.
    + apply json_string; auto. apply small63; auto.
    + apply json_string; [split; [unfold lit_nil, bytes_ok, byte_ok; repeat constructor|vm_compute; reflexivity]|vm_compute; reflexivity].
  - destruct ((length ip =? 4) || (length ip =? 16))%nat eqn:E; [|discriminate]. inversion Hj; subst.
    apply json_ip; auto. apply orb_true_iff in E as [E|E]; apply Nat.eqb_eq in E; auto.
  - destruct (length ha =? 6)%nat eqn:E; [|discriminate]. inversion Hj; subst. apply json_mac; auto. apply Nat.eqb_eq; auto.
  - inversion Hj; subst. apply json_prefix; auto. apply small63; auto.
  - inversion Hj; subst. apply json_nil.
Qed.

(* ---- nesting ---- *)
Notation enc_cval := (CborEnc.enc_cval f64_of_time f64_of_dur).
Notation enc_fields := (CborEnc.enc_fields f64_of_time f64_of_dur).
Notation enc_event := (CborEnc.enc_event f64_of_time f64_of_dur).

Definition field_bytes (kv : list N * cval) : list N := cbor_AppendString [] (fst kv) ++ enc_cval (snd kv).

Lemma enc_arr_eq l : enc_cval (VArr l) = 159 :: concat (map enc_cval l) ++ [255].
Proof.
  cbn [CborEnc.enc_cval].
  assert (G : forall dst,
    (fix go (l : list cval) (dst : list N) : list N :=
       match l with [] => dst | x :: t => go t (cbor_AppendArrayDelim dst ++ enc_cval x) end) l dst
    = dst ++ concat (map enc_cval l)).
  { induction l as [|x t IH]; intros dst; cbn [map concat]; [rewrite app_nil_r; reflexivity|].
    rewrite IH. unfold cbor_AppendArrayDelim. rewrite <- app_assoc. reflexivity. }
  rewrite G. unfold cbor_AppendArrayEnd, cbor_AppendArrayStart. rewrite <- app_assoc. reflexivity.
Qed.

Lemma fields_fold kvs : forall dst, dst <> [] ->
  fold_left (fun dst kv => cbor_AppendKey dst (fst kv) ++ enc_cval (snd kv)) kvs dst = dst ++ concat (map field_bytes kvs).
Proof.
  induction kvs as [|[k x] t IH]; intros dst Hd; cbn [fold_left map concat fst snd]; [rewrite app_nil_r; reflexivity|].
  rewrite appendKey_nonempty by auto. rewrite (string_indep dst k).
  rewrite IH by (destruct dst; [congruence|discriminate]).
  unfold field_bytes. cbn [fst snd]. rewrite <- !app_assoc. reflexivity.
Qed.

Lemma enc_dict_eq kvs : enc_cval (VDict kvs) = 191 :: concat (map field_bytes kvs) ++ [255].
Proof.
  cbn [CborEnc.enc_cval].
  assert (G : forall dst, dst <> [] ->
    (fix go (l : list (list N * cval)) (dst : list N) : list N :=
       match l with [] => dst | (k, x) :: t => go t (cbor_AppendKey dst k ++ enc_cval x) end) kvs dst
    = dst ++ concat (map field_bytes kvs)).
  { induction kvs as [|[k x] t IH]; intros dst Hd; cbn [map concat]; [rewrite app_nil_r; reflexivity|].
    rewrite IH.
    - rewrite appendKey_nonempty by auto. rewrite (string_indep dst k). unfold field_bytes. cbn [fst snd].
      rewrite <- !app_assoc. reflexivity.
    - rewrite appendKey_nonempty by auto. rewrite (string_indep dst k). destruct dst; [congruence|discriminate]. }
  rewrite G by discriminate. unfold cbor_AppendEndMarker, cbor_AppendBeginMarker. rewrite <- app_assoc. reflexivity.
Qed.

Lemma enc_event_eq kvs : enc_event kvs = 191 :: concat (map field_bytes kvs) ++ [255].
Proof.
  unfold CborEnc.enc_event, CborEnc.enc_fields, cbor_AppendLineBreak. rewrite fields_fold by discriminate.
  unfold cbor_AppendEndMarker, cbor_AppendBeginMarker. rewrite <- app_assoc. reflexivity.
Qed.

Fixpoint json_cval (v : cval) : option (list N) :=
  match v with
  | VP p => json_prim p
  | VArr l => option_map json_arr (all_some (map json_cval l))
  | VDict kvs =>
      option_map json_obj
        (all_some (map (fun kv => option_map (fun j => (appendQuotedJSON (fst kv), j)) (json_cval (snd kv))) kvs))
  end.

Definition json_fields (kvs : list (list N * cval)) : option (list N) :=
  option_map json_obj
    (all_some (map (fun kv => option_map (fun j => (appendQuotedJSON (fst kv), j)) (json_cval (snd kv))) kvs)).

Fixpoint small_cval (v : cval) : Prop :=
  match v with
  | VP p => small_prim p
  | VArr l => (fix all (l : list cval) : Prop := match l with [] => True | x :: t => small_cval x /\ all t end) l
  | VDict kvs =>
      (fix all (l : list (list N * cval)) : Prop :=
         match l with [] => True | (k, x) :: t => small_str k /\ small_cval x /\ all t end) kvs
  end.
Definition small_fields (kvs : list (list N * cval)) : Prop :=
  Forall (fun kv => small_str (fst kv) /\ small_cval (snd kv)) kvs.

(* fields -> the pairs the map loop consumes *)
Lemma fields_pairs_ok kvs : forall ps,
  Forall (fun kv => forall j, wf_cval (snd kv) -> small_cval (snd kv) -> json_cval (snd kv) = Some j -> item_json (enc_cval (snd kv)) j) kvs ->
  Forall (fun kv => wf_str (fst kv) /\ wf_cval (snd kv)) kvs ->
  Forall (fun kv => small_str (fst kv) /\ small_cval (snd kv)) kvs ->
  all_some (map (fun kv => option_map (fun j => (appendQuotedJSON (fst kv), j)) (json_cval (snd kv))) kvs) = Some ps ->
  exists pairs, pairs_ok Orc pairs /\
    map (fun p => fst (fst p) ++ fst (snd p)) pairs = map field_bytes kvs /\
    map (fun p => (snd (fst p), snd (snd p))) pairs = ps.
Proof.
  induction kvs as [|[k x] t IH]; intros ps HI HW HS Ha; cbn [map all_some] in Ha.
  - inversion Ha; subst. exists []. repeat split; constructor.
  - cbn [fst snd] in Ha. destruct (json_cval x) as [j|] eqn:Ej; [|discriminate]. cbn [option_map] in Ha.
    destruct (all_some _) as [ps'|] eqn:Ea; [|discriminate]. inversion Ha; subst. clear Ha.
    inversion HI as [|? ? HIx HIt]; subst. inversion HW as [|? ? [Wk Wx] Wt]; subst. inversion HS as [|? ? [Sk Sx] St]; subst.
    cbn [fst snd] in *. destruct (IH ps' HIt Wt St eq_refl) as (pairs & Po & E1 & E2).
    exists (((cbor_AppendString [] k, appendQuotedJSON k), (enc_cval x, j)) :: pairs). repeat split.
    + constructor; auto. cbn [fst snd]. split; [apply json_string; auto; apply small63; auto|apply HIx; auto].
    + cbn [map fst snd]. rewrite E1. reflexivity.
    + cbn [map fst snd]. rewrite E2. reflexivity.
Qed.

Theorem cval_decodes : forall v j, wf_cval v -> small_cval v -> json_cval v = Some j -> item_json (enc_cval v) j.
Proof.
  induction v as [p|l IHl|kvs IHl] using cval_ind'; intros j W Sm Hj.
  - apply prim_decodes; auto.
  - rewrite enc_arr_eq. cbn [json_cval] in Hj. destruct (all_some (map json_cval l)) as [js|] eqn:Ea; [|discriminate].
    inversion Hj; subst. clear Hj.
    assert (G : exists items, items_ok Orc items /\ map fst items = map enc_cval l /\ map snd items = js).
    { revert js Ea W Sm. induction l as [|x t IHt]; intros js Ea W Sm; cbn [map all_some] in Ea.
      - inversion Ea; subst. exists []. repeat split; constructor.
      - destruct (json_cval x) as [jx|] eqn:Ex; [|discriminate]. destruct (all_some (map json_cval t)) as [jt|] eqn:Et; [|discriminate].
        inversion Ea; subst. inversion IHl as [|? ? Px Pt]; subst. cbn in W, Sm. destruct W as [Wx Wt]. destruct Sm as [Sx St].
        destruct (IHt Pt jt eq_refl Wt St) as (items & Ho & E1 & E2).
        exists ((enc_cval x, jx) :: items). repeat split; cbn [map fst snd]; try congruence. constructor; auto; try (cbn [fst snd]; apply Px; auto). }
    destruct G as (items & Ho & E1 & E2). rewrite <- E1, <- E2. apply json_array_indef; auto.
  - rewrite enc_dict_eq. cbn [json_cval] in Hj.
    destruct (all_some _) as [ps|] eqn:Ea; [|discriminate]. inversion Hj; subst. clear Hj.
    assert (HW : Forall (fun kv => wf_str (fst kv) /\ wf_cval (snd kv)) kvs).
    { clear -W. induction kvs as [|[k x] t IH]; constructor; cbn in W; destruct W as (W1 & W2 & W3); auto. }
    assert (HS : Forall (fun kv => small_str (fst kv) /\ small_cval (snd kv)) kvs).
    { clear -Sm. induction kvs as [|[k x] t IH]; constructor; cbn in Sm; destruct Sm as (W1 & W2 & W3); auto. }
    destruct (fields_pairs_ok kvs ps IHl HW HS Ea) as (pairs & Po & E1 & E2).
    rewrite <- E1, <- E2. apply json_map_indef; auto.
Qed.

(* a whole event of the encoder model is one decodable item: the JSON object
   of its fields *)
Theorem event_decodes kvs j : wf_fields kvs -> small_fields kvs -> json_fields kvs = Some j ->
  decodes Orc (enc_event kvs) j.
Proof.
  intros W Sm Hj. apply item_json_decodes. rewrite enc_event_eq. unfold json_fields in Hj.
  destruct (all_some _) as [ps|] eqn:Ea; [|discriminate]. inversion Hj; subst. clear Hj.
  assert (HI : Forall (fun kv => forall j, wf_cval (snd kv) -> small_cval (snd kv) -> json_cval (snd kv) = Some j -> item_json (enc_cval (snd kv)) j) kvs).
  { apply Forall_forall. intros kv _ j0 Wv Sv Ej. apply cval_decodes; auto. }
  destruct (fields_pairs_ok kvs ps HI W Sm Ea) as (pairs & Po & E1 & E2).
  rewrite <- E1, <- E2. apply json_map_indef; auto.
Qed.

Theorem events_decode evs js : Forall wf_fields evs -> Forall small_fields evs ->
  Forall2 (fun kvs j => json_fields kvs = Some j) evs js ->
  Forall2 (decodes Orc) (map enc_event evs) js.
Proof.
  intros W S F. induction F as [|kvs j evs js Hj _ IH]; cbn [map]; [constructor|].
  inversion W; subst. inversion S; subst. constructor; auto. apply event_decodes; auto.
Qed.
End All.

(* ------------------------------------------------------------------ *)
(* the JSON encoder's side (internal/json), primitives only            *)
(* ------------------------------------------------------------------ *)
(* A small model of internal/json/string.go, written from that file (not from
   the decoder): AppendString scans for the first byte that is not in
   noEscapeTable and then continues with appendStringComplex. *)
Definition js_noEscape (b : N) : bool :=         (* noEscapeTable[b] *)
  (32 <=? b) && (b <=? 126) && negb (b =? 92) && negb (b =? 34).

Definition js_escape_byte (b : N) : list N :=    (* the switch of appendStringComplex *)
  if (b =? 34) || (b =? 92) then [92; b]
  else if b =? 8 then [92; 98] else if b =? 12 then [92; 102] else if b =? 10 then [92; 110]
  else if b =? 13 then [92; 114] else if b =? 9 then [92; 116]
  else [92; 117; 48; 48; hexdig (b / 16); hexdig (b mod 16)].

Fixpoint js_complex (fuel : nat) (s : list N) : list N :=
  match fuel with
  | O => []
  | S f =>
    match s with
    | [] => []
    | b :: t =>
      if 128 <=? b then
        match go_decode_size s with
        | Some n => firstn n s ++ js_complex f (skipn n s)
        | None => [92; 117; 102; 102; 102; 100] ++ js_complex f t
        end
      else if js_noEscape b then b :: js_complex f t
      else js_escape_byte b ++ js_complex f t
    end
  end.

Definition json_AppendString (dst s : list N) : list N := dst ++ 34 :: js_complex (length s) s ++ [34].
Definition json_AppendBytes := json_AppendString.
Definition json_AppendHex (dst s : list N) : list N := dst ++ 34 :: hexString s ++ [34].
Definition json_AppendBool (dst : list N) (b : bool) : list N := dst ++ (if b then lit_true else lit_false).
Definition json_AppendNil (dst : list N) : list N := dst ++ lit_null.
Definition json_AppendInt64 (dst : list N) (z : Z) : list N := dst ++ print_Z z.     (* strconv.AppendInt *)
Definition json_AppendUint64 (dst : list N) (n : N) : list N := dst ++ print_N n.    (* strconv.AppendUint *)

Lemma js_complex_eq f : forall s, js_complex f s = esc_json f s.
Proof.
  induction f as [|f IH]; intros s; cbn [js_complex esc_json]; [reflexivity|]. destruct s as [|b t]; [reflexivity|].
  rewrite !IH. destruct (go_decode_size (b :: t)); try rewrite IH; reflexivity.
Qed.

Lemma json_AppendString_eq s : json_AppendString [] s = appendQuotedJSON s.
Proof. unfold json_AppendString, appendQuotedJSON. rewrite js_complex_eq. reflexivity. Qed.

(* C08 at the level of one primitive: decoding the CBOR encoding gives exactly
   the text of the JSON encoder *)
Section C08Prims.
Variable Orc : oracle.

Theorem c08_string s : wf_str s -> len s < 2 ^ 63 -> item_json Orc (cbor_AppendString [] s) (json_AppendString [] s).
Proof. intros. rewrite json_AppendString_eq. apply json_string; auto. Qed.
Theorem c08_bytes s : wf_str s -> len s < 2 ^ 63 -> item_json Orc (cbor_AppendBytes [] s) (json_AppendBytes [] s).
Proof. intros. unfold json_AppendBytes. rewrite json_AppendString_eq. apply json_bytes; auto. Qed.
Theorem c08_hex s : wf_str s -> len s < 2 ^ 63 -> item_json Orc (cbor_AppendHex [] s) (json_AppendHex [] s).
Proof. intros. apply json_hex; auto. Qed.
Theorem c08_bool b : item_json Orc (cbor_AppendBool [] b) (json_AppendBool [] b).
Proof. apply json_bool. Qed.
Theorem c08_nil : item_json Orc (cbor_AppendNil []) (json_AppendNil []).
Proof. apply json_nil. Qed.
Theorem c08_int z : int64_ok z -> item_json Orc (cbor_AppendInt64 [] z) (json_AppendInt64 [] z).
Proof. apply json_int. Qed.
Theorem c08_uint n : n < 2 ^ 64 -> item_json Orc (cbor_AppendUint64 [] n) (json_AppendUint64 [] n).
Proof. apply json_uint. Qed.
(* RawJSON / the default Interface path: the embedded text verbatim *)
Theorem c08_rawjson s : wf_str s -> len s < 2 ^ 63 -> item_json Orc (cbor_AppendEmbeddedJSON [] s) s.
Proof. apply json_rawjson. Qed.
(* floats: NaN and the infinities are the same quoted words the JSON encoder
   writes; every other float decodes to strconv's shortest 'f' text of the
   very same bits (the JSON encoder prints the same float, switching to 'e'
   form below 1e-6 / from 1e21): value-equal, not always text-equal *)
Theorem c08_float32 b t : b < 2 ^ 32 -> f32_json Orc b = Some t -> item_json Orc (cbor_AppendFloat32 [] b) t.
Proof. apply json_f32. Qed.
Theorem c08_float64 b t : b < 2 ^ 64 -> f64_json Orc b = Some t -> item_json Orc (cbor_AppendFloat64 [] b) t.
Proof. apply json_f64. Qed.
(* addresses: the text of net.IP.String / HardwareAddr.String / IPNet.String of
   the very bytes that were logged, quoted (the JSON encoder passes the same
   text through AppendString) *)
Theorem c08_ip s : wf_str s -> (length s = 4 \/ length s = 16)%nat -> item_json Orc (cbor_AppendIPAddr [] s) (quote (ip_string s)).
Proof. apply json_ip. Qed.
Theorem c08_mac s : wf_str s -> length s = 6%nat -> item_json Orc (cbor_AppendMACAddr [] s) (quote (mac_string s)).
Proof. apply json_mac. Qed.
End C08Prims.
