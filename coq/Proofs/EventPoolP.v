From Coq Require Import String List Bool.
From Verif Require Import Heap.EventPool Gen.Structs.
Import ListNotations.
Local Open Scope string_scope.

Lemma new_event_stale_independent names resets assigned s1 s2 :
  covers names resets = true -> new_event names resets assigned s1 = new_event names resets assigned s2.
Proof.
  unfold covers, new_event. intros H. apply map_ext_in. intros x Hx.
  rewrite forallb_forall in H. rewrite (H x Hx). reflexivity.
Qed.

Lemma lookup_new_event names resets assigned stale x :
  In x names -> existsb (String.eqb x) resets = true -> lookup (new_event names resets assigned stale) x = assigned x.
Proof.
  unfold new_event. induction names as [|y names IH]; intros Hin Hr; [destruct Hin|].
  cbn [map lookup]. destruct (String.eqb x y) eqn:E.
  - apply String.eqb_eq in E. subst y. rewrite Hr. reflexivity.
  - destruct Hin as [->|Hin]; [rewrite String.eqb_refl in E; discriminate|]. apply IH; auto.
Qed.

(* the CURRENT newEvent reassigns every field of the CURRENT Event struct *)
Lemma newEvent_covers_all_fields : covers event_fields newEvent_resets = true.
Proof. vm_compute. reflexivity. Qed.

(* hence a fresh event's Go context (and done callback, hooks, ...) never comes from an earlier event *)
Lemma getctx_never_stale assigned s : assigned "ctx" = 0 -> get_ctx (new_event event_fields newEvent_resets assigned s) = 0.
Proof.
  intros H. unfold get_ctx. rewrite lookup_new_event; [exact H| |].
  - vm_compute. tauto.
  - vm_compute. reflexivity.
Qed.

(* Output copies every Logger field but the writer (some under a nil/empty guard that only skips an empty source) *)
Definition output_all : list string := output_copies ++ map (fun s => match index 0 " " s with Some i => substring 0 i s | None => s end) output_guarded.
Lemma output_copies_all_but_writer :
  forallb (fun f => String.eqb f "w" || existsb (String.eqb f) output_all) logger_fields = true.
Proof. vm_compute. reflexivity. Qed.

(* Logger.newEvent hands the logger's hooks and Go context to the event *)
Lemma logger_newEvent_sets_ctx : existsb (String.eqb "ctx") logger_newEvent_sets = true /\ existsb (String.eqb "ch") logger_newEvent_sets = true.
Proof. vm_compute. auto. Qed.
