(* The hand-written model of internal/json (Enc/JsonEnc.v) is equal to the
   translation of the current Go source (Gen/JsonSrc.v, regenerated from the
   working tree by harness/cmd/srcgen on every run): for every input within
   the stated guards, the translated function returns [Ok] of what the model
   computes.  Everything proved about the model (JSON well-formedness, value
   round trip, ...) therefore holds of the translated source. *)
From Verif Require Import Base.Prelude Base.FloatBits Base.Decimal Base.GoSem Enc.JsonEnc Enc.GoStd Base.Utf8 Gen.JsonSrc.
From Verif Require Proofs.JsonEncP.
Open Scope Z_scope.

Definition bytes_ok (s : list N) : Prop := Forall (fun b => (b < 256)%N) s.
(* lengths the index arithmetic cannot overflow on (any real slice satisfies it) *)
Definition len_ok {A} (s : list A) : Prop := len s < 2 ^ 62.

(* ---------- the tables ---------- *)
Lemma noEscapeTable_len : len noEscapeTable = 256.
Proof. vm_compute. reflexivity. Qed.

Lemma noEscapeTable_spec b : (b < 256)%N -> idx false noEscapeTable (Z.of_N b) = no_escape b.
Proof.
  intros H.
  assert (E : forallb (fun n => Bool.eqb (idx false noEscapeTable (Z.of_nat n)) (no_escape (N.of_nat n))) (seq 0 256) = true) by (vm_compute; reflexivity).
  rewrite forallb_forall in E. specialize (E (N.to_nat b)).
  rewrite Bool.eqb_true_iff in E. rewrite N2Nat.id in E. rewrite <- E.
  - f_equal. lia.
  - apply in_seq. lia.
Qed.

Definition hex_str : list N := [48;49;50;51;52;53;54;55;56;57;97;98;99;100;101;102]%N.
Lemma hex_idx k : (k < 16)%N -> idx 0%N hex_str (Z.of_N k) = hex_digit k.
Proof.
  intros H.
  assert (E : forallb (fun n => N.eqb (idx 0%N hex_str (Z.of_nat n)) (hex_digit (N.of_nat n))) (seq 0 16) = true) by (vm_compute; reflexivity).
  rewrite forallb_forall in E. specialize (E (N.to_nat k)). rewrite N.eqb_eq, N2Nat.id in E. rewrite <- E.
  - f_equal. lia.
  - apply in_seq. lia.
Qed.
Lemma shr4 b : N.shiftr b 4 = (b / 16)%N.
Proof. rewrite N.shiftr_div_pow2. reflexivity. Qed.
Lemma land15 b : N.land b 15 = (b mod 16)%N.
Proof. change 15%N with (N.ones 4). rewrite N.land_ones. reflexivity. Qed.

(* ---------- the escaper, fuel-normalised ---------- *)
Definition escF (s : list N) : list N := esc_body (length s) s.

Lemma esc_body_enough : forall f s, (length s <= f)%nat -> esc_body f s = escF s.
Proof.
  intros f. induction f as [f IH] using lt_wf_ind. intros s Hl. unfold escF.
  destruct s as [|b t]; [destruct f; reflexivity|].
  destruct f as [|f]; [cbn in Hl; lia|]. cbn [length] in *. cbn [esc_body].
  destruct (0x80 <=? b)%N.
  - destruct (go_decode_rune (b :: t)) as [[c n]|] eqn:D.
    + destruct (go_decode_rune_sound _ _ _ D) as (_ & Hn & Hp). cbn [length] in Hn.
      f_equal. rewrite !IH; try lia; auto; rewrite skipn_length; cbn [length]; lia.
    + f_equal. rewrite !IH; auto; lia.
  - destruct (no_escape b); f_equal; rewrite !IH; auto; lia.
Qed.

Lemma escF_nil : escF [] = [].
Proof. reflexivity. Qed.
Lemma escF_cons b t : escF (b :: t) =
  if (0x80 <=? b)%N then
    match go_decode_rune (b :: t) with
    | Some (_, n) => firstn n (b :: t) ++ escF (skipn n (b :: t))
    | None => ufffd ++ escF t
    end
  else if no_escape b then b :: escF t else esc_byte b ++ escF t.
Proof.
  unfold escF at 1. cbn [length esc_body].
  destruct (0x80 <=? b)%N.
  - destruct (go_decode_rune (b :: t)) as [[c n]|] eqn:D.
    + destruct (go_decode_rune_sound _ _ _ D) as (_ & Hn & Hp). cbn [length] in Hn.
      f_equal. apply esc_body_enough. rewrite skipn_length. cbn [length]. lia.
    + f_equal.
  - destruct (no_escape b); f_equal.
Qed.

Lemma decode_multibyte b t c n : (0x80 <= b)%N -> go_decode_rune (b :: t) = Some (c, n) -> (2 <= n <= length (b :: t))%nat.
Proof.
  intros Hb D. destruct (go_decode_rune_sound _ _ _ D) as (_ & Hn & _). split; [|exact Hn].
  unfold go_decode_rune in D. replace (b <? 0x80)%N with false in D by lia.
  repeat match type of D with
  | (if ?c then _ else _) = _ => destruct c
  | match ?l with [] => _ | _ :: _ => _ end = _ => destruct l
  | Some _ = Some _ => inversion D; subst; lia
  | None = Some _ => discriminate
  end.
Qed.

(* ---------- appendStringComplex: the loop invariant ---------- *)
Lemma bytes_ok_idx s i : bytes_ok s -> 0 <= i < len s -> (idx 0%N s i < 256)%N.
Proof.
  intros H Hi. unfold idx. unfold bytes_ok in H. rewrite Forall_forall in H. apply H. apply nth_In. unfold len in Hi. lia.
Qed.

Lemma skipn_len {A} (l : list A) i : 0 <= i <= len l -> len (skipn (Z.to_nat i) l) = len l - i.
Proof. intros H. unfold len in *. rewrite skipn_length. lia. Qed.

Lemma complex_loop : forall fuel s dst i start,
  bytes_ok s -> len_ok s ->
  0 <= start <= i -> i <= len s -> (Z.to_nat (len s - i) < fuel)%nat ->
  exists dst' start', appendStringComplex_loop1 fuel s dst i start = Ok (LExit (dst', len s, start'))
     /\ 0 <= start' <= len s
     /\ dst' ++ slice s start' (len s) = dst ++ slice s start i ++ escF (skipn (Z.to_nat i) s).
Proof.
  induction fuel as [|fuel IH]; intros s dst i start Hs Hl Hst Hi Hf; [lia|].
  unfold len_ok in Hl. cbn [appendStringComplex_loop1].
  destruct (i <? len s) eqn:Ei.
  2:{ assert (i = len s) by lia. subst i. exists dst, start. split; [reflexivity|]. split; [lia|].
      unfold len. rewrite Nat2Z.id, skipn_all. rewrite escF_nil, app_nil_r. reflexivity. }
  rewrite inb_true by lia. rewrite guard_true.
  pose proof (bytes_ok_idx s i Hs ltac:(lia)) as Hb.
  pose proof (skipn_idx 0%N s i ltac:(lia)) as Hsk.
  set (b := idx 0%N s i) in *.
  destruct (128 <=? b)%N eqn:E80.
  - rewrite slice_ok_true by lia. rewrite guard_true. rewrite slice_from by lia. rewrite Hsk.
    unfold utf8_DecodeRune.
    destruct (go_decode_rune (b :: skipn (Z.to_nat (i + 1)) s)) as [[c n]|] eqn:D.
    + assert (Hb80 : (0x80 <= b)%N) by lia. pose proof (decode_multibyte b _ c n Hb80 D) as Hn.
      rewrite <- Hsk in Hn. pose proof (skipn_len s i ltac:(lia)) as Hlen. unfold len in Hlen at 1.
      replace ((Z.of_N c =? 65533) && (Z.of_nat n =? 1)) with false by lia.
      cbv zeta. rewrite wraps64_id by lia.
      destruct (IH s dst (i + Z.of_nat n) start Hs Hl ltac:(lia) ltac:(lia) ltac:(lia)) as (d' & s' & E & Hr & Heq).
      exists d', s'. split; [exact E|]. split; [exact Hr|]. rewrite Heq.
      rewrite escF_cons, E80, D, <- Hsk.
      rewrite (slice_split s start i (i + Z.of_nat n)) by lia. rewrite slice_firstn by lia.
      rewrite <- !app_assoc. do 3 f_equal. rewrite skipn_plus. do 2 f_equal. lia.
    + cbv zeta. change ((65533 =? 65533) && (1 =? 1)) with true. cbv iota.
      rewrite !wraps64_id by lia.
      destruct (start <? i) eqn:Esi.
      * rewrite slice_ok_true by lia. rewrite guard_true.
        destruct (IH s ((dst ++ slice s start i) ++ ufffd) (i + 1) (i + 1) Hs Hl ltac:(lia) ltac:(lia) ltac:(lia)) as (d' & s' & E & Hr & Heq).
        exists d', s'. split; [exact E|]. split; [exact Hr|]. rewrite Heq.
        rewrite escF_cons, E80, D, slice_empty. cbn [app]. rewrite <- !app_assoc. reflexivity.
      * assert (start = i) by lia. subst start.
        destruct (IH s (dst ++ ufffd) (i + 1) (i + 1) Hs Hl ltac:(lia) ltac:(lia) ltac:(lia)) as (d' & s' & E & Hr & Heq).
        exists d', s'. split; [exact E|]. split; [exact Hr|]. rewrite Heq.
        rewrite escF_cons, E80, D, !slice_empty. cbn [app]. rewrite <- !app_assoc. reflexivity.
  - assert (Hb128 : (b < 128)%N) by lia.
    rewrite inb_true by (rewrite noEscapeTable_len; lia). rewrite guard_true.
    rewrite noEscapeTable_spec by lia.
    destruct (no_escape b) eqn:En.
    + cbv zeta. rewrite wraps64_id by lia.
      destruct (IH s dst (i + 1) start Hs Hl ltac:(lia) ltac:(lia) ltac:(lia)) as (d' & s' & E & Hr & Heq).
      exists d', s'. split; [exact E|]. split; [exact Hr|]. rewrite Heq.
      rewrite Hsk. rewrite escF_cons, E80, En. rewrite (slice_snoc 0%N) by lia. fold b.
      rewrite <- !app_assoc. reflexivity.
    + cbv zeta. rewrite !wraps64_id by lia.
      change [48%N; 49%N; 50%N; 51%N; 52%N; 53%N; 54%N; 55%N; 56%N; 57%N; 97%N; 98%N; 99%N; 100%N; 101%N; 102%N] with hex_str.
      rewrite !shr4, !land15.
      assert (H16a : (b / 16 < 16)%N) by (apply N.div_lt_upper_bound; lia).
      assert (H16b : (b mod 16 < 16)%N) by (apply N.mod_lt; lia).
      rewrite !(inb_true hex_str) by (change (len hex_str) with 16; lia). rewrite !guard_true.
      rewrite !hex_idx by assumption.
      assert (Hgoal : forall X, X = dst ++ slice s start i -> forall tail, tail = esc_byte b ->
                exists dst' start', appendStringComplex_loop1 fuel s (X ++ tail) (i + 1) (i + 1) = Ok (LExit (dst', len s, start')) /\
                  0 <= start' <= len s /\ dst' ++ slice s start' (len s) = dst ++ slice s start i ++ escF (skipn (Z.to_nat i) s)).
      { intros X HX tail Ht.
        destruct (IH s (X ++ tail) (i + 1) (i + 1) Hs Hl ltac:(lia) ltac:(lia) ltac:(lia)) as (d' & s' & E & Hr & Heq).
        exists d', s'. split; [exact E|]. split; [exact Hr|]. rewrite Heq.
        rewrite Hsk, escF_cons, E80, En, slice_empty, Ht. subst X. rewrite <- !app_assoc. reflexivity. }
      unfold esc_byte in Hgoal.
      destruct (start <? i) eqn:Esi.
      * rewrite slice_ok_true by lia. rewrite guard_true.
        destruct ((b =? 34)%N || (b =? 92)%N) eqn:C1; [apply Hgoal; reflexivity|].
        destruct (b =? 8)%N eqn:C2; [apply Hgoal; reflexivity|].
        destruct (b =? 12)%N eqn:C3; [apply Hgoal; reflexivity|].
        destruct (b =? 10)%N eqn:C4; [apply Hgoal; reflexivity|].
        destruct (b =? 13)%N eqn:C5; [apply Hgoal; reflexivity|].
        destruct (b =? 9)%N eqn:C6; [apply Hgoal; reflexivity|].
        apply Hgoal; reflexivity.
      * assert (start = i) by lia. subst start. rewrite !slice_empty in Hgoal |- *.
        destruct ((b =? 34)%N || (b =? 92)%N) eqn:C1; [apply Hgoal; [now rewrite app_nil_r|reflexivity]|].
        destruct (b =? 8)%N eqn:C2; [apply Hgoal; [now rewrite app_nil_r|reflexivity]|].
        destruct (b =? 12)%N eqn:C3; [apply Hgoal; [now rewrite app_nil_r|reflexivity]|].
        destruct (b =? 10)%N eqn:C4; [apply Hgoal; [now rewrite app_nil_r|reflexivity]|].
        destruct (b =? 13)%N eqn:C5; [apply Hgoal; [now rewrite app_nil_r|reflexivity]|].
        destruct (b =? 9)%N eqn:C6; [apply Hgoal; [now rewrite app_nil_r|reflexivity]|].
        apply Hgoal; [now rewrite app_nil_r|reflexivity].
Qed.


Lemma appendStringComplex_ok dst s i : bytes_ok s -> len_ok s -> 0 <= i <= len s ->
  appendStringComplex dst s i = Ok (dst ++ slice s 0 i ++ escF (skipn (Z.to_nat i) s)).
Proof.
  intros Hs Hl Hi. unfold appendStringComplex. cbv zeta.
  destruct (complex_loop (S (Z.to_nat (len s - i + 1))) s dst i 0 Hs Hl ltac:(lia) ltac:(lia) ltac:(lia)) as (d' & s' & E & Hr & Heq).
  rewrite E. cbn [lbind]. destruct (s' <? len s) eqn:Es.
  - rewrite slice_ok_true by lia. rewrite guard_true. rewrite Heq. reflexivity.
  - assert (s' = len s) by lia. subst s'. rewrite slice_empty, app_nil_r in Heq. rewrite Heq. reflexivity.
Qed.

Lemma no_escape_lt b : no_escape b = true -> (b < 128)%N.
Proof. unfold no_escape. lia. Qed.

Lemma scan_loop : forall fuel s dst i,
  bytes_ok s -> len_ok s -> 0 <= i <= len s ->
  escF s = slice s 0 i ++ escF (skipn (Z.to_nat i) s) ->
  (Z.to_nat (len s - i) < fuel)%nat ->
  lbind (AppendString_loop1 fuel s dst i) (fun '(dst, _) => Ok ((dst ++ s) ++ [34%N])) = Ok (dst ++ escF s ++ [34%N]).
Proof.
  induction fuel as [|fuel IH]; intros s dst i Hs Hl Hi HP Hf; [lia|].
  pose proof Hl as Hl'. unfold len_ok in Hl'. cbn [AppendString_loop1].
  destruct (i <? len s) eqn:Ei.
  2:{ assert (i = len s) by lia. subst i. cbn [lbind]. rewrite HP. rewrite slice_full.
      unfold len. rewrite Nat2Z.id, skipn_all, escF_nil, app_nil_r, <- app_assoc. reflexivity. }
  rewrite inb_true by lia. rewrite guard_true.
  pose proof (bytes_ok_idx s i Hs ltac:(lia)) as Hb.
  pose proof (skipn_idx 0%N s i ltac:(lia)) as Hsk.
  set (b := idx 0%N s i) in *.
  rewrite inb_true by (rewrite noEscapeTable_len; lia). rewrite guard_true.
  rewrite noEscapeTable_spec by lia.
  destruct (no_escape b) eqn:En; cbn [negb].
  - cbv zeta. rewrite wraps64_id by lia. apply IH; auto; try lia.
    rewrite HP, Hsk, escF_cons. pose proof (no_escape_lt b En).
    replace (0x80 <=? b)%N with false by lia. rewrite En.
    rewrite (slice_snoc 0%N) by lia. fold b. rewrite <- app_assoc. reflexivity.
  - rewrite appendStringComplex_ok by (auto; lia). cbn [bind lbind]. rewrite HP, <- !app_assoc. reflexivity.
Qed.

Theorem AppendString_src dst s : bytes_ok s -> len_ok s ->
  JsonSrc.AppendString dst s = Ok (JsonEnc.AppendString dst s).
Proof.
  intros Hs Hl. unfold JsonSrc.AppendString. cbv zeta.
  pose proof (scan_loop (S (Z.to_nat (len s - 0 + 1))) s (dst ++ [34%N]) 0 Hs Hl ltac:(pose proof (len_nonneg s); lia)) as H.
  rewrite slice_empty in H. specialize (H eq_refl ltac:(lia)).
  match goal with |- lbind ?L ?f = _ => match type of H with lbind L ?g = _ => replace f with g; [rewrite H|] end end.
  - unfold JsonEnc.AppendString, json_string. fold (escF s). rewrite <- !app_assoc. reflexivity.
  - reflexivity.
Qed.

(* the []byte variants are copies of the string ones in the source: their translations are the same terms *)
Lemma bytes_loop_same : appendBytesComplex_loop1 = appendStringComplex_loop1.
Proof. reflexivity. Qed.
Lemma bytes_complex_same : appendBytesComplex = appendStringComplex.
Proof. reflexivity. Qed.
Lemma bytes_scan_same : AppendBytes_loop1 = AppendString_loop1.
Proof. reflexivity. Qed.
Theorem AppendBytes_src dst s : bytes_ok s -> len_ok s ->
  JsonSrc.AppendBytes dst s = Ok (JsonEnc.AppendBytes dst s).
Proof. intros. change JsonSrc.AppendBytes with JsonSrc.AppendString. apply AppendString_src; auto. Qed.

(* ---------- AppendKey, AppendHex, AppendObjectData, the one-liners ---------- *)
Lemma last_nth {A} (d : A) l : l <> [] -> last l d = nth (length l - 1) l d.
Proof.
  induction l as [|x l IH]; intros H; [congruence|]. destruct l as [|y l]; [reflexivity|].
  change (last (x :: y :: l) d) with (last (y :: l) d). rewrite IH by discriminate.
  cbn [length]. replace (S (S (length l)) - 1)%nat with (S (S (length l) - 1))%nat by lia. reflexivity.
Qed.

Theorem AppendKey_src dst key : dst <> [] -> len_ok dst -> bytes_ok key -> len_ok key ->
  JsonSrc.AppendKey dst key = Ok (JsonEnc.AppendKey dst key).
Proof.
  intros Hd Hl Hk Hlk. unfold JsonSrc.AppendKey, JsonEnc.AppendKey. cbv zeta. unfold len_ok in Hl.
  assert (Hpos : 0 < len dst) by (unfold len; destruct dst; [congruence|cbn [length]; lia]).
  rewrite !wraps64_id by lia. rewrite inb_true by lia. rewrite guard_true.
  assert (E : idx 0%N dst (len dst - 1) = last_byte dst).
  { unfold last_byte, idx, len. rewrite last_nth by auto. f_equal. lia. }
  rewrite E. destruct (last_byte dst =? 123)%N; cbn [negb].
  - rewrite AppendString_src by auto. reflexivity.
  - rewrite AppendString_src by auto. reflexivity.
Qed.

Lemma AppendHex_loop_ok : forall s dst, bytes_ok s ->
  AppendHex_loop1 s dst = Ok (LExit (dst ++ flat_map (fun v => [hex_digit (v / 16); hex_digit (v mod 16)]%N) s)).
Proof.
  induction s as [|v s IH]; intros dst Hs; cbn [AppendHex_loop1 flat_map].
  - rewrite app_nil_r. reflexivity.
  - inversion Hs as [|? ? Hv Hs']; subst.
    change [48%N; 49%N; 50%N; 51%N; 52%N; 53%N; 54%N; 55%N; 56%N; 57%N; 97%N; 98%N; 99%N; 100%N; 101%N; 102%N] with hex_str.
    rewrite !shr4, !land15.
    assert (H16a : (v / 16 < 16)%N) by (apply N.div_lt_upper_bound; lia).
    assert (H16b : (v mod 16 < 16)%N) by (apply N.mod_lt; lia).
    rewrite !(inb_true hex_str) by (change (len hex_str) with 16; lia). rewrite !guard_true.
    rewrite !hex_idx by assumption. cbv zeta. rewrite IH by auto. rewrite <- app_assoc. reflexivity.
Qed.

Theorem AppendHex_src dst s : bytes_ok s -> JsonSrc.AppendHex dst s = Ok (JsonEnc.AppendHex dst s).
Proof.
  intros Hs. unfold JsonSrc.AppendHex, JsonEnc.AppendHex. cbv zeta. rewrite AppendHex_loop_ok by auto.
  cbn [lbind]. rewrite <- !app_assoc. reflexivity.
Qed.

Theorem AppendObjectData_src dst o : o <> [] -> len_ok o ->
  JsonSrc.AppendObjectData dst o = Ok (JsonEnc.AppendObjectData dst o).
Proof.
  intros Ho Hl. destruct o as [|x o]; [congruence|]. unfold JsonSrc.AppendObjectData, JsonEnc.AppendObjectData. cbv zeta.
  rewrite inb_true by (rewrite len_cons; pose proof (len_nonneg o); lia). rewrite guard_true.
  change (idx 0%N (x :: o) 0) with x.
  assert (Esl : slice (x :: o) 1 (len (x :: o)) = o).
  { rewrite slice_from by (rewrite len_cons; pose proof (len_nonneg o); lia). reflexivity. }
  assert (El : (1 <? len dst) = (1 <? N.of_nat (length dst))%N) by (unfold len; lia).
  rewrite El. destruct (x =? 123)%N eqn:Ex.
  - apply N.eqb_eq in Ex. subst x.
    destruct (1 <? N.of_nat (length dst))%N; rewrite slice_ok_true by (rewrite len_cons; pose proof (len_nonneg o); lia);
      rewrite guard_true, Esl; reflexivity.
  - assert (Hx : x <> 123%N) by (apply N.eqb_neq; auto).
    destruct x as [|p]; [destruct (1 <? N.of_nat (length dst))%N; reflexivity|].
    destruct (1 <? N.of_nat (length dst))%N.
    + repeat (destruct p as [p|p|]; try reflexivity); congruence.
    + repeat (destruct p as [p|p|]; try reflexivity); congruence.
Qed.

Theorem AppendNil_src dst : JsonSrc.AppendNil dst = Ok (JsonEnc.AppendNil dst).  Proof. reflexivity. Qed.
Theorem AppendBeginMarker_src dst : JsonSrc.AppendBeginMarker dst = Ok (JsonEnc.AppendBeginMarker dst).  Proof. reflexivity. Qed.
Theorem AppendEndMarker_src dst : JsonSrc.AppendEndMarker dst = Ok (JsonEnc.AppendEndMarker dst).  Proof. reflexivity. Qed.
Theorem AppendLineBreak_src dst : JsonSrc.AppendLineBreak dst = Ok (JsonEnc.AppendLineBreak dst).  Proof. reflexivity. Qed.
Theorem AppendArrayStart_src dst : JsonSrc.AppendArrayStart dst = Ok (JsonEnc.AppendArrayStart dst).  Proof. reflexivity. Qed.
Theorem AppendArrayEnd_src dst : JsonSrc.AppendArrayEnd dst = Ok (JsonEnc.AppendArrayEnd dst).  Proof. reflexivity. Qed.
Theorem AppendArrayDelim_src dst : JsonSrc.AppendArrayDelim dst = Ok (JsonEnc.AppendArrayDelim dst).
Proof. unfold JsonSrc.AppendArrayDelim, JsonEnc.AppendArrayDelim. destruct dst; reflexivity. Qed.
Theorem AppendBool_src dst b : JsonSrc.AppendBool dst b = Ok (JsonEnc.AppendBool dst b).  Proof. destruct b; reflexivity. Qed.
Theorem AppendInt_src dst z : JsonSrc.AppendInt dst z = Ok (JsonEnc.AppendInt dst z).  Proof. reflexivity. Qed.
Theorem AppendInt8_src dst z : JsonSrc.AppendInt8 dst z = Ok (JsonEnc.AppendInt dst z).  Proof. reflexivity. Qed.
Theorem AppendInt16_src dst z : JsonSrc.AppendInt16 dst z = Ok (JsonEnc.AppendInt dst z).  Proof. reflexivity. Qed.
Theorem AppendInt32_src dst z : JsonSrc.AppendInt32 dst z = Ok (JsonEnc.AppendInt dst z).  Proof. reflexivity. Qed.
Theorem AppendInt64_src dst z : JsonSrc.AppendInt64 dst z = Ok (JsonEnc.AppendInt dst z).  Proof. reflexivity. Qed.
Theorem AppendUint_src dst n : JsonSrc.AppendUint dst n = Ok (JsonEnc.AppendUint dst n).  Proof. reflexivity. Qed.
Theorem AppendUint8_src dst n : JsonSrc.AppendUint8 dst n = Ok (JsonEnc.AppendUint dst n).  Proof. reflexivity. Qed.
Theorem AppendUint16_src dst n : JsonSrc.AppendUint16 dst n = Ok (JsonEnc.AppendUint dst n).  Proof. reflexivity. Qed.
Theorem AppendUint32_src dst n : JsonSrc.AppendUint32 dst n = Ok (JsonEnc.AppendUint dst n).  Proof. reflexivity. Qed.
Theorem AppendUint64_src dst n : JsonSrc.AppendUint64 dst n = Ok (JsonEnc.AppendUint dst n).  Proof. reflexivity. Qed.

(* ---------- the slice appenders: one shape, one tactic ---------- *)
Lemma slice_tail {A} (x : A) (l : list A) : slice (x :: l) 1 (len (x :: l)) = l.
Proof. rewrite slice_from by (rewrite len_cons; pose proof (len_nonneg l); lia). reflexivity. Qed.

Lemma slice_fn_shape {A} (d : A) (loop : list A -> list N -> res (lres (list N) (list N))) (f : list N -> A -> list N) dst vals :
  (forall l dst, loop l dst = Ok (LExit (fold_left (fun d v => f (d ++ [44%N]) v) l dst))) ->
  (if (len vals =? 0)%Z then Ok (dst ++ [91%N; 93%N])
   else let dst := dst ++ [91%N] in
        guard (inb 0 vals) (
        let dst := f dst (idx d vals 0) in
        let k1 := fun dst : list N => let dst := dst ++ [93%N] in Ok dst in
        if (1 <? len vals)%Z then guard (slice_ok vals 1 (len vals)) (let rng1 := slice vals 1 (len vals) in lbind (loop rng1 dst) (fun dst => k1 dst))
        else k1 dst)) = Ok (append_slice f dst vals).
Proof.
  intros Hloop. destruct vals as [|v0 rest]; [reflexivity|].
  pose proof (len_nonneg rest) as Hr. rewrite len_cons.
  replace (1 + len rest =? 0) with false by lia. cbv zeta.
  rewrite inb_true by (rewrite len_cons; lia). rewrite guard_true. change (idx d (v0 :: rest) 0) with v0.
  unfold append_slice. destruct (1 <? 1 + len rest) eqn:E1.
  - rewrite slice_ok_true by (rewrite ?len_cons; lia). rewrite guard_true.
    rewrite <- (len_cons v0 rest). rewrite slice_tail. cbv zeta. rewrite Hloop. reflexivity.
  - assert (rest = []) by (destruct rest; [auto|rewrite len_cons in E1; pose proof (len_nonneg rest); lia]). subst rest. reflexivity.
Qed.

Ltac loop_by_induction := let l := fresh "l" in let IH := fresh "IH" in
  intros l; induction l as [|? l IH]; intros ?; [reflexivity|]; cbn; apply IH.

Lemma AppendBools_loop_ok : forall l dst, AppendBools_loop1 l dst = Ok (LExit (fold_left (fun d v => JsonEnc.AppendBool (d ++ [44%N]) v) l dst)).
Proof. intros l; induction l as [|v l IH]; intros dst; [reflexivity|]. cbn [AppendBools_loop1 fold_left]. rewrite IH. destruct v; reflexivity. Qed.
Theorem AppendBools_src dst vals : JsonSrc.AppendBools dst vals = Ok (JsonEnc.AppendBools dst vals).
Proof.
  unfold JsonSrc.AppendBools, JsonEnc.AppendBools. rewrite <- (slice_fn_shape false AppendBools_loop1 JsonEnc.AppendBool dst vals AppendBools_loop_ok).
  destruct vals as [|[|] ?]; reflexivity.
Qed.

Ltac ints_loop loopfn := intros l; induction l as [|v l IH]; intros dst; [reflexivity|]; cbn [loopfn fold_left]; rewrite IH; reflexivity.
Lemma AppendInts_loop_ok : forall l dst, AppendInts_loop1 l dst = Ok (LExit (fold_left (fun d v => JsonEnc.AppendInt (d ++ [44%N]) v) l dst)).
Proof. ints_loop AppendInts_loop1. Qed.
Lemma AppendInts8_loop_ok : forall l dst, AppendInts8_loop1 l dst = Ok (LExit (fold_left (fun d v => JsonEnc.AppendInt (d ++ [44%N]) v) l dst)).
Proof. ints_loop AppendInts8_loop1. Qed.
Lemma AppendInts16_loop_ok : forall l dst, AppendInts16_loop1 l dst = Ok (LExit (fold_left (fun d v => JsonEnc.AppendInt (d ++ [44%N]) v) l dst)).
Proof. ints_loop AppendInts16_loop1. Qed.
Lemma AppendInts32_loop_ok : forall l dst, AppendInts32_loop1 l dst = Ok (LExit (fold_left (fun d v => JsonEnc.AppendInt (d ++ [44%N]) v) l dst)).
Proof. ints_loop AppendInts32_loop1. Qed.
Lemma AppendInts64_loop_ok : forall l dst, AppendInts64_loop1 l dst = Ok (LExit (fold_left (fun d v => JsonEnc.AppendInt (d ++ [44%N]) v) l dst)).
Proof. ints_loop AppendInts64_loop1. Qed.
Lemma AppendUints_loop_ok : forall l dst, AppendUints_loop1 l dst = Ok (LExit (fold_left (fun d v => JsonEnc.AppendUint (d ++ [44%N]) v) l dst)).
Proof. ints_loop AppendUints_loop1. Qed.
Lemma AppendUints8_loop_ok : forall l dst, AppendUints8_loop1 l dst = Ok (LExit (fold_left (fun d v => JsonEnc.AppendUint (d ++ [44%N]) v) l dst)).
Proof. ints_loop AppendUints8_loop1. Qed.
Lemma AppendUints16_loop_ok : forall l dst, AppendUints16_loop1 l dst = Ok (LExit (fold_left (fun d v => JsonEnc.AppendUint (d ++ [44%N]) v) l dst)).
Proof. ints_loop AppendUints16_loop1. Qed.
Lemma AppendUints32_loop_ok : forall l dst, AppendUints32_loop1 l dst = Ok (LExit (fold_left (fun d v => JsonEnc.AppendUint (d ++ [44%N]) v) l dst)).
Proof. ints_loop AppendUints32_loop1. Qed.
Lemma AppendUints64_loop_ok : forall l dst, AppendUints64_loop1 l dst = Ok (LExit (fold_left (fun d v => JsonEnc.AppendUint (d ++ [44%N]) v) l dst)).
Proof. ints_loop AppendUints64_loop1. Qed.

Theorem AppendInts_src dst vals : JsonSrc.AppendInts dst vals = Ok (JsonEnc.AppendInts dst vals).
Proof. exact (slice_fn_shape 0 AppendInts_loop1 JsonEnc.AppendInt dst vals AppendInts_loop_ok). Qed.
Theorem AppendInts8_src dst vals : JsonSrc.AppendInts8 dst vals = Ok (JsonEnc.AppendInts dst vals).
Proof. exact (slice_fn_shape 0 AppendInts8_loop1 JsonEnc.AppendInt dst vals AppendInts8_loop_ok). Qed.
Theorem AppendInts16_src dst vals : JsonSrc.AppendInts16 dst vals = Ok (JsonEnc.AppendInts dst vals).
Proof. exact (slice_fn_shape 0 AppendInts16_loop1 JsonEnc.AppendInt dst vals AppendInts16_loop_ok). Qed.
Theorem AppendInts32_src dst vals : JsonSrc.AppendInts32 dst vals = Ok (JsonEnc.AppendInts dst vals).
Proof. exact (slice_fn_shape 0 AppendInts32_loop1 JsonEnc.AppendInt dst vals AppendInts32_loop_ok). Qed.
Theorem AppendInts64_src dst vals : JsonSrc.AppendInts64 dst vals = Ok (JsonEnc.AppendInts dst vals).
Proof. exact (slice_fn_shape 0 AppendInts64_loop1 JsonEnc.AppendInt dst vals AppendInts64_loop_ok). Qed.
Theorem AppendUints_src dst vals : JsonSrc.AppendUints dst vals = Ok (JsonEnc.AppendUints dst vals).
Proof. exact (slice_fn_shape 0%N AppendUints_loop1 JsonEnc.AppendUint dst vals AppendUints_loop_ok). Qed.
Theorem AppendUints8_src dst vals : JsonSrc.AppendUints8 dst vals = Ok (JsonEnc.AppendUints dst vals).
Proof. exact (slice_fn_shape 0%N AppendUints8_loop1 JsonEnc.AppendUint dst vals AppendUints8_loop_ok). Qed.
Theorem AppendUints16_src dst vals : JsonSrc.AppendUints16 dst vals = Ok (JsonEnc.AppendUints dst vals).
Proof. exact (slice_fn_shape 0%N AppendUints16_loop1 JsonEnc.AppendUint dst vals AppendUints16_loop_ok). Qed.
Theorem AppendUints32_src dst vals : JsonSrc.AppendUints32 dst vals = Ok (JsonEnc.AppendUints dst vals).
Proof. exact (slice_fn_shape 0%N AppendUints32_loop1 JsonEnc.AppendUint dst vals AppendUints32_loop_ok). Qed.
Theorem AppendUints64_src dst vals : JsonSrc.AppendUints64 dst vals = Ok (JsonEnc.AppendUints dst vals).
Proof. exact (slice_fn_shape 0%N AppendUints64_loop1 JsonEnc.AppendUint dst vals AppendUints64_loop_ok). Qed.

Lemma AppendStrings_loop_ok : forall l dst, Forall (fun s => bytes_ok s /\ len_ok s) l ->
  AppendStrings_loop1 l dst = Ok (LExit (fold_left (fun d v => JsonEnc.AppendString (d ++ [44%N]) v) l dst)).
Proof.
  intros l; induction l as [|v l IH]; intros dst H; [reflexivity|]. inversion H as [|? ? [Hb Hl] H']; subst.
  cbn [AppendStrings_loop1 fold_left]. rewrite AppendString_src by auto. cbn [bind]. cbv zeta. apply IH; auto.
Qed.

Theorem AppendStrings_src dst vals : Forall (fun s => bytes_ok s /\ len_ok s) vals ->
  JsonSrc.AppendStrings dst vals = Ok (JsonEnc.AppendStrings dst vals).
Proof.
  intros H. unfold JsonSrc.AppendStrings, JsonEnc.AppendStrings. destruct vals as [|v0 rest]; [reflexivity|].
  inversion H as [|? ? [Hb Hl] H']; subst.
  pose proof (len_nonneg rest) as Hr. rewrite len_cons.
  replace (1 + len rest =? 0) with false by lia. cbv zeta.
  rewrite inb_true by (rewrite len_cons; lia). rewrite guard_true. change (idx [] (v0 :: rest) 0) with v0.
  rewrite AppendString_src by auto. cbn [bind].
  unfold append_slice. destruct (1 <? 1 + len rest) eqn:E1.
  - rewrite slice_ok_true by (rewrite ?len_cons; lia). rewrite guard_true.
    rewrite <- (len_cons v0 rest). rewrite slice_tail. rewrite AppendStrings_loop_ok by auto. reflexivity.
  - assert (rest = []) by (destruct rest; [auto|rewrite len_cons in E1; pose proof (len_nonneg rest); lia]). subst rest. reflexivity.
Qed.

(* ---------- time ---------- *)
Definition tval_ok (t : tval) : Prop := - two63Z <= t_unixnano t < two63Z.
Definition s_UNIXMS : list N := [85;78;73;88;77;83]%N.
Definition s_UNIXMICRO : list N := [85;78;73;88;77;73;67;82;79]%N.
Definition s_UNIXNANO : list N := [85;78;73;88;78;65;78;79]%N.
(* globals.go: TimeFormatUnix = "", TimeFormatUnixMs = "UNIXMS", ... ; anything else is a layout *)
Definition fmt_of (format : list N) : timefmt :=
  if list_eqb N.eqb format [] then TFUnix
  else if list_eqb N.eqb format s_UNIXMS then TFUnixMs
  else if list_eqb N.eqb format s_UNIXMICRO then TFUnixMicro
  else if list_eqb N.eqb format s_UNIXNANO then TFUnixNano
  else TFLayout.

Lemma quot_wrap x d : - two63Z <= x < two63Z -> 0 < d -> wraps 64 (quot x d) = Z.quot x d.
Proof.
  intros Hx Hd. apply wraps64_id. unfold two63Z, quot in *.
  pose proof (Z.quot_rem' x d) as E. pose proof (Z.rem_bound_pos_pos) as _.
  destruct (Z_le_gt_dec 0 x) as [Hp|Hn].
  - pose proof (Z.quot_pos x d Hp Hd). pose proof (Z.quot_le_upper_bound x d x Hd ltac:(nia)). lia.
  - pose proof (Z.quot_opp_l x d ltac:(lia)) as Ho.
    pose proof (Z.quot_pos (- x) d ltac:(lia) Hd). pose proof (Z.quot_le_upper_bound (- x) d (- x) Hd ltac:(nia)). lia.
Qed.

Theorem AppendTime_src dst t format : tval_ok t ->
  JsonSrc.AppendTime dst t format = Ok (JsonEnc.AppendTime dst t (fmt_of format)).
Proof.
  intros Ht. unfold JsonSrc.AppendTime, fmt_of. cbv zeta.
  change [85%N; 78%N; 73%N; 88%N; 77%N; 83%N] with s_UNIXMS.
  change [85%N; 78%N; 73%N; 88%N; 77%N; 73%N; 67%N; 82%N; 79%N] with s_UNIXMICRO.
  change [85%N; 78%N; 73%N; 88%N; 78%N; 65%N; 78%N; 79%N] with s_UNIXNANO.
  destruct (list_eqb N.eqb format []); [reflexivity|].
  destruct (list_eqb N.eqb format s_UNIXMS).
  { cbn [negb Z.eqb guard]. rewrite quot_wrap by (auto; lia). reflexivity. }
  destruct (list_eqb N.eqb format s_UNIXMICRO).
  { cbn [negb Z.eqb guard]. rewrite quot_wrap by (auto; lia). reflexivity. }
  destruct (list_eqb N.eqb format s_UNIXNANO); [reflexivity|].
  unfold time_AppendFormat, JsonEnc.AppendTime. rewrite <- !app_assoc. reflexivity.
Qed.

Lemma fold_ext {A} (f g : list N -> A -> list N) : forall rest d0,
  Forall (fun v => forall d, f d v = g d v) rest ->
  fold_left (fun d v => f (d ++ [44%N]) v) rest d0 = fold_left (fun d v => g (d ++ [44%N]) v) rest d0.
Proof.
  induction rest as [|v rest IH]; intros d0 H; [reflexivity|]. inversion H as [|? ? Hv Hr]; subst.
  cbn [fold_left]. rewrite Hv. apply IH; auto.
Qed.
Lemma append_slice_ext {A} (f g : list N -> A -> list N) dst vals :
  Forall (fun v => forall d, f d v = g d v) vals -> append_slice f dst vals = append_slice g dst vals.
Proof.
  intros H. destruct vals as [|v0 rest]; [reflexivity|]. inversion H as [|? ? H0 Hr]; subst.
  unfold append_slice. f_equal. rewrite H0. apply fold_ext; auto.
Qed.

Lemma appendUnixTimes_loop_ok : forall l dst,
  appendUnixTimes_loop1 l dst = Ok (LExit (fold_left (fun d v => JsonEnc.AppendTime (d ++ [44%N]) v TFUnix) l dst)).
Proof. intros l; induction l as [|v l IH]; intros dst; [reflexivity|]. cbn [appendUnixTimes_loop1 fold_left]. rewrite IH. reflexivity. Qed.

Lemma appendUnixTimes_src dst vals : appendUnixTimes dst vals = Ok (JsonEnc.AppendTimes dst vals TFUnix).
Proof. exact (slice_fn_shape tval0 appendUnixTimes_loop1 (fun d t => JsonEnc.AppendTime d t TFUnix) dst vals appendUnixTimes_loop_ok). Qed.

Definition nano_div (d t : _) (div : Z) : list N := strconv_AppendInt d (wraps 64 (quot (t_unixnano t) div)).
Lemma appendUnixNanoTimes_loop_ok div : div <> 0 -> forall l dst,
  appendUnixNanoTimes_loop1 l div dst = Ok (LExit (fold_left (fun d v => nano_div (d ++ [44%N]) v div) l dst)).
Proof.
  intros Hd l; induction l as [|v l IH]; intros dst; [reflexivity|]. cbn [appendUnixNanoTimes_loop1 fold_left].
  replace (div =? 0) with false by lia. cbn [negb guard]. cbv zeta. rewrite IH. reflexivity.
Qed.

Lemma appendUnixNanoTimes_ok dst vals div : div <> 0 ->
  appendUnixNanoTimes dst vals div = Ok (append_slice (fun d t => nano_div d t div) dst vals).
Proof.
  intros Hd. unfold appendUnixNanoTimes. replace (div =? 0) with false by lia.
  exact (slice_fn_shape tval0 (fun l d => appendUnixNanoTimes_loop1 l div d) (fun d t => nano_div d t div) dst vals (appendUnixNanoTimes_loop_ok div Hd)).
Qed.

Lemma AppendTimes_loop_ok format : forall l dst,
  AppendTimes_loop1 l format dst = Ok (LExit (fold_left (fun d v => JsonEnc.AppendTime (d ++ [44%N]) v TFLayout) l dst)).
Proof.
  intros l; induction l as [|v l IH]; intros dst; [reflexivity|]. cbn [AppendTimes_loop1 fold_left]. cbv zeta. rewrite IH.
  unfold time_AppendFormat, JsonEnc.AppendTime. rewrite <- !app_assoc. reflexivity.
Qed.

Theorem AppendTimes_src dst vals format : Forall tval_ok vals ->
  JsonSrc.AppendTimes dst vals format = Ok (JsonEnc.AppendTimes dst vals (fmt_of format)).
Proof.
  intros Ht. unfold JsonSrc.AppendTimes, fmt_of. cbv zeta.
  change [85%N; 78%N; 73%N; 88%N; 77%N; 83%N] with s_UNIXMS.
  change [85%N; 78%N; 73%N; 88%N; 77%N; 73%N; 67%N; 82%N; 79%N] with s_UNIXMICRO.
  change [85%N; 78%N; 73%N; 88%N; 78%N; 65%N; 78%N; 79%N] with s_UNIXNANO.
  destruct (list_eqb N.eqb format []); [apply appendUnixTimes_src|].
  assert (Hext : forall div tf, 0 < div -> (forall d t, tval_ok t -> JsonEnc.AppendTime d t tf = JsonEnc.AppendInt d (Z.quot (t_unixnano t) div)) ->
            append_slice (fun d t => nano_div d t div) dst vals = JsonEnc.AppendTimes dst vals tf).
  { intros div tf Hd Hq. unfold JsonEnc.AppendTimes. apply append_slice_ext. rewrite Forall_forall in *. intros v Hv d.
    rewrite Hq by auto. unfold nano_div. rewrite quot_wrap by (auto; apply Ht; auto). reflexivity. }
  destruct (list_eqb N.eqb format s_UNIXMS).
  { rewrite appendUnixNanoTimes_ok by lia. f_equal. apply Hext; [lia|reflexivity]. }
  destruct (list_eqb N.eqb format s_UNIXMICRO).
  { rewrite appendUnixNanoTimes_ok by lia. f_equal. apply Hext; [lia|reflexivity]. }
  destruct (list_eqb N.eqb format s_UNIXNANO).
  { rewrite appendUnixNanoTimes_ok by lia. f_equal. apply Hext; [lia|]. intros d t _. cbn [JsonEnc.AppendTime]. rewrite Z.quot_1_r. reflexivity. }
  etransitivity; [|exact (slice_fn_shape tval0 (fun l d => AppendTimes_loop1 l format d) (fun d t => JsonEnc.AppendTime d t TFLayout) dst vals (AppendTimes_loop_ok format))].
  destruct vals as [|v0 rest]; [reflexivity|]. rewrite len_cons. pose proof (len_nonneg rest).
  replace (1 + len rest =? 0) with false by lia. cbv zeta. unfold time_AppendFormat, JsonEnc.AppendTime. rewrite <- !app_assoc. reflexivity.
Qed.

(* ---------- appendFloat, 64-bit path: NaN/Inf strings, the 'e'/'f' choice, the exponent clean-up ---------- *)
Definition mk64 (b : N) : gofl := {| fl32 := false; flbits := b |}.

Lemma idx_app_r {A} (d : A) (L R : list A) k : 0 <= k -> idx d (L ++ R) (len L + k) = idx d R k.
Proof. intros H. unfold idx, len. rewrite app_nth2 by lia. f_equal. lia. Qed.

Lemma last4 {A} (t : list A) : (4 <= length t)%nat -> exists pre a b c d, t = pre ++ [a; b; c; d].
Proof.
  intros H. exists (firstn (length t - 4) t).
  assert (Hs : length (skipn (length t - 4) t) = 4%nat) by (rewrite skipn_length; lia).
  destruct (skipn (length t - 4) t) as [|a [|b [|c [|d [|? ?]]]]] eqn:E; cbn in Hs; try lia.
  exists a, b, c, d. rewrite <- E. symmetry. apply firstn_skipn.
Qed.

(* what the float encoder assumes of strconv.AppendFloat for this value: the two texts *)
Definition fo_agrees (fo : float_oracle) (f : fval) (prec : Z) : Prop :=
  fo (mk64 (f_bits f)) 102%N prec 64 = f_txt_f f /\ fo (mk64 (f_bits f)) 101%N prec 64 = f_txt_e f.

Lemma abs_exp b : (b < 2 ^ 64)%N ->
  ((b mod 9223372036854775808 / 4503599627370496) mod 2048 = (b / 4503599627370496) mod 2048)%N /\
  ((b mod 9223372036854775808) mod 4503599627370496 = b mod 4503599627370496)%N.
Proof.
  intros H. change (2 ^ 64)%N with 18446744073709551616%N in H.
  pose proof (N.div_mod' b 9223372036854775808) as E1.
  pose proof (N.mod_lt b 9223372036854775808 ltac:(lia)) as L1.
  set (q := (b / 9223372036854775808)%N) in *. set (r := (b mod 9223372036854775808)%N) in *.
  assert (q < 2)%N by lia.
  pose proof (N.div_mod' r 4503599627370496) as E2. pose proof (N.mod_lt r 4503599627370496 ltac:(lia)) as L2.
  set (q2 := (r / 4503599627370496)%N) in *. set (r2 := (r mod 4503599627370496)%N) in *.
  assert (Hq2 : (q2 < 2048)%N) by lia.
  assert (Eb : b = (4503599627370496 * (q * 2048 + q2) + r2)%N) by lia.
  split.
  - rewrite (N.mod_small q2) by lia.
    assert ((b / 4503599627370496) = q * 2048 + q2)%N as ->.
    { symmetry. apply (N.div_unique b 4503599627370496 _ r2); lia. }
    rewrite N.add_comm, N.mod_add by lia. symmetry. apply N.mod_small. lia.
  - apply (N.mod_unique b 4503599627370496 (q * 2048 + q2) r2); lia.
Qed.

Lemma key64 a : (a < 9223372036854775808)%N -> fl_key {| fl32 := false; flbits := a |} = Z.of_N a.
Proof. intros H. unfold fl_key, fl_neg_bit, fl_abs. cbn [fl32 flbits]. rewrite N.mod_small by lia. replace (9223372036854775808 <=? a)%N with false by lia. reflexivity. Qed.
Lemma cmp64 a c : (a < 9223372036854775808)%N -> (c < 9223372036854775808)%N ->
  fl_isnan {| fl32 := false; flbits := a |} = false -> fl_isnan {| fl32 := false; flbits := c |} = false ->
  fl_lt {| fl32 := false; flbits := a |} {| fl32 := false; flbits := c |} = (a <? c)%N /\
  fl_le {| fl32 := false; flbits := c |} {| fl32 := false; flbits := a |} = (c <=? a)%N /\
  fl_eq {| fl32 := false; flbits := a |} {| fl32 := false; flbits := c |} = (a =? c)%N.
Proof. intros Ha Hc Na Nc. unfold fl_lt, fl_le, fl_eq. rewrite Na, Nc, !key64 by auto. cbn [negb andb]. repeat split; lia. Qed.

Lemma upd_app_r {A} (L R : list A) k x : upd (L ++ R) (length L + k) x = L ++ upd R k x.
Proof. induction L as [|y L IH]; [reflexivity|]. cbn [app length Nat.add upd]. f_equal. apply IH. Qed.
Lemma set_idx_app_r {A} (L R : list A) k x : 0 <= k -> set_idx (L ++ R) (len L + k) x = L ++ set_idx R k x.
Proof. intros H. unfold set_idx, len. replace (Z.to_nat (Z.of_nat (length L) + k)) with (length L + Z.to_nat k)%nat by lia. apply upd_app_r. Qed.
Lemma slice_app_l {A} (L R : list A) k : 0 <= k -> slice (L ++ R) 0 (len L + k) = L ++ slice R 0 k.
Proof.
  intros H. unfold slice, len. rewrite !Z.sub_0_r. cbn [Z.to_nat skipn].
  replace (Z.to_nat (Z.of_nat (length L) + k)) with (length L + Z.to_nat k)%nat by lia.
  rewrite firstn_app_2. reflexivity.
Qed.
Lemma cleanup_exp_last4 pre c1 c2 c3 c4 :
  cleanup_exp (pre ++ [c1; c2; c3; c4]) =
  if ((c1 =? 101) && (c2 =? 45) && (c3 =? 48))%N then pre ++ [c1; c2; c4] else pre ++ [c1; c2; c3; c4].
Proof.
  unfold cleanup_exp. rewrite app_length. cbn [length]. replace (4 <=? length pre + 4)%nat with true by lia.
  replace (length pre + 4 - 4)%nat with (length pre + 0)%nat by lia. rewrite skipn_app, skipn_all2 by lia.
  replace (length pre + 0 - length pre)%nat with 0%nat by lia. cbn [app skipn].
  replace (length pre + 4 - 2)%nat with (length pre + 2)%nat by lia. rewrite firstn_app_2. cbn [firstn].
  destruct (c1 =? 101)%N eqn:E1; [apply N.eqb_eq in E1; subst c1|].
  2:{ cbn [andb]. destruct c1 as [|p]; [reflexivity|]. apply N.eqb_neq in E1.
      repeat (destruct p as [p|p|]; try reflexivity); congruence. }
  destruct (c2 =? 45)%N eqn:E2; [apply N.eqb_eq in E2; subst c2|].
  2:{ cbn [andb]. destruct c2 as [|p]; [reflexivity|]. apply N.eqb_neq in E2.
      repeat (destruct p as [p|p|]; try reflexivity); congruence. }
  destruct (c3 =? 48)%N eqn:E3; [apply N.eqb_eq in E3; subst c3|].
  2:{ cbn [andb]. destruct c3 as [|p]; [reflexivity|]. apply N.eqb_neq in E3.
      repeat (destruct p as [p|p|]; try reflexivity); congruence. }
  cbn [andb]. rewrite <- app_assoc. reflexivity.
Qed.

Lemma cleanup_src dst t : (4 <= length t)%nat -> len_ok (dst ++ t) ->
    (let X := dst ++ t in
     guard (negb (4 <=? len X) || inb (wraps 64 (len X - 4)) X)
      (guard (negb ((4 <=? len X) && (idx 0%N X (wraps 64 (len X - 4)) =? 101)%N) || inb (wraps 64 (len X - 3)) X)
        (guard (negb ((4 <=? len X) && (idx 0%N X (wraps 64 (len X - 4)) =? 101)%N && (idx 0%N X (wraps 64 (len X - 3)) =? 45)%N) || inb (wraps 64 (len X - 2)) X)
          (if (4 <=? len X) && (idx 0%N X (wraps 64 (len X - 4)) =? 101)%N && (idx 0%N X (wraps 64 (len X - 3)) =? 45)%N && (idx 0%N X (wraps 64 (len X - 2)) =? 48)%N
           then guard (inb (wraps 64 (len X - 1)) X) (guard (inb (wraps 64 (len X - 2)) X)
                  (guard (slice_ok (set_idx X (wraps 64 (len X - 2)) (idx 0%N X (wraps 64 (len X - 1)))) 0 (wraps 64 (len X - 1)))
                     (Ok (slice (set_idx X (wraps 64 (len X - 2)) (idx 0%N X (wraps 64 (len X - 1)))) 0 (wraps 64 (len X - 1))))))
           else Ok X)))) = Ok (dst ++ cleanup_exp (t)).
Proof.
  intros H4 Hlen. destruct (last4 _ H4) as (pre & c1 & c2 & c3 & c4 & Et). cbv zeta. subst t.
    rewrite cleanup_exp_last4. rewrite app_assoc in *. set (L := dst ++ pre) in *.
    assert (Hl : len (L ++ [c1; c2; c3; c4]) = len L + 4) by (rewrite len_app; reflexivity).
    pose proof (len_nonneg L) as HL. unfold len_ok in Hlen. rewrite Hl in *.
    replace (4 <=? len L + 4) with true by lia. cbn [negb andb orb].
    rewrite !wraps64_id by lia.
    replace (len L + 4 - 4) with (len L + 0) by lia. replace (len L + 4 - 3) with (len L + 1) by lia.
    replace (len L + 4 - 2) with (len L + 2) by lia. replace (len L + 4 - 1) with (len L + 3) by lia.
    rewrite !idx_app_r by lia. change (idx 0%N [c1; c2; c3; c4] 0) with c1. change (idx 0%N [c1; c2; c3; c4] 1) with c2.
    change (idx 0%N [c1; c2; c3; c4] 2) with c3. change (idx 0%N [c1; c2; c3; c4] 3) with c4.
    rewrite !inb_true by (rewrite Hl; lia). rewrite !orb_true_r, !guard_true.
    destruct ((c1 =? 101)%N && (c2 =? 45)%N && (c3 =? 48)%N); [|unfold L; rewrite <- app_assoc; reflexivity].
    rewrite set_idx_app_r by lia. change (set_idx [c1; c2; c3; c4] 2 c4) with [c1; c2; c4; c4].
    rewrite slice_ok_true by (rewrite ?len_app; change (len [c1; c2; c4; c4]) with 4; lia). rewrite guard_true.
    rewrite slice_app_l by lia. change (slice [c1; c2; c4; c4] 0 3) with [c1; c2; c4]. unfold L; rewrite <- app_assoc; reflexivity. 
Qed.

Theorem AppendFloat64_src fo dst f prec : (f_bits f < 2 ^ 64)%N -> fo_agrees fo f prec -> (4 <= length (f_txt_e f))%nat ->
  len_ok (dst ++ f_txt_e f) ->
  JsonSrc.AppendFloat64 fo dst (mk64 (f_bits f)) prec = Ok (JsonEnc.AppendFloat64 dst f prec).
Proof.
  intros Hb [Hf He] H4 Hlen. unfold JsonSrc.AppendFloat64, JsonSrc.appendFloat, JsonEnc.AppendFloat64, JsonEnc.appendFloat.
  set (b := f_bits f) in *.
  unfold fl_isnan, fl_isinf, mk64. cbn [fl32 flbits].
  change (f64_exp b) with ((b / 4503599627370496) mod 2048)%N. change (f64_man b) with (b mod 4503599627370496)%N.
  destruct (((b / 4503599627370496) mod 2048 =? 2047)%N && negb (b mod 4503599627370496 =? 0)%N) eqn:Enan; [reflexivity|].
  cbn [Z.leb Z.compare andb orb]. rewrite !orb_false_r.
  destruct (b =? 9218868437227405312)%N; [reflexivity|]. destruct (b =? 18442240474082181120)%N; [reflexivity|].
  cbv zeta.
  assert (Ha : (b mod 9223372036854775808 < 9223372036854775808)%N) by (apply N.mod_lt; lia).
  set (a := (b mod 9223372036854775808)%N) in *.
  change (fl_abs {| fl32 := false; flbits := b |}) with {| fl32 := false; flbits := a |}.
  assert (Na : fl_isnan {| fl32 := false; flbits := a |} = false).
  { unfold fl_isnan. cbn [fl32 flbits]. unfold a. destruct (abs_exp b Hb) as [E1 E2]. rewrite E1, E2. exact Enan. }
  destruct (cmp64 a 0 Ha ltac:(lia) Na ltac:(reflexivity)) as (_ & _ & Eq0).
  destruct (cmp64 a 4517329193108106637 Ha ltac:(lia) Na ltac:(reflexivity)) as (Elt & _ & _).
  destruct (cmp64 a 4921056587992461136 Ha ltac:(lia) Na ltac:(reflexivity)) as (_ & Ele & _).
  rewrite Eq0, Elt, Ele. unfold fl_same_width. cbn [fl32 Bool.eqb Z.eqb Pos.eqb negb andb orb unsup_unless].
  rewrite !orb_true_r. cbn [unsup_unless].
  change (f64_abs b) with a. change f64_1em6 with 4517329193108106637%N. change f64_1e21 with 4921056587992461136%N.
  unfold strconv_AppendFloat. fold (mk64 b). rewrite Hf, He.
  change (102 =? 101)%N with false. change (101 =? 101)%N with true. cbv iota.
  pose proof (cleanup_src dst (f_txt_e f) H4 Hlen) as Hclean.
  cbv zeta in Hclean.
  destruct (prec =? -1) eqn:Ep; cbn [andb]; [|reflexivity].
  destruct (a =? 0)%N eqn:Ea0; cbn [negb andb]; [reflexivity|].
  destruct ((a <? 4517329193108106637)%N || (4921056587992461136 <=? a)%N); [exact Hclean|reflexivity].
Qed.

(* ---------- appendFloat, 32-bit path: float64(val) widened exactly, float32(abs) narrowed back, float32 thresholds ---------- *)
Definition mk32 (b : N) : gofl := {| fl32 := true; flbits := b |}.
Definition fo_agrees32 (fo : float_oracle) (f : fval) (prec : Z) : Prop :=
  fo (fl_to64 (mk32 (f_bits f))) 102%N prec 32 = f_txt_f f /\ fo (fl_to64 (mk32 (f_bits f))) 101%N prec 32 = f_txt_e f.

Lemma key32 a : (a < 2147483648)%N -> fl_key {| fl32 := true; flbits := a |} = Z.of_N a.
Proof. intros H. unfold fl_key, fl_neg_bit, fl_abs. cbn [fl32 flbits]. rewrite N.mod_small by lia. replace (2147483648 <=? a)%N with false by lia. reflexivity. Qed.
Lemma cmp32 a c : (a < 2147483648)%N -> (c < 2147483648)%N ->
  fl_isnan {| fl32 := true; flbits := a |} = false -> fl_isnan {| fl32 := true; flbits := c |} = false ->
  fl_lt {| fl32 := true; flbits := a |} {| fl32 := true; flbits := c |} = (a <? c)%N /\
  fl_le {| fl32 := true; flbits := c |} {| fl32 := true; flbits := a |} = (c <=? a)%N.
Proof. intros Ha Hc Na Nc. unfold fl_lt, fl_le. rewrite Na, Nc, !key32 by auto. cbn [negb andb]. split; lia. Qed.

Lemma isnan32_abs b : (b < 4294967296)%N -> isnan32 (b mod 2147483648) = isnan32 b.
Proof.
  intros Hb. destruct (split32 b Hb) as (Eb & Hs & He & Hm). cbv zeta in *.
  set (s := (b / 2147483648)%N) in *. set (e := ((b / 8388608) mod 256)%N) in *. set (m := (b mod 8388608)%N) in *.
  assert (Ha : (b mod 2147483648 = e * 8388608 + m)%N).
  { symmetry. apply (N.mod_unique b 2147483648 s (e * 8388608 + m)%N); lia. }
  unfold isnan32. rewrite Ha. fold e m.
  assert (M0 : ((e * 8388608 + m) mod 8388608 = m)%N) by (symmetry; apply (N.mod_unique _ 8388608 e m); lia).
  assert (E0 : (((e * 8388608 + m) / 8388608) mod 256 = e)%N).
  { assert (((e * 8388608 + m) / 8388608) = e)%N as -> by (symmetry; apply (N.div_unique _ 8388608 e m); lia). apply N.mod_small; lia. }
  rewrite M0, E0. reflexivity.
Qed.

Theorem AppendFloat32_src fo dst f prec : (f_bits f < 4294967296)%N -> fo_agrees32 fo f prec -> (4 <= length (f_txt_e f))%nat ->
  len_ok (dst ++ f_txt_e f) ->
  JsonSrc.AppendFloat32 fo dst (mk32 (f_bits f)) prec = Ok (JsonEnc.AppendFloat32 dst f prec).
Proof.
  intros Hb [Hf He] H4 Hlen. unfold JsonSrc.AppendFloat32, JsonSrc.appendFloat, JsonEnc.AppendFloat32, JsonEnc.appendFloat.
  set (b := f_bits f) in *. unfold fl_to64, mk32 in *. cbn [fl32 flbits] in *.
  unfold fl_isnan, fl_isinf. cbn [fl32 flbits].
  change (((widen b / 4503599627370496) mod 2048 =? 2047)%N && negb (widen b mod 4503599627370496 =? 0)%N) with (isnan64 (widen b)).
  rewrite widen_nan by auto.
  change ((f32_exp b =? 255)%N && negb (f32_man b =? 0)%N) with (isnan32 b).
  destruct (isnan32 b) eqn:Enan; [reflexivity|].
  cbn [Z.leb Z.compare andb orb]. rewrite !orb_false_r.
  change 9218868437227405312%N with (widen 2139095040). change 18442240474082181120%N with (widen 4286578688).
  rewrite !widen_eqb by (auto; lia).
  destruct (b =? 2139095040)%N; [reflexivity|]. destruct (b =? 4286578688)%N; [reflexivity|].
  cbv zeta.
  change (fl_abs {| fl32 := false; flbits := widen b |}) with {| fl32 := false; flbits := (widen b mod 9223372036854775808)%N |}.
  rewrite widen_abs by auto.
  assert (Ha : (b mod 2147483648 < 2147483648)%N) by (apply N.mod_lt; lia).
  set (a := (b mod 2147483648)%N) in *.
  assert (Ha' : (a < 4294967296)%N) by lia.
  assert (Na : isnan32 a = false) by (unfold a; rewrite isnan32_abs by auto; exact Enan).
  assert (Nw : fl_isnan {| fl32 := false; flbits := widen a |} = false).
  { unfold fl_isnan. cbn [fl32 flbits]. change (isnan64 (widen a) = false). rewrite widen_nan by auto. exact Na. }
  assert (Hw63 : (widen a < 9223372036854775808)%N).
  { unfold a. rewrite <- widen_abs by auto. apply N.mod_lt. lia. }
  assert (Eq0 : fl_eq {| fl32 := false; flbits := widen a |} {| fl32 := false; flbits := 0 |} = (a =? 0)%N).
  { destruct (cmp64 (widen a) 0 Hw63 ltac:(lia) Nw ltac:(reflexivity)) as (_ & _ & E). rewrite E.
    change 0%N with (widen 0) at 1. apply widen_eqb; auto; lia. }
  rewrite Eq0.
  unfold fl_to32_ok, fl_to32. cbn [fl32 flbits]. rewrite narrow_widen by auto.
  destruct (cmp32 a 897988541 Ha ltac:(lia) Na ltac:(reflexivity)) as (Elt & _).
  destruct (cmp32 a 1649989415 Ha ltac:(lia) Na ltac:(reflexivity)) as (_ & Ele).
  rewrite Elt, Ele. unfold fl_same_width. cbn [fl32 Bool.eqb Z.eqb Pos.eqb negb andb orb unsup_unless].
  rewrite ?orb_true_r. cbn [unsup_unless].
  change (f32_abs b) with a. change f32_1em6 with 897988541%N. change f32_1e21 with 1649989415%N.
  unfold strconv_AppendFloat. rewrite Hf, He.
  change (102 =? 101)%N with false. change (101 =? 101)%N with true. cbv iota.
  pose proof (cleanup_src dst (f_txt_e f) H4 Hlen) as Hclean. cbv zeta in Hclean.
  destruct (prec =? -1) eqn:Ep; cbn [andb]; [|reflexivity].
  destruct (a =? 0)%N eqn:Ea0; cbn [negb andb]; [reflexivity|].
  destruct ((a <? 897988541)%N || (1649989415 <=? a)%N); [exact Hclean|reflexivity].
Qed.


(* ---------- float slices: the running buffer stays below 2^62 bytes ---------- *)
Lemma cleanup_exp_len t : (length (cleanup_exp t) <= length t)%nat.
Proof.
  destruct (Proofs.JsonEncP.cleanup_exp_cases t) as [(p & d & Et & Ec)|E]; [|rewrite E; lia].
  rewrite Ec, Et, !app_length. cbn [length]. lia.
Qed.

Definition fcost (f : fval) : Z := len (f_txt_e f) + len (f_txt_f f) + 8.
Definition ftotal (l : list fval) : Z := fold_right (fun f acc => fcost f + acc) 0 l.

Lemma appendFloat_len dst w f prec : len (JsonEnc.appendFloat dst w f prec) <= len dst + fcost f - 1.
Proof.
  unfold JsonEnc.appendFloat, fcost.
  pose proof (len_nonneg (f_txt_e f)). pose proof (len_nonneg (f_txt_f f)).
  pose proof (cleanup_exp_len (f_txt_e f)) as Hc.
  repeat match goal with |- context [if ?c then _ else _] => destruct c end;
    rewrite len_app; unfold len in *; cbn [length s_nan s_pinf s_ninf]; lia.
Qed.

Definition f64_ok (fo : float_oracle) (prec : Z) (f : fval) : Prop :=
  (f_bits f < 2 ^ 64)%N /\ fo_agrees fo f prec /\ (4 <= length (f_txt_e f))%nat.

Lemma AppendFloats64_loop_ok fo prec : forall l d, Forall (f64_ok fo prec) l -> len d + ftotal l < 2 ^ 62 ->
  AppendFloats64_loop1 fo (map (fun f => mk64 (f_bits f)) l) prec d =
  Ok (LExit (fold_left (fun d f => JsonEnc.appendFloat (d ++ [44%N]) false f prec) l d)).
Proof.
  intros l; induction l as [|f l IH]; intros d H Hl; [reflexivity|]. inversion H as [|? ? (Hb & Ho & H4) H']; subst.
  cbn [map AppendFloats64_loop1 fold_left]. cbn [ftotal fold_right] in Hl. fold (ftotal l) in Hl.
  pose proof (AppendFloat64_src fo (d ++ [44%N]) f prec Hb Ho H4) as E. unfold JsonSrc.AppendFloat64, JsonEnc.AppendFloat64 in E.
  assert (Hpos : 0 <= ftotal l).
  { clear. induction l as [|x l IH]; cbn [ftotal fold_right]; [lia|]. fold (ftotal l). unfold fcost. pose proof (len_nonneg (f_txt_e x)). pose proof (len_nonneg (f_txt_f x)). lia. }
  rewrite E.
  2:{ unfold len_ok. rewrite !len_app. unfold fcost in Hl. pose proof (len_nonneg (f_txt_f f)). change (len [44%N]) with 1. lia. }
  cbn [bind]. cbv zeta. apply IH; auto.
  pose proof (appendFloat_len (d ++ [44%N]) false f prec) as Hlen. rewrite len_app in Hlen. change (len [44%N]) with 1 in Hlen. lia.
Qed.

Theorem AppendFloats64_src fo dst l prec : Forall (f64_ok fo prec) l -> len dst + 1 + ftotal l < 2 ^ 62 ->
  JsonSrc.AppendFloats64 fo dst (map (fun f => mk64 (f_bits f)) l) prec = Ok (JsonEnc.AppendFloats64 dst l prec).
Proof.
  intros H Hl. unfold JsonSrc.AppendFloats64, JsonEnc.AppendFloats64, append_slice. destruct l as [|f0 rest]; [reflexivity|].
  inversion H as [|? ? (Hb & Ho & H4) H']; subst. cbn [map]. rewrite len_cons.
  pose proof (len_nonneg (map (fun f => mk64 (f_bits f)) rest)) as Hr.
  replace (1 + len (map (fun f : fval => mk64 (f_bits f)) rest) =? 0) with false by lia. cbv zeta.
  rewrite inb_true by (rewrite len_cons; lia). rewrite guard_true.
  change (idx {| fl32 := false; flbits := 0 |} (mk64 (f_bits f0) :: map (fun f => mk64 (f_bits f)) rest) 0) with (mk64 (f_bits f0)).
  cbn [ftotal fold_right] in Hl. fold (ftotal rest) in Hl.
  assert (Hpos : 0 <= ftotal rest).
  { clear. induction rest as [|x l IH]; cbn [ftotal fold_right]; [lia|]. fold (ftotal l). unfold fcost. pose proof (len_nonneg (f_txt_e x)). pose proof (len_nonneg (f_txt_f x)). lia. }
  pose proof (AppendFloat64_src fo (dst ++ [91%N]) f0 prec Hb Ho H4) as E. unfold JsonSrc.AppendFloat64, JsonEnc.AppendFloat64 in E.
  rewrite E.
  2:{ unfold len_ok. rewrite !len_app. unfold fcost in Hl. pose proof (len_nonneg (f_txt_f f0)). change (len [91%N]) with 1. lia. }
  cbn [bind].
  pose proof (appendFloat_len (dst ++ [91%N]) false f0 prec) as Hlen. rewrite len_app in Hlen. change (len [91%N]) with 1 in Hlen.
  destruct (1 <? 1 + len (map (fun f => mk64 (f_bits f)) rest)) eqn:E1.
  - rewrite slice_ok_true by (rewrite ?len_cons; lia). rewrite guard_true.
    rewrite <- (len_cons (mk64 (f_bits f0))). rewrite slice_tail.
    rewrite AppendFloats64_loop_ok by (auto; lia). reflexivity.
  - assert (rest = []) by (destruct rest; [auto|cbn [map] in E1; rewrite len_cons in E1; pose proof (len_nonneg (map (fun f => mk64 (f_bits f)) rest)); lia]). subst rest. reflexivity.
Qed.

Definition f32_ok (fo : float_oracle) (prec : Z) (f : fval) : Prop :=
  (f_bits f < 4294967296)%N /\ fo_agrees32 fo f prec /\ (4 <= length (f_txt_e f))%nat.

Lemma AppendFloats32_loop_ok fo prec : forall l d, Forall (f32_ok fo prec) l -> len d + ftotal l < 2 ^ 62 ->
  AppendFloats32_loop1 fo (map (fun f => mk32 (f_bits f)) l) prec d =
  Ok (LExit (fold_left (fun d f => JsonEnc.appendFloat (d ++ [44%N]) true f prec) l d)).
Proof.
  intros l; induction l as [|f l IH]; intros d H Hl; [reflexivity|]. inversion H as [|? ? (Hb & Ho & H4) H']; subst.
  cbn [map AppendFloats32_loop1 fold_left]. cbn [ftotal fold_right] in Hl. fold (ftotal l) in Hl.
  pose proof (AppendFloat32_src fo (d ++ [44%N]) f prec Hb Ho H4) as E. unfold JsonSrc.AppendFloat32, JsonEnc.AppendFloat32 in E.
  assert (Hpos : 0 <= ftotal l).
  { clear. induction l as [|x l IH]; cbn [ftotal fold_right]; [lia|]. fold (ftotal l). unfold fcost. pose proof (len_nonneg (f_txt_e x)). pose proof (len_nonneg (f_txt_f x)). lia. }
  rewrite E.
  2:{ unfold len_ok. rewrite !len_app. unfold fcost in Hl. pose proof (len_nonneg (f_txt_f f)). change (len [44%N]) with 1. lia. }
  cbn [bind]. cbv zeta. apply IH; auto.
  pose proof (appendFloat_len (d ++ [44%N]) true f prec) as Hlen. rewrite len_app in Hlen. change (len [44%N]) with 1 in Hlen. lia.
Qed.

Theorem AppendFloats32_src fo dst l prec : Forall (f32_ok fo prec) l -> len dst + 1 + ftotal l < 2 ^ 62 ->
  JsonSrc.AppendFloats32 fo dst (map (fun f => mk32 (f_bits f)) l) prec = Ok (JsonEnc.AppendFloats32 dst l prec).
Proof.
  intros H Hl. unfold JsonSrc.AppendFloats32, JsonEnc.AppendFloats32, append_slice. destruct l as [|f0 rest]; [reflexivity|].
  inversion H as [|? ? (Hb & Ho & H4) H']; subst. cbn [map]. rewrite len_cons.
  pose proof (len_nonneg (map (fun f => mk32 (f_bits f)) rest)) as Hr.
  replace (1 + len (map (fun f : fval => mk32 (f_bits f)) rest) =? 0) with false by lia. cbv zeta.
  rewrite inb_true by (rewrite len_cons; lia). rewrite guard_true.
  change (idx {| fl32 := true; flbits := 0 |} (mk32 (f_bits f0) :: map (fun f => mk32 (f_bits f)) rest) 0) with (mk32 (f_bits f0)).
  cbn [ftotal fold_right] in Hl. fold (ftotal rest) in Hl.
  assert (Hpos : 0 <= ftotal rest).
  { clear. induction rest as [|x l IH]; cbn [ftotal fold_right]; [lia|]. fold (ftotal l). unfold fcost. pose proof (len_nonneg (f_txt_e x)). pose proof (len_nonneg (f_txt_f x)). lia. }
  pose proof (AppendFloat32_src fo (dst ++ [91%N]) f0 prec Hb Ho H4) as E. unfold JsonSrc.AppendFloat32, JsonEnc.AppendFloat32 in E.
  rewrite E.
  2:{ unfold len_ok. rewrite !len_app. unfold fcost in Hl. pose proof (len_nonneg (f_txt_f f0)). change (len [91%N]) with 1. lia. }
  cbn [bind].
  pose proof (appendFloat_len (dst ++ [91%N]) true f0 prec) as Hlen. rewrite len_app in Hlen. change (len [91%N]) with 1 in Hlen.
  destruct (1 <? 1 + len (map (fun f => mk32 (f_bits f)) rest)) eqn:E1.
  - rewrite slice_ok_true by (rewrite ?len_cons; lia). rewrite guard_true.
    rewrite <- (len_cons (mk32 (f_bits f0))). rewrite slice_tail.
    rewrite AppendFloats32_loop_ok by (auto; lia). reflexivity.
  - assert (rest = []) by (destruct rest; [auto|cbn [map] in E1; rewrite len_cons in E1; pose proof (len_nonneg (map (fun f => mk32 (f_bits f)) rest)); lia]). subst rest. reflexivity.
Qed.

(* ---------- AppendDuration: int64(d/unit) with Go's wrap, or the float quotient (an oracle of the two integers) ---------- *)
Theorem AppendDuration_src fo fq dst d unit useInt prec : unit <> 0 ->
  (useInt = false -> fq (d_ns d) unit = mk64 (f_bits (d_quot d)) /\ (f_bits (d_quot d) < 2 ^ 64)%N /\ fo_agrees fo (d_quot d) prec /\
                     (4 <= length (f_txt_e (d_quot d)))%nat /\ len_ok (dst ++ f_txt_e (d_quot d))) ->
  JsonSrc.AppendDuration fo fq dst (d_ns d) unit useInt prec = Ok (JsonEnc.AppendDuration dst d unit useInt prec).
Proof.
  intros Hu Hf. unfold JsonSrc.AppendDuration, JsonEnc.AppendDuration. destruct useInt.
  - replace (unit =? 0) with false by lia. reflexivity.
  - destruct (Hf eq_refl) as (E & Hb & Ho & H4 & Hl). rewrite E. apply AppendFloat64_src; auto.
Qed.

(* the slice form in integer mode (DurationFieldInteger): no float text is involved *)
Lemma AppendDurations_int_loop fo fq unit prec : unit <> 0 -> forall (l : list dval) dst,
  AppendDurations_loop1 fo fq (map d_ns l) unit true prec dst =
  Ok (LExit (fold_left (fun d v => JsonEnc.AppendDuration (d ++ [44%N]) v unit true prec) l dst)).
Proof.
  intros Hu l; induction l as [|v l IH]; intros dst; [reflexivity|]. cbn [map AppendDurations_loop1 fold_left].
  rewrite (AppendDuration_src fo fq (dst ++ [44%N]) v unit true prec Hu) by (intros; discriminate). cbn [bind]. cbv zeta. apply IH.
Qed.

Theorem AppendDurations_int_src fo fq dst (l : list dval) unit prec : unit <> 0 ->
  JsonSrc.AppendDurations fo fq dst (map d_ns l) unit true prec = Ok (JsonEnc.AppendDurations dst l unit true prec).
Proof.
  intros Hu. unfold JsonSrc.AppendDurations, JsonEnc.AppendDurations, append_slice. destruct l as [|v0 rest]; [reflexivity|].
  cbn [map]. rewrite len_cons. pose proof (len_nonneg (map d_ns rest)) as Hr.
  replace (1 + len (map d_ns rest) =? 0) with false by lia. cbv zeta.
  rewrite inb_true by (rewrite len_cons; lia). rewrite guard_true. change (idx 0 (d_ns v0 :: map d_ns rest) 0) with (d_ns v0).
  rewrite (AppendDuration_src fo fq (dst ++ [91%N]) v0 unit true prec Hu) by (intros; discriminate). cbn [bind].
  destruct (1 <? 1 + len (map d_ns rest)) eqn:E1.
  - rewrite slice_ok_true by (rewrite ?len_cons; lia). rewrite guard_true.
    rewrite <- (len_cons (d_ns v0)). rewrite slice_tail. rewrite AppendDurations_int_loop by auto. reflexivity.
  - assert (rest = []) by (destruct rest; [auto|cbn [map] in E1; rewrite len_cons in E1; pose proof (len_nonneg (map d_ns rest)); lia]). subst rest. reflexivity.
Qed.

(* ---------- summary: every translated function of internal/json refines the model ---------- *)
Definition strs_ok (vals : list (list N)) : Prop := Forall (fun s => bytes_ok s /\ len_ok s) vals.

Definition json_source_refinement : Prop :=
  (forall dst s, bytes_ok s -> len_ok s -> JsonSrc.AppendString dst s = Ok (JsonEnc.AppendString dst s)) /\
  (forall dst s, bytes_ok s -> len_ok s -> JsonSrc.AppendBytes dst s = Ok (JsonEnc.AppendBytes dst s)) /\
  (forall dst key, dst <> [] -> len_ok dst -> bytes_ok key -> len_ok key -> JsonSrc.AppendKey dst key = Ok (JsonEnc.AppendKey dst key)) /\
  (forall dst s, bytes_ok s -> JsonSrc.AppendHex dst s = Ok (JsonEnc.AppendHex dst s)) /\
  (forall dst o, o <> [] -> len_ok o -> JsonSrc.AppendObjectData dst o = Ok (JsonEnc.AppendObjectData dst o)) /\
  (forall dst vals, strs_ok vals -> JsonSrc.AppendStrings dst vals = Ok (JsonEnc.AppendStrings dst vals)) /\
  (forall dst, JsonSrc.AppendNil dst = Ok (JsonEnc.AppendNil dst)) /\
  (forall dst, JsonSrc.AppendBeginMarker dst = Ok (JsonEnc.AppendBeginMarker dst)) /\
  (forall dst, JsonSrc.AppendEndMarker dst = Ok (JsonEnc.AppendEndMarker dst)) /\
  (forall dst, JsonSrc.AppendLineBreak dst = Ok (JsonEnc.AppendLineBreak dst)) /\
  (forall dst, JsonSrc.AppendArrayStart dst = Ok (JsonEnc.AppendArrayStart dst)) /\
  (forall dst, JsonSrc.AppendArrayEnd dst = Ok (JsonEnc.AppendArrayEnd dst)) /\
  (forall dst, JsonSrc.AppendArrayDelim dst = Ok (JsonEnc.AppendArrayDelim dst)) /\
  (forall dst b, JsonSrc.AppendBool dst b = Ok (JsonEnc.AppendBool dst b)) /\
  (forall dst l, JsonSrc.AppendBools dst l = Ok (JsonEnc.AppendBools dst l)) /\
  (forall dst z, JsonSrc.AppendInt dst z = Ok (JsonEnc.AppendInt dst z) /\ JsonSrc.AppendInt8 dst z = Ok (JsonEnc.AppendInt dst z) /\
                 JsonSrc.AppendInt16 dst z = Ok (JsonEnc.AppendInt dst z) /\ JsonSrc.AppendInt32 dst z = Ok (JsonEnc.AppendInt dst z) /\
                 JsonSrc.AppendInt64 dst z = Ok (JsonEnc.AppendInt dst z)) /\
  (forall dst n, JsonSrc.AppendUint dst n = Ok (JsonEnc.AppendUint dst n) /\ JsonSrc.AppendUint8 dst n = Ok (JsonEnc.AppendUint dst n) /\
                 JsonSrc.AppendUint16 dst n = Ok (JsonEnc.AppendUint dst n) /\ JsonSrc.AppendUint32 dst n = Ok (JsonEnc.AppendUint dst n) /\
                 JsonSrc.AppendUint64 dst n = Ok (JsonEnc.AppendUint dst n)) /\
  (forall dst l, JsonSrc.AppendInts dst l = Ok (JsonEnc.AppendInts dst l) /\ JsonSrc.AppendInts8 dst l = Ok (JsonEnc.AppendInts dst l) /\
                 JsonSrc.AppendInts16 dst l = Ok (JsonEnc.AppendInts dst l) /\ JsonSrc.AppendInts32 dst l = Ok (JsonEnc.AppendInts dst l) /\
                 JsonSrc.AppendInts64 dst l = Ok (JsonEnc.AppendInts dst l)) /\
  (forall dst l, JsonSrc.AppendUints dst l = Ok (JsonEnc.AppendUints dst l) /\ JsonSrc.AppendUints8 dst l = Ok (JsonEnc.AppendUints dst l) /\
                 JsonSrc.AppendUints16 dst l = Ok (JsonEnc.AppendUints dst l) /\ JsonSrc.AppendUints32 dst l = Ok (JsonEnc.AppendUints dst l) /\
                 JsonSrc.AppendUints64 dst l = Ok (JsonEnc.AppendUints dst l)) /\
  (forall dst t format, tval_ok t -> JsonSrc.AppendTime dst t format = Ok (JsonEnc.AppendTime dst t (fmt_of format))) /\
  (forall dst l format, Forall tval_ok l -> JsonSrc.AppendTimes dst l format = Ok (JsonEnc.AppendTimes dst l (fmt_of format))) /\
  (forall fo dst f prec, (f_bits f < 2 ^ 64)%N -> fo_agrees fo f prec -> (4 <= length (f_txt_e f))%nat -> len_ok (dst ++ f_txt_e f) ->
     JsonSrc.AppendFloat64 fo dst (mk64 (f_bits f)) prec = Ok (JsonEnc.AppendFloat64 dst f prec)) /\
  (forall fo dst f prec, (f_bits f < 4294967296)%N -> fo_agrees32 fo f prec -> (4 <= length (f_txt_e f))%nat -> len_ok (dst ++ f_txt_e f) ->
     JsonSrc.AppendFloat32 fo dst (mk32 (f_bits f)) prec = Ok (JsonEnc.AppendFloat32 dst f prec)) /\
  (forall fo dst l prec, Forall (f64_ok fo prec) l -> len dst + 1 + ftotal l < 2 ^ 62 ->
     JsonSrc.AppendFloats64 fo dst (map (fun f => mk64 (f_bits f)) l) prec = Ok (JsonEnc.AppendFloats64 dst l prec)) /\
  (forall fo dst l prec, Forall (f32_ok fo prec) l -> len dst + 1 + ftotal l < 2 ^ 62 ->
     JsonSrc.AppendFloats32 fo dst (map (fun f => mk32 (f_bits f)) l) prec = Ok (JsonEnc.AppendFloats32 dst l prec)) /\
  (forall fo fq dst d unit useInt prec, unit <> 0 ->
     (useInt = false -> fq (d_ns d) unit = mk64 (f_bits (d_quot d)) /\ (f_bits (d_quot d) < 2 ^ 64)%N /\ fo_agrees fo (d_quot d) prec /\
                        (4 <= length (f_txt_e (d_quot d)))%nat /\ len_ok (dst ++ f_txt_e (d_quot d))) ->
     JsonSrc.AppendDuration fo fq dst (d_ns d) unit useInt prec = Ok (JsonEnc.AppendDuration dst d unit useInt prec)) /\
  (forall fo fq dst (l : list dval) unit prec, unit <> 0 ->
     JsonSrc.AppendDurations fo fq dst (map d_ns l) unit true prec = Ok (JsonEnc.AppendDurations dst l unit true prec)).

Theorem json_source_refines_model : json_source_refinement.
Proof.
  unfold json_source_refinement. repeat split; intros;
    first [ apply AppendString_src | apply AppendBytes_src | apply AppendKey_src | apply AppendHex_src | apply AppendObjectData_src
          | apply AppendStrings_src | apply AppendArrayDelim_src | apply AppendBool_src | apply AppendBools_src
          | apply AppendInts_src | apply AppendInts8_src | apply AppendInts16_src | apply AppendInts32_src | apply AppendInts64_src
          | apply AppendUints_src | apply AppendUints8_src | apply AppendUints16_src | apply AppendUints32_src | apply AppendUints64_src
          | apply AppendTime_src | apply AppendTimes_src | apply AppendFloat64_src | apply AppendFloat32_src | apply AppendFloats64_src | apply AppendFloats32_src | apply AppendDuration_src | apply AppendDurations_int_src | reflexivity ]; auto.
Qed.

(* the functions of internal/json the translator could NOT express stay tied to the code by the
   byte-exact correspondence run only; the list is part of the generated file and fixed here, so a
   function silently leaving the translated set breaks this lemma *)
Lemma json_skipped_functions : length JsonSrc.skipped_functions = 7%nat /\ length JsonSrc.translated_functions = 48%nat.
Proof. split; reflexivity. Qed.

(* what the property needs of the two functions every key and string goes through, stated of the source *)
From Verif Require Import Base.JsonSpec Proofs.JsonEncP.
Theorem source_string_escaper dst s : bytes_ok s -> len_ok s ->
  exists t, JsonSrc.AppendString dst s = Ok (dst ++ t) /\ JsonSrc.AppendBytes dst s = Ok (dst ++ t) /\
            JString t (go_runes s) /\ GoodTxt t.
Proof.
  intros Hs Hl. exists (json_string s). rewrite AppendString_src, AppendBytes_src by auto.
  split; [reflexivity|]. split; [reflexivity|]. apply json_string_good_all.
Qed.
Theorem source_AppendKey dst key : dst <> [] -> len_ok dst -> bytes_ok key -> len_ok key ->
  JsonSrc.AppendKey dst key = Ok (dst ++ (if (last_byte dst =? 0x7B)%N then [] else [0x2C%N]) ++ json_string key ++ [0x3A%N]).
Proof. intros. rewrite AppendKey_src by auto. rewrite AppendKey_shape. reflexivity. Qed.
