(* Lemmas about Lts/Writers.v.  Property theorems (Properties/C14.v) are closed
   by [exact] from the lemmas here. *)
From Verif Require Import Base.Prelude Misc.Level Lts.Writers.
Open Scope Z_scope.

(* ------------------------------------------------------------------ *)
(* specification vocabulary                                            *)
(* ------------------------------------------------------------------ *)

(* the error one call contributes under MultiLevelWriter: the destination's
   error, or io.ErrShortWrite when it reports n != len(p) without error *)
Definition outcome_err (oc : outcome) (p : bytes) : option err :=
  match oc with
  | OOk => None
  | OErr e => Some (EDest e)
  | OShort n => if n =? blen p then None else Some EShortWrite
  end.

(* a destination that is not reached (filtered out) cannot fail *)
Definition dest_err (d : dest) (m : mode) (p : bytes) (oc : outcome) : option err :=
  match through (d_wraps d) m with None => None | Some _ => outcome_err oc p end.

Fixpoint first_fail (ds : list dest) (i : nat) (m : mode) (p : bytes) (o : nat -> outcome) : option err :=
  match ds with
  | [] => None
  | d :: t => match dest_err d m p (o i) with
              | Some e => Some e
              | None => first_fail t (S i) m p o
              end
  end.

(* what destination dd receives for one call entering in mode m *)
Definition delivered (dd : dest) (m : mode) (p : bytes) : list call :=
  match through (d_wraps dd) m with
  | None => []
  | Some m' => [(leaf_mode (d_leaf dd) m', p)]
  end.

Definition dest_calls (i : nat) (d : dest) (m : mode) (p : bytes) : list action :=
  map (fun c => ACall i (fst c) (snd c)) (delivered d m p).

(* the complete fan-out, in destination order, whatever the outcomes *)
Fixpoint fanout (ds : list dest) (i : nat) (m : mode) (p : bytes) : list action :=
  match ds with
  | [] => []
  | d :: t => dest_calls i d m p ++ fanout t (S i) m p
  end.

(* projection of a trace on one destination: its call log *)
Definition calls_of (d : nat) (tr : list action) : list call :=
  flat_map (fun a => match a with
                     | ACall i m p => if Nat.eqb i d then [(m, p)] else []
                     | _ => []
                     end) tr.

Definition handler_calls (tr : list action) : list err :=
  flat_map (fun a => match a with AHandler e => [e] | _ => [] end) tr.
Definition stderr_calls (tr : list action) : list err :=
  flat_map (fun a => match a with AStderr e => [e] | _ => [] end) tr.
Definition puts (tr : list action) : nat :=
  length (filter (fun a => match a with APut => true | _ => false end) tr).
Definition dones (tr : list action) : nat :=
  length (filter (fun a => match a with ADone => true | _ => false end) tr).
Definition is_call (a : action) : Prop := match a with ACall _ _ _ => True | _ => False end.

(* the destination the logger reaches under index d *)
Definition target (c : cfg) (d : nat) : option dest :=
  match c_kind c with
  | KMulti => nth_error (c_dests c) d
  | KSingle => match d with O => hd_error (c_dests c) | S _ => None end
  end.

(* what destination d receives for one event *)
Definition deliver (c : cfg) (d : nat) (ev : event) : list call :=
  if ev_level ev =? Disabled then []
  else match through (c_wraps c) (MLevel (ev_level ev)) with
       | None => []
       | Some m => match target c d with
                   | Some dd => delivered dd m (ev_bytes ev)
                   | None => []
                   end
       end.

Definition single_err (d : dest) (m : mode) (oc : outcome) : option err :=
  match through (d_wraps d) m with
  | None => None
  | Some _ => match oc with OErr e => Some (EDest e) | _ => None end
  end.

Definition event_calls (c : cfg) (ev : event) : list action :=
  match through (c_wraps c) (MLevel (ev_level ev)) with
  | None => []
  | Some m => match c_kind c with
              | KMulti => fanout (c_dests c) 0%nat m (ev_bytes ev)
              | KSingle => match c_dests c with
                           | [] => []
                           | d :: _ => dest_calls 0%nat d m (ev_bytes ev)
                           end
              end
  end.

(* the error Event.write returns *)
Definition event_err (c : cfg) (o : nat -> outcome) (ev : event) : option err :=
  match through (c_wraps c) (MLevel (ev_level ev)) with
  | None => None
  | Some m => match c_kind c with
              | KMulti => first_fail (c_dests c) 0%nat m (ev_bytes ev) o
              | KSingle => match c_dests c with
                           | [] => None
                           | d :: _ => single_err d m (o 0%nat)
                           end
              end
  end.

Definition report (c : cfg) (e : option err) : list action :=
  match e with
  | None => []
  | Some x => [if c_handler c then AHandler x else AStderr x]
  end.

(* ------------------------------------------------------------------ *)
(* the loop of multiLevelWriter                                        *)
(* ------------------------------------------------------------------ *)

Lemma dest_call_fst i d m p oc : fst (dest_call i d m p oc) = dest_calls i d m p.
Proof. unfold dest_call, dest_calls, delivered. destruct (through (d_wraps d) m); reflexivity. Qed.

Lemma acc_step_err acc i d m p oc :
  snd (acc_step acc (snd (dest_call i d m p oc)) (blen p)) =
  match snd acc with Some e => Some e | None => dest_err d m p oc end.
Proof.
  unfold acc_step, dest_call, dest_err. destruct acc as [n [e|]]; cbn [snd]; auto.
  destruct (through (d_wraps d) m); cbn [snd fst].
  - destruct oc; cbn [dest_ret outcome_err snd fst].
    + rewrite Z.eqb_refl. reflexivity.
    + reflexivity.
    + destruct (n0 =? blen p); reflexivity.
  - rewrite Z.eqb_refl. reflexivity.
Qed.

Lemma multi_loop_fst ds : forall i m p o acc, fst (multi_loop ds i m p o acc) = fanout ds i m p.
Proof.
  induction ds as [|d t IH]; intros; cbn [multi_loop fanout]; auto.
  pose proof (dest_call_fst i d m p (o i)) as F.
  destruct (dest_call i d m p (o i)) as [cs r].
  specialize (IH (S i) m p o (acc_step acc r (blen p))).
  destruct (multi_loop t (S i) m p o (acc_step acc r (blen p))) as [rest acc'].
  cbn [fst] in *. subst. reflexivity.
Qed.

Lemma multi_loop_err ds : forall i m p o acc,
  snd (snd (multi_loop ds i m p o acc)) =
  match snd acc with Some e => Some e | None => first_fail ds i m p o end.
Proof.
  induction ds as [|d t IH]; intros; cbn [multi_loop first_fail].
  - cbn [snd]. destruct (snd acc); reflexivity.
  - pose proof (acc_step_err acc i d m p (o i)) as F.
    destruct (dest_call i d m p (o i)) as [cs r]. cbn [snd] in F.
    specialize (IH (S i) m p o (acc_step acc r (blen p))).
    destruct (multi_loop t (S i) m p o (acc_step acc r (blen p))) as [rest acc'].
    cbn [snd] in *. rewrite IH, F.
    destruct (snd acc); auto.
Qed.

Lemma multi_write_spec ds m p o :
  fst (multi_write ds m p o) = fanout ds 0%nat m p /\
  snd (snd (multi_write ds m p o)) = first_fail ds 0%nat m p o.
Proof. unfold multi_write. split; [apply multi_loop_fst|]. rewrite multi_loop_err. reflexivity. Qed.

(* n: without failure, and at least one writer, n = len(p) *)
Lemma multi_loop_n ds : forall i m p o acc,
  snd acc = None -> (ds <> [] \/ fst acc = blen p) ->
  first_fail ds i m p o = None -> fst (snd (multi_loop ds i m p o acc)) = blen p.
Proof.
  induction ds as [|d t IH]; intros i m p o acc Ha Hd Hf; cbn [multi_loop].
  - cbn [snd]. destruct Hd; congruence.
  - cbn [first_fail] in Hf. destruct (dest_err d m p (o i)) eqn:E; [discriminate|].
    pose proof (acc_step_err acc i d m p (o i)) as F. rewrite Ha, E in F.
    assert (N1 : fst (acc_step acc (snd (dest_call i d m p (o i))) (blen p)) = blen p).
    { unfold acc_step, dest_call, dest_err in *. rewrite Ha.
      destruct (through (d_wraps d) m); cbn [snd fst].
      - destruct (o i); cbn [dest_ret outcome_err snd fst] in *; try discriminate.
        + rewrite Z.eqb_refl. reflexivity.
        + destruct (n =? blen p) eqn:En; [|discriminate]. cbn [fst]. lia.
      - rewrite Z.eqb_refl. reflexivity. }
    destruct (dest_call i d m p (o i)) as [cs r]. cbn [snd] in *.
    specialize (IH (S i) m p o (acc_step acc r (blen p)) F (or_intror N1) Hf).
    destruct (multi_loop t (S i) m p o (acc_step acc r (blen p))) as [rest acc'].
    exact IH.
Qed.

(* ------------------------------------------------------------------ *)
(* first failure wins                                                  *)
(* ------------------------------------------------------------------ *)

Lemma first_fail_some ds : forall i m p o e,
  first_fail ds i m p o = Some e ->
  exists k d, nth_error ds k = Some d /\ dest_err d m p (o (i + k)%nat) = Some e /\
              forall j dj, (j < k)%nat -> nth_error ds j = Some dj -> dest_err dj m p (o (i + j)%nat) = None.
Proof.
  induction ds as [|d t IH]; intros i m p o e H; cbn [first_fail] in H; [discriminate|].
  destruct (dest_err d m p (o i)) eqn:E.
  - inversion H; subst. exists 0%nat, d. rewrite Nat.add_0_r. repeat split; auto. intros j dj Hj; lia.
  - destruct (IH _ _ _ _ _ H) as (k & dk & Hk & Hek & Hlt).
    exists (S k), dk. cbn [nth_error]. replace (i + S k)%nat with (S i + k)%nat by lia.
    repeat split; auto. intros [|j] dj Hj Hn; cbn [nth_error] in Hn.
    + inversion Hn; subst. rewrite Nat.add_0_r. exact E.
    + replace (i + S j)%nat with (S i + j)%nat by lia. apply (Hlt j dj); [lia|exact Hn].
Qed.

Lemma first_fail_none ds : forall i m p o,
  first_fail ds i m p o = None <->
  forall k d, nth_error ds k = Some d -> dest_err d m p (o (i + k)%nat) = None.
Proof.
  induction ds as [|d t IH]; intros i m p o; cbn [first_fail].
  - split; auto. intros _ [|k] d H; discriminate.
  - split.
    + intros H [|k] dk Hk; cbn [nth_error] in Hk.
      * inversion Hk; subst. rewrite Nat.add_0_r. destruct (dest_err dk m p (o i)); [discriminate|auto].
      * destruct (dest_err d m p (o i)); [discriminate|].
        replace (i + S k)%nat with (S i + k)%nat by lia. apply (proj1 (IH _ _ _ _) H k dk Hk).
    + intros H. pose proof (H 0%nat d eq_refl) as H0. rewrite Nat.add_0_r in H0. rewrite H0.
      apply IH. intros k dk Hk. replace (S i + k)%nat with (i + S k)%nat by lia. apply H. exact Hk.
Qed.

Lemma first_fail_all_ok ds : forall i m p o, (forall j, o j = OOk) -> first_fail ds i m p o = None.
Proof.
  intros i m p o H. apply first_fail_none. intros k d _. unfold dest_err. rewrite H.
  destruct (through (d_wraps d) m); reflexivity.
Qed.

(* the answer does not depend on what later destinations do *)
Lemma first_fail_ext ds : forall i m p o o',
  (forall j, o j = o' j) -> first_fail ds i m p o = first_fail ds i m p o'.
Proof.
  induction ds as [|d t IH]; intros; cbn [first_fail]; auto. rewrite H. rewrite (IH _ _ _ o o'); auto.
Qed.

(* ------------------------------------------------------------------ *)
(* call logs                                                           *)
(* ------------------------------------------------------------------ *)

Lemma calls_of_app d a b : calls_of d (a ++ b) = calls_of d a ++ calls_of d b.
Proof. unfold calls_of. apply flat_map_app. Qed.

Lemma calls_of_dest_calls d i dd m p :
  calls_of d (dest_calls i dd m p) = if Nat.eqb i d then delivered dd m p else [].
Proof.
  unfold dest_calls, delivered. destruct (through (d_wraps dd) m); cbn.
  - destruct (Nat.eqb i d); reflexivity.
  - destruct (Nat.eqb i d); reflexivity.
Qed.

Lemma calls_of_fanout ds : forall i d m p,
  calls_of d (fanout ds i m p) =
  if (d <? i)%nat then []
  else match nth_error ds (d - i) with Some dd => delivered dd m p | None => [] end.
Proof.
  induction ds as [|a t IH]; intros i d m p; cbn [fanout].
  - change (calls_of d []) with (@nil call). destruct (d <? i)%nat; auto. destruct (d - i)%nat; reflexivity.
  - rewrite calls_of_app, calls_of_dest_calls, IH.
    destruct (Nat.eqb i d) eqn:E1.
    + apply Nat.eqb_eq in E1. subst d.
      replace (i <? S i)%nat with true by (symmetry; apply Nat.ltb_lt; lia).
      replace (i <? i)%nat with false by (symmetry; apply Nat.ltb_ge; lia).
      rewrite Nat.sub_diag. cbn [nth_error]. apply app_nil_r.
    + apply Nat.eqb_neq in E1. cbn [app].
      destruct (d <? i)%nat eqn:E2.
      * apply Nat.ltb_lt in E2. replace (d <? S i)%nat with true by (symmetry; apply Nat.ltb_lt; lia). reflexivity.
      * apply Nat.ltb_ge in E2. replace (d <? S i)%nat with false by (symmetry; apply Nat.ltb_ge; lia).
        replace (d - i)%nat with (S (d - S i)) by lia. reflexivity.
Qed.

Lemma fanout_is_call ds : forall i m p, Forall is_call (fanout ds i m p).
Proof.
  induction ds as [|a t IH]; intros; cbn [fanout]; [constructor|].
  apply Forall_app; split; [|apply IH].
  unfold dest_calls, delivered. destruct (through (d_wraps a) m); cbn; repeat constructor.
Qed.

(* ------------------------------------------------------------------ *)
(* one logging call                                                    *)
(* ------------------------------------------------------------------ *)

Lemma body_write_spec c m p o :
  fst (body_write c m p o) =
    match c_kind c with
    | KMulti => fanout (c_dests c) 0%nat m p
    | KSingle => match c_dests c with [] => [] | d :: _ => dest_calls 0%nat d m p end
    end /\
  snd (snd (body_write c m p o)) =
    match c_kind c with
    | KMulti => first_fail (c_dests c) 0%nat m p o
    | KSingle => match c_dests c with [] => None | d :: _ => single_err d m (o 0%nat) end
    end.
Proof.
  unfold body_write. destruct (c_kind c).
  - apply multi_write_spec.
  - destruct (c_dests c) as [|d t]; [split; reflexivity|].
    split; [apply dest_call_fst|].
    unfold dest_call, single_err. destruct (through (d_wraps d) m); cbn [snd]; auto.
    destruct (o 0%nat); reflexivity.
Qed.

Lemma write_event_spec c o ev :
  write_event c o ev = (event_calls c ev ++ [APut], event_err c o ev).
Proof.
  unfold write_event, event_calls, event_err.
  destruct (through (c_wraps c) (MLevel (ev_level ev))) as [m|]; [|reflexivity].
  pose proof (body_write_spec c m (ev_bytes ev) o) as [F G].
  destruct (body_write c m (ev_bytes ev) o) as [acts r]. cbn [fst snd] in *. rewrite F, G. reflexivity.
Qed.

(* the shape of every logging call: the complete fan-out, the event goes back
   to the pool, then at most one report, then the deferred done *)
Lemma msg_spec c o ev : ev_level ev <> Disabled ->
  msg c o ev = event_calls c ev ++ [APut] ++ report c (event_err c o ev)
               ++ (if ev_panic ev then [ADone] else []).
Proof.
  intros H. unfold msg. replace (ev_level ev =? Disabled) with false by (symmetry; apply Z.eqb_neq; exact H).
  rewrite write_event_spec. unfold report. rewrite <- app_assoc. reflexivity.
Qed.

Lemma msg_disabled c o ev : ev_level ev = Disabled -> msg c o ev = [].
Proof. intros H. unfold msg. rewrite H. reflexivity. Qed.

Lemma event_calls_is_call c ev : Forall is_call (event_calls c ev).
Proof.
  unfold event_calls. destruct (through (c_wraps c) (MLevel (ev_level ev))); [|constructor].
  destruct (c_kind c); [apply fanout_is_call|].
  destruct (c_dests c); [constructor|].
  unfold dest_calls, delivered. destruct (through (d_wraps d) m); cbn; repeat constructor.
Qed.

Lemma calls_only_handler tr : Forall is_call tr -> handler_calls tr = [] /\ stderr_calls tr = [] /\ puts tr = 0%nat /\ dones tr = 0%nat.
Proof.
  induction 1 as [|a tr Ha _ IH]; [repeat split|].
  destruct IH as (I1 & I2 & I3 & I4). destruct a; cbn in Ha; try contradiction.
  unfold handler_calls, stderr_calls, puts, dones in *. cbn. auto.
Qed.

Lemma handler_calls_app a b : handler_calls (a ++ b) = handler_calls a ++ handler_calls b.
Proof. apply flat_map_app. Qed.
Lemma stderr_calls_app a b : stderr_calls (a ++ b) = stderr_calls a ++ stderr_calls b.
Proof. apply flat_map_app. Qed.
Lemma puts_app a b : puts (a ++ b) = (puts a + puts b)%nat.
Proof. unfold puts. rewrite filter_app, app_length. reflexivity. Qed.
Lemma dones_app a b : dones (a ++ b) = (dones a + dones b)%nat.
Proof. unfold dones. rewrite filter_app, app_length. reflexivity. Qed.

(* ErrorHandler exactly once per failing event, with the error of the first
   failing destination; never otherwise; the event is recycled exactly once;
   done runs exactly when it was set; nothing follows done *)
Lemma handler_once c o ev : ev_level ev <> Disabled ->
  handler_calls (msg c o ev) = (if c_handler c then match event_err c o ev with Some x => [x] | None => [] end else []) /\
  stderr_calls (msg c o ev) = (if c_handler c then [] else match event_err c o ev with Some x => [x] | None => [] end) /\
  puts (msg c o ev) = 1%nat /\
  dones (msg c o ev) = (if ev_panic ev then 1%nat else 0%nat).
Proof.
  intros H. rewrite (msg_spec c o ev H).
  destruct (calls_only_handler _ (event_calls_is_call c ev)) as (C1 & C2 & C3 & C4).
  rewrite !handler_calls_app, !stderr_calls_app, !puts_app, !dones_app, C1, C2, C3, C4.
  unfold report. destruct (event_err c o ev), (c_handler c), (ev_panic ev); cbn; auto.
Qed.

Lemma calls_of_event_calls c d ev : ev_level ev <> Disabled ->
  calls_of d (event_calls c ev) = deliver c d ev.
Proof.
  intros H. unfold deliver, event_calls, target.
  replace (ev_level ev =? Disabled) with false by (symmetry; apply Z.eqb_neq; exact H).
  destruct (through (c_wraps c) (MLevel (ev_level ev))) as [m|]; [|reflexivity].
  destruct (c_kind c).
  - rewrite calls_of_fanout. cbn. rewrite Nat.sub_0_r. reflexivity.
  - destruct (c_dests c) as [|d0 t]; cbn [hd_error].
    + destruct d; reflexivity.
    + rewrite calls_of_dest_calls. destruct d; reflexivity.
Qed.

Lemma calls_of_msg c o d ev : calls_of d (msg c o ev) = deliver c d ev.
Proof.
  destruct (Z.eq_dec (ev_level ev) Disabled) as [E|E].
  - rewrite msg_disabled by exact E. unfold deliver. rewrite E. reflexivity.
  - rewrite msg_spec by exact E. rewrite calls_of_app, calls_of_event_calls by exact E.
    replace (calls_of d _) with (@nil call); [apply app_nil_r|].
    unfold report. destruct (event_err c o ev), (c_handler c), (ev_panic ev); reflexivity.
Qed.

(* ------------------------------------------------------------------ *)
(* runs                                                                *)
(* ------------------------------------------------------------------ *)

Lemma run_from_calls c om d evs : forall k,
  calls_of d (concat (run_from c om k evs)) = flat_map (deliver c d) evs.
Proof.
  induction evs as [|ev t IH]; intros k; cbn [run_from concat flat_map]; auto.
  rewrite calls_of_app, calls_of_msg, IH. reflexivity.
Qed.

(* every destination's call log, for all destination lists, event sequences
   and outcome matrices: no [om] on the right-hand side *)
Lemma every_destination_once c om d evs :
  calls_of d (concat (run c om evs)) = flat_map (deliver c d) evs.
Proof. apply run_from_calls. Qed.

Lemma run_from_nth c om evs : forall k0 k ev,
  nth_error evs k = Some ev -> nth_error (run_from c om k0 evs) k = Some (msg c (om (k0 + k)%nat) ev).
Proof.
  induction evs as [|e t IH]; intros k0 [|k] ev H; cbn [nth_error run_from] in *; try discriminate.
  - inversion H; subst. rewrite Nat.add_0_r. reflexivity.
  - rewrite (IH (S k0) k ev H). f_equal. f_equal. f_equal. lia.
Qed.

(* statelessness: what event k does depends on event k and row k only *)
Lemma run_nth c om evs k ev :
  nth_error evs k = Some ev -> nth_error (run c om evs) k = Some (msg c (om k) ev).
Proof. intros H. apply (run_from_nth c om evs 0%nat k ev H). Qed.

Lemma run_from_app c om a : forall k b,
  run_from c om k (a ++ b) = run_from c om k a ++ run_from c om (k + length a) b.
Proof.
  induction a as [|e t IH]; intros k b; cbn [app run_from length].
  - rewrite Nat.add_0_r. reflexivity.
  - rewrite IH. replace (S k + length t)%nat with (k + S (length t))%nat by lia. reflexivity.
Qed.

Lemma run_app c om a b :
  run c om (a ++ b) = run c om a ++ run_from c om (length a) b.
Proof. apply (run_from_app c om a 0%nat b). Qed.

Lemma run_from_ext c om om' evs : forall k,
  (forall i j, (k <= i)%nat -> om i j = om' i j) -> run_from c om k evs = run_from c om' k evs.
Proof.
  induction evs as [|e t IH]; intros k H; cbn [run_from]; auto.
  f_equal.
  - unfold msg, write_event, body_write, multi_write.
    assert (E : forall j, om k j = om' k j) by (intros; apply H; lia).
    destruct (ev_level e =? Disabled); auto.
    destruct (through (c_wraps c) (MLevel (ev_level e))); auto.
    destruct (c_kind c).
    + assert (G : forall ds i m p acc, multi_loop ds i m p (om k) acc = multi_loop ds i m p (om' k) acc).
      { induction ds as [|d ds IHd]; intros; cbn [multi_loop]; auto. rewrite E.
        destruct (dest_call i d m0 p (om' k i)). rewrite IHd. reflexivity. }
      rewrite G. reflexivity.
    + destruct (c_dests c); auto. rewrite E. reflexivity.
  - apply IH. intros; apply H; lia.
Qed.

(* the events after a prefix behave as if the prefix had never been logged:
   the outcome matrix of the prefix (all its failures) is irrelevant *)
Lemma next_events_unaffected c om om' a b :
  (forall i j, om (length a + i)%nat j = om' i j) ->
  skipn (length a) (run c om (a ++ b)) = run c om' b.
Proof.
  intros H. rewrite run_app.
  assert (L : forall k evs, length (run_from c om k evs) = length evs).
  { intros k evs; revert k; induction evs; intros; cbn; auto. }
  unfold run at 1. rewrite <- (L 0%nat a) at 1. rewrite skipn_app, skipn_all, Nat.sub_diag. cbn [skipn app].
  unfold run.
  assert (G : forall evs k k', (forall i j, om (k + i)%nat j = om' (k' + i)%nat j) ->
            run_from c om k evs = run_from c om' k' evs).
  { induction evs as [|e t IH]; intros k k' Hk; cbn [run_from]; auto. f_equal.
    - assert (E : forall j, om k j = om' k' j).
      { intros j. specialize (Hk 0%nat j). rewrite !Nat.add_0_r in Hk. exact Hk. }
      unfold msg, write_event, body_write, multi_write.
      destruct (ev_level e =? Disabled); auto.
      destruct (through (c_wraps c) (MLevel (ev_level e))); auto.
      destruct (c_kind c).
      + assert (G : forall ds i m p acc, multi_loop ds i m p (om k) acc = multi_loop ds i m p (om' k') acc).
        { induction ds as [|d ds IHd]; intros; cbn [multi_loop]; auto. rewrite E.
          destruct (dest_call i d m0 p (om' k' i)). rewrite IHd. reflexivity. }
        rewrite G. reflexivity.
      + destruct (c_dests c); auto. rewrite E. reflexivity.
    - apply IH. intros i j. specialize (Hk (S i) j).
      replace (S k + i)%nat with (k + S i)%nat by lia. replace (S k' + i)%nat with (k' + S i)%nat by lia. exact Hk. }
  apply G. intros i j. cbn. apply H.
Qed.

(* a clean row gives a clean, complete event *)
Lemma event_err_all_ok c o ev : (forall j, o j = OOk) -> event_err c o ev = None.
Proof.
  intros H. unfold event_err. destruct (through (c_wraps c) (MLevel (ev_level ev))); auto.
  destruct (c_kind c); [apply first_fail_all_ok; exact H|].
  destruct (c_dests c); auto. unfold single_err. rewrite H. destruct (through (d_wraps d) m); reflexivity.
Qed.

Lemma next_event_clean c om evs k ev :
  nth_error evs k = Some ev -> ev_level ev <> Disabled -> (forall j, om k j = OOk) ->
  nth_error (run c om evs) k =
  Some (event_calls c ev ++ [APut] ++ (if ev_panic ev then [ADone] else [])).
Proof.
  intros Hn Hl Hok. rewrite (run_nth c om evs k ev Hn). f_equal.
  rewrite msg_spec by exact Hl. rewrite event_err_all_ok by exact Hok. reflexivity.
Qed.

(* ------------------------------------------------------------------ *)
(* readable instances of [deliver]                                     *)
(* ------------------------------------------------------------------ *)

Definition enabled (evs : list event) : Prop := Forall (fun ev => ev_level ev <> Disabled) evs.

(* zerolog.New(MultiLevelWriter(...)): a LevelWriter destination sees every event, level and bytes *)
Lemma deliver_level_dest c d evs :
  c_wraps c = [] -> c_kind c = KMulti -> enabled evs ->
  nth_error (c_dests c) d = Some {| d_wraps := []; d_leaf := LLevel |} ->
  flat_map (deliver c d) evs = map (fun ev => (MLevel (ev_level ev), ev_bytes ev)) evs.
Proof.
  intros Hw Hk He Hd. induction He as [|ev t H _ IH]; cbn [flat_map map]; auto.
  rewrite IH. unfold deliver, target. rewrite Hw, Hk, Hd.
  replace (ev_level ev =? Disabled) with false by (symmetry; apply Z.eqb_neq; exact H). reflexivity.
Qed.

(* an io.Writer destination (wrapped in LevelWriterAdapter by MultiLevelWriter) sees every event's bytes *)
Lemma deliver_plain_dest c d ws evs :
  c_wraps c = [] -> c_kind c = KMulti -> enabled evs ->
  (forall w, In w ws -> w = WSync \/ w = WAdapter) ->
  nth_error (c_dests c) d = Some {| d_wraps := ws; d_leaf := LPlain |} ->
  flat_map (deliver c d) evs = map (fun ev => (MWrite, ev_bytes ev)) evs.
Proof.
  intros Hw Hk He Hws Hd.
  assert (T : forall m, exists m', through ws m = Some m').
  { clear Hd. induction ws as [|w ws IHw]; intros m; cbn [through]; [eauto|].
    destruct (Hws w (or_introl eq_refl)); subst; apply IHw; intros; apply Hws; right; auto. }
  induction He as [|ev t H _ IH]; cbn [flat_map map]; auto.
  rewrite IH. unfold deliver, target, delivered. rewrite Hw, Hk, Hd.
  replace (ev_level ev =? Disabled) with false by (symmetry; apply Z.eqb_neq; exact H).
  cbn [through d_wraps d_leaf]. destruct (T (MLevel (ev_level ev))) as [m' ->]. reflexivity.
Qed.

(* &FilteredLevelWriter{Writer: lw, Level: min}: exactly the events at or above min *)
Lemma deliver_filtered_dest c d min evs :
  c_wraps c = [] -> c_kind c = KMulti -> enabled evs ->
  nth_error (c_dests c) d = Some {| d_wraps := [WFiltered min]; d_leaf := LLevel |} ->
  flat_map (deliver c d) evs =
  map (fun ev => (MLevel (ev_level ev), ev_bytes ev)) (filter (fun ev => min <=? ev_level ev) evs).
Proof.
  intros Hw Hk He Hd. induction He as [|ev t H _ IH]; cbn [flat_map map filter]; auto.
  rewrite IH. unfold deliver, target, delivered. rewrite Hw, Hk, Hd.
  replace (ev_level ev =? Disabled) with false by (symmetry; apply Z.eqb_neq; exact H).
  cbn [through d_wraps d_leaf]. rewrite Z.geb_leb.
  destruct (min <=? ev_level ev); reflexivity.
Qed.

(* the same over an io.Writer: FilteredLevelWriter{LevelWriterAdapter{w}, min} *)
Lemma deliver_filtered_plain_dest c d min evs :
  c_wraps c = [] -> c_kind c = KMulti -> enabled evs ->
  nth_error (c_dests c) d = Some {| d_wraps := [WFiltered min; WAdapter]; d_leaf := LPlain |} ->
  flat_map (deliver c d) evs =
  map (fun ev => (MWrite, ev_bytes ev)) (filter (fun ev => min <=? ev_level ev) evs).
Proof.
  intros Hw Hk He Hd. induction He as [|ev t H _ IH]; cbn [flat_map map filter]; auto.
  rewrite IH. unfold deliver, target, delivered. rewrite Hw, Hk, Hd.
  replace (ev_level ev =? Disabled) with false by (symmetry; apply Z.eqb_neq; exact H).
  cbn [through d_wraps d_leaf]. rewrite Z.geb_leb.
  destruct (min <=? ev_level ev); reflexivity.
Qed.

(* when the MultiLevelWriter is entered through Write (it sits behind a plain
   io.Writer, e.g. LevelWriterAdapter{multi}), no level reaches the filter:
   FilteredLevelWriter.Write forwards everything *)
Lemma deliver_filtered_via_write c d min evs :
  c_wraps c = [WAdapter] -> c_kind c = KMulti -> enabled evs ->
  nth_error (c_dests c) d = Some {| d_wraps := [WFiltered min]; d_leaf := LLevel |} ->
  flat_map (deliver c d) evs = map (fun ev => (MWrite, ev_bytes ev)) evs.
Proof.
  intros Hw Hk He Hd. induction He as [|ev t H _ IH]; cbn [flat_map map]; auto.
  rewrite IH. unfold deliver, target, delivered. rewrite Hw, Hk, Hd.
  replace (ev_level ev =? Disabled) with false by (symmetry; apply Z.eqb_neq; exact H). reflexivity.
Qed.

(* without MultiLevelWriter a short write (n != len(p), err == nil) is not an error *)
Lemma single_short_write_silent c d n ev o :
  c_kind c = KSingle -> c_dests c = [d] -> o 0%nat = OShort n -> event_err c o ev = None.
Proof.
  intros Hk Hd Ho. unfold event_err. rewrite Hk, Hd.
  destruct (through (c_wraps c) (MLevel (ev_level ev))); auto.
  unfold single_err. rewrite Ho. destruct (through (d_wraps d) m); reflexivity.
Qed.

(* ------------------------------------------------------------------ *)
(* the statements of Properties/C14.v                                  *)
(* ------------------------------------------------------------------ *)

Lemma log_level_dest c om d evs :
  c_wraps c = [] -> c_kind c = KMulti -> enabled evs ->
  nth_error (c_dests c) d = Some {| d_wraps := []; d_leaf := LLevel |} ->
  calls_of d (concat (run c om evs)) = map (fun ev => (MLevel (ev_level ev), ev_bytes ev)) evs.
Proof. intros. rewrite every_destination_once. apply deliver_level_dest; assumption. Qed.

Lemma log_plain_dest c om d ws evs :
  c_wraps c = [] -> c_kind c = KMulti -> enabled evs ->
  (forall w, In w ws -> w = WSync \/ w = WAdapter) ->
  nth_error (c_dests c) d = Some {| d_wraps := ws; d_leaf := LPlain |} ->
  calls_of d (concat (run c om evs)) = map (fun ev => (MWrite, ev_bytes ev)) evs.
Proof. intros. rewrite every_destination_once. eapply deliver_plain_dest; eassumption. Qed.

Lemma log_filtered_dest c om d min evs :
  c_wraps c = [] -> c_kind c = KMulti -> enabled evs ->
  nth_error (c_dests c) d = Some {| d_wraps := [WFiltered min]; d_leaf := LLevel |} ->
  calls_of d (concat (run c om evs)) =
  map (fun ev => (MLevel (ev_level ev), ev_bytes ev)) (filter (fun ev => min <=? ev_level ev) evs).
Proof. intros. rewrite every_destination_once. apply deliver_filtered_dest; assumption. Qed.

Lemma log_filtered_plain_dest c om d min evs :
  c_wraps c = [] -> c_kind c = KMulti -> enabled evs ->
  nth_error (c_dests c) d = Some {| d_wraps := [WFiltered min; WAdapter]; d_leaf := LPlain |} ->
  calls_of d (concat (run c om evs)) =
  map (fun ev => (MWrite, ev_bytes ev)) (filter (fun ev => min <=? ev_level ev) evs).
Proof. intros. rewrite every_destination_once. apply deliver_filtered_plain_dest; assumption. Qed.

Lemma log_filtered_via_write c om d min evs :
  c_wraps c = [WAdapter] -> c_kind c = KMulti -> enabled evs ->
  nth_error (c_dests c) d = Some {| d_wraps := [WFiltered min]; d_leaf := LLevel |} ->
  calls_of d (concat (run c om evs)) = map (fun ev => (MWrite, ev_bytes ev)) evs.
Proof. intros. rewrite every_destination_once. eapply deliver_filtered_via_write; eassumption. Qed.

Lemma first_fail_is_first ds m p o e :
  first_fail ds 0%nat m p o = Some e ->
  exists k d, nth_error ds k = Some d /\ dest_err d m p (o k) = Some e /\
              forall j dj, (j < k)%nat -> nth_error ds j = Some dj -> dest_err dj m p (o j) = None.
Proof. intros H. exact (first_fail_some ds 0%nat m p o e H). Qed.

Lemma no_failure_no_error ds m p o :
  first_fail ds 0%nat m p o = None <->
  forall k d, nth_error ds k = Some d -> dest_err d m p (o k) = None.
Proof. exact (first_fail_none ds 0%nat m p o). Qed.

Lemma no_failure_full_length ds m p o :
  ds <> [] -> first_fail ds 0%nat m p o = None -> fst (snd (multi_write ds m p o)) = blen p.
Proof. intros Hd Hf. unfold multi_write. apply multi_loop_n; auto. Qed.
