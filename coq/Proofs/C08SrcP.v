(* C08 at the level of the translated Go source.

   C08_decode_equiv_line (Properties/C08.v, from C08P.C08_main_line) is about
   the hand model of the decoder ([cbor2json]).  Proofs/SrcDecP.v proves that
   model equal to the machine translation of internal/cbor/decode_stream.go
   ([many_objects_refines]) for inputs that fit in memory and whose elements
   are bytes.  Here: a well-formed CBOR item consists of bytes ([cbor_bytes]),
   so an encoder-model event does ([enc_event_bytes], by
   CborEncP.event_wellformed), hence the C08 line statement holds of
   [run_source], the observable outcome of the translated
   Cbor2JsonManyObjects. *)
From Coq Require Import QArith Qabs.
From Verif Require Import Base.Prelude Base.Decimal Base.Utf8 Base.JsonSpec Base.CborSpec.
From Verif Require Import Base.GoEff Enc.GoStd Enc.DecStd.
From Verif Require Import Enc.CborEnc Enc.CborDec Proofs.CborSpecP Proofs.CborEncP Proofs.CborDecP Proofs.Cbor2JsonP.
From Verif Require Import Enc.JsonEnc Enc.JsonEv Proofs.JsonEncP Proofs.C08P Proofs.SrcDecP.
Open Scope N_scope.

(* ------------------------------------------------------------------ *)
(* 1. a well-formed item is a string of bytes                          *)
(* ------------------------------------------------------------------ *)
Lemma bytes_ok_app a b : bytes_ok a -> bytes_ok b -> bytes_ok (a ++ b).
Proof. unfold bytes_ok. intros Ha Hb. apply Forall_app. split; assumption. Qed.

Lemma bytes_ok_cons x l : x < 256 -> bytes_ok l -> bytes_ok (x :: l).
Proof. unfold bytes_ok. intros Hx Hl. constructor; [exact Hx|exact Hl]. Qed.

Lemma bytes_ok_one x : x < 256 -> bytes_ok [x].
Proof. intros Hx. apply bytes_ok_cons; [exact Hx|constructor]. Qed.

Lemma head_bytes : forall m n h, Head m n h -> bytes_ok h.
Proof.
  intros m n h H. destruct H as [m n Hm Hn|m n Hm Hn|m n Hm Hn|m n Hm Hn|m n Hm Hn].
  - apply bytes_ok_one. lia.
  - apply bytes_ok_cons; [lia|apply be_bytes_ok].
  - apply bytes_ok_cons; [lia|apply be_bytes_ok].
  - apply bytes_ok_cons; [lia|apply be_bytes_ok].
  - apply bytes_ok_cons; [lia|apply be_bytes_ok].
Qed.

Lemma chunks_bytes : forall m b cs, Chunks m b cs -> bytes_ok b.
Proof.
  intros m b cs H. induction H as [|h s b cs Hh Hs Hc IH].
  - constructor.
  - apply bytes_ok_app; [eapply head_bytes; exact Hh|]. apply bytes_ok_app; assumption.
Qed.

Lemma cbor_bytes_mut :
  (forall bs i, Cbor bs i -> bytes_ok bs) /\
  (forall bs l, CborSeq bs l -> bytes_ok bs) /\
  (forall bs l, CborPairs bs l -> bytes_ok bs).
Proof.
  apply Cbor_mutind.
  - (* C_uint *) intros n h Hh. eapply head_bytes; exact Hh.
  - (* C_neg *) intros n h Hh. eapply head_bytes; exact Hh.
  - (* C_bytes *) intros h s Hh Hs. apply bytes_ok_app; [eapply head_bytes; exact Hh|exact Hs].
  - (* C_bytesI *) intros b cs Hc. apply bytes_ok_cons; [lia|].
    apply bytes_ok_app; [eapply chunks_bytes; exact Hc|apply bytes_ok_one; lia].
  - (* C_text *) intros h s Hh Hs. apply bytes_ok_app; [eapply head_bytes; exact Hh|exact Hs].
  - (* C_textI *) intros b cs Hc. apply bytes_ok_cons; [lia|].
    apply bytes_ok_app; [eapply chunks_bytes; exact Hc|apply bytes_ok_one; lia].
  - (* C_arr *) intros h b l Hh _ IH. apply bytes_ok_app; [eapply head_bytes; exact Hh|exact IH].
  - (* C_arrI *) intros b l _ IH. apply bytes_ok_cons; [lia|].
    apply bytes_ok_app; [exact IH|apply bytes_ok_one; lia].
  - (* C_map *) intros h b l Hh _ IH. apply bytes_ok_app; [eapply head_bytes; exact Hh|exact IH].
  - (* C_mapI *) intros b l _ IH. apply bytes_ok_cons; [lia|].
    apply bytes_ok_app; [exact IH|apply bytes_ok_one; lia].
  - (* C_tag *) intros t h b i Hh _ IH. apply bytes_ok_app; [eapply head_bytes; exact Hh|exact IH].
  - (* C_simple *) intros v Hv. apply bytes_ok_one. lia.
  - (* C_simple1 *) intros v Hlo Hhi. apply bytes_ok_cons; [lia|apply bytes_ok_one; exact Hhi].
  - (* C_f16 *) intros b Hb. apply bytes_ok_cons; [lia|apply be_bytes_ok].
  - (* C_f32 *) intros b Hb. apply bytes_ok_cons; [lia|apply be_bytes_ok].
  - (* C_f64 *) intros b Hb. apply bytes_ok_cons; [lia|apply be_bytes_ok].
  - (* Seq_nil *) constructor.
  - (* Seq_cons *) intros b i bs l _ IHb _ IHs. apply bytes_ok_app; assumption.
  - (* Pairs_nil *) constructor.
  - (* Pairs_cons *) intros bk k bv v bs l _ IHk _ IHv _ IHs.
    apply bytes_ok_app; [exact IHk|]. apply bytes_ok_app; assumption.
Qed.

Lemma cbor_bytes : forall bs i, Cbor bs i -> bytes_ok bs.
Proof. exact (proj1 cbor_bytes_mut). Qed.

Lemma bytes_ok_bytes l : bytes_ok l -> SrcDecP.bytes l.
Proof. intros H. exact H. Qed.

(* ------------------------------------------------------------------ *)
(* 2. the encoder model's events are strings of bytes                  *)
(* ------------------------------------------------------------------ *)
Lemma enc_event_bytes : forall (ft : Z -> N -> N) (fd : Z -> Z -> N) kvs,
  (forall s n, ft s n < 2 ^ 64) -> (forall d u, fd d u < 2 ^ 64) ->
  wf_fields kvs -> SrcDecP.bytes (enc_event ft fd kvs).
Proof.
  intros ft fd kvs Ht Hd W. apply bytes_ok_bytes.
  destruct (event_wellformed ft fd Ht Hd kvs W) as [C _].
  eapply cbor_bytes. exact C.
Qed.

(* ------------------------------------------------------------------ *)
(* 3. C08, one line, through the translated Cbor2JsonManyObjects        *)
(* ------------------------------------------------------------------ *)
Theorem C08_source_decode_equiv_line_P : forall Orc JO ft fd, c08_oracles Orc JO ft fd ->
  forall fo, orc_agree Orc fo ->
  forall kvs, wf_fields kvs -> small_fields kvs -> fields_c08 JO kvs -> fits_memory (enc_event ft fd kvs) ->
  forall F, (fuel_for (enc_event ft fd kvs) <= F)%nat ->
  exists t1 v1 t2 v2,
    run_source Orc fo F (enc_event ft fd kvs) = Some (t1 ++ [10], FOk) /\ Json t1 v1 /\
    JsonEv.json_event JO (-1) fd kvs = t2 ++ [10] /\ Json t2 v2 /\ jv_equiv v1 v2.
Proof.
  intros Orc JO ft fd HO fo Ha kvs W Sm C8 Hm F HF.
  destruct (C08_main_line Orc JO ft fd HO kvs W Sm C8 Hm) as (t1 & v1 & t2 & v2 & a & E & J1 & E2 & J2 & Eq).
  exists t1, v1, t2, v2. split; [|repeat split; assumption].
  assert (Hb : SrcDecP.bytes (enc_event ft fd kvs)).
  { apply enc_event_bytes; [exact (co_time_range _ _ _ _ HO)|exact (co_dur_range _ _ _ _ HO)|exact W]. }
  unfold run_source. rewrite (many_objects_refines Orc fo Ha _ F Hm Hb HF). rewrite E. reflexivity.
Qed.
