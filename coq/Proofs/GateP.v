From Verif Require Import Base.Prelude Base.Decimal Misc.Level Lts.Sampler Proofs.SamplerP Misc.Gate.
Open Scope Z_scope.

Lemma dispatch_level e lvl dk : dispatch e = Some (lvl, dk) -> lvl <> Disabled.
Proof.
  destruct e; cbn; try (intros H; inversion H; subst; unfold TraceLevel, DebugLevel, InfoLevel, WarnLevel, ErrorLevel, FatalLevel, PanicLevel, NoLevel, Disabled; lia).
  destruct (l =? Disabled) eqn:E; [discriminate|]. intros H; inversion H; subst. unfold Disabled in *. lia.
Qed.

(* written iff the level gate and the sampler admit it (no discarding hook) *)
Lemma log_call_written_iff g now e lvl dk :
  dispatch e = Some (lvl, dk) ->
  (writes (fst (log_call g now e false)) = [lvl] <-> fst (should g now lvl) = true) /\
  (writes (fst (log_call g now e false)) = [] <-> fst (should g now lvl) = false).
Proof.
  intros D. pose proof (dispatch_level _ _ _ D) as Hl.
  unfold log_call. rewrite D. destruct (should g now lvl) as [en g']. cbn [fst].
  destruct en; cbn [fst].
  - replace (lvl =? Disabled) with false by (unfold Disabled in *; lia).
    unfold writes. rewrite flat_map_app. cbn [flat_map app].
    assert (Z0 : flat_map (fun x => match x with EffWrite l => [l] | _ => [] end) (done_eff dk true) = []) by (destruct dk; reflexivity).
    rewrite Z0. split; split; auto; discriminate.
  - assert (Z0 : writes (done_eff dk false) = []) by (destruct dk; reflexivity).
    rewrite Z0. split; split; auto; discriminate.
Qed.

(* every write carries exactly the level of the entry point *)
Lemma log_call_writelevel g now e d l :
  In l (writes (fst (log_call g now e d))) -> exists dk, dispatch e = Some (l, dk) /\ d = false.
Proof.
  unfold log_call. destruct (dispatch e) as [[lvl dk]|] eqn:D; [|cbn; tauto].
  destruct (should g now lvl) as [en g']. destruct en; cbn [fst].
  - unfold writes. rewrite flat_map_app. rewrite in_app_iff. intros [H|H].
    + destruct d; cbn in H.
      * tauto.
      * destruct (lvl =? Disabled); cbn in H; [tauto|]. destruct H as [<-|[]]. eauto.
    + destruct dk; cbn in H; tauto.
  - destruct dk; cbn; tauto.
Qed.

Lemma log_call_at_most_one_write g now e d : (length (writes (fst (log_call g now e d))) <= 1)%nat.
Proof.
  unfold log_call. destruct (dispatch e) as [[lvl dk]|]; [|cbn; lia].
  destruct (should g now lvl) as [en g']. destruct en; cbn [fst].
  - unfold writes. rewrite flat_map_app, app_length.
    cbv zeta. destruct d; [|destruct (lvl =? Disabled)]; destruct dk; cbn; lia.
  - destruct dk; cbn; lia.
Qed.

Lemma withlevel_disabled_never g now d : log_call g now (EWithLevel Disabled) d = ([], g).
Proof. reflexivity. Qed.

Lemma discarded_not_written g now e : writes (fst (log_call g now e true)) = [].
Proof.
  unfold log_call. destruct (dispatch e) as [[lvl dk]|]; [|reflexivity].
  destruct (should g now lvl) as [en g']. destruct en; cbn [fst]; destruct dk; reflexivity.
Qed.

(* Panic() panics and Fatal() exits exactly once whether or not the event is
   filtered (and whether or not it is discarded); WithLevel never does *)
Lemma panic_fatal_fire g now d :
  dones (fst (log_call g now EPanic d)) = [DPanic] /\ dones (fst (log_call g now EFatal d)) = [DFatal].
Proof.
  unfold log_call; cbn [dispatch].
  destruct (should g now PanicLevel) as [e1 g1]; destruct (should g now FatalLevel) as [e2 g2].
  destruct e1, e2, d; cbn; auto.
Qed.

Lemma withlevel_never_fires g now l d : dones (fst (log_call g now (EWithLevel l) d)) = [].
Proof.
  unfold log_call; cbn [dispatch]. destruct (l =? Disabled); [reflexivity|].
  destruct (should g now l) as [en g']. destruct en, d; cbn; try reflexivity; destruct (l =? Disabled); reflexivity.
Qed.

(* the done callback of a written event runs after its write: the effect list
   is always [writes] ++ [done callback] *)
Lemma done_after_write g now e d :
  exists ws k b, fst (log_call g now e d) = map EffWrite ws ++ done_eff k b /\ (length ws <= 1)%nat.
Proof.
  unfold log_call. destruct (dispatch e) as [[lvl dk]|]; [|exists [], DNone, false; cbn; auto].
  destruct (should g now lvl) as [en g1]. destruct en; cbn [fst].
  - cbv zeta. destruct d.
    + exists [], dk, true. cbn. auto.
    + destruct (lvl =? Disabled); [exists [], dk, true | exists [lvl], dk, true]; cbn; auto.
  - exists [], dk, false. cbn. auto.
Qed.

(* ---- level text ---- *)
Lemma text_roundtrip_all :
  forallb (fun l => match parse_level (level_string l) with POk l' => l' =? l | _ => false end) all_levels = true.
Proof. vm_compute. reflexivity. Qed.

Lemma all_levels_complete l : level_ok l -> In l all_levels.
Proof.
  unfold level_ok, all_levels. intros H. apply in_map_iff. exists (Z.to_nat (l + 128)). split; [lia|].
  apply in_seq. lia.
Qed.

Lemma text_roundtrip l : level_ok l -> parse_level (level_string l) = POk l.
Proof.
  intros H. pose proof text_roundtrip_all as A. rewrite forallb_forall in A.
  specialize (A l (all_levels_complete l H)).
  destruct (parse_level (level_string l)) as [l'| |]; try discriminate. f_equal. lia.
Qed.

Lemma level_byte_roundtrip l : level_ok l -> to_i8 (to_u8 l) = l.
Proof.
  unfold level_ok, to_i8, to_u8. intros H.
  rewrite Z.mod_mod by lia.
  destruct (l mod 256 <? 128) eqn:E;
    pose proof (Z.mod_pos_bound l 256 ltac:(lia)); pose proof (Z.div_mod l 256 ltac:(lia)); lia.
Qed.
