(* Obligations over the method tables regenerated from /repo (coq/Gen): every
   regular method of Event, Context and Array and every simple case of the
   Fields type switch calls the canonical primitive for its Go parameter type,
   with the key first and the same global settings.  This is what makes
   "all front-ends encode a (type, value) identically" a proof obligation over
   the CURRENT source rather than a sample.  Finite checks by vm_compute. *)
From Coq Require Import String Ascii List Bool.
From Verif Require Import Misc.GenTypes Gen.EventMethods Gen.ContextMethods Gen.ArrayMethods Gen.FieldsCases.
Import ListNotations.
Local Open Scope string_scope.

Definition prec := ["FloatingPointPrecision"].
Definition durargs := ["DurationFieldUnit"; "DurationFieldInteger"; "FloatingPointPrecision"].

(* Go parameter type -> (primitive, extra arguments read from globals) *)
Definition canon_type (ty : string) : option (string * list string) :=
  match ty with
  | "string" => Some ("AppendString", []) | "[]string" => Some ("AppendStrings", [])
  | "fmt.Stringer" => Some ("AppendStringer", []) | "[]fmt.Stringer" => Some ("AppendStringers", [])
  | "[]byte" => Some ("AppendBytes", [])
  | "bool" => Some ("AppendBool", []) | "[]bool" => Some ("AppendBools", [])
  | "int" => Some ("AppendInt", []) | "int8" => Some ("AppendInt8", []) | "int16" => Some ("AppendInt16", [])
  | "int32" => Some ("AppendInt32", []) | "int64" => Some ("AppendInt64", [])
  | "[]int" => Some ("AppendInts", []) | "[]int8" => Some ("AppendInts8", []) | "[]int16" => Some ("AppendInts16", [])
  | "[]int32" => Some ("AppendInts32", []) | "[]int64" => Some ("AppendInts64", [])
  | "uint" => Some ("AppendUint", []) | "uint8" => Some ("AppendUint8", []) | "uint16" => Some ("AppendUint16", [])
  | "uint32" => Some ("AppendUint32", []) | "uint64" => Some ("AppendUint64", [])
  | "[]uint" => Some ("AppendUints", []) | "[]uint8" => Some ("AppendUints8", []) | "[]uint16" => Some ("AppendUints16", [])
  | "[]uint32" => Some ("AppendUints32", []) | "[]uint64" => Some ("AppendUints64", [])
  | "float32" => Some ("AppendFloat32", prec) | "float64" => Some ("AppendFloat64", prec)
  | "[]float32" => Some ("AppendFloats32", prec) | "[]float64" => Some ("AppendFloats64", prec)
  | "time.Time" => Some ("AppendTime", ["TimeFieldFormat"]) | "[]time.Time" => Some ("AppendTimes", ["TimeFieldFormat"])
  | "time.Duration" => Some ("AppendDuration", durargs) | "[]time.Duration" => Some ("AppendDurations", durargs)
  | "net.IP" => Some ("AppendIPAddr", []) | "net.IPNet" => Some ("AppendIPPrefix", []) | "net.HardwareAddr" => Some ("AppendMACAddr", [])
  | _ => None
  end.

(* methods whose primitive is not determined by the type alone *)
Definition canon_method (name ty : string) : option (string * list string) :=
  match name with
  | "Hex" => Some ("AppendHex", [])
  | "RawJSON" => Some ("appendJSON", [])
  | "RawCBOR" => Some ("appendCBOR", [])
  | "Type" => Some ("AppendType", [])
  | _ => canon_type ty
  end.

Definition list_string_eqb := list_eqb_s.

Definition last_param (m : method) : option (string * string) := last (map Some (m_params m)) None.

(* a keyed method (Event, Context): enc.X(enc.AppendKey(buf, key), val, extras...) *)
Definition keyed_ok (m : method) : bool :=
  match m_body m with
  | BKeyPrim prim key args =>
      if String.eqb (m_name m) "Timestamp" then
        String.eqb prim "AppendTime" && String.eqb key "TimestampFieldName" && list_eqb_s args ["TimestampFunc()"; "TimeFieldFormat"]
      else
        match last_param m with
        | Some (vname, ty) =>
            match canon_method (m_name m) ty with
            | Some (p, extras) => String.eqb prim p && String.eqb key "key" && list_eqb_s args (vname :: extras)
            | None => false
            end
        | None => false
        end
  | _ => true
  end.

(* an Array element method: enc.X(enc.AppendArrayDelim(buf), val, extras...) *)
Definition elem_ok (m : method) : bool :=
  match m_body m with
  | BKeyPrim prim key args =>
      match last_param m with
      | Some (vname, ty) =>
          match canon_method (m_name m) ty with
          | Some (p, extras) => String.eqb prim p && String.eqb key "" && list_eqb_s args (vname :: extras)
          | None => false
          end
      | None => false
      end
  | _ => true
  end.

Definition is_keyprim (m : method) : bool := match m_body m with BKeyPrim _ _ _ => true | _ => false end.
Definition keyprim_names (tbl : list method) : list string := map m_name (filter is_keyprim tbl).

(* the regular methods that must stay regular (a method whose body stops being the recognised shape is reported) *)
Definition event_regular : list string :=
  ["Bool"; "Bools"; "Bytes"; "Dur"; "Durs"; "Float32"; "Float64"; "Floats32"; "Floats64"; "Hex"; "IPAddr"; "IPPrefix";
   "Int"; "Int16"; "Int32"; "Int64"; "Int8"; "Ints"; "Ints16"; "Ints32"; "Ints64"; "Ints8"; "MACAddr"; "RawCBOR"; "RawJSON";
   "Str"; "Stringer"; "Stringers"; "Strs"; "Time"; "Times"; "Timestamp"; "Type";
   "Uint"; "Uint16"; "Uint32"; "Uint64"; "Uint8"; "Uints"; "Uints16"; "Uints32"; "Uints64"; "Uints8"].
Definition context_regular : list string :=
  ["Bool"; "Bools"; "Bytes"; "Dur"; "Durs"; "Float32"; "Float64"; "Floats32"; "Floats64"; "Hex"; "IPAddr"; "IPPrefix";
   "Int"; "Int16"; "Int32"; "Int64"; "Int8"; "Ints"; "Ints16"; "Ints32"; "Ints64"; "Ints8"; "MACAddr"; "RawJSON";
   "Str"; "Strs"; "Time"; "Times"; "Type";
   "Uint"; "Uint16"; "Uint32"; "Uint64"; "Uint8"; "Uints"; "Uints16"; "Uints32"; "Uints64"; "Uints8"].
Definition array_regular : list string :=
  ["Bool"; "Bytes"; "Dur"; "Float32"; "Float64"; "Hex"; "IPAddr"; "IPPrefix"; "Int"; "Int16"; "Int32"; "Int64"; "Int8"; "MACAddr"; "RawJSON";
   "Str"; "Time"; "Uint"; "Uint16"; "Uint32"; "Uint64"; "Uint8"].

(* Fields: type switch cases *)
Fixpoint join_comma (l : list string) : string :=
  match l with [] => "" | [x] => x | x :: t => x ++ "," ++ join_comma t end.
Definition strip_star (ty : string) : option string :=
  match ty with String "*"%char rest => Some rest | _ => None end.

Definition fcase_ok (c : fcase) : bool :=
  if String.eqb (fc_call c) "special" then true
  else if String.eqb (fc_type c) "default" then String.eqb (fc_call c) "dst = enc.AppendInterface(dst, val)"
  else if String.eqb (fc_type c) "nil" then String.eqb (fc_call c) "enc.AppendNil()"
  else if String.eqb (fc_type c) "json.RawMessage" then String.eqb (fc_call c) "appendJSON(val)"
  else
    match strip_star (fc_type c) with
    | Some ty =>
        match canon_type ty with
        | Some (p, extras) =>
            String.eqb (fc_call c) ("enc." ++ p ++ "(" ++ join_comma ("*val" :: extras) ++ ")")
            && String.eqb (fc_nil c) "{ dst = enc.AppendNil(dst) }"
        | None => false
        end
    | None =>
        match canon_type (fc_type c) with
        | Some (p, extras) => String.eqb (fc_call c) ("enc." ++ p ++ "(" ++ join_comma ("val" :: extras) ++ ")") && String.eqb (fc_nil c) ""
        | None => false
        end
    end.

(* the types the switch must handle with a simple case *)
Definition fields_simple_types : list string :=
  ["string"; "[]byte"; "bool"; "int"; "int8"; "int16"; "int32"; "int64"; "uint"; "uint8"; "uint16"; "uint32"; "uint64";
   "float32"; "float64"; "time.Time"; "time.Duration";
   "*string"; "*bool"; "*int"; "*int8"; "*int16"; "*int32"; "*int64"; "*uint"; "*uint8"; "*uint16"; "*uint32"; "*uint64";
   "*float32"; "*float64"; "*time.Time"; "*time.Duration";
   "[]string"; "[]bool"; "[]int"; "[]int8"; "[]int16"; "[]int32"; "[]int64"; "[]uint"; "[]uint16"; "[]uint32"; "[]uint64";
   "[]float32"; "[]float64"; "[]time.Time"; "[]time.Duration"; "nil"; "net.IP"; "net.IPNet"; "net.HardwareAddr"; "json.RawMessage"; "default"].
Definition simple_case_types : list string :=
  map fc_type (filter (fun c => negb (String.eqb (fc_call c) "special")) fields_cases).

Lemma event_table_canonical : forallb keyed_ok event_methods = true.
Proof. vm_compute. reflexivity. Qed.
Lemma context_table_canonical : forallb keyed_ok context_methods = true.
Proof. vm_compute. reflexivity. Qed.
Lemma array_table_canonical : forallb elem_ok array_methods = true.
Proof. vm_compute. reflexivity. Qed.
Lemma fields_cases_canonical : forallb fcase_ok fields_cases = true.
Proof. vm_compute. reflexivity. Qed.

Lemma event_regular_complete : list_eqb_s (keyprim_names event_methods) event_regular = true.
Proof. vm_compute. reflexivity. Qed.
Lemma context_regular_complete : list_eqb_s (keyprim_names context_methods) context_regular = true.
Proof. vm_compute. reflexivity. Qed.
Lemma array_regular_complete : list_eqb_s (keyprim_names array_methods) array_regular = true.
Proof. vm_compute. reflexivity. Qed.
Lemma fields_simple_complete : list_eqb_s simple_case_types fields_simple_types = true.
Proof. vm_compute. reflexivity. Qed.
