(* log.go's Level.String and ParseLevel, re-translated by srcgen on every run (Gen/LevelSrc.v), are the model's level
   texts (Misc/Level.v, Misc/LevelNames.v).  The Level*Value package variables and the installed LevelFieldMarshalFunc
   are parameters of the translation (their current values / the installed function, assumed pure and total);
   strings.EqualFold is the ASCII contract of Enc/GoStd.v, strconv.Atoi the decimal reading of Base/Decimal.v. *)
From Verif Require Import Base.Prelude Base.Decimal Base.GoSem Base.GoEff Enc.JsonEnc Enc.GoStd Misc.Level Misc.LevelNames Gen.LevelSrc.
Open Scope Z_scope.

Lemma equal_fold_std a b : strings_EqualFold a b = equal_fold a b.
Proof. reflexivity. Qed.

(* Level.String under any values of the seven Level*Value variables: the naming whose NoLevel text is "" and whose
   Disabled text is "disabled" *)
Definition naming_of (t d i w e f p : list N) : naming :=
  {| n_trace := t; n_debug := d; n_info := i; n_warn := w; n_error := e; n_fatal := f; n_panic := p;
     n_nolevel := []; n_disabled := s_disabled |}.

Theorem String_src t d i w e f p l :
  LevelSrc.String t d i w e f p l = Ok (naming_mf (naming_of t d i w e f p) l).
Proof.
  unfold LevelSrc.String, naming_mf, naming_of. cbv zeta.
  cbn [n_trace n_debug n_info n_warn n_error n_fatal n_panic n_nolevel n_disabled].
  repeat match goal with |- context [if (l =? ?c) then _ else _] => destruct (l =? c); [reflexivity|] end.
  reflexivity.
Qed.

Theorem String_default_src l :
  LevelSrc.String s_trace s_debug s_info s_warn s_error s_fatal s_panic l = Ok (level_string l).
Proof.
  rewrite String_src. unfold naming_mf, naming_of, level_string.
  cbn [n_trace n_debug n_info n_warn n_error n_fatal n_panic n_nolevel n_disabled]. reflexivity.
Qed.

Definition fmtUnknown : list N :=
  [85;110;107;110;111;119;110;32;76;101;118;101;108;32;83;116;114;105;110;103;58;32;39;37;115;39;44;32;100;101;102;97;117;108;116;105;110;103;32;116;111;32;78;111;76;101;118;101;108]%N.
Definition fmtRange : list N :=
  [79;117;116;45;79;102;45;66;111;117;110;100;115;32;76;101;118;101;108;58;32;39;37;100;39;44;32;100;101;102;97;117;108;116;105;110;103;32;116;111;32;78;111;76;101;118;101;108]%N.

Definition result_of (r : parse_result) : Z * goerr :=
  match r with
  | POk l => (l, None)
  | PErrUnknown => (6, Some (ErrFmt fmtUnknown))
  | PErrRange => (6, Some (ErrFmt fmtRange))
  end.

(* ParseLevel under ANY installed LevelFieldMarshalFunc *)
Theorem ParseLevel_src (mf : Z -> list N) s :
  LevelSrc.ParseLevel mf s = Ok (result_of (parse_level_with mf s)).
Proof.
  unfold LevelSrc.ParseLevel, parse_level_with. change strings_EqualFold with equal_fold.
  change TraceLevel with (-1). change DebugLevel with 0. change InfoLevel with 1. change WarnLevel with 2.
  change ErrorLevel with 3. change FatalLevel with 4. change PanicLevel with 5. change Disabled with 7. change NoLevel with 6.
  repeat match goal with |- context [if equal_fold s ?x then _ else _] => destruct (equal_fold s x); [reflexivity|] end.
  unfold strconv_Atoi. destruct (parse_Z s) as [i|]; [|reflexivity].
  rewrite !Z.gtb_ltb.
  destruct (9223372036854775807 <? i) eqn:E1; cbn [orb].
  { reflexivity. }
  destruct (i <? -9223372036854775808) eqn:E2; cbn [orb].
  { reflexivity. }
  cbn [err_isnil negb]. destruct ((127 <? i) || (i <? -128)) eqn:E3; [reflexivity|].
  cbn [result_of]. rewrite (wraps_id 8 i) by lia. reflexivity.
Qed.

Lemma level_counts : length LevelSrc.translated_functions = 2%nat /\ length LevelSrc.skipped_functions = 0%nat.
Proof. split; reflexivity. Qed.
