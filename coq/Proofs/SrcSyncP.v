(* writer.go: syncWriter's Write, WriteLevel and Close, re-translated by srcgen on every run (Gen/SyncSrc.v).
   The mutex bracket `s.mu.Lock(); defer s.mu.Unlock()` at the head of each method is dropped by the translation (that
   every method has it is lockgen's obligation, C06_syncwriter_bracket_in_source; what the bracket buys over all
   schedules is C06_syncwriter_exclusive / C06_syncwriter_live_after_panic).  What remains is what ONE call does to the
   wrapped writer: the wrapped LevelWriter is opaque (Base/GoExt.v), calls on it are logged and answered by the
   environment ([ans k] = the answer to the k-th external call). *)
From Verif Require Import Base.Prelude Base.GoSem Base.GoEff Base.GoExt Gen.SyncSrc.
Open Scope Z_scope.

Definition fLw : list N := [108;119]%N.                                   (* lw *)
Definition mWrite : list N := [87;114;105;116;101]%N.                      (* Write *)
Definition mWriteLevel : list N := [87;114;105;116;101;76;101;118;101;108]%N.  (* WriteLevel *)
Definition mClose : list N := [67;108;111;115;101]%N.                      (* Close *)

(* the answer of the environment to the next call, read as (int, error) *)
Definition answer (ans : nat -> oval) (s : syncWriter_st) : Z * goerr :=
  let o := ans (length (syncWriter_calls s)) in (oval_int (oval_fst o), oval_err (oval_snd o)).

(* WriteLevel: exactly one call of the wrapped writer, WriteLevel with the same level and the same bytes; its answer is
   returned unchanged; nothing else of the receiver changes *)
Theorem WriteLevel_src (ans : nat -> oval) s l p :
  SyncSrc.WriteLevel ans s l p =
  Ok (answer ans s, set_syncWriter_calls s (syncWriter_calls s ++ [OCall fLw mWriteLevel [OVInt l; OVBytes p]])).
Proof. reflexivity. Qed.

(* Write: exactly one call, Write with the same bytes *)
Theorem Write_src (ans : nat -> oval) s p :
  SyncSrc.Write ans s p =
  Ok (answer ans s, set_syncWriter_calls s (syncWriter_calls s ++ [OCall fLw mWrite [OVBytes p]])).
Proof. reflexivity. Qed.

(* Close: forwarded exactly when the wrapped writer is an io.Closer, and then its error is returned; otherwise nil and
   no call *)
Theorem Close_src (ans : nat -> oval) s :
  SyncSrc.Close ans s =
  if syncWriter_lw_is_Closer s
  then Ok (oval_err (ans (length (syncWriter_calls s))), set_syncWriter_calls s (syncWriter_calls s ++ [OCall fLw mClose []]))
  else Ok (None, s).
Proof. unfold SyncSrc.Close. destruct (syncWriter_lw_is_Closer s); reflexivity. Qed.

(* a history of n events through one SyncWriter, one after the other (which is what the mutex makes of any concurrent
   history: C06_syncwriter_exclusive): the wrapped writer sees exactly those events, in that order, one call each *)
Fixpoint write_levels (ans : nat -> oval) (s : syncWriter_st) (evs : list (Z * list N)) : res (list (Z * goerr) * syncWriter_st) :=
  match evs with
  | [] => Ok ([], s)
  | (l, p) :: t =>
      bind (SyncSrc.WriteLevel ans s l p) (fun '(r, s1) =>
      bind (write_levels ans s1 t) (fun '(rs, s2) => Ok (r :: rs, s2)))
  end.

Theorem write_levels_src (ans : nat -> oval) : forall evs s,
  exists rs s', write_levels ans s evs = Ok (rs, s') /\
    syncWriter_calls s' = syncWriter_calls s ++ map (fun '(l, p) => OCall fLw mWriteLevel [OVInt l; OVBytes p]) evs /\
    length rs = length evs /\
    syncWriter_lw s' = syncWriter_lw s /\ syncWriter_lw_is_Closer s' = syncWriter_lw_is_Closer s.
Proof.
  intros evs; induction evs as [|[l p] t IH]; intros s; cbn [write_levels map].
  - exists [], s. rewrite app_nil_r. repeat split; reflexivity.
  - rewrite WriteLevel_src. cbn [bind].
    destruct (IH (set_syncWriter_calls s (syncWriter_calls s ++ [OCall fLw mWriteLevel [OVInt l; OVBytes p]]))) as (rs & s' & E & C & L & W & K).
    rewrite E. cbn [bind]. exists (answer ans s :: rs), s'. split; [reflexivity|].
    cbn [syncWriter_calls set_syncWriter_calls syncWriter_lw syncWriter_lw_is_Closer] in C, W, K.
    rewrite C, <- app_assoc. cbn [app length]. repeat split; auto.
Qed.

Lemma sync_counts : length SyncSrc.translated_functions = 3%nat /\ length SyncSrc.skipped_functions = 0%nat.
Proof. split; reflexivity. Qed.
