(* Pool balance: every chain, enabled or filtered, gives back exactly what it
   took, in a well-nested way; hence a warm pool serves it without allocating
   and is left with the same number of objects. *)
From Verif Require Import Base.Prelude Enc.JsonEnc Api.Exec Heap.Pool.

Inductive Bal : list pev -> Prop :=
| Bal_nil : Bal []
| Bal_app a b : Bal a -> Bal b -> Bal (a ++ b)
| Bal_E t : Bal t -> Bal ([GetE] ++ t ++ [PutE])
| Bal_A t : Bal t -> Bal ([GetA] ++ t ++ [PutA]).

Lemma Bal_flat_map {A} (f : A -> list pev) l : (forall x, In x l -> Bal (f x)) -> Bal (flat_map f l).
Proof.
  induction l as [|x l IH]; intros H; cbn [flat_map]; [constructor|].
  apply Bal_app; [apply H; left; auto|apply IH; intros; apply H; right; auto].
Qed.

Section Tr.
  Variable tr : op -> list pev.
  Hypothesis Htr : forall o, Bal (tr o).

  Lemma tr_list_bal l : Bal (tr_list tr l).
  Proof. apply Bal_flat_map; auto. Qed.
  Lemma helper_bal fs : Bal (helper tr fs).
  Proof. unfold helper. apply Bal_E. apply tr_list_bal. Qed.
  Lemma errv_tr_bal x : Bal (errv_tr tr x).
  Proof. destruct x; cbn [errv_tr]; try apply Bal_nil. apply helper_bal. Qed.
  Lemma arr_tr_bal o : Bal (arr_tr tr o).
  Proof. destruct o; cbn [arr_tr]; try apply Bal_nil; try apply helper_bal. apply errv_tr_bal. Qed.
  Lemma field_tr_bal kv : Bal (field_tr tr kv).
  Proof.
    destruct kv as [[k|] v]; cbn [field_tr]; [|apply Bal_nil]. destruct v; try apply Bal_nil.
    - apply helper_bal.
    - apply errv_tr_bal.
    - apply Bal_flat_map; intros; apply errv_tr_bal.
  Qed.
  Lemma same_event_bal x : Bal (same_event tr x).
  Proof. destruct x; cbn [same_event]; try apply Bal_nil. apply tr_list_bal. Qed.

  Lemma tr_body_bal o : Bal (tr_body tr o).
  Proof.
    destruct o as [key p|key fs|key es|key o|o|kvs|key x|x stk|key es| |fs|t|r|id| |p|fs|fs|x]; cbn [tr_body]; try apply Bal_nil.
    - apply helper_bal.
    - apply Bal_A. apply Bal_flat_map; intros; apply arr_tr_bal.
    - destruct o; [apply tr_list_bal|apply Bal_nil].
    - destruct o; [apply tr_list_bal|apply Bal_nil].
    - apply Bal_flat_map; intros; apply field_tr_bal.
    - apply same_event_bal.
    - apply Bal_app; apply same_event_bal.
    - apply Bal_A. apply Bal_flat_map; intros; apply errv_tr_bal.
    - apply tr_list_bal.
  Qed.

  Lemma tr_nil_bal o : Bal (tr_nil tr o).
  Proof.
    destruct o; cbn [tr_nil]; try apply Bal_nil.
    - apply helper_bal.
    - apply Bal_A. apply Bal_flat_map; intros; apply arr_tr_bal.
  Qed.
End Tr.

Lemma tr_n_bal n : forall o, Bal (tr_n n o).
Proof. induction n as [|n IH]; intros o; cbn [tr_n]; [apply Bal_nil|apply tr_body_bal; auto]. Qed.

(* every complete chain on an enabled event, with any hooks, is balanced *)
Lemma chain_trace_bal n ops hooks : Bal (chain_trace n ops hooks).
Proof.
  unfold chain_trace.
  replace ([GetE] ++ tr_list (tr_n n) ops ++ flat_map (tr_list (tr_n n)) hooks ++ [PutE])
    with ([GetE] ++ (tr_list (tr_n n) ops ++ flat_map (tr_list (tr_n n)) hooks) ++ [PutE])
    by (rewrite <- !app_assoc; reflexivity).
  apply Bal_E. apply Bal_app.
  - apply tr_list_bal, tr_n_bal.
  - apply Bal_flat_map. intros; apply tr_list_bal, tr_n_bal.
Qed.

(* and so is the same call chain on a filtered (nil) event *)
Lemma nil_chain_trace_bal n ops : Bal (nil_chain_trace n ops).
Proof. unfold nil_chain_trace. apply Bal_flat_map. intros; apply tr_nil_bal, tr_n_bal. Qed.

(* a balanced trace served by a sufficiently warm pool never misses and leaves
   the pool levels exactly as they were *)
Lemma run_pool_app a b lv : run_pool (a ++ b) lv = match run_pool a lv with Some lv' => run_pool b lv' | None => None end.
Proof.
  revert lv. induction a as [|x a IH]; intros [e r]; cbn [app run_pool]; auto.
  destruct x; cbn [fst snd].
  - destruct (e =? 0)%N; auto.
  - auto.
  - destruct (r =? 0)%N; auto.
  - auto.
Qed.

Lemma bal_served t : Bal t -> forall e a, (N.of_nat (length t) <= e)%N -> (N.of_nat (length t) <= a)%N ->
  run_pool t (e, a) = Some (e, a).
Proof.
  induction 1 as [|x y Hx IHx Hy IHy|t Ht IH|t Ht IH]; intros e a He Ha.
  - reflexivity.
  - rewrite app_length in *. rewrite run_pool_app. rewrite IHx by lia. apply IHy; lia.
  - rewrite !app_length in *. cbn [length] in *. cbn [app run_pool fst snd].
    replace (e =? 0)%N with false by lia.
    rewrite run_pool_app. rewrite IH by lia. cbn [run_pool fst snd]. f_equal. f_equal. lia.
  - rewrite !app_length in *. cbn [length] in *. cbn [app run_pool fst snd].
    replace (a =? 0)%N with false by lia.
    rewrite run_pool_app. rewrite IH by lia. cbn [run_pool fst snd]. f_equal. f_equal. lia.
Qed.

(* counts: as many Puts as Gets, per pool *)
Definition count (x : pev) (t : list pev) : nat :=
  length (filter (fun y => match x, y with GetE, GetE | PutE, PutE | GetA, GetA | PutA, PutA => true | _, _ => false end) t).

Lemma count_app x a b : count x (a ++ b) = (count x a + count x b)%nat.
Proof. unfold count. rewrite filter_app, app_length. reflexivity. Qed.

Lemma bal_counts t : Bal t -> count GetE t = count PutE t /\ count GetA t = count PutA t.
Proof.
  induction 1 as [|x y Hx [IHx1 IHx2] Hy [IHy1 IHy2]|t Ht [IH1 IH2]|t Ht [IH1 IH2]].
  - split; reflexivity.
  - rewrite !count_app. lia.
  - rewrite !count_app. cbn. lia.
  - rewrite !count_app. cbn. lia.
Qed.
