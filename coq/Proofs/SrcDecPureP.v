(* The pure functions of the CBOR decoder: the hand-written model
   (Enc/CborDec.v: esc_json, appendQuotedJSON, binaryFmt) is equal to the
   translation of internal/cbor/decode_stream.go (Gen/DecSrc.v:
   decodeStringComplex, appendQuotedJSON, binaryFmt).

   Route: the decoder's escaper model [esc_json] is the JSON encoder's
   escaper model [esc_body] (same function, different names for the parts),
   so the fuel-normalised escaper [SrcJsonP.escF] and its unfolding lemma
   serve both; the loop invariant of decodeStringComplex is the one of
   internal/json's appendStringComplex (Proofs/SrcJsonP.v):
     dst' ++ s[start':] = dst ++ s[start:i] ++ esc (s[i:]).
   No [bytes_ok] premise: the only table lookups are hexTable[b>>4] and
   hexTable[b&0xF] for b < 128. *)
From Verif Require Import Base.Prelude Base.Decimal Base.Utf8 Enc.JsonEnc Enc.CborDec Base.GoSem Enc.GoStd Gen.DecSrc.
From Verif Require Proofs.SrcJsonP.
Open Scope Z_scope.

(* ---------- the two models of utf8.DecodeRune and of the escaper agree ---------- *)
Lemma go_decode_size_rune s :
  go_decode_size s = match go_decode_rune s with Some (_, n) => Some n | None => None end.
Proof.
  unfold go_decode_size, go_decode_rune, in_rng, JsonEnc.inr. destruct s as [|b0 t]; [reflexivity|].
  destruct (b0 <? 128)%N; [reflexivity|].
  destruct ((194 <=? b0)%N && (b0 <=? 223)%N).
  { destruct t as [|b1 t]; [reflexivity|]. destruct ((128 <=? b1)%N && (b1 <=? 191)%N); reflexivity. }
  destruct ((224 <=? b0)%N && (b0 <=? 239)%N).
  { destruct t as [|b1 [|b2 t]]; try reflexivity. destruct (_ && _); reflexivity. }
  destruct ((240 <=? b0)%N && (b0 <=? 244)%N); [|reflexivity].
  destruct t as [|b1 [|b2 [|b3 t]]]; try reflexivity. destruct (_ && _); reflexivity.
Qed.

Lemma plain_no_escape b : plain_byte b = no_escape b.
Proof. unfold plain_byte, no_escape. destruct (b <=? 126)%N; destruct (32 <=? b)%N; reflexivity. Qed.

Lemma esc1_esc_byte b : esc1 b = esc_byte b.
Proof. reflexivity. Qed.

Lemma esc_json_body f : forall s, esc_json f s = esc_body f s.
Proof.
  induction f as [|f IH]; intros s; cbn [esc_json esc_body]; [reflexivity|]. destruct s as [|b t]; [reflexivity|].
  rewrite go_decode_size_rune. destruct (128 <=? b)%N.
  - destruct (go_decode_rune (b :: t)) as [[c n]|]; rewrite IH; reflexivity.
  - rewrite IH, plain_no_escape. destruct (no_escape b); reflexivity.
Qed.

(* fuel irrelevance: any fuel covering the length gives the fuel-normalised escaper *)
Lemma esc_json_enough f s : (length s <= f)%nat -> esc_json f s = SrcJsonP.escF s.
Proof. intros H. rewrite esc_json_body. apply SrcJsonP.esc_body_enough. exact H. Qed.

(* ---------- int <-> uint conversions in range ---------- *)
Lemma n2z64_id n : Z.of_N n < 2 ^ 63 -> n2z 64 n = Z.of_N n.
Proof. intros H. unfold n2z. apply wraps64_id. lia. Qed.

Lemma z2n64_id i : 0 <= i < 2 ^ 64 -> z2n 64 i = Z.to_N i.
Proof. intros H. unfold z2n. change (Z.of_N 64) with 64. rewrite Z.mod_small by lia. reflexivity. Qed.

(* ---------- decodeStringComplex: the loop invariant ---------- *)
Lemma dec_complex_loop : forall fuel s dst i start,
  len s < 2 ^ 62 ->
  0 <= start <= i -> i <= len s -> (Z.to_nat (len s - i) < fuel)%nat ->
  exists dst' start', decodeStringComplex_loop1 fuel s dst i start = Ok (LExit (dst', len s, start'))
     /\ 0 <= start' <= len s
     /\ dst' ++ slice s start' (len s) = dst ++ slice s start i ++ SrcJsonP.escF (skipn (Z.to_nat i) s).
Proof.
  induction fuel as [|fuel IH]; intros s dst i start Hl Hst Hi Hf; [lia|].
  cbn [decodeStringComplex_loop1].
  destruct (i <? len s) eqn:Ei.
  2:{ assert (Hil : i = len s) by lia. subst i. exists dst, start. split; [reflexivity|]. split; [lia|].
      unfold len. rewrite Nat2Z.id, skipn_all. rewrite SrcJsonP.escF_nil, app_nil_r. reflexivity. }
  rewrite inb_true by lia. rewrite guard_true.
  pose proof (skipn_idx 0%N s i ltac:(lia)) as Hsk.
  set (b := idx 0%N s i) in *.
  destruct (128 <=? b)%N eqn:E80.
  - rewrite slice_ok_true by lia. rewrite guard_true. rewrite slice_from by lia. rewrite Hsk.
    unfold utf8_DecodeRune.
    destruct (go_decode_rune (b :: skipn (Z.to_nat (i + 1)) s)) as [[c n]|] eqn:D.
    + assert (Hb80 : (0x80 <= b)%N) by lia. pose proof (SrcJsonP.decode_multibyte b _ c n Hb80 D) as Hn.
      rewrite <- Hsk in Hn. pose proof (SrcJsonP.skipn_len s i ltac:(lia)) as Hlen. unfold len in Hlen at 1.
      replace ((Z.of_N c =? 65533) && (Z.of_nat n =? 1)) with false by lia.
      cbv zeta. rewrite wraps64_id by lia.
      destruct (IH s dst (i + Z.of_nat n) start Hl ltac:(lia) ltac:(lia) ltac:(lia)) as (d' & s' & E & Hr & Heq).
      exists d', s'. split; [exact E|]. split; [exact Hr|]. rewrite Heq.
      rewrite SrcJsonP.escF_cons, E80, D, <- Hsk.
      rewrite (slice_split s start i (i + Z.of_nat n)) by lia. rewrite slice_firstn by lia.
      rewrite <- !app_assoc. do 3 f_equal. rewrite skipn_plus. do 2 f_equal. lia.
    + cbv zeta. change ((65533 =? 65533) && (1 =? 1)) with true. cbv iota.
      rewrite !wraps64_id by lia.
      destruct (start <? i) eqn:Esi.
      * rewrite slice_ok_true by lia. rewrite guard_true.
        destruct (IH s ((dst ++ slice s start i) ++ ufffd) (i + 1) (i + 1) Hl ltac:(lia) ltac:(lia) ltac:(lia)) as (d' & s' & E & Hr & Heq).
        exists d', s'. split; [exact E|]. split; [exact Hr|]. rewrite Heq.
        rewrite SrcJsonP.escF_cons, E80, D, slice_empty. cbn [app]. rewrite <- !app_assoc. reflexivity.
      * assert (Hsi : start = i) by lia. subst start.
        destruct (IH s (dst ++ ufffd) (i + 1) (i + 1) Hl ltac:(lia) ltac:(lia) ltac:(lia)) as (d' & s' & E & Hr & Heq).
        exists d', s'. split; [exact E|]. split; [exact Hr|]. rewrite Heq.
        rewrite SrcJsonP.escF_cons, E80, D, !slice_empty. cbn [app]. rewrite <- !app_assoc. reflexivity.
  - assert (Hb128 : (b < 128)%N) by lia.
    change ((((32 <=? b)%N && (b <=? 126)%N) && negb (b =? 92)%N) && negb (b =? 34)%N) with (plain_byte b).
    rewrite plain_no_escape.
    destruct (no_escape b) eqn:En.
    + cbv zeta. rewrite wraps64_id by lia.
      destruct (IH s dst (i + 1) start Hl ltac:(lia) ltac:(lia) ltac:(lia)) as (d' & s' & E & Hr & Heq).
      exists d', s'. split; [exact E|]. split; [exact Hr|]. rewrite Heq.
      rewrite Hsk. rewrite SrcJsonP.escF_cons, E80, En. rewrite (slice_snoc 0%N) by lia. fold b.
      rewrite <- !app_assoc. reflexivity.
    + cbv zeta. rewrite !wraps64_id by lia.
      change [48%N; 49%N; 50%N; 51%N; 52%N; 53%N; 54%N; 55%N; 56%N; 57%N; 97%N; 98%N; 99%N; 100%N; 101%N; 102%N] with SrcJsonP.hex_str.
      rewrite !SrcJsonP.shr4, !SrcJsonP.land15.
      assert (H16a : (b / 16 < 16)%N) by (apply N.div_lt_upper_bound; lia).
      assert (H16b : (b mod 16 < 16)%N) by (apply N.mod_lt; lia).
      rewrite !(inb_true SrcJsonP.hex_str) by (change (len SrcJsonP.hex_str) with 16; lia). rewrite !guard_true.
      rewrite !SrcJsonP.hex_idx by assumption.
      assert (Hgoal : forall X, X = dst ++ slice s start i -> forall tail, tail = esc_byte b ->
                exists dst' start', decodeStringComplex_loop1 fuel s (X ++ tail) (i + 1) (i + 1) = Ok (LExit (dst', len s, start')) /\
                  0 <= start' <= len s /\ dst' ++ slice s start' (len s) = dst ++ slice s start i ++ SrcJsonP.escF (skipn (Z.to_nat i) s)).
      { intros X HX tail Ht.
        destruct (IH s (X ++ tail) (i + 1) (i + 1) Hl ltac:(lia) ltac:(lia) ltac:(lia)) as (d' & s' & E & Hr & Heq).
        exists d', s'. split; [exact E|]. split; [exact Hr|]. rewrite Heq.
        rewrite Hsk, SrcJsonP.escF_cons, E80, En, slice_empty, Ht. subst X. rewrite <- !app_assoc. reflexivity. }
      unfold esc_byte in Hgoal.
      destruct (start <? i) eqn:Esi.
      * rewrite slice_ok_true by lia. rewrite guard_true.
        destruct ((b =? 34)%N || (b =? 92)%N) eqn:C1; [apply Hgoal; reflexivity|].
        destruct (b =? 8)%N eqn:C2; [apply Hgoal; reflexivity|].
        destruct (b =? 12)%N eqn:C3; [apply Hgoal; reflexivity|].
        destruct (b =? 10)%N eqn:C4; [apply Hgoal; reflexivity|].
        destruct (b =? 13)%N eqn:C5; [apply Hgoal; reflexivity|].
        destruct (b =? 9)%N eqn:C6; [apply Hgoal; reflexivity|].
        apply Hgoal; reflexivity.
      * assert (Hsi : start = i) by lia. subst start. rewrite !slice_empty in Hgoal |- *.
        destruct ((b =? 34)%N || (b =? 92)%N) eqn:C1; [apply Hgoal; [now rewrite app_nil_r|reflexivity]|].
        destruct (b =? 8)%N eqn:C2; [apply Hgoal; [now rewrite app_nil_r|reflexivity]|].
        destruct (b =? 12)%N eqn:C3; [apply Hgoal; [now rewrite app_nil_r|reflexivity]|].
        destruct (b =? 10)%N eqn:C4; [apply Hgoal; [now rewrite app_nil_r|reflexivity]|].
        destruct (b =? 13)%N eqn:C5; [apply Hgoal; [now rewrite app_nil_r|reflexivity]|].
        destruct (b =? 9)%N eqn:C6; [apply Hgoal; [now rewrite app_nil_r|reflexivity]|].
        apply Hgoal; [now rewrite app_nil_r|reflexivity].
Qed.

(* the function, with the fuel-normalised escaper and a Z position *)
Lemma decodeStringComplex_ok dst s pos : len s < 2 ^ 62 -> Z.of_N pos <= len s ->
  DecSrc.decodeStringComplex dst s pos =
    Ok (dst ++ slice s 0 (Z.of_N pos) ++ SrcJsonP.escF (skipn (Z.to_nat (Z.of_N pos)) s)).
Proof.
  intros Hl Hp. unfold DecSrc.decodeStringComplex. cbv zeta. rewrite n2z64_id by lia.
  destruct (dec_complex_loop (S (Z.to_nat (len s - Z.of_N pos + 1))) s dst (Z.of_N pos) 0 Hl ltac:(lia) ltac:(lia) ltac:(lia))
    as (d' & s' & E & Hr & Heq).
  rewrite E. cbn [lbind]. destruct (s' <? len s) eqn:Es.
  - rewrite slice_ok_true by lia. rewrite guard_true. rewrite Heq. reflexivity.
  - assert (Hs' : s' = len s) by lia. subst s'. rewrite slice_empty, app_nil_r in Heq. rewrite Heq. reflexivity.
Qed.

Theorem decodeStringComplex_src : forall dst s pos, len s < 2 ^ 62 -> Z.of_N pos <= len s ->
  DecSrc.decodeStringComplex dst s pos =
    Ok (dst ++ slice s 0 (Z.of_N pos) ++ esc_json (length s) (skipn (N.to_nat pos) s)).
Proof.
  intros dst s pos Hl Hp. rewrite decodeStringComplex_ok by assumption.
  replace (Z.to_nat (Z.of_N pos)) with (N.to_nat pos) by lia. rewrite esc_json_enough; [reflexivity|]. rewrite skipn_length. lia.
Qed.

(* ---------- appendQuotedJSON: the scanning loop ---------- *)
Lemma dec_scan_loop : forall fuel pbs i,
  len pbs < 2 ^ 62 -> 0 <= i <= len pbs ->
  SrcJsonP.escF pbs = slice pbs 0 i ++ SrcJsonP.escF (skipn (Z.to_nat i) pbs) ->
  (Z.to_nat (len pbs - i) < fuel)%nat ->
  lbind (appendQuotedJSON_loop1 fuel pbs (len pbs) i) (fun _ => Ok (([34%N] ++ pbs) ++ [34%N]))
    = Ok (34%N :: SrcJsonP.escF pbs ++ [34%N]).
Proof.
  induction fuel as [|fuel IH]; intros pbs i Hl Hi HP Hf; [lia|].
  cbn [appendQuotedJSON_loop1].
  destruct (i <? len pbs) eqn:Ei.
  2:{ assert (Hil : i = len pbs) by lia. subst i. cbn [lbind]. rewrite HP. rewrite slice_full.
      unfold len. rewrite Nat2Z.id, skipn_all, SrcJsonP.escF_nil, app_nil_r. reflexivity. }
  rewrite !(inb_true pbs i) by lia. rewrite !Bool.orb_true_r. rewrite !guard_true.
  pose proof (skipn_idx 0%N pbs i ltac:(lia)) as Hsk.
  set (b := idx 0%N pbs i) in *.
  destruct (no_escape b) eqn:En.
  - replace ((((b <? 32)%N || (126 <? b)%N) || (b =? 92)%N) || (b =? 34)%N) with false by (unfold no_escape in En; lia).
    cbv zeta. rewrite wraps64_id by lia. apply IH; auto; try lia.
    rewrite HP, Hsk, SrcJsonP.escF_cons. pose proof (SrcJsonP.no_escape_lt b En) as Hlt.
    replace (0x80 <=? b)%N with false by lia. rewrite En.
    rewrite (slice_snoc 0%N) by lia. fold b. rewrite <- app_assoc. reflexivity.
  - replace ((((b <? 32)%N || (126 <? b)%N) || (b =? 92)%N) || (b =? 34)%N) with true by (unfold no_escape in En; lia).
    cbv zeta. rewrite z2n64_id by lia.
    rewrite decodeStringComplex_ok by (rewrite ?Z2N.id; lia).
    rewrite Z2N.id by lia. cbn [bind lbind]. rewrite HP, <- !app_assoc. reflexivity.
Qed.

Theorem appendQuotedJSON_src : forall pbs, len pbs < 2 ^ 62 ->
  DecSrc.appendQuotedJSON pbs = Ok (CborDec.appendQuotedJSON pbs).
Proof.
  intros pbs Hl. unfold DecSrc.appendQuotedJSON. cbv zeta.
  pose proof (dec_scan_loop (S (Z.to_nat (len pbs - 0 + 1))) pbs 0 Hl ltac:(pose proof (len_nonneg pbs); lia)) as H.
  rewrite slice_empty in H. specialize (H eq_refl ltac:(lia)).
  etransitivity; [exact H|].
  unfold CborDec.appendQuotedJSON. rewrite esc_json_enough by lia. reflexivity.
Qed.

(* ---------- binaryFmt ---------- *)
Theorem binaryFmt_src : forall p, DecSrc.binaryFmt p = Ok (CborDec.binaryFmt p).
Proof.
  intros p. destruct p as [|b t]; [reflexivity|].
  unfold DecSrc.binaryFmt, CborDec.binaryFmt.
  pose proof (len_nonneg t) as Ht.
  rewrite (inb_true (b :: t) 0) by (rewrite len_cons; lia).
  rewrite Bool.orb_true_r, guard_true. rewrite len_cons.
  replace (0 <? 1 + len t) with true by lia.
  change (idx 0%N (b :: t) 0) with b. cbn [andb].
  destruct (127 <? b)%N; reflexivity.
Qed.

Print Assumptions go_decode_size_rune.
Print Assumptions decodeStringComplex_src.
Print Assumptions binaryFmt_src.
Print Assumptions appendQuotedJSON_src.
