(* Lemmas about Lts/Diode.v.  Property theorems (Properties/C10.v, C11.v) are
   closed by [exact] from the lemmas here. *)
From Verif Require Import Base.Prelude Lts.Diode.
From Coq Require Import Permutation Sorted.
Open Scope N_scope.

(* ------------------------------------------------------------------ *)
(* lists                                                               *)
(* ------------------------------------------------------------------ *)
Lemma nth_upd_eq {A} (l : list A) i x d : (i < length l)%nat -> nth i (upd l i x) d = x.
Proof. revert i; induction l as [|h t IH]; intros [|i] H; cbn in *; try lia; auto. apply IH; lia. Qed.

Lemma nth_upd_neq {A} (l : list A) i j x d : i <> j -> nth j (upd l i x) d = nth j l d.
Proof. revert i j; induction l as [|h t IH]; intros [|i] [|j] H; cbn; auto; try congruence. Qed.

Lemma nth_upd {A} (l : list A) i j x d :
  nth j (upd l i x) d = if Nat.eqb i j then (if Nat.ltb i (length l) then x else nth j l d) else nth j l d.
Proof.
  destruct (Nat.eqb_spec i j) as [->|Hn].
  - destruct (Nat.ltb_spec j (length l)).
    + apply nth_upd_eq; auto.
    + rewrite !nth_overflow; auto. rewrite upd_length; auto.
  - apply nth_upd_neq; auto.
Qed.

Lemma upd_overflow {A} (l : list A) i x : (length l <= i)%nat -> upd l i x = l.
Proof. revert i; induction l as [|h t IH]; intros [|i] H; cbn in *; auto; try lia. f_equal. apply IH; lia. Qed.

Lemma In_upd {A} (l : list A) i x y : In y (upd l i x) -> y = x \/ In y l.
Proof.
  revert i; induction l as [|h t IH]; intros [|i]; cbn; auto.
  - intros [->|H]; auto.
  - intros [->|H]; auto. apply IH in H as [->|H]; auto.
Qed.

Lemma upd_split {A} (l : list A) i x d : (i < length l)%nat ->
  exists a b, l = a ++ nth i l d :: b /\ upd l i x = a ++ x :: b /\ length a = i.
Proof.
  revert i; induction l as [|h t IH]; intros [|i] H; cbn in *; try lia.
  - exists [], t; auto.
  - destruct (IH i ltac:(lia)) as (a & b & E1 & E2 & E3).
    exists (h :: a), b. cbn. rewrite <- E1, E2. repeat split; auto.
Qed.

(* ------------------------------------------------------------------ *)
(* the invariant                                                       *)
(* ------------------------------------------------------------------ *)
Definition pending (x : pstate) : list N :=
  match x with PIdle todo => todo | PClaimed m todo _ => m :: todo | PLoaded m todo _ _ => m :: todo end.

Definition pwi_ok (c : N) (x : pstate) : Prop :=
  match x with
  | PIdle _ => True
  | PClaimed _ _ wi => wi < c
  | PLoaded _ _ wi old => wi < c /\ match old with Some (sq, _) => sq < c | None => True end
  end.

Record Inv (ps : list (list N)) (s : st) : Prop := {
  i_acc : ri s = N.of_nat (length (delivered s)) + sumN (alerts s);
  i_ri : ri s <= claims s;
  i_slots : forall i sq m, nth i (slots s) None = Some (sq, m) -> sq < claims s /\ In (sq, m) (returned s);
  i_prods : Forall (pwi_ok (claims s)) (prods s);
  i_sorted : StronglySorted N.lt (map fst (delivered s));
  i_below : Forall (fun b => fst b < ri s) (delivered s);
  i_del_ret : Forall (fun b => In b (returned s)) (delivered s);
  i_ret : Forall (fun b => fst b < claims s) (returned s);
  i_perm : Permutation (map snd (returned s) ++ concat (map pending (prods s))) (concat ps) }.

Lemma repeat_none_nth {A} n i (x : A) : nth i (repeat (@None A) n) None <> Some x.
Proof. revert i; induction n as [|n IH]; intros [|i]; cbn; try discriminate; auto. Qed.

Lemma init_inv n ps : Inv ps (init n ps).
Proof.
  constructor; cbn.
  - reflexivity.
  - lia.
  - intros j sq m H. exfalso. eapply repeat_none_nth; eauto.
  - induction ps; cbn; constructor; cbn; auto.
  - constructor.
  - constructor.
  - constructor.
  - constructor.
  - rewrite map_map. cbn. rewrite map_id. apply Permutation_refl.
Qed.

Lemma Forall_upd {A} (Q : A -> Prop) l i x : Forall Q l -> Q x -> Forall Q (upd l i x).
Proof.
  intros H Hx. apply Forall_forall. intros y Hy. apply In_upd in Hy as [->|Hy]; auto.
  eapply Forall_forall in H; eauto.
Qed.

Lemma nth_In_or_default {A} (l : list A) i d : nth i l d = d \/ In (nth i l d) l.
Proof. destruct (Nat.ltb_spec i (length l)); [right; apply nth_In; auto|left; apply nth_overflow; auto]. Qed.

Lemma pwi_nth c l p : Forall (pwi_ok c) l -> pwi_ok c (nth p l (PIdle [])).
Proof.
  intros H. destruct (nth_In_or_default l p (PIdle [])) as [E|E]; [rewrite E; cbn; auto|].
  eapply Forall_forall in H; eauto.
Qed.

Lemma pwi_mono c c' x : c <= c' -> pwi_ok c x -> pwi_ok c' x.
Proof. intros Hc. destruct x as [| |? ? ? [[? ?]|]]; cbn; intros; try lia. Qed.

Lemma concat_pending_upd l p x :
  (p < length l)%nat ->
  exists a b, concat (map pending l) = a ++ pending (nth p l (PIdle [])) ++ b /\
              concat (map pending (upd l p x)) = a ++ pending x ++ b.
Proof.
  intros H. destruct (upd_split l p x (PIdle []) H) as (a & b & E1 & E2 & _).
  exists (concat (map pending a)), (concat (map pending b)).
  rewrite E2. rewrite E1 at 1. rewrite !map_app, !concat_app. cbn. auto.
Qed.

Lemma sorted_snoc l x : StronglySorted N.lt l -> Forall (fun y => y < x) l -> StronglySorted N.lt (l ++ [x]).
Proof.
  induction 1 as [|a l Hs IH Ha]; intros Hf; cbn.
  - constructor; constructor.
  - inversion Hf; subst. constructor; auto. apply Forall_app; split; auto.
Qed.

(* a thread that is not in range or finished has no step *)
Lemma nth_default_range l p : nth p l (PIdle []) <> PIdle [] -> (p < length l)%nat.
Proof. intros H. destruct (Nat.ltb_spec p (length l)); auto. rewrite nth_overflow in H; auto. congruence. Qed.

Ltac step_cases s a :=
  unfold exec1, step; destruct a as [p|];
  [ unfold pstep; destruct (nth p (prods s) (PIdle [])) as [[|m todo]|m todo wi|m todo wi old] eqn:Ep;
    [ | | destruct (newer_test (size s) wi (slot_at s (wi mod size s))) eqn:En
      | destruct (beq (slot_at s (wi mod size s)) old) eqn:Eb ]
  | unfold cstep; destruct (nth (N.to_nat (ri s mod size s)) (slots s) None) as [[sq m]|] eqn:Es;
    [destruct (sq <? ri s) eqn:El|] ].

Lemma claims_mono1 s a : claims s <= claims (exec1 s a).
Proof. step_cases s a; cbn; lia. Qed.

Lemma claims_mono s sched : claims s <= claims (exec s sched).
Proof.
  revert s; induction sched as [|a t IH]; intros s; cbn; [lia|].
  etransitivity; [apply claims_mono1|apply IH].
Qed.

Lemma exec_app s a b : exec s (a ++ b) = exec (exec s a) b.
Proof. unfold exec. apply fold_left_app. Qed.

Lemma step_inv ps s a : Inv ps s -> claims (exec1 s a) < two64 -> Inv ps (exec1 s a).
Proof.
  intros I. pose proof (pwi_nth _ _ match a with P p => p | C => O end (i_prods _ _ I)) as Hp.
  revert Hp. step_cases s a; cbn [claims slots ri prods delivered alerts returned set_prod]; intros Hp Hc; auto.
  - (* add *)
    assert (Hr : (p < length (prods s))%nat) by (apply nth_default_range; rewrite Ep; discriminate).
    destruct I. constructor; cbn; auto; try lia.
    + intros i sq m' H. apply i_slots0 in H. split; [lia|tauto].
    + apply Forall_upd.
      * eapply Forall_impl; [|exact i_prods0]. intros x. apply pwi_mono. lia.
      * cbn. rewrite N.mod_small; lia.
    + eapply Forall_impl; [|exact i_ret0]. cbn. intros; lia.
    + destruct (concat_pending_upd (prods s) p (PClaimed m todo (claims s mod two64)) Hr) as (x & y & E1 & E2).
      rewrite E2. rewrite E1 in i_perm0. rewrite Ep in i_perm0. exact i_perm0.
  - (* load, newer-test fires *)
    assert (Hr : (p < length (prods s))%nat) by (apply nth_default_range; rewrite Ep; discriminate).
    destruct I. constructor; cbn; auto.
    + apply Forall_upd; cbn; auto.
    + destruct (concat_pending_upd (prods s) p (PIdle (m :: todo)) Hr) as (x & y & E1 & E2).
      rewrite E2. rewrite E1 in i_perm0. rewrite Ep in i_perm0. exact i_perm0.
  - (* load *)
    assert (Hr : (p < length (prods s))%nat) by (apply nth_default_range; rewrite Ep; discriminate).
    destruct I. constructor; cbn; auto.
    + apply Forall_upd; cbn; auto. cbn in Hp. split; auto.
      unfold slot_at. destruct (nth _ (slots s) None) as [[sq m']|] eqn:E; auto. apply i_slots0 in E. tauto.
    + destruct (concat_pending_upd (prods s) p (PLoaded m todo wi (slot_at s (wi mod size s))) Hr) as (x & y & E1 & E2).
      rewrite E2. rewrite E1 in i_perm0. rewrite Ep in i_perm0. exact i_perm0.
  - (* cas succeeds *)
    assert (Hr : (p < length (prods s))%nat) by (apply nth_default_range; rewrite Ep; discriminate).
    cbn in Hp. destruct Hp as [Hwi Hold].
    destruct I. constructor; cbn; auto.
    + intros i sq m' H. rewrite nth_upd in H.
      destruct (Nat.eqb _ i); [destruct (Nat.ltb _ _)|].
      * inversion H; subst. split; auto. apply in_or_app; right; left; auto.
      * apply i_slots0 in H. split; [tauto|]. apply in_or_app; left; tauto.
      * apply i_slots0 in H. split; [tauto|]. apply in_or_app; left; tauto.
    + apply Forall_upd; cbn; auto.
    + eapply Forall_impl; [|exact i_del_ret0]. cbn. intros b Hb. apply in_or_app; auto.
    + apply Forall_app; split; auto.
    + destruct (concat_pending_upd (prods s) p (PIdle todo) Hr) as (x & y & E1 & E2).
      rewrite E2. rewrite E1 in i_perm0. rewrite Ep in i_perm0. cbn [pending] in *.
      rewrite map_app. cbn [map snd]. rewrite <- app_assoc.
      etransitivity; [|exact i_perm0].
      apply Permutation_app_head. cbn [app]. apply Permutation_middle.
  - (* cas fails *)
    assert (Hr : (p < length (prods s))%nat) by (apply nth_default_range; rewrite Ep; discriminate).
    destruct I. constructor; cbn; auto.
    + apply Forall_upd; cbn; auto.
    + destruct (concat_pending_upd (prods s) p (PIdle (m :: todo)) Hr) as (x & y & E1 & E2).
      rewrite E2. rewrite E1 in i_perm0. rewrite Ep in i_perm0. exact i_perm0.
  - (* consumer: stale *)
    destruct I. constructor; cbn; auto.
    intros i sq' m' H. rewrite nth_upd in H.
    destruct (Nat.eqb _ i); [destruct (Nat.ltb _ _)|]; try discriminate; apply i_slots0 in H; auto.
  - (* consumer: deliver *)
    apply N.ltb_ge in El.
    destruct I. pose proof (i_slots0 _ _ _ Es) as [Hsq Hin].
    assert (Hm : (sq + 1) mod two64 = sq + 1) by (apply N.mod_small; lia).
    constructor; cbn [claims slots ri prods delivered alerts returned]; auto.
    + rewrite Hm. rewrite app_length. cbn [length].
      destruct (ri s <? sq) eqn:E2.
      * apply N.ltb_lt in E2. rewrite sumN_app.
        remember (sumN (alerts s)) as S0. remember (length (delivered s)) as L. clear - i_acc0 E2. lia.
      * apply N.ltb_ge in E2. lia.
    + rewrite Hm. lia.
    + intros i sq' m' H. rewrite nth_upd in H.
      destruct (Nat.eqb _ i); [destruct (Nat.ltb _ _)|]; try discriminate; apply i_slots0 in H; auto.
    + rewrite map_app. cbn. apply sorted_snoc; auto.
      apply Forall_forall. intros y Hy. apply in_map_iff in Hy as (b & <- & Hb).
      eapply Forall_forall in i_below0; eauto. cbn in i_below0. lia.
    + rewrite Hm. apply Forall_app; split.
      * eapply Forall_impl; [|exact i_below0]. cbn. intros; lia.
      * constructor; auto. cbn. lia.
    + apply Forall_app; split; auto.
Qed.

(* ------------------------------------------------------------------ *)
(* every reachable state satisfies the invariant                       *)
(* ------------------------------------------------------------------ *)
Lemma exec_inv ps s sched : Inv ps s -> claims (exec s sched) < two64 -> Inv ps (exec s sched).
Proof.
  induction sched as [|a t IH] using rev_ind; intros I Hc; [exact I|].
  rewrite exec_app in *. cbn [exec fold_left] in *.
  apply step_inv; auto. apply IH; auto.
  eapply N.le_lt_trans; [apply claims_mono1|exact Hc].
Qed.

Lemma run_inv n ps sched : claims (run n ps sched) < two64 -> Inv ps (run n ps sched).
Proof. apply exec_inv, init_inv. Qed.

(* ---- C11 accounting, C10 order, alert bound ---- *)
Lemma accounting n ps sched : let s := run n ps sched in
  claims s < two64 -> ri s = N.of_nat (length (delivered s)) + sumN (alerts s).
Proof. intros s H. apply (i_acc _ _ (run_inv _ _ _ H)). Qed.

Lemma order n ps sched : let s := run n ps sched in
  claims s < two64 -> StronglySorted N.lt (map fst (delivered s)).
Proof. intros s H. apply (i_sorted _ _ (run_inv _ _ _ H)). Qed.

Lemma alerts_bounded n ps sched : let s := run n ps sched in
  claims s < two64 -> N.of_nat (length (delivered s)) + sumN (alerts s) = ri s /\ ri s <= claims s.
Proof. intros s H. pose proof (run_inv _ _ _ H) as I. split; [symmetry; apply (i_acc _ _ I)|apply (i_ri _ _ I)]. Qed.

(* ---- delivered once, identical ---- *)
Lemma sorted_nodup l : StronglySorted N.lt l -> NoDup l.
Proof.
  induction 1 as [|a l Hs IH Ha]; constructor; auto.
  intros Hin. eapply Forall_forall in Ha; eauto. lia.
Qed.

Lemma nodup_map_inj {A B} (f : A -> B) l x y : NoDup (map f l) -> In x l -> In y l -> f x = f y -> x = y.
Proof.
  induction l as [|a l IH]; cbn; intros Hn Hx Hy E; [tauto|].
  inversion Hn as [|? ? Hna Hnl]; subst.
  destruct Hx as [->|Hx], Hy as [->|Hy]; auto.
  - exfalso. apply Hna. rewrite E. apply in_map; auto.
  - exfalso. apply Hna. rewrite <- E. apply in_map; auto.
Qed.

Lemma nodup_map_on {A B} (f : A -> B) l : NoDup l -> (forall x y, In x l -> In y l -> f x = f y -> x = y) -> NoDup (map f l).
Proof.
  induction 1 as [|a l Ha Hl IH]; cbn; intros Hinj; constructor.
  - intros Hin. apply in_map_iff in Hin as (b & E & Hb).
    assert (b = a) by (apply Hinj; auto). subst. auto.
  - apply IH. intros; apply Hinj; auto.
Qed.

Lemma nodup_of_map {A B} (f : A -> B) l : NoDup (map f l) -> NoDup l.
Proof.
  induction l as [|a l IH]; cbn; intros H; constructor; inversion H; subst; auto.
  intros Hin. apply H2. apply in_map; auto.
Qed.

Lemma nodup_app_l {A} (a b : list A) : NoDup (a ++ b) -> NoDup a.
Proof. induction a as [|x a IH]; cbn; intros H; constructor; inversion H; subst; auto. intros Hin. apply H2. apply in_or_app; auto. Qed.

Lemma delivered_once n ps sched : let s := run n ps sched in
  claims s < two64 ->
  NoDup (map fst (delivered s)) /\
  (forall b, In b (delivered s) -> In b (returned s)) /\
  (forall m, In m (map snd (returned s)) -> In m (concat ps)) /\
  (NoDup (concat ps) -> NoDup (map snd (returned s)) /\ NoDup (map snd (delivered s))).
Proof.
  intros s H. pose proof (run_inv _ _ _ H) as I. fold s in I.
  assert (Hd : NoDup (map fst (delivered s))) by (apply sorted_nodup, (i_sorted _ _ I)).
  assert (Hsub : forall b, In b (delivered s) -> In b (returned s)).
  { intros b Hb. pose proof (i_del_ret _ _ I) as F. eapply Forall_forall in F; eauto. }
  repeat split; auto.
  - intros m Hm. eapply Permutation_in; [apply (i_perm _ _ I)|]. apply in_or_app; auto.
  - eapply nodup_app_l. eapply Permutation_NoDup; [symmetry; apply (i_perm _ _ I)|auto].
  - assert (Hr : NoDup (map snd (returned s))).
    { eapply nodup_app_l. eapply Permutation_NoDup; [symmetry; apply (i_perm _ _ I)|auto]. }
    apply nodup_map_on; [eapply nodup_of_map; eauto|].
    intros x y Hx Hy E. eapply nodup_map_inj; eauto.
Qed.

(* ---- producers are never blocked ---- *)
Lemma producer_enabled s p : pdone (nth p (prods s) (PIdle [])) = false -> exists l s', pstep s p = Some (l, s').
Proof.
  unfold pstep. destruct (nth p (prods s) (PIdle [])) as [[|m todo]|m todo wi|m todo wi old]; cbn; intros H; try discriminate.
  - eauto.
  - destruct (newer_test _ _ _); eauto.
  - destruct (beq _ _); eauto.
Qed.

(* the producer's step does not read the consumer's progress: it is the same
   function of (claims, slots, prods) whatever ri/delivered/alerts are *)
Definition same_shared (a b : st) : Prop :=
  claims a = claims b /\ slots a = slots b /\ prods a = prods b.

Lemma producer_step_ignores_consumer a b p : same_shared a b ->
  match pstep a p, pstep b p with
  | Some (la, a'), Some (lb, b') => la = lb /\ same_shared a' b'
  | None, None => True
  | _, _ => False
  end.
Proof.
  destruct a as [ca sa ra pa da aa rea f1 f2 f3 f4], b as [cb sb rb pb db ab reb h1 h2 h3 h4].
  unfold same_shared; cbn. intros (-> & -> & ->). unfold pstep, slot_at, size; cbn.
  destruct (nth p pb (PIdle [])) as [[|m todo]|m todo wi|m todo wi old]; cbn; auto.
  - destruct (newer_test _ _ _); cbn; auto.
  - destruct (beq _ _); cbn; auto.
Qed.

(* ------------------------------------------------------------------ *)
(* C11: claims bookkeeping and the drain theorem                       *)
(* ------------------------------------------------------------------ *)
Definition pwi (x : pstate) : option N :=
  match x with PIdle _ => None | PClaimed _ _ wi => Some wi | PLoaded _ _ wi _ => Some wi end.
Definition infl (x : pstate) : N := match x with PIdle _ => 0 | _ => 1 end.
Fixpoint cnt (l : list pstate) : N := match l with [] => 0 | x :: r => infl x + cnt r end.

Lemma cnt_upd l p x : (p < length l)%nat -> cnt (upd l p x) + infl (nth p l (PIdle [])) = cnt l + infl x.
Proof.
  revert p; induction l as [|h t IH]; intros [|p] H; cbn [length] in *; try lia; cbn [upd cnt nth].
  - lia.
  - specialize (IH p ltac:(lia)). lia.
Qed.

Lemma size_exec1 s a : size (exec1 s a) = size s.
Proof. unfold size. step_cases s a; cbn; rewrite ?upd_length; auto. Qed.

Lemma size_exec s sched : size (exec s sched) = size s.
Proof. revert s; induction sched as [|a t IH]; intros s; [reflexivity|]. change (exec s (a :: t)) with (exec (exec1 s a) t). rewrite IH. apply size_exec1. Qed.

Definition Bal (s : st) : Prop :=
  claims s = N.of_nat (length (returned s)) + cnt (prods s) + g_casfail s + g_newer s.

Lemma bal_step s a : Bal s -> Bal (exec1 s a).
Proof.
  unfold Bal. intros H. step_cases s a; cbn [claims prods returned g_casfail g_newer set_prod]; auto;
  assert (Hr : (p < length (prods s))%nat) by (apply nth_default_range; rewrite Ep; discriminate).
  - pose proof (cnt_upd (prods s) p (PClaimed m todo (claims s mod two64)) Hr) as E. rewrite Ep in E. cbn [infl] in E. lia.
  - pose proof (cnt_upd (prods s) p (PIdle (m :: todo)) Hr) as E. rewrite Ep in E. cbn [infl] in E. lia.
  - pose proof (cnt_upd (prods s) p (PLoaded m todo wi (slot_at s (wi mod size s))) Hr) as E. rewrite Ep in E. cbn [infl] in E. lia.
  - pose proof (cnt_upd (prods s) p (PIdle todo) Hr) as E. rewrite Ep in E. cbn [infl] in E.
    rewrite app_length. cbn [length]. lia.
  - pose proof (cnt_upd (prods s) p (PIdle (m :: todo)) Hr) as E. rewrite Ep in E. cbn [infl] in E. lia.
Qed.

Lemma bal_run n ps sched : Bal (run n ps sched).
Proof.
  unfold run. assert (H : Bal (init n ps)).
  { unfold Bal; cbn. induction ps; cbn; auto. }
  revert H. generalize (init n ps). induction sched as [|a t IH]; intros s H; cbn; auto. apply IH, bal_step, H.
Qed.

Lemma cnt_done l : forallb pdone l = true -> cnt l = 0.
Proof.
  induction l as [|x l IH]; cbn; auto. intros H. apply andb_true_iff in H as [H1 H2].
  rewrite IH; auto. destruct x as [[|]| |]; cbn in *; try discriminate; auto.
Qed.

(* no collision and no overwrite of a larger seq, so far *)
Definition Z (s : st) : Prop := g_casfail s = 0 /\ g_newer s = 0 /\ g_ovl s = 0.

Lemma Z_back s a : Z (exec1 s a) -> Z s.
Proof. unfold Z. step_cases s a; cbn; auto; lia. Qed.

Definition covered (s : st) (k : N) : Prop :=
  (exists p, pwi (nth p (prods s) (PIdle [])) = Some k) \/
  (exists sq m, nth (N.to_nat (k mod size s)) (slots s) None = Some (sq, m) /\ k <= sq).

Definition D (s : st) : Prop := forall k, ri s <= k < claims s -> covered s k.

Lemma beq_seq a b : beq a b = true -> oseq a = oseq b.
Proof. destruct a as [[? ?]|], b as [[? ?]|]; cbn; try discriminate; auto. intros H. apply N.eqb_eq in H. subst; auto. Qed.

Lemma idx_lt s k : 0 < size s -> (N.to_nat (k mod size s) < length (slots s))%nat.
Proof. intros H. pose proof (N.mod_upper_bound k (size s) ltac:(lia)) as Hb. unfold size in *. lia. Qed.

Lemma size_init n ps : size (init n ps) = N.of_nat n.
Proof. unfold size; cbn. rewrite repeat_length. auto. Qed.

Lemma drain_step ps s a : 0 < size s -> Inv ps s -> D s -> claims (exec1 s a) < two64 -> Z (exec1 s a) -> D (exec1 s a).
Proof.
  intros Hn I HD. unfold D, covered. rewrite size_exec1.
  pose proof (pwi_nth _ _ match a with P p => p | C => O end (i_prods _ _ I)) as Hp. revert Hp.
  step_cases s a; cbn [claims slots ri prods set_prod g_casfail g_newer g_ovl]; intros Hp Hc HZ k Hk; auto; try solve [apply HD; auto];
    try (assert (Hr : (p < length (prods s))%nat) by (apply nth_default_range; rewrite Ep; discriminate)).
  - (* add *)
    assert (E : claims s mod two64 = claims s) by (apply N.mod_small; lia).
    destruct (N.eq_dec k (claims s)) as [->|Hne].
    + left. exists p. rewrite nth_upd_eq; auto. cbn. f_equal; auto.
    + destruct (HD k ltac:(lia)) as [(q & Hq)|Hs]; auto.
      left. exists q. rewrite nth_upd_neq; auto. intros ->. rewrite Ep in Hq. discriminate.
  - (* newer fires: excluded by Z *)
    unfold Z in HZ; cbn in HZ. lia.
  - (* load *)
    destruct (HD k Hk) as [(q & Hq)|Hs]; auto.
    left. destruct (Nat.eq_dec p q) as [->|Hpq].
    + exists q. rewrite nth_upd_eq; auto. rewrite Ep in Hq. exact Hq.
    + exists q. rewrite nth_upd_neq; auto.
  - (* cas succeeds *)
    unfold Z in HZ; cbn [g_casfail g_newer g_ovl] in HZ. destruct HZ as (_ & _ & Hov).
    destruct (N.eq_dec k wi) as [->|Hne].
    + right. exists wi, m. rewrite nth_upd_eq; [split; [reflexivity|apply N.le_refl]|apply idx_lt; auto].
    + destruct (HD k Hk) as [(q & Hq)|(sq & m' & Hs & Hle)].
      * left. exists q. rewrite nth_upd_neq; auto. intros ->. rewrite Ep in Hq. cbn in Hq. congruence.
      * right. rewrite nth_upd.
        destruct (Nat.eqb_spec (N.to_nat (wi mod size s)) (N.to_nat (k mod size s))) as [Eidx|Nidx].
        -- destruct (Nat.ltb _ _); [|eauto].
           exists wi, m. split; auto.
           apply beq_seq in Eb. unfold slot_at in Eb. rewrite Eidx, Hs in Eb. cbn in Eb.
           destruct old as [[sq' m'']|]; cbn in Eb; [|discriminate]. inversion Eb; subst sq'.
           destruct (wi <? sq) eqn:Elt; [lia|]. apply N.ltb_ge in Elt. lia.
        -- eauto.
  - (* cas fails: excluded by Z *)
    unfold Z in HZ; cbn in HZ. lia.
  - (* stale *)
    apply N.ltb_lt in El.
    destruct (HD k Hk) as [Hq|(sq' & m' & Hs & Hle)]; auto.
    right. rewrite nth_upd.
    destruct (Nat.eqb_spec (N.to_nat (ri s mod size s)) (N.to_nat (k mod size s))) as [Eidx|Nidx]; [|eauto].
    rewrite <- Eidx, Es in Hs. inversion Hs; subst. lia.
  - (* deliver *)
    apply N.ltb_ge in El. destruct (i_slots _ _ I _ _ _ Es) as [Hsq _].
    rewrite N.mod_small in Hk by lia.
    destruct (HD k ltac:(lia)) as [Hq|(sq' & m' & Hs & Hle)]; auto.
    right. rewrite nth_upd.
    destruct (Nat.eqb_spec (N.to_nat (ri s mod size s)) (N.to_nat (k mod size s))) as [Eidx|Nidx]; [|eauto].
    rewrite <- Eidx, Es in Hs. inversion Hs; subst. lia.
Qed.

Lemma drain_run n ps sched : (0 < n)%nat -> let s := run n ps sched in claims s < two64 -> Z s -> D s.
Proof.
  intros Hn. unfold run. cbv zeta. induction sched as [|a t IH] using rev_ind; intros Hc HZ.
  - unfold D. intros k Hk. cbn in Hk. lia.
  - rewrite exec_app in *. cbn [exec fold_left] in *.
    assert (Hc' : claims (exec (init n ps) t) < two64) by (eapply N.le_lt_trans; [apply claims_mono1|exact Hc]).
    apply drain_step with (ps := ps); auto.
    + rewrite size_exec, size_init. lia.
    + apply exec_inv; auto. apply init_inv.
    + apply IH; auto. eapply Z_back; eauto.
Qed.

Lemma nth_done l p : forallb pdone l = true -> pwi (nth p l (PIdle [])) = None.
Proof.
  intros H. destruct (nth_In_or_default l p (PIdle [])) as [E|E]; [rewrite E; auto|].
  eapply forallb_forall in H; eauto. destruct (nth p l (PIdle [])) as [[|]| |]; cbn in *; try discriminate; auto.
Qed.

(* C11_drain_partial *)
Lemma drain_partial n ps sched : (0 < n)%nat -> let s := run n ps sched in
  claims s < two64 -> g_casfail s = 0 -> g_newer s = 0 -> g_ovl s = 0 ->
  producers_done s = true -> drained s = true ->
  N.of_nat (length (delivered s)) + sumN (alerts s) = N.of_nat (length (returned s)) /\ ri s = claims s.
Proof.
  intros Hn s Hc H1 H2 H3 Hd Hdr.
  pose proof (run_inv _ _ _ Hc) as I. fold s in I.
  pose proof (drain_run n ps sched Hn Hc (conj H1 (conj H2 H3))) as HD. fold s in HD.
  pose proof (bal_run n ps sched) as HB. fold s in HB. unfold Bal in HB.
  unfold producers_done in Hd. rewrite (cnt_done _ Hd), H1, H2 in HB.
  assert (E : ri s = claims s).
  { pose proof (i_ri _ _ I) as Hle. destruct (N.eq_dec (ri s) (claims s)) as [|Hne]; auto. exfalso.
    destruct (HD (ri s) ltac:(lia)) as [(q & Hq)|(sq & m & Hs & Hle')].
    - rewrite nth_done in Hq; auto. discriminate.
    - unfold drained, slot_at in Hdr. rewrite Hs in Hdr. apply N.ltb_lt in Hdr. lia. }
  split; auto. rewrite <- (i_acc _ _ I). lia.
Qed.

(* ------------------------------------------------------------------ *)
(* C11: below capacity nothing is dropped                              *)
(* ------------------------------------------------------------------ *)
Definition idx (s : st) (k : N) : nat := N.to_nat (k mod size s).

Lemma mod_close n a b : 0 < n -> a mod n = b mod n -> a <= b -> b - a < n -> a = b.
Proof.
  intros Hn E Hle Hlt.
  pose proof (N.div_mod' a n) as Ha. pose proof (N.div_mod' b n) as Hb.
  pose proof (N.mod_upper_bound a n ltac:(lia)) as Hr.
  rewrite <- E in Hb. set (qa := a / n) in *. set (qb := b / n) in *. set (r := a mod n) in *. clearbody qa qb r.
  assert (qa = qb) by nia. subst. lia.
Qed.

Lemma idx_close s a b : 0 < size s -> idx s a = idx s b -> a <= b -> b - a < size s -> a = b.
Proof. unfold idx. intros Hn E. apply N2Nat.inj in E. apply mod_close; auto. Qed.

Record Cap (s : st) : Prop := {
  b_cap : claims s <= ri s + size s;
  b_slot : forall i k m, nth i (slots s) None = Some (k, m) -> ri s <= k < claims s /\ idx s k = i;
  b_infl : forall p k, pwi (nth p (prods s) (PIdle [])) = Some k ->
             ri s <= k /\ nth (idx s k) (slots s) None = None /\
             (forall m todo old, nth p (prods s) (PIdle []) = PLoaded m todo k old -> old = None);
  b_uniq : forall p q k, pwi (nth p (prods s) (PIdle [])) = Some k -> pwi (nth q (prods s) (PIdle [])) = Some k -> p = q;
  b_zero : g_casfail s = 0 /\ g_newer s = 0 /\ g_ovl s = 0 /\ alerts s = [];
  b_ret : forall b, In b (returned s) -> In b (delivered s) \/ nth (idx s (fst b)) (slots s) None = Some b }.

Lemma overcap_back s a : g_overcap (exec1 s a) = false -> g_overcap s = false.
Proof. step_cases s a; cbn; auto. intros H. apply orb_false_iff in H. tauto. Qed.

Lemma pwi_lt ps s p k : Inv ps s -> pwi (nth p (prods s) (PIdle [])) = Some k -> k < claims s.
Proof.
  intros I H. pose proof (pwi_nth _ _ p (i_prods _ _ I)) as Hp.
  destruct (nth p (prods s) (PIdle [])) as [| |]; cbn in *; try discriminate; inversion H; subst; tauto.
Qed.

Lemma cap_step ps s a : 0 < size s -> Inv ps s -> Cap s -> claims (exec1 s a) < two64 ->
  g_overcap (exec1 s a) = false -> Cap (exec1 s a).
Proof.
  intros Hn I B.
  assert (Hidx : forall k, idx (exec1 s a) k = idx s k) by (intros; unfold idx; rewrite size_exec1; auto).
  pose proof (size_exec1 s a) as Hsz.
  pose proof (fun p k => pwi_lt ps s p k I) as Hlt.
  revert Hidx Hsz.
  step_cases s a; intros Hidx Hsz Hc Hov; auto;
    try (assert (Hr : (p < length (prods s))%nat) by (apply nth_default_range; rewrite Ep; discriminate)).
  - (* add *)
    cbn [claims g_overcap] in Hc, Hov. apply orb_false_iff in Hov as [_ Hov]. apply N.leb_gt in Hov.
    assert (E : claims s mod two64 = claims s) by (apply N.mod_small; lia).
    pose proof (i_ri _ _ I) as Hri.
    destruct B. constructor; cbn [claims slots ri prods delivered alerts returned g_casfail g_newer g_ovl]; try rewrite Hsz; auto.
    + lia.
    + intros i k m' H. rewrite Hidx. apply b_slot0 in H. split; [lia|tauto].
    + intros q k H. rewrite Hidx. rewrite nth_upd in *.
      destruct (Nat.eqb_spec p q) as [->|Hpq].
      * replace (Nat.ltb q (length (prods s))) with true in * by (symmetry; apply Nat.ltb_lt; auto).
        cbn in H. inversion H; subst k. rewrite E. repeat split; auto.
        -- destruct (nth (idx s (claims s)) (slots s) None) as [[k' m']|] eqn:Ek; auto.
           apply b_slot0 in Ek as [Hk' Ei]. exfalso.
           assert (k' = claims s) by (apply (idx_close s); auto; lia). lia.
        -- intros; discriminate.
      * apply b_infl0; auto.
    + intros q1 q2 k H1 H2. rewrite nth_upd in *.
      destruct (Nat.eqb_spec p q1) as [E1|N1], (Nat.eqb_spec p q2) as [E2|N2]; auto.
      * subst. auto.
      * subst q1. replace (Nat.ltb p (length (prods s))) with true in * by (symmetry; apply Nat.ltb_lt; auto).
        cbn in H1. inversion H1; subst k. apply Hlt in H2. lia.
      * subst q2. replace (Nat.ltb p (length (prods s))) with true in * by (symmetry; apply Nat.ltb_lt; auto).
        cbn in H2. inversion H2; subst k. apply Hlt in H1. lia.
      * eapply b_uniq0; eauto.
  - (* newer fires: impossible *)
    exfalso. destruct (b_infl _ B p wi ltac:(rewrite Ep; auto)) as (_ & Hs & _).
    unfold newer_test, slot_at in En. fold (idx s wi) in En. rewrite Hs in En. discriminate.
  - (* load *)
    destruct (b_infl _ B p wi ltac:(rewrite Ep; auto)) as (Hwi & Hs & _).
    destruct B. constructor; cbn [claims slots ri prods delivered alerts returned g_casfail g_newer g_ovl set_prod]; try rewrite Hsz; auto.
    + intros q k H. rewrite Hidx. rewrite nth_upd in *.
      destruct (Nat.eqb_spec p q) as [->|Hpq]; [|apply b_infl0; auto].
      replace (Nat.ltb q (length (prods s))) with true in * by (symmetry; apply Nat.ltb_lt; auto).
      cbn in H. inversion H; subst k. repeat split; auto.
      intros m0 todo0 old0 Eq. inversion Eq; subst. unfold slot_at. fold (idx s wi). auto.
    + intros q1 q2 k H1 H2. rewrite !nth_upd in *.
      assert (Hq : forall q, pwi (if Nat.eqb p q then if Nat.ltb p (length (prods s)) then PLoaded m todo wi (slot_at s (wi mod size s)) else nth q (prods s) (PIdle []) else nth q (prods s) (PIdle [])) = pwi (nth q (prods s) (PIdle []))).
      { intros q. destruct (Nat.eqb_spec p q) as [->|]; auto. destruct (Nat.ltb _ _); auto. rewrite Ep; auto. }
      rewrite Hq in H1, H2. eapply b_uniq0; eauto.
  - (* cas succeeds *)
    destruct (b_infl _ B p wi ltac:(rewrite Ep; auto)) as (Hwi & Hs & Hold).
    specialize (Hold _ _ _ Ep). subst old.
    pose proof (Hlt p wi ltac:(rewrite Ep; auto)) as Hwc.
    fold (idx s wi) in *.
    destruct B. constructor; cbn [claims slots ri prods delivered alerts returned g_casfail g_newer g_ovl]; try rewrite Hsz; auto.
    + intros i k m' H. rewrite Hidx. rewrite nth_upd in H.
      destruct (Nat.eqb_spec (idx s wi) i) as [<-|]; [|eapply b_slot0; eauto].
      destruct (Nat.ltb _ _); [inversion H; subst; split; auto|eapply b_slot0; eauto].
    + intros q k H. rewrite Hidx. rewrite nth_upd in H.
      destruct (Nat.eqb_spec p q) as [->|Hpq].
      * replace (Nat.ltb q (length (prods s))) with true in H by (symmetry; apply Nat.ltb_lt; auto). cbn in H. discriminate.
      * destruct (b_infl0 q k H) as (H1 & H2 & H3). repeat split; auto.
        -- rewrite nth_upd. destruct (Nat.eqb_spec (idx s wi) (idx s k)) as [Ei|]; auto.
           exfalso. assert (wi <> k) by (intros ->; apply Hpq; eapply b_uniq0; eauto; rewrite Ep; auto).
           pose proof (Hlt q k H) as Hkc.
           destruct (N.le_ge_cases wi k); [assert (wi = k) by (apply (idx_close s); auto; lia)|assert (k = wi) by (apply (idx_close s); auto; lia)]; lia.
        -- intros m0 todo0 old0 Eq. rewrite nth_upd_neq in Eq; eauto.
    + intros q1 q2 k H1 H2. rewrite nth_upd in *.
      destruct (Nat.eqb_spec p q1) as [->|N1].
      { replace (Nat.ltb q1 (length (prods s))) with true in H1 by (symmetry; apply Nat.ltb_lt; auto). cbn in H1. discriminate. }
      destruct (Nat.eqb_spec p q2) as [->|N2].
      { replace (Nat.ltb q2 (length (prods s))) with true in H2 by (symmetry; apply Nat.ltb_lt; auto). cbn in H2. discriminate. }
      eapply b_uniq0; eauto.
    + destruct b_zero0 as (? & ? & ? & ?). repeat split; auto. lia.
    + intros b Hb. rewrite Hidx. rewrite nth_upd. apply in_app_or in Hb as [Hb|[<-|[]]].
      * destruct (b_ret0 b Hb) as [|Hsl]; auto.
        destruct (Nat.eqb_spec (idx s wi) (idx s (fst b))) as [Ei|]; auto.
        rewrite <- Ei, Hs in Hsl. discriminate.
      * right. cbn [fst]. rewrite Nat.eqb_refl.
        replace (Nat.ltb (idx s wi) (length (slots s))) with true; auto.
        symmetry. apply Nat.ltb_lt. apply idx_lt; auto.
  - (* cas fails: impossible *)
    exfalso. destruct (b_infl _ B p wi ltac:(rewrite Ep; auto)) as (_ & Hs & Hold).
    specialize (Hold _ _ _ Ep). subst old. unfold slot_at in Eb. fold (idx s wi) in Eb. rewrite Hs in Eb. discriminate.
  - (* stale: impossible *)
    exfalso. apply N.ltb_lt in El. apply (b_slot _ B) in Es. lia.
  - (* deliver *)
    fold (idx s (ri s)) in *.
    destruct (b_slot _ B _ _ _ Es) as [Hk Ei].
    assert (sq = ri s).
    { symmetry. apply (idx_close s); auto; try lia. pose proof (b_cap _ B). lia. }
    subst sq. assert (Hm : (ri s + 1) mod two64 = ri s + 1) by (apply N.mod_small; cbn in Hc; lia).
    rewrite N.ltb_irrefl in *. rewrite Hm in Hidx, Hsz |- *.
    destruct B. constructor; cbn [claims slots ri prods delivered alerts returned g_casfail g_newer g_ovl]; try rewrite Hsz; try rewrite Hm; auto.
    + lia.
    + intros i k m' H. rewrite Hidx. rewrite nth_upd in H.
      destruct (Nat.eqb_spec (idx s (ri s)) i) as [<-|Hi].
      * replace (Nat.ltb (idx s (ri s)) (length (slots s))) with true in H by (symmetry; apply Nat.ltb_lt, idx_lt; auto). discriminate.
      * destruct (b_slot0 _ _ _ H) as [Hk' Ei']. split; auto.
        destruct (N.eq_dec k (ri s)) as [->|]; [congruence|lia].
    + intros q k H. rewrite Hidx. destruct (b_infl0 q k H) as (H1 & H2 & H3).
      assert (k <> ri s) by (intros ->; rewrite Es in H2; discriminate).
      repeat split; auto; [lia|].
      rewrite nth_upd. destruct (Nat.eqb _ _); auto. destruct (Nat.ltb _ _); auto.
    + intros b Hb. rewrite Hidx. rewrite nth_upd.
      destruct (b_ret0 b Hb) as [Hd|Hsl]; [left; apply in_or_app; auto|].
      destruct (Nat.eqb_spec (idx s (ri s)) (idx s (fst b))) as [Ei'|]; auto.
      left. rewrite <- Ei', Es in Hsl. inversion Hsl; subst. apply in_or_app; right; left; auto.
Qed.

Lemma init_cap n ps : Cap (init n ps).
Proof.
  constructor; cbn.
  - lia.
  - intros i k m H. exfalso. eapply repeat_none_nth; eauto.
  - intros p k H. exfalso. revert H. rewrite <- (map_nth pwi). cbn.
    destruct (nth_In_or_default (map pwi (map PIdle ps)) p None) as [E|E]; [rewrite E; discriminate|].
    intros H. rewrite H in E. apply in_map_iff in E as (x & E & Hx). apply in_map_iff in Hx as (y & <- & _). discriminate.
  - intros p q k H. exfalso. revert H. rewrite <- (map_nth pwi). cbn.
    destruct (nth_In_or_default (map pwi (map PIdle ps)) p None) as [E|E]; [rewrite E; discriminate|].
    intros H. rewrite H in E. apply in_map_iff in E as (x & E & Hx). apply in_map_iff in Hx as (y & <- & _). discriminate.
  - auto.
  - tauto.
Qed.

Lemma cap_run n ps sched : (0 < n)%nat -> let s := run n ps sched in
  claims s < two64 -> g_overcap s = false -> Cap s.
Proof.
  intros Hn. unfold run. cbv zeta. induction sched as [|a t IH] using rev_ind; intros Hc Ho.
  - apply init_cap.
  - rewrite exec_app in *. cbn [exec fold_left] in *.
    assert (Hc' : claims (exec (init n ps) t) < two64) by (eapply N.le_lt_trans; [apply claims_mono1|exact Hc]).
    apply cap_step with (ps := ps); auto.
    + rewrite size_exec, size_init. lia.
    + apply exec_inv; auto. apply init_inv.
    + apply IH; auto. eapply overcap_back; eauto.
Qed.

(* C11_below_capacity_no_drop *)
Lemma below_capacity n ps sched : (0 < n)%nat -> let s := run n ps sched in
  claims s < two64 -> g_overcap s = false ->
  alerts s = [] /\ g_casfail s = 0 /\ g_newer s = 0 /\
  (forall b, In b (returned s) -> In b (delivered s) \/ slot_at s (fst b mod size s) = Some b) /\
  (producers_done s = true -> drained s = true -> Permutation (delivered s) (returned s)).
Proof.
  intros Hn s Hc Ho.
  pose proof (cap_run n ps sched Hn Hc Ho) as B. fold s in B.
  pose proof (run_inv _ _ _ Hc) as I. fold s in I.
  destruct (b_zero _ B) as (Z1 & Z2 & Z3 & Z4).
  repeat split; auto.
  - apply (b_ret _ B).
  - intros Hd Hdr.
    destruct (drain_partial n ps sched Hn Hc Z1 Z2 Z3 Hd Hdr) as [Hlen Hri]. fold s in Hlen, Hri.
    rewrite Z4 in Hlen. change (sumN []) with 0 in Hlen.
    apply NoDup_Permutation_bis.
    + eapply nodup_of_map. apply sorted_nodup, (i_sorted _ _ I).
    + lia.
    + intros b Hb. pose proof (i_del_ret _ _ I) as F. eapply Forall_forall in F; eauto.
Qed.

(* ------------------------------------------------------------------ *)
(* K2 / K3: the drain theorem is false without its premises            *)
(* ------------------------------------------------------------------ *)
(* a returned message that is neither delivered nor covered by the reported counts
   although every Write returned and the consumer ran until TryNext failed *)
Definition silent_loss (s : st) : Prop :=
  producers_done s = true /\ drained s = true /\
  N.of_nat (length (delivered s)) + sumN (alerts s) < N.of_nat (length (returned s)) /\
  alerts s = [] /\
  exists b, In b (returned s) /\ ~ In b (delivered s).

Definition k2_ps : list (list N) := [[100; 101]; [102]].
Definition k2_sched : list act :=
  rep 6 (P 0) ++ [P 1; P 1; C; C] ++ rep 4 (P 1) ++ [C].
Definition k3_ps : list (list N) := [[100; 101]; [200]].
Definition k3_sched : list act :=
  [P 1] ++ rep 6 (P 0) ++ [P 1; P 1; C; C; C].

Lemma in_dec_bucket (b : bucket) l : {In b l} + {~ In b l}.
Proof. apply in_dec. decide equality; apply N.eq_dec. Qed.

Lemma hole_refuted :
  let s := run 2 k2_ps k2_sched in
  silent_loss s /\ g_casfail s = 1 /\ g_newer s = 0 /\ g_ovl s = 0 /\
  delivered s = [(0, 100); (1, 101)] /\ returned s = [(0, 100); (1, 101); (3, 102)] /\ ri s = 2 /\ claims s = 4.
Proof.
  vm_compute. repeat split; auto; try discriminate.
  exists (3, 102). split; [right; right; left; reflexivity|].
  intros [H|[H|[]]]; discriminate.
Qed.

Lemma firstlap_overwrite_refuted :
  let s := run 2 k3_ps k3_sched in
  silent_loss s /\ g_casfail s = 0 /\ g_newer s = 0 /\ g_ovl s = 1 /\
  delivered s = [(0, 200); (1, 100)] /\ returned s = [(1, 100); (2, 101); (0, 200)] /\ ri s = 2 /\ claims s = 3.
Proof.
  vm_compute. repeat split; auto; try discriminate.
  exists (2, 101). split; [right; left; reflexivity|].
  intros [H|[H|[]]]; discriminate.
Qed.
