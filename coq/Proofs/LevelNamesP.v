(* Proofs about Misc/LevelNames.v: Level text forms under customised names. *)
From Verif Require Import Base.Prelude Base.Decimal Proofs.DecimalP Misc.Level Misc.LevelNames.
Open Scope Z_scope.

Lemma equal_fold_refl a : equal_fold a a = true.
Proof. unfold equal_fold. apply (list_eqb_eq N.eqb N.eqb_eq). reflexivity. Qed.

Lemma equal_fold_sym a b : equal_fold a b = equal_fold b a.
Proof.
  unfold equal_fold.
  destruct (list_eqb N.eqb (map lower a) (map lower b)) eqn:E1;
  destruct (list_eqb N.eqb (map lower b) (map lower a)) eqn:E2; try reflexivity.
  - apply (list_eqb_eq N.eqb N.eqb_eq) in E1. rewrite E1 in E2.
    rewrite (proj2 (list_eqb_eq N.eqb N.eqb_eq _ _) eq_refl) in E2. discriminate.
  - apply (list_eqb_eq N.eqb N.eqb_eq) in E2. rewrite E2 in E1.
    rewrite (proj2 (list_eqb_eq N.eqb N.eqb_eq _ _) eq_refl) in E1. discriminate.
Qed.

(* the default configuration is the instance [default_naming] *)
Lemma default_naming_string l : naming_mf default_naming l = level_string l.
Proof. reflexivity. Qed.

Lemma parse_level_with_default s : parse_level_with (naming_mf default_naming) s = parse_level s.
Proof. reflexivity. Qed.

Lemma all_levels_In l : level_ok l -> In l all_levels.
Proof.
  unfold level_ok, all_levels. intros H. apply in_map_iff. exists (Z.to_nat (l + 128)). split; [lia|].
  apply in_seq. lia.
Qed.

Lemma in_range_result l : level_ok l ->
  (if (l >? 9223372036854775807) || (l <? -9223372036854775808) then PErrUnknown
   else if (l >? 127) || (l <? -128) then PErrRange else POk l) = POk l.
Proof.
  unfold level_ok. intros H.
  destruct (l >? 9223372036854775807) eqn:E1; [apply Z.gtb_lt in E1; lia|].
  destruct (l <? -9223372036854775808) eqn:E2; [apply Z.ltb_lt in E2; lia|].
  destruct (l >? 127) eqn:E3; [apply Z.gtb_lt in E3; lia|].
  destruct (l <? -128) eqn:E4; [apply Z.ltb_lt in E4; lia|]. reflexivity.
Qed.

Lemma unnamed_text n l :
  l <> TraceLevel -> l <> DebugLevel -> l <> InfoLevel -> l <> WarnLevel -> l <> ErrorLevel ->
  l <> FatalLevel -> l <> PanicLevel -> l <> Disabled -> l <> NoLevel -> naming_mf n l = print_Z l.
Proof.
  unfold TraceLevel, DebugLevel, InfoLevel, WarnLevel, ErrorLevel, FatalLevel, PanicLevel, Disabled, NoLevel, naming_mf.
  intros.
  repeat match goal with |- context [?a =? ?b] => destruct (Z.eqb_spec a b); [lia|] end.
  reflexivity.
Qed.

Ltac named_ok := unfold level_ok, TraceLevel, DebugLevel, InfoLevel, WarnLevel, ErrorLevel, FatalLevel, PanicLevel, Disabled, NoLevel; lia.

(* LEVEL round trip: if the naming gives the 256 levels pairwise different
   texts (up to case), the text of every level reads back as that level *)
Theorem custom_names_roundtrip n l :
  naming_injective n = true -> level_ok l ->
  parse_level_with (naming_mf n) (naming_mf n l) = POk l.
Proof.
  intros I H. set (mf := naming_mf n).
  assert (D : forall k, level_ok k -> l <> k -> equal_fold (mf l) (mf k) = false).
  { intros k Hk Hne. unfold naming_injective in I. rewrite forallb_forall in I.
    specialize (I l (all_levels_In l H)). rewrite forallb_forall in I.
    specialize (I k (all_levels_In k Hk)). apply orb_true_iff in I. destruct I as [I|I]; [lia|].
    apply negb_true_iff in I. exact I. }
  unfold parse_level_with.
  destruct (Z.eq_dec l TraceLevel) as [->|N1]; [rewrite equal_fold_refl; reflexivity|rewrite (D TraceLevel) by (named_ok || assumption)].
  destruct (Z.eq_dec l DebugLevel) as [->|N2]; [rewrite equal_fold_refl; reflexivity|rewrite (D DebugLevel) by (named_ok || assumption)].
  destruct (Z.eq_dec l InfoLevel) as [->|N3]; [rewrite equal_fold_refl; reflexivity|rewrite (D InfoLevel) by (named_ok || assumption)].
  destruct (Z.eq_dec l WarnLevel) as [->|N4]; [rewrite equal_fold_refl; reflexivity|rewrite (D WarnLevel) by (named_ok || assumption)].
  destruct (Z.eq_dec l ErrorLevel) as [->|N5]; [rewrite equal_fold_refl; reflexivity|rewrite (D ErrorLevel) by (named_ok || assumption)].
  destruct (Z.eq_dec l FatalLevel) as [->|N6]; [rewrite equal_fold_refl; reflexivity|rewrite (D FatalLevel) by (named_ok || assumption)].
  destruct (Z.eq_dec l PanicLevel) as [->|N7]; [rewrite equal_fold_refl; reflexivity|rewrite (D PanicLevel) by (named_ok || assumption)].
  destruct (Z.eq_dec l Disabled) as [->|N8]; [rewrite equal_fold_refl; reflexivity|rewrite (D Disabled) by (named_ok || assumption)].
  destruct (Z.eq_dec l NoLevel) as [->|N9]; [rewrite equal_fold_refl; reflexivity|rewrite (D NoLevel) by (named_ok || assumption)].
  unfold mf. rewrite (unnamed_text n l) by assumption.
  rewrite parse_print_Z. apply in_range_result. exact H.
Qed.

(* TEXT round trip, for ANY naming (also one that gives several levels the same
   text, an empty text, or the decimal text of another level): the text of a
   level reads back, without error, as a level that has that text *)
Theorem custom_names_text_roundtrip n l :
  level_ok l ->
  exists l', level_ok l' /\ parse_level_with (naming_mf n) (naming_mf n l) = POk l' /\
             equal_fold (naming_mf n l') (naming_mf n l) = true.
Proof.
  intros H. set (mf := naming_mf n). unfold parse_level_with.
  destruct (equal_fold (mf l) (mf TraceLevel)) eqn:E1; [exists TraceLevel; split; [named_ok|split; [reflexivity|rewrite equal_fold_sym; exact E1]]|].
  destruct (equal_fold (mf l) (mf DebugLevel)) eqn:E2; [exists DebugLevel; split; [named_ok|split; [reflexivity|rewrite equal_fold_sym; exact E2]]|].
  destruct (equal_fold (mf l) (mf InfoLevel)) eqn:E3; [exists InfoLevel; split; [named_ok|split; [reflexivity|rewrite equal_fold_sym; exact E3]]|].
  destruct (equal_fold (mf l) (mf WarnLevel)) eqn:E4; [exists WarnLevel; split; [named_ok|split; [reflexivity|rewrite equal_fold_sym; exact E4]]|].
  destruct (equal_fold (mf l) (mf ErrorLevel)) eqn:E5; [exists ErrorLevel; split; [named_ok|split; [reflexivity|rewrite equal_fold_sym; exact E5]]|].
  destruct (equal_fold (mf l) (mf FatalLevel)) eqn:E6; [exists FatalLevel; split; [named_ok|split; [reflexivity|rewrite equal_fold_sym; exact E6]]|].
  destruct (equal_fold (mf l) (mf PanicLevel)) eqn:E7; [exists PanicLevel; split; [named_ok|split; [reflexivity|rewrite equal_fold_sym; exact E7]]|].
  destruct (equal_fold (mf l) (mf Disabled)) eqn:E8; [exists Disabled; split; [named_ok|split; [reflexivity|rewrite equal_fold_sym; exact E8]]|].
  destruct (equal_fold (mf l) (mf NoLevel)) eqn:E9; [exists NoLevel; split; [named_ok|split; [reflexivity|rewrite equal_fold_sym; exact E9]]|].
  assert (M : mf l = print_Z l).
  { apply unnamed_text; intros ->;
      match goal with E : equal_fold (mf ?k) (mf ?k) = false |- _ => rewrite equal_fold_refl in E; discriminate end. }
  exists l. split; [exact H|]. split; [|apply equal_fold_refl].
  rewrite M, parse_print_Z. apply in_range_result. exact H.
Qed.

(* the namings the harness sweeps that are injective (finite check each) *)
Definition bytes_upper (s : list N) : list N := map (fun b => if ((97 <=? b) && (b <=? 122))%N then (b - 32)%N else b) s.

Definition upper_naming : naming :=
  {| n_trace := bytes_upper s_trace; n_debug := bytes_upper s_debug; n_info := bytes_upper s_info;
     n_warn := bytes_upper s_warn; n_error := bytes_upper s_error; n_fatal := bytes_upper s_fatal;
     n_panic := bytes_upper s_panic; n_nolevel := []; n_disabled := bytes_upper s_disabled |}.

(* every named level answers with its number, permuted: Trace "7", Debug "6", ... Disabled "-1" *)
Definition swapped_numbers_naming : naming :=
  {| n_trace := print_Z 7; n_debug := print_Z 6; n_info := print_Z 5; n_warn := print_Z 4; n_error := print_Z 3;
     n_fatal := print_Z 2; n_panic := print_Z 1; n_nolevel := print_Z 0; n_disabled := print_Z (-1) |}.

Lemma sample_namings_injective :
  naming_injective default_naming = true /\ naming_injective upper_naming = true /\
  naming_injective swapped_numbers_naming = true.
Proof. vm_compute. repeat split. Qed.
