(* The console model's quoting predicate is the translation of console.go's needsQuote (Gen/RootSrc.v). *)
From Verif Require Import Base.Prelude Base.GoSem Enc.JsonEnc Enc.GoStd Misc.Console.
From Verif Require Gen.RootSrc.
Open Scope Z_scope.

Definition bytes_ok (s : list N) : Prop := Forall (fun b => (b < 256)%N) s.

Lemma decode_ascii b t : (b < 128)%N -> utf8_DecodeRune (b :: t) = (Z.of_N b, 1).
Proof. intros H. unfold utf8_DecodeRune, go_decode_rune. replace (b <? 0x80)%N with true by lia. reflexivity. Qed.

Lemma quote_loop : forall fuel s i, 0 <= i <= len s -> (Z.to_nat (len s - i) < fuel)%nat ->
  RootSrc.needsQuote_loop1 fuel s i s =
  if existsb quote_byte (skipn (Z.to_nat i) s) then Ok (LRet true) else Ok (LExit tt).
Proof.
  induction fuel as [|fuel IH]; intros s i Hi Hf; [lia|]. cbn [RootSrc.needsQuote_loop1].
  destruct (i <? len s) eqn:Ei.
  2:{ assert (i = len s) by lia. subst i. unfold len. rewrite Nat2Z.id, skipn_all. reflexivity. }
  rewrite !(inb_true s i) by lia. rewrite !orb_true_r, !guard_true.
  rewrite (skipn_idx 0%N s i) by lia. set (b := idx 0%N s i). cbn [existsb].
  assert (Eq : ((b <? 32)%N || (126 <? b)%N || (b =? 32)%N || (b =? 92)%N || (b =? 34)%N) = quote_byte b).
  { unfold quote_byte. destruct (b <? 32)%N eqn:E1, (126 <? b)%N eqn:E2, (b =? 32)%N eqn:E3, (b =? 92)%N eqn:E4, (b =? 34)%N eqn:E5; cbn; try reflexivity; lia. }
  rewrite Eq. destruct (quote_byte b) eqn:Q; [reflexivity|]. cbn [orb].
  assert (Hb : (b < 128)%N). { unfold quote_byte in Q. lia. }
  rewrite slice_from by lia. rewrite (skipn_idx 0%N s i) by lia. fold b. rewrite decode_ascii by auto. cbn [snd].
  apply IH; lia.
Qed.

Theorem needsQuote_src s : RootSrc.needsQuote s = Ok (needs_quote s).
Proof.
  unfold RootSrc.needsQuote, needs_quote. cbv zeta. pose proof (len_nonneg s).
  rewrite quote_loop by (unfold len in *; lia). cbn [Z.to_nat skipn].
  destruct (existsb quote_byte s); reflexivity.
Qed.
