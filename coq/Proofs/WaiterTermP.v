(* C12: after cancel (called once every Write has returned) every step of every thread lowers a
   measure bounded by the ring size: together with the progress lemma (WaiterP.close_progress_b)
   every maximal run reaches "Close returned" within [close_bound] steps. *)
From Verif Require Import Base.Prelude Lts.Diode Lts.Waiter Proofs.DiodeP Proofs.DiodeSoloP Proofs.WaiterInvP Proofs.WaiterP.
Open Scope N_scope.

Definition crank (c : cpc) : N :=
  match c with
  | CDone => 0 | CUnlockNil => 1 | CTryLast => 2 | CIsDone => 3 | CWrite _ => 4 | CUnlockD _ => 5
  | CTry => 8 | CLock => 9 | CSleep => 9 | CParked true => 10 | CParked false => 11 | CWait => 12
  end.
Definition grank (g : gpc) : N := match g with GAwait => 4 | GLock => 3 | GBcast => 2 | GUnlock => 1 | GDone => 0 end.
Definition krank (k : kpc) : N := match k with KIdle => 2 | KAwait => 1 | KDone => 0 end.
Definition hand (c : cpc) : N := match c with CWrite _ | CUnlockD _ => 1 | _ => 0 end.

Definition mu_close (w : wst) : N :=
  16 * nonnil (slots (d w)) + 8 * hand (cons w) + crank (cons w) + grank (cg w) + krank (closer w).

Lemma cstep_nonnil s : let '(_, s', got) := cstep s in
  nonnil (slots s') + match got with Some _ => 1 | None => 0 end <= nonnil (slots s).
Proof.
  unfold cstep. destruct (nth (N.to_nat (ri s mod size s)) (slots s) None) as [[sq m]|] eqn:E; [|cbn; lia].
  pose proof (nonnil_clear (slots s) (N.to_nat (ri s mod size s))) as H. rewrite E in H.
  destruct (sq <? ri s); cbn -[nonnil upd N.add N.mul]; unfold bucket in *; lia.
Qed.

Ltac msimp := cbn [d waiter gated mu cons cg closer cancelled pb wreturned wdelivered g_lost set_cons set_d set_mu_cons set_mu_cg crank grank krank hand].

Lemma close_measure w t l w' : cancelled w = true -> all_written w = true ->
  wstep w t = Some (l, w') -> mu_close w' < mu_close w.
Proof.
  intros Hc Ha. unfold wstep. destruct t as [| | |p].
  - unfold cons_step, mu_close. destruct (cons w) as [| | | |[|]| |b| |b| |] eqn:Ec.
    + destruct (mu w); intros H; inversion H; subst; msimp; lia.
    + pose proof (cstep_nonnil (d w)) as Hn. destruct (cstep (d w)) as [[l0 d'] [b|]]; intros H; inversion H; subst; msimp.
      * destruct (waiter w); msimp; lia.
      * lia.
    + rewrite Hc. intros H; inversion H; subst; msimp; lia.
    + intros H; inversion H; subst; msimp; lia.
    + destruct (negb (mu w)); cbn; intros H; inversion H; subst; msimp; lia.
    + cbn. discriminate.
    + intros H; inversion H; subst; msimp; lia.
    + intros H; inversion H; subst; msimp; lia.
    + intros H; inversion H; subst; msimp; lia.
    + intros H; inversion H; subst; msimp. destruct (waiter w); msimp; lia.
    + discriminate.
    + pose proof (cstep_nonnil (d w)) as Hn. destruct (cstep (d w)) as [[l0 d'] [b|]]; intros H; inversion H; subst; msimp.
      * destruct (waiter w); msimp; lia.
      * destruct (waiter w); msimp; lia.
  - unfold cancel_step, mu_close. destruct (cg w).
    + destruct (cancelled w); intros H; inversion H; subst; msimp; lia.
    + destruct (mu w); intros H; inversion H; subst; msimp; lia.
    + unfold wake. destruct (cons w) as [| | | |[|]| | | | | |]; intros H; inversion H; subst; msimp; lia.
    + intros H; inversion H; subst; msimp; lia.
    + discriminate.
  - unfold closer_step, mu_close. destruct (closer w).
    + destruct (gated w && negb (all_written w)); intros H; inversion H; subst; msimp; lia.
    + destruct (cons w); intros H; inversion H; subst; msimp; lia.
    + discriminate.
  - rewrite (all_written_no_step w p Ha). discriminate.
Qed.

Lemma mu_close_bound w : mu_close w <= 16 * size (d w) + 26.
Proof.
  unfold mu_close, size. pose proof (nonnil_le (slots (d w))).
  destruct (cons w) as [| | | |[|]| | | | | |], (cg w), (closer w); cbn [crank grank krank hand]; lia.
Qed.

(* cancelled and all_written are stable *)
Lemma cancelled_stable w t : cancelled w = true -> cancelled (wexec1 w t) = true.
Proof.
  destruct w as [d0 wt gt m c g k ca pb0 wr wd lo].
  unfold wexec1, wstep, cons_step, cancel_step, closer_step, prod_step, wake, set_cons, set_d, set_mu_cons, set_mu_cg.
  cbn [d waiter gated mu cons cg closer cancelled pb wreturned wdelivered g_lost]. intros ->.
  destruct t; wcrush.
Qed.

(* every sequence of effective steps after cancel is shorter than the measure *)
Fixpoint effective (w : wst) (sched : list thr) : bool :=
  match sched with
  | [] => true
  | t :: r => match wstep w t with Some (_, w') => effective w' r | None => false end
  end.

Lemma all_written_stable w t : gated w = true -> CInv w -> cancelled w = true -> all_written (wexec1 w t) = true.
Proof.
  intros Hg I Hc. pose proof (wstep_cinv w t Hg I) as I'. apply (c_written _ I'). apply cancelled_stable; auto.
Qed.

Lemma close_terminates_from w sched : gated w = true -> CInv w -> cancelled w = true ->
  effective w sched = true -> N.of_nat (length sched) <= mu_close w.
Proof.
  revert w. induction sched as [|t r IH]; intros w Hg I Hc He; [cbn; lia|].
  cbn [effective] in He. destruct (wstep w t) as [[l w']|] eqn:Es; [|discriminate].
  pose proof (close_measure w t l w' Hc (c_written _ I Hc) Es) as Hm.
  assert (Ew : w' = wexec1 w t) by (unfold wexec1; rewrite Es; auto).
  assert (IH' : N.of_nat (length r) <= mu_close w').
  { apply IH; auto; subst w'.
    - rewrite gated_exec1; auto.
    - apply wstep_cinv; auto.
    - apply cancelled_stable; auto. }
  cbn [length]. lia.
Qed.

(* C12_close_terminates *)
Lemma close_terminates wt n ps sched0 sched : let w := wrun wt true n ps sched0 in
  cancelled w = true -> effective w sched = true ->
  N.of_nat (length sched) <= 16 * N.of_nat n + 26.
Proof.
  intros w Hc He.
  pose proof (wexec_cinv (winit wt true n ps) sched0 eq_refl (winit_cinv _ _ _)) as I.
  fold (wrun wt true n ps sched0) in I. fold w in I.
  assert (Hg : gated w = true).
  { unfold w, wrun. clear. generalize (winit wt true n ps) (eq_refl : gated (winit wt true n ps) = true).
    induction sched0 as [|t r IH]; intros w0 H; [exact H|].
    change (wexec w0 (t :: r)) with (wexec (wexec1 w0 t) r). apply IH. rewrite gated_exec1; auto. }
  pose proof (close_terminates_from w sched Hg I Hc He) as H.
  pose proof (mu_close_bound w) as Hb.
  destruct (wrun_ring wt true n ps sched0) as (s' & E). fold w in E.
  assert (Hs : size (d w) = N.of_nat n) by (rewrite E; unfold run; rewrite size_exec, size_init; auto).
  rewrite Hs in Hb. clearbody w. lia.
Qed.
