(* event.go's Event.write (and Enabled), re-translated by srcgen on every run (Gen/EventSrc.v): the end marker, the
   line break, ONE WriteLevel on the event's writer with the finished line, and only then the event goes back to the
   pool.  The receiver is the record of Event's scalar fields (assumed non-nil: the nil case is the nil-guard obligation
   over go2coq's method table); the writer w is opaque (its answer is the environment's); putEvent is logged like an
   external call; enc.AppendEndMarker / AppendLineBreak are the translated functions of internal/json (Gen/JsonSrc.v),
   proved equal to the model in Proofs/SrcJsonP.v. *)
From Verif Require Import Base.Prelude Base.GoSem Base.GoEff Base.GoExt Enc.JsonEnc Enc.GoStd Gen.JsonSrc Proofs.SrcJsonP Gen.EventSrc.
Open Scope Z_scope.

Definition put_call : ocall := OCall []%N [112;117;116;69;118;101;110;116]%N [].
Definition write_level_call (lvl : Z) (line : list N) : ocall :=
  OCall [119]%N [87;114;105;116;101;76;101;118;101;108]%N [OVInt lvl; OVBytes line].

(* the finished line: what is in the buffer, the end marker, the line break *)
Definition finished (buf : list N) : list N := JsonEnc.AppendLineBreak (JsonEnc.AppendEndMarker buf).

Theorem write_src (ans : nat -> oval) e :
  exists e', EventSrc.write ans e =
    Ok (if (Event_level e =? 7) then None
        else if Event_w e then oval_err (oval_snd (ans (length (Event_calls e)))) else None, e') /\
    Event_level e' = Event_level e /\ Event_w e' = Event_w e /\
    Event_buf e' = (if (Event_level e =? 7) then Event_buf e else finished (Event_buf e)) /\
    Event_calls e' = Event_calls e ++
      (if (Event_level e =? 7) then [] else if Event_w e then [write_level_call (Event_level e) (finished (Event_buf e))] else [])
      ++ [put_call].
Proof.
  destruct e as [buf w lvl stk skip calls]. unfold EventSrc.write. cbv zeta.
  cbn [Event_buf Event_w Event_level Event_calls].
  destruct (lvl =? 7) eqn:E; cbn [negb].
  - eexists. split; [reflexivity|]. cbn. repeat split; reflexivity.
  - rewrite AppendEndMarker_src. cbn [bind]. unfold set_Event_buf. cbn [Event_buf Event_w Event_level Event_calls].
    rewrite AppendLineBreak_src. cbn [bind].
    destruct w.
    + eexists. split; [reflexivity|]. unfold set_Event_calls, finished. cbn. rewrite <- app_assoc. repeat split; reflexivity.
    + eexists. split; [reflexivity|]. unfold set_Event_calls, finished. cbn. repeat split; reflexivity.
Qed.

Theorem Enabled_src e : EventSrc.Enabled e = Ok (negb (Event_level e =? 7), e).
Proof. reflexivity. Qed.

Lemma event_counts : length EventSrc.translated_functions = 2%nat /\ length EventSrc.skipped_functions = 0%nat.
Proof. split; reflexivity. Qed.
