(* The sequential sampler model (Lts/Sampler.v: basic_sample, burst_inc) is equal to the translation of
   sampler.go's BasicSampler.Sample and BurstSampler.inc that srcgen regenerates on every run (Gen/SamplerSrc.v).
   A method with a pointer receiver of a struct type becomes a function of the record of the struct's scalar fields that
   returns the updated record next to its result; sync/atomic operations on a field are a read / modify / write of that
   field (the sequential reading of one call; what interleaved calls do is the subject of the concurrent LTS, whose
   step IS this function); TimestampFunc() is the oracle parameter clk. *)
From Verif Require Import Base.Prelude Base.GoSem Enc.JsonEnc Enc.GoStd Misc.Level Lts.Sampler Gen.SamplerSrc.
Open Scope Z_scope.

Lemma wrapu32_inc c : wrapu 32 (c + 1)%N = inc32 c.
Proof. reflexivity. Qed.

Theorem BasicSampler_Sample_src n cnt lvl :
  BasicSampler_Sample {| BasicSampler_N := n; BasicSampler_counter := cnt |} lvl =
  Ok (fst (basic_sample n cnt), {| BasicSampler_N := n; BasicSampler_counter := snd (basic_sample n cnt) |}).
Proof.
  unfold BasicSampler_Sample, basic_sample. cbn [BasicSampler_N BasicSampler_counter].
  destruct (n =? 0)%N eqn:E0; [reflexivity|].
  destruct (n =? 1)%N eqn:E1; [reflexivity|].
  cbv zeta. unfold set_BasicSampler_counter. cbn [BasicSampler_N BasicSampler_counter negb guard fst snd].
  rewrite wrapu32_inc. reflexivity.
Qed.

Theorem BurstSampler_inc_src clk burst period cnt resetAt :
  inc clk {| BurstSampler_Burst := burst; BurstSampler_Period := period; BurstSampler_counter := cnt; BurstSampler_resetAt := resetAt |} =
  Ok (let '(c, cnt', resetAt') := burst_inc period cnt resetAt (t_unixnano clk) in
      (c, {| BurstSampler_Burst := burst; BurstSampler_Period := period; BurstSampler_counter := cnt'; BurstSampler_resetAt := resetAt' |})).
Proof.
  unfold inc, burst_inc. cbv zeta. cbn [BurstSampler_resetAt].
  rewrite Z.geb_leb. destruct (resetAt <=? t_unixnano clk) eqn:E.
  - unfold set_BurstSampler_counter, set_BurstSampler_resetAt.
    cbn [BurstSampler_Burst BurstSampler_Period BurstSampler_counter BurstSampler_resetAt].
    rewrite Z.eqb_refl. cbn [negb]. reflexivity.
  - unfold set_BurstSampler_counter. cbn [BurstSampler_Burst BurstSampler_Period BurstSampler_counter BurstSampler_resetAt].
    rewrite wrapu32_inc. reflexivity.
Qed.

Lemma sampler_counts : length SamplerSrc.translated_functions = 2%nat /\ length SamplerSrc.skipped_functions = 3%nat.
Proof. split; reflexivity. Qed.
