(* The sequential sampler model (Lts/Sampler.v: basic_sample, burst_inc, sample) is equal to the translation of
   sampler.go that srcgen regenerates on every run (Gen/SamplerSrc.v): BasicSampler.Sample, BurstSampler.inc,
   BurstSampler.Sample, LevelSampler.Sample.
   A method with a receiver of a struct type becomes a function of the record of the struct's scalar fields that
   returns the updated record next to its result; sync/atomic operations on a field are a read / modify / write of that
   field (the sequential reading of one call; what interleaved calls do is the subject of the concurrent LTS, whose
   step IS this function); TimestampFunc() is the oracle parameter clk; the interface-typed fields (NextSampler, the five
   per-level samplers) are opaque (Base/GoExt.v): a non-nil flag each, calls through them logged and answered by the
   environment [ans]. *)
From Verif Require Import Base.Prelude Base.GoSem Base.GoEff Base.GoExt Enc.JsonEnc Enc.GoStd Misc.Level Lts.Sampler Gen.SamplerSrc.
Open Scope Z_scope.

Lemma wrapu32_inc c : wrapu 32 (c + 1)%N = inc32 c.
Proof. reflexivity. Qed.

Theorem BasicSampler_Sample_src n cnt lvl :
  BasicSampler_Sample {| BasicSampler_N := n; BasicSampler_counter := cnt |} lvl =
  Ok (fst (basic_sample n cnt), {| BasicSampler_N := n; BasicSampler_counter := snd (basic_sample n cnt) |}).
Proof.
  unfold BasicSampler_Sample, basic_sample. cbn [BasicSampler_N BasicSampler_counter].
  destruct (n =? 0)%N eqn:E0; [reflexivity|].
  destruct (n =? 1)%N eqn:E1; [reflexivity|].
  cbv zeta. unfold set_BasicSampler_counter. cbn [BasicSampler_N BasicSampler_counter negb guard fst snd].
  rewrite wrapu32_inc. reflexivity.
Qed.

Definition burst_rec (burst : N) (period : Z) (hasnext : bool) (cnt : N) (resetAt : Z) (calls : list ocall) : BurstSampler_st :=
  {| BurstSampler_Burst := burst; BurstSampler_Period := period; BurstSampler_NextSampler := hasnext;
     BurstSampler_counter := cnt; BurstSampler_resetAt := resetAt; BurstSampler_calls := calls |}.

Theorem BurstSampler_inc_src clk burst period hasnext cnt resetAt calls :
  inc clk (burst_rec burst period hasnext cnt resetAt calls) =
  Ok (let '(c, cnt', resetAt') := burst_inc period cnt resetAt (t_unixnano clk) in
      (c, burst_rec burst period hasnext cnt' resetAt' calls)).
Proof.
  unfold inc, burst_inc, burst_rec. cbv zeta. cbn [BurstSampler_resetAt].
  rewrite Z.geb_leb. destruct (resetAt <=? t_unixnano clk) eqn:E.
  - unfold set_BurstSampler_counter, set_BurstSampler_resetAt.
    cbn [BurstSampler_Burst BurstSampler_Period BurstSampler_NextSampler BurstSampler_counter BurstSampler_resetAt BurstSampler_calls].
    rewrite Z.eqb_refl. cbn [negb]. reflexivity.
  - unfold set_BurstSampler_counter.
    cbn [BurstSampler_Burst BurstSampler_Period BurstSampler_NextSampler BurstSampler_counter BurstSampler_resetAt BurstSampler_calls].
    rewrite wrapu32_inc. reflexivity.
Qed.

Definition next_call (lvl : Z) : ocall := OCall [78;101;120;116;83;97;109;112;108;101;114]%N [83;97;109;112;108;101]%N [OVInt lvl].

(* BurstSampler.Sample: inside the burst -> admitted without asking; otherwise the next sampler decides (reject if
   none).  [ans] answers the next sampler's verdict when it is consulted. *)
Theorem BurstSampler_Sample_src (ans : nat -> oval) clk burst period next cnt resetAt calls lvl :
  (forall nx, next = Some nx -> ans (length calls) = OVBool (fst (sample nx (t_unixnano clk) lvl))) ->
  let hasnext := match next with Some _ => true | None => false end in
  exists cnt' resetAt' calls',
    BurstSampler_Sample ans clk (burst_rec burst period hasnext cnt resetAt calls) lvl =
      Ok (fst (sample (SBurst burst period next cnt resetAt) (t_unixnano clk) lvl), burst_rec burst period hasnext cnt' resetAt' calls') /\
    (match snd (sample (SBurst burst period next cnt resetAt) (t_unixnano clk) lvl) with
     | SBurst _ _ _ c r => c = cnt' /\ r = resetAt' | _ => False end) /\
    (calls' = calls \/ calls' = calls ++ [next_call lvl]).
Proof.
  intros Hans hasnext. unfold BurstSampler_Sample. cbv zeta.
  change (BurstSampler_Burst (burst_rec burst period hasnext cnt resetAt calls)) with burst.
  change (BurstSampler_Period (burst_rec burst period hasnext cnt resetAt calls)) with period.
  cbn [sample].
  assert (Hnext : forall c r, exists calls',
     (if negb (BurstSampler_NextSampler (burst_rec burst period hasnext c r calls)) then Ok (false, burst_rec burst period hasnext c r calls)
      else (let o1 := ans (length (BurstSampler_calls (burst_rec burst period hasnext c r calls))) in
            let s := set_BurstSampler_calls (burst_rec burst period hasnext c r calls)
                       (BurstSampler_calls (burst_rec burst period hasnext c r calls) ++ [next_call lvl]) in
            Ok (oval_bool o1, s))) =
     Ok (fst (match next with
              | None => (false, SBurst burst period None c r)
              | Some nx => let '(rr, nx') := sample nx (t_unixnano clk) lvl in (rr, SBurst burst period (Some nx') c r)
              end), burst_rec burst period hasnext c r calls') /\
     (match snd (match next with
              | None => (false, SBurst burst period None c r)
              | Some nx => let '(rr, nx') := sample nx (t_unixnano clk) lvl in (rr, SBurst burst period (Some nx') c r)
              end) with SBurst _ _ _ c0 r0 => c0 = c /\ r0 = r | _ => False end) /\
     (calls' = calls \/ calls' = calls ++ [next_call lvl])).
  { intros c r. unfold hasnext. destruct next as [nx|]; cbn [burst_rec BurstSampler_NextSampler BurstSampler_calls negb].
    - cbv zeta. rewrite (Hans nx eq_refl). destruct (sample nx (t_unixnano clk) lvl) as [rr nx']. cbn [fst snd oval_bool].
      exists (calls ++ [next_call lvl]). split; [reflexivity|]. split; [split; reflexivity|right; reflexivity].
    - exists calls. split; [reflexivity|]. split; [split; reflexivity|left; reflexivity]. }
  destruct ((0 <? burst)%N && (0 <? period)) eqn:Eb.
  - rewrite BurstSampler_inc_src. destruct (burst_inc period cnt resetAt (t_unixnano clk)) as [[c cnt'] resetAt'] eqn:Ei.
    cbn [bind]. change (BurstSampler_Burst (burst_rec burst period hasnext cnt' resetAt' calls)) with burst.
    destruct (c <=? burst)%N.
    + exists cnt', resetAt', calls. cbn [fst snd]. split; [reflexivity|]. split; [split; reflexivity|left; reflexivity].
    + destruct (Hnext cnt' resetAt') as (calls' & E & Hs & Hc). exists cnt', resetAt', calls'. split; [exact E|]. split; [exact Hs|exact Hc].
  - destruct (Hnext cnt resetAt) as (calls' & E & Hs & Hc). exists cnt, resetAt, calls'. split; [exact E|]. split; [exact Hs|exact Hc].
Qed.

(* LevelSampler.Sample: the sampler configured for the event's level decides; a level without a configured sampler -
   any of the 256 levels - is admitted *)
Definition level_rec (t d i w e : bool) (calls : list ocall) : LevelSampler_st :=
  {| LevelSampler_TraceSampler := t; LevelSampler_DebugSampler := d; LevelSampler_InfoSampler := i;
     LevelSampler_WarnSampler := w; LevelSampler_ErrorSampler := e; LevelSampler_calls := calls |}.
Definition is_some {A} (o : option A) : bool := match o with Some _ => true | None => false end.

Theorem LevelSampler_Sample_src (ans : nat -> oval) now t d i w e calls lvl :
  (forall x, (lvl = TraceLevel /\ t = Some x) \/ (lvl = DebugLevel /\ d = Some x) \/ (lvl = InfoLevel /\ i = Some x) \/
             (lvl = WarnLevel /\ w = Some x) \/ (lvl = ErrorLevel /\ e = Some x) ->
             ans (length calls) = OVBool (fst (sample x now lvl))) ->
  exists calls', LevelSampler_Sample ans (level_rec (is_some t) (is_some d) (is_some i) (is_some w) (is_some e) calls) lvl =
    Ok (fst (sample (SLevel t d i w e) now lvl), level_rec (is_some t) (is_some d) (is_some i) (is_some w) (is_some e) calls').
Proof.
  intros Hans. unfold LevelSampler_Sample. cbv zeta. cbn [sample].
  change TraceLevel with (-1) in *. change DebugLevel with 0 in *. change InfoLevel with 1 in *.
  change WarnLevel with 2 in *. change ErrorLevel with 3 in *.
  unfold level_rec. cbn [LevelSampler_TraceSampler LevelSampler_DebugSampler LevelSampler_InfoSampler LevelSampler_WarnSampler LevelSampler_ErrorSampler LevelSampler_calls].
  destruct (lvl =? -1) eqn:E1.
  { apply Z.eqb_eq in E1. destruct t as [x|]; cbn [is_some].
    - rewrite (Hans x) by tauto. destruct (sample x now lvl). eexists. cbn. reflexivity.
    - eexists. reflexivity. }
  destruct (lvl =? 0) eqn:E2.
  { apply Z.eqb_eq in E2. destruct d as [x|]; cbn [is_some].
    - rewrite (Hans x) by tauto. destruct (sample x now lvl). eexists. cbn. reflexivity.
    - eexists. reflexivity. }
  destruct (lvl =? 1) eqn:E3.
  { apply Z.eqb_eq in E3. destruct i as [x|]; cbn [is_some].
    - rewrite (Hans x) by tauto. destruct (sample x now lvl). eexists. cbn. reflexivity.
    - eexists. reflexivity. }
  destruct (lvl =? 2) eqn:E4.
  { apply Z.eqb_eq in E4. destruct w as [x|]; cbn [is_some].
    - rewrite (Hans x) by tauto. destruct (sample x now lvl). eexists. cbn. reflexivity.
    - eexists. reflexivity. }
  destruct (lvl =? 3) eqn:E5.
  { apply Z.eqb_eq in E5. destruct e as [x|]; cbn [is_some].
    - rewrite (Hans x) by tauto. destruct (sample x now lvl). eexists. cbn. reflexivity.
    - eexists. reflexivity. }
  eexists. reflexivity.
Qed.

(* RandomSampler (a uint32 named type: its value is the parameter): one call admits exactly when the sampler is positive
   and the pseudo-random source - the environment, [rnd n] = what rand.Intn(n) answers for this call - answers 0; the level
   plays no part.  With rand.Intn's contract 0 <= rnd n < n that is a share of 1/N for a uniform source; N = 1 admits
   every event (the only value below 1 is 0) and N = 0 none. *)
Theorem RandomSampler_Sample_src (rnd : Z -> Z) (s : N) lvl :
  SamplerSrc.RandomSampler_Sample rnd s lvl = Ok ((0 <? s)%N && (rnd (Z.of_N s) =? 0)).
Proof.
  unfold SamplerSrc.RandomSampler_Sample. destruct (N.leb_spec s 0) as [H|H].
  - replace (0 <? s)%N with false by (symmetry; apply N.ltb_ge; exact H). reflexivity.
  - replace (0 <? s)%N with true by (symmetry; apply N.ltb_lt; exact H). cbn [andb].
    destruct (rnd (Z.of_N s) =? 0); reflexivity.
Qed.

Corollary RandomSampler_one_admits_all (rnd : Z -> Z) lvl : (forall n, 0 <= rnd n < Z.max n 1) ->
  SamplerSrc.RandomSampler_Sample rnd 1%N lvl = Ok true.
Proof.
  intros H. rewrite RandomSampler_Sample_src. cbn [N.ltb N.compare andb Z.of_N].
  pose proof (H 1) as H1. replace (rnd 1 =? 0) with true by lia. reflexivity.
Qed.

Corollary RandomSampler_zero_admits_none (rnd : Z -> Z) lvl : SamplerSrc.RandomSampler_Sample rnd 0%N lvl = Ok false.
Proof. reflexivity. Qed.

Lemma sampler_counts : length SamplerSrc.translated_functions = 5%nat /\ length SamplerSrc.skipped_functions = 0%nat.
Proof. split; reflexivity. Qed.
