(* Lemmas about Misc/Console.v.  The property theorems (Properties/C16.v) are
   closed by [exact] from the lemmas here. *)
From Coq Require Import String Ascii Permutation Sorted.
From Verif Require Import Base.Prelude Misc.Console.

(* ------------------------------------------------------------------ *)
(* byte strings: equality and Go's order                               *)
(* ------------------------------------------------------------------ *)

Lemma beq_eq a b : beq a b = true <-> a = b.
Proof. unfold beq. apply list_eqb_eq. intros x y. apply N.eqb_eq. Qed.

Lemma beq_refl a : beq a a = true.
Proof. apply beq_eq. reflexivity. Qed.

Lemma beq_neq a b : beq a b = false <-> a <> b.
Proof.
  split.
  - intros H E. apply beq_eq in E. congruence.
  - intros H. destruct (beq a b) eqn:E; auto. apply beq_eq in E. contradiction.
Qed.

Lemma beq_sym a b : beq a b = beq b a.
Proof.
  destruct (beq a b) eqn:E1, (beq b a) eqn:E2; auto.
  - apply beq_eq in E1. subst. rewrite beq_refl in E2. discriminate.
  - apply beq_eq in E2. subst. rewrite beq_refl in E1. discriminate.
Qed.

Lemma mem_In k l : mem k l = true <-> In k l.
Proof.
  unfold mem. rewrite existsb_exists. split.
  - intros [x [Hx E]]. apply beq_eq in E. subst. auto.
  - intros H. exists k. split; auto. apply beq_refl.
Qed.

Lemma mem_not_In k l : mem k l = false <-> ~ In k l.
Proof.
  split.
  - intros H HI. apply mem_In in HI. congruence.
  - intros H. destruct (mem k l) eqn:E; auto. apply mem_In in E. contradiction.
Qed.

Definition blt_p (a b : bytes) : Prop := blt a b = true.

Lemma blt_irrefl a : blt a a = false.
Proof. induction a as [|x a IH]; cbn; auto. rewrite N.ltb_irrefl. auto. Qed.

Lemma blt_trans a b c : blt a b = true -> blt b c = true -> blt a c = true.
Proof.
  revert b c. induction a as [|x a IH]; intros [|y b] [|z c]; cbn; try discriminate; auto.
  destruct (x <? y)%N eqn:Exy.
  - intros _. destruct (y <? z)%N eqn:Eyz.
    + intros _. replace (x <? z)%N with true by lia. auto.
    + destruct (z <? y)%N eqn:Ezy; try discriminate. intros _.
      replace (x <? z)%N with true by lia. auto.
  - destruct (y <? x)%N eqn:Eyx; try discriminate. intros Hab.
    assert (x = y) by lia. subst y.
    destruct (x <? z)%N eqn:Exz; auto.
    destruct (z <? x)%N eqn:Ezx; try discriminate. intros Hbc. eapply IH; eauto.
Qed.

Lemma blt_total a b : a <> b -> blt a b = true \/ blt b a = true.
Proof.
  revert b. induction a as [|x a IH]; intros [|y b] H; cbn; auto; try congruence.
  destruct (x <? y)%N eqn:Exy; auto.
  destruct (y <? x)%N eqn:Eyx; auto.
  assert (x = y) by lia. subst y. apply IH. congruence.
Qed.

(* ------------------------------------------------------------------ *)
(* strict total orders given as boolean comparators                    *)
(* ------------------------------------------------------------------ *)

Record strict_total {A} (less : A -> A -> bool) : Prop := {
  st_irrefl : forall a, less a a = false;
  st_trans : forall a b c, less a b = true -> less b c = true -> less a c = true;
  st_total : forall a b, a <> b -> less a b = true \/ less b a = true
}.

Lemma st_asym {A} (less : A -> A -> bool) : strict_total less ->
  forall a b, less a b = true -> less b a = false.
Proof.
  intros S a b H. destruct (less b a) eqn:E; auto.
  pose proof (st_trans _ S _ _ _ H E) as T. rewrite (st_irrefl _ S) in T. discriminate.
Qed.

Lemma blt_strict_total : strict_total blt.
Proof. constructor; [apply blt_irrefl | apply blt_trans | apply blt_total]. Qed.

(* sort.IsSorted + distinct elements + strict total comparator = strongly sorted *)
Lemma go_sorted_strongly {A} (less : A -> A -> bool) : strict_total less ->
  forall l, NoDup l -> go_sorted less l -> StronglySorted (fun a b => less a b = true) l.
Proof.
  intros S l. induction l as [|a l IH]; intros ND GS; [constructor|].
  inversion ND as [|? ? Hnin ND']; subst.
  destruct l as [|b t].
  - constructor; constructor.
  - destruct GS as [Hba GS].
    specialize (IH ND' GS).
    assert (Hab : less a b = true).
    { destruct (st_total _ S a b) as [H|H]; auto.
      - intros E. subst. apply Hnin. left. auto.
      - congruence. }
    constructor; auto.
    constructor; auto.
    inversion IH as [|? ? ? Hall]; subst.
    eapply Forall_impl; [|exact Hall]. cbn. intros x Hx. eapply (st_trans _ S); eauto.
Qed.

Lemma strongly_go_sorted {A} (less : A -> A -> bool) : strict_total less ->
  forall l, StronglySorted (fun a b => less a b = true) l -> go_sorted less l.
Proof.
  intros S l H. induction H as [|a l Hs IH Hall]; cbn; auto.
  destruct l as [|b t]; auto. split; auto.
  inversion Hall; subst. apply (st_asym _ S). auto.
Qed.

(* two strongly sorted permutations of one another are equal *)
Lemma strongly_sorted_unique {A} (R : A -> A -> Prop) :
  (forall a b, R a b -> R b a -> False) ->
  forall l1 l2, StronglySorted R l1 -> StronglySorted R l2 -> Permutation l1 l2 -> l1 = l2.
Proof.
  intros Hasym l1. induction l1 as [|a t1 IH]; intros l2 S1 S2 P.
  - apply Permutation_nil in P. auto.
  - destruct l2 as [|b t2]; [apply Permutation_sym, Permutation_nil in P; discriminate|].
    inversion S1 as [|? ? S1' F1]; subst. inversion S2 as [|? ? S2' F2]; subst.
    assert (a = b).
    { assert (Ha : In a (b :: t2)) by (eapply Permutation_in; [exact P|left; auto]).
      assert (Hb : In b (a :: t1)) by (eapply Permutation_in; [apply Permutation_sym; exact P|left; auto]).
      destruct Ha as [Ha|Ha]; auto. destruct Hb as [Hb|Hb]; auto.
      rewrite Forall_forall in F1, F2. exfalso. eapply Hasym; [apply F1; exact Hb|apply F2; exact Ha]. }
    subst b. f_equal. apply IH; auto. eapply Permutation_cons_inv; eauto.
Qed.

(* the outcome of a correct sort of distinct names is unique *)
Lemma sort_result_unique {A} (less : A -> A -> bool) : strict_total less ->
  forall l l1 l2, NoDup l -> sort_result less l l1 -> sort_result less l l2 -> l1 = l2.
Proof.
  intros S l l1 l2 ND [P1 G1] [P2 G2].
  apply (strongly_sorted_unique (fun a b => less a b = true)).
  - intros a b H1 H2. rewrite (st_asym _ S _ _ H1) in H2. discriminate.
  - apply go_sorted_strongly; auto. eapply Permutation_NoDup; eauto.
  - apply go_sorted_strongly; auto. eapply Permutation_NoDup; eauto.
  - eapply Permutation_trans; [apply Permutation_sym; exact P1|exact P2].
Qed.

Lemma insert_perm {A} (less : A -> A -> bool) x l : Permutation (x :: l) (insert less x l).
Proof.
  induction l as [|y t IH]; cbn; auto.
  destruct (less x y); auto.
  eapply Permutation_trans; [apply perm_swap|]. constructor. auto.
Qed.

Lemma isort_perm {A} (less : A -> A -> bool) l : Permutation l (isort less l).
Proof.
  induction l as [|x t IH]; cbn; auto.
  eapply Permutation_trans; [|apply insert_perm]. constructor. auto.
Qed.

Lemma insert_go_sorted {A} (less : A -> A -> bool) : strict_total less ->
  forall x l, go_sorted less l -> go_sorted less (insert less x l).
Proof.
  intros S x l. induction l as [|y t IH]; intros G; cbn [insert]; [cbn; auto|].
  destruct (less x y) eqn:E.
  - cbn [go_sorted]. split; auto. apply (st_asym _ S); auto.
  - assert (Gt : go_sorted less t) by (destruct t; cbn in *; tauto).
    specialize (IH Gt).
    destruct t as [|z t'].
    + cbn. auto.
    + cbn [insert] in *. destruct (less x z) eqn:E2.
      * cbn [go_sorted] in *. tauto.
      * cbn [go_sorted] in *. tauto.
Qed.

Lemma isort_go_sorted {A} (less : A -> A -> bool) : strict_total less ->
  forall l, go_sorted less (isort less l).
Proof.
  intros S l. induction l as [|x t IH]; cbn [isort]; [cbn; auto|].
  apply insert_go_sorted; auto.
Qed.

Lemma isort_sort_result {A} (less : A -> A -> bool) : strict_total less ->
  forall l, sort_result less l (isort less l).
Proof. intros S l. split; [apply isort_perm|apply isort_go_sorted; auto]. Qed.

(* ------------------------------------------------------------------ *)
(* orderFields: the comparator is a strict total order on names        *)
(* ------------------------------------------------------------------ *)

Lemma last_index_from_some fo : forall s k acc i,
  last_index_from s fo k acc = Some i ->
  acc = Some i \/ exists j, i = s + j /\ nth_error fo j = Some k.
Proof.
  induction fo as [|x t IH]; intros s k acc i H; cbn in H; auto.
  apply IH in H. destruct H as [H|[j [Hi Hj]]].
  - destruct (beq x k) eqn:E; auto.
    inversion H; subst. right. exists 0. split; [lia|]. apply beq_eq in E. subst. reflexivity.
  - right. exists (S j). split; [lia|]. exact Hj.
Qed.

Lemma last_index_from_none fo : forall s k acc,
  last_index_from s fo k acc = None <-> acc = None /\ ~ In k fo.
Proof.
  induction fo as [|x t IH]; intros s k acc; cbn.
  - tauto.
  - rewrite IH. destruct (beq x k) eqn:E.
    + apply beq_eq in E. subst. split; [intros [H _]; discriminate|intros [_ H]; exfalso; apply H; auto].
    + apply beq_neq in E. split; intros [H1 H2]; split; auto; tauto.
Qed.

Lemma field_index_some fo k i : field_index fo k = Some i -> nth_error fo i = Some k.
Proof.
  unfold field_index. intros H. apply last_index_from_some in H.
  destruct H as [H|[j [Hi Hj]]]; [discriminate|]. cbn in Hi. subst. auto.
Qed.

Lemma field_index_none fo k : field_index fo k = None <-> ~ In k fo.
Proof. unfold field_index. rewrite last_index_from_none. tauto. Qed.

Lemma field_index_in fo k : (exists i, field_index fo k = Some i) <-> In k fo.
Proof.
  split.
  - intros [i H]. apply field_index_some in H. eapply nth_error_In; eauto.
  - intros H. destruct (field_index fo k) eqn:E; eauto. apply field_index_none in E. contradiction.
Qed.

Lemma field_index_inj fo a b i : field_index fo a = Some i -> field_index fo b = Some i -> a = b.
Proof. intros Ha Hb. apply field_index_some in Ha, Hb. congruence. Qed.

Lemma order_less_strict_total fo : strict_total (order_less fo).
Proof.
  constructor.
  - intros a. unfold order_less. destruct (field_index fo a); [apply Nat.ltb_irrefl|apply blt_irrefl].
  - intros a b c. unfold order_less.
    destruct (field_index fo a), (field_index fo b), (field_index fo c); intros H1 H2; try discriminate; auto.
    + apply Nat.ltb_lt in H1, H2. apply Nat.ltb_lt. lia.
    + eapply blt_trans; eauto.
  - intros a b Hab. unfold order_less.
    destruct (field_index fo a) as [i|] eqn:Ea, (field_index fo b) as [j|] eqn:Eb; auto.
    + destruct (Nat.eq_dec i j) as [E|E].
      * subst. exfalso. apply Hab. eapply field_index_inj; eauto.
      * destruct (Nat.ltb_spec i j); auto. right. apply Nat.ltb_lt. lia.
    + apply blt_total; auto.
Qed.

Lemma less_of_strict_total o : strict_total (less_of o).
Proof.
  unfold less_of. destruct (co_fields_order o); [apply blt_strict_total|apply order_less_strict_total].
Qed.

(* ------------------------------------------------------------------ *)
(* sort.Search                                                         *)
(* ------------------------------------------------------------------ *)

Lemma div2_mid i j : i < j -> i <= Nat.div2 (i + j) < j.
Proof.
  intros H. rewrite Nat.div2_div.
  pose proof (Nat.div_mod (i + j) 2 ltac:(lia)) as D.
  pose proof (Nat.mod_upper_bound (i + j) 2 ltac:(lia)) as U.
  set (q := (i + j) / 2) in *. set (m := (i + j) mod 2) in *. clearbody q m. lia.
Qed.

(* the fuel [n] handed to the loop by [search] suffices: any larger fuel gives the same answer *)
Lemma search_loop_fuel f : forall fuel1 fuel2 i j,
  j - i <= fuel1 -> j - i <= fuel2 -> search_loop fuel1 f i j = search_loop fuel2 f i j.
Proof.
  induction fuel1 as [|fu1 IH]; intros fuel2 i j H1 H2.
  - cbn [search_loop]. destruct fuel2; cbn [search_loop]; auto. destruct (Nat.ltb_spec i j); auto. lia.
  - destruct fuel2 as [|fu2].
    + cbn [search_loop]. destruct (Nat.ltb_spec i j); auto. lia.
    + cbn [search_loop]. destruct (Nat.ltb_spec i j) as [L|L]; auto.
      pose proof (div2_mid i j L) as M.
      destruct (f (Nat.div2 (i + j))); apply IH; lia.
Qed.

Lemma search_fuel_suffices n f fuel : n <= fuel -> search_loop fuel f 0 n = search n f.
Proof. intros H. unfold search. apply search_loop_fuel; lia. Qed.

Lemma search_loop_bounds f : forall fuel i j, i <= j -> i <= search_loop fuel f i j <= j.
Proof.
  induction fuel as [|fu IH]; intros i j H; cbn [search_loop]; [lia|].
  destruct (Nat.ltb_spec i j) as [L|L]; [|lia].
  pose proof (div2_mid i j L) as M.
  destruct (f (Nat.div2 (i + j))).
  - specialize (IH i (Nat.div2 (i + j)) ltac:(lia)). lia.
  - specialize (IH (Nat.div2 (i + j) + 1) j ltac:(lia)). lia.
Qed.

Lemma search_le n f : search n f <= n.
Proof. unfold search. pose proof (search_loop_bounds f n 0 n ltac:(lia)). lia. Qed.

Definition monotone (f : nat -> bool) (n : nat) : Prop :=
  forall a b, a <= b -> b < n -> f a = true -> f b = true.

Lemma search_loop_spec f n : monotone f n -> forall fuel i j,
  j - i <= fuel -> i <= j -> j <= n ->
  (forall k, k < i -> f k = false) -> (forall k, j <= k -> k < n -> f k = true) ->
  let r := search_loop fuel f i j in
  (forall k, k < r -> f k = false) /\ (forall k, r <= k -> k < n -> f k = true).
Proof.
  intros Mono. induction fuel as [|fu IH]; intros i j Hf Hij Hjn Lo Hi; cbn [search_loop].
  - assert (i = j) by lia. subst. split; auto.
  - destruct (Nat.ltb_spec i j) as [L|L].
    + pose proof (div2_mid i j L) as M. set (h := Nat.div2 (i + j)) in *.
      destruct (f h) eqn:E.
      * apply IH; try lia; auto.
        intros k Hk1 Hk2. destruct (Nat.le_gt_cases j k); auto.
        apply (Mono h k); auto.
      * apply IH; try lia; auto.
        intros k Hk. destruct (Nat.lt_ge_cases k i); auto.
        destruct (f k) eqn:Ek; auto.
        assert (f h = true) by (apply (Mono k h); auto; lia). congruence.
    + assert (i = j) by lia. subst. split; auto.
Qed.

Lemma search_spec n f : monotone f n ->
  (forall k, k < search n f -> f k = false) /\ (forall k, search n f <= k -> k < n -> f k = true).
Proof.
  intros M. unfold search. apply (search_loop_spec f n M n 0 n); try lia.
Qed.

(* ------------------------------------------------------------------ *)
(* moving the error field to the front                                 *)
(* ------------------------------------------------------------------ *)

Lemma skipn_nth {A} (l : list A) n d : n < length l -> skipn n l = nth n l d :: skipn (S n) l.
Proof.
  revert n. induction l as [|x t IH]; intros [|n] H; cbn in *; try lia; auto.
  apply IH. lia.
Qed.

Lemma split_at {A} (l : list A) n d : n < length l -> l = firstn n l ++ nth n l d :: skipn (S n) l.
Proof. intros H. rewrite <- (skipn_nth l n d H). symmetry. apply firstn_skipn. Qed.

Definition err_pred (fs : list bytes) (i : nat) : bool := negb (blt (nth i fs []) n_error).
Definition err_index (fs : list bytes) : nat := search (length fs) (err_pred fs).

Lemma move_error_front_unfold fs :
  move_error_front fs =
  if (err_index fs <? length fs) && beq (nth (err_index fs) fs []) n_error
  then n_error :: firstn (err_index fs) fs ++ skipn (S (err_index fs)) fs else fs.
Proof. reflexivity. Qed.

(* what the move does, whatever the slice looks like (sorted or not) *)
Lemma move_error_front_cases fs :
  move_error_front fs = fs \/
  exists pre post, fs = pre ++ n_error :: post /\ move_error_front fs = n_error :: pre ++ post.
Proof.
  rewrite move_error_front_unfold.
  destruct (Nat.ltb_spec (err_index fs) (length fs)) as [L|L]; cbn [andb]; auto.
  destruct (beq (nth (err_index fs) fs []) n_error) eqn:E; auto.
  right. apply beq_eq in E.
  exists (firstn (err_index fs) fs), (skipn (S (err_index fs)) fs). split; auto.
  rewrite <- E. apply split_at. auto.
Qed.

Lemma move_error_front_perm fs : Permutation fs (move_error_front fs).
Proof.
  destruct (move_error_front_cases fs) as [H|[pre [post [H1 H2]]]].
  - rewrite H. apply Permutation_refl.
  - rewrite H2. rewrite H1 at 1. apply Permutation_sym, Permutation_middle.
Qed.

Definition not_error (k : bytes) : bool := negb (beq k n_error).

Lemma move_error_front_filter fs :
  filter not_error (move_error_front fs) = filter not_error fs.
Proof.
  destruct (move_error_front_cases fs) as [H|[pre [post [H1 H2]]]].
  - rewrite H. auto.
  - assert (NE : not_error n_error = false) by reflexivity.
    rewrite H2. replace (filter not_error fs) with (filter not_error (pre ++ n_error :: post)) by (rewrite <- H1; auto).
    cbn [filter]. rewrite NE, !filter_app. cbn [filter]. rewrite NE. reflexivity.
Qed.

Lemma strongly_sorted_nth (l : list bytes) : StronglySorted blt_p l ->
  forall a b, a < b -> b < length l -> blt (nth a l []) (nth b l []) = true.
Proof.
  intros S. induction S as [|x l S IH F]; intros a b Hab Hb; cbn in Hb; [lia|].
  destruct b as [|b]; [lia|]. destruct a as [|a]; cbn [nth].
  - rewrite Forall_forall in F. apply F. apply nth_In. lia.
  - apply IH; lia.
Qed.

Lemma err_pred_monotone fs : StronglySorted blt_p fs -> monotone (err_pred fs) (length fs).
Proof.
  intros S a b Hab Hb Ha. unfold err_pred in *.
  destruct (Nat.eq_dec a b) as [E|E]; [subst; auto|].
  pose proof (strongly_sorted_nth fs S a b ltac:(lia) Hb) as Lt.
  destruct (blt (nth b fs []) n_error) eqn:Eb; auto.
  rewrite (blt_trans _ _ _ Lt Eb) in Ha. discriminate.
Qed.

(* on a lexically sorted slice the binary search finds the error field iff it is there *)
Lemma move_error_front_sorted_in pre post :
  StronglySorted blt_p (pre ++ n_error :: post) ->
  move_error_front (pre ++ n_error :: post) = n_error :: pre ++ post.
Proof.
  intros SS. set (fs := pre ++ n_error :: post) in *.
  pose proof (search_spec (length fs) (err_pred fs) (err_pred_monotone fs SS)) as [Lo Hi].
  fold (err_index fs) in Lo, Hi.
  assert (Hlen : length fs = length pre + S (length post)) by (unfold fs; rewrite app_length; reflexivity).
  assert (Hnth : nth (length pre) fs [] = n_error) by (unfold fs; rewrite app_nth2, Nat.sub_diag; auto).
  assert (Hidx : err_index fs = length pre).
  { destruct (Nat.lt_trichotomy (err_index fs) (length pre)) as [H|[H|H]]; auto.
    - (* the predicate is false on [pre] *)
      assert (T : err_pred fs (err_index fs) = true) by (apply Hi; lia).
      unfold err_pred in T.
      pose proof (strongly_sorted_nth fs SS (err_index fs) (length pre) H ltac:(lia)) as Lt.
      rewrite Hnth in Lt. rewrite Lt in T. discriminate.
    - specialize (Lo (length pre) H). unfold err_pred in Lo. rewrite Hnth, blt_irrefl in Lo. discriminate. }
  rewrite move_error_front_unfold, Hidx, Hnth, beq_refl.
  replace (length pre <? length fs) with true by (symmetry; apply Nat.ltb_lt; lia).
  cbn [andb]. unfold fs.
  rewrite firstn_app, Nat.sub_diag, firstn_all. cbn [firstn]. rewrite app_nil_r.
  replace (S (length pre)) with (length pre + 1) by lia.
  rewrite skipn_app. rewrite skipn_all2 by lia.
  replace (length pre + 1 - length pre) with 1 by lia. reflexivity.
Qed.

Lemma move_error_front_notin fs : ~ In n_error fs -> move_error_front fs = fs.
Proof.
  intros H. destruct (move_error_front_cases fs) as [E|[pre [post [H1 _]]]]; auto.
  exfalso. apply H. rewrite H1. apply in_or_app. right. left. auto.
Qed.

(* ------------------------------------------------------------------ *)
(* the event as a map                                                  *)
(* ------------------------------------------------------------------ *)

Lemma lookup_in evt k v : NoDup (map fst evt) -> In (k, v) evt -> lookup evt k = v.
Proof.
  unfold lookup. induction evt as [|[k' v'] t IH]; intros ND H; [destruct H|].
  cbn [find fst]. inversion ND as [|? ? Hnin ND']; subst.
  destruct H as [H|H].
  - inversion H; subst. rewrite beq_refl. auto.
  - destruct (beq k' k) eqn:E.
    + apply beq_eq in E. subst. exfalso. apply Hnin. change k with (fst (k, v)). apply in_map. auto.
    + apply IH; auto.
Qed.

Lemma lookup_notin evt k : ~ In k (map fst evt) -> lookup evt k = CNull.
Proof.
  unfold lookup. induction evt as [|[k' v'] t IH]; intros H; auto.
  cbn [find fst]. destruct (beq k' k) eqn:E.
  - apply beq_eq in E. subst. exfalso. apply H. left. auto.
  - apply IH. intros HI. apply H. right. auto.
Qed.

(* the map does not depend on the order in which it is listed *)
Lemma lookup_perm evt evt' k : NoDup (map fst evt) -> Permutation evt evt' -> lookup evt k = lookup evt' k.
Proof.
  intros ND P.
  assert (ND' : NoDup (map fst evt')) by (eapply Permutation_NoDup; [apply Permutation_map; exact P|auto]).
  destruct (in_dec (list_eq_dec N.eq_dec) k (map fst evt)) as [H|H].
  - apply in_map_iff in H. destruct H as [[k0 v] [E H]]. cbn in E. subst k0.
    rewrite (lookup_in evt k v ND H).
    symmetry. apply lookup_in; auto. eapply Permutation_in; eauto.
  - rewrite (lookup_notin evt k H). symmetry. apply lookup_notin.
    intros HI. apply H. eapply Permutation_in; [apply Permutation_sym, Permutation_map; exact P|auto].
Qed.

Lemma filter_perm {A} (f : A -> bool) l l' : Permutation l l' -> Permutation (filter f l) (filter f l').
Proof.
  induction 1; cbn; auto.
  - destruct (f x); auto.
  - destruct (f x), (f y); auto. apply perm_swap.
  - eapply Permutation_trans; eauto.
Qed.

Lemma collect_perm o l l' : Permutation l l' -> Permutation (collect o l) (collect o l').
Proof. apply filter_perm. Qed.

Lemma collect_nodup o l : NoDup l -> NoDup (collect o l).
Proof. apply NoDup_filter. Qed.

Lemma reserved_spec k : reserved k = true <-> k = n_level \/ k = n_time \/ k = n_message \/ k = n_caller.
Proof.
  unfold reserved. rewrite !orb_true_iff, !beq_eq. tauto.
Qed.

Lemma wanted_spec o evt k :
  In k (wanted o evt) <->
  In k (map fst evt) /\ ~ In k (co_fields_exclude o) /\
  k <> n_level /\ k <> n_time /\ k <> n_message /\ k <> n_caller.
Proof.
  unfold wanted, collect. rewrite filter_In, andb_true_iff, !negb_true_iff, mem_not_In.
  split.
  - intros [H1 [H2 H3]]. repeat split; auto;
      intros E; subst; vm_compute in H3; discriminate.
  - intros [H1 [H2 [H3 [H4 [H5 H6]]]]]. repeat split; auto.
    destruct (reserved k) eqn:E; auto. apply reserved_spec in E. tauto.
Qed.

(* ------------------------------------------------------------------ *)
(* shape of the line                                                   *)
(* ------------------------------------------------------------------ *)

Definition nonempty (s : bytes) : bool := match s with [] => false | _ => true end.

Lemma join_sp_nonempty l : l <> [] -> Forall (fun s => nonempty s = true) l -> join_sp l <> [].
Proof.
  destruct l as [|x t]; [congruence|]. intros _ F. inversion F as [|? ? Hx _]; subst.
  destruct x; [discriminate|]. destruct t; cbn; discriminate.
Qed.

Lemma join_sp_cons x t : t <> [] -> join_sp (x :: t) = x ++ [32%N] ++ join_sp t.
Proof. destruct t; [congruence|reflexivity]. Qed.

(* appending one more non-empty text: a space first unless the buffer is empty (writePart) *)
Lemma join_sp_snoc acc s : Forall (fun s => nonempty s = true) acc ->
  join_sp (acc ++ [s]) = (match join_sp acc with [] => [] | _ => join_sp acc ++ [32%N] end) ++ s.
Proof.
  induction acc as [|a t IH]; intros F; [reflexivity|].
  inversion F as [|? ? Ha Ft]; subst. specialize (IH Ft).
  cbn [app]. rewrite join_sp_cons by (destruct t; discriminate). rewrite IH.
  destruct t as [|b t'].
  - cbn [join_sp]. destruct a; [discriminate|]. cbn [app]. rewrite <- app_assoc. reflexivity.
  - pose proof (join_sp_nonempty (b :: t') ltac:(discriminate) Ft) as NE.
    rewrite (join_sp_cons a (b :: t')) by discriminate.
    destruct (join_sp (b :: t')) eqn:E; [congruence|].
    destruct a; [discriminate|]. cbn [app]. rewrite <- !app_assoc. reflexivity.
Qed.

Lemma join_sp_app a b : Forall (fun s => nonempty s = true) a -> Forall (fun s => nonempty s = true) b ->
  join_sp (a ++ b) =
  match a, b with
  | [], _ => join_sp b
  | _, [] => join_sp a
  | _, _ => join_sp a ++ [32%N] ++ join_sp b
  end.
Proof.
  intros Fa Fb. induction a as [|x t IH]; [reflexivity|].
  destruct b as [|y b']; [rewrite app_nil_r; reflexivity|].
  inversion Fa as [|? ? Hx Ft]; subst. specialize (IH Ft).
  cbn [app]. rewrite join_sp_cons by (destruct t; discriminate). rewrite IH.
  destruct t as [|z t'].
  - reflexivity.
  - rewrite (join_sp_cons x (z :: t')) by discriminate. rewrite <- !app_assoc. reflexivity.
Qed.

Section Shape.
  Variable O : oracles.
  Variable o : copts.
  Variable get : bytes -> cval.

  (* the parts the line begins with: PartsOrder minus PartsExclude, texts that are not empty *)
  Definition rendered_parts : list bytes :=
    filter nonempty (map (part_text O o get) (filter (fun p => negb (mem p (co_parts_exclude o))) (parts_order o))).

  Lemma rendered_parts_nonempty : Forall (fun s => nonempty s = true) rendered_parts.
  Proof. apply Forall_forall. intros s H. apply filter_In in H. tauto. Qed.

  Lemma write_parts_fold ps : forall acc, Forall (fun s => nonempty s = true) acc ->
    fold_left (write_part O o get) ps (join_sp acc) =
    join_sp (acc ++ filter nonempty (map (part_text O o get) (filter (fun p => negb (mem p (co_parts_exclude o))) ps))).
  Proof.
    induction ps as [|p ps IH]; intros acc F; cbn [fold_left filter map].
    - rewrite app_nil_r. reflexivity.
    - unfold write_part at 2. destruct (mem p (co_parts_exclude o)); cbn [negb].
      + apply IH; auto.
      + cbn [map filter]. destruct (part_text O o get p) as [|c s] eqn:E; cbn [nonempty].
        * apply IH; auto.
        * rewrite <- (join_sp_snoc acc (c :: s) F).
          rewrite IH by (apply Forall_app; split; auto).
          rewrite <- app_assoc. reflexivity.
  Qed.

  Lemma write_parts_shape : write_parts O o get = join_sp rendered_parts.
  Proof. unfold write_parts. apply (write_parts_fold (parts_order o) []). constructor. Qed.

  Lemma field_text_eq k : field_text O get k = k ++ [61%N] ++ value_text O (get k).
  Proof.
    unfold field_text, fmt_err_field_name, fmt_field_name.
    destruct (beq k n_error); rewrite <- app_assoc; reflexivity.
  Qed.

  Lemma field_text_nonempty k : nonempty (field_text O get k) = true.
  Proof. rewrite field_text_eq. destruct k; reflexivity. Qed.

  Lemma render_fields_join fs : render_fields O get fs = join_sp (map (field_text O get) fs).
  Proof.
    induction fs as [|f t IH]; [reflexivity|].
    cbn [render_fields map]. rewrite IH. destruct t as [|g t']; [cbn; rewrite app_nil_r; reflexivity|].
    rewrite join_sp_cons by discriminate. reflexivity.
  Qed.

  (* Write's output: the rendered parts, then the fields, single spaces between, one final newline *)
  Lemma finish_shape inlen sorted :
    r_out (finish O o get inlen sorted) =
    join_sp (rendered_parts ++ map (field_text O get) (move_error_front sorted)) ++ [10%N].
  Proof.
    unfold finish, write_fields. cbn [r_out]. f_equal.
    rewrite write_parts_shape, render_fields_join.
    assert (Ff : Forall (fun s => nonempty s = true) (map (field_text O get) (move_error_front sorted))).
    { apply Forall_forall. intros s H. apply in_map_iff in H. destruct H as [k [E _]]. subst. apply field_text_nonempty. }
    rewrite (join_sp_app _ _ rendered_parts_nonempty Ff).
    pose proof rendered_parts_nonempty as Fp.
    destruct rendered_parts as [|p ps] eqn:EP.
    - cbn [join_sp]. destruct sorted; reflexivity.
    - pose proof (join_sp_nonempty (p :: ps) ltac:(discriminate) Fp) as NE.
      destruct (join_sp (p :: ps)) as [|c buf] eqn:EJ; [congruence|].
      destruct sorted as [|s ss].
      + cbn. rewrite app_nil_r. reflexivity.
      + pose proof (move_error_front_perm (s :: ss)) as P.
        destruct (move_error_front (s :: ss)) as [|m ms] eqn:EM.
        * apply Permutation_sym, Permutation_nil in P. discriminate.
        * cbn [map]. rewrite <- app_assoc. reflexivity.
  Qed.
End Shape.

Lemma rendered_parts_ext O o g1 g2 : (forall k, g1 k = g2 k) -> rendered_parts O o g1 = rendered_parts O o g2.
Proof.
  intros E. unfold rendered_parts. f_equal. apply map_ext. intros p.
  unfold part_text. rewrite (E p). reflexivity.
Qed.

Lemma write_parts_ext O o g1 g2 : (forall k, g1 k = g2 k) -> write_parts O o g1 = write_parts O o g2.
Proof. intros E. rewrite !write_parts_shape. f_equal. apply rendered_parts_ext. auto. Qed.

Lemma render_fields_ext O g1 g2 fs : (forall k, g1 k = g2 k) -> render_fields O g1 fs = render_fields O g2 fs.
Proof.
  intros E. induction fs as [|f t IH]; [reflexivity|].
  cbn [render_fields]. rewrite IH. unfold field_text. rewrite (E f). reflexivity.
Qed.

Lemma finish_ext O o g1 g2 inlen sorted : (forall k, g1 k = g2 k) ->
  finish O o g1 inlen sorted = finish O o g2 inlen sorted.
Proof.
  intros E. unfold finish, write_fields.
  rewrite (write_parts_ext O o g1 g2 E), (render_fields_ext O g1 g2 _ E). reflexivity.
Qed.

(* ------------------------------------------------------------------ *)
(* the property lemmas                                                 *)
(* ------------------------------------------------------------------ *)

(* the functional model is one of the allowed outcomes *)
Lemma console_write_allowed O o evt inlen :
  console_writes O o evt inlen (console_names o evt) (console_write O o (Some evt) inlen).
Proof.
  exists (isort (less_of o) (collect o (map fst evt))). split; [|split]; auto.
  apply isort_sort_result. apply less_of_strict_total.
Qed.

(* the sorted slice is the same for every iteration order and every correct sort *)
Lemma sorted_canonical o evt order sorted :
  NoDup (map fst evt) -> Permutation evt order ->
  sort_result (less_of o) (collect o (map fst order)) sorted ->
  sorted = isort (less_of o) (wanted o evt).
Proof.
  intros ND P [PS GS].
  apply (sort_result_unique (less_of o) (less_of_strict_total o) (wanted o evt)).
  - apply collect_nodup; auto.
  - split; auto. eapply Permutation_trans; [|exact PS].
    apply collect_perm, Permutation_map. auto.
  - apply isort_sort_result, less_of_strict_total.
Qed.

Lemma writes_canonical O o evt order inlen names r :
  NoDup (map fst evt) -> Permutation evt order ->
  console_writes O o order inlen names r ->
  names = console_names o evt /\ r = console_write O o (Some evt) inlen.
Proof.
  intros ND P [sorted [SR [Hn Hr]]].
  pose proof (sorted_canonical o evt order sorted ND P SR) as E. subst sorted.
  split; [exact Hn|]. rewrite Hr. cbn [console_write]. apply finish_ext.
  intros k. symmetry. apply lookup_perm; auto.
Qed.

Lemma deterministic O o evt order1 order2 inlen names1 names2 r1 r2 :
  NoDup (map fst evt) -> Permutation evt order1 -> Permutation evt order2 ->
  console_writes O o order1 inlen names1 r1 -> console_writes O o order2 inlen names2 r2 ->
  r1 = r2 /\ names1 = names2.
Proof.
  intros ND P1 P2 W1 W2.
  destruct (writes_canonical _ _ _ _ _ _ _ ND P1 W1) as [A1 B1].
  destruct (writes_canonical _ _ _ _ _ _ _ ND P2 W2) as [A2 B2].
  split; congruence.
Qed.

Lemma console_names_perm o evt : Permutation (console_names o evt) (wanted o evt).
Proof.
  unfold console_names, wanted. apply Permutation_sym.
  eapply Permutation_trans; [apply isort_perm|apply move_error_front_perm].
Qed.

Lemma fields_exactly_once O o evt order inlen names r :
  NoDup (map fst evt) -> Permutation evt order ->
  console_writes O o order inlen names r ->
  Permutation names (wanted o evt) /\ NoDup names /\
  r_out r = join_sp (rendered_parts O o (lookup evt) ++ map (field_text O (lookup evt)) names) ++ [10%N].
Proof.
  intros ND P W. destruct (writes_canonical _ _ _ _ _ _ _ ND P W) as [A B]. subst.
  split; [apply console_names_perm|split].
  - eapply Permutation_NoDup; [apply Permutation_sym, console_names_perm|]. apply collect_nodup; auto.
  - cbn [console_write]. rewrite finish_shape. reflexivity.
Qed.

Lemma reports_len O o evt inlen names r :
  console_writes O o evt inlen names r -> r_n r = inlen /\ r_err r = false.
Proof. intros [sorted [_ [_ Hr]]]. subst. split; reflexivity. Qed.

(* ---- default order ---- *)

Lemma strongly_sorted_app_inv {A} (R : A -> A -> Prop) l1 x l2 :
  StronglySorted R (l1 ++ x :: l2) ->
  StronglySorted R (l1 ++ l2) /\ Forall (fun a => R a x) l1 /\ Forall (R x) l2.
Proof.
  induction l1 as [|a t IH]; cbn [app]; intros S.
  - inversion S; subst. auto.
  - inversion S as [|? ? S' F]; subst. destruct (IH S') as [S1 [F1 F2]].
    rewrite Forall_app in F. destruct F as [Fa Fb]. inversion Fb; subst.
    repeat split; auto. constructor; auto. apply Forall_app. split; auto.
Qed.

Lemma isort_strongly_sorted o l : NoDup l ->
  StronglySorted (fun a b => less_of o a b = true) (isort (less_of o) l).
Proof.
  intros ND. apply go_sorted_strongly.
  - apply less_of_strict_total.
  - eapply Permutation_NoDup; [apply isort_perm|auto].
  - apply isort_go_sorted, less_of_strict_total.
Qed.

Lemma order_default_names o evt : NoDup (map fst evt) -> co_fields_order o = [] ->
  exists rest,
    console_names o evt = (if mem n_error (wanted o evt) then [n_error] else []) ++ rest /\
    StronglySorted blt_p rest /\ ~ In n_error rest.
Proof.
  intros ND FO. unfold console_names. fold (wanted o evt).
  pose proof (isort_strongly_sorted o (wanted o evt) (collect_nodup o _ ND)) as S.
  pose proof (isort_perm (less_of o) (wanted o evt)) as P.
  assert (NDs : NoDup (isort (less_of o) (wanted o evt))) by (eapply Permutation_NoDup; [exact P|apply collect_nodup; auto]).
  unfold less_of in S at 1. rewrite FO in S. fold blt_p in S.
  set (sorted := isort (less_of o) (wanted o evt)) in *.
  destruct (mem n_error (wanted o evt)) eqn:M.
  - apply mem_In in M. assert (HI : In n_error sorted) by (eapply Permutation_in; eauto).
    apply in_split in HI. destruct HI as [pre [post E]].
    rewrite E in S. rewrite E. rewrite (move_error_front_sorted_in pre post S).
    exists (pre ++ post). split; [reflexivity|]. split.
    + apply (strongly_sorted_app_inv blt_p pre n_error post S).
    + rewrite E in NDs. apply NoDup_remove_2 in NDs. auto.
  - apply mem_not_In in M.
    assert (HI : ~ In n_error sorted) by (intros H; apply M; eapply Permutation_in; [apply Permutation_sym; exact P|auto]).
    rewrite (move_error_front_notin sorted HI). exists sorted. auto.
Qed.

Lemma order_default O o evt order inlen names r :
  NoDup (map fst evt) -> Permutation evt order -> co_fields_order o = [] ->
  console_writes O o order inlen names r ->
  exists rest,
    names = (if mem n_error (wanted o evt) then [n_error] else []) ++ rest /\
    StronglySorted blt_p rest /\ ~ In n_error rest.
Proof.
  intros ND P FO W. destruct (writes_canonical _ _ _ _ _ _ _ ND P W) as [A _]. subst.
  apply order_default_names; auto.
Qed.

(* ---- FieldsOrder ---- *)

(* position in FieldsOrder (the last one, if a name is listed twice) *)
Definition idx_lt (fo : list bytes) (a b : bytes) : Prop :=
  exists i j, field_index fo a = Some i /\ field_index fo b = Some j /\ i < j.

Lemma order_less_split fo l : StronglySorted (fun a b => order_less fo a b = true) l ->
  exists listed rest, l = listed ++ rest /\
    (forall k, In k listed -> In k fo) /\ (forall k, In k rest -> ~ In k fo) /\
    StronglySorted (idx_lt fo) listed /\ StronglySorted blt_p rest.
Proof.
  intros S. induction S as [|a l S IH F].
  - exists [], []. repeat split; auto; try constructor; intros k [].
  - destruct IH as [listed [rest [E [HL [HR [SL SR]]]]]].
    destruct (field_index fo a) as [i|] eqn:Ea.
    + exists (a :: listed), rest. subst l.
      refine (conj eq_refl (conj _ (conj HR (conj _ SR)))).
      * intros k [H|H]; auto. subst. apply field_index_in. eauto.
      * constructor; auto. apply Forall_forall. intros x Hx.
        rewrite Forall_forall in F. specialize (F x ltac:(apply in_or_app; auto)).
        unfold order_less in F. rewrite Ea in F.
        destruct (field_index fo x) as [j|] eqn:Ex.
        -- exists i, j. repeat split; auto. apply Nat.ltb_lt. auto.
        -- exfalso. apply field_index_none in Ex. apply Ex, HL. auto.
    + (* a is not listed: nothing after it is *)
      assert (Hall : forall x, In x l -> field_index fo x = None /\ blt a x = true).
      { intros x Hx. rewrite Forall_forall in F. specialize (F x Hx).
        unfold order_less in F. rewrite Ea in F. destruct (field_index fo x); [discriminate|auto]. }
      destruct listed as [|b lt].
      * exists [], (a :: rest). cbn [app] in *. subst l.
        refine (conj eq_refl (conj _ (conj _ (conj _ _)))).
        -- intros k [].
        -- intros k [H|H]; auto. subst. apply field_index_none. auto.
        -- constructor.
        -- constructor; auto. apply Forall_forall. intros x Hx. apply Hall. auto.
      * exfalso. destruct (Hall b) as [Hb _]; [subst l; left; auto|].
        apply field_index_none in Hb. apply Hb, HL. left. auto.
Qed.

Lemma order_fieldsorder_names o evt : NoDup (map fst evt) -> co_fields_order o <> [] ->
  exists listed rest,
    filter not_error (console_names o evt) = filter not_error (listed ++ rest) /\
    Permutation (listed ++ rest) (wanted o evt) /\
    (forall k, In k listed -> In k (co_fields_order o)) /\
    (forall k, In k rest -> ~ In k (co_fields_order o)) /\
    StronglySorted (idx_lt (co_fields_order o)) listed /\ StronglySorted blt_p rest.
Proof.
  intros ND FO. unfold console_names. fold (wanted o evt).
  pose proof (isort_strongly_sorted o (wanted o evt) (collect_nodup o _ ND)) as S.
  pose proof (isort_perm (less_of o) (wanted o evt)) as P.
  set (sorted := isort (less_of o) (wanted o evt)) in *.
  assert (L : less_of o = order_less (co_fields_order o)).
  { unfold less_of. destruct (co_fields_order o); [congruence|reflexivity]. }
  rewrite L in S.
  destruct (order_less_split _ _ S) as [listed [rest [E [HL [HR [SL SR]]]]]].
  exists listed, rest. rewrite move_error_front_filter, E. repeat split; auto.
  rewrite <- E. apply Permutation_sym. auto.
Qed.

Lemma order_fieldsorder O o evt order inlen names r :
  NoDup (map fst evt) -> Permutation evt order -> co_fields_order o <> [] ->
  console_writes O o order inlen names r ->
  exists listed rest,
    filter not_error names = filter not_error (listed ++ rest) /\
    Permutation (listed ++ rest) (wanted o evt) /\
    (forall k, In k listed -> In k (co_fields_order o)) /\
    (forall k, In k rest -> ~ In k (co_fields_order o)) /\
    StronglySorted (idx_lt (co_fields_order o)) listed /\ StronglySorted blt_p rest.
Proof.
  intros ND P FO W. destruct (writes_canonical _ _ _ _ _ _ _ ND P W) as [A _]. subst.
  apply order_fieldsorder_names; auto.
Qed.

(* when FieldsOrder lists no name twice, "sorted by position" is "in that order":
   the listed block is FieldsOrder restricted to the names that are rendered *)
Lemma field_index_nodup fo : NoDup fo -> forall i k, nth_error fo i = Some k -> field_index fo k = Some i.
Proof.
  intros ND i k H.
  destruct (field_index fo k) as [j|] eqn:E.
  - apply field_index_some in E. f_equal. symmetry.
    apply (proj1 (NoDup_nth_error fo) ND); [apply nth_error_Some; congruence|congruence].
  - apply field_index_none in E. exfalso. apply E. eapply nth_error_In; eauto.
Qed.

Lemma strongly_sorted_filter {A} (R : A -> A -> Prop) f l : StronglySorted R l -> StronglySorted R (filter f l).
Proof.
  induction 1 as [|a l S IH F]; cbn; [constructor|].
  destruct (f a); auto. constructor; auto.
  apply Forall_forall. intros x Hx. apply filter_In in Hx. rewrite Forall_forall in F. apply F. tauto.
Qed.

Lemma nodup_sorted_by_index fo : NoDup fo -> StronglySorted (idx_lt fo) fo.
Proof.
  intros ND.
  assert (G : forall pre suf, fo = pre ++ suf -> StronglySorted (idx_lt fo) suf).
  { intros pre suf. revert pre. induction suf as [|x t IH]; intros pre E; constructor.
    - apply (IH (pre ++ [x])). rewrite <- app_assoc. auto.
    - apply Forall_forall. intros y Hy. apply In_nth_error in Hy. destruct Hy as [n Hn].
      exists (length pre), (length pre + S n). repeat split; try lia.
      + apply field_index_nodup; auto. rewrite E, nth_error_app2, Nat.sub_diag by lia. reflexivity.
      + apply field_index_nodup; auto. rewrite E, nth_error_app2 by lia.
        replace (length pre + S n - length pre) with (S n) by lia. exact Hn. }
  apply (G [] fo). reflexivity.
Qed.

Lemma nodup_app_l {A} (l1 l2 : list A) : NoDup (l1 ++ l2) -> NoDup l1.
Proof.
  induction l1 as [|a t IH]; cbn; intros H; [constructor|].
  inversion H; subst. constructor; auto. intros HI. apply H2. apply in_or_app. auto.
Qed.

Lemma listed_in_that_order fo (want listed rest : list bytes) :
  NoDup fo -> NoDup want -> Permutation (listed ++ rest) want ->
  (forall k, In k listed -> In k fo) -> (forall k, In k rest -> ~ In k fo) ->
  StronglySorted (idx_lt fo) listed ->
  listed = filter (fun k => mem k want) fo.
Proof.
  intros NDf NDw P HL HR SL.
  apply (strongly_sorted_unique (idx_lt fo)); auto.
  - intros a b [i [j [Ha [Hb Hij]]]] [j' [i' [Hb' [Ha' Hji]]]].
    rewrite Ha in Ha'. rewrite Hb in Hb'. inversion Ha'; inversion Hb'; subst. lia.
  - apply strongly_sorted_filter. apply nodup_sorted_by_index. auto.
  - assert (NDl : NoDup listed).
    { assert (N : NoDup (listed ++ rest)) by (eapply Permutation_NoDup; [apply Permutation_sym; exact P|auto]).
      apply nodup_app_l in N. auto. }
    apply NoDup_Permutation; auto.
    + apply NoDup_filter. auto.
    + intros k. rewrite filter_In, mem_In. split.
      * intros H. split; auto. eapply Permutation_in; [exact P|apply in_or_app; auto].
      * intros [H1 H2]. assert (H3 : In k (listed ++ rest)) by (eapply Permutation_in; [apply Permutation_sym; exact P|auto]).
        apply in_app_or in H3. destruct H3 as [H3|H3]; auto. exfalso. apply (HR k); auto.
Qed.

Lemma order_fieldsorder_nodup O o evt order inlen names r :
  NoDup (map fst evt) -> Permutation evt order ->
  co_fields_order o <> [] -> NoDup (co_fields_order o) ->
  console_writes O o order inlen names r ->
  exists rest,
    filter not_error names =
      filter not_error (filter (fun k => mem k (wanted o evt)) (co_fields_order o) ++ rest) /\
    Permutation (filter (fun k => mem k (wanted o evt)) (co_fields_order o) ++ rest) (wanted o evt) /\
    (forall k, In k rest -> ~ In k (co_fields_order o)) /\
    StronglySorted blt_p rest.
Proof.
  intros ND P FO NDf W.
  destruct (order_fieldsorder _ _ _ _ _ _ _ ND P FO W) as [listed [rest [E [PW [HL [HR [SL SR]]]]]]].
  pose proof (listed_in_that_order (co_fields_order o) (wanted o evt) listed rest NDf (collect_nodup o _ ND) PW HL HR SL) as EL.
  exists rest. rewrite <- EL. auto.
Qed.

(* ---- values ---- *)

Lemma quote_byte_spec c : quote_byte c = true <-> special_byte c.
Proof.
  unfold quote_byte, special_byte.
  rewrite !orb_true_iff, !N.ltb_lt, !N.eqb_eq. lia.
Qed.

Lemma needs_quote_spec s : needs_quote s = true <-> exists c, In c s /\ special_byte c.
Proof.
  unfold needs_quote. rewrite existsb_exists.
  split; intros [c [H1 H2]]; exists c; split; auto; apply quote_byte_spec; auto.
Qed.

Lemma quote_rule O s :
  value_text O (CStr s) = if needs_quote s then o_quote O s else s.
Proof. reflexivity. Qed.

(* with strconv.Quote adding at least the two quotes, "verbatim" is an exact criterion *)
Lemma quote_rule_iff O s : (forall x, length x + 2 <= length (o_quote O x)) ->
  (value_text O (CStr s) = s <-> forall c, In c s -> ~ special_byte c).
Proof.
  intros QL. cbn [value_text]. destruct (needs_quote s) eqn:E.
  - split.
    + intros H. pose proof (QL s) as L. rewrite H in L. lia.
    + intros H. apply needs_quote_spec in E. destruct E as [c [H1 H2]]. exfalso. eapply H; eauto.
  - split; auto. intros _ c Hc Hs.
    assert (needs_quote s = true) by (apply needs_quote_spec; eauto). congruence.
Qed.

Lemma numbers_verbatim O t : value_text O (CNum t) = t.
Proof. reflexivity. Qed.

Lemma other_values O :
  (forall j, value_text O (COther j) = j) /\
  value_text O (CBool true) = bs "true" /\ value_text O (CBool false) = bs "false" /\
  value_text O CNull = bs "null".
Proof. repeat split. Qed.
