(* writer.go: TriggerLevelWriter.trigger / Trigger / Close / WriteLevel, re-translated by srcgen on every run
   (Gen/TriggerSrc.v), against the hand-written model Lts/Trigger.v (flush, trigger, write_level, step).

   The destination behind the embedded io.Writer is opaque (Base/GoExt.v): every call through it is logged in the
   record's call log and answered by the environment [ans] at the index "length of the log so far".  The model takes
   the destination's outcomes from a script (one entry per destination call); [script_of ans k n] is the script the
   environment induces for the next n destination calls when the log has length k.  Within one WriteLevel / Trigger
   call the destination calls have consecutive log indices: pool.Get (a logged call without an answer) only happens
   on the buffering path, which makes no destination call. *)
From Verif Require Import Base.Prelude Base.GoSem Base.GoEff Base.GoExt Misc.Level Lts.Trigger Proofs.TriggerP.
From Verif Require Gen.TriggerSrc.
Open Scope Z_scope.

Notation wst := TriggerSrc.TriggerLevelWriter_st.
Notation w_Writer := TriggerSrc.TriggerLevelWriter_Writer.
Notation w_cond := TriggerSrc.TriggerLevelWriter_ConditionalLevel.
Notation w_trig := TriggerSrc.TriggerLevelWriter_TriggerLevel.
Notation w_buf := TriggerSrc.TriggerLevelWriter_buf.
Notation w_triggered := TriggerSrc.TriggerLevelWriter_triggered.
Notation w_lw := TriggerSrc.TriggerLevelWriter_Writer_is_LevelWriter.
Notation w_calls := TriggerSrc.TriggerLevelWriter_calls.
Notation set_calls := TriggerSrc.set_TriggerLevelWriter_calls.
Notation set_buf := TriggerSrc.set_TriggerLevelWriter_buf.
Notation set_triggered := TriggerSrc.set_TriggerLevelWriter_triggered.

(* ------------------------------------------------------------------ *)
(* vocabulary of the statements                                        *)
(* ------------------------------------------------------------------ *)
Definition fWriter : list N := [87;114;105;116;101;114]%N.
Definition mWrite : list N := [87;114;105;116;101]%N.
Definition mWriteLevel : list N := [87;114;105;116;101;76;101;118;101;108]%N.
Definition call_Get : ocall := OCall []%N [112;111;111;108;46;71;101;116]%N [].   (* triggerWriterPool.Get() *)
Definition call_Put : ocall := OCall []%N [112;111;111;108;46;80;117;116]%N [].   (* triggerWriterPool.Put(w.buf) *)
Definition call_Cap : ocall := OCall [98;117;102]%N [67;97;112]%N [].             (* w.buf.Cap() *)

(* the answer of the k-th external call read as (n, err) *)
Definition ans_n (ans : nat -> oval) (k : nat) : Z := oval_int (oval_fst (ans k)).
Definition ans_err (ans : nat -> oval) (k : nat) : goerr := oval_err (oval_snd (ans k)).

(* error values are opaque: the model only sees "an error" *)
Definition err_code (e : goerr) : option N := match e with None => None | Some _ => Some 0%N end.
Definition script_of (ans : nat -> oval) (k n : nat) : script :=
  map (fun j => err_code (oval_err (oval_snd (ans (k + j)%nat)))) (seq 0 n).

(* a destination call of the model as it appears in the call log *)
Definition to_ocall (lw : bool) (c : dcall) : ocall :=
  if lw then OCall fWriter mWriteLevel [OVInt (match fst c with Some l => l | None => 0 end); OVBytes (snd c)]
  else OCall fWriter mWrite [OVBytes (snd c)].

Definition cfg_of (w : wst) : tcfg :=
  {| t_cond := w_cond w; t_trig := w_trig w; t_lw := w_lw w |}.
Definition abs_state (w : wst) (sc : script) : tstate :=
  {| s_buf := w_buf w; s_triggered := w_triggered w; s_script := sc |}.

(* w with buf and triggered replaced and calls appended to the log; every other field as in w *)
Definition upd_w (w : wst) (b : option (list N)) (t : bool) (cs : list ocall) : wst :=
  {| TriggerSrc.TriggerLevelWriter_Writer := w_Writer w;
     TriggerSrc.TriggerLevelWriter_ConditionalLevel := w_cond w;
     TriggerSrc.TriggerLevelWriter_TriggerLevel := w_trig w;
     TriggerSrc.TriggerLevelWriter_buf := b;
     TriggerSrc.TriggerLevelWriter_triggered := t;
     TriggerSrc.TriggerLevelWriter_Writer_is_LevelWriter := w_lw w;
     TriggerSrc.TriggerLevelWriter_calls := w_calls w ++ cs |}.
Definition add_calls (w : wst) (cs : list ocall) : wst := set_calls w (w_calls w ++ cs).

(* ------------------------------------------------------------------ *)
(* generic facts                                                       *)
(* ------------------------------------------------------------------ *)
Lemma script_of_S ans k n : script_of ans k (S n) = err_code (ans_err ans k) :: script_of ans (S k) n.
Proof.
  unfold script_of, ans_err. cbn [seq map]. rewrite Nat.add_0_r. f_equal.
  rewrite <- seq_shift, map_map. apply map_ext. intros j. do 4 f_equal. lia.
Qed.

Lemma script_of_0 ans k : script_of ans k 0 = [].
Proof. reflexivity. Qed.

(* Level(b) for a byte b: the translation's n2z 8 is the model's byte_level, for every N *)
Lemma n2z_byte_level b : n2z 8 b = byte_level b.
Proof.
  unfold n2z, byte_level, to_i8, wraps. change (2 ^ (8 - 1)) with 128. change (2 ^ 8) with 256.
  rewrite <- (Z.add_mod_idemp_l (Z.of_N b) 128 256) by lia.
  pose proof (Z.mod_pos_bound (Z.of_N b) 256 ltac:(lia)) as Hr.
  set (r := Z.of_N b mod 256) in *.
  destruct (r <? 128) eqn:C.
  - rewrite Z.mod_small; lia.
  - assert (E : (r + 128) mod 256 = r - 128) by (symmetry; apply (Z.mod_unique (r + 128) 256 1); lia).
    rewrite E. lia.
Qed.

(* byte(l) for a Level l *)
Lemma z2n_level_byte l : z2n 8 l = level_byte l.
Proof. reflexivity. Qed.

Lemma split_nl_index p : forall i0,
  match split_nl p with
  | None => index_byte p 10%N i0 = -1
  | Some (l, r) => index_byte p 10%N i0 = i0 + len l - 1 /\ p = l ++ r
  end.
Proof.
  induction p as [|a t IH]; intros i0; cbn [split_nl index_byte]; [reflexivity|].
  destruct (a =? 10)%N.
  - split; [rewrite len_cons, len_nil; lia|reflexivity].
  - specialize (IH (i0 + 1)). destruct (split_nl t) as [[l r]|]; [|exact IH].
    destruct IH as [I1 I2]. split; [rewrite len_cons; lia|]. cbn [app]. congruence.
Qed.

(* the link in the form "i := bytes.IndexByte(p, '\n'); p[0:i+1], p[i+1:]" *)
Lemma slice_app_l {A} (l r : list A) : slice (l ++ r) 0 (len l) = l.
Proof.
  unfold slice, len. rewrite Z.sub_0_r, Nat2Z.id. change (Z.to_nat 0) with 0%nat. cbn [skipn].
  rewrite firstn_app, Nat.sub_diag, firstn_all. cbn [firstn]. apply app_nil_r.
Qed.

Lemma slice_app_r {A} (l r : list A) : slice (l ++ r) (len l) (len (l ++ r)) = r.
Proof.
  rewrite slice_from by (rewrite len_app; pose proof (len_nonneg l); pose proof (len_nonneg r); lia).
  unfold len. rewrite Nat2Z.id, skipn_app, skipn_all, Nat.sub_diag. reflexivity.
Qed.

Lemma split_nl_some_slices p l r : split_nl p = Some (l, r) ->
  let i := bytes_IndexByte p 10%N in
  0 <= i < len p /\ l = slice p 0 (i + 1) /\ r = slice p (i + 1) (len p).
Proof.
  intros E. pose proof (split_nl_index p 0) as H. rewrite E in H. destruct H as [H1 H2].
  destruct (split_nl_length _ _ _ E) as [L1 L2].
  cbv zeta. unfold bytes_IndexByte. rewrite H1.
  replace (0 + len l - 1 + 1) with (len l) by lia.
  split; [unfold len; lia|]. subst p. split; [symmetry; apply slice_app_l|symmetry; apply slice_app_r].
Qed.

Lemma split_nl_none_index p : split_nl p = None -> bytes_IndexByte p 10%N = -1.
Proof. intros E. pose proof (split_nl_index p 0) as H. rewrite E in H. exact H. Qed.

Lemma add_calls_add w a b : add_calls (add_calls w a) b = add_calls w (a ++ b).
Proof.
  unfold add_calls, TriggerSrc.set_TriggerLevelWriter_calls.
  cbn [TriggerSrc.TriggerLevelWriter_Writer TriggerSrc.TriggerLevelWriter_ConditionalLevel
       TriggerSrc.TriggerLevelWriter_TriggerLevel TriggerSrc.TriggerLevelWriter_buf
       TriggerSrc.TriggerLevelWriter_triggered TriggerSrc.TriggerLevelWriter_Writer_is_LevelWriter
       TriggerSrc.TriggerLevelWriter_calls].
  rewrite app_assoc. reflexivity.
Qed.

Lemma add_calls_nil w : add_calls w [] = w.
Proof. unfold add_calls, TriggerSrc.set_TriggerLevelWriter_calls. rewrite app_nil_r. destruct w; reflexivity. Qed.

Lemma add_calls_length w cs : length (w_calls (add_calls w cs)) = (length (w_calls w) + length cs)%nat.
Proof. unfold add_calls, TriggerSrc.set_TriggerLevelWriter_calls. cbn [TriggerSrc.TriggerLevelWriter_calls]. apply app_length. Qed.

Lemma upd_w_id w b t : w_buf w = b -> w_triggered w = t -> upd_w w b t [] = w.
Proof. intros <- <-. unfold upd_w. rewrite app_nil_r. destruct w; reflexivity. Qed.

(* ------------------------------------------------------------------ *)
(* the loop of trigger()                                               *)
(* ------------------------------------------------------------------ *)

(* one iteration with a newline left: the frame up to it goes to the destination *)
Lemma loop_step ans fuel w p b body r :
  split_nl p = Some (b :: body, r) -> len p < 9223372036854775808 ->
  TriggerSrc.trigger_loop1 ans (S fuel) w p =
    if negb (err_isnil (ans_err ans (length (w_calls w)))) then
      Ok (LRet (ans_err ans (length (w_calls w)),
                add_calls w [to_ocall (w_lw w) (dest_write (w_lw w) (byte_level b) body)]))
    else TriggerSrc.trigger_loop1 ans fuel
           (add_calls w [to_ocall (w_lw w) (dest_write (w_lw w) (byte_level b) body)]) r.
Proof.
  intros E Hlen.
  pose proof (split_nl_index p 0) as HI. rewrite E in HI. destruct HI as [HI Hp].
  assert (Hl : len (b :: body) = 1 + len body) by apply len_cons.
  assert (Hpl : len p = len (b :: body) + len r) by (rewrite Hp; apply len_app).
  pose proof (len_nonneg body) as Hb. pose proof (len_nonneg r) as Hr.
  assert (W : wraps 64 (bytes_IndexByte p 10%N + 1) = len (b :: body)).
  { unfold bytes_IndexByte. rewrite HI. rewrite wraps64_id; lia. }
  assert (C : (0 <? len p) = true) by (apply Z.ltb_lt; lia).
  assert (S1 : slice p 0 (len (b :: body)) = b :: body) by (rewrite Hp; apply slice_app_l).
  assert (S2 : slice p (len (b :: body)) (len p) = r) by (rewrite Hp; apply slice_app_r).
  assert (S3 : slice (b :: body) 1 (len (b :: body)) = body).
  { rewrite slice_from by lia. change (Z.to_nat 1) with 1%nat. reflexivity. }
  assert (O1 : slice_ok p 0 (len (b :: body)) = true) by (apply slice_ok_true; lia).
  assert (O2 : slice_ok p (len (b :: body)) (len p) = true) by (apply slice_ok_true; lia).
  assert (O3 : inb 0 (b :: body) = true) by (apply inb_true; lia).
  assert (O4 : slice_ok (b :: body) 1 (len (b :: body)) = true) by (apply slice_ok_true; lia).
  assert (I0 : idx 0%N (b :: body) 0 = b) by reflexivity.
  cbn [TriggerSrc.trigger_loop1]. cbv zeta.
  rewrite C, !W, O1, !S1, O2, !S2, O3, O4, !S3, !I0, !n2z_byte_level.
  unfold guard. cbv iota.
  unfold to_ocall, dest_write, add_calls, ans_err, fWriter, mWriteLevel, mWrite.
  destruct (w_lw w); cbn [fst snd]; reflexivity.
Qed.

(* no newline left: line = p[0:0], line[0] is out of range *)
Lemma loop_step_none ans fuel w p :
  p <> [] -> split_nl p = None -> TriggerSrc.trigger_loop1 ans (S fuel) w p = Panic.
Proof.
  intros Hne E. pose proof (split_nl_none_index p E) as HI.
  assert (C : (0 <? len p) = true).
  { apply Z.ltb_lt. destruct p; [congruence|]. rewrite len_cons. pose proof (len_nonneg p). lia. }
  pose proof (len_nonneg p) as Hp.
  cbn [TriggerSrc.trigger_loop1]. cbv zeta. rewrite C, HI. change (-1 + 1) with 0.
  rewrite wraps64_id by lia.
  rewrite (slice_ok_true p 0 0) by lia. rewrite (slice_ok_true p 0 (len p)) by lia.
  rewrite slice_empty. reflexivity.
Qed.

Lemma loop_src ans : forall fuel p w n,
  len p < 9223372036854775808 -> (length p < fuel)%nat -> (length p <= n)%nat ->
  match flush (length p) (w_lw w) p (script_of ans (length (w_calls w)) n) with
  | (cs, TOk, sc') =>
      TriggerSrc.trigger_loop1 ans fuel w p = Ok (LExit (add_calls w (map (to_ocall (w_lw w)) cs), [])) /\
      sc' = script_of ans (length (w_calls w) + length cs) (n - length cs) /\
      (length cs <= length p)%nat
  | (cs, TErr e, sc') =>
      TriggerSrc.trigger_loop1 ans fuel w p =
        Ok (LRet (ans_err ans (length (w_calls w) + length cs - 1), add_calls w (map (to_ocall (w_lw w)) cs))) /\
      err_code (ans_err ans (length (w_calls w) + length cs - 1)) = Some e /\
      (1 <= length cs <= length p)%nat /\
      sc' = script_of ans (length (w_calls w) + length cs) (n - length cs)
  | (cs, TPanic, _) => TriggerSrc.trigger_loop1 ans fuel w p = Panic
  end.
Proof.
  induction fuel as [|fuel IH]; intros p w n Hlen Hf Hn; [lia|].
  destruct p as [|b0 t].
  - cbn [length flush map]. cbn [TriggerSrc.trigger_loop1]. change (0 <? len (@nil N)) with false. cbv iota.
    rewrite add_calls_nil, Nat.add_0_r, Nat.sub_0_r. auto.
  - cbn [length flush].
    destruct (split_nl (b0 :: t)) as [[line rest]|] eqn:E.
    + destruct (split_nl_length _ _ _ E) as [L1 L2].
      destruct line as [|b body]; [cbn [length] in L2; lia|].
      cbn [length] in L1, Hn, Hf.
      rewrite (loop_step ans fuel w (b0 :: t) b body rest E Hlen).
      destruct n as [|n']; [lia|]. rewrite script_of_S. cbn [next_outcome].
      destruct (ans_err ans (length (w_calls w))) as [ev|] eqn:Ea; cbn [err_code err_isnil negb].
      * cbn [length map]. replace (length (w_calls w) + 1 - 1)%nat with (length (w_calls w)) by lia.
        rewrite Ea. cbn [err_code]. repeat split; try lia.
        f_equal; lia.
      * rewrite (flush_fuel (w_lw w) (length t) (length rest) rest) by lia.
        set (c := dest_write (w_lw w) (byte_level b) body).
        assert (Hlen' : len rest < 9223372036854775808) by (unfold len in *; cbn [length] in Hlen; lia).
        pose proof (IH rest (add_calls w [to_ocall (w_lw w) c]) n' Hlen' ltac:(lia) ltac:(lia)) as IH'.
        rewrite add_calls_length in IH'. cbn [length] in IH'. rewrite Nat.add_1_r in IH'.
        change (w_lw (add_calls w [to_ocall (w_lw w) c])) with (w_lw w) in IH'.
        revert IH'.
        destruct (flush (length rest) (w_lw w) rest (script_of ans (S (length (w_calls w))) n')) as [[cs r] sc''].
        intros IH'. destruct r as [|e|]; cbv beta iota.
        -- destruct IH' as (I1 & I2 & I3). rewrite I1, add_calls_add. cbn [map app length].
           split; [reflexivity|]. split; [rewrite I2; f_equal; lia|lia].
        -- destruct IH' as (I1 & I2 & I3 & I4). rewrite I1, add_calls_add. cbn [map app length].
           replace (length (w_calls w) + S (length cs) - 1)%nat with (S (length (w_calls w)) + length cs - 1)%nat by lia.
           split; [reflexivity|]. split; [exact I2|]. split; [lia|]. rewrite I4; f_equal; lia.
        -- exact IH'.
    + apply loop_step_none; [discriminate|exact E].
Qed.

(* ------------------------------------------------------------------ *)
(* trigger(), Trigger()                                                *)
(* ------------------------------------------------------------------ *)
Lemma add_calls_upd w b t cs : w_buf w = b -> add_calls (set_triggered w t) cs = upd_w w b t cs.
Proof. intros <-. reflexivity. Qed.

Lemma set_triggered_upd w b t : w_buf w = b -> set_triggered w t = upd_w w b t [].
Proof. intros <-. unfold TriggerSrc.set_TriggerLevelWriter_triggered, upd_w. rewrite app_nil_r. reflexivity. Qed.

(* TriggerSrc.trigger against the model's trigger.  Premises: the buffer content is shorter than 2^63 bytes
   (i + 1 does not wrap), and the script covers at least one outcome per buffered byte (every destination call of the
   flush consumes at least one byte).  No premise on the byte values: n2z 8 = byte_level on every N. *)
Theorem trigger_src ans w n :
  len (buf_bytes (w_buf w)) < 9223372036854775808 -> (length (buf_bytes (w_buf w)) <= n)%nat ->
  match Trigger.trigger (cfg_of w) (abs_state w (script_of ans (length (w_calls w)) n)) with
  | (s', cs, TOk) =>
      TriggerSrc.trigger ans w =
        Ok (None, upd_w w (s_buf s') (s_triggered s') (map (to_ocall (w_lw w)) cs)) /\
      s_script s' = script_of ans (length (w_calls w) + length cs) (n - length cs) /\
      (length cs <= length (buf_bytes (w_buf w)))%nat
  | (s', cs, TErr e) =>
      TriggerSrc.trigger ans w =
        Ok (ans_err ans (length (w_calls w) + length cs - 1),
            upd_w w (s_buf s') (s_triggered s') (map (to_ocall (w_lw w)) cs)) /\
      err_code (ans_err ans (length (w_calls w) + length cs - 1)) = Some e /\
      (1 <= length cs <= length (buf_bytes (w_buf w)))%nat /\
      s_script s' = script_of ans (length (w_calls w) + length cs) (n - length cs)
  | (s', cs, TPanic) => TriggerSrc.trigger ans w = Panic
  end.
Proof.
  intros Hlen Hn. unfold Trigger.trigger, TriggerSrc.trigger, abs_state, cfg_of.
  cbn [s_triggered s_buf s_script t_lw].
  destruct (w_triggered w) eqn:Et.
  - cbn [map length s_buf s_triggered s_script]. rewrite Nat.add_0_r, Nat.sub_0_r.
    rewrite (upd_w_id w _ _ eq_refl Et). split; [reflexivity|]. split; [reflexivity|lia].
  - cbv zeta. change (w_buf (set_triggered w true)) with (w_buf w).
    destruct (w_buf w) as [pb|] eqn:Eb; cbn [buf_isnil negb guard buf_bytes].
    + cbn [buf_bytes] in Hlen, Hn.
      pose proof (loop_src ans (S (Z.to_nat (len pb - 0 + 1))) pb (set_triggered w true) n Hlen
                    ltac:(unfold len; lia) Hn) as L.
      change (w_calls (set_triggered w true)) with (w_calls w) in L.
      change (w_lw (set_triggered w true)) with (w_lw w) in L.
      revert L.
      destruct (flush (length pb) (w_lw w) pb (script_of ans (length (w_calls w)) n)) as [[cs r] sc].
      intros L. destruct r as [|e|]; cbv beta iota; cbn [s_buf s_triggered s_script].
      * destruct L as (L1 & L2 & L3). rewrite L1. cbn [lbind]. rewrite (add_calls_upd w (Some pb) true _ Eb). auto.
      * destruct L as (L1 & L2 & L3 & L4). rewrite L1. cbn [lbind]. rewrite (add_calls_upd w (Some pb) true _ Eb). auto.
      * rewrite L. reflexivity.
    + cbn [map length s_buf s_triggered s_script]. rewrite Nat.add_0_r, Nat.sub_0_r.
      rewrite (set_triggered_upd w None true Eb). split; [reflexivity|]. split; [reflexivity|lia].
Qed.

Lemma Trigger_is_trigger ans w : TriggerSrc.Trigger ans w = TriggerSrc.trigger ans w.
Proof. unfold TriggerSrc.Trigger. destruct (TriggerSrc.trigger ans w) as [[r w']| | |]; reflexivity. Qed.

(* Trigger() = trigger() under the lock: against the model's step for OTrigger *)
Theorem Trigger_src ans w n :
  len (buf_bytes (w_buf w)) < 9223372036854775808 -> (length (buf_bytes (w_buf w)) <= n)%nat ->
  match step (cfg_of w) (abs_state w (script_of ans (length (w_calls w)) n)) OTrigger with
  | (s', cs, ROk m) =>
      m = 0 /\
      TriggerSrc.Trigger ans w =
        Ok (None, upd_w w (s_buf s') (s_triggered s') (map (to_ocall (w_lw w)) cs))
  | (s', cs, RErr m e) =>
      m = 0 /\
      TriggerSrc.Trigger ans w =
        Ok (ans_err ans (length (w_calls w) + length cs - 1),
            upd_w w (s_buf s') (s_triggered s') (map (to_ocall (w_lw w)) cs)) /\
      err_code (ans_err ans (length (w_calls w) + length cs - 1)) = Some e /\
      (1 <= length cs)%nat
  | (s', cs, RPanic) => TriggerSrc.Trigger ans w = Panic
  end.
Proof.
  intros Hlen Hn. rewrite Trigger_is_trigger. pose proof (trigger_src ans w n Hlen Hn) as T.
  cbn [step]. revert T.
  destruct (Trigger.trigger (cfg_of w) (abs_state w (script_of ans (length (w_calls w)) n))) as [[s' cs] r].
  intros T. destruct r as [|e|].
  - destruct T as (T1 & _). auto.
  - destruct T as (T1 & T2 & T3 & _). repeat split; auto; lia.
  - exact T.
Qed.

(* trigger_src and Trigger_src as one statement (Properties/C15.v, C15_source_trigger) *)
Lemma trigger_Trigger_src ans w n :
  len (buf_bytes (w_buf w)) < 9223372036854775808 -> (length (buf_bytes (w_buf w)) <= n)%nat ->
  let k := length (w_calls w) in
  let lw := w_lw w in
  (match Trigger.trigger (cfg_of w) (abs_state w (script_of ans k n)) with
   | (s', cs, TOk) =>
       TriggerSrc.trigger ans w = Ok (None, upd_w w (s_buf s') (s_triggered s') (map (to_ocall lw) cs)) /\
       s_script s' = script_of ans (k + length cs) (n - length cs) /\
       (length cs <= length (buf_bytes (w_buf w)))%nat
   | (s', cs, TErr e) =>
       TriggerSrc.trigger ans w =
         Ok (ans_err ans (k + length cs - 1), upd_w w (s_buf s') (s_triggered s') (map (to_ocall lw) cs)) /\
       err_code (ans_err ans (k + length cs - 1)) = Some e /\
       (1 <= length cs <= length (buf_bytes (w_buf w)))%nat /\
       s_script s' = script_of ans (k + length cs) (n - length cs)
   | (s', cs, TPanic) => TriggerSrc.trigger ans w = Panic
   end) /\
  (match step (cfg_of w) (abs_state w (script_of ans k n)) OTrigger with
   | (s', cs, ROk m) =>
       m = 0 /\
       TriggerSrc.Trigger ans w = Ok (None, upd_w w (s_buf s') (s_triggered s') (map (to_ocall lw) cs))
   | (s', cs, RErr m e) =>
       m = 0 /\
       TriggerSrc.Trigger ans w =
         Ok (ans_err ans (k + length cs - 1), upd_w w (s_buf s') (s_triggered s') (map (to_ocall lw) cs)) /\
       err_code (ans_err ans (k + length cs - 1)) = Some e /\
       (1 <= length cs)%nat
   | (s', cs, RPanic) => TriggerSrc.Trigger ans w = Panic
   end).
Proof. intros H1 H2. split; [exact (trigger_src ans w n H1 H2)|exact (Trigger_src ans w n H1 H2)]. Qed.

(* ------------------------------------------------------------------ *)
(* Close()                                                             *)
(* ------------------------------------------------------------------ *)
Definition close_calls (limit : Z) (ans : nat -> oval) (w : wst) : list ocall :=
  match w_buf w with
  | None => []
  | Some _ => call_Cap :: (if oval_int (ans (length (w_calls w))) <=? limit then [call_Put] else [])
  end.

(* Close returns nil; buf becomes nil, triggered stays; the log gains buf.Cap() and, iff the answered capacity is
   within the limit, pool.Put; with a nil buf nothing happens (close_calls = [] and upd_w ... = w, Close_src_nil).
   The model's step for OClose does the same to the state and calls no destination. *)
Theorem Close_src limit ans w c sc :
  TriggerSrc.Close limit ans w = Ok (None, upd_w w None (w_triggered w) (close_calls limit ans w)) /\
  step c (abs_state w sc) OClose =
    (abs_state (upd_w w None (w_triggered w) (close_calls limit ans w)) sc, [], ROk 0).
Proof.
  split; [|reflexivity].
  unfold TriggerSrc.Close, close_calls. destruct (w_buf w) as [pb|] eqn:Eb; cbn [buf_isnil negb guard].
  - cbv zeta.
    destruct (oval_int (ans (length (w_calls w))) <=? limit);
      unfold TriggerSrc.set_TriggerLevelWriter_calls, TriggerSrc.set_TriggerLevelWriter_buf, upd_w, call_Cap, call_Put;
      cbn [TriggerSrc.TriggerLevelWriter_Writer TriggerSrc.TriggerLevelWriter_ConditionalLevel
           TriggerSrc.TriggerLevelWriter_TriggerLevel TriggerSrc.TriggerLevelWriter_buf
           TriggerSrc.TriggerLevelWriter_triggered TriggerSrc.TriggerLevelWriter_Writer_is_LevelWriter
           TriggerSrc.TriggerLevelWriter_calls];
      rewrite ?Eb; cbn [buf_isnil negb guard]; rewrite <- ?app_assoc; reflexivity.
  - rewrite (upd_w_id w None _ Eb eq_refl). reflexivity.
Qed.

Lemma Close_src_nil limit ans w : w_buf w = None -> TriggerSrc.Close limit ans w = Ok (None, w).
Proof. intros Eb. unfold TriggerSrc.Close. rewrite Eb. reflexivity. Qed.

(* ------------------------------------------------------------------ *)
(* WriteLevel                                                          *)
(* ------------------------------------------------------------------ *)
(* what follows the trigger phase: hold the line back, or pass it through *)
Definition tail_src (ans : nat -> oval) (l : Z) (p : list N) (w : wst) : res ((Z * goerr) * wst) :=
  if negb (w_triggered w) && (l <=? w_cond w) then
    Ok ((len p, None),
        upd_w w (Some (buf_bytes (w_buf w) ++ level_byte l :: p)) (w_triggered w)
          (if buf_isnil (w_buf w) then [call_Get] else []))
  else
    Ok ((ans_n ans (length (w_calls w)), ans_err ans (length (w_calls w))),
        add_calls w [to_ocall (w_lw w) (dest_write (w_lw w) l p)]).

Ltac tail_tac :=
  match goal with
  | |- _ = tail_src _ ?lv _ ?w1 =>
      unfold tail_src; destruct w1 as [fW fc ft fb ftr flw fcl];
      unfold TriggerSrc.set_TriggerLevelWriter_calls, TriggerSrc.set_TriggerLevelWriter_buf, upd_w, add_calls,
             to_ocall, dest_write, ans_n, ans_err, call_Get, fWriter, mWriteLevel, mWrite;
      cbn [TriggerSrc.TriggerLevelWriter_Writer TriggerSrc.TriggerLevelWriter_ConditionalLevel
           TriggerSrc.TriggerLevelWriter_TriggerLevel TriggerSrc.TriggerLevelWriter_buf
           TriggerSrc.TriggerLevelWriter_triggered TriggerSrc.TriggerLevelWriter_Writer_is_LevelWriter
           TriggerSrc.TriggerLevelWriter_calls];
      destruct ftr, (lv <=? fc), fb, flw;
      cbn [negb andb buf_isnil buf_bytes guard fst snd
           TriggerSrc.TriggerLevelWriter_Writer TriggerSrc.TriggerLevelWriter_ConditionalLevel
           TriggerSrc.TriggerLevelWriter_TriggerLevel TriggerSrc.TriggerLevelWriter_buf
           TriggerSrc.TriggerLevelWriter_triggered TriggerSrc.TriggerLevelWriter_Writer_is_LevelWriter
           TriggerSrc.TriggerLevelWriter_calls];
      rewrite <- ?app_assoc, ?app_nil_r; reflexivity
  end.

Lemma WriteLevel_eq ans w l p :
  TriggerSrc.WriteLevel ans w l p =
  if negb (w_triggered w) && (w_trig w <=? l) then
    bind (TriggerSrc.trigger ans w) (fun '(r3, w1) =>
      if negb (err_isnil r3) then Ok ((0, r3), w1) else tail_src ans l p w1)
  else tail_src ans l p w.
Proof.
  unfold TriggerSrc.WriteLevel. cbv zeta.
  destruct (negb (w_triggered w) && (w_trig w <=? l)).
  - destruct (TriggerSrc.trigger ans w) as [[r3 w1]| | |]; cbn [bind]; try reflexivity.
    destruct r3 as [ev|]; cbn [err_isnil negb]; [reflexivity|]. tail_tac.
  - tail_tac.
Qed.

Lemma trigger_model_state c s :
  s_triggered (fst (fst (Trigger.trigger c s))) = true /\ s_buf (fst (fst (Trigger.trigger c s))) = s_buf s.
Proof.
  unfold Trigger.trigger. destruct (s_triggered s) eqn:E; [auto|].
  destruct (s_buf s) eqn:Eb; [destruct (flush _ _ _ _) as [[? ?] ?]|]; cbn [fst s_triggered s_buf]; auto.
Qed.

(* the line was held back (appended to buf) rather than written *)
Definition held_back (w : wst) (s' : tstate) (l : Z) : bool := negb (s_triggered s') && (l <=? w_cond w).
(* the error WriteLevel returns is the one trigger() returned *)
Definition trigger_fails (c : tcfg) (s : tstate) (l : level) : bool :=
  negb (s_triggered s) && (l >=? t_trig c) &&
  match snd (Trigger.trigger c s) with TErr _ => true | _ => false end.
(* the receiver after WriteLevel: buf and triggered as in the model's state s'; the log gains pool.Get when the line
   is held back and buf was nil, and the model's destination calls cs (never both: held back => cs = []) *)
Definition wl_after (w : wst) (s' : tstate) (cs : list dcall) (l : Z) : wst :=
  upd_w w (s_buf s') (s_triggered s')
    ((if held_back w s' l && buf_isnil (w_buf w) then [call_Get] else []) ++ map (to_ocall (w_lw w)) cs).

(* TriggerSrc.WriteLevel against the model's write_level.  Premises: buffer content shorter than 2^63 bytes; the
   script covers one outcome per buffered byte plus one (the pass-through call after a flush).  No premise on l:
   z2n 8 l = level_byte l for every Z.
   - ROk: err = nil; the count is len p when the line was held back, and otherwise the count the destination answered
     for the pass-through call (the model's destination always accepts fully: it says len p);
   - RErr: err is the non-nil error answered for the last call made; the count is 0 when it came from trigger() and
     otherwise the count the destination answered with its error (the model says 0);
   - RPanic: Panic. *)
Theorem write_level_src ans w l p n :
  len (buf_bytes (w_buf w)) < 9223372036854775808 -> (length (buf_bytes (w_buf w)) < n)%nat ->
  match write_level (cfg_of w) (abs_state w (script_of ans (length (w_calls w)) n)) l p with
  | (s', cs, ROk m) =>
      m = len p /\
      TriggerSrc.WriteLevel ans w l p =
        Ok ((if held_back w s' l then len p else ans_n ans (length (w_calls w) + length cs - 1), None),
            wl_after w s' cs l) /\
      (if held_back w s' l then cs = []
       else (1 <= length cs)%nat /\ ans_err ans (length (w_calls w) + length cs - 1) = None)
  | (s', cs, RErr m e) =>
      m = 0 /\
      TriggerSrc.WriteLevel ans w l p =
        Ok ((if trigger_fails (cfg_of w) (abs_state w (script_of ans (length (w_calls w)) n)) l then 0
             else ans_n ans (length (w_calls w) + length cs - 1),
             ans_err ans (length (w_calls w) + length cs - 1)),
            wl_after w s' cs l) /\
      err_code (ans_err ans (length (w_calls w) + length cs - 1)) = Some e /\
      (1 <= length cs)%nat /\ held_back w s' l = false
  | (s', cs, RPanic) => TriggerSrc.WriteLevel ans w l p = Panic
  end.
Proof.
  intros Hlen Hn. rewrite WriteLevel_eq. unfold write_level, trigger_fails.
  pose proof (trigger_src ans w n Hlen ltac:(lia)) as T.
  pose proof (trigger_model_state (cfg_of w) (abs_state w (script_of ans (length (w_calls w)) n))) as TS.
  set (tr := Trigger.trigger (cfg_of w) (abs_state w (script_of ans (length (w_calls w)) n))) in *.
  clearbody tr.
  cbn [cfg_of abs_state s_triggered s_buf s_script t_trig t_cond t_lw] in *.
  rewrite !Z.geb_leb.
  destruct (negb (w_triggered w) && (w_trig w <=? l)) eqn:Fire.
  - (* trigger() first *)
    destruct tr as [[s1 cs1] r1]. cbn [fst snd] in *. destruct TS as [TS1 TS2].
    destruct r1 as [|e|].
    + destruct T as (T1 & T2 & T3). rewrite T1. cbn [bind]. cbv beta iota. cbn [err_isnil negb].
      rewrite TS1. cbn [negb andb]. rewrite T2.
      destruct (n - length cs1)%nat as [|m'] eqn:En; [lia|]. rewrite script_of_S. cbn [next_outcome].
      unfold tail_src, wl_after, held_back, add_calls, TriggerSrc.set_TriggerLevelWriter_calls.
      cbn [upd_w s_triggered s_buf
           TriggerSrc.TriggerLevelWriter_Writer TriggerSrc.TriggerLevelWriter_ConditionalLevel
           TriggerSrc.TriggerLevelWriter_TriggerLevel TriggerSrc.TriggerLevelWriter_buf
           TriggerSrc.TriggerLevelWriter_triggered TriggerSrc.TriggerLevelWriter_Writer_is_LevelWriter
           TriggerSrc.TriggerLevelWriter_calls].
      cbn [negb andb app].
      rewrite !app_length, map_length. cbn [length].
      replace (length (w_calls w) + (length cs1 + 1) - 1)%nat with (length (w_calls w) + length cs1)%nat by lia.
      rewrite map_app, <- ?app_assoc. cbn [map].
      destruct (ans_err ans (length (w_calls w) + length cs1)) as [ev|] eqn:Ea; cbn [err_code].
      * repeat split; lia.
      * repeat split; lia.
    + destruct T as (T1 & T2 & T3 & T4). rewrite T1. cbn [bind]. cbv beta iota.
      unfold wl_after, held_back. rewrite TS1. cbn [negb andb app].
      destruct (ans_err ans (length (w_calls w) + length cs1 - 1)) as [ev|] eqn:Ea; cbn [err_code] in T2; [|discriminate].
      cbn [err_isnil negb err_code]. repeat split; try lia. exact T2.
    + rewrite T. reflexivity.
  - (* no trigger() *)
    cbv beta iota. cbn [andb]. clear T TS tr.
    unfold tail_src, wl_after, held_back, add_calls, TriggerSrc.set_TriggerLevelWriter_calls.
    cbn [abs_state s_triggered s_buf s_script].
    destruct (negb (w_triggered w) && (l <=? w_cond w)) eqn:Hold.
    + cbn [s_triggered s_buf map length]. rewrite Hold. cbn [andb]. rewrite app_nil_r.
      repeat split; reflexivity.
    + destruct n as [|n']; [lia|]. rewrite script_of_S. cbn [next_outcome app s_triggered s_buf map length].
      rewrite Hold. cbn [andb app].
      replace (length (w_calls w) + 1 - 1)%nat with (length (w_calls w)) by lia.
      destruct (ans_err ans (length (w_calls w))) as [ev|] eqn:Ea; cbn [err_code].
      * repeat split; lia.
      * repeat split; lia.
Qed.

(* the buffering path read off the source alone: untriggered, below TriggerLevel, at or below ConditionalLevel -
   no destination call, pool.Get first when buf was nil, the frame byte(l) :: p appended, (len p, nil) *)
Corollary write_level_src_hold ans w l p :
  w_triggered w = false -> (w_trig w <=? l) = false -> (l <=? w_cond w) = true ->
  TriggerSrc.WriteLevel ans w l p =
    Ok ((len p, None),
        upd_w w (Some (buf_bytes (w_buf w) ++ level_byte l :: p)) false
          (if buf_isnil (w_buf w) then [call_Get] else [])).
Proof.
  intros Ht Hg Hc. rewrite WriteLevel_eq. unfold tail_src. rewrite Ht, Hg, Hc. reflexivity.
Qed.

(* the link between bytes.IndexByte + slicing and the model's split_nl, as equivalences *)
Lemma split_nl_none_iff p : split_nl p = None <-> bytes_IndexByte p 10%N = -1.
Proof.
  split; [apply split_nl_none_index|]. intros H.
  destruct (split_nl p) as [[l r]|] eqn:E; [|reflexivity].
  destruct (split_nl_some_slices p l r E) as [H1 _]. lia.
Qed.

Lemma split_nl_some_iff p l r :
  split_nl p = Some (l, r) <->
  0 <= bytes_IndexByte p 10%N /\
  l = slice p 0 (bytes_IndexByte p 10%N + 1) /\ r = slice p (bytes_IndexByte p 10%N + 1) (len p).
Proof.
  split.
  - intros E. destruct (split_nl_some_slices p l r E) as (H1 & H2 & H3). repeat split; auto; lia.
  - intros (H1 & H2 & H3). destruct (split_nl p) as [[l' r']|] eqn:E.
    + destruct (split_nl_some_slices p l' r' E) as (_ & H2' & H3'). congruence.
    + apply split_nl_none_index in E. lia.
Qed.

Lemma trigger_counts :
  length TriggerSrc.translated_functions = 4%nat /\ length TriggerSrc.skipped_functions = 0%nat.
Proof. split; reflexivity. Qed.
