(* RFC 8259 (JSON) as an inductive relation between byte texts and abstract
   values, plus an executable parser proved sound w.r.t. the relation.

   THE PART TO TRUST is the first half of this file: [jv], [ws], [JChars],
   [JString], [JNumber], [JVal]/[Json]/[JElems]/[JMembers].

   Conventions.
   - Texts are byte lists ([list N]); string contents and object keys are lists
     of Unicode scalar values ([list N]).
   - RFC 8259 section 8.1: the text is UTF-8.  Unescaped string characters are
     therefore well-formed UTF-8 sequences ([Utf8.U8]) of scalars >= 0x20 other
     than quote and backslash.
   - \uXXXX escapes: a non-surrogate code unit denotes that scalar; a high
     surrogate must be followed by a \uXXXX low surrogate and the pair denotes
     one supplementary scalar.  LONE surrogates (which the RFC grammar admits
     but to which it assigns no character) are NOT accepted: the relation is
     slightly stricter than the ABNF there, which only strengthens every
     "the output is JSON" theorem.
   - Object members are an ORDERED list, duplicates kept.
   - A number keeps its text ([JNum txt]); [num_dec]/[num_value] give the exact
     rational it denotes. *)
From Coq Require Import QArith.
From Verif Require Import Base.Prelude Base.Decimal Base.Utf8 Enc.JsonEnc.
Open Scope N_scope.

Inductive jv :=
| JNull
| JBool (b : bool)
| JNum (txt : list N)
| JStr (cs : list N)
| JArr (l : list jv)
| JObj (kvs : list (list N * jv)).

(* ---------------- whitespace ---------------- *)
Definition is_ws (b : N) : bool := (b =? 0x20) || (b =? 0x09) || (b =? 0x0A) || (b =? 0x0D).
Definition ws (l : list N) : Prop := Forall (fun b => is_ws b = true) l.

(* ---------------- strings (section 7) ---------------- *)
Definition hexv (d : N) : option N :=
  if (48 <=? d) && (d <=? 57) then Some (d - 48)
  else if (97 <=? d) && (d <=? 102) then Some (d - 87)
  else if (65 <=? d) && (d <=? 70) then Some (d - 55)
  else None.

(* four hex digits -> the 16-bit code unit *)
Definition hex4 (hs : list N) : option N :=
  match hs with
  | [h1; h2; h3; h4] =>
    match hexv h1, hexv h2, hexv h3, hexv h4 with
    | Some v1, Some v2, Some v3, Some v4 => Some (v1 * 4096 + v2 * 256 + v3 * 16 + v4)
    | _, _, _, _ => None
    end
  | _ => None
  end.

(* the two-character escapes: (escape letter, scalar) *)
Definition esc2_table : list (N * N) :=
  [(0x22, 0x22); (0x5C, 0x5C); (0x2F, 0x2F); (0x62, 8); (0x66, 12); (0x6E, 10); (0x72, 13); (0x74, 9)].

(* the supplementary scalar denoted by a surrogate pair *)
Definition surr_pair (hi lo : N) : N := 0x10000 + (hi - 0xD800) * 1024 + (lo - 0xDC00).
Arguments surr_pair : simpl never.

(* [JChars body cs]: the bytes between the quotes denote the scalars [cs] *)
Inductive JChars : list N -> list N -> Prop :=
| JC_nil : JChars [] []
| JC_plain enc c r cs :
    U8 enc c -> 0x20 <= c -> c <> 0x22 -> c <> 0x5C -> JChars r cs -> JChars (enc ++ r) (c :: cs)
| JC_esc2 e c r cs :
    In (e, c) esc2_table -> JChars r cs -> JChars (0x5C :: e :: r) (c :: cs)
| JC_u hs c r cs :
    hex4 hs = Some c -> (c < 0xD800 \/ 0xE000 <= c) -> JChars r cs ->
    JChars ([0x5C; 0x75] ++ hs ++ r) (c :: cs)
| JC_upair hs1 hi hs2 lo r cs :
    hex4 hs1 = Some hi -> 0xD800 <= hi < 0xDC00 ->
    hex4 hs2 = Some lo -> 0xDC00 <= lo < 0xE000 -> JChars r cs ->
    JChars ([0x5C; 0x75] ++ hs1 ++ [0x5C; 0x75] ++ hs2 ++ r)
           (surr_pair hi lo :: cs).

(* [JString txt cs]: txt is a quoted JSON string denoting the scalars cs *)
Inductive JString : list N -> list N -> Prop :=
| JS_intro body cs : JChars body cs -> JString ([0x22] ++ body ++ [0x22]) cs.

(* ---------------- numbers (section 6) ---------------- *)
Definition digit (b : N) : Prop := 48 <= b <= 57.
Definition digits (l : list N) : Prop := l <> [] /\ Forall digit l.

Inductive JInt : list N -> Prop :=
| JI_zero : JInt [48]
| JI_pos d ds : 49 <= d <= 57 -> Forall digit ds -> JInt (d :: ds).
Inductive JFrac : list N -> Prop :=
| JF_none : JFrac []
| JF_some ds : digits ds -> JFrac (46 :: ds).
Inductive JExp : list N -> Prop :=
| JX_none : JExp []
| JX_some e sg ds : e = 101 \/ e = 69 -> sg = [] \/ sg = [43] \/ sg = [45] -> digits ds -> JExp (e :: sg ++ ds).
Inductive JNumber : list N -> Prop :=
| JN_intro sg i f e : sg = [] \/ sg = [45] -> JInt i -> JFrac f -> JExp e -> JNumber (sg ++ i ++ f ++ e).

(* ---------------- values (sections 2-5) ---------------- *)
Definition lit_null : list N := [110; 117; 108; 108].
Definition lit_true : list N := [116; 114; 117; 101].
Definition lit_false : list N := [102; 97; 108; 115; 101].

(* [JVal t v]  : t is a value without surrounding whitespace
   [Json t v]  : ws value ws  (a JSON-text; also the shape of an array element
                 and of a member value, since begin-array = ws [ ws,
                 value-separator = ws , ws, name-separator = ws : ws, ...)
   [JElems]    : value *( , value )          each with its surrounding ws
   [JMembers]  : member *( , member ),  member = ws string ws : ws value ws *)
Inductive JVal : list N -> jv -> Prop :=
| JV_null : JVal lit_null JNull
| JV_true : JVal lit_true (JBool true)
| JV_false : JVal lit_false (JBool false)
| JV_num t : JNumber t -> JVal t (JNum t)
| JV_str t cs : JString t cs -> JVal t (JStr cs)
| JV_arr_empty w : ws w -> JVal ([0x5B] ++ w ++ [0x5D]) (JArr [])
| JV_arr es l : JElems es l -> JVal ([0x5B] ++ es ++ [0x5D]) (JArr l)
| JV_obj_empty w : ws w -> JVal ([0x7B] ++ w ++ [0x7D]) (JObj [])
| JV_obj ms kvs : JMembers ms kvs -> JVal ([0x7B] ++ ms ++ [0x7D]) (JObj kvs)
with Json : list N -> jv -> Prop :=
| J_text w1 t w2 v : ws w1 -> JVal t v -> ws w2 -> Json (w1 ++ t ++ w2) v
with JElems : list N -> list jv -> Prop :=
| JE_one t v : Json t v -> JElems t [v]
| JE_cons t v r l : Json t v -> JElems r l -> JElems (t ++ [0x2C] ++ r) (v :: l)
with JMembers : list N -> list (list N * jv) -> Prop :=
| JM_one w1 kt w2 k vt v :
    ws w1 -> JString kt k -> ws w2 -> Json vt v ->
    JMembers (w1 ++ kt ++ w2 ++ [0x3A] ++ vt) [(k, v)]
| JM_cons w1 kt w2 k vt v r kvs :
    ws w1 -> JString kt k -> ws w2 -> Json vt v -> JMembers r kvs ->
    JMembers (w1 ++ kt ++ w2 ++ [0x3A] ++ vt ++ [0x2C] ++ r) ((k, v) :: kvs).

Scheme JVal_mind := Minimality for JVal Sort Prop
  with Json_mind := Minimality for Json Sort Prop
  with JElems_mind := Minimality for JElems Sort Prop
  with JMembers_mind := Minimality for JMembers Sort Prop.
Combined Scheme Json_mutind from JVal_mind, Json_mind, JElems_mind, JMembers_mind.

(* ================================================================== *)
(* Building blocks                                                      *)

Lemma ws_nil : ws [].
Proof. constructor. Qed.
Lemma ws_app a b : ws a -> ws b -> ws (a ++ b).
Proof. unfold ws. intros. apply Forall_app; auto. Qed.
#[export] Hint Resolve ws_nil : core.

Lemma Json_of_JVal t v : JVal t v -> Json t v.
Proof.
  intros H. pose proof (J_text [] t [] v ws_nil H ws_nil) as J.
  cbn [app] in J. rewrite app_nil_r in J. exact J.
Qed.

Lemma Json_ws w1 t w2 v : ws w1 -> ws w2 -> Json t v -> Json (w1 ++ t ++ w2) v.
Proof.
  intros H1 H2 J. destruct J as [a t b v Ha Ht Hb].
  replace (w1 ++ (a ++ t ++ b) ++ w2) with ((w1 ++ a) ++ t ++ (b ++ w2)) by (rewrite !app_assoc; reflexivity).
  constructor; auto using ws_app.
Qed.

Lemma Json_null : Json lit_null JNull.
Proof. apply Json_of_JVal; constructor. Qed.
Lemma Json_true : Json lit_true (JBool true).
Proof. apply Json_of_JVal; constructor. Qed.
Lemma Json_false : Json lit_false (JBool false).
Proof. apply Json_of_JVal; constructor. Qed.
Lemma Json_num t : JNumber t -> Json t (JNum t).
Proof. intros; apply Json_of_JVal; constructor; auto. Qed.
Lemma Json_str t cs : JString t cs -> Json t (JStr cs).
Proof. intros; apply Json_of_JVal; constructor; auto. Qed.

Lemma Json_obj_of_members ms kvs : JMembers ms kvs -> Json ([0x7B] ++ ms ++ [0x7D]) (JObj kvs).
Proof. intros; apply Json_of_JVal; constructor; auto. Qed.
Lemma Json_obj_empty : Json [0x7B; 0x7D] (JObj []).
Proof. apply Json_of_JVal. apply (JV_obj_empty []). constructor. Qed.
Lemma Json_arr_of_elems es l : JElems es l -> Json ([0x5B] ++ es ++ [0x5D]) (JArr l).
Proof. intros; apply Json_of_JVal; constructor; auto. Qed.
Lemma Json_arr_empty : Json [0x5B; 0x5D] (JArr []).
Proof. apply Json_of_JVal. apply (JV_arr_empty []). constructor. Qed.

Lemma JElems_one t v : Json t v -> JElems t [v].
Proof. apply JE_one. Qed.

Lemma JElems_app a la b lb : JElems a la -> JElems b lb -> JElems (a ++ [0x2C] ++ b) (la ++ lb).
Proof.
  induction 1 as [t v J|t v r l J HR IH]; intros Hb.
  - cbn [app]. apply (JE_cons t v b lb); auto.
  - specialize (IH Hb). rewrite <- !app_assoc. cbn [app] in *. apply (JE_cons t v _ _ J IH).
Qed.

Lemma JElems_snoc es l t v : JElems es l -> Json t v -> JElems (es ++ [0x2C] ++ t) (l ++ [v]).
Proof. intros H J. apply JElems_app; auto. constructor; auto. Qed.

Lemma JMembers_one kt k vt v : JString kt k -> Json vt v -> JMembers (kt ++ [0x3A] ++ vt) [(k, v)].
Proof. intros K J. exact (JM_one [] kt [] k vt v ws_nil K ws_nil J). Qed.

Lemma JMembers_app a ka b kb : JMembers a ka -> JMembers b kb -> JMembers (a ++ [0x2C] ++ b) (ka ++ kb).
Proof.
  induction 1 as [w1 kt w2 k vt v H1 K H2 J|w1 kt w2 k vt v r kvs H1 K H2 J HR IH]; intros Hb.
  - pose proof (JM_cons w1 kt w2 k vt v b kb H1 K H2 J Hb) as M.
    repeat rewrite <- app_assoc. exact M.
  - specialize (IH Hb).
    pose proof (JM_cons w1 kt w2 k vt v _ _ H1 K H2 J IH) as M.
    repeat rewrite <- app_assoc. repeat rewrite <- app_assoc in M. exact M.
Qed.

Lemma JMembers_snoc ms kvs ktxt k vtxt v :
  JMembers ms kvs -> JString ktxt k -> Json vtxt v ->
  JMembers (ms ++ [0x2C] ++ ktxt ++ [0x3A] ++ vtxt) (kvs ++ [(k, v)]).
Proof. intros M K J. apply JMembers_app; auto. apply JMembers_one; auto. Qed.

Lemma JElems_nonempty es l : JElems es l -> l <> [].
Proof. destruct 1; discriminate. Qed.
Lemma JMembers_nonempty ms kvs : JMembers ms kvs -> kvs <> [].
Proof. destruct 1; discriminate. Qed.

(* ================================================================== *)
(* Number texts: scanner, checker, value                                *)

Fixpoint span_digits (s : list N) : list N * list N :=
  match s with
  | b :: t => if is_digit b then let '(d, r) := span_digits t in (b :: d, r) else ([], s)
  | [] => ([], [])
  end.

(* value of a digit string (any length, leading zeros allowed) *)
Definition digits_val (l : list N) : N := fold_left (fun a b => a * 10 + (b - 48)) l 0.

Record numparts := {
  np_neg : bool;
  np_int : list N;                         (* integer digits *)
  np_frac : option (list N);               (* digits after the point *)
  np_exp : option (N * list N * list N)    (* e/E, sign text, digits *)
}.

Definition np_text (p : numparts) : list N :=
  (if np_neg p then [45] else []) ++ np_int p ++
  (match np_frac p with Some d => 46 :: d | None => [] end) ++
  (match np_exp p with Some (e, sg, d) => e :: sg ++ d | None => [] end).

Definition int_ok (i : list N) : bool :=
  match i with
  | [] => false
  | d :: r => if d =? 48 then match r with [] => true | _ => false end else true
  end.

(* scan the longest number prefix; [None] if the prefix is not a number *)
Definition scan_number (s : list N) : option (numparts * list N) :=
  let '(neg, s1) := match s with b :: t => if b =? 45 then (true, t) else (false, s) | [] => (false, s) end in
  let '(i, s2) := span_digits s1 in
  if negb (int_ok i) then None else
  let fr := match s2 with
            | b :: t => if b =? 46 then
                          let '(d, r) := span_digits t in
                          match d with [] => None | _ => Some (Some d, r) end
                        else Some (None, s2)
            | [] => Some (None, s2)
            end in
  match fr with
  | None => None
  | Some (f, s3) =>
    let ex := match s3 with
              | b :: t => if (b =? 101) || (b =? 69) then
                            let '(sg, t') := match t with
                                             | c :: u => if (c =? 43) || (c =? 45) then ([c], u) else ([], t)
                                             | [] => ([], t) end in
                            let '(d, r) := span_digits t' in
                            match d with [] => None | _ => Some (Some (b, sg, d), r) end
                          else Some (None, s3)
              | [] => Some (None, s3)
              end in
    match ex with
    | None => None
    | Some (e, s4) => Some ({| np_neg := neg; np_int := i; np_frac := f; np_exp := e |}, s4)
    end
  end.

Definition is_json_number (t : list N) : bool :=
  match scan_number t with Some (_, []) => true | _ => false end.

(* the decimal a number text denotes: (m, e) stands for m * 10^e *)
Definition np_dec (p : numparts) : Z * Z :=
  let fd := match np_frac p with Some d => d | None => [] end in
  let m := Z.of_N (digits_val (np_int p ++ fd)) in
  let ex := match np_exp p with
            | Some (_, sg, d) => match sg with [45] => (- Z.of_N (digits_val d))%Z | _ => Z.of_N (digits_val d) end
            | None => 0%Z end in
  ((if np_neg p then - m else m)%Z, (ex - Z.of_nat (length fd))%Z).

Definition num_dec (t : list N) : option (Z * Z) :=
  match scan_number t with Some (p, []) => Some (np_dec p) | _ => None end.

Definition dec_to_Q (d : Z * Z) : Q :=
  let '(m, e) := d in
  if (0 <=? e)%Z then inject_Z (m * 10 ^ e) else Qmake m (Z.to_pos (10 ^ (- e))).

(* the exact rational value of a number text *)
Definition num_value (t : list N) : option Q := option_map dec_to_Q (num_dec t).

(* ---- span_digits ---- *)
Lemma is_digit_digit b : is_digit b = true <-> digit b.
Proof. unfold is_digit, digit. lia. Qed.

Lemma span_digits_spec s d r : span_digits s = (d, r) ->
  s = d ++ r /\ Forall digit d /\ (match r with b :: _ => is_digit b = false | [] => True end).
Proof.
  revert d r. induction s as [|b t IH]; intros d r H; cbn in H.
  - inversion H; subst. repeat split; constructor.
  - destruct (is_digit b) eqn:E.
    + destruct (span_digits t) as [d' r'] eqn:S. inversion H; subst.
      destruct (IH _ _ eq_refl) as [-> [Hd Hr]]. repeat split; auto.
      constructor; auto. apply is_digit_digit; auto.
    + inversion H; subst. repeat split; auto.
Qed.

Lemma span_digits_complete d r :
  Forall digit d -> (match r with b :: _ => is_digit b = false | [] => True end) ->
  span_digits (d ++ r) = (d, r).
Proof.
  induction 1 as [|b d Hb Hd IH]; intros Hr; cbn [app].
  - destruct r as [|b t]; [reflexivity|]. cbn. rewrite Hr. reflexivity.
  - cbn. apply is_digit_digit in Hb. rewrite Hb, (IH Hr). reflexivity.
Qed.

Lemma int_ok_JInt i : Forall digit i -> int_ok i = true -> JInt i.
Proof.
  intros Hd H. destruct i as [|d r]; [discriminate|]. cbn in H. inversion Hd; subst.
  destruct (d =? 48) eqn:E.
  - destruct r; [|discriminate]. replace d with 48 by lia. constructor.
  - constructor; auto. unfold digit in *. lia.
Qed.

Lemma JInt_int_ok i : JInt i -> int_ok i = true /\ Forall digit i.
Proof.
  destruct 1 as [|d ds Hd Hds].
  - split; [reflexivity|]. repeat constructor; unfold digit; lia.
  - split; [cbn; replace (d =? 48) with false by lia; reflexivity|].
    constructor; auto. unfold digit; lia.
Qed.

Lemma scan_number_sound s p r : scan_number s = Some (p, r) -> s = np_text p ++ r /\ JNumber (np_text p).
Proof.
  unfold scan_number.
  set (ns := match s with b :: t => if b =? 45 then (true, t) else (false, s) | [] => (false, s) end).
  assert (Hns : s = (if fst ns then [45] else []) ++ snd ns).
  { subst ns. destruct s as [|b t]; [reflexivity|]. destruct (b =? 45) eqn:E; cbn; [f_equal; lia|reflexivity]. }
  destruct ns as [neg s1]. cbn [fst snd] in Hns.
  destruct (span_digits s1) as [i s2] eqn:S1.
  destruct (span_digits_spec _ _ _ S1) as [E1 [Hi _]].
  destruct (int_ok i) eqn:Ok; cbn [negb]; [|discriminate].
  pose proof (int_ok_JInt _ Hi Ok) as HI.
  (* fraction *)
  set (fr := match s2 with
            | b :: t => if b =? 46 then
                          let '(d, r) := span_digits t in
                          match d with [] => None | _ => Some (Some d, r) end
                        else Some (None, s2)
            | [] => Some (None, s2)
            end).
  assert (Hfr : match fr with
                | Some (f, s3) => s2 = (match f with Some d => 46 :: d | None => [] end) ++ s3 /\
                                  JFrac (match f with Some d => 46 :: d | None => [] end)
                | None => True end).
  { subst fr. destruct s2 as [|b t]; [split; [reflexivity|constructor]|].
    destruct (b =? 46) eqn:E; [|split; [reflexivity|constructor]].
    destruct (span_digits t) as [d r'] eqn:S2. destruct (span_digits_spec _ _ _ S2) as [-> [Hd _]].
    destruct d as [|d0 d]; [exact I|]. split; [cbn; f_equal; lia|]. constructor. split; [discriminate|auto]. }
  destruct fr as [[f s3]|]; [|discriminate]. destruct Hfr as [E2 HF].
  set (ex := match s3 with
              | b :: t => if (b =? 101) || (b =? 69) then
                            let '(sg, t') := match t with
                                             | c :: u => if (c =? 43) || (c =? 45) then ([c], u) else ([], t)
                                             | [] => ([], t) end in
                            let '(d, r) := span_digits t' in
                            match d with [] => None | _ => Some (Some (b, sg, d), r) end
                          else Some (None, s3)
              | [] => Some (None, s3)
              end).
  assert (Hex : match ex with
                | Some (e, s4) => s3 = (match e with Some (e, sg, d) => e :: sg ++ d | None => [] end) ++ s4 /\
                                  JExp (match e with Some (e, sg, d) => e :: sg ++ d | None => [] end)
                | None => True end).
  { subst ex. destruct s3 as [|b t]; [split; [reflexivity|constructor]|].
    destruct ((b =? 101) || (b =? 69)) eqn:E; [|split; [reflexivity|constructor]].
    set (sp := match t with
               | c :: u => if (c =? 43) || (c =? 45) then ([c], u) else ([], t)
               | [] => ([], t) end).
    assert (Hsp : t = fst sp ++ snd sp /\ (fst sp = [] \/ fst sp = [43] \/ fst sp = [45])).
    { subst sp. destruct t as [|c u]; [split; auto|].
      destruct ((c =? 43) || (c =? 45)) eqn:Ec; cbn [fst snd]; [|split; auto].
      split; [reflexivity|]. destruct (c =? 43) eqn:E43; [right; left; f_equal; lia|right; right; f_equal; lia]. }
    destruct sp as [sg t']. cbn [fst snd] in Hsp. destruct Hsp as [Et Hsg].
    destruct (span_digits t') as [d r'] eqn:S3. destruct (span_digits_spec _ _ _ S3) as [-> [Hd _]].
    destruct d as [|d0 d]; [exact I|]. split.
    - rewrite Et. cbn [app]. rewrite <- app_assoc. reflexivity.
    - constructor; [lia|auto|split; [discriminate|auto]]. }
  destruct ex as [[e s4]|]; [|discriminate]. destruct Hex as [E3 HX].
  intros H; inversion H; subst p r; clear H. unfold np_text; cbn [np_neg np_int np_frac np_exp].
  split.
  - rewrite Hns, E1, E2, E3. rewrite <- !app_assoc. reflexivity.
  - constructor; auto. destruct neg; auto.
Qed.

Lemma is_json_number_sound t : is_json_number t = true -> JNumber t.
Proof.
  unfold is_json_number. destruct (scan_number t) as [[p r]|] eqn:S; [|discriminate].
  destruct r; [|discriminate]. intros _.
  destruct (scan_number_sound _ _ _ S) as [E H]. rewrite app_nil_r in E. rewrite E. exact H.
Qed.

(* what may follow a value: nothing, or a byte that cannot continue a number *)
Definition num_stop (r : list N) : Prop :=
  match r with
  | b :: _ => is_digit b = false /\ b <> 46 /\ b <> 101 /\ b <> 69 /\ b <> 43 /\ b <> 45
  | [] => True
  end.

Lemma digits_head ds : digits ds -> exists d t, ds = d :: t /\ digit d /\ Forall digit t.
Proof. intros [Hn Hd]. destruct ds as [|d t]; [congruence|]. inversion Hd; subst. eauto. Qed.

(* well-formed number parts: exactly the texts of the number grammar *)
Definition np_wf (p : numparts) : Prop :=
  JInt (np_int p) /\
  match np_frac p with Some d => digits d | None => True end /\
  match np_exp p with
  | Some (e, sg, d) => (e = 101 \/ e = 69) /\ (sg = [] \/ sg = [43] \/ sg = [45]) /\ digits d
  | None => True
  end.

Lemma JNumber_np t : JNumber t <-> exists p, np_wf p /\ np_text p = t.
Proof.
  split.
  - intros [sg i f e Hsg HI HF HE].
    exists {| np_neg := match sg with [] => false | _ => true end; np_int := i;
              np_frac := match f with [] => None | _ :: d => Some d end;
              np_exp := match e with
                        | [] => None
                        | e0 :: u => Some (e0, match u with c :: _ => if (c =? 43) || (c =? 45) then [c] else [] | [] => [] end,
                                           match u with c :: u' => if (c =? 43) || (c =? 45) then u' else u | [] => [] end)
                        end |}.
    unfold np_wf, np_text; cbn [np_neg np_int np_frac np_exp]. split; [split; [auto|split]|].
    + destruct HF; auto.
    + destruct HE as [|e0 sg' ds He0 Hsg' Hds]; [auto|].
      destruct (digits_head _ Hds) as [d [t0 [-> [Hd Ht0]]]]. unfold digit in Hd.
      destruct Hsg' as [-> | [-> | ->]]; cbn [app].
      * replace ((d =? 43) || (d =? 45)) with false by lia. auto.
      * cbn. auto.
      * cbn. auto.
    + f_equal; [destruct Hsg as [-> | ->]; reflexivity|]. f_equal. f_equal; [destruct HF; reflexivity|].
      destruct HE as [|e0 sg' ds He0 Hsg' Hds]; [reflexivity|].
      destruct (digits_head _ Hds) as [d [t0 [-> [Hd Ht0]]]]. unfold digit in Hd.
      destruct Hsg' as [-> | [-> | ->]]; cbn [app]; [|reflexivity|reflexivity].
      replace ((d =? 43) || (d =? 45)) with false by lia. reflexivity.
  - intros [[neg i f e] [[HI [HF HE]] <-]]. unfold np_text; cbn [np_neg np_int np_frac np_exp] in *.
    constructor; auto.
    + destruct neg; auto.
    + destruct f; constructor; auto.
    + destruct e as [[[e0 sg] d]|]; [|constructor]. destruct HE as [? [? ?]]. constructor; auto.
Qed.

Lemma scan_number_complete_np p r : np_wf p -> num_stop r -> scan_number (np_text p ++ r) = Some (p, r).
Proof.
  destruct p as [neg i f e]. unfold np_wf, np_text; cbn [np_neg np_int np_frac np_exp].
  intros [HI [HF HE]] Hr.
  destruct (JInt_int_ok _ HI) as [Ok Hi].
  assert (Hi0 : exists d0 i', i = d0 :: i' /\ digit d0).
  { destruct i as [|d0 i']; [discriminate|]. inversion Hi; subst. eauto. }
  destruct Hi0 as [d0 [i' [Ei Hd0]]].
  set (ft := match f with Some d => 46 :: d | None => [] end) in *.
  set (et := match e with Some (e0, sg, d) => e0 :: sg ++ d | None => [] end) in *.
  unfold scan_number.
  (* sign *)
  assert (Hs : match ((if neg then [45] else []) ++ i ++ ft ++ et) ++ r with
               | b :: t0 => if b =? 45 then (true, t0) else (false, ((if neg then [45] else []) ++ i ++ ft ++ et) ++ r)
               | [] => (false, ((if neg then [45] else []) ++ i ++ ft ++ et) ++ r) end
               = (neg, i ++ (ft ++ et ++ r))).
  { destruct neg; cbn [app].
    - cbn. rewrite <- !app_assoc. reflexivity.
    - rewrite Ei. cbn [app]. unfold digit in Hd0. replace (d0 =? 45) with false by lia.
      rewrite <- !app_assoc. reflexivity. }
  rewrite Hs; clear Hs.
  assert (Stop_r : match r with b :: _ => is_digit b = false | [] => True end).
  { destruct r; [exact I|]. apply Hr. }
  assert (Stop_e : match et ++ r with b :: _ => is_digit b = false | [] => True end).
  { subst et. destruct e as [[[e0 sg] d]|]; cbn [app]; [|exact Stop_r].
    destruct HE as [He0 _]. unfold is_digit. lia. }
  assert (Stop_f : match ft ++ et ++ r with b :: _ => is_digit b = false | [] => True end).
  { subst ft. destruct f; cbn [app]; [reflexivity|exact Stop_e]. }
  rewrite (span_digits_complete i (ft ++ et ++ r) Hi Stop_f). rewrite Ok. cbn [negb].
  (* fraction *)
  assert (Hf : match ft ++ et ++ r with
               | b :: t0 => if b =? 46 then
                              let '(d, r0) := span_digits t0 in
                              match d with [] => None | _ => Some (Some d, r0) end
                            else Some (None, ft ++ et ++ r)
               | [] => Some (None, ft ++ et ++ r) end
               = Some (f, et ++ r)).
  { subst ft. destruct f as [ds|]; cbn [app].
    - cbn -[span_digits]. destruct (digits_head _ HF) as [d [t0 [-> [Hd Ht0]]]].
      rewrite (span_digits_complete (d :: t0) (et ++ r)); [reflexivity|constructor; auto|exact Stop_e].
    - destruct (et ++ r) as [|b t0] eqn:Eer; [reflexivity|].
      assert (b <> 46).
      { subst et. destruct e as [[[e0 sg] d]|]; cbn [app] in Eer.
        - destruct HE as [He0 _]. inversion Eer; subst. lia.
        - subst r. apply Hr. }
      replace (b =? 46) with false by lia. reflexivity. }
  rewrite Hf; clear Hf.
  (* exponent *)
  assert (He : match et ++ r with
               | b :: t0 => if (b =? 101) || (b =? 69) then
                              let '(sg0, t') := match t0 with
                                               | c :: u => if (c =? 43) || (c =? 45) then ([c], u) else ([], t0)
                                               | [] => ([], t0) end in
                              let '(d, r0) := span_digits t' in
                              match d with [] => None | _ => Some (Some (b, sg0, d), r0) end
                            else Some (None, et ++ r)
               | [] => Some (None, et ++ r) end
               = Some (e, r)).
  { subst et. destruct e as [[[e0 sg] ds]|]; cbn [app].
    - destruct HE as [He0 [Hsg Hds]].
      replace ((e0 =? 101) || (e0 =? 69)) with true by lia.
      destruct (digits_head _ Hds) as [d [t0 [-> [Hd Ht0]]]].
      destruct Hsg as [-> | [-> | ->]]; cbn [app].
      + unfold digit in Hd. replace ((d =? 43) || (d =? 45)) with false by lia.
        change (d :: t0 ++ r) with ((d :: t0) ++ r).
        rewrite (span_digits_complete (d :: t0) r); [reflexivity|constructor; auto|exact Stop_r].
      + cbn -[span_digits]. change (d :: t0 ++ r) with ((d :: t0) ++ r).
        rewrite (span_digits_complete (d :: t0) r); [reflexivity|constructor; auto|exact Stop_r].
      + cbn -[span_digits]. change (d :: t0 ++ r) with ((d :: t0) ++ r).
        rewrite (span_digits_complete (d :: t0) r); [reflexivity|constructor; auto|exact Stop_r].
    - destruct r as [|b t0]; [reflexivity|]. destruct Hr as [_ [_ [? [? _]]]].
      replace ((b =? 101) || (b =? 69)) with false by lia. reflexivity. }
  rewrite He. reflexivity.
Qed.

Lemma scan_number_complete t r : JNumber t -> num_stop r ->
  exists p, scan_number (t ++ r) = Some (p, r) /\ np_text p = t.
Proof.
  intros HN Hr. apply JNumber_np in HN. destruct HN as [p [Hp <-]].
  exists p. split; auto. apply scan_number_complete_np; auto.
Qed.

Lemma num_dec_np p : np_wf p -> num_dec (np_text p) = Some (np_dec p).
Proof.
  intros Hp. unfold num_dec. pose proof (scan_number_complete_np p [] Hp I) as S.
  rewrite app_nil_r in S. rewrite S. reflexivity.
Qed.


Theorem is_json_number_correct t : is_json_number t = true <-> JNumber t.
Proof.
  split; [apply is_json_number_sound|].
  intros H. destruct (scan_number_complete t [] H I) as [p [S _]].
  unfold is_json_number. rewrite app_nil_r in S. rewrite S. reflexivity.
Qed.

Lemma num_dec_some t : JNumber t -> exists d, num_dec t = Some d.
Proof.
  intros H. destruct (scan_number_complete t [] H I) as [p [S _]].
  unfold num_dec. rewrite app_nil_r in S. rewrite S. eauto.
Qed.

(* ================================================================== *)
(* The parser                                                           *)

Fixpoint skip_ws (s : list N) : list N :=
  match s with
  | b :: t => if is_ws b then skip_ws t else s
  | [] => []
  end.

Fixpoint strip_prefix (p s : list N) : option (list N) :=
  match p with
  | [] => Some s
  | a :: p' => match s with b :: s' => if a =? b then strip_prefix p' s' else None | [] => None end
  end.

Definition esc2 (e : N) : option N :=
  if e =? 0x22 then Some 0x22 else if e =? 0x5C then Some 0x5C else if e =? 0x2F then Some 0x2F
  else if e =? 0x62 then Some 8 else if e =? 0x66 then Some 12 else if e =? 0x6E then Some 10
  else if e =? 0x72 then Some 13 else if e =? 0x74 then Some 9 else None.

Definition ocons (c : N) (r : option (list N * list N)) : option (list N * list N) :=
  match r with Some (cs, rest) => Some (c :: cs, rest) | None => None end.

(* string body up to and including the closing quote *)
Fixpoint parse_chars (fuel : nat) (s : list N) : option (list N * list N) :=
  match fuel with
  | O => None
  | S f =>
    match s with
    | [] => None
    | b :: t =>
      if b =? 0x22 then Some ([], t)
      else if b =? 0x5C then
        match t with
        | [] => None
        | e :: t' =>
          if e =? 0x75 then
            match hex4 (firstn 4 t') with
            | None => None
            | Some c =>
              if (c <? 0xD800) || (0xE000 <=? c) then ocons c (parse_chars f (skipn 4 t'))
              else if c <? 0xDC00 then
                match skipn 4 t' with
                | b1 :: b2 :: t'' =>
                  if (b1 =? 0x5C) && (b2 =? 0x75) then
                    match hex4 (firstn 4 t'') with
                    | None => None
                    | Some lo =>
                      if (0xDC00 <=? lo) && (lo <? 0xE000)
                      then ocons (surr_pair c lo) (parse_chars f (skipn 4 t''))
                      else None
                    end
                  else None
                | _ => None
                end
              else None
            end
          else match esc2 e with
               | Some c => ocons c (parse_chars f t')
               | None => None
               end
        end
      else if b <? 0x20 then None
      else match go_decode_rune s with
           | Some (c, n) => ocons c (parse_chars f (skipn n s))
           | None => None
           end
    end
  end.

Fixpoint parse_value (fuel : nat) (s : list N) : option (jv * list N) :=
  match fuel with
  | O => None
  | S f =>
    match s with
    | [] => None
    | b :: t =>
      if b =? 0x22 then
        match parse_chars (S (length t)) t with Some (cs, r) => Some (JStr cs, r) | None => None end
      else if b =? 0x5B then
        match skip_ws t with
        | c :: t1 => if c =? 0x5D then Some (JArr [], t1)
                     else match parse_elems f t with Some (l, r) => Some (JArr l, r) | None => None end
        | [] => None
        end
      else if b =? 0x7B then
        match skip_ws t with
        | c :: t1 => if c =? 0x7D then Some (JObj [], t1)
                     else match parse_members f t with Some (kvs, r) => Some (JObj kvs, r) | None => None end
        | [] => None
        end
      else
        match strip_prefix lit_null s with
        | Some r => Some (JNull, r)
        | None =>
          match strip_prefix lit_true s with
          | Some r => Some (JBool true, r)
          | None =>
            match strip_prefix lit_false s with
            | Some r => Some (JBool false, r)
            | None =>
              match scan_number s with
              | Some (p, r) => Some (JNum (np_text p), r)
              | None => None
              end
            end
          end
        end
    end
  end
(* elements up to and including the closing bracket *)
with parse_elems (fuel : nat) (s : list N) : option (list jv * list N) :=
  match fuel with
  | O => None
  | S f =>
    match parse_value f (skip_ws s) with
    | None => None
    | Some (v, r) =>
      match skip_ws r with
      | c :: r1 =>
        if c =? 0x2C then
          match parse_elems f r1 with Some (l, r2) => Some (v :: l, r2) | None => None end
        else if c =? 0x5D then Some ([v], r1)
        else None
      | [] => None
      end
    end
  end
(* members up to and including the closing brace *)
with parse_members (fuel : nat) (s : list N) : option (list (list N * jv) * list N) :=
  match fuel with
  | O => None
  | S f =>
    match skip_ws s with
    | q :: t =>
      if q =? 0x22 then
        match parse_chars (S (length t)) t with
        | None => None
        | Some (k, r) =>
          match skip_ws r with
          | c :: r1 =>
            if c =? 0x3A then
              match parse_value f (skip_ws r1) with
              | None => None
              | Some (v, r2) =>
                match skip_ws r2 with
                | c2 :: r3 =>
                  if c2 =? 0x2C then
                    match parse_members f r3 with Some (kvs, r4) => Some ((k, v) :: kvs, r4) | None => None end
                  else if c2 =? 0x7D then Some ([(k, v)], r3)
                  else None
                | [] => None
                end
              end
            else None
          | [] => None
          end
        end
      else None
    | [] => None
    end
  end.

(* whole input = ws value ws *)
Definition parse_json (bs : list N) : option jv :=
  match parse_value (2 * length bs + 2) (skip_ws bs) with
  | Some (v, r) => match skip_ws r with [] => Some v | _ => None end
  | None => None
  end.

(* ---------------- soundness ---------------- *)

Lemma skip_ws_spec s : exists w, s = w ++ skip_ws s /\ ws w.
Proof.
  induction s as [|b t [w [E Hw]]]; [exists []; split; [reflexivity|constructor]|].
  cbn. destruct (is_ws b) eqn:Eb.
  - exists (b :: w). split; [cbn; f_equal; exact E|constructor; auto].
  - exists []. split; [reflexivity|constructor].
Qed.

Lemma skip_ws_stop s : match skip_ws s with b :: _ => is_ws b = false | [] => True end.
Proof. induction s as [|b t IH]; cbn; [exact I|]. destruct (is_ws b) eqn:E; auto. Qed.

Lemma skip_ws_app w s : ws w -> skip_ws (w ++ s) = skip_ws s.
Proof. induction 1 as [|b w Hb Hw IH]; [reflexivity|]. cbn. rewrite Hb. exact IH. Qed.

Lemma skip_ws_id s : match s with b :: _ => is_ws b = false | [] => True end -> skip_ws s = s.
Proof. destruct s as [|b t]; [reflexivity|]. cbn. intros ->. reflexivity. Qed.

Lemma strip_prefix_spec p s r : strip_prefix p s = Some r -> s = p ++ r.
Proof.
  revert s. induction p as [|a p IH]; intros s H; cbn in H; [inversion H; reflexivity|].
  destruct s as [|b s]; [discriminate|]. destruct (a =? b) eqn:E; [|discriminate].
  cbn. f_equal; [lia|auto].
Qed.

Lemma strip_prefix_app p r : strip_prefix p (p ++ r) = Some r.
Proof. induction p as [|a p IH]; [reflexivity|]. cbn. rewrite N.eqb_refl. exact IH. Qed.

Lemma esc2_table_spec e c : esc2 e = Some c <-> In (e, c) esc2_table.
Proof.
  unfold esc2, esc2_table. split.
  - intros H.
    repeat match type of H with
           | (if ?b then _ else _) = _ => let E := fresh "E" in destruct b eqn:E;
               [inversion H; subst c; replace e with (N.pos (match e with N.pos p => p | _ => 1%positive end)) by (destruct e; lia) | ]
           end; try discriminate;
    repeat match goal with E : (_ =? _) = true |- _ => apply N.eqb_eq in E; subst e end; cbn; tauto.
  - cbn. intros H.
    repeat match type of H with _ \/ _ => destruct H as [H|H] end; try contradiction;
      inversion H; subst; reflexivity.
Qed.

Lemma hex4_length hs c : hex4 hs = Some c -> length hs = 4%nat.
Proof. destruct hs as [|a [|b [|c' [|d [|x y]]]]]; cbn; try discriminate; auto. Qed.

Lemma firstn_skipn_4 (l : list N) c : hex4 (firstn 4 l) = Some c -> l = firstn 4 l ++ skipn 4 l.
Proof. intros _. symmetry. apply firstn_skipn. Qed.

Lemma ocons_some c r cs rest :
  ocons c r = Some (cs, rest) -> exists cs', r = Some (cs', rest) /\ cs = c :: cs'.
Proof. destruct r as [[cs' r']|]; cbn; [|discriminate]. intros H; inversion H; subst. eauto. Qed.

Lemma parse_chars_sound f s cs r :
  parse_chars f s = Some (cs, r) -> exists body, s = body ++ [0x22] ++ r /\ JChars body cs.
Proof.
  revert s cs r. induction f as [|f IH]; intros s cs r H; [discriminate|].
  cbn [parse_chars] in H. destruct s as [|b t]; [discriminate|].
  destruct (b =? 0x22) eqn:Eq.
  { inversion H; subst. exists []. split; [cbn; f_equal; lia|constructor]. }
  destruct (b =? 0x5C) eqn:Eb.
  { assert (b = 0x5C) by lia; subst b.
    destruct t as [|e t']; [discriminate|].
    destruct (e =? 0x75) eqn:Eu.
    - assert (e = 0x75) by lia; subst e.
      destruct (hex4 (firstn 4 t')) as [c|] eqn:Hx; [|discriminate].
      destruct ((c <? 0xD800) || (0xE000 <=? c)) eqn:Ec.
      + destruct (ocons_some _ _ _ _ H) as [cs' [P ->]]; clear H. destruct (IH _ _ _ P) as [body [E J]].
        exists ([0x5C; 0x75] ++ firstn 4 t' ++ body). split.
        * rewrite <- (firstn_skipn 4 t') at 1. rewrite E. cbn [app]. rewrite <- !app_assoc. reflexivity.
        * apply JC_u; auto. lia.
      + destruct (c <? 0xDC00) eqn:Ehi; [|discriminate].
        destruct (skipn 4 t') as [|b1 [|b2 t'']] eqn:Sk; try discriminate.
        destruct ((b1 =? 0x5C) && (b2 =? 0x75)) eqn:E12; [|discriminate].
        destruct (hex4 (firstn 4 t'')) as [lo|] eqn:Hx2; [|discriminate].
        destruct ((0xDC00 <=? lo) && (lo <? 0xE000)) eqn:Elo; [|discriminate].
        destruct (ocons_some _ _ _ _ H) as [cs' [P ->]]; clear H. destruct (IH _ _ _ P) as [body [E J]].
        exists ([0x5C; 0x75] ++ firstn 4 t' ++ [0x5C; 0x75] ++ firstn 4 t'' ++ body). split.
        * rewrite <- (firstn_skipn 4 t') at 1. rewrite Sk.
          rewrite <- (firstn_skipn 4 t'') at 1. rewrite E.
          assert (b1 = 0x5C) by lia. assert (b2 = 0x75) by lia. subst b1 b2.
          cbn [app]. rewrite <- !app_assoc. cbn [app]. rewrite <- !app_assoc. reflexivity.
        * apply JC_upair; auto; lia.
    - destruct (esc2 e) as [c|] eqn:E2; [|discriminate].
      destruct (ocons_some _ _ _ _ H) as [cs' [P ->]]; clear H. destruct (IH _ _ _ P) as [body [E J]].
      exists (0x5C :: e :: body). split; [rewrite E; reflexivity|].
      apply JC_esc2; auto. apply esc2_table_spec; auto. }
  destruct (b <? 0x20) eqn:E20; [discriminate|].
  destruct (go_decode_rune (b :: t)) as [[c n]|] eqn:D; [|discriminate].
  destruct (ocons_some _ _ _ _ H) as [cs' [P ->]]; clear H. destruct (IH _ _ _ P) as [body [E J]].
  destruct (go_decode_rune_sound _ _ _ D) as [HU [Hn Hp]].
  exists (firstn n (b :: t) ++ body). split.
  - rewrite <- (firstn_skipn n (b :: t)) at 1. rewrite E, <- app_assoc. reflexivity.
  - assert (Hc : b < 0x80 /\ c = b \/ 0x80 <= b /\ 0x80 <= c).
    { destruct n as [|n]; [lia|]. cbn [firstn] in HU.
      destruct (N.ltb_spec b 0x80); [left|right; split; [auto|eapply U8_head_ge80; eauto]].
      split; auto. inversion HU; subst; unfold cont in *; try lia. }
    apply JC_plain; auto; lia.
Qed.

Lemma parse_string_sound t cs r :
  parse_chars (S (length t)) t = Some (cs, r) -> exists st, 0x22 :: t = st ++ r /\ JString st cs.
Proof.
  intros H. destruct (parse_chars_sound _ _ _ _ H) as [body [E J]].
  exists ([0x22] ++ body ++ [0x22]). split; [rewrite E; cbn [app]; rewrite <- app_assoc; reflexivity|].
  constructor; auto.
Qed.

Lemma parse_sound_all f :
  (forall s v r, parse_value f s = Some (v, r) -> exists t, s = t ++ r /\ JVal t v) /\
  (forall s l r, parse_elems f s = Some (l, r) -> exists es, s = es ++ [0x5D] ++ r /\ JElems es l) /\
  (forall s kvs r, parse_members f s = Some (kvs, r) -> exists ms, s = ms ++ [0x7D] ++ r /\ JMembers ms kvs).
Proof.
  induction f as [|f [IHv [IHe IHm]]]; [repeat split; intros; discriminate|].
  assert (IHj : forall s v r, parse_value f (skip_ws s) = Some (v, r) ->
                  exists w t, s = w ++ t ++ r /\ ws w /\ JVal t v).
  { intros s v r H. destruct (IHv _ _ _ H) as [t [E J]].
    destruct (skip_ws_spec s) as [w [Es Hw]]. exists w, t. rewrite <- E. auto. }
  repeat split.
  - (* value *)
    intros s v r H. cbn [parse_value] in H. destruct s as [|b t]; [discriminate|].
    destruct (b =? 0x22) eqn:Eq.
    { assert (b = 0x22) by lia; subst b.
      destruct (parse_chars (S (length t)) t) as [[cs r']|] eqn:P; [|discriminate].
      injection H as <- <-. destruct (parse_string_sound _ _ _ P) as [st [E J]].
      exists st. split; auto. constructor; auto. }
    destruct (b =? 0x5B) eqn:Ea.
    { assert (b = 0x5B) by lia; subst b.
      destruct (skip_ws t) as [|c t1] eqn:Sk; [discriminate|].
      destruct (c =? 0x5D) eqn:Ec.
      - injection H as <- <-. destruct (skip_ws_spec t) as [w [E Hw]]. rewrite Sk in E.
        exists ([0x5B] ++ w ++ [0x5D]). split.
        + rewrite E. assert (c = 0x5D) by lia; subst c. cbn [app]. rewrite <- app_assoc. reflexivity.
        + constructor; auto.
      - destruct (parse_elems f t) as [[l r']|] eqn:P; [|discriminate]. injection H as <- <-.
        destruct (IHe _ _ _ P) as [es [E J]]. exists ([0x5B] ++ es ++ [0x5D]). split.
        + rewrite E. cbn [app]. rewrite <- app_assoc. reflexivity.
        + constructor; auto. }
    destruct (b =? 0x7B) eqn:Eo.
    { assert (b = 0x7B) by lia; subst b.
      destruct (skip_ws t) as [|c t1] eqn:Sk; [discriminate|].
      destruct (c =? 0x7D) eqn:Ec.
      - injection H as <- <-. destruct (skip_ws_spec t) as [w [E Hw]]. rewrite Sk in E.
        exists ([0x7B] ++ w ++ [0x7D]). split.
        + rewrite E. assert (c = 0x7D) by lia; subst c. cbn [app]. rewrite <- app_assoc. reflexivity.
        + constructor; auto.
      - destruct (parse_members f t) as [[l r']|] eqn:P; [|discriminate]. injection H as <- <-.
        destruct (IHm _ _ _ P) as [es [E J]]. exists ([0x7B] ++ es ++ [0x7D]). split.
        + rewrite E. cbn [app]. rewrite <- app_assoc. reflexivity.
        + constructor; auto. }
    destruct (strip_prefix lit_null (b :: t)) as [r0|] eqn:P0.
    { injection H as <- <-. exists lit_null. split; [apply strip_prefix_spec; auto|constructor]. }
    destruct (strip_prefix lit_true (b :: t)) as [r1|] eqn:P1.
    { injection H as <- <-. exists lit_true. split; [apply strip_prefix_spec; auto|constructor]. }
    destruct (strip_prefix lit_false (b :: t)) as [r2|] eqn:P2.
    { injection H as <- <-. exists lit_false. split; [apply strip_prefix_spec; auto|constructor]. }
    destruct (scan_number (b :: t)) as [[p r3]|] eqn:P3; [|discriminate].
    injection H as <- <-. destruct (scan_number_sound _ _ _ P3) as [E J].
    exists (np_text p). split; auto. constructor; auto.
  - (* elements *)
    intros s l r H. cbn [parse_elems] in H.
    destruct (parse_value f (skip_ws s)) as [[v r0]|] eqn:P; [|discriminate].
    destruct (IHj _ _ _ P) as [w [t [E [Hw J]]]].
    destruct (skip_ws r0) as [|c r1] eqn:Sk; [discriminate|].
    destruct (skip_ws_spec r0) as [w2 [E2 Hw2]]. rewrite Sk in E2.
    assert (HJ : Json (w ++ t ++ w2) v) by (constructor; auto).
    destruct (c =? 0x2C) eqn:Ec.
    + assert (c = 0x2C) by lia; subst c.
      destruct (parse_elems f r1) as [[l' r2]|] eqn:P2; [|discriminate]. injection H as <- <-.
      destruct (IHe _ _ _ P2) as [es [E3 J3]].
      exists ((w ++ t ++ w2) ++ [0x2C] ++ es). split.
      * rewrite E, E2, E3. rewrite <- !app_assoc. reflexivity.
      * constructor; auto.
    + destruct (c =? 0x5D) eqn:Ed; [|discriminate]. assert (c = 0x5D) by lia; subst c.
      injection H as <- <-. exists (w ++ t ++ w2). split.
      * rewrite E, E2. rewrite <- !app_assoc. reflexivity.
      * constructor; auto.
  - (* members *)
    intros s kvs r H. cbn [parse_members] in H.
    destruct (skip_ws s) as [|q t] eqn:Sk0; [discriminate|].
    destruct (skip_ws_spec s) as [w1 [E1 Hw1]]. rewrite Sk0 in E1.
    destruct (q =? 0x22) eqn:Eq; [|discriminate]. assert (q = 0x22) by lia; subst q.
    destruct (parse_chars (S (length t)) t) as [[k r0]|] eqn:P; [|discriminate].
    destruct (parse_string_sound _ _ _ P) as [kt [Ek Jk]].
    destruct (skip_ws r0) as [|c r1] eqn:Sk1; [discriminate|].
    destruct (skip_ws_spec r0) as [w2 [E2 Hw2]]. rewrite Sk1 in E2.
    destruct (c =? 0x3A) eqn:Ec; [|discriminate]. assert (c = 0x3A) by lia; subst c.
    destruct (parse_value f (skip_ws r1)) as [[v r2]|] eqn:Pv; [|discriminate].
    destruct (IHj _ _ _ Pv) as [w3 [vt [E3 [Hw3 Jv]]]].
    destruct (skip_ws r2) as [|c2 r3] eqn:Sk2; [discriminate|].
    destruct (skip_ws_spec r2) as [w4 [E4 Hw4]]. rewrite Sk2 in E4.
    assert (HJ : Json (w3 ++ vt ++ w4) v) by (constructor; auto).
    destruct (c2 =? 0x2C) eqn:Ec2.
    + assert (c2 = 0x2C) by lia; subst c2.
      destruct (parse_members f r3) as [[kvs' r4]|] eqn:Pm; [|discriminate]. injection H as <- <-.
      destruct (IHm _ _ _ Pm) as [ms [E5 J5]].
      exists (w1 ++ kt ++ w2 ++ [0x3A] ++ (w3 ++ vt ++ w4) ++ [0x2C] ++ ms). split.
      * rewrite E1, Ek, E2, E3, E4, E5. rewrite <- !app_assoc. reflexivity.
      * constructor; auto.
    + destruct (c2 =? 0x7D) eqn:Ed; [|discriminate]. assert (c2 = 0x7D) by lia; subst c2.
      injection H as <- <-.
      exists (w1 ++ kt ++ w2 ++ [0x3A] ++ (w3 ++ vt ++ w4)). split.
      * rewrite E1, Ek, E2, E3, E4. rewrite <- !app_assoc. reflexivity.
      * constructor; auto.
Qed.

Theorem parse_json_sound bs v : parse_json bs = Some v -> Json bs v.
Proof.
  unfold parse_json. intros H.
  destruct (parse_value (2 * length bs + 2) (skip_ws bs)) as [[v' r]|] eqn:P; [|discriminate].
  destruct (skip_ws r) eqn:Sk; [|discriminate]. inversion H; subst v'.
  destruct (proj1 (parse_sound_all _) _ _ _ P) as [t [E J]].
  destruct (skip_ws_spec bs) as [w1 [E1 Hw1]].
  destruct (skip_ws_spec r) as [w2 [E2 Hw2]]. rewrite Sk, app_nil_r in E2. subst r.
  rewrite E1, E. constructor; auto.
Qed.

(* ================================================================== *)
(* Completeness of the parser, and: a text denotes at most one value    *)

Ltac lenlia :=
  repeat match goal with
         | H : context [length (_ ++ _)] |- _ => rewrite app_length in H
         | H : context [length (_ :: _)] |- _ => progress cbn [length] in H
         end;
  repeat ((rewrite app_length) || (progress cbn [length])); lia.

Lemma firstn_exact {A} n (a b : list A) : length a = n -> firstn n (a ++ b) = a.
Proof. intros <-. rewrite firstn_app, Nat.sub_diag, firstn_all. cbn. apply app_nil_r. Qed.
Lemma skipn_exact {A} n (a b : list A) : length a = n -> skipn n (a ++ b) = b.
Proof. intros <-. rewrite skipn_app, Nat.sub_diag, skipn_all. reflexivity. Qed.

Lemma esc2_table_not_u e c : In (e, c) esc2_table -> e <> 0x75.
Proof.
  unfold esc2_table. cbn [In]. intros H.
  repeat (destruct H as [H|H]; [inversion H; subst; lia|]). contradiction.
Qed.

Lemma parse_chars_complete body cs : JChars body cs ->
  forall r f, (length body < f)%nat -> parse_chars f (body ++ 0x22 :: r) = Some (cs, r).
Proof.
  induction 1 as [|enc c r0 cs HU Hc1 Hc2 Hc3 _ IH|e c r0 cs Hin _ IH|hs c r0 cs Hx Hc _ IH
                  |hs1 hi hs2 lo r0 cs Hx1 Hhi Hx2 Hlo _ IH]; intros r f Hf;
    (destruct f as [|f]; [lia|]).
  - reflexivity.
  - rewrite <- app_assoc. pose proof (go_decode_rune_complete _ _ (r0 ++ 0x22 :: r) HU) as D.
    pose proof (U8_nonempty _ _ HU) as Hn.
    assert (Hb : exists b e', enc = b :: e' /\ b <> 0x22 /\ b <> 0x5C /\ 0x20 <= b).
    { destruct HU; unfold cont in *; eexists _, _; (split; [reflexivity|]); lia. }
    destruct Hb as [b [e' [-> [B1 [B2 B3]]]]].
    cbn [app parse_chars].
    replace (b =? 0x22) with false by lia. replace (b =? 0x5C) with false by lia.
    replace (b <? 0x20) with false by lia.
    change (b :: e' ++ r0 ++ 0x22 :: r) with ((b :: e') ++ r0 ++ 0x22 :: r).
    rewrite D, (skipn_exact _ _ _ eq_refl), IH; [reflexivity|].
    lenlia.
  - cbn [app parse_chars].
    change (0x5C =? 0x22) with false. change (0x5C =? 0x5C) with true. cbv iota.
    pose proof (esc2_table_not_u _ _ Hin). replace (e =? 0x75) with false by lia.
    rewrite (proj2 (esc2_table_spec e c) Hin), IH; [reflexivity|]. cbn [length] in Hf. lia.
  - pose proof (hex4_length _ _ Hx) as Hl.
    rewrite <- !app_assoc. cbn [app parse_chars].
    change (0x5C =? 0x22) with false. change (0x5C =? 0x5C) with true. change (0x75 =? 0x75) with true. cbv iota.
    rewrite (firstn_exact 4 hs _ Hl), Hx, (skipn_exact 4 hs _ Hl).
    replace ((c <? 0xD800) || (0xE000 <=? c)) with true by lia.
    rewrite IH; [reflexivity|]. lenlia.
  - pose proof (hex4_length _ _ Hx1) as Hl1. pose proof (hex4_length _ _ Hx2) as Hl2.
    rewrite <- !app_assoc. cbn [app parse_chars].
    change (0x5C =? 0x22) with false. change (0x5C =? 0x5C) with true. change (0x75 =? 0x75) with true. cbv iota.
    rewrite (firstn_exact 4 hs1 _ Hl1), Hx1, (skipn_exact 4 hs1 _ Hl1).
    replace ((hi <? 0xD800) || (0xE000 <=? hi)) with false by lia.
    replace (hi <? 0xDC00) with true by lia.
    change (0x5C =? 0x5C) with true. change (0x75 =? 0x75) with true. cbn [andb].
    rewrite (firstn_exact 4 hs2 _ Hl2), Hx2, (skipn_exact 4 hs2 _ Hl2).
    replace ((0xDC00 <=? lo) && (lo <? 0xE000)) with true by lia.
    rewrite IH; [reflexivity|]. lenlia.
Qed.

(* first byte of a value *)
Definition vstart (b : N) : Prop :=
  b = 0x22 \/ b = 0x5B \/ b = 0x7B \/ b = 110 \/ b = 116 \/ b = 102 \/ b = 45 \/ digit b.

Lemma vstart_nows b : vstart b -> is_ws b = false /\ b <> 0x5D /\ b <> 0x7D /\ b <> 0x2C /\ b <> 0x3A.
Proof. unfold vstart, digit, is_ws. lia. Qed.

Lemma JNumber_head t : JNumber t -> exists b t0, t = b :: t0 /\ (b = 45 \/ digit b).
Proof.
  intros [sg i f e Hsg HI _ _]. destruct Hsg as [-> | ->]; cbn [app]; [|eauto].
  destruct HI as [|d ds Hd _]; cbn [app]; eexists _, _; (split; [reflexivity|]); right; unfold digit; lia.
Qed.

Lemma JVal_head t v : JVal t v -> exists b t0, t = b :: t0 /\ vstart b.
Proof.
  unfold vstart. destruct 1 as [| | |t HN|t cs HS|w|es l|w|ms kvs]; cbn [app].
  - eexists _, _; split; [reflexivity|]; tauto.
  - eexists _, _; split; [reflexivity|]; tauto.
  - eexists _, _; split; [reflexivity|]; tauto.
  - destruct (JNumber_head _ HN) as [b [t0 [-> Hb]]]. eexists _, _; split; [reflexivity|]; tauto.
  - destruct HS. cbn [app]. eexists _, _; split; [reflexivity|]; tauto.
  - eexists _, _; split; [reflexivity|]; tauto.
  - eexists _, _; split; [reflexivity|]; tauto.
  - eexists _, _; split; [reflexivity|]; tauto.
  - eexists _, _; split; [reflexivity|]; tauto.
Qed.

Lemma Json_head t v : Json t v -> exists w b t0, t = w ++ b :: t0 /\ ws w /\ vstart b.
Proof.
  destruct 1 as [w1 t w2 v H1 HV H2]. destruct (JVal_head _ _ HV) as [b [t0 [-> Hb]]].
  exists w1, b, (t0 ++ w2). auto.
Qed.

Lemma JElems_head es l : JElems es l -> exists w b t0, es = w ++ b :: t0 /\ ws w /\ vstart b.
Proof.
  destruct 1 as [t v J|t v r l J _]; destruct (Json_head _ _ J) as [w [b [t0 [-> [Hw Hb]]]]].
  - exists w, b, t0. auto.
  - exists w, b, (t0 ++ [0x2C] ++ r). rewrite <- app_assoc. auto.
Qed.

Lemma JMembers_head ms kvs : JMembers ms kvs -> exists w t0, ms = w ++ 0x22 :: t0 /\ ws w.
Proof.
  destruct 1 as [w1 kt w2 k vt v H1 K _ _|w1 kt w2 k vt v r kvs H1 K _ _ _]; destruct K as [body k _];
    cbn [app]; eauto.
Qed.

Definition follow (r : list N) : Prop :=
  match r with [] => True | b :: _ => is_ws b = true \/ b = 0x2C \/ b = 0x5D \/ b = 0x7D end.
Definition nows (r : list N) : Prop :=
  match r with [] => True | b :: _ => is_ws b = false end.

Lemma follow_num_stop r : follow r -> num_stop r.
Proof. destruct r as [|b t]; [auto|]. unfold follow, num_stop, is_ws, is_digit. lia. Qed.

Lemma follow_ws_app w r : ws w -> follow r -> follow (w ++ r).
Proof. intros Hw Hr. destruct Hw as [|b w Hb _]; [exact Hr|]. cbn. auto. Qed.

Definition PV (t : list N) (v : jv) : Prop :=
  forall r f, follow r -> (2 * length (t ++ r) < f)%nat -> parse_value f (t ++ r) = Some (v, r).
Definition PJ (t : list N) (v : jv) : Prop :=
  forall r f, follow r -> nows r -> (2 * length (t ++ r) < f)%nat ->
    exists r', parse_value f (skip_ws (t ++ r)) = Some (v, r') /\ skip_ws r' = r.
Definition PE (es : list N) (l : list jv) : Prop :=
  forall r f, (2 * length (es ++ 0x5D%N :: r) + 1 < f)%nat -> parse_elems f (es ++ 0x5D :: r) = Some (l, r).
Definition PM (ms : list N) (kvs : list (list N * jv)) : Prop :=
  forall r f, (2 * length (ms ++ 0x7D%N :: r) + 1 < f)%nat -> parse_members f (ms ++ 0x7D :: r) = Some (kvs, r).

Lemma skip_ws_to w b t : ws w -> is_ws b = false -> skip_ws (w ++ b :: t) = b :: t.
Proof. intros Hw Hb. rewrite skip_ws_app by auto. cbn. rewrite Hb. reflexivity. Qed.

Lemma parse_complete_all :
  (forall t v, JVal t v -> PV t v) /\ (forall t v, Json t v -> PJ t v) /\
  (forall es l, JElems es l -> PE es l) /\ (forall ms kvs, JMembers ms kvs -> PM ms kvs).
Proof.
  apply Json_mutind; unfold PV, PJ, PE, PM.
  - (* null *) intros r f _ Hf. destruct f as [|f]; [lia|]. reflexivity.
  - (* true *) intros r f _ Hf. destruct f as [|f]; [lia|]. reflexivity.
  - (* false *) intros r f _ Hf. destruct f as [|f]; [lia|]. reflexivity.
  - (* number *)
    intros t HN r f Hr Hf. destruct f as [|f]; [lia|].
    destruct (scan_number_complete t r HN (follow_num_stop _ Hr)) as [p [S Ep]].
    destruct (JNumber_head _ HN) as [b [t0 [-> Hb]]]. unfold digit in Hb.
    cbn [app parse_value] in *.
    replace (b =? 0x22) with false by lia. replace (b =? 0x5B) with false by lia.
    replace (b =? 0x7B) with false by lia.
    unfold lit_null, lit_true, lit_false. cbn [strip_prefix].
    replace (110 =? b) with false by lia. replace (116 =? b) with false by lia.
    replace (102 =? b) with false by lia.
    rewrite S, Ep. reflexivity.
  - (* string *)
    intros t cs HS r f Hr Hf. destruct f as [|f]; [lia|]. destruct HS as [body cs HC].
    rewrite <- !app_assoc. cbn [app parse_value]. change (0x22 =? 0x22) with true. cbv iota.
    rewrite (parse_chars_complete _ _ HC); [reflexivity|]. lenlia.
  - (* [] *)
    intros w Hw r f Hr Hf. destruct f as [|f]; [lia|].
    rewrite <- !app_assoc. cbn [app parse_value].
    change (0x5B =? 0x22) with false. change (0x5B =? 0x5B) with true. cbv iota.
    rewrite (skip_ws_to w 0x5D r Hw eq_refl). reflexivity.
  - (* array *)
    intros es l HE IH r f Hr Hf. destruct f as [|f]; [lia|].
    destruct (JElems_head _ _ HE) as [w [b [t0 [Ees [Hw Hb]]]]].
    destruct (vstart_nows _ Hb) as [Nb [B1 _]].
    rewrite <- !app_assoc. cbn [app parse_value].
    change (0x5B =? 0x22) with false. change (0x5B =? 0x5B) with true. cbv iota.
    rewrite Ees at 1. rewrite <- app_assoc. cbn [app]. rewrite (skip_ws_to w b _ Hw Nb).
    replace (b =? 0x5D) with false by lia.
    rewrite IH; [reflexivity|]. lenlia.
  - (* {} *)
    intros w Hw r f Hr Hf. destruct f as [|f]; [lia|].
    rewrite <- !app_assoc. cbn [app parse_value].
    change (0x7B =? 0x22) with false. change (0x7B =? 0x5B) with false. change (0x7B =? 0x7B) with true. cbv iota.
    rewrite (skip_ws_to w 0x7D r Hw eq_refl). reflexivity.
  - (* object *)
    intros ms kvs HM IH r f Hr Hf. destruct f as [|f]; [lia|].
    destruct (JMembers_head _ _ HM) as [w [t0 [Ems Hw]]].
    rewrite <- !app_assoc. cbn [app parse_value].
    change (0x7B =? 0x22) with false. change (0x7B =? 0x5B) with false. change (0x7B =? 0x7B) with true. cbv iota.
    rewrite Ems at 1. rewrite <- app_assoc. cbn [app]. rewrite (skip_ws_to w 0x22 _ Hw eq_refl).
    change (0x22 =? 0x7D) with false. cbv iota.
    rewrite IH; [reflexivity|]. lenlia.
  - (* ws value ws *)
    intros w1 t w2 v H1 HV IH H2 r f Hr Hn Hf.
    destruct (JVal_head _ _ HV) as [b [t0 [Et Hb]]]. destruct (vstart_nows _ Hb) as [Nb _].
    exists (w2 ++ r). split.
    + rewrite <- !app_assoc. rewrite skip_ws_app by auto.
      rewrite skip_ws_id by (rewrite Et; cbn; exact Nb).
      apply IH; [apply follow_ws_app; auto|]. lenlia.
    + rewrite skip_ws_app by auto. apply skip_ws_id. exact Hn.
  - (* one element *)
    intros t v J IH r f Hf. destruct f as [|f]; [lia|]. cbn [parse_elems].
    destruct (IH (0x5D :: r) f) as [r' [P Sk]]; [cbn; auto|reflexivity|lenlia|].
    rewrite P, Sk. reflexivity.
  - (* more elements *)
    intros t v r0 l J IH1 HE IH2 r f Hf. destruct f as [|f]; [lia|]. cbn [parse_elems].
    rewrite <- !app_assoc. cbn [app].
    rewrite <- !app_assoc in Hf. cbn [app] in Hf.
    destruct (IH1 (0x2C :: r0 ++ 0x5D :: r) f) as [r' [P Sk]]; [cbn; auto|reflexivity|lenlia|].
    rewrite P, Sk. change (0x2C =? 0x2C) with true. cbv iota.
    rewrite IH2; [reflexivity|]. lenlia.
  - (* one member *)
    intros w1 kt w2 k vt v H1 K H2 J IH r f Hf. destruct f as [|f]; [lia|]. cbn [parse_members].
    destruct K as [body k HC].
    rewrite <- !app_assoc. cbn [app]. rewrite <- !app_assoc in Hf. cbn [app] in Hf.
    rewrite (skip_ws_to w1 0x22 _ H1 eq_refl). change (0x22 =? 0x22) with true. cbv iota.
    rewrite <- ?app_assoc; cbn [app].
    rewrite (parse_chars_complete _ _ HC) by lenlia.
    rewrite (skip_ws_to w2 0x3A _ H2 eq_refl). change (0x3A =? 0x3A) with true. cbv iota.
    destruct (IH (0x7D :: r) f) as [r' [P Sk]]; [cbn; auto|reflexivity|lenlia|].
    rewrite P, Sk. reflexivity.
  - (* more members *)
    intros w1 kt w2 k vt v r0 kvs H1 K H2 J IH1 HM IH2 r f Hf. destruct f as [|f]; [lia|]. cbn [parse_members].
    destruct K as [body k HC].
    rewrite <- !app_assoc. cbn [app]. rewrite <- !app_assoc in Hf. cbn [app] in Hf.
    rewrite (skip_ws_to w1 0x22 _ H1 eq_refl). change (0x22 =? 0x22) with true. cbv iota.
    rewrite <- ?app_assoc; cbn [app].
    rewrite (parse_chars_complete _ _ HC) by lenlia.
    rewrite (skip_ws_to w2 0x3A _ H2 eq_refl). change (0x3A =? 0x3A) with true. cbv iota.
    destruct (IH1 (0x2C :: r0 ++ 0x7D :: r) f) as [r' [P Sk]];
      [cbn; auto|reflexivity|lenlia|].
    rewrite P, Sk. change (0x2C =? 0x2C) with true. cbv iota.
    rewrite IH2; [reflexivity|]. lenlia.
Qed.

Theorem parse_json_complete bs v : Json bs v -> parse_json bs = Some v.
Proof.
  intros J. unfold parse_json.
  destruct (proj1 (proj2 parse_complete_all) _ _ J [] (2 * length bs + 2)%nat I I) as [r' [P Sk]].
  { rewrite app_nil_r. lia. }
  rewrite app_nil_r in P. rewrite P, Sk. reflexivity.
Qed.

Theorem parse_json_correct bs v : parse_json bs = Some v <-> Json bs v.
Proof. split; [apply parse_json_sound|apply parse_json_complete]. Qed.

(* a text denotes at most one value *)
Theorem json_functional t v1 v2 : Json t v1 -> Json t v2 -> v1 = v2.
Proof.
  intros H1 H2. apply parse_json_complete in H1. apply parse_json_complete in H2. congruence.
Qed.

Corollary JString_functional t cs1 cs2 : JString t cs1 -> JString t cs2 -> cs1 = cs2.
Proof.
  intros H1 H2. pose proof (json_functional t _ _ (Json_str _ _ H1) (Json_str _ _ H2)) as E.
  inversion E; reflexivity.
Qed.

(* the parser decides the relation *)
Corollary Json_dec_value bs : {v | Json bs v} + {forall v, ~ Json bs v}.
Proof.
  destruct (parse_json bs) as [v|] eqn:P.
  - left. exists v. apply parse_json_sound; auto.
  - right. intros v J. apply parse_json_complete in J. congruence.
Qed.
