(* RFC 3629 UTF-8 over byte lists ([N], each < 256) and Go's decoding of
   arbitrary bytes (utf8.DecodeRune / `for range`).

   [U8 enc c]    : [enc] is THE well-formed UTF-8 encoding of the Unicode
                   scalar value [c] (RFC 3629 section 4 ABNF: no overlong
                   forms, no surrogates, nothing above U+10FFFF).
   [Utf8 bs cs]  : [bs] is the concatenation of the encodings of [cs].
   [go_runes s]  : what Go's `for _, r := range string(s)` yields on ANY byte
                   list: the scalar of each well-formed sequence, U+FFFD for
                   each byte that does not start one.

   The arithmetic uses [*64]/[-0x80] instead of bit operations so that [lia]
   closes every side condition. *)
From Verif Require Import Base.Prelude Enc.JsonEnc.
Open Scope N_scope.

Definition cont (b : N) := 0x80 <= b /\ b <= 0xBF.

Inductive U8 : list N -> N -> Prop :=
| U1 b : b < 0x80 -> U8 [b] b
| U2 b0 b1 : 0xC2 <= b0 <= 0xDF -> cont b1 -> U8 [b0; b1] ((b0 - 0xC0) * 64 + (b1 - 0x80))
| U3 b0 b1 b2 :
    (b0 = 0xE0 /\ 0xA0 <= b1 <= 0xBF \/ 0xE1 <= b0 <= 0xEC /\ cont b1 \/
     b0 = 0xED /\ 0x80 <= b1 <= 0x9F \/ 0xEE <= b0 <= 0xEF /\ cont b1) ->
    cont b2 ->
    U8 [b0; b1; b2] ((b0 - 0xE0) * 4096 + (b1 - 0x80) * 64 + (b2 - 0x80))
| U4 b0 b1 b2 b3 :
    (b0 = 0xF0 /\ 0x90 <= b1 <= 0xBF \/ 0xF1 <= b0 <= 0xF3 /\ cont b1 \/
     b0 = 0xF4 /\ 0x80 <= b1 <= 0x8F) ->
    cont b2 -> cont b3 ->
    U8 [b0; b1; b2; b3] ((b0 - 0xF0) * 262144 + (b1 - 0x80) * 4096 + (b2 - 0x80) * 64 + (b3 - 0x80)).

Inductive Utf8 : list N -> list N -> Prop :=
| Utf8_nil : Utf8 [] []
| Utf8_cons enc c r cs : U8 enc c -> Utf8 r cs -> Utf8 (enc ++ r) (c :: cs).

(* Unicode scalar values *)
Definition scalar (c : N) := c < 0xD800 \/ 0xE000 <= c /\ c < 0x110000.

(* Go's `for range` over the bytes; fuel = length *)
Fixpoint go_runes_fuel (fuel : nat) (s : bytes) : list N :=
  match fuel with
  | O => []
  | S f =>
    match s with
    | [] => []
    | _ :: t =>
      match go_decode_rune s with
      | Some (c, n) => c :: go_runes_fuel f (skipn n s)
      | None => 0xFFFD :: go_runes_fuel f t
      end
    end
  end.
Definition go_runes (s : bytes) : list N := go_runes_fuel (length s) s.

(* ------------------------------------------------------------------ *)
(* U8: basic facts                                                     *)

Lemma U8_scalar enc c : U8 enc c -> scalar c.
Proof. unfold scalar. intros H; destruct H; unfold cont in *; lia. Qed.

(* the shortest-form ranges *)
Lemma U8_length_range enc c : U8 enc c ->
  (length enc = 1%nat /\ c < 0x80) \/ (length enc = 2%nat /\ 0x80 <= c < 0x800) \/
  (length enc = 3%nat /\ 0x800 <= c < 0x10000) \/ (length enc = 4%nat /\ 0x10000 <= c < 0x110000).
Proof. intros H; destruct H; unfold cont in *; cbn [length]; lia. Qed.

Lemma U8_bytes enc c : U8 enc c -> Forall (fun b => b < 256) enc.
Proof. intros H; destruct H; unfold cont in *; repeat constructor; lia. Qed.

Lemma U8_nonempty enc c : U8 enc c -> (0 < length enc)%nat.
Proof. intros H; destruct H; cbn; lia. Qed.

(* a multi-byte encoding consists of bytes >= 0x80 and denotes a scalar >= 0x80;
   a one-byte encoding is the scalar itself *)
Lemma U8_bytes_ge enc c lo : U8 enc c -> lo <= 0x80 -> lo <= c -> Forall (fun b => lo <= b) enc.
Proof. intros H; destruct H; unfold cont in *; intros; repeat constructor; lia. Qed.

Lemma U8_head_ge80 b t c : U8 (b :: t) c -> 0x80 <= b -> 0x80 <= c.
Proof. intros H. inversion H; subst; unfold cont in *; lia. Qed.

Lemma U8_ascii b : b < 0x80 -> U8 [b] b.
Proof. apply U1. Qed.

(* ------------------------------------------------------------------ *)
(* go_decode_rune is sound and complete w.r.t. U8                      *)

Lemma go_decode_rune_sound s c n :
  go_decode_rune s = Some (c, n) -> U8 (firstn n s) c /\ (n <= length s)%nat /\ (0 < n)%nat.
Proof.
  unfold go_decode_rune, inr. destruct s as [|b0 t]; [discriminate|].
  destruct (b0 <? 0x80) eqn:E0.
  { intros H; inversion H; subst. cbn. split; [constructor; lia| lia]. }
  destruct ((0xC2 <=? b0) && (b0 <=? 0xDF)) eqn:E1.
  { destruct t as [|b1 t]; [discriminate|]. destruct ((0x80 <=? b1) && (b1 <=? 0xBF)) eqn:E2; [|discriminate].
    intros H; inversion H; subst. cbn. split; [constructor; unfold cont; lia| lia]. }
  destruct ((0xE0 <=? b0) && (b0 <=? 0xEF)) eqn:E2.
  { destruct t as [|b1 [|b2 t]]; try discriminate.
    destruct (_ && _) eqn:E3 in |- *; [|discriminate].
    intros H; inversion H; subst. cbn [firstn length]. split; [|lia].
    destruct (b0 =? 0xE0) eqn:A; destruct (b0 =? 0xED) eqn:B; constructor; unfold cont; lia. }
  destruct ((0xF0 <=? b0) && (b0 <=? 0xF4)) eqn:E3; [|discriminate].
  destruct t as [|b1 [|b2 [|b3 t]]]; try discriminate.
  destruct (_ && _) eqn:E4 in |- *; [|discriminate].
  intros H; inversion H; subst. cbn [firstn length]. split; [|lia].
  destruct (b0 =? 0xF0) eqn:A; destruct (b0 =? 0xF4) eqn:B; constructor; unfold cont; lia.
Qed.

Ltac bool_cases :=
  repeat match goal with
         | |- context [if (?a =? ?b) then _ else _] => let E := fresh "E" in destruct (a =? b) eqn:E; try lia
         end;
  repeat match goal with
         | |- context [if ?b then _ else _] => let E := fresh "E" in destruct b eqn:E; try lia
         end.

Lemma go_decode_rune_complete enc c r : U8 enc c -> go_decode_rune (enc ++ r) = Some (c, length enc).
Proof.
  intros H; destruct H; unfold cont in *; cbn [app length]; unfold go_decode_rune, inr;
    bool_cases; reflexivity.
Qed.

(* the decoder answers Some exactly on the byte lists that start with a
   well-formed sequence; [None] is Go's (RuneError, 1) *)
Theorem go_decode_rune_spec s c n :
  go_decode_rune s = Some (c, n) <-> exists enc r, s = enc ++ r /\ U8 enc c /\ n = length enc.
Proof.
  split.
  - intros H. destruct (go_decode_rune_sound _ _ _ H) as [HU [Hn _]].
    exists (firstn n s), (skipn n s). split; [symmetry; apply firstn_skipn|]. split; auto.
    rewrite firstn_length. lia.
  - intros [enc [r [-> [HU ->]]]]. apply go_decode_rune_complete; auto.
Qed.

Lemma go_decode_rune_none s : go_decode_rune s = None -> forall enc c r, U8 enc c -> s <> enc ++ r.
Proof. intros H enc c r HU ->. rewrite (go_decode_rune_complete _ _ _ HU) in H. discriminate. Qed.

(* encodings are prefix-free and denote one scalar *)
Lemma U8_prefix_free e1 c1 r1 e2 c2 r2 :
  U8 e1 c1 -> U8 e2 c2 -> e1 ++ r1 = e2 ++ r2 -> e1 = e2 /\ c1 = c2 /\ r1 = r2.
Proof.
  intros H1 H2 E.
  pose proof (go_decode_rune_complete _ _ r1 H1) as D1.
  pose proof (go_decode_rune_complete _ _ r2 H2) as D2.
  rewrite E in D1. rewrite D1 in D2. inversion D2 as [[Ec El]].
  assert (e1 = e2).
  { apply (f_equal (firstn (length e1))) in E. rewrite El in E at 2.
    rewrite !firstn_app, !Nat.sub_diag, !firstn_all in E. cbn in E. rewrite !app_nil_r in E. exact E. }
  subst. repeat split; auto. eapply app_inv_head; eauto.
Qed.

Lemma U8_functional enc c1 c2 : U8 enc c1 -> U8 enc c2 -> c1 = c2.
Proof. intros H1 H2. eapply (U8_prefix_free enc c1 [] enc c2 []); eauto. Qed.

(* every scalar has an encoding (so [Utf8] is total on scalar lists) *)
Lemma U8_exists c : scalar c -> exists enc, U8 enc c.
Proof.
  unfold scalar. intros H.
  destruct (N.ltb_spec c 0x80); [exists [c]; constructor; auto|].
  destruct (N.ltb_spec c 0x800).
  { exists [0xC0 + c / 64; 0x80 + c mod 64].
    replace c with ((0xC0 + c / 64 - 0xC0) * 64 + (0x80 + c mod 64 - 0x80)) at 3 by lia.
    constructor; unfold cont; lia. }
  destruct (N.ltb_spec c 0x10000).
  { exists [0xE0 + c / 4096; 0x80 + (c / 64) mod 64; 0x80 + c mod 64].
    replace c with ((0xE0 + c / 4096 - 0xE0) * 4096 + (0x80 + (c / 64) mod 64 - 0x80) * 64 + (0x80 + c mod 64 - 0x80)) at 4 by lia.
    constructor; unfold cont; lia. }
  exists [0xF0 + c / 262144; 0x80 + (c / 4096) mod 64; 0x80 + (c / 64) mod 64; 0x80 + c mod 64].
  replace c with ((0xF0 + c / 262144 - 0xF0) * 262144 + (0x80 + (c / 4096) mod 64 - 0x80) * 4096
                  + (0x80 + (c / 64) mod 64 - 0x80) * 64 + (0x80 + c mod 64 - 0x80)) at 5 by lia.
  constructor; unfold cont; lia.
Qed.

(* ------------------------------------------------------------------ *)
(* Utf8                                                                *)

Lemma Utf8_app a ca b cb : Utf8 a ca -> Utf8 b cb -> Utf8 (a ++ b) (ca ++ cb).
Proof.
  induction 1 as [|enc c r cs HU HR IH]; intros Hb; cbn [app]; auto.
  rewrite <- app_assoc. constructor; auto.
Qed.

Lemma Utf8_one enc c : U8 enc c -> Utf8 enc [c].
Proof. intros H. rewrite <- (app_nil_r enc). constructor; [auto|constructor]. Qed.

Lemma Utf8_ascii l : Forall (fun b => b < 0x80) l -> Utf8 l l.
Proof.
  induction 1 as [|b l Hb Hl IH]; [constructor|].
  change (b :: l) with ([b] ++ l) at 1. constructor; [constructor|]; auto.
Qed.

Lemma Utf8_bytes bs cs : Utf8 bs cs -> Forall (fun b => b < 256) bs.
Proof. induction 1; [constructor|]. apply Forall_app; split; auto. eapply U8_bytes; eauto. Qed.

Lemma Utf8_scalars bs cs : Utf8 bs cs -> Forall scalar cs.
Proof. induction 1; constructor; auto. eapply U8_scalar; eauto. Qed.

Lemma Utf8_functional bs cs1 cs2 : Utf8 bs cs1 -> Utf8 bs cs2 -> cs1 = cs2.
Proof.
  intros H; revert cs2. induction H as [|enc c r cs HU HR IH]; intros cs2 H2.
  - inversion H2 as [|enc2 c2 r2 cs2' HU2 HR2 E]; auto.
    pose proof (U8_nonempty _ _ HU2). destruct enc2; cbn in *; [lia|discriminate].
  - inversion H2 as [E|enc2 c2 r2 cs2' HU2 HR2 E]; subst.
    + pose proof (U8_nonempty _ _ HU). destruct enc; cbn in *; [lia|discriminate].
    + destruct (U8_prefix_free _ _ _ _ _ _ HU2 HU E) as [-> [-> ->]]. f_equal. auto.
Qed.

Lemma Utf8_exists cs : Forall scalar cs -> exists bs, Utf8 bs cs.
Proof.
  induction 1 as [|c cs Hc _ [bs IH]]; [exists []; constructor|].
  destruct (U8_exists _ Hc) as [enc He]. exists (enc ++ bs). constructor; auto.
Qed.

(* ------------------------------------------------------------------ *)
(* go_runes                                                            *)

Lemma Forall_skipn {A} (P : A -> Prop) n l : Forall P l -> Forall P (skipn n l).
Proof. revert l; induction n as [|n IH]; intros l H; cbn; auto. destruct l; auto. inversion H; auto. Qed.

Lemma Forall_firstn {A} (P : A -> Prop) n l : Forall P l -> Forall P (firstn n l).
Proof. revert l; induction n as [|n IH]; intros l H; cbn; auto. destruct l; auto. inversion H; auto. Qed.

Lemma go_runes_fuel_enough f s : (length s <= f)%nat -> go_runes_fuel f s = go_runes s.
Proof.
  unfold go_runes. remember (length s) as k eqn:Ek.
  revert s f Ek. induction k as [k IH] using lt_wf_ind. intros s f Ek Hf.
  destruct s as [|b t].
  { subst. destruct f; reflexivity. }
  cbn [length] in Ek. destruct f as [|f]; [lia|]. subst k. cbn [go_runes_fuel].
  destruct (go_decode_rune (b :: t)) as [[c n]|] eqn:D.
  - destruct (go_decode_rune_sound _ _ _ D) as [_ [Hn Hp]]. cbn [length] in Hn.
    assert (Hl : (length (skipn n (b :: t)) <= length t)%nat) by (rewrite skipn_length; cbn [length]; lia).
    f_equal.
    rewrite (IH (length (skipn n (b :: t))) ltac:(lia) _ f eq_refl ltac:(lia)).
    rewrite (IH (length (skipn n (b :: t))) ltac:(lia) _ (length t) eq_refl ltac:(lia)). reflexivity.
  - f_equal. rewrite (IH (length t) ltac:(lia) _ f eq_refl ltac:(lia)). reflexivity.
Qed.

Lemma go_runes_nil : go_runes [] = [].
Proof. reflexivity. Qed.

(* unfolding equations of go_runes *)
Lemma go_runes_valid enc c r : U8 enc c -> go_runes (enc ++ r) = c :: go_runes r.
Proof.
  intros HU. pose proof (U8_nonempty _ _ HU) as Hn.
  unfold go_runes at 1. destruct (enc ++ r) as [|b t] eqn:E.
  { destruct enc; cbn in *; [lia|discriminate]. }
  cbn [length go_runes_fuel]. rewrite <- E. rewrite (go_decode_rune_complete _ _ _ HU).
  f_equal. rewrite skipn_app, skipn_all, Nat.sub_diag. cbn [skipn app].
  apply go_runes_fuel_enough.
  apply (f_equal (@length _)) in E. rewrite app_length in E. cbn [length] in E. lia.
Qed.

Lemma go_runes_invalid b t : go_decode_rune (b :: t) = None -> go_runes (b :: t) = 0xFFFD :: go_runes t.
Proof. intros D. unfold go_runes at 1. cbn [length go_runes_fuel]. rewrite D. reflexivity. Qed.

Lemma go_runes_ascii_cons b t : b < 0x80 -> go_runes (b :: t) = b :: go_runes t.
Proof. intros H. apply (go_runes_valid [b] b t). constructor; auto. Qed.

Lemma go_runes_Utf8_app bs cs r : Utf8 bs cs -> go_runes (bs ++ r) = cs ++ go_runes r.
Proof.
  induction 1 as [|enc c r' cs HU HR IH]; [reflexivity|].
  rewrite <- app_assoc, (go_runes_valid _ _ _ HU), IH. reflexivity.
Qed.

(* on well-formed UTF-8, Go's decoding is the denoted scalar list *)
Theorem go_runes_Utf8 bs cs : Utf8 bs cs -> go_runes bs = cs.
Proof. intros H. rewrite <- (app_nil_r bs), (go_runes_Utf8_app _ _ _ H), go_runes_nil, app_nil_r. reflexivity. Qed.

Lemma go_runes_ascii l : Forall (fun b => b < 0x80) l -> go_runes l = l.
Proof. intros H. apply go_runes_Utf8, Utf8_ascii, H. Qed.

(* whatever the bytes, the result is a list of scalar values *)
Lemma go_runes_scalars s : Forall scalar (go_runes s).
Proof.
  remember (length s) as k eqn:Ek. revert s Ek.
  induction k as [k IH] using lt_wf_ind. intros s Ek.
  destruct s as [|b t]; [constructor|]. cbn [length] in Ek.
  destruct (go_decode_rune (b :: t)) as [[c n]|] eqn:D.
  - destruct (go_decode_rune_sound _ _ _ D) as [HU [Hn Hp]]. cbn [length] in Hn.
    rewrite <- (firstn_skipn n (b :: t)), (go_runes_valid _ _ _ HU).
    constructor; [eapply U8_scalar; eauto|].
    apply (IH (length (skipn n (b :: t)))); [rewrite skipn_length; cbn [length]; lia|reflexivity].
  - rewrite (go_runes_invalid _ _ D). constructor; [unfold scalar; lia|].
    apply (IH (length t)); [lia|reflexivity].
Qed.
