(* Decimal text of integers: the model of strconv.AppendInt / AppendUint / Itoa
   and of strconv.Atoi restricted to what zerolog feeds it. Text is a list of
   bytes ([N]). Proofs are in Proofs/DecimalP.v. *)
From Verif Require Import Base.Prelude.
Open Scope N_scope.

Fixpoint digits_fuel (f : nat) (n : N) (acc : list N) : list N :=
  match f with
  | O => acc
  | S f' =>
      let acc' := (48 + n mod 10) :: acc in
      if n <? 10 then acc' else digits_fuel f' (n / 10) acc'
  end.

(* enough fuel: a number has at most log2 n + 1 decimal digits *)
Definition print_N (n : N) : list N := digits_fuel (S (N.to_nat (N.log2 n))) n [].

Definition print_Z (z : Z) : list N :=
  if (z <? 0)%Z then 45 :: print_N (Z.to_N (- z)) else print_N (Z.to_N z).

Definition is_digit (b : N) : bool := (48 <=? b) && (b <=? 57).

Fixpoint parse_digits (acc : N) (s : list N) : option N :=
  match s with
  | [] => Some acc
  | b :: t => if is_digit b then parse_digits (acc * 10 + (b - 48)) t else None
  end.

Definition parse_N (s : list N) : option N :=
  match s with [] => None | _ => parse_digits 0 s end.

(* strconv.Atoi: optional sign, at least one digit, (range errors are decided
   by the caller in the model: the result here is the mathematical value). *)
Definition parse_Z (s : list N) : option Z :=
  match s with
  | 45 :: t => match parse_N t with Some n => Some (- Z.of_N n)%Z | None => None end
  | 43 :: t => match parse_N t with Some n => Some (Z.of_N n) | None => None end
  | _ => match parse_N s with Some n => Some (Z.of_N n) | None => None end
  end.
