(* Exact float32 <-> float64 conversion on IEEE bit patterns (used by Base/GoSem.v for the Go conversions
   float64(x) of a float32 and float32(x) of a float64 that is exactly representable), with the facts the
   source-equivalence proofs need: narrowing inverts widening, widening preserves NaN-ness, commutes with
   clearing the sign bit, and is injective. *)
From Verif Require Import Base.Prelude.
Open Scope N_scope.

(* exact float32 -> float64 conversion on bit patterns, and its partial inverse *)
Definition widen (b : N) : N :=
  let s := b / 2147483648 in let e := (b / 8388608) mod 256 in let m := b mod 8388608 in
  s * 9223372036854775808 +
  (if e =? 0 then (if m =? 0 then 0 else (N.log2 m + 874) * 4503599627370496 + (m - 2 ^ N.log2 m) * 2 ^ (52 - N.log2 m))
   else if e =? 255 then 2047 * 4503599627370496 + m * 536870912
   else (e + 896) * 4503599627370496 + m * 536870912).

Definition narrow (x : N) : option N :=
  let s := x / 9223372036854775808 in let E := (x / 4503599627370496) mod 2048 in let M := x mod 4503599627370496 in
  if E =? 0 then (if M =? 0 then Some (s * 2147483648) else None)
  else if E =? 2047 then (if M mod 536870912 =? 0 then Some (s * 2147483648 + 255 * 8388608 + M / 536870912) else None)
  else if (897 <=? E) && (E <=? 1150) then (if M mod 536870912 =? 0 then Some (s * 2147483648 + (E - 896) * 8388608 + M / 536870912) else None)
  else if (874 <=? E) && (E <=? 896) then
    let p := E - 874 in (if M mod 2 ^ (52 - p) =? 0 then Some (s * 2147483648 + 2 ^ p + M / 2 ^ (52 - p)) else None)
  else None.

Lemma split32 b : b < 4294967296 ->
  let s := b / 2147483648 in let e := (b / 8388608) mod 256 in let m := b mod 8388608 in
  b = s * 2147483648 + e * 8388608 + m /\ s < 2 /\ e < 256 /\ m < 8388608.
Proof.
  intros H. cbv zeta.
  pose proof (N.div_mod' b 8388608) as E1. pose proof (N.mod_lt b 8388608 ltac:(lia)) as L1.
  set (q := b / 8388608) in *. set (m := b mod 8388608) in *.
  pose proof (N.div_mod' q 256) as E2. pose proof (N.mod_lt q 256 ltac:(lia)) as L2.
  set (s := q / 256) in *. set (e := q mod 256) in *.
  assert (Hs : b / 2147483648 = s).
  { symmetry. apply (N.div_unique b 2147483648 s (e * 8388608 + m)); lia. }
  rewrite Hs. repeat split; try lia.
Qed.

Lemma split64 s E M : s < 2 -> E < 2048 -> M < 4503599627370496 ->
  let x := s * 9223372036854775808 + (E * 4503599627370496 + M) in
  x / 9223372036854775808 = s /\ (x / 4503599627370496) mod 2048 = E /\ x mod 4503599627370496 = M /\ x mod 9223372036854775808 = E * 4503599627370496 + M.
Proof.
  intros Hs HE HM. cbv zeta.
  assert (A : (s * 9223372036854775808 + (E * 4503599627370496 + M)) / 9223372036854775808 = s).
  { symmetry. apply (N.div_unique _ 9223372036854775808 s (E * 4503599627370496 + M)); lia. }
  assert (B : (s * 9223372036854775808 + (E * 4503599627370496 + M)) / 4503599627370496 = s * 2048 + E).
  { symmetry. apply (N.div_unique _ 4503599627370496 (s * 2048 + E) M); lia. }
  rewrite A, B. repeat split.
  - rewrite N.add_comm, N.mod_add by lia. apply N.mod_small; lia.
  - symmetry. apply (N.mod_unique _ 4503599627370496 (s * 2048 + E) M); lia.
  - symmetry. apply (N.mod_unique _ 9223372036854775808 s (E * 4503599627370496 + M)); lia.
Qed.

(* the magnitude part of [widen], as (E, M) *)
Definition mag_EM (e m : N) : N * N :=
  if e =? 0 then (if m =? 0 then (0, 0) else (N.log2 m + 874, (m - 2 ^ N.log2 m) * 2 ^ (52 - N.log2 m)))
  else if e =? 255 then (2047, m * 536870912) else (e + 896, m * 536870912).

Lemma widen_EM b : widen b = (b / 2147483648) * 9223372036854775808 +
  (fst (mag_EM ((b / 8388608) mod 256) (b mod 8388608)) * 4503599627370496 + snd (mag_EM ((b / 8388608) mod 256) (b mod 8388608))).
Proof.
  unfold widen, mag_EM. cbv zeta.
  destruct ((b / 8388608) mod 256 =? 0); [destruct (b mod 8388608 =? 0)|destruct ((b / 8388608) mod 256 =? 255)]; cbn [fst snd]; lia.
Qed.

Lemma log2_sub m : 0 < m -> m < 8388608 ->
  N.log2 m <= 22 /\ 2 ^ N.log2 m <= m /\ (m - 2 ^ N.log2 m) * 2 ^ (52 - N.log2 m) < 4503599627370496 /\
  ((m - 2 ^ N.log2 m) * 2 ^ (52 - N.log2 m)) mod 2 ^ (52 - N.log2 m) = 0 /\
  2 ^ N.log2 m + ((m - 2 ^ N.log2 m) * 2 ^ (52 - N.log2 m)) / 2 ^ (52 - N.log2 m) = m.
Proof.
  intros H0 Hm. destruct (N.log2_spec m H0) as [Lo Hi].
  assert (Hp : N.log2 m <= 22).
  { destruct (N.le_gt_cases (N.log2 m) 22) as [|G]; [auto|]. exfalso.
    assert (2 ^ 23 <= 2 ^ N.log2 m) by (apply N.pow_le_mono_r; lia). change (2 ^ 23) with 8388608 in *. lia. }
  set (p := N.log2 m) in *.
  assert (Hpow : 2 ^ p * 2 ^ (52 - p) = 4503599627370496).
  { rewrite <- N.pow_add_r. replace (p + (52 - p)) with 52 by lia. reflexivity. }
  assert (Hpos : 0 < 2 ^ (52 - p)) by (apply N.neq_0_lt_0, N.pow_nonzero; lia).
  rewrite N.pow_succ_r' in Hi.
  repeat split; try lia.
  - assert ((m - 2 ^ p) * 2 ^ (52 - p) < 2 ^ p * 2 ^ (52 - p)) by (apply N.mul_lt_mono_pos_r; lia). lia.
  - apply N.mod_mul. lia.
  - rewrite N.div_mul by lia. lia.
Qed.

Lemma mag_bounds e m : e < 256 -> m < 8388608 ->
  fst (mag_EM e m) < 2048 /\ snd (mag_EM e m) < 4503599627370496.
Proof.
  intros He Hm. unfold mag_EM.
  destruct (e =? 0) eqn:E0; [destruct (m =? 0) eqn:M0|destruct (e =? 255) eqn:E255]; cbn [fst snd]; try lia.
  destruct (log2_sub m ltac:(lia) Hm) as (A & B & C & _). lia.
Qed.

Theorem narrow_widen b : b < 4294967296 -> narrow (widen b) = Some b.
Proof.
  intros Hb. destruct (split32 b Hb) as (Eb & Hs & He & Hm). cbv zeta in *.
  rewrite widen_EM. set (s := b / 2147483648) in *. set (e := (b / 8388608) mod 256) in *. set (m := b mod 8388608) in *.
  destruct (mag_bounds e m He Hm) as [BE BM].
  destruct (split64 s _ _ Hs BE BM) as (X1 & X2 & X3 & _). cbv zeta in *.
  unfold narrow. cbv zeta. rewrite X1, X2, X3. clear X1 X2 X3.
  unfold mag_EM in *.
  destruct (e =? 0) eqn:E0; [destruct (m =? 0) eqn:M0|destruct (e =? 255) eqn:E255]; cbn [fst snd] in *.
  - cbn. f_equal. lia.
  - destruct (log2_sub m ltac:(lia) Hm) as (A & B & C & D & F).
    set (p := N.log2 m) in *.
    replace (p + 874 =? 0) with false by lia. replace (p + 874 =? 2047) with false by lia.
    replace ((897 <=? p + 874) && (p + 874 <=? 1150)) with false by lia.
    replace ((874 <=? p + 874) && (p + 874 <=? 896)) with true by lia.
    replace (p + 874 - 874) with p by lia. rewrite D. cbn [N.eqb]. f_equal. lia.
  - cbn [N.eqb Pos.eqb]. rewrite N.mod_mul by lia. cbn [N.eqb]. rewrite N.div_mul by lia. f_equal. lia.
  - replace (e + 896 =? 0) with false by lia. replace (e + 896 =? 2047) with false by lia.
    replace ((897 <=? e + 896) && (e + 896 <=? 1150)) with true by lia.
    rewrite N.mod_mul by lia. cbn [N.eqb]. rewrite N.div_mul by lia. f_equal. lia.
Qed.

Corollary widen_inj a b : a < 4294967296 -> b < 4294967296 -> widen a = widen b -> a = b.
Proof. intros Ha Hb E. pose proof (narrow_widen a Ha) as Na. rewrite E, narrow_widen in Na by auto. congruence. Qed.

Definition isnan32 (b : N) : bool := ((b / 8388608) mod 256 =? 255) && negb (b mod 8388608 =? 0).
Definition isnan64 (x : N) : bool := ((x / 4503599627370496) mod 2048 =? 2047) && negb (x mod 4503599627370496 =? 0).

Lemma widen_nan b : b < 4294967296 -> isnan64 (widen b) = isnan32 b.
Proof.
  intros Hb. destruct (split32 b Hb) as (Eb & Hs & He & Hm). cbv zeta in *. unfold isnan64, isnan32.
  rewrite widen_EM. set (s := b / 2147483648) in *. set (e := (b / 8388608) mod 256) in *. set (m := b mod 8388608) in *.
  destruct (mag_bounds e m He Hm) as [BE BM].
  destruct (split64 s _ _ Hs BE BM) as (_ & X2 & X3 & _). cbv zeta in *. rewrite X2, X3. clear X2 X3.
  unfold mag_EM in *.
  destruct (e =? 0) eqn:E0; [destruct (m =? 0) eqn:M0|destruct (e =? 255) eqn:E255]; cbn [fst snd] in *.
  - replace (e =? 255) with false by lia. reflexivity.
  - destruct (log2_sub m ltac:(lia) Hm) as (A & _). replace (N.log2 m + 874 =? 2047) with false by lia. replace (e =? 255) with false by lia. reflexivity.
  - cbn [N.eqb Pos.eqb andb]. f_equal. destruct (m =? 0) eqn:M0; lia.
  - replace (e + 896 =? 2047) with false by lia. reflexivity.
Qed.

(* |x| of a widened float32 is the widened |x| *)
Lemma widen_abs b : b < 4294967296 -> widen b mod 9223372036854775808 = widen (b mod 2147483648).
Proof.
  intros Hb. destruct (split32 b Hb) as (Eb & Hs & He & Hm). cbv zeta in *.
  set (s := b / 2147483648) in *. set (e := (b / 8388608) mod 256) in *. set (m := b mod 8388608) in *.
  assert (Ha : b mod 2147483648 = e * 8388608 + m).
  { symmetry. apply (N.mod_unique b 2147483648 s (e * 8388608 + m)); lia. }
  assert (Hb' : e * 8388608 + m < 4294967296) by lia.
  destruct (split32 _ Hb') as (Eb' & Hs' & He' & Hm'). cbv zeta in *.
  assert (S0 : (e * 8388608 + m) / 2147483648 = 0) by (apply N.div_small; lia).
  assert (M0 : (e * 8388608 + m) mod 8388608 = m) by (symmetry; apply (N.mod_unique _ 8388608 e m); lia).
  assert (E0 : ((e * 8388608 + m) / 8388608) mod 256 = e).
  { assert (((e * 8388608 + m) / 8388608) = e) as -> by (symmetry; apply (N.div_unique _ 8388608 e m); lia). apply N.mod_small; lia. }
  rewrite Ha. rewrite !widen_EM. fold s e m. rewrite S0, M0, E0.
  destruct (mag_bounds e m He Hm) as [BE BM].
  destruct (split64 s _ _ Hs BE BM) as (_ & _ & _ & X4). cbv zeta in X4. rewrite X4. lia.
Qed.

Lemma widen_eqb b c : b < 4294967296 -> c < 4294967296 -> (widen b =? widen c) = (b =? c).
Proof.
  intros Hb Hc. destruct (N.eqb_spec b c) as [->|Hn]; [apply N.eqb_refl|].
  apply N.eqb_neq. intros E. apply Hn. apply widen_inj; auto.
Qed.
