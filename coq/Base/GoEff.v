(* Run-time library of `srcgen` for Go functions that read from a
   *bufio.Reader / io.Reader and write to an io.Writer (today: the CBOR
   decoder, internal/cbor/decode_stream.go -> coq/Gen/DecSrc.v).

   A translated effectful function is a state transformer [M A] over the
   [world]: the bytes the reader has not delivered yet, the byte a following
   UnreadByte would push back, and everything written to the writer so far
   (reversed).  Outcomes:
     EOk a w    normal return;
     EErr e w   panic(v) with v an error VALUE (fmt.Errorf(...), or the error
                a reader call returned): what the deferred recover of
                Cbor2JsonManyObjects turns into the returned err;
     EPanic w   a Go run-time panic (index/slice bounds, negative make, nil
                map...): re-panicked by that recover;
     EFuel      a loop or the recursion ran out of the fuel it was given;
     EUnsup     an operation outside the modelled contract was reached (never
                a guess).

   Contracts fixed here (= trusted base of the tie for DecSrc):
   * there is ONE reader and ONE writer per call tree; parameters of type
     *bufio.Reader, io.Reader, io.Writer are erased by the translator,
     bufio.NewReader(r) is the identity on the handle;
   * ReadByte delivers the next byte, or (0, EOF) at the end of the input; the
     source fails in no other way; bufio's 4096-byte window is not modelled;
   * UnreadByte directly after a successful ReadByte pushes that byte back and
     returns nil; in any other position it is outside the contract (EUnsup);
   * Peek(1) returns the next byte without consuming it, or (empty, EOF);
     Peek(n) for n <> 1 is outside the contract;
   * Write(p) appends p and returns (len p, nil): the writer accepts everything
     (the decoder ignores Write's results, so its behaviour cannot depend on
     them);
   * error values are opaque: fmt.Errorf(format, args...) is [ErrFmt format]
     (the arguments only shape the message text, which nothing compares). *)
From Verif Require Import Base.Prelude Base.Decimal Base.GoSem.
Open Scope Z_scope.

(* ErrNamed: a package-level sentinel error of the standard library (io.ErrShortWrite ...), compared by name *)
Inductive errv := ErrFmt (fmt : list N) | ErrEOF | ErrNamed (name : list N).
Definition goerr := option errv.          (* Go's `error`; nil = None *)
Definition err_isnil (e : goerr) : bool := match e with None => true | Some _ => false end.

(* strconv.Atoi: the decimal reading of Base/Decimal.v (optional sign, digits); ErrSyntax for anything else, ErrRange
   (with the nearest int) outside int64 *)
Definition strconv_Atoi (s : list N) : Z * goerr :=
  match Decimal.parse_Z s with
  | None => (0, Some (ErrNamed [115;116;114;99;111;110;118;46;69;114;114;83;121;110;116;97;120]%N))
  | Some i =>
      if (9223372036854775807 <? i) then (9223372036854775807, Some (ErrNamed [115;116;114;99;111;110;118;46;69;114;114;82;97;110;103;101]%N))
      else if (i <? -9223372036854775808) then (-9223372036854775808, Some (ErrNamed [115;116;114;99;111;110;118;46;69;114;114;82;97;110;103;101]%N))
      else (i, None)
  end.

Record stream := mkstream { s_rest : list N; s_last : option N }.
Record world := mkworld { w_in : stream; w_out : list N (* reversed *) }.

Inductive eres (A : Type) :=
| EOk (a : A) (w : world) | EErr (e : errv) (w : world) | EPanic (w : world) | EFuel | EUnsup.
Arguments EOk {A}. Arguments EErr {A}. Arguments EPanic {A}. Arguments EFuel {A}. Arguments EUnsup {A}.

Definition M (A : Type) : Type := world -> eres A.

Definition eret {A} (a : A) : M A := fun w => EOk a w.
Definition efuel {A} : M A := fun _ => EFuel.
Definition ebind {A B} (m : M A) (f : A -> M B) : M B :=
  fun w => match m w with
           | EOk a w' => f a w'
           | EErr e w' => EErr e w'
           | EPanic w' => EPanic w'
           | EFuel => EFuel
           | EUnsup => EUnsup
           end.
(* a pure translated function called from an effectful one *)
Definition lift {A} (r : res A) : M A :=
  fun w => match r with Ok a => EOk a w | Panic => EPanic w | Fuel => EFuel | Unsup => EUnsup end.
Definition eguard {A} (b : bool) (k : M A) : M A := if b then k else (fun w => EPanic w).
Definition eunsup_unless {A} (b : bool) (k : M A) : M A := if b then k else (fun _ => EUnsup).
Definition elbind {R X} (m : M (lres R X)) (f : X -> M R) : M R :=
  ebind m (fun l => match l with LRet r => eret r | LExit x => f x end).
Definition elbind2 {R X X2} (m : M (lres R X)) (f : X -> M (lres R X2)) : M (lres R X2) :=
  ebind m (fun l => match l with LRet r => eret (LRet r) | LExit x => f x end).
(* panic(e) with e of type error; panic(nil) is not modelled *)
Definition epanic {A} (e : goerr) : M A :=
  fun w => match e with Some v => EErr v w | None => EUnsup end.
(* defer func() { if r := recover(); r != nil { if _, ok := r.(runtime.Error); ok { panic(r) }; err = r.(error) } }()
   around a body whose normal result is the named result err *)
Definition recover_errors (body : M goerr) : M goerr :=
  fun w => match body w with
           | EErr e w' => EOk (Some e) w'
           | r => r
           end.

(* ---------- the reader and the writer ---------- *)
Definition set_in (w : world) (s : stream) : world := mkworld s (w_out w).

Definition bufio_ReadByte : M (N * goerr) :=
  fun w => match s_rest (w_in w) with
           | [] => EOk (0%N, Some ErrEOF) (set_in w (mkstream [] None))
           | b :: t => EOk (b, None) (set_in w (mkstream t (Some b)))
           end.
Definition bufio_UnreadByte : M goerr :=
  fun w => match s_last (w_in w) with
           | Some b => EOk None (set_in w (mkstream (b :: s_rest (w_in w)) None))
           | None => EUnsup
           end.
Definition bufio_Peek (n : Z) : M (list N * goerr) :=
  fun w => if n =? 1 then
             match s_rest (w_in w) with
             | [] => EOk ([], Some ErrEOF) (set_in w (mkstream [] None))
             | b :: _ => EOk ([b], None) (set_in w (mkstream (s_rest (w_in w)) None))
             end
           else EUnsup.
Definition io_Write (p : list N) : M (Z * goerr) :=
  fun w => EOk (len p, None) (mkworld (w_in w) (rev_append p (w_out w))).

(* ---------- generic facts ---------- *)
Lemma ebind_eret {A B} (a : A) (f : A -> M B) w : ebind (eret a) f w = f a w.
Proof. reflexivity. Qed.
Lemma ebind_lift_ok {A B} (a : A) (f : A -> M B) w : ebind (lift (Ok a)) f w = f a w.
Proof. reflexivity. Qed.
Lemma eguard_true {A} (k : M A) : eguard true k = k.
Proof. reflexivity. Qed.
Lemma elbind_exit {R X} (x : X) (f : X -> M R) w : elbind (eret (LExit x)) f w = f x w.
Proof. reflexivity. Qed.
Lemma elbind_ret {R X} (r : R) (f : X -> M R) w : elbind (eret (LRet r)) f w = EOk r w.
Proof. reflexivity. Qed.
