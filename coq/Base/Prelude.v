(* Common imports and small helpers shared by every model file.
   Bytes are [N] (with [b < 256] as a premise where it matters), machine
   integers are [Z]/[N] with the wrap-around written explicitly. *)
From Coq Require Export List NArith ZArith Lia Bool ZifyN ZifyNat ZifyBool.
Export ListNotations.

Definition two32 : N := 4294967296.
Definition two64 : N := 18446744073709551616.
Definition two63Z : Z := 9223372036854775808.
Definition two64Z : Z := 18446744073709551616.

(* int64 wrap-around of a mathematical integer *)
Definition wrap64 (z : Z) : Z := ((z + two63Z) mod two64Z - two63Z)%Z.

Lemma wrap64_id z : (- two63Z <= z < two63Z)%Z -> wrap64 z = z.
Proof.
  unfold wrap64, two63Z, two64Z. intros H.
  rewrite Z.mod_small; lia.
Qed.

Lemma wrap64_range z : (- two63Z <= wrap64 z < two63Z)%Z.
Proof.
  unfold wrap64, two63Z, two64Z.
  pose proof (Z.mod_pos_bound (z + 9223372036854775808) 18446744073709551616 ltac:(lia)). lia.
Qed.

(* int8 <-> uint8 reinterpretation *)
Definition to_u8 (z : Z) : Z := (z mod 256)%Z.
Definition to_i8 (z : Z) : Z := (if z mod 256 <? 128 then z mod 256 else z mod 256 - 256)%Z.

(* list update *)
Fixpoint upd {A} (l : list A) (i : nat) (x : A) : list A :=
  match l, i with
  | [], _ => []
  | _ :: t, O => x :: t
  | h :: t, S j => h :: upd t j x
  end.

Lemma upd_length {A} (l : list A) i x : length (upd l i x) = length l.
Proof. revert i; induction l as [|h t IH]; intros [|i]; cbn; auto. Qed.

Definition sumN (l : list N) : N := fold_right N.add 0%N l.
Lemma sumN_app l x : sumN (l ++ [x]) = (sumN l + x)%N.
Proof. induction l as [|a l IH]; cbn [sumN fold_right app] in *; [lia|]. unfold sumN in *. rewrite IH. lia. Qed.
Arguments sumN : simpl never.

Fixpoint count_true (l : list bool) : N :=
  match l with [] => 0 | true :: t => 1 + count_true t | false :: t => count_true t end%N.

Lemma count_true_app a b : count_true (a ++ b) = (count_true a + count_true b)%N.
Proof. induction a as [|[|] a IH]; cbn [count_true app]; lia. Qed.

(* generic mismatch collector used by every correspondence shard:
   [mismatches run cases] returns the indices of the cases whose model
   prediction differs from the recorded implementation observation. *)
Section Mismatch.
  Context {C O : Type} (run : C -> O) (eqb : O -> O -> bool).
  Fixpoint mismatches_from (i : N) (cs : list (C * O)) : list N :=
    match cs with
    | [] => []
    | (c, o) :: t => if eqb (run c) o then mismatches_from (i + 1) t else i :: mismatches_from (i + 1) t
    end.
  Definition mismatches := mismatches_from 0%N.
End Mismatch.

Fixpoint list_eqb {A} (eqb : A -> A -> bool) (a b : list A) : bool :=
  match a, b with
  | [], [] => true
  | x :: a', y :: b' => eqb x y && list_eqb eqb a' b'
  | _, _ => false
  end.

Lemma list_eqb_eq {A} (eqb : A -> A -> bool) :
  (forall x y, eqb x y = true <-> x = y) -> forall a b, list_eqb eqb a b = true <-> a = b.
Proof.
  intros H a. induction a as [|x a IH]; intros [|y b]; cbn; split; intros E; try discriminate; auto.
  - apply andb_true_iff in E as [E1 E2]. apply H in E1. apply IH in E2. subst; auto.
  - inversion E; subst. apply andb_true_iff; split; [apply H|apply IH]; auto.
Qed.
