(* Run-time library of the Go-to-Gallina translator `srcgen`
   (harness/cmd/srcgen).  The translator turns the bodies of selected Go
   functions of /repo into Gallina definitions (coq/Gen/*Src.v) over the
   vocabulary defined here.  No proofs about zerolog here; the lemmas below
   are the generic facts every equivalence proof needs.

   Semantics fixed by this file (= part of the trusted base of the tie):
   * a translated function returns [res R]: [Ok r] (normal return), [Panic]
     (index / slice bounds, division by zero: Go's run-time panics),
     [Fuel] (a loop ran out of the fuel the translator or the caller gave
     it - never a normal-looking value) or [Unsup] (an operation the
     translator cannot express, reached at run time);
   * unsigned Go integers are [N], wrapped modulo 2^width after every
     arithmetic operation; signed ones are [Z], wrapped into the two's
     complement range of their width; [int]/[uint] are 64 bits wide;
   * strings and byte slices are [list N]; slices of T are lists; a write
     through a slice produces a new list (aliasing between slices that share
     a backing array is NOT modelled here; the heap model of C05 does that);
   * Go floats are carried as IEEE bit patterns tagged with their width
     ([gofl]); float32 -> float64 is the exact conversion on bit patterns
     (Base/FloatBits.v), float64 -> float32 is defined only for values that
     are exactly representable (otherwise [Unsup]); comparisons across
     widths are [Unsup]; no float arithmetic. *)
From Verif Require Import Base.Prelude Base.Decimal Base.FloatBits.
Open Scope Z_scope.

Inductive res (A : Type) := Ok (a : A) | Panic | Fuel | Unsup.
Arguments Ok {A} a. Arguments Panic {A}. Arguments Fuel {A}. Arguments Unsup {A}.

Definition bind {A B} (m : res A) (f : A -> res B) : res B :=
  match m with Ok a => f a | Panic => Panic | Fuel => Fuel | Unsup => Unsup end.

(* outcome of a loop: the function returned from inside it, or the loop was
   left (condition false / break) with these values of the variables it assigns *)
Inductive lres (R M : Type) := LRet (r : R) | LExit (m : M).
Arguments LRet {R M} r. Arguments LExit {R M} m.

Definition lbind {R M} (m : res (lres R M)) (f : M -> res R) : res R :=
  match m with
  | Ok (LRet r) => Ok r | Ok (LExit x) => f x
  | Panic => Panic | Fuel => Fuel | Unsup => Unsup end.
(* a loop nested in a loop: a return propagates, an exit continues *)
Definition lbind2 {R M M2} (m : res (lres R M)) (f : M -> res (lres R M2)) : res (lres R M2) :=
  match m with
  | Ok (LRet r) => Ok (LRet r) | Ok (LExit x) => f x
  | Panic => Panic | Fuel => Fuel | Unsup => Unsup end.

Definition guard {A} (b : bool) (k : res A) : res A := if b then k else Panic.
Definition unsup_unless {A} (b : bool) (k : res A) : res A := if b then k else Unsup.

(* ---------- lengths, indexing, slicing ---------- *)
Definition len {A} (l : list A) : Z := Z.of_nat (length l).
Definition inb {A} (i : Z) (l : list A) : bool := (0 <=? i) && (i <? len l).
Definition idx {A} (d : A) (l : list A) (i : Z) : A := nth (Z.to_nat i) l d.
Definition slice_ok {A} (l : list A) (lo hi : Z) : bool := (0 <=? lo) && (lo <=? hi) && (hi <=? len l).
Definition slice {A} (l : list A) (lo hi : Z) : list A := firstn (Z.to_nat (hi - lo)) (skipn (Z.to_nat lo) l).
Definition set_idx {A} (l : list A) (i : Z) (x : A) : list A := upd l (Z.to_nat i) x.

(* ---------- fixed-width arithmetic ---------- *)
Definition wrapu (w : N) (n : N) : N := (n mod (2 ^ w))%N.
Definition wraps (w : Z) (z : Z) : Z := (z + 2 ^ (w - 1)) mod (2 ^ w) - 2 ^ (w - 1).
Definition subu (w : N) (a b : N) : N := ((a + 2 ^ w - b mod 2 ^ w) mod 2 ^ w)%N.
(* Go's truncated division; the translator guards the divisor *)
Definition quot (a b : Z) : Z := Z.quot a b.
Definition rem (a b : Z) : Z := Z.rem a b.

Lemma wraps_id w z : 0 < w -> - 2 ^ (w - 1) <= z < 2 ^ (w - 1) -> wraps w z = z.
Proof.
  intros Hw H. unfold wraps.
  assert (E : 2 ^ w = 2 * 2 ^ (w - 1)). { replace w with (Z.succ (w - 1)) at 1 by lia. rewrite Z.pow_succ_r by lia. reflexivity. }
  rewrite Z.mod_small; lia.
Qed.
Lemma wraps64_id z : - 9223372036854775808 <= z < 9223372036854775808 -> wraps 64 z = z.
Proof. intros H. apply wraps_id; [lia|]. change (2 ^ (64 - 1)) with 9223372036854775808. lia. Qed.
Lemma wrapu_id w n : (n < 2 ^ w)%N -> wrapu w n = n.
Proof. intros H. unfold wrapu. apply N.mod_small; auto. Qed.

(* ---------- conversions ---------- *)
Definition z2n (w : N) (z : Z) : N := Z.to_N (z mod 2 ^ (Z.of_N w)).      (* signed -> unsigned of width w *)
Definition n2z (w : Z) (n : N) : Z := wraps w (Z.of_N n).                 (* unsigned -> signed of width w *)

(* ---------- floats as tagged bit patterns ---------- *)
Record gofl := { fl32 : bool; flbits : N }.
Definition fl_isnan (f : gofl) : bool :=
  if fl32 f then ((flbits f / 8388608) mod 256 =? 255)%N && negb (flbits f mod 8388608 =? 0)%N
  else ((flbits f / 4503599627370496) mod 2048 =? 2047)%N && negb (flbits f mod 4503599627370496 =? 0)%N.
Definition fl_isinf (f : gofl) (sign : Z) : bool :=
  let pos := if fl32 f then 0x7f800000%N else 0x7ff0000000000000%N in
  let neg := if fl32 f then 0xff800000%N else 0xfff0000000000000%N in
  ((0 <=? sign) && (flbits f =? pos)%N) || ((sign <=? 0) && (flbits f =? neg)%N).
Definition fl_abs (f : gofl) : gofl :=
  {| fl32 := fl32 f; flbits := if fl32 f then (flbits f mod 2147483648)%N else (flbits f mod 9223372036854775808)%N |}.
Definition fl_neg_bit (f : gofl) : bool := if fl32 f then (2147483648 <=? flbits f)%N else (9223372036854775808 <=? flbits f)%N.
Definition fl_iszero (f : gofl) : bool := (flbits (fl_abs f) =? 0)%N.
(* comparison of two non-NaN floats of the same width through sign and magnitude; the constant operand is
   given by the translator as the bit pattern Go's compiler would use for that width *)
Definition fl_key (f : gofl) : Z :=
  let m := Z.of_N (flbits (fl_abs f)) in if fl_neg_bit f then - m else m.
Definition fl_lt (a b : gofl) : bool := negb (fl_isnan a) && negb (fl_isnan b) && (fl_key a <? fl_key b).
Definition fl_le (a b : gofl) : bool := negb (fl_isnan a) && negb (fl_isnan b) && (fl_key a <=? fl_key b).
Definition fl_eq (a b : gofl) : bool := negb (fl_isnan a) && negb (fl_isnan b) && (fl_key a =? fl_key b).
Definition fl_same_width (a b : gofl) : bool := Bool.eqb (fl32 a) (fl32 b).
(* float64(x) of a float32: the exact conversion [widen]; float32(x) of a float64: defined (and then exact) only
   when x is representable as a float32 ([narrow]); anything else is outside the subset (Unsup) *)
Definition fl_to64 (f : gofl) : gofl := if fl32 f then {| fl32 := false; flbits := widen (flbits f) |} else f.
Definition fl_to32_ok (f : gofl) : bool := if fl32 f then true else match narrow (flbits f) with Some _ => true | None => false end.
Definition fl_to32 (f : gofl) : gofl :=
  if fl32 f then f else {| fl32 := true; flbits := match narrow (flbits f) with Some b => b | None => 0%N end |}.

(* ---------- the standard-library calls the translated code makes ---------- *)
Definition strconv_AppendInt (dst : list N) (v : Z) : list N := dst ++ print_Z v.
Definition strconv_AppendUint (dst : list N) (v : N) : list N := dst ++ print_N v.
Definition strconv_AppendBool (dst : list N) (b : bool) : list N :=
  dst ++ (if b then [116;114;117;101] else [102;97;108;115;101])%N.

(* ---------- generic facts ---------- *)
Lemma len_app {A} (a b : list A) : len (a ++ b) = len a + len b.
Proof. unfold len. rewrite app_length. lia. Qed.
Lemma len_nonneg {A} (l : list A) : 0 <= len l.
Proof. unfold len. lia. Qed.
Lemma len_cons {A} (x : A) l : len (x :: l) = 1 + len l.
Proof. unfold len. cbn [length]. lia. Qed.
Lemma len_nil {A} : len (@nil A) = 0.
Proof. reflexivity. Qed.

Lemma slice_full {A} (l : list A) : slice l 0 (len l) = l.
Proof. unfold slice, len. rewrite Z.sub_0_r, Nat2Z.id. cbn [Z.to_nat skipn]. apply firstn_all. Qed.

Lemma slice_from {A} (l : list A) i : 0 <= i <= len l -> slice l i (len l) = skipn (Z.to_nat i) l.
Proof.
  intros H. unfold slice, len in *. apply firstn_all2. rewrite skipn_length. lia.
Qed.

Lemma firstn_plus {A} (l : list A) a b : firstn (a + b) l = firstn a l ++ firstn b (skipn a l).
Proof.
  revert l; induction a as [|a IH]; intros [|x l]; cbn [Nat.add firstn skipn app]; auto.
  - now rewrite firstn_nil.
  - f_equal. apply IH.
Qed.

Lemma skipn_plus {A} (l : list A) a b : skipn b (skipn a l) = skipn (a + b) l.
Proof.
  revert l; induction a as [|a IH]; intros l; cbn [Nat.add skipn]; auto.
  destruct l as [|x l]; [now rewrite skipn_nil|]. apply IH.
Qed.

Lemma slice_split {A} (l : list A) a b c : 0 <= a <= b -> b <= c -> c <= len l ->
  slice l a c = slice l a b ++ slice l b c.
Proof.
  intros H1 H2 H3. unfold slice, len in *.
  replace (Z.to_nat (c - a)) with (Z.to_nat (b - a) + Z.to_nat (c - b))%nat by lia.
  rewrite firstn_plus. f_equal. f_equal. rewrite skipn_plus. f_equal. lia.
Qed.

Lemma slice_empty {A} (l : list A) a : slice l a a = [].
Proof. unfold slice. rewrite Z.sub_diag. reflexivity. Qed.

Lemma slice_one {A} (d : A) (l : list A) i : 0 <= i < len l -> slice l i (i + 1) = [idx d l i].
Proof.
  intros H. unfold slice, idx, len in *. replace (i + 1 - i) with 1 by lia.
  change (Z.to_nat 1) with 1%nat.
  remember (Z.to_nat i) as n eqn:En. assert (Hn : (n < length l)%nat) by lia. clear En H i.
  revert l Hn; induction n as [|n IH]; intros [|x l] Hn; cbn [length] in Hn; try lia; cbn [skipn nth firstn]; auto.
  apply IH. lia.
Qed.

Lemma inb_true {A} (l : list A) i : 0 <= i < len l -> inb i l = true.
Proof. unfold inb. lia. Qed.
Lemma slice_ok_true {A} (l : list A) a b : 0 <= a <= b -> b <= len l -> slice_ok l a b = true.
Proof. unfold slice_ok. lia. Qed.

Lemma skipn_idx {A} (d : A) (l : list A) i : 0 <= i < len l ->
  skipn (Z.to_nat i) l = idx d l i :: skipn (Z.to_nat (i + 1)) l.
Proof.
  intros H. unfold idx, len in *. replace (Z.to_nat (i + 1)) with (S (Z.to_nat i)) by lia.
  remember (Z.to_nat i) as n eqn:En. assert (Hn : (n < length l)%nat) by lia. clear En H i.
  revert l Hn; induction n as [|n IH]; intros [|x l] Hn; cbn [length] in Hn; try lia; cbn [skipn nth]; auto.
  apply IH. lia.
Qed.

Lemma slice_snoc {A} (d : A) (l : list A) a i : 0 <= a <= i -> i < len l ->
  slice l a (i + 1) = slice l a i ++ [idx d l i].
Proof.
  intros H1 H2. rewrite (slice_split l a i (i + 1)) by lia. f_equal. apply slice_one. lia.
Qed.

Lemma slice_firstn {A} (l : list A) i n : 0 <= i -> slice l i (i + Z.of_nat n) = firstn n (skipn (Z.to_nat i) l).
Proof. intros H. unfold slice. f_equal. lia. Qed.

Lemma bind_ok {A B} (a : A) (f : A -> res B) : bind (Ok a) f = f a.
Proof. reflexivity. Qed.
Lemma lbind_exit {R M} (m : M) (f : M -> res R) : lbind (Ok (LExit m)) f = f m.
Proof. reflexivity. Qed.
Lemma lbind_ret {R M} (r : R) (f : M -> res R) : lbind (Ok (LRet r)) f = Ok r.
Proof. reflexivity. Qed.
Lemma guard_true {A} (k : res A) : guard true k = k.
Proof. reflexivity. Qed.
