(* RFC 8949 (CBOR) well-formedness as an inductive relation, and an executable
   reference parser.  This file is part of what a reader has to trust: it is
   kept short and has no proofs (soundness/completeness of the parser are in
   Proofs/CborSpecP.v).

   [Cbor bs it]: the byte string [bs] is exactly one well-formed data item
   whose generic data model value is [it] (RFC 8949 section 3 and appendix C):
   - the argument of a head may use any of the five widths (well-formedness,
     not preferred serialization);
   - additional information 28..30 is reserved: no constructor;
   - indefinite-length strings are a sequence of definite-length chunks of the
     same major type; arrays and maps close with the break byte 0xff;
   - the break byte is not an item: it only appears in the indefinite rules;
   - f8 xx with xx < 32 is not well-formed;
   - floats are kept as bit patterns. *)
From Verif Require Import Base.Prelude.
Open Scope N_scope.

Definition byte_ok (b : N) : Prop := b < 256.
Definition bytes_ok (l : list N) : Prop := Forall byte_ok l.

(* big-endian k-byte representation / value *)
Fixpoint be_bytes (k : nat) (n : N) : list N :=
  match k with
  | O => []
  | S k' => (n / 2 ^ (8 * N.of_nat k')) mod 256 :: be_bytes k' n
  end.

Definition be_value (bs : list N) : N := fold_left (fun a b => a * 256 + b) bs 0.

Inductive item : Type :=
| IUint (n : N)                          (* major 0: the number n *)
| INeg (n : N)                           (* major 1: the number -1-n *)
| IBytes (s : list N)                    (* major 2, definite *)
| IBytesI (chunks : list (list N))       (* major 2, indefinite *)
| IText (s : list N)                     (* major 3, definite (bytes of the text) *)
| ITextI (chunks : list (list N))        (* major 3, indefinite *)
| IArr (l : list item)                   (* major 4, definite *)
| IArrI (l : list item)                  (* major 4, indefinite *)
| IMap (l : list (item * item))          (* major 5, definite: pairs in order *)
| IMapI (l : list (item * item))         (* major 5, indefinite *)
| ITag (t : N) (i : item)                (* major 6 *)
| ISimple (v : N)                        (* major 7: simple value 0..23, 32..255 *)
| IF16 (bits : N) | IF32 (bits : N) | IF64 (bits : N).

(* head = initial byte + argument: [Head major argument bytes] *)
Inductive Head : N -> N -> list N -> Prop :=
| Head_imm m n : m < 8 -> n < 24 -> Head m n [m * 32 + n]
| Head_1 m n : m < 8 -> n < 2 ^ 8 -> Head m n ((m * 32 + 24) :: be_bytes 1 n)
| Head_2 m n : m < 8 -> n < 2 ^ 16 -> Head m n ((m * 32 + 25) :: be_bytes 2 n)
| Head_4 m n : m < 8 -> n < 2 ^ 32 -> Head m n ((m * 32 + 26) :: be_bytes 4 n)
| Head_8 m n : m < 8 -> n < 2 ^ 64 -> Head m n ((m * 32 + 27) :: be_bytes 8 n).

(* chunks of an indefinite-length string of major type m *)
Inductive Chunks (m : N) : list N -> list (list N) -> Prop :=
| Chunks_nil : Chunks m [] []
| Chunks_cons h s b cs :
    Head m (N.of_nat (length s)) h -> bytes_ok s -> Chunks m b cs ->
    Chunks m (h ++ s ++ b) (s :: cs).

Inductive Cbor : list N -> item -> Prop :=
| C_uint n h : Head 0 n h -> Cbor h (IUint n)
| C_neg n h : Head 1 n h -> Cbor h (INeg n)
| C_bytes h s : Head 2 (N.of_nat (length s)) h -> bytes_ok s -> Cbor (h ++ s) (IBytes s)
| C_bytesI b cs : Chunks 2 b cs -> Cbor (95 :: b ++ [255]) (IBytesI cs)
| C_text h s : Head 3 (N.of_nat (length s)) h -> bytes_ok s -> Cbor (h ++ s) (IText s)
| C_textI b cs : Chunks 3 b cs -> Cbor (127 :: b ++ [255]) (ITextI cs)
| C_arr h b l : Head 4 (N.of_nat (length l)) h -> CborSeq b l -> Cbor (h ++ b) (IArr l)
| C_arrI b l : CborSeq b l -> Cbor (159 :: b ++ [255]) (IArrI l)
| C_map h b l : Head 5 (N.of_nat (length l)) h -> CborPairs b l -> Cbor (h ++ b) (IMap l)
| C_mapI b l : CborPairs b l -> Cbor (191 :: b ++ [255]) (IMapI l)
| C_tag t h b i : Head 6 t h -> Cbor b i -> Cbor (h ++ b) (ITag t i)
| C_simple v : v < 24 -> Cbor [224 + v] (ISimple v)
| C_simple1 v : 32 <= v -> v < 256 -> Cbor [248; v] (ISimple v)
| C_f16 b : b < 2 ^ 16 -> Cbor (249 :: be_bytes 2 b) (IF16 b)
| C_f32 b : b < 2 ^ 32 -> Cbor (250 :: be_bytes 4 b) (IF32 b)
| C_f64 b : b < 2 ^ 64 -> Cbor (251 :: be_bytes 8 b) (IF64 b)
with CborSeq : list N -> list item -> Prop :=
| Seq_nil : CborSeq [] []
| Seq_cons b i bs l : Cbor b i -> CborSeq bs l -> CborSeq (b ++ bs) (i :: l)
with CborPairs : list N -> list (item * item) -> Prop :=
| Pairs_nil : CborPairs [] []
| Pairs_cons bk k bv v bs l :
    Cbor bk k -> Cbor bv v -> CborPairs bs l -> CborPairs (bk ++ bv ++ bs) ((k, v) :: l).

Scheme Cbor_mind := Minimality for Cbor Sort Prop
  with CborSeq_mind := Minimality for CborSeq Sort Prop
  with CborPairs_mind := Minimality for CborPairs Sort Prop.
Combined Scheme Cbor_mutind from Cbor_mind, CborSeq_mind, CborPairs_mind.

(* what the property C09 asks of one event *)
Definition is_text (i : item) : bool := match i with IText _ => true | _ => false end.
Definition event_shape (i : item) : Prop :=
  exists kvs, i = IMapI kvs /\ Forall (fun kv => is_text (fst kv) = true) kvs.

(* ------------------------------------------------------------------ *)
(* reference parser                                                    *)
(* ------------------------------------------------------------------ *)

Definition all_bytes (l : list N) : bool := forallb (fun b => b <? 256) l.

(* take exactly n bytes (all < 256); n is compared before any conversion to nat *)
Definition take_bytes (n : N) (bs : list N) : option (list N * list N) :=
  if N.of_nat (length bs) <? n then None
  else let k := N.to_nat n in
       if all_bytes (firstn k bs) then Some (firstn k bs, skipn k bs) else None.

Inductive arg := AVal (n : N) | AIndef.

(* initial byte and argument: (major, additional information, argument, rest) *)
Definition parse_head (bs : list N) : option (N * N * arg * list N) :=
  match bs with
  | [] => None
  | b :: r =>
      if 256 <=? b then None else
      let m := b / 32 in
      let ai := b mod 32 in
      let wide (k : N) :=
        match take_bytes k r with
        | Some (a, r') => Some (m, ai, AVal (be_value a), r')
        | None => None
        end in
      if ai <? 24 then Some (m, ai, AVal ai, r)
      else if ai =? 24 then wide 1
      else if ai =? 25 then wide 2
      else if ai =? 26 then wide 4
      else if ai =? 27 then wide 8
      else if ai =? 31 then Some (m, ai, AIndef, r)
      else None
  end.

(* [Some r] when the next byte is the break byte 0xff *)
Definition is_break (bs : list N) : option (list N) :=
  match bs with
  | b :: r => if b =? 255 then Some r else None
  | [] => None
  end.

(* chunks of an indefinite string of major type m, up to and including the break *)
Fixpoint parse_chunks (f : nat) (m : N) (bs : list N) : option (list (list N) * list N) :=
  match f with
  | O => None
  | S f' =>
      match is_break bs with
      | Some r => Some ([], r)
      | None =>
          match parse_head bs with
          | Some (m', _, AVal n, r) =>
              if m' =? m then
                match take_bytes n r with
                | Some (s, r') =>
                    match parse_chunks f' m r' with
                    | Some (cs, r'') => Some (s :: cs, r'')
                    | None => None
                    end
                | None => None
                end
              else None
          | _ => None
          end
      end
  end.

Fixpoint parse_item (f : nat) (bs : list N) {struct f} : option (item * list N) :=
  match f with
  | O => None
  | S f' =>
      match parse_head bs with
      | None => None
      | Some (m, ai, a, r) =>
          if m =? 0 then match a with AVal n => Some (IUint n, r) | AIndef => None end
          else if m =? 1 then match a with AVal n => Some (INeg n, r) | AIndef => None end
          else if m =? 2 then
            match a with
            | AVal n => match take_bytes n r with Some (s, r') => Some (IBytes s, r') | None => None end
            | AIndef => match parse_chunks f' 2 r with Some (cs, r') => Some (IBytesI cs, r') | None => None end
            end
          else if m =? 3 then
            match a with
            | AVal n => match take_bytes n r with Some (s, r') => Some (IText s, r') | None => None end
            | AIndef => match parse_chunks f' 3 r with Some (cs, r') => Some (ITextI cs, r') | None => None end
            end
          else if m =? 4 then
            match a with
            | AVal n => match parse_seq_n f' n r with Some (l, r') => Some (IArr l, r') | None => None end
            | AIndef => match parse_seq_brk f' r with Some (l, r') => Some (IArrI l, r') | None => None end
            end
          else if m =? 5 then
            match a with
            | AVal n => match parse_pairs_n f' n r with Some (l, r') => Some (IMap l, r') | None => None end
            | AIndef => match parse_pairs_brk f' r with Some (l, r') => Some (IMapI l, r') | None => None end
            end
          else if m =? 6 then
            match a with
            | AVal t => match parse_item f' r with Some (i, r') => Some (ITag t i, r') | None => None end
            | AIndef => None
            end
          else (* major 7 *)
            match a with
            | AVal n =>
                if ai <? 24 then Some (ISimple n, r)
                else if ai =? 24 then (if n <? 32 then None else Some (ISimple n, r))
                else if ai =? 25 then Some (IF16 n, r)
                else if ai =? 26 then Some (IF32 n, r)
                else Some (IF64 n, r)
            | AIndef => None      (* a break outside an indefinite container *)
            end
      end
  end
with parse_seq_n (f : nat) (n : N) (bs : list N) {struct f} : option (list item * list N) :=
  match f with
  | O => None
  | S f' =>
      if n =? 0 then Some ([], bs)
      else match parse_item f' bs with
           | Some (i, r) =>
               match parse_seq_n f' (n - 1) r with
               | Some (l, r') => Some (i :: l, r')
               | None => None
               end
           | None => None
           end
  end
with parse_seq_brk (f : nat) (bs : list N) {struct f} : option (list item * list N) :=
  match f with
  | O => None
  | S f' =>
      match is_break bs with
      | Some r => Some ([], r)
      | None => match parse_item f' bs with
             | Some (i, r) =>
                 match parse_seq_brk f' r with
                 | Some (l, r') => Some (i :: l, r')
                 | None => None
                 end
             | None => None
             end
      end
  end
with parse_pairs_n (f : nat) (n : N) (bs : list N) {struct f} : option (list (item * item) * list N) :=
  match f with
  | O => None
  | S f' =>
      if n =? 0 then Some ([], bs)
      else match parse_item f' bs with
           | Some (k, r) =>
               match parse_item f' r with
               | Some (v, r') =>
                   match parse_pairs_n f' (n - 1) r' with
                   | Some (l, r'') => Some ((k, v) :: l, r'')
                   | None => None
                   end
               | None => None
               end
           | None => None
           end
  end
with parse_pairs_brk (f : nat) (bs : list N) {struct f} : option (list (item * item) * list N) :=
  match f with
  | O => None
  | S f' =>
      match is_break bs with
      | Some r => Some ([], r)
      | None => match parse_item f' bs with
             | Some (k, r) =>
                 match parse_item f' r with
                 | Some (v, r') =>
                     match parse_pairs_brk f' r' with
                     | Some (l, r'') => Some ((k, v) :: l, r'')
                     | None => None
                     end
                 | None => None
                 end
             | None => None
             end
      end
  end.

(* one item, nothing left over *)
Definition parse_cbor (bs : list N) : option item :=
  match parse_item (2 * length bs + 2) bs with
  | Some (i, []) => Some i
  | _ => None
  end.

(* a sequence of top-level items (a log stream) *)
Fixpoint parse_stream (f : nat) (bs : list N) : option (list item) :=
  match f with
  | O => None
  | S f' =>
      match bs with
      | [] => Some []
      | _ => match parse_item (2 * length bs + 2) bs with
             | Some (i, r) => match parse_stream f' r with Some l => Some (i :: l) | None => None end
             | None => None
             end
      end
  end.
