(* Run-time library of `srcgen` for methods that call through interface-typed fields of their receiver ("opaque"
   fields: http.ResponseWriter, io.Writer, LevelWriter, Sampler ...).  What is behind such a field is not translated:
   * the receiver record carries, per opaque field, only whether it is non-nil;
   * a method call on it is recorded in the record's call log ([ocall]: field, method, arguments) and its result is
     the answer [ans k] of the environment to the k-th external call of the run (k = length of the log so far) -
     theorems quantify over every [ans];
   * an answer of the wrong shape is read with the projections below (zero values), so a theorem that relies on a
     shape must say so.
   Part of the trusted base of the translator tie for these units. *)
From Verif Require Import Base.Prelude Base.GoSem Base.GoEff.
Open Scope Z_scope.

Inductive oval :=
| OVUnit | OVBool (b : bool) | OVInt (z : Z) | OVBytes (l : list N) | OVErr (e : goerr) | OVPair (a b : oval).

Record ocall := OCall { oc_field : list N; oc_method : list N; oc_args : list oval }.

Definition oval_bool (v : oval) : bool := match v with OVBool b => b | _ => false end.
Definition oval_int (v : oval) : Z := match v with OVInt z => z | _ => 0 end.
Definition oval_bytes (v : oval) : list N := match v with OVBytes l => l | _ => [] end.
Definition oval_err (v : oval) : goerr := match v with OVErr e => e | _ => None end.
Definition oval_fst (v : oval) : oval := match v with OVPair a _ => a | _ => OVUnit end.
Definition oval_snd (v : oval) : oval := match v with OVPair _ b => b | _ => OVUnit end.

(* a field of type *bytes.Buffer: nil, or the content of the buffer *)
Definition buf_isnil (b : option (list N)) : bool := match b with None => true | Some _ => false end.
Definition buf_bytes (b : option (list N)) : list N := match b with Some l => l | None => [] end.

(* bytes.IndexByte: the index of the first occurrence, -1 if there is none *)
Fixpoint index_byte (p : list N) (c : N) (i : Z) : Z :=
  match p with
  | [] => -1
  | b :: t => if (b =? c)%N then i else index_byte t c (i + 1)
  end.
Definition bytes_IndexByte (p : list N) (c : N) : Z := index_byte p c 0.
