(* Byte-exact model of /repo/internal/json (Encoder methods) and of
   encoder_json.go (appendJSON, appendCBOR).  No proofs here.

   Conventions: text and buffers are [list N] (bytes, each < 256); a Go
   `append(dst, x...)` is [dst ++ x].  Go standard-library formatting
   (strconv.AppendFloat, time.AppendFormat, net.IP.String, ...) is NOT
   modelled: the values carry the library's answer as oracle text (computed
   independently by the harness; constrained by explicit hypotheses in the
   theorems). *)
From Verif Require Import Base.Prelude Base.Decimal.
Open Scope N_scope.

Definition bytes := list N.

(* ---------------- strings ---------------- *)

(* internal/json/string.go: noEscapeTable[i] for i in 0..0x7e is
   i >= 0x20 && i != backslash && i != quote; false above 0x7e *)
Definition no_escape (b : N) : bool :=
  (b <=? 0x7e) && (0x20 <=? b) && negb (b =? 0x5C) && negb (b =? 0x22).

Definition hex_digit (n : N) : N := if n <? 10 then 48 + n else 87 + n.   (* 0123456789abcdef *)

(* utf8.DecodeRune contract on a byte list: Some (scalar, size) for a
   well-formed prefix, None = (RuneError, 1) *)
Definition inr (lo hi b : N) : bool := (lo <=? b) && (b <=? hi).
Definition go_decode_rune (s : bytes) : option (N * nat) :=
  match s with
  | b0 :: t =>
    if b0 <? 0x80 then Some (b0, 1%nat) else
    if inr 0xC2 0xDF b0 then
      match t with
      | b1 :: _ => if inr 0x80 0xBF b1 then Some ((b0 - 0xC0) * 64 + (b1 - 0x80), 2%nat) else None
      | _ => None end else
    if inr 0xE0 0xEF b0 then
      match t with
      | b1 :: b2 :: _ =>
        let lo := if b0 =? 0xE0 then 0xA0 else 0x80 in
        let hi := if b0 =? 0xED then 0x9F else 0xBF in
        if inr lo hi b1 && inr 0x80 0xBF b2
        then Some ((b0 - 0xE0) * 4096 + (b1 - 0x80) * 64 + (b2 - 0x80), 3%nat) else None
      | _ => None end else
    if inr 0xF0 0xF4 b0 then
      match t with
      | b1 :: b2 :: b3 :: _ =>
        let lo := if b0 =? 0xF0 then 0x90 else 0x80 in
        let hi := if b0 =? 0xF4 then 0x8F else 0xBF in
        if inr lo hi b1 && inr 0x80 0xBF b2 && inr 0x80 0xBF b3
        then Some ((b0 - 0xF0) * 262144 + (b1 - 0x80) * 4096 + (b2 - 0x80) * 64 + (b3 - 0x80), 4%nat) else None
      | _ => None end else None
  | [] => None
  end.

(* one escaped byte < 0x80 that is not in the no-escape table *)
Definition esc_byte (b : N) : bytes :=
  if (b =? 0x22) || (b =? 0x5C) then [0x5C; b]
  else if b =? 8 then [0x5C; 0x62]
  else if b =? 12 then [0x5C; 0x66]
  else if b =? 10 then [0x5C; 0x6E]
  else if b =? 13 then [0x5C; 0x72]
  else if b =? 9 then [0x5C; 0x74]
  else [0x5C; 0x75; 48; 48; hex_digit (b / 16); hex_digit (b mod 16)].

Definition ufffd : bytes := [0x5C; 0x75; 0x66; 0x66; 0x66; 0x64].   (* � *)

(* appendStringComplex / appendBytesComplex as emit-as-you-go (the Go code
   copies maximal unescaped runs [start,i); the bytes written are the same).
   Fuel = length of the input. *)
Fixpoint esc_body (fuel : nat) (s : bytes) : bytes :=
  match fuel with
  | O => []
  | S f =>
    match s with
    | [] => []
    | b :: t =>
      if 0x80 <=? b then
        match go_decode_rune s with
        | Some (_, n) => firstn n s ++ esc_body f (skipn n s)
        | None => ufffd ++ esc_body f t
        end
      else if no_escape b then b :: esc_body f t
      else esc_byte b ++ esc_body f t
    end
  end.

(* Encoder.AppendString / AppendBytes (identical on bytes): fast path when no
   byte needs escaping, complex path otherwise - the output is the same
   function of the input either way *)
Definition json_string (s : bytes) : bytes := [0x22] ++ esc_body (length s) s ++ [0x22].
Definition AppendString (dst s : bytes) : bytes := dst ++ json_string s.
Definition AppendBytes := AppendString.

Definition AppendHex (dst s : bytes) : bytes :=
  dst ++ [0x22] ++ flat_map (fun v => [hex_digit (v / 16); hex_digit (v mod 16)]) s ++ [0x22].

(* ---------------- structure ---------------- *)
Definition last_byte (dst : bytes) : N := last dst 0.

(* base.go AppendKey: comma unless the last byte is '{' (dst is never empty
   where zerolog calls it: Go would panic on an empty slice; the model's
   [last] default 0 makes that case "comma") *)
Definition AppendKey (dst key : bytes) : bytes :=
  let dst := if last_byte dst =? 0x7B then dst else dst ++ [0x2C] in
  AppendString dst key ++ [0x3A].

Definition AppendNil (dst : bytes) := dst ++ [110;117;108;108].
Definition AppendBeginMarker (dst : bytes) := dst ++ [0x7B].
Definition AppendEndMarker (dst : bytes) := dst ++ [0x7D].
Definition AppendLineBreak (dst : bytes) := dst ++ [10].
Definition AppendArrayStart (dst : bytes) := dst ++ [0x5B].
Definition AppendArrayEnd (dst : bytes) := dst ++ [0x5D].
Definition AppendArrayDelim (dst : bytes) := match dst with [] => dst | _ => dst ++ [0x2C] end.

(* types.go AppendObjectData(dst, o); o is non-empty where zerolog calls it *)
Definition AppendObjectData (dst o : bytes) : bytes :=
  match o with
  | 0x7B :: o' => (if (1 <? N.of_nat (length dst)) then dst ++ [0x2C] else dst) ++ o'
  | _ => (if (1 <? N.of_nat (length dst)) then dst ++ [0x2C] else dst) ++ o
  end.

(* every slice appender has the same shape *)
Definition append_slice {A} (f : bytes -> A -> bytes) (dst : bytes) (vals : list A) : bytes :=
  match vals with
  | [] => dst ++ [0x5B; 0x5D]
  | v0 :: rest => fold_left (fun d v => f (d ++ [0x2C]) v) rest (f (dst ++ [0x5B]) v0) ++ [0x5D]
  end.

(* ---------------- scalars ---------------- *)
Definition s_true : bytes := [116;114;117;101].
Definition s_false : bytes := [102;97;108;115;101].
Definition AppendBool (dst : bytes) (b : bool) := dst ++ (if b then s_true else s_false).
Definition AppendBools := append_slice AppendBool.

(* all signed widths: strconv.AppendInt(dst, int64(val), 10); all unsigned
   widths: strconv.AppendUint(dst, uint64(val), 10) *)
Definition AppendInt (dst : bytes) (z : Z) := dst ++ print_Z z.
Definition AppendInts := append_slice AppendInt.
Definition AppendUint (dst : bytes) (n : N) := dst ++ print_N n.
Definition AppendUints := append_slice AppendUint.

(* ---------------- floats ---------------- *)
(* a float is its IEEE bit pattern plus the two oracle texts
   strconv.AppendFloat(nil, v, 'f', prec, bitSize) and (..., 'e', ...) *)
Record fval := { f_bits : N; f_txt_f : bytes; f_txt_e : bytes }.

Definition f64_exp (b : N) := (b / 4503599627370496) mod 2048.
Definition f64_man (b : N) := b mod 4503599627370496.
Definition f64_neg (b : N) := 9223372036854775808 <=? b.
Definition f64_abs (b : N) := b mod 9223372036854775808.
Definition f32_exp (b : N) := (b / 8388608) mod 256.
Definition f32_man (b : N) := b mod 8388608.
Definition f32_neg (b : N) := 2147483648 <=? b.
Definition f32_abs (b : N) := b mod 2147483648.

Definition s_nan : bytes := [0x22;78;97;78;0x22].          (* NaN in quotes *)
Definition s_pinf : bytes := [0x22;43;73;110;102;0x22].    (* +Inf in quotes *)
Definition s_ninf : bytes := [0x22;45;73;110;102;0x22].    (* -Inf in quotes *)

(* the exponent clean-up: e-09 -> e-9 (only for n >= 4, "e-0X" at the end) *)
Definition cleanup_exp (t : bytes) : bytes :=
  let n := length t in
  if (4 <=? n)%nat then
    match skipn (n - 4) t with
    | [0x65; 0x2D; 0x30; d] => firstn (n - 2) t ++ [d]
    | _ => t
    end
  else t.

(* bit patterns of the thresholds: float64 1e-6 and 1e21; float32(1e-6) and float32(1e21) *)
Definition f64_1em6 : N := 0x3eb0c6f7a0b5ed8d.
Definition f64_1e21 : N := 0x444b1ae4d6e2ef50.
Definition f32_1em6 : N := 0x358637bd.
Definition f32_1e21 : N := 0x6258d727.

(* appendFloat(dst, val, bitSize, precision); [w32] selects bitSize 32 *)
Definition appendFloat (dst : bytes) (w32 : bool) (f : fval) (prec : Z) : bytes :=
  let b := f_bits f in
  let '(isnan, ispinf, isninf, abs, lo, hi) :=
    if w32 then ((f32_exp b =? 255) && negb (f32_man b =? 0), b =? 0x7f800000, b =? 0xff800000, f32_abs b, f32_1em6, f32_1e21)
    else ((f64_exp b =? 2047) && negb (f64_man b =? 0), b =? 0x7ff0000000000000, b =? 0xfff0000000000000, f64_abs b, f64_1em6, f64_1e21) in
  if isnan then dst ++ s_nan
  else if ispinf then dst ++ s_pinf
  else if isninf then dst ++ s_ninf
  else
    let use_e := (prec =? -1)%Z && negb (abs =? 0) && ((abs <? lo) || (hi <=? abs)) in
    if use_e then dst ++ cleanup_exp (f_txt_e f) else dst ++ f_txt_f f.

Definition AppendFloat32 (dst : bytes) (f : fval) (prec : Z) := appendFloat dst true f prec.
Definition AppendFloat64 (dst : bytes) (f : fval) (prec : Z) := appendFloat dst false f prec.
Definition AppendFloats32 (dst : bytes) (l : list fval) (prec : Z) := append_slice (fun d f => appendFloat d true f prec) dst l.
Definition AppendFloats64 (dst : bytes) (l : list fval) (prec : Z) := append_slice (fun d f => appendFloat d false f prec) dst l.

(* ---------------- time ---------------- *)
(* a time is what the library says about it: Unix(), UnixNano() and the
   AppendFormat text for the TimeFieldFormat in force *)
Record tval := { t_unix : Z; t_unixnano : Z; t_fmt : bytes }.
Inductive timefmt := TFUnix | TFUnixMs | TFUnixMicro | TFUnixNano | TFLayout.

(* Go's int64 division truncates toward zero *)
Definition AppendTime (dst : bytes) (t : tval) (f : timefmt) : bytes :=
  match f with
  | TFUnix => AppendInt dst (t_unix t)
  | TFUnixMs => AppendInt dst (Z.quot (t_unixnano t) 1000000)
  | TFUnixMicro => AppendInt dst (Z.quot (t_unixnano t) 1000)
  | TFUnixNano => AppendInt dst (t_unixnano t)
  | TFLayout => dst ++ [0x22] ++ t_fmt t ++ [0x22]
  end.
Definition AppendTimes (dst : bytes) (l : list tval) (f : timefmt) := append_slice (fun d t => AppendTime d t f) dst l.

(* a duration is its int64 nanosecond count plus the oracle float
   float64(d)/float64(unit) (bits and texts) *)
Record dval := { d_ns : Z; d_quot : fval }.
Definition AppendDuration (dst : bytes) (d : dval) (unit : Z) (useInt : bool) (prec : Z) : bytes :=
  (* int64(d / unit): Go's quotient truncates toward zero and wraps for MinInt64 / -1;
     unit = 0 panics in Go (integer divide by zero) - excluded by the premise [dur_ok] *)
  if useInt then AppendInt dst (wrap64 (Z.quot (d_ns d) unit)) else AppendFloat64 dst (d_quot d) prec.
Definition AppendDurations (dst : bytes) (l : list dval) (unit : Z) (useInt : bool) (prec : Z) :=
  append_slice (fun d x => AppendDuration d x unit useInt prec) dst l.

(* ---------------- interface, type, net ---------------- *)
(* JSONMarshalFunc(i): either the marshalled bytes or an error whose
   fmt.Sprintf("marshaling error: %v", err) text is the oracle *)
Inductive ifaceres := IfOk (raw : bytes) | IfErr (msg : bytes).
Definition AppendInterface (dst : bytes) (r : ifaceres) : bytes :=
  match r with IfOk raw => dst ++ raw | IfErr msg => AppendString dst msg end.

(* AppendStringer: nil -> AppendNil since the fix "a nil Stringer ... through InterfaceMarshalFunc" (before it: AppendInterface(nil),
   the installed marshal function's answer for nil; the parameter nil_iface is kept and instantiated with [nil_stringer_iface]) *)
Definition nil_stringer_iface : ifaceres := IfOk (AppendNil []).
Definition AppendStringer (dst : bytes) (v : option bytes) (nil_iface : ifaceres) : bytes :=
  match v with None => AppendInterface dst nil_iface | Some s => AppendString dst s end.
Definition AppendStringers (dst : bytes) (l : list (option bytes)) (nil_iface : ifaceres) :=
  append_slice (fun d v => AppendStringer d v nil_iface) dst l.
Definition AppendStrings := append_slice AppendString.

(* AppendType / AppendIPAddr / AppendIPPrefix / AppendMACAddr: AppendString of the library's text *)
Definition AppendText := AppendString.

(* encoder_json.go *)
Definition appendJSON (dst j : bytes) := dst ++ j.
Definition s_cbor_prefix : bytes :=   (* quote data:application/cbor;base64, *)
  [0x22;100;97;116;97;58;97;112;112;108;105;99;97;116;105;111;110;47;99;98;111;114;59;98;97;115;101;54;52;44].
Definition appendCBOR (dst b64 : bytes) := dst ++ s_cbor_prefix ++ b64 ++ [0x22].
