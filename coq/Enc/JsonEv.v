(* The JSON build's encoding of the SAME field lists that Enc/CborEnc.v's
   [enc_event] encodes for the binary build: every [prim] constructor is
   mapped to the internal/json primitive (Enc/JsonEnc.v) the JSON build calls
   for the same Go value, arrays and dicts are composed the way array.go /
   event.go compose them under the JSON encoder (AppendKey's comma decision,
   AppendArrayDelim, begin/end markers).  No proofs here.

   What the Go standard library answers on the JSON side is an oracle record
   (as in JsonEnc.v's value records):
     jo_f32 / jo_f64 bits : the strconv 'f' and 'e' texts of the float with
                            these bits (fval)
     jo_time (secs,nanos) : t.AppendFormat(nil, TimeFieldFormat) of the logged
                            time (all times of one program are in one location)
     jo_ip / jo_mac / jo_prefix : net.IP.String(), HardwareAddr.String(),
                            IPNet.String() of the logged value
     jo_b64               : base64.StdEncoding of the RawCBOR bytes
   Settings: [prec] = FloatingPointPrecision, TimeFieldFormat is a layout
   (TFLayout), DurationFieldUnit / DurationFieldInteger come with the PDur
   constructor (as in CborEnc.v), InterfaceMarshalFunc(nil) = null. *)
From Verif Require Import Base.Prelude Base.Decimal Enc.CborEnc.
From Verif Require Import Enc.JsonEnc.
Open Scope N_scope.

Record joracle := mkjoracle {
  jo_f32 : N -> fval;
  jo_f64 : N -> fval;
  jo_time : Z * N -> bytes;
  jo_ip : list N -> bytes;
  jo_mac : list N -> bytes;
  jo_prefix : list N -> list N -> bytes;
  jo_b64 : list N -> bytes }.

Definition s_null : bytes := [110; 117; 108; 108].
Definition null_iface : ifaceres := IfOk s_null.
Definition s_nil_type : bytes := [60; 110; 105; 108; 62].                 (* "<nil>" *)

Section JsonEv.
  Variable JO : joracle.
  Variable prec : Z.
  Variable f64_of_dur : Z -> Z -> N.      (* the same float conversion as in CborEnc.v *)

  Definition mk_tval (t : Z * N) : tval :=
    {| t_unix := fst t; t_unixnano := (fst t * 1000000000 + Z.of_N (snd t))%Z; t_fmt := jo_time JO t |}.
  Definition mk_dval (unit d : Z) : dval := {| d_ns := d; d_quot := jo_f64 JO (f64_of_dur d unit) |}.

  Definition json_prim (dst : bytes) (p : prim) : bytes :=
    match p with
    | PString s => AppendString dst s
    | PStrings l => AppendStrings dst l
    | PStringer o => AppendStringer dst o null_iface
    | PStringers l => AppendStringers dst l null_iface
    | PBytes s => AppendBytes dst s
    | PHex s => AppendHex dst s
    | PJSON s => appendJSON dst s
    | PCBOR s => appendCBOR dst (jo_b64 JO s)
    | PBool b => AppendBool dst b
    | PBools l => AppendBools dst l
    | PInt z => AppendInt dst z
    | PInts l => AppendInts dst l
    | PUint n => AppendUint dst n
    | PUints l => AppendUints dst l
    | PF32 b => AppendFloat32 dst (jo_f32 JO b) prec
    | PFs32 l => AppendFloats32 dst (map (jo_f32 JO) l) prec
    | PF64 b => AppendFloat64 dst (jo_f64 JO b) prec
    | PFs64 l => AppendFloats64 dst (map (jo_f64 JO) l) prec
    | PTime t => AppendTime dst (mk_tval t) TFLayout
    | PTimes l => AppendTimes dst (map mk_tval l) TFLayout
    | PDur u i d => AppendDuration dst (mk_dval u d) u i prec
    | PDurs u i l => AppendDurations dst (map (mk_dval u) l) u i prec
    | PIface (inl j) => AppendInterface dst (IfOk j)
    | PIface (Datatypes.inr e) => AppendInterface dst (IfErr (lit_marshaling_error ++ e))
    | PType None => AppendText dst s_nil_type
    | PType (Some s) => AppendText dst s
    | PIP ip => AppendText dst (jo_ip JO ip)
    | PMAC ha => AppendText dst (jo_mac JO ha)
    | PPrefix ip mask => AppendText dst (jo_prefix JO ip mask)
    | PNil => AppendNil dst
    end.

  (* array.go / event.go under the JSON encoder *)
  Fixpoint json_val (dst : bytes) (v : cval) : bytes :=
    match v with
    | VP p => json_prim dst p
    | VArr l =>
        (* Array.write: AppendArrayStart(dst), the buffer built with AppendArrayDelim, AppendArrayEnd *)
        AppendArrayEnd
          (AppendArrayStart dst ++
           (fix go (l : list cval) (buf : bytes) : bytes :=
              match l with [] => buf | x :: t => go t (json_val (AppendArrayDelim buf) x) end) l [])
    | VDict kvs =>
        (* Dict(): newEvent -> begin marker; fields; Event.Dict: end marker, append after the key *)
        dst ++ AppendEndMarker
          ((fix go (l : list (list N * cval)) (buf : bytes) : bytes :=
              match l with [] => buf | (k, x) :: t => go t (json_val (AppendKey buf k) x) end) kvs
             (AppendBeginMarker []))
    end.

  Definition json_fields (buf : bytes) (kvs : list (list N * cval)) : bytes :=
    fold_left (fun b kv => json_val (AppendKey b (fst kv)) (snd kv)) kvs buf.

  (* newEvent: begin marker; fields; write: end marker, line break *)
  Definition json_event (kvs : list (list N * cval)) : bytes :=
    AppendLineBreak (AppendEndMarker (json_fields (AppendBeginMarker []) kvs)).

  (* a logger context under With(): begin marker, fields, no end marker *)
  Definition json_context (kvs : list (list N * cval)) : bytes := json_fields (AppendBeginMarker []) kvs.

  (* log.go newEvent + event.go write with a context: fields added before the
     splice (the level), AppendObjectData when the context holds more than its
     begin marker, the event's fields *)
  Definition json_event_ctx (pre ctx ev : list (list N * cval)) : bytes :=
    let buf := json_fields (AppendBeginMarker []) pre in
    let context := json_context ctx in
    let buf := if 1 <? N.of_nat (length context) then AppendObjectData buf context else buf in
    AppendLineBreak (AppendEndMarker (json_fields buf ev)).
End JsonEv.
