(* Byte-exact executable model of the encoder primitives of internal/cbor
   (cbor.go, base.go, types.go, string.go, time.go).  No proofs here.

   Conventions: a Go []byte / string is a [list N] (every element < 256 where
   it matters); [len s] is its length as an [N]; Go's [int]/[int64] are [Z]
   (the harness is a 64-bit build), unsigned types are [N]; float32/float64
   are their IEEE-754 bit patterns.  Every function is named after the Go
   method, takes [dst] first and returns the whole new buffer, exactly like
   the Go code ([append] never aliases here: buffers are values).

   Behaviour of the Go standard library that the encoder calls is passed in
   as arguments / Section variables:
   - [f64_of_time secs nanos]   = bits of float64(secs)*1.0 + float64(nanos)*1e-9
   - [f64_of_dur d unit]        = bits of float64(d)/float64(unit)
   - the result of JSONMarshalFunc (AppendInterface), of reflect.TypeOf(i).String()
     (AppendType), of val.String() (AppendStringer) are arguments.

   Preconditions that are Go runtime panics and are NOT modelled (the model
   function is total): AppendObjectData with an empty [o] (o[1:]; every call
   site passes a buffer that starts with the begin marker), AppendDuration
   with [useInt] and [unit = 0] (integer division by zero; the JSON encoder
   has the same precondition). *)
From Verif Require Import Base.Prelude Base.CborSpec.
Open Scope N_scope.

Definition len {A} (s : list A) : N := N.of_nat (length s).

(* ---- cbor.go constants ---- *)
Definition additionalMax : N := 23.
Definition additionalTypeBoolFalse : N := 20.
Definition additionalTypeBoolTrue : N := 21.
Definition additionalTypeNull : N := 22.
Definition additionalTypeIntUint8 : N := 24.
Definition additionalTypeIntUint16 : N := 25.
Definition additionalTypeIntUint32 : N := 26.
Definition additionalTypeIntUint64 : N := 27.
Definition additionalTypeFloat16 : N := 25.
Definition additionalTypeFloat32 : N := 26.
Definition additionalTypeFloat64 : N := 27.
Definition additionalTypeBreak : N := 31.
Definition additionalTypeTimestamp : N := 1.
Definition additionalTypeEmbeddedCBOR : N := 63.
Definition additionalTypeTagNetworkAddr : N := 260.
Definition additionalTypeTagNetworkPrefix : N := 261.
Definition additionalTypeEmbeddedJSON : N := 262.
Definition additionalTypeTagHexString : N := 263.
Definition additionalTypeInfiniteCount : N := 31.

Definition majorTypeUnsignedInt : N := 0.
Definition majorTypeNegativeInt : N := 32.
Definition majorTypeByteString : N := 64.
Definition majorTypeUtf8String : N := 96.
Definition majorTypeArray : N := 128.
Definition majorTypeMap : N := 160.
Definition majorTypeTags : N := 192.
Definition majorTypeSimpleAndFloat : N := 224.

(* byte(x) *)
Definition to_byte (x : N) : N := x mod 256.

(* cbor.go appendCborTypePrefix: [major] is the already shifted major byte.
   The Go loop "for ; byteCount >= 0; byteCount-- { append(byte(number >> (byteCount*8))) }"
   started at byteCount-1 is [be_bytes byteCount number]. *)
Definition appendCborTypePrefix (dst : list N) (major number : N) : list N :=
  let '(byteCount, minor) :=
    if number <? 256 then (1%nat, additionalTypeIntUint8)
    else if number <? 65536 then (2%nat, additionalTypeIntUint16)
    else if number <? 4294967296 then (4%nat, additionalTypeIntUint32)
    else (8%nat, additionalTypeIntUint64) in
  dst ++ N.lor major minor :: be_bytes byteCount number.

(* the idiom repeated in every primitive:
     if l <= additionalMax { lb := byte(l); dst = append(dst, major|lb) }
     else { dst = appendCborTypePrefix(dst, major, uint64(l)) } *)
Definition append_head (dst : list N) (major l : N) : list N :=
  if l <=? additionalMax then dst ++ [N.lor major (to_byte l)]
  else appendCborTypePrefix dst major l.

(* ---- types.go: markers ---- *)
Definition cbor_AppendNil (dst : list N) : list N := dst ++ [N.lor majorTypeSimpleAndFloat additionalTypeNull].
Definition cbor_AppendBeginMarker (dst : list N) : list N := dst ++ [N.lor majorTypeMap additionalTypeInfiniteCount].
Definition cbor_AppendEndMarker (dst : list N) : list N := dst ++ [N.lor majorTypeSimpleAndFloat additionalTypeBreak].
Definition cbor_AppendObjectData (dst o : list N) : list N := dst ++ tl o.
Definition cbor_AppendArrayStart (dst : list N) : list N := dst ++ [N.lor majorTypeArray additionalTypeInfiniteCount].
Definition cbor_AppendArrayEnd (dst : list N) : list N := dst ++ [N.lor majorTypeSimpleAndFloat additionalTypeBreak].
Definition cbor_AppendArrayDelim (dst : list N) : list N := dst.
Definition cbor_AppendLineBreak (dst : list N) : list N := dst.

(* the shape shared by every typed-slice method (all but AppendStrings and
   AppendStringers): empty slice -> indefinite empty array, otherwise a
   definite-length array head followed by the elements *)
Definition cbor_slice {A} (app : list N -> A -> list N) (dst : list N) (vals : list A) : list N :=
  if len vals =? 0 then cbor_AppendArrayEnd (cbor_AppendArrayStart dst)
  else fold_left app vals (append_head dst majorTypeArray (len vals)).

(* ---- string.go ---- *)
Definition cbor_AppendString (dst s : list N) : list N :=
  append_head dst majorTypeUtf8String (len s) ++ s.

(* no empty-slice special case here *)
Definition cbor_AppendStrings (dst : list N) (vals : list (list N)) : list N :=
  fold_left cbor_AppendString vals (append_head dst majorTypeArray (len vals)).

(* a nil Stringer is [None]; otherwise the result of val.String() *)
Definition cbor_AppendStringer (dst : list N) (val : option (list N)) : list N :=
  match val with None => cbor_AppendNil dst | Some s => cbor_AppendString dst s end.

Definition cbor_AppendStringers (dst : list N) (vals : list (option (list N))) : list N :=
  match vals with
  | [] => cbor_AppendArrayEnd (cbor_AppendArrayStart dst)
  | v0 :: rest =>
      cbor_AppendArrayEnd (fold_left cbor_AppendStringer rest (cbor_AppendStringer (cbor_AppendArrayStart dst) v0))
  end.

Definition cbor_AppendBytes (dst s : list N) : list N :=
  append_head dst majorTypeByteString (len s) ++ s.

Definition cbor_AppendEmbeddedJSON (dst s : list N) : list N :=
  let dst := dst ++ [N.lor majorTypeTags additionalTypeIntUint16] in
  let dst := dst ++ [to_byte (additionalTypeEmbeddedJSON / 256)] in
  let dst := dst ++ [to_byte (N.land additionalTypeEmbeddedJSON 255)] in
  append_head dst majorTypeByteString (len s) ++ s.

Definition cbor_AppendEmbeddedCBOR (dst s : list N) : list N :=
  let dst := dst ++ [N.lor majorTypeTags additionalTypeIntUint8] in
  let dst := dst ++ [additionalTypeEmbeddedCBOR] in
  append_head dst majorTypeByteString (len s) ++ s.

(* ---- types.go: scalars ---- *)
Definition cbor_AppendBool (dst : list N) (val : bool) : list N :=
  dst ++ [N.lor majorTypeSimpleAndFloat (if val then additionalTypeBoolTrue else additionalTypeBoolFalse)].

Definition cbor_AppendBools := cbor_slice cbor_AppendBool.

(* AppendInt / AppendInt64: identical bodies (int is 64 bits).  [-val - 1] is
   computed in int64 with wrap-around, byte()/uint64() are the truncating /
   reinterpreting conversions. *)
Definition cbor_AppendInt64 (dst : list N) (val : Z) : list N :=
  let '(major, contentVal) :=
    if (val <? 0)%Z then (majorTypeNegativeInt, wrap64 (wrap64 (- val) - 1))
    else (majorTypeUnsignedInt, val) in
  if (contentVal <=? Z.of_N additionalMax)%Z
  then dst ++ [N.lor major (Z.to_N (contentVal mod 256))]
  else appendCborTypePrefix dst major (Z.to_N (contentVal mod two64Z)).

Definition cbor_AppendInt := cbor_AppendInt64.
Definition cbor_AppendInt8 := cbor_AppendInt.     (* e.AppendInt(dst, int(val)) *)
Definition cbor_AppendInt16 := cbor_AppendInt.
Definition cbor_AppendInt32 := cbor_AppendInt.
Definition cbor_AppendInts := cbor_slice cbor_AppendInt.
Definition cbor_AppendInts8 := cbor_slice cbor_AppendInt.
Definition cbor_AppendInts16 := cbor_slice cbor_AppendInt.
Definition cbor_AppendInts32 := cbor_slice cbor_AppendInt.
Definition cbor_AppendInts64 := cbor_slice cbor_AppendInt64.

Definition cbor_AppendUint64 (dst : list N) (val : N) : list N :=
  if val <=? additionalMax then dst ++ [N.lor majorTypeUnsignedInt (to_byte val)]
  else appendCborTypePrefix dst majorTypeUnsignedInt val.

Definition cbor_AppendUint := cbor_AppendUint64.  (* e.AppendUint64(dst, uint64(val)) *)
Definition cbor_AppendUint8 := cbor_AppendUint.
Definition cbor_AppendUint16 := cbor_AppendUint.
Definition cbor_AppendUint32 := cbor_AppendUint.
Definition cbor_AppendUints := cbor_slice cbor_AppendUint.
Definition cbor_AppendUints8 := cbor_slice cbor_AppendUint8.
Definition cbor_AppendUints16 := cbor_slice cbor_AppendUint16.
Definition cbor_AppendUints32 := cbor_slice cbor_AppendUint32.
Definition cbor_AppendUints64 := cbor_slice cbor_AppendUint64.

(* floats as bit patterns *)
Definition f32_exp (b : N) : N := (b / 2 ^ 23) mod 256.
Definition f32_mant (b : N) : N := b mod 2 ^ 23.
Definition f32_is_nan (b : N) : bool := (f32_exp b =? 255) && negb (f32_mant b =? 0).
Definition f32_pos_inf : N := 2139095040.   (* 7f800000 *)
Definition f32_neg_inf : N := 4286578688.   (* ff800000 *)
Definition f32_canon_nan : N := 2143289344. (* 7fc00000 *)

Definition f64_exp (b : N) : N := (b / 2 ^ 52) mod 2048.
Definition f64_mant (b : N) : N := b mod 2 ^ 52.
Definition f64_is_nan (b : N) : bool := (f64_exp b =? 2047) && negb (f64_mant b =? 0).
Definition f64_pos_inf : N := 9218868437227405312.   (* 7ff0000000000000 *)
Definition f64_neg_inf : N := 18442240474082181120.  (* fff0000000000000 *)
Definition f64_canon_nan : N := 9221120237041090560. (* 7ff8000000000000 *)

Definition cbor_AppendFloat32 (dst : list N) (val : N) : list N :=
  if f32_is_nan val then dst ++ [250; 127; 192; 0; 0]
  else if val =? f32_pos_inf then dst ++ [250; 127; 128; 0; 0]
  else if val =? f32_neg_inf then dst ++ [250; 255; 128; 0; 0]
  else (dst ++ [N.lor majorTypeSimpleAndFloat additionalTypeFloat32]) ++ be_bytes 4 val.

Definition cbor_AppendFloat64 (dst : list N) (val : N) : list N :=
  if f64_is_nan val then dst ++ [251; 127; 248; 0; 0; 0; 0; 0; 0]
  else if val =? f64_pos_inf then dst ++ [251; 127; 240; 0; 0; 0; 0; 0; 0]
  else if val =? f64_neg_inf then dst ++ [251; 255; 240; 0; 0; 0; 0; 0; 0]
  else (dst ++ [N.lor majorTypeSimpleAndFloat additionalTypeFloat64]) ++ be_bytes 8 val.

Definition cbor_AppendFloats32 := cbor_slice cbor_AppendFloat32.
Definition cbor_AppendFloats64 := cbor_slice cbor_AppendFloat64.

Definition lit_marshaling_error : list N := [109;97;114;115;104;97;108;105;110;103;32;101;114;114;111;114;58;32].  (* "marshaling error: " *)
Definition lit_nil : list N := [60;110;105;108;62].  (* "<nil>" *)

(* AppendInterface: [m] is what JSONMarshalFunc returned: [inl json] or
   [inr (text of err)] (fmt.Sprintf("marshaling error: %v", err)) *)
Definition cbor_AppendInterface (dst : list N) (m : list N + list N) : list N :=
  match m with
  | inr e => cbor_AppendString dst (lit_marshaling_error ++ e)
  | inl j => cbor_AppendEmbeddedJSON dst j
  end.

(* AppendType: [None] for a nil interface, else reflect.TypeOf(i).String() *)
Definition cbor_AppendType (dst : list N) (t : option (list N)) : list N :=
  match t with None => cbor_AppendString dst lit_nil | Some s => cbor_AppendString dst s end.

Definition tag16 (dst : list N) (t : N) : list N :=
  ((dst ++ [N.lor majorTypeTags additionalTypeIntUint16]) ++ [to_byte (t / 256)]) ++ [to_byte (N.land t 255)].

Definition cbor_AppendIPAddr (dst ip : list N) : list N :=
  cbor_AppendBytes (tag16 dst additionalTypeTagNetworkAddr) ip.

Definition cbor_AppendMACAddr (dst ha : list N) : list N :=
  cbor_AppendBytes (tag16 dst additionalTypeTagNetworkAddr) ha.

Definition cbor_AppendHex (dst val : list N) : list N :=
  cbor_AppendBytes (tag16 dst additionalTypeTagHexString) val.

(* net.IPMask.Size(): simpleMaskLength, (0,0) for a non-canonical mask *)
Fixpoint leading_ones (fuel : nat) (v : N) : N * N :=   (* (count, v shifted left, as a byte) *)
  match fuel with
  | O => (0, v)
  | S f => if N.land v 128 =? 0 then (0, v)
           else let '(c, v') := leading_ones f ((v * 2) mod 256) in (c + 1, v')
  end.

Fixpoint simpleMaskLength (mask : list N) : Z :=
  match mask with
  | [] => 0
  | v :: rest =>
      if v =? 255 then
        match simpleMaskLength rest with (-1)%Z => (-1)%Z | n => (8 + n)%Z end
      else
        let '(c, v') := leading_ones 8 v in
        if negb (v' =? 0) then (-1)%Z
        else if forallb (fun b => b =? 0) rest then Z.of_N c else (-1)%Z
  end.

Definition mask_size_ones (mask : list N) : Z :=
  match simpleMaskLength mask with (-1)%Z => 0%Z | n => n end.

(* AppendIPPrefix(dst, net.IPNet{IP: ip, Mask: mask}) *)
Definition cbor_AppendIPPrefix (dst ip mask : list N) : list N :=
  let dst := tag16 dst additionalTypeTagNetworkPrefix in
  let dst := dst ++ [N.lor majorTypeMap 1] in
  let dst := cbor_AppendBytes dst ip in
  cbor_AppendUint8 dst (Z.to_N (mask_size_ones mask mod 256)).

(* ---- base.go ---- *)
Definition cbor_AppendKey (dst key : list N) : list N :=
  let dst := if len dst <? 1 then cbor_AppendBeginMarker dst else dst in
  cbor_AppendString dst key.

(* ---- time.go ---- *)
Section Time.
  Variable f64_of_time : Z -> N -> N.   (* float64(secs)*1.0 + float64(nanos)*1e-9 *)
  Variable f64_of_dur : Z -> Z -> N.    (* float64(d)/float64(unit) *)

  (* [secs] = t.UTC().Unix(), [nanos] = t.UTC().Nanosecond() *)
  Definition appendIntegerTimestamp (dst : list N) (secs : Z) : list N :=
    let dst := dst ++ [N.lor majorTypeTags additionalTypeTimestamp] in
    let '(major, val) :=
      if (secs <? 0)%Z then (majorTypeNegativeInt, Z.to_N (wrap64 (wrap64 (- secs) - 1) mod two64Z))
      else (majorTypeUnsignedInt, Z.to_N (secs mod two64Z)) in
    appendCborTypePrefix dst major val.

  Definition appendFloatTimestamp (dst : list N) (secs : Z) (nanos : N) : list N :=
    let dst := dst ++ [N.lor majorTypeTags additionalTypeTimestamp] in
    cbor_AppendFloat64 dst (f64_of_time secs nanos).

  Definition cbor_AppendTime (dst : list N) (t : Z * N) : list N :=
    let '(secs, nanos) := t in
    if nanos =? 0 then appendIntegerTimestamp dst secs else appendFloatTimestamp dst secs nanos.

  Definition cbor_AppendTimes := cbor_slice cbor_AppendTime.

  (* int64(d/unit): Go's / truncates toward zero; MinInt64 / -1 wraps *)
  Definition cbor_AppendDuration (unit : Z) (useInt : bool) (dst : list N) (d : Z) : list N :=
    if useInt then cbor_AppendInt64 dst (wrap64 (Z.quot d unit))
    else cbor_AppendFloat64 dst (f64_of_dur d unit).

  Definition cbor_AppendDurations (unit : Z) (useInt : bool) := cbor_slice (cbor_AppendDuration unit useInt).

  (* ---- every primitive as one datatype, and the compositions the Event /
     Array / Context code makes of them (assumed shape of the event-level API,
     modelled in coq/Api) ---- *)
  Inductive prim :=
  | PString (s : list N) | PStrings (l : list (list N))
  | PStringer (o : option (list N)) | PStringers (l : list (option (list N)))
  | PBytes (s : list N) | PHex (s : list N) | PJSON (s : list N) | PCBOR (s : list N)
  | PBool (b : bool) | PBools (l : list bool)
  | PInt (z : Z) | PInts (l : list Z)          (* Int, Int8, Int16, Int32, Int64 and their slices *)
  | PUint (n : N) | PUints (l : list N)        (* Uint, Uint8, Uint16, Uint32, Uint64 and their slices *)
  | PF32 (b : N) | PFs32 (l : list N) | PF64 (b : N) | PFs64 (l : list N)
  | PTime (t : Z * N) | PTimes (l : list (Z * N))
  | PDur (unit : Z) (useInt : bool) (d : Z) | PDurs (unit : Z) (useInt : bool) (l : list Z)
  | PIface (m : list N + list N) | PType (t : option (list N))
  | PIP (ip : list N) | PMAC (ha : list N) | PPrefix (ip mask : list N) | PNil.

  Definition enc_prim (dst : list N) (p : prim) : list N :=
    match p with
    | PString s => cbor_AppendString dst s | PStrings l => cbor_AppendStrings dst l
    | PStringer o => cbor_AppendStringer dst o | PStringers l => cbor_AppendStringers dst l
    | PBytes s => cbor_AppendBytes dst s | PHex s => cbor_AppendHex dst s
    | PJSON s => cbor_AppendEmbeddedJSON dst s | PCBOR s => cbor_AppendEmbeddedCBOR dst s
    | PBool b => cbor_AppendBool dst b | PBools l => cbor_AppendBools dst l
    | PInt z => cbor_AppendInt dst z | PInts l => cbor_AppendInts dst l
    | PUint n => cbor_AppendUint dst n | PUints l => cbor_AppendUints dst l
    | PF32 b => cbor_AppendFloat32 dst b | PFs32 l => cbor_AppendFloats32 dst l
    | PF64 b => cbor_AppendFloat64 dst b | PFs64 l => cbor_AppendFloats64 dst l
    | PTime t => cbor_AppendTime dst t | PTimes l => cbor_AppendTimes dst l
    | PDur u i d => cbor_AppendDuration u i dst d | PDurs u i l => cbor_AppendDurations u i dst l
    | PIface m => cbor_AppendInterface dst m | PType t => cbor_AppendType dst t
    | PIP ip => cbor_AppendIPAddr dst ip | PMAC ha => cbor_AppendMACAddr dst ha
    | PPrefix ip mask => cbor_AppendIPPrefix dst ip mask | PNil => cbor_AppendNil dst
    end.

  Inductive cval :=
  | VP (p : prim)
  | VArr (l : list cval)                      (* zerolog.Arr()....   -> 9f items ff *)
  | VDict (kvs : list (list N * cval)).       (* zerolog.Dict()....  -> bf key value ... ff *)

  (* the byte sequence the Event/Array/Context code builds: AppendArrayStart,
     the elements (AppendArrayDelim is the identity), AppendArrayEnd; for a
     dict AppendBeginMarker, AppendKey+value ..., AppendEndMarker *)
  Fixpoint enc_cval (v : cval) : list N :=
    match v with
    | VP p => enc_prim [] p
    | VArr l =>
        cbor_AppendArrayEnd
          ((fix go (l : list cval) (dst : list N) : list N :=
              match l with [] => dst | x :: t => go t (cbor_AppendArrayDelim dst ++ enc_cval x) end) l
             (cbor_AppendArrayStart []))
    | VDict kvs =>
        cbor_AppendEndMarker
          ((fix go (l : list (list N * cval)) (dst : list N) : list N :=
              match l with [] => dst | (k, x) :: t => go t (cbor_AppendKey dst k ++ enc_cval x) end) kvs
             (cbor_AppendBeginMarker []))
    end.

  (* fields of one event (or of a context + an event): keys with values *)
  Definition enc_fields (dst : list N) (kvs : list (list N * cval)) : list N :=
    fold_left (fun dst kv => cbor_AppendKey dst (fst kv) ++ enc_cval (snd kv)) kvs dst.

  Definition enc_event (kvs : list (list N * cval)) : list N :=
    cbor_AppendLineBreak (cbor_AppendEndMarker (enc_fields (cbor_AppendBeginMarker []) kvs)).

  Definition enc_context (kvs : list (list N * cval)) : list N := enc_fields (cbor_AppendBeginMarker []) kvs.
End Time.
