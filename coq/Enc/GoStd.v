(* Standard-library functions the translated sources (coq/Gen/*Src.v) call,
   as Gallina functions.  Part of the trusted base of the translator tie:
   each is the documented contract of the Go function, not its code.
   - utf8.DecodeRune / DecodeRuneInString: [go_decode_rune] (proved sound and
     complete w.r.t. RFC 3629 in Base/Utf8.v); (RuneError, 1) on an
     ill-formed prefix, (RuneError, 0) on the empty input;
   - time.Time is the record of oracle answers [tval] (Unix, UnixNano, the
     AppendFormat text for the layout in force). *)
From Verif Require Import Base.Prelude Base.GoSem Enc.JsonEnc.
Open Scope Z_scope.

Definition utf8_DecodeRune (s : list N) : Z * Z :=
  match go_decode_rune s with
  | Some (c, n) => (Z.of_N c, Z.of_nat n)
  | None => (65533, match s with [] => 0 | _ => 1 end)
  end.

Definition time_AppendFormat (t : tval) (dst : list N) (layout : list N) : list N := dst ++ t_fmt t.
Definition tval0 : tval := {| t_unix := 0; t_unixnano := 0; t_fmt := [] |}.

(* strconv.AppendFloat(dst, val, fmt, prec, bitSize): the text is an oracle (a function of the float's bits
   and width, the format byte, the precision and the bit size); theorems state what they assume of it *)
Definition float_oracle : Type := gofl -> N -> Z -> Z -> list N.
Definition strconv_AppendFloat (fo : float_oracle) (dst : list N) (val : gofl) (fmt : N) (prec bitSize : Z) : list N :=
  dst ++ fo val fmt prec bitSize.

(* strings.EqualFold, restricted to ASCII letters (simple Unicode folding such as U+212A is outside this contract; the
   level texts it is used for are ASCII) *)
Definition ascii_lower (b : N) : N := if ((65 <=? b) && (b <=? 90))%N then (b + 32)%N else b.
Definition strings_EqualFold (a b : list N) : bool := list_eqb N.eqb (map ascii_lower a) (map ascii_lower b).
