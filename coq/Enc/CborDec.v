(* Executable model of internal/cbor/decode_stream.go as it is NOW (after the
   fix commits ff99b7e, e480b62, cb46159).  No proofs here.

   Shape.  The decoder is written as a small deep-embedded program type
   [prog]: the only ways to touch the input are the reader operations the Go
   code uses on its *bufio.Reader, the only effects are writes to dst and
   allocations.  [run] interprets a program on a state (remaining input,
   output written so far, allocation meter).  Panics are results:
     Fail k   = panic(err) with an error value (recovered by
                Cbor2JsonManyObjects and returned as err);
     Crash k  = a Go runtime panic (runtime.Error: re-panicked by the recover);
     OOF      = the model ran out of fuel (never happens: Proofs/CborDecP.v).

   Reader operations and their Go counterparts:
     PReadByte      src.ReadByte() via readByte: EOF -> Fail EEofRead1
     PPeekRB        readByte(src) ... src.UnreadByte(): the byte is looked at
                    and pushed back (UnreadByte directly after a successful
                    ReadByte always succeeds); EOF -> Fail EEofRead1
     PPeek          src.Peek(1): EOF -> Fail EEofPeek (panic(io.EOF))
     PReadN n       the loop of readNBytes: n times ReadByte+append; EOF ->
                    Fail EEofReadN; every appended byte is counted by the meter
   bufio's 4096-byte window is not modelled: ReadByte/Peek(1)/UnreadByte
   behave as on an unbounded stream with one byte of push-back.

   Integers: lengths are read into an int64 with wrap-around ([acc64]),
   int(length) is the identity (64-bit build), a negative length reaches
   readNBytes and is rejected there; [make] with a negative size is a Crash.

   Oracles (Go standard library, supplied with each case as tables; [None] =
   the case did not ship the answer -> Fail EOracleMissing):
     o_f32 bits  = strconv.AppendFloat(nil, float64(math.Float32frombits(bits)), 'f', -1, 32)
     o_f64 bits  = strconv.AppendFloat(nil, math.Float64frombits(bits), 'f', -1, 64)
     o_tsi n     = time.Unix(n,0).In(time.UTC).AppendFormat(nil, IntegerTimeFieldFormat)
     o_tsf w b   = the float timestamp path of decodeTimeStamp on the float
                   payload b of width w (int64(n), fraction, time.Unix,
                   AppendFormat with NanoTimeFieldFormat). *)
From Verif Require Import Base.Prelude Base.Decimal Enc.CborEnc.
Open Scope N_scope.

(* ------------------------------------------------------------------ *)
(* results, state, programs                                            *)
(* ------------------------------------------------------------------ *)
Inductive ekind :=
| EEofRead1 | EEofReadN | EEofPeek
| EInvalidLength | EBadAdditional | EBadMajor | EFloat16
| EUnsupportedTag | EUnsupportedTagAdditional | EUnsupportedEmbedded
| EBadNetAddrLen | EBadPrefixShape | ETSFormat | EFloatPrecision
| EOracleMissing.

Inductive pkind := PMakeSliceNeg | PIndexRange.

Definition is_eof (k : ekind) : bool :=
  match k with EEofRead1 | EEofReadN | EEofPeek => true | _ => false end.

Record st := mkst { rest : list N; outr : list N (* reversed *); alloc : N }.

Inductive res (A : Type) :=
| Ret (a : A) (s : st) | Fail (k : ekind) (s : st) | Crash (k : pkind) (s : st) | OOF.
Arguments Ret {A}. Arguments Fail {A}. Arguments Crash {A}. Arguments OOF {A}.

Inductive prog (A : Type) :=
| PRet (a : A)
| PFail (k : ekind)
| PCrash (k : pkind)
| POOF
| PReadByte (k : N -> prog A)
| PPeekRB (k : N -> prog A)
| PPeek (k : N -> prog A)
| PReadN (n : Z) (k : list N -> prog A)
| PAlloc (n : N) (k : prog A)
| PWrite (bs : list N) (k : prog A).
Arguments PRet {A}. Arguments PFail {A}. Arguments PCrash {A}. Arguments POOF {A}.
Arguments PReadByte {A}. Arguments PPeekRB {A}. Arguments PPeek {A}. Arguments PReadN {A}.
Arguments PAlloc {A}. Arguments PWrite {A}.

Fixpoint pbind {A B} (p : prog A) (f : A -> prog B) : prog B :=
  match p with
  | PRet a => f a
  | PFail k => PFail k
  | PCrash k => PCrash k
  | POOF => POOF
  | PReadByte k => PReadByte (fun b => pbind (k b) f)
  | PPeekRB k => PPeekRB (fun b => pbind (k b) f)
  | PPeek k => PPeek (fun b => pbind (k b) f)
  | PReadN n k => PReadN n (fun bs => pbind (k bs) f)
  | PAlloc n k => PAlloc n (pbind k f)
  | PWrite bs k => PWrite bs (pbind k f)
  end.

Notation "x <- p ;; q" := (pbind p (fun x => q)) (at level 61, p at next level, right associativity).

Definition lenZ {A} (l : list A) : Z := Z.of_nat (length l).

(* the first n elements and the remainder, [None] when there are fewer than n;
   walks at most min(n, length l) steps (n may be as large as 2^63) *)
Fixpoint split_at (l : list N) (n : N) (acc : list N) : option (list N * list N) :=
  if n =? 0 then Some (rev' acc, l)
  else match l with
       | [] => None
       | x :: t => split_at t (n - 1) (x :: acc)
       end.

Fixpoint run {A} (p : prog A) (s : st) : res A :=
  match p with
  | PRet a => Ret a s
  | PFail k => Fail k s
  | PCrash k => Crash k s
  | POOF => OOF
  | PReadByte k =>
      match rest s with
      | [] => Fail EEofRead1 s
      | b :: t => run (k b) (mkst t (outr s) (alloc s))
      end
  | PPeekRB k =>
      match rest s with
      | [] => Fail EEofRead1 s
      | b :: _ => run (k b) s
      end
  | PPeek k =>
      match rest s with
      | [] => Fail EEofPeek s
      | b :: _ => run (k b) s
      end
  | PReadN n k =>
      if (n <=? 0)%Z then run (k []) s
      else match split_at (rest s) (Z.to_N n) [] with
           | None => Fail EEofReadN (mkst [] (outr s) (alloc s + N.of_nat (length (rest s))))
           | Some (bs, r) => run (k bs) (mkst r (outr s) (alloc s + Z.to_N n))
           end
  | PAlloc n k => run k (mkst (rest s) (outr s) (alloc s + n))
  | PWrite bs k => run k (mkst (rest s) (rev_append bs (outr s)) (alloc s + N.of_nat (length bs)))
  end.

(* ------------------------------------------------------------------ *)
(* pure helpers                                                        *)
(* ------------------------------------------------------------------ *)
Definition major_of (b : N) : N := N.land b 224.   (* pb & maskOutAdditionalType *)
Definition minor_of (b : N) : N := N.land b 31.    (* pb & maskOutMajorType *)

(* val = val*256 + int64(pb[i]) in int64 *)
Definition acc64 (pb : list N) : Z :=
  fold_left (fun v b => wrap64 (wrap64 (v * 256) + Z.of_N b)) pb 0%Z.
(* the same in uint32 / uint64 *)
Definition accU (bits : N) (pb : list N) : N :=
  fold_left (fun v b => (v * 256 + b) mod 2 ^ bits) pb 0.

(* pb[i] for i < k: an index beyond len(pb) is a runtime panic *)
Definition index_ok (k : nat) (pb : list N) : bool := (k <=? length pb)%nat.

Definition hexdig (n : N) : N := if n <? 10 then 48 + n else 87 + n.   (* hexTable[n] *)

(* ---- utf8.DecodeRuneInString: Some (size) on a well-formed prefix, None = (RuneError, 1) ---- *)
Definition in_rng (lo hi b : N) : bool := (lo <=? b) && (b <=? hi).
Definition go_decode_size (s : list N) : option nat :=
  match s with
  | b0 :: t =>
    if b0 <? 128 then Some 1%nat else
    if in_rng 194 223 b0 then match t with b1 :: _ => if in_rng 128 191 b1 then Some 2%nat else None | _ => None end else
    if in_rng 224 239 b0 then
      match t with
      | b1 :: b2 :: _ =>
        let lo := if b0 =? 224 then 160 else 128 in
        let hi := if b0 =? 237 then 159 else 191 in
        if in_rng lo hi b1 && in_rng 128 191 b2 then Some 3%nat else None
      | _ => None
      end else
    if in_rng 240 244 b0 then
      match t with
      | b1 :: b2 :: b3 :: _ =>
        let lo := if b0 =? 240 then 144 else 128 in
        let hi := if b0 =? 244 then 143 else 191 in
        if in_rng lo hi b1 && in_rng 128 191 b2 && in_rng 128 191 b3 then Some 4%nat else None
      | _ => None
      end else None
  | [] => None
  end.

(* decodeStringComplex / the plain loop of appendQuotedJSON: what is emitted
   for the bytes of s, position by position (bytes that need no escaping copy
   themselves, so starting the escaping loop at the first special byte with
   start = 0 emits the same text) *)
Definition esc1 (b : N) : list N :=
  if (b =? 34) || (b =? 92) then [92; b]
  else if b =? 8 then [92; 98] else if b =? 12 then [92; 102] else if b =? 10 then [92; 110]
  else if b =? 13 then [92; 114] else if b =? 9 then [92; 116]
  else [92; 117; 48; 48; hexdig (b / 16); hexdig (b mod 16)].
Definition lit_ufffd : list N := [92; 117; 102; 102; 102; 100].   (* � *)
Definition plain_byte (b : N) : bool := (32 <=? b) && (b <=? 126) && negb (b =? 92) && negb (b =? 34).

Fixpoint esc_json (fuel : nat) (s : list N) : list N :=
  match fuel with
  | O => []
  | S f =>
    match s with
    | [] => []
    | b :: t =>
      if 128 <=? b then
        match go_decode_size s with
        | Some n => firstn n s ++ esc_json f (skipn n s)
        | None => lit_ufffd ++ esc_json f t
        end
      else if plain_byte b then b :: esc_json f t
      else esc1 b ++ esc_json f t
    end
  end.

Definition appendQuotedJSON (pbs : list N) : list N := 34 :: esc_json (length pbs) pbs ++ [34].

(* ---- encoding/base64 StdEncoding ---- *)
Definition b64char (n : N) : N :=
  if n <? 26 then 65 + n else if n <? 52 then 97 + (n - 26) else if n <? 62 then 48 + (n - 52)
  else if n =? 62 then 43 else 47.
Fixpoint b64enc (fuel : nat) (s : list N) : list N :=
  match fuel with
  | O => []
  | S f =>
    match s with
    | [] => []
    | [a] => [b64char (a / 4); b64char ((a mod 4) * 16); 61; 61]
    | [a; b] => [b64char (a / 4); b64char ((a mod 4) * 16 + b / 16); b64char ((b mod 16) * 4); 61]
    | a :: b :: c :: t =>
        b64char (a / 4) :: b64char ((a mod 4) * 16 + b / 16) :: b64char ((b mod 16) * 4 + c / 64) :: b64char (c mod 64)
        :: b64enc f t
    end
  end.

(* ---- package net ---- *)
Definition hexString (b : list N) : list N := flat_map (fun v => [hexdig (v / 16); hexdig (v mod 16)]) b.

Fixpoint mac_string (a : list N) : list N :=     (* HardwareAddr.String, len(a) > 0 *)
  match a with
  | [] => []
  | [b] => [hexdig (b / 16); hexdig (b mod 16)]
  | b :: t => hexdig (b / 16) :: hexdig (b mod 16) :: 58 :: mac_string t
  end.

Definition dec_u8 (x : N) : list N :=            (* netip appendDecimal *)
  (if 100 <=? x then [48 + x / 100] else []) ++ (if 10 <=? x then [48 + x / 10 mod 10] else []) ++ [48 + x mod 10].
Definition hex_u16 (x : N) : list N :=           (* netip appendHex *)
  (if 4096 <=? x then [hexdig (x / 4096)] else []) ++ (if 256 <=? x then [hexdig (x / 256 mod 16)] else []) ++
  (if 16 <=? x then [hexdig (x / 16 mod 16)] else []) ++ [hexdig (x mod 16)].

Definition ip4_string (p : list N) : list N :=
  match p with
  | [a; b; c; d] => dec_u8 a ++ [46] ++ dec_u8 b ++ [46] ++ dec_u8 c ++ [46] ++ dec_u8 d
  | _ => []
  end.

Fixpoint groups16 (ip : list N) : list N :=
  match ip with a :: b :: t => (a * 256 + b) :: groups16 t | _ => [] end.
Fixpoint lead_zeros (gs : list N) : N :=
  match gs with g :: t => if g =? 0 then 1 + lead_zeros t else 0 | [] => 0 end.
Fixpoint best_run (i : N) (gs : list N) (zs ze : N) : N * N :=
  match gs with
  | [] => (zs, ze)
  | _ :: t =>
      let l := lead_zeros gs in
      let '(zs', ze') := if (2 <=? l) && (ze - zs <? l) then (i, i + l) else (zs, ze) in
      best_run (i + 1) t zs' ze'
  end.
Fixpoint ip6_print (fuel : nat) (i : N) (gs : list N) (zs ze : N) : list N :=
  match fuel with
  | O => []
  | S f =>
      if 8 <=? i then []
      else if i =? zs then
        [58; 58] ++ (if 8 <=? ze then [] else hex_u16 (nth (N.to_nat ze) gs 0) ++ ip6_print f (ze + 1) gs zs ze)
      else (if 0 <? i then [58] else []) ++ hex_u16 (nth (N.to_nat i) gs 0) ++ ip6_print f (i + 1) gs zs ze
  end.
Definition ip6_string (ip : list N) : list N :=
  let gs := groups16 ip in
  let '(zs, ze) := best_run 0 gs 255 255 in
  ip6_print 9 0 gs zs ze.

Definition to4 (ip : list N) : option (list N) :=
  if (length ip =? 4)%nat then Some ip
  else if (length ip =? 16)%nat && forallb (fun b => b =? 0) (firstn 10 ip)
          && (nth 10 ip 0 =? 255) && (nth 11 ip 0 =? 255) then Some (skipn 12 ip)
  else None.

Definition lit_nil_s : list N := [60; 110; 105; 108; 62].   (* "<nil>" *)

Definition ip_string (ip : list N) : list N :=   (* net.IP.String *)
  if (length ip =? 0)%nat then lit_nil_s
  else if negb (length ip =? 4)%nat && negb (length ip =? 16)%nat then 63 :: hexString ip
  else match to4 ip with
       | Some p4 => ip4_string p4
       | None => ip6_string ip
       end.

Fixpoint cidr_bytes (l : nat) (n : N) : list N :=
  match l with
  | O => []
  | S l' => if 8 <=? n then 255 :: cidr_bytes l' (n - 8) else (255 - 255 / 2 ^ n) :: cidr_bytes l' 0
  end.
Definition CIDRMask (ones bits : Z) : option (list N) :=
  if negb (bits =? 32)%Z && negb (bits =? 128)%Z then None
  else if (ones <? 0)%Z || (bits <? ones)%Z then None
  else Some (cidr_bytes (Z.to_nat (bits / 8)) (Z.to_N ones)).

(* (&net.IPNet{IP: octets, Mask: CIDRMask(pfxLen, bits)}).String() *)
Definition ipnet_string (octets : list N) (pfxLen : Z) : list N :=
  let bits := if (length octets =? 4)%nat then 32%Z else 128%Z in
  match CIDRMask pfxLen bits with
  | None => lit_nil_s
  | Some m =>
      let nn := match to4 octets with
                | Some p => Some p
                | None => if (length octets =? 16)%nat then Some octets else None
                end in
      match nn with
      | None => lit_nil_s
      | Some ip =>
          let m' := if (length m =? 4)%nat then (if (length ip =? 4)%nat then Some m else None)
                    else if (length m =? 16)%nat then (if (length ip =? 4)%nat then Some (skipn 12 m) else Some m)
                    else None in
          match m' with
          | None => lit_nil_s
          | Some mk =>
              match simpleMaskLength mk with
              | (-1)%Z => ip_string ip ++ [47] ++ hexString mk
              | l => ip_string ip ++ [47] ++ print_N (Z.to_N l)
              end
          end
      end
  end.

(* literals *)
Definition lit_true : list N := [116; 114; 117; 101].
Definition lit_false : list N := [102; 97; 108; 115; 101].
Definition lit_null : list N := [110; 117; 108; 108].
Definition lit_NaN : list N := [34; 78; 97; 78; 34].
Definition lit_pInf : list N := [34; 43; 73; 110; 102; 34].
Definition lit_nInf : list N := [34; 45; 73; 110; 102; 34].
Definition lit_data : list N := [34; 100; 97; 116; 97; 58].             (* quote data: *)
Definition lit_b64 : list N := [59; 98; 97; 115; 101; 54; 52; 44].        (* ;base64, *)
Definition lit_app_cbor : list N :=
  [97; 112; 112; 108; 105; 99; 97; 116; 105; 111; 110; 47; 99; 98; 111; 114].  (* application/cbor *)

Inductive fwidth := W32 | W64.

Record oracle := mkoracle {
  o_f32 : N -> option (list N);
  o_f64 : N -> option (list N);
  o_tsi : Z -> option (list N);
  o_tsf : fwidth -> N -> option (list N) }.

Definition ask {A} (o : option A) : prog A :=
  match o with Some t => PRet t | None => PFail EOracleMissing end.

(* ------------------------------------------------------------------ *)
(* the decoder                                                         *)
(* ------------------------------------------------------------------ *)
Section Decoder.
  Variable Orc : oracle.

  Definition readByte : prog N := PReadByte (fun b => PRet b).

  Definition maxPrealloc : Z := 4096.

  Definition readNBytes (n : Z) : prog (list N) :=
    if (n <? 0)%Z then PFail EInvalidLength
    else
      let prealloc := if (maxPrealloc <? n)%Z then maxPrealloc else n in
      if (prealloc <? 0)%Z then PCrash PMakeSliceNeg           (* make([]byte, 0, prealloc) *)
      else PAlloc (Z.to_N prealloc) (PReadN n (fun bs => PRet bs)).

  Definition decodeIntAdditionalType (minor : N) : prog Z :=
    if minor <=? 23 then PRet (Z.of_N minor)
    else
      let go (k : nat) : prog Z :=
        pb <- readNBytes (Z.of_nat k) ;;
        if index_ok k pb then PRet (acc64 (firstn k pb)) else PCrash PIndexRange in
      if minor =? additionalTypeIntUint8 then go 1%nat
      else if minor =? additionalTypeIntUint16 then go 2%nat
      else if minor =? additionalTypeIntUint32 then go 4%nat
      else if minor =? additionalTypeIntUint64 then go 8%nat
      else PFail EBadAdditional.

  Definition decodeInteger : prog Z :=
    pb <- readByte ;;
    let major := major_of pb in
    let minor := minor_of pb in
    if negb (major =? majorTypeUnsignedInt) && negb (major =? majorTypeNegativeInt) then PFail EBadMajor
    else
      val <- decodeIntAdditionalType minor ;;
      if major =? 0 then PRet val else PRet (wrap64 (-1 - val)).

  (* returns the width and the raw bit pattern; the NaN/Inf special cases of
     the Go code return the same float64 values as the generic conversion *)
  Definition decodeFloat : prog (fwidth * N) :=
    pb <- readByte ;;
    let major := major_of pb in
    let minor := minor_of pb in
    if negb (major =? majorTypeSimpleAndFloat) then PFail EBadMajor
    else if minor =? additionalTypeFloat16 then PFail EFloat16
    else if minor =? additionalTypeFloat32 then
      pb <- readNBytes 4 ;;
      if index_ok 4 pb then PRet (W32, accU 32 (firstn 4 pb)) else PCrash PIndexRange
    else if minor =? additionalTypeFloat64 then
      pb <- readNBytes 8 ;;
      if index_ok 8 pb then PRet (W64, accU 64 (firstn 8 pb)) else PCrash PIndexRange
    else PFail EBadAdditional.

  (* decodeString(src, noQuotes) *)
  Definition decodeString (noQuotes : bool) : prog (list N) :=
    pb <- readByte ;;
    let major := major_of pb in
    let minor := minor_of pb in
    if negb (major =? majorTypeByteString) then PFail EBadMajor
    else
      ln <- decodeIntAdditionalType minor ;;
      pbs <- readNBytes ln ;;                         (* len := int(length) *)
      if noQuotes then PAlloc (len pbs) (PRet pbs)
      else let q := appendQuotedJSON pbs in PAlloc (len q) (PRet q).

  Definition decodeUTF8String : prog (list N) :=
    pb <- readByte ;;
    let major := major_of pb in
    let minor := minor_of pb in
    if negb (major =? majorTypeUtf8String) then PFail EBadMajor
    else
      ln <- decodeIntAdditionalType minor ;;
      pbs <- readNBytes ln ;;
      let q := appendQuotedJSON pbs in PAlloc (len q) (PRet q).

  Definition decodeStringToDataUrl (mimeType : list N) : prog (list N) :=
    pb <- readByte ;;
    let major := major_of pb in
    let minor := minor_of pb in
    if negb (major =? majorTypeByteString) then PFail EBadMajor
    else
      ln <- decodeIntAdditionalType minor ;;
      pbs <- readNBytes ln ;;
      let l := lenZ pbs in
      let lEnc := wrap64 (wrap64 ((wrap64 (l + 2)) / 3) * 4) in       (* enc.EncodedLen(l) *)
      let size := wrap64 (wrap64 (15 + lenZ mimeType) + lEnc) in
      if (size <? 0)%Z then PCrash PMakeSliceNeg                      (* make([]byte, size) *)
      else PAlloc (Z.to_N size)
             (PRet (lit_data ++ mimeType ++ lit_b64 ++ b64enc (length pbs) pbs ++ [34])).

  Definition quote (t : list N) : list N := 34 :: t ++ [34].

  Definition decodeTimeStamp : prog (list N) :=
    PPeekRB (fun pb =>
      let tsMajor := major_of pb in
      if (tsMajor =? majorTypeUnsignedInt) || (tsMajor =? majorTypeNegativeInt) then
        n <- decodeInteger ;;
        t <- ask (o_tsi Orc n) ;;
        PRet (quote t)
      else if tsMajor =? majorTypeSimpleAndFloat then
        wb <- decodeFloat ;;
        t <- ask (o_tsf Orc (fst wb) (snd wb)) ;;
        PRet (quote t)
      else PFail ETSFormat).

  Definition decodeTagData : prog (list N) :=
    pb <- readByte ;;
    let major := major_of pb in
    let minor := minor_of pb in
    if negb (major =? majorTypeTags) then PFail EBadMajor
    else if minor =? additionalTypeTimestamp then decodeTimeStamp
    else if minor =? additionalTypeIntUint8 then
      val <- decodeIntAdditionalType minor ;;
      if Z.to_N (val mod 256) =? additionalTypeEmbeddedCBOR then
        PPeekRB (fun pb =>
          if negb (major_of pb =? majorTypeByteString) then PFail EUnsupportedEmbedded
          else decodeStringToDataUrl lit_app_cbor)
      else PFail EUnsupportedTag
    else if minor =? additionalTypeIntUint16 then
      val <- decodeIntAdditionalType minor ;;
      let tag := Z.to_N (val mod 65536) in
      if tag =? additionalTypeEmbeddedJSON then
        PPeekRB (fun pb =>
          if negb (major_of pb =? majorTypeByteString) then PFail EUnsupportedEmbedded
          else decodeString true)
      else if tag =? additionalTypeTagNetworkAddr then
        octets <- decodeString true ;;
        if (length octets =? 6)%nat then PRet (quote (mac_string octets))
        else if (length octets =? 4)%nat || (length octets =? 16)%nat then PRet (quote (ip_string octets))
        else PFail EBadNetAddrLen
      else if tag =? additionalTypeTagNetworkPrefix then
        pb <- readByte ;;
        if negb (pb =? N.lor majorTypeMap 1) then PFail EBadPrefixShape
        else
          octets <- decodeString true ;;
          val <- decodeInteger ;;
          PRet (quote (ipnet_string octets val))
      else if tag =? additionalTypeTagHexString then
        octets <- decodeString true ;;
        PRet (quote (hexString octets))
      else PFail EUnsupportedTag
    else PFail EUnsupportedTagAdditional.

  Definition decodeSimpleFloat : prog (list N) :=
    PPeekRB (fun pb =>
      let major := major_of pb in
      let minor := minor_of pb in
      if negb (major =? majorTypeSimpleAndFloat) then PFail EBadMajor
      else if minor =? additionalTypeBoolTrue then PReadByte (fun _ => PRet lit_true)
      else if minor =? additionalTypeBoolFalse then PReadByte (fun _ => PRet lit_false)
      else if minor =? additionalTypeNull then PReadByte (fun _ => PRet lit_null)
      else if (minor =? additionalTypeFloat16) || (minor =? additionalTypeFloat32) || (minor =? additionalTypeFloat64) then
        wb <- decodeFloat ;;
        match fst wb with
        | W32 =>
            if f32_is_nan (snd wb) then PRet lit_NaN
            else if snd wb =? f32_pos_inf then PRet lit_pInf
            else if snd wb =? f32_neg_inf then PRet lit_nInf
            else ask (o_f32 Orc (snd wb))
        | W64 =>
            if f64_is_nan (snd wb) then PRet lit_NaN
            else if snd wb =? f64_pos_inf then PRet lit_pInf
            else if snd wb =? f64_neg_inf then PRet lit_nInf
            else ask (o_f64 Orc (snd wb))
        end
      else PFail EBadAdditional).

  (* every major type except arrays and maps: returns the text to write *)
  Definition leaf (major : N) : prog (list N) :=
    if major =? majorTypeUnsignedInt then
      b <- readByte ;;
      n <- decodeIntAdditionalType (minor_of b) ;;
      PRet (print_N (Z.to_N (n mod two64Z)))                 (* strconv.AppendUint(nil, uint64(n), 10) *)
    else if major =? majorTypeNegativeInt then
      n <- decodeInteger ;;
      PRet (print_Z n)                                       (* strconv.Itoa(int(n)) *)
    else if major =? majorTypeByteString then decodeString false
    else if major =? majorTypeUtf8String then decodeUTF8String
    else if major =? majorTypeTags then decodeTagData
    else decodeSimpleFloat.

  Definition is_break_byte (b : N) : bool := b =? N.lor majorTypeSimpleAndFloat additionalTypeBreak.

  (* array / map header after the initial byte: (unSpecifiedCount, len) *)
  Definition container_header (minor : N) : prog (bool * Z) :=
    if minor =? additionalTypeInfiniteCount then PRet (true, 0%Z)
    else ln <- decodeIntAdditionalType minor ;; PRet (false, ln).

  Fixpoint cbor2JsonOneObject (f : nat) : prog unit :=
    match f with
    | O => POOF
    | S f' =>
      PPeek (fun pb =>
        let major := major_of pb in
        if major =? majorTypeArray then
          (* array2Json *)
          PWrite [91] (
            pb <- readByte ;;
            if negb (major_of pb =? majorTypeArray) then PFail EBadMajor
            else h <- container_header (minor_of pb) ;; array_loop f' (fst h) 0%Z (snd h))
        else if major =? majorTypeMap then
          (* map2Json *)
          pb <- readByte ;;
          if negb (major_of pb =? majorTypeMap) then PFail EBadMajor
          else h <- container_header (minor_of pb) ;; PWrite [123] (map_loop f' (fst h) 0%Z (snd h))
        else
          s <- leaf major ;; PAlloc (len s) (PWrite s (PRet tt)))
    end
  with array_loop (f : nat) (unSpecifiedCount : bool) (i len : Z) : prog unit :=
    match f with
    | O => POOF
    | S f' =>
      if unSpecifiedCount || (i <? len)%Z then
        let body : prog unit :=
          _ <- cbor2JsonOneObject f' ;;
          if unSpecifiedCount then
            PPeek (fun pb =>
              if is_break_byte pb then PReadByte (fun _ => PWrite [93] (PRet tt))
              else PWrite [44] (array_loop f' unSpecifiedCount (i + 1) len))
          else if (i + 1 <? len)%Z then PWrite [44] (array_loop f' unSpecifiedCount (i + 1) len)
          else array_loop f' unSpecifiedCount (i + 1) len in
        if unSpecifiedCount then
          PPeek (fun pb => if is_break_byte pb then PReadByte (fun _ => PWrite [93] (PRet tt)) else body)
        else body
      else PWrite [93] (PRet tt)
    end
  with map_loop (f : nat) (unSpecifiedCount : bool) (i len : Z) : prog unit :=
    match f with
    | O => POOF
    | S f' =>
      if unSpecifiedCount || (i <? len)%Z then
        let body : prog unit :=
          _ <- cbor2JsonOneObject f' ;;
          if (i mod 2 =? 0)%Z then PWrite [58] (map_loop f' unSpecifiedCount (i + 1) len)
          else if unSpecifiedCount then
            PPeek (fun pb =>
              if is_break_byte pb then PReadByte (fun _ => PWrite [125] (PRet tt))
              else PWrite [44] (map_loop f' unSpecifiedCount (i + 1) len))
          else if (i + 1 <? len)%Z then PWrite [44] (map_loop f' unSpecifiedCount (i + 1) len)
          else map_loop f' unSpecifiedCount (i + 1) len in
        if unSpecifiedCount then
          PPeek (fun pb => if is_break_byte pb then PReadByte (fun _ => PWrite [125] (PRet tt)) else body)
        else body
      else PWrite [125] (PRet tt)
    end.

  (* the loop of Cbor2JsonManyObjects:
       for moreBytesToRead(bufRdr) { cbor2JsonOneObject(bufRdr, dst); dst.Write("\n") }
     moreBytesToRead is ReadByte + UnreadByte and is the only place where the
     end of the input is not an error *)
  Definition write_nl (s : st) : st := mkst (rest s) (10 :: outr s) (alloc s + 1).

  Fixpoint many (f : nat) (s : st) : res unit :=
    match f with
    | O => OOF
    | S f' =>
        match rest s with
        | [] => Ret tt s
        | _ :: _ =>
            match run (cbor2JsonOneObject f') s with
            | Ret _ s' => many f' (write_nl s')
            | Fail k s' => Fail k s'
            | Crash k s' => Crash k s'
            | OOF => OOF
            end
        end
    end.

  (* what the caller of Cbor2JsonManyObjects observes: the bytes written to
     dst, and nil / an error / a re-raised runtime panic.  The deferred
     recover: a runtime.Error is re-panicked, any other panic value r is
     returned as r.(error) - every panic of this file carries an error. *)
  Inductive final := FOk | FErr (k : ekind) | FRuntimePanic (k : pkind) | FOutOfFuel.

  Definition fuel_for (bs : list N) : nat := 2 * length bs + 2.

  Definition cbor2json (bs : list N) : list N * final * N :=
    match many (fuel_for bs) (mkst bs [] 0) with
    | Ret _ s => (rev' (outr s), FOk, alloc s)
    | Fail k s => (rev' (outr s), FErr k, alloc s)
    | Crash k s => (rev' (outr s), FRuntimePanic k, alloc s)
    | OOF => ([], FOutOfFuel, 0)
    end.

  (* binaryFmt + DecodeIfBinaryToBytes: the error is dropped, the buffer returned *)
  Definition binaryFmt (p : list N) : bool := match p with b :: _ => 127 <? b | [] => false end.
  Definition decodeIfBinaryToBytes (bs : list N) : list N * final :=
    if binaryFmt bs then
      match cbor2json bs with
      | (out, FRuntimePanic k, _) => (out, FRuntimePanic k)
      | (out, FOutOfFuel, _) => (out, FOutOfFuel)
      | (out, _, _) => (out, FOk)
      end
    else (bs, FOk).

  (* DecodeObjectToStr: one object, no recover: every panic propagates *)
  Definition decodeObjectToStr (bs : list N) : list N * final :=
    if binaryFmt bs then
      match run (cbor2JsonOneObject (fuel_for bs)) (mkst bs [] 0) with
      | Ret _ s => (rev' (outr s), FOk)
      | Fail k s => ([], FErr k)              (* the panic propagates: nothing is returned *)
      | Crash k s => ([], FRuntimePanic k)
      | OOF => ([], FOutOfFuel)
      end
    else (bs, FOk).
End Decoder.
