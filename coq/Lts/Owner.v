(* Ownership of pooled event buffers under concurrency (event.go: newEvent /
   write / putEvent; sync.Pool).  G threads emit events through a shared pool.
   One LTS step per pool or writer interaction.  sync.Pool.Get may return ANY
   pooled object or a fresh one: the choice is part of the schedule, so every
   pool policy is covered.  What the model assumes - and the correspondence
   run (race detector + checksumming writer) watches - is that a thread only
   touches the buffer of the object it currently owns. *)
From Verif Require Import Base.Prelude.

Definition bytes := list N.
Definition obj := nat.

Inductive tstate :=
| TIdle (todo : list bytes)                 (* next: newEvent *)
| TBuilding (o : obj) (b : bytes) (todo : list bytes)   (* owns o, buffer reset; next: build the event *)
| TBuilt (o : obj) (b : bytes) (todo : list bytes)      (* buffer holds b; next: call WriteLevel *)
| TInWrite (o : obj) (b : bytes) (todo : list bytes)    (* inside WriteLevel(buf); next: it returns *)
| TReturned (o : obj) (todo : list bytes).              (* next: putEvent *)

Inductive wev := WEnter (t : nat) (o : obj) (b : bytes) | WExit (t : nat) (o : obj) (b : bytes).

Record gstate := {
  g_pool : list obj;            (* objects currently in the pool *)
  g_next : obj;                 (* next fresh object id *)
  g_mem : obj -> bytes;         (* buffer contents of every object (stale contents stay in pooled ones) *)
  g_threads : list tstate;
  g_log : list wev              (* what the writer saw on entry and on return *)
}.

Definition set_mem (m : obj -> bytes) (o : obj) (b : bytes) : obj -> bytes := fun x => if Nat.eqb x o then b else m x.

Fixpoint remove_nth {A} (l : list A) (i : nat) : list A :=
  match l, i with [], _ => [] | _ :: t, O => t | h :: t, S j => h :: remove_nth t j end.

(* an action: thread t moves; [choice] is used by Get only: Some i = take the i-th pooled object, None = the pool
   hands out a new object *)
Definition gstep (s : gstate) (a : nat * option nat) : gstate :=
  let '(t, choice) := a in
  match nth_error (g_threads s) t with
  | None => s
  | Some ts =>
    match ts with
    | TIdle [] => s
    | TIdle (b :: todo) =>
        match choice with
        | Some i =>
            match nth_error (g_pool s) i with
            | Some o =>   (* newEvent: e.buf = e.buf[:0] - the stale contents are dropped *)
                {| g_pool := remove_nth (g_pool s) i; g_next := g_next s; g_mem := set_mem (g_mem s) o [];
                   g_threads := upd (g_threads s) t (TBuilding o b todo); g_log := g_log s |}
            | None => s
            end
        | None =>
            {| g_pool := g_pool s; g_next := S (g_next s); g_mem := set_mem (g_mem s) (g_next s) [];
               g_threads := upd (g_threads s) t (TBuilding (g_next s) b todo); g_log := g_log s |}
        end
    | TBuilding o b todo =>
        {| g_pool := g_pool s; g_next := g_next s; g_mem := set_mem (g_mem s) o b;
           g_threads := upd (g_threads s) t (TBuilt o b todo); g_log := g_log s |}
    | TBuilt o b todo =>
        {| g_pool := g_pool s; g_next := g_next s; g_mem := g_mem s;
           g_threads := upd (g_threads s) t (TInWrite o b todo); g_log := g_log s ++ [WEnter t o (g_mem s o)] |}
    | TInWrite o b todo =>
        {| g_pool := g_pool s; g_next := g_next s; g_mem := g_mem s;
           g_threads := upd (g_threads s) t (TReturned o todo); g_log := g_log s ++ [WExit t o (g_mem s o)] |}
    | TReturned o todo =>   (* putEvent after the writer returned *)
        {| g_pool := o :: g_pool s; g_next := g_next s; g_mem := g_mem s;
           g_threads := upd (g_threads s) t (TIdle todo); g_log := g_log s |}
    end
  end.

Definition ginit (pool : list obj) (next : obj) (mem : obj -> bytes) (progs : list (list bytes)) : gstate :=
  {| g_pool := pool; g_next := next; g_mem := mem; g_threads := map TIdle progs; g_log := [] |}.

Definition grun (s : gstate) (sched : list (nat * option nat)) : gstate := fold_left gstep sched s.

Definition owned_of (ts : tstate) : list obj :=
  match ts with
  | TIdle _ => []
  | TBuilding o _ _ | TBuilt o _ _ | TInWrite o _ _ | TReturned o _ => [o]
  end.
Definition owned (s : gstate) : list obj := flat_map owned_of (g_threads s).

(* what thread t has had written so far, in order *)
Definition written_by (t : nat) (l : list wev) : list bytes :=
  flat_map (fun e => match e with WEnter t' _ b => if Nat.eqb t t' then [b] else [] | _ => [] end) l.
Definition todo_of (ts : tstate) : list bytes :=
  match ts with
  | TIdle todo => todo
  | TBuilding _ b todo | TBuilt _ b todo => b :: todo
  | TInWrite _ _ todo | TReturned _ todo => todo
  end.

(* ---- a mutex-protected writer (syncWriter): Lock; Write; Unlock ---- *)
Inductive mstate := MOut | MWant | MIn.
Record sw := { sw_lock : option nat; sw_threads : list mstate; sw_inside : list nat (* threads inside the wrapped Write *) }.
Definition swstep (s : sw) (t : nat) : sw :=
  match nth_error (sw_threads s) t with
  | Some MOut => {| sw_lock := sw_lock s; sw_threads := upd (sw_threads s) t MWant; sw_inside := sw_inside s |}
  | Some MWant =>
      match sw_lock s with
      | None => {| sw_lock := Some t; sw_threads := upd (sw_threads s) t MIn; sw_inside := t :: sw_inside s |}
      | Some _ => s    (* blocked in Lock *)
      end
  | Some MIn => {| sw_lock := None; sw_threads := upd (sw_threads s) t MOut; sw_inside := remove Nat.eq_dec t (sw_inside s) |}
  | None => s
  end.
Definition swrun (n : nat) (sched : list nat) : sw :=
  fold_left swstep sched {| sw_lock := None; sw_threads := repeat MOut n; sw_inside := [] |}.

(* ---- the same writer when the wrapped call may PANIC and the caller recovers further up ----
   [deferred] is the shape of the source method (Gen/LockShapes: lm_bracket): true = Lock; defer Unlock; call -
   the unlock runs when the call returns AND when a panic unwinds through the method; false = Lock; call; Unlock -
   a panic unwinds past the Unlock.  An action is (thread, does the wrapped call end by panicking if this step
   ends it).  The thread itself goes on either way (its caller recovered): MIn -> MOut. *)
Definition swpstep (deferred : bool) (s : sw) (a : nat * bool) : sw :=
  let '(t, panics) := a in
  match nth_error (sw_threads s) t with
  | Some MIn =>
      {| sw_lock := if panics && negb deferred then sw_lock s else None;
         sw_threads := upd (sw_threads s) t MOut;
         sw_inside := remove Nat.eq_dec t (sw_inside s) |}
  | _ => swstep s t
  end.
Definition swprun (deferred : bool) (n : nat) (sched : list (nat * bool)) : sw :=
  fold_left (swpstep deferred) sched {| sw_lock := None; sw_threads := repeat MOut n; sw_inside := [] |}.
