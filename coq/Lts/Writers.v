(* Writers (writer.go): LevelWriterAdapter, syncWriter, FilteredLevelWriter,
   multiLevelWriter.Write/WriteLevel, and the error routing of Event.write /
   Event.msg (event.go) to ErrorHandler (globals.go).

   Destinations are fakes whose behaviour on each call is given by an oracle:
   ok, an error value, or a short write.  A destination is a leaf (a fake that
   implements io.Writer only, or LevelWriter) below a chain of wrappers.
   One logging call is a trace of actions; there is no state between events
   other than the event pool (the [APut] action). *)
From Verif Require Import Base.Prelude Misc.Level.
Open Scope Z_scope.

Definition bytes := list N.
Definition blen (p : bytes) : Z := Z.of_nat (length p).

(* error values are compared by identity: the e-th scripted error, or io.ErrShortWrite *)
Inductive err := EDest (e : N) | EShortWrite.

(* what a fake destination does on one call *)
Inductive outcome := OOk | OErr (e : N) | OShort (n : Z).

(* (n, err) as returned by Write/WriteLevel *)
Definition ret := (Z * option err)%type.

Definition dest_ret (o : outcome) (p : bytes) : ret :=
  match o with
  | OOk => (blen p, None)
  | OErr e => (0, Some (EDest e))
  | OShort n => (n, None)
  end.

(* how a writer is entered: Write(p) or WriteLevel(l, p) *)
Inductive mode := MWrite | MLevel (l : level).

Inductive wrapper :=
| WSync                      (* SyncWriter(w): lock; forward the same call *)
| WFiltered (min : level)    (* &FilteredLevelWriter{Writer: w, Level: min} *)
| WAdapter.                  (* LevelWriterAdapter{w}: WriteLevel(l,p) = w.Write(p);
                                also: a LevelWriter hidden behind a plain io.Writer *)

(* the fake at the bottom: implements io.Writer only, or also LevelWriter.
   MultiLevelWriter, SyncWriter and New wrap an io.Writer-only value into a
   LevelWriterAdapter, hence a plain leaf only ever sees Write. *)
Inductive leaf := LPlain | LLevel.

Record dest := { d_wraps : list wrapper; d_leaf : leaf }.

(* the call that comes out below a chain of wrappers, None = swallowed by a filter
   (FilteredLevelWriter.WriteLevel: [if level >= w.Level] ... else [return len(p), nil];
    FilteredLevelWriter.Write forwards unconditionally) *)
Fixpoint through (ws : list wrapper) (m : mode) : option mode :=
  match ws with
  | [] => Some m
  | WSync :: t => through t m
  | WAdapter :: t => through t MWrite
  | WFiltered min :: t =>
      match m with
      | MLevel l => if l >=? min then through t m else None
      | MWrite => through t MWrite
      end
  end.

Definition leaf_mode (k : leaf) (m : mode) : mode :=
  match k with LPlain => MWrite | LLevel => m end.

(* one entry of a destination's call log *)
Definition call := (mode * bytes)%type.

Inductive action :=
| ACall (d : nat) (m : mode) (p : bytes)   (* the fake of destination d is called *)
| APut                                     (* putEvent: the event goes back to the pool *)
| AHandler (e : err)                       (* ErrorHandler(err) *)
| AStderr (e : err)                        (* ErrorHandler == nil: message on stderr *)
| ADone.                                   (* the deferred done(msg) ran (Logger.Panic: it panics) *)

(* calling destination number i in mode m; oc is what its fake does if reached *)
Definition dest_call (i : nat) (d : dest) (m : mode) (p : bytes) (oc : outcome) : list action * ret :=
  match through (d_wraps d) m with
  | None => ([], (blen p, None))
  | Some m' => ([ACall i (leaf_mode (d_leaf d) m') p], dest_ret oc p)
  end.

(* the body of the loop in multiLevelWriter.Write / WriteLevel:
     if _n, _err := w.WriteLevel(l, p); err == nil {
         n = _n
         if _err != nil { err = _err } else if _n != len(p) { err = io.ErrShortWrite }
     }                                                                         *)
Definition acc_step (acc r : ret) (len : Z) : ret :=
  match snd acc with
  | Some _ => acc
  | None =>
      match snd r with
      | Some e => (fst r, Some e)
      | None => if fst r =? len then (fst r, None) else (fst r, Some EShortWrite)
      end
  end.

Fixpoint multi_loop (ds : list dest) (i : nat) (m : mode) (p : bytes) (o : nat -> outcome)
         (acc : ret) : list action * ret :=
  match ds with
  | [] => ([], acc)
  | d :: t =>
      let '(cs, r) := dest_call i d m p (o i) in
      let '(rest, acc') := multi_loop t (S i) m p o (acc_step acc r (blen p)) in
      (cs ++ rest, acc')
  end.

Definition multi_write (ds : list dest) (m : mode) (p : bytes) (o : nat -> outcome) : list action * ret :=
  multi_loop ds 0%nat m p o (0, None).

(* what the Logger writes to *)
Inductive kind :=
| KMulti     (* MultiLevelWriter(dests...) *)
| KSingle.   (* the first destination itself, no MultiLevelWriter *)

Record cfg := {
  c_wraps : list wrapper;   (* wrappers around the whole writer, outermost first; [] = zerolog.New(multi) *)
  c_kind : kind;
  c_dests : list dest;
  c_handler : bool          (* ErrorHandler != nil *)
}.

Definition body_write (c : cfg) (m : mode) (p : bytes) (o : nat -> outcome) : list action * ret :=
  match c_kind c with
  | KMulti => multi_write (c_dests c) m p o
  | KSingle =>
      match c_dests c with
      | [] => ([], (blen p, None))
      | d :: _ => dest_call 0%nat d m p (o 0%nat)
      end
  end.

Record event := { ev_level : level; ev_bytes : bytes; ev_panic : bool (* created by Logger.Panic() *) }.

(* Event.write: _, err = e.w.WriteLevel(e.level, e.buf); putEvent(e); return *)
Definition write_event (c : cfg) (o : nat -> outcome) (ev : event) : list action * option err :=
  match through (c_wraps c) (MLevel (ev_level ev)) with
  | None => ([APut], None)
  | Some m =>
      let '(acts, r) := body_write c m (ev_bytes ev) o in (acts ++ [APut], snd r)
  end.

(* Event.Msg -> msg: a Disabled-level event is the nil event (WithLevel returns nil), Msg returns at once *)
Definition msg (c : cfg) (o : nat -> outcome) (ev : event) : list action :=
  if ev_level ev =? Disabled then []
  else
    let '(acts, e) := write_event c o ev in
    acts ++ match e with
            | None => []
            | Some x => [if c_handler c then AHandler x else AStderr x]
            end
         ++ (if ev_panic ev then [ADone] else []).

(* a run: event k uses row k of the outcome matrix *)
Fixpoint run_from (c : cfg) (om : nat -> nat -> outcome) (k : nat) (evs : list event) : list (list action) :=
  match evs with
  | [] => []
  | ev :: t => msg c (om k) ev :: run_from c om (S k) t
  end.

Definition run (c : cfg) (om : nat -> nat -> outcome) (evs : list event) : list (list action) :=
  run_from c om 0%nat evs.

(* what can be seen from outside: everything but the pool *)
Definition observable (a : action) : bool := match a with APut => false | _ => true end.
