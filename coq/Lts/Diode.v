(* Executable LTS of diode/internal/diodes/many_to_one.go (ManyToOne).
   One step = one sync/atomic operation of the Go code together with the
   thread-local code that follows it up to the next atomic operation:

     producer (Set)    AddUint64(&writeIndex,1)            PIdle    -> PClaimed
                       LoadPointer(&buffer[idx]) + the local newer-test
                         seq > writeIndex - uint64(len)    PClaimed -> PLoaded | PIdle (retry)
                       CompareAndSwapPointer(old -> new)   PLoaded  -> PIdle (returned | retry)
     consumer (TryNext) SwapPointer(&buffer[ri % len],nil) + stale / fast-forward /
                         alert logic on the consumer-private readIndex

   uint64 arithmetic is written in: the fetch-add result is [claims mod 2^64]
   ([claims] = number of fetch-adds so far; writeIndex starts at 2^64-1), the
   newer-test computes [(wi + 2^64 - n) mod 2^64] (on the first lap this
   underflows to a huge value and the test can never fire: K3), the read index
   is advanced modulo 2^64.  Buckets are compared by identity in the Go code;
   a bucket is identified here by its seq, which is unique as long as the
   counter has not wrapped ([claims < 2^64], a premise of the theorems).

   Ghost fields (never read by the steps, only written): [returned] is the log
   of Writes that returned with the ring position at which they took effect,
   [g_casfail]/[g_newer] count the two "Diode set collision" branches,
   [g_ovl] counts successful CASes that replaced a bucket of larger seq,
   [g_overcap] records that some fetch-add happened while [n] or more claimed
   positions were outstanding ([claims - ri >= n]). *)
From Verif Require Import Base.Prelude.
Open Scope N_scope.

Definition bucket := (N * N)%type.           (* seq, message id *)

Inductive pstate :=
| PIdle (todo : list N)                                        (* next: AddUint64 for the head of todo *)
| PClaimed (m : N) (todo : list N) (wi : N)                    (* next: LoadPointer + newer-test *)
| PLoaded (m : N) (todo : list N) (wi : N) (old : option bucket). (* next: CompareAndSwapPointer *)

Record st := {
  claims : N;
  slots : list (option bucket);
  ri : N;
  prods : list pstate;
  delivered : list bucket;
  alerts : list N;
  returned : list bucket;
  g_casfail : N;
  g_newer : N;
  g_ovl : N;
  g_overcap : bool }.

(* step labels: what the instrumented real code logs for the same step *)
Inductive lbl :=
| LAdd (wi : N)
| LLoad (old : option N)
| LCas (ok : bool)
| LSwap (got : option N).

Definition size (s : st) : N := N.of_nat (length (slots s)).
Definition slot_at (s : st) (i : N) : option bucket := nth (N.to_nat i) (slots s) None.

Definition beq (a b : option bucket) : bool :=
  match a, b with
  | None, None => true
  | Some (x, _), Some (y, _) => x =? y
  | _, _ => false
  end.

Definition oseq (o : option bucket) : option N := match o with Some (sq, _) => Some sq | None => None end.

(* the comparison in Set:  old.seq > writeIndex - uint64(len(d.buffer)) *)
Definition newer_test (n wi : N) (old : option bucket) : bool :=
  match old with
  | Some (sq, _) => (wi + two64 - n) mod two64 <? sq
  | None => false
  end.

Definition set_prod (s : st) (p : nat) (x : pstate) : st :=
  {| claims := claims s; slots := slots s; ri := ri s; prods := upd (prods s) p x;
     delivered := delivered s; alerts := alerts s; returned := returned s;
     g_casfail := g_casfail s; g_newer := g_newer s; g_ovl := g_ovl s; g_overcap := g_overcap s |}.

Definition pstep (s : st) (p : nat) : option (lbl * st) :=
  match nth p (prods s) (PIdle []) with
  | PIdle [] => None
  | PIdle (m :: todo) =>
      let wi := claims s mod two64 in
      Some (LAdd wi,
        {| claims := claims s + 1; slots := slots s; ri := ri s;
           prods := upd (prods s) p (PClaimed m todo wi);
           delivered := delivered s; alerts := alerts s; returned := returned s;
           g_casfail := g_casfail s; g_newer := g_newer s; g_ovl := g_ovl s;
           g_overcap := g_overcap s || (size s <=? claims s - ri s) |})
  | PClaimed m todo wi =>
      let old := slot_at s (wi mod size s) in
      if newer_test (size s) wi old then
        Some (LLoad (oseq old),
          {| claims := claims s; slots := slots s; ri := ri s;
             prods := upd (prods s) p (PIdle (m :: todo));
             delivered := delivered s; alerts := alerts s; returned := returned s;
             g_casfail := g_casfail s; g_newer := g_newer s + 1; g_ovl := g_ovl s; g_overcap := g_overcap s |})
      else Some (LLoad (oseq old), set_prod s p (PLoaded m todo wi old))
  | PLoaded m todo wi old =>
      if beq (slot_at s (wi mod size s)) old then
        Some (LCas true,
          {| claims := claims s; slots := upd (slots s) (N.to_nat (wi mod size s)) (Some (wi, m)); ri := ri s;
             prods := upd (prods s) p (PIdle todo);
             delivered := delivered s; alerts := alerts s; returned := returned s ++ [(wi, m)];
             g_casfail := g_casfail s; g_newer := g_newer s;
             g_ovl := g_ovl s + match old with Some (sq, _) => if wi <? sq then 1 else 0 | None => 0 end;
             g_overcap := g_overcap s |})
      else
        Some (LCas false,
          {| claims := claims s; slots := slots s; ri := ri s;
             prods := upd (prods s) p (PIdle (m :: todo));
             delivered := delivered s; alerts := alerts s; returned := returned s;
             g_casfail := g_casfail s + 1; g_newer := g_newer s; g_ovl := g_ovl s; g_overcap := g_overcap s |})
  end.

(* TryNext; the second component of the result says whether data was returned *)
Definition cstep (s : st) : lbl * st * option bucket :=
  let i := N.to_nat (ri s mod size s) in
  match nth i (slots s) None with
  | None => (LSwap None, s, None)
  | Some (sq, m) =>
      let sl := upd (slots s) i None in
      if sq <? ri s then
        (LSwap (Some sq),
         {| claims := claims s; slots := sl; ri := ri s; prods := prods s;
            delivered := delivered s; alerts := alerts s; returned := returned s;
            g_casfail := g_casfail s; g_newer := g_newer s; g_ovl := g_ovl s; g_overcap := g_overcap s |}, None)
      else
        (LSwap (Some sq),
         {| claims := claims s; slots := sl; ri := (sq + 1) mod two64; prods := prods s;
            delivered := delivered s ++ [(sq, m)];
            alerts := if ri s <? sq then alerts s ++ [sq - ri s] else alerts s;
            returned := returned s;
            g_casfail := g_casfail s; g_newer := g_newer s; g_ovl := g_ovl s; g_overcap := g_overcap s |}, Some (sq, m))
  end.

Inductive act := P (p : nat) | C.

Definition step (s : st) (a : act) : option (lbl * st) :=
  match a with
  | P p => pstep s p
  | C => let '(l, s', _) := cstep s in Some (l, s')
  end.

(* a scheduled thread without an enabled step leaves the state unchanged *)
Definition exec1 (s : st) (a : act) : st :=
  match step s a with Some (_, s') => s' | None => s end.

Definition init (n : nat) (ps : list (list N)) : st :=
  {| claims := 0; slots := repeat None n; ri := 0; prods := map PIdle ps;
     delivered := []; alerts := []; returned := [];
     g_casfail := 0; g_newer := 0; g_ovl := 0; g_overcap := false |}.

Definition exec (s : st) (sched : list act) : st := fold_left exec1 sched s.
Definition run (n : nat) (ps : list (list N)) (sched : list act) : st := exec (init n ps) sched.

(* observables *)
Definition pdone (x : pstate) : bool := match x with PIdle [] => true | _ => false end.
Definition producers_done (s : st) : bool := forallb pdone (prods s).
(* the consumer's next TryNext fails: what Next() turns into end-of-stream once the context is done *)
Definition drained (s : st) : bool :=
  match slot_at s (ri s mod size s) with None => true | Some (sq, _) => sq <? ri s end.

(* Close after the last Write returned = run TryNext until it fails; fuel = ring size + 1 suffices
   (every successful TryNext empties one slot and no producer refills) *)
Fixpoint drain (fuel : nat) (s : st) : st :=
  match fuel with
  | O => s
  | S f => let '(_, s', got) := cstep s in match got with Some _ => drain f s' | None => s' end
  end.

Fixpoint rep {A} (k : nat) (x : A) : list A := match k with O => [] | S j => x :: rep j x end.
