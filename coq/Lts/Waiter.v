(* Executable LTS of diode.Writer over a ManyToOne ring (Lts/Diode.v) with the
   Waiter (waiter.go: mutex + condition variable, cancel goroutine) or the
   Poller (poller.go) as fetcher, and Writer.Close (diode.go).
   One step = one primitive operation (atomic op, Mutex.Lock/Unlock,
   Cond.Wait split into "unlock+enqueue" and "wake = re-lock", Cond.Broadcast,
   the non-blocking select on ctx.Done(), time.Sleep, the wrapped writer's
   Write, the blocking receives on ctx.Done() / Writer.done, cancel()).

   Threads: TCons  = Writer.poll (the single consumer)
            TCancel = the goroutine started by NewWaiter (waiter mode only)
            TCloser = the goroutine calling Writer.Close
            TProd p = goroutine p calling Writer.Write for each of its messages.

   The condition variable has an explicit wait set; only the consumer ever
   waits, so the set is the flag carried by [CParked sig]: [CParked false] =
   enqueued, not yet signalled; [CParked true] = signalled, has to re-acquire
   the mutex.  Waiter.Set = ring Set, then Broadcast WITHOUT the mutex. *)
From Verif Require Import Base.Prelude Lts.Diode.
Open Scope N_scope.

Inductive cpc :=
| CLock                 (* waiter: w.mu.Lock() at the top of Next *)
| CTry                  (* TryNext (SwapPointer) *)
| CIsDone               (* select on ctx.Done() after a failed TryNext *)
| CWait                 (* waiter: w.c.Wait(): unlock + enqueue *)
| CParked (sig : bool)  (* waiter: inside Wait; wakes when signalled and the mutex is free *)
| CSleep                (* poller: time.Sleep(interval) *)
| CUnlockD (b : bucket) (* waiter: deferred Unlock, Next returns data *)
| CUnlockNil            (* waiter: deferred Unlock, Next returns nil; poll returns and closes done *)
| CWrite (b : bucket)   (* the wrapped writer's Write *)
| CDone                 (* poll returned, Writer.done closed *)
| CTryLast.             (* the context is done: one more TryNext, so that data set before the cancellation is drained *)

Inductive gpc := GAwait | GLock | GBcast | GUnlock | GDone.
Inductive kpc := KIdle | KAwait | KDone.

Inductive wlbl :=
| WRing (l : lbl)
| WBcast (woken : N)
| WLock | WUnlock | WWait | WWake
| WIsDone | WSleep
| WWrite (m : N)
| WAwait | WClose.

Record wst := {
  d : st;
  waiter : bool;             (* true: Waiter (poll interval 0); false: Poller *)
  gated : bool;              (* the closer calls Close only after every Write returned *)
  mu : bool;                 (* Waiter.mu is held *)
  cons : cpc;
  cg : gpc;
  closer : kpc;
  cancelled : bool;          (* ctx.Done() is closed *)
  pb : list (option N);      (* Some m: producer p is between its successful CAS (message m) and its Broadcast *)
  wreturned : list N;        (* messages whose Writer.Write returned *)
  wdelivered : list N;       (* messages handed to the wrapped writer, in order *)
  g_lost : bool }.           (* ghost: a producer's Broadcast fell between a failed TryNext and the Wait *)

Inductive thr := TCons | TCancel | TCloser | TProd (p : nat).

Definition set_d (w : wst) (x : st) : wst :=
  {| d := x; waiter := waiter w; gated := gated w; mu := mu w; cons := cons w; cg := cg w; closer := closer w;
     cancelled := cancelled w; pb := pb w; wreturned := wreturned w; wdelivered := wdelivered w; g_lost := g_lost w |}.
Definition set_cons (w : wst) (c : cpc) : wst :=
  {| d := d w; waiter := waiter w; gated := gated w; mu := mu w; cons := c; cg := cg w; closer := closer w;
     cancelled := cancelled w; pb := pb w; wreturned := wreturned w; wdelivered := wdelivered w; g_lost := g_lost w |}.
Definition set_mu_cons (w : wst) (m : bool) (c : cpc) : wst :=
  {| d := d w; waiter := waiter w; gated := gated w; mu := m; cons := c; cg := cg w; closer := closer w;
     cancelled := cancelled w; pb := pb w; wreturned := wreturned w; wdelivered := wdelivered w; g_lost := g_lost w |}.
Definition set_mu_cg (w : wst) (m : bool) (g : gpc) : wst :=
  {| d := d w; waiter := waiter w; gated := gated w; mu := m; cons := cons w; cg := g; closer := closer w;
     cancelled := cancelled w; pb := pb w; wreturned := wreturned w; wdelivered := wdelivered w; g_lost := g_lost w |}.

(* Broadcast: every goroutine in the wait set is signalled; returns how many *)
Definition wake (c : cpc) : cpc * N :=
  match c with CParked false => (CParked true, 1) | _ => (c, 0) end.

Definition in_window (c : cpc) : bool := match c with CIsDone | CWait => true | _ => false end.

Definition pb_none (o : option N) : bool := match o with None => true | Some _ => false end.
Definition all_written (w : wst) : bool := producers_done (d w) && forallb pb_none (pb w).

Definition cons_step (w : wst) : option (wlbl * wst) :=
  match cons w with
  | CLock => if mu w then None else Some (WLock, set_mu_cons w true CTry)
  | CTry =>
      let '(l, d', got) := cstep (d w) in
      let w' := set_d w d' in
      Some (WRing l,
            match got with
            | Some b => set_cons w' (if waiter w then CUnlockD b else CWrite b)
            | None => set_cons w' CIsDone
            end)
  | CIsDone =>
      Some (WIsDone,
            if cancelled w then set_cons w CTryLast
            else set_cons w (if waiter w then CWait else CSleep))
  | CWait => Some (WWait, set_mu_cons w false (CParked false))
  | CParked sig => if sig && negb (mu w) then Some (WWake, set_mu_cons w true CTry) else None
  | CSleep => Some (WSleep, set_cons w CTry)
  | CUnlockD b => Some (WUnlock, set_mu_cons w false (CWrite b))
  | CUnlockNil => Some (WUnlock, set_mu_cons w false CDone)
  | CWrite b =>
      Some (WWrite (snd b),
            {| d := d w; waiter := waiter w; gated := gated w; mu := mu w;
               cons := if waiter w then CLock else CTry; cg := cg w; closer := closer w;
               cancelled := cancelled w; pb := pb w; wreturned := wreturned w;
               wdelivered := wdelivered w ++ [snd b]; g_lost := g_lost w |})
  | CDone => None
  | CTryLast =>
      let '(l, d', got) := cstep (d w) in
      let w' := set_d w d' in
      Some (WRing l,
            match got with
            | Some b => set_cons w' (if waiter w then CUnlockD b else CWrite b)
            | None => if waiter w then set_cons w' CUnlockNil else set_cons w' CDone
            end)
  end.

Definition cancel_step (w : wst) : option (wlbl * wst) :=
  match cg w with
  | GAwait => if cancelled w then Some (WAwait, set_mu_cg w (mu w) GLock) else None
  | GLock => if mu w then None else Some (WLock, set_mu_cg w true GBcast)
  | GBcast =>
      let '(c', k) := wake (cons w) in
      Some (WBcast k,
            {| d := d w; waiter := waiter w; gated := gated w; mu := mu w; cons := c'; cg := GUnlock; closer := closer w;
               cancelled := cancelled w; pb := pb w; wreturned := wreturned w; wdelivered := wdelivered w; g_lost := g_lost w |})
  | GUnlock => Some (WUnlock, set_mu_cg w false GDone)
  | GDone => None
  end.

Definition closer_step (w : wst) : option (wlbl * wst) :=
  match closer w with
  | KIdle =>
      if gated w && negb (all_written w) then None
      else Some (WClose,
            {| d := d w; waiter := waiter w; gated := gated w; mu := mu w; cons := cons w; cg := cg w; closer := KAwait;
               cancelled := true; pb := pb w; wreturned := wreturned w; wdelivered := wdelivered w; g_lost := g_lost w |})
  | KAwait =>
      match cons w with
      | CDone => Some (WAwait,
            {| d := d w; waiter := waiter w; gated := gated w; mu := mu w; cons := cons w; cg := cg w; closer := KDone;
               cancelled := cancelled w; pb := pb w; wreturned := wreturned w; wdelivered := wdelivered w; g_lost := g_lost w |})
      | _ => None
      end
  | KDone => None
  end.

Definition last_msg (s : st) : N := match rev (returned s) with (_, m) :: _ => m | [] => 0 end.

Definition prod_step (w : wst) (p : nat) : option (wlbl * wst) :=
  match nth p (pb w) None with
  | Some m =>
    (* Waiter.Set: w.c.Broadcast() after the ring Set returned; then Writer.Write returns *)
    let '(c', k) := wake (cons w) in
    Some (WBcast k,
          {| d := d w; waiter := waiter w; gated := gated w; mu := mu w; cons := c'; cg := cg w; closer := closer w;
             cancelled := cancelled w; pb := upd (pb w) p None;
             wreturned := wreturned w ++ [m];
             wdelivered := wdelivered w; g_lost := g_lost w || in_window (cons w) |})
  | None =>
    match pstep (d w) p with
    | None => None
    | Some (l, d') =>
        let w' := set_d w d' in
        Some (WRing l,
              match l with
              | LCas true =>
                  if waiter w then
                    {| d := d'; waiter := waiter w; gated := gated w; mu := mu w; cons := cons w; cg := cg w; closer := closer w;
                       cancelled := cancelled w; pb := upd (pb w) p (Some (last_msg d')); wreturned := wreturned w;
                       wdelivered := wdelivered w; g_lost := g_lost w |}
                  else
                    {| d := d'; waiter := waiter w; gated := gated w; mu := mu w; cons := cons w; cg := cg w; closer := closer w;
                       cancelled := cancelled w; pb := pb w; wreturned := wreturned w ++ [last_msg d'];
                       wdelivered := wdelivered w; g_lost := g_lost w |}
              | _ => w'
              end)
    end
  end.

Definition wstep (w : wst) (t : thr) : option (wlbl * wst) :=
  match t with
  | TCons => cons_step w
  | TCancel => cancel_step w
  | TCloser => closer_step w
  | TProd p => prod_step w p
  end.

Definition wexec1 (w : wst) (t : thr) : wst := match wstep w t with Some (_, w') => w' | None => w end.
Definition wexec (w : wst) (sched : list thr) : wst := fold_left wexec1 sched w.

Definition winit (wt gt : bool) (n : nat) (ps : list (list N)) : wst :=
  {| d := init n ps; waiter := wt; gated := gt; mu := false;
     cons := if wt then CLock else CTry;
     cg := if wt then GAwait else GDone;
     closer := KIdle; cancelled := false; pb := map (fun _ => None) ps;
     wreturned := []; wdelivered := []; g_lost := false |}.

Definition wrun wt gt n ps sched := wexec (winit wt gt n ps) sched.

Definition enabled (w : wst) (t : thr) : bool := match wstep w t with Some _ => true | None => false end.
