(* Samplers (sampler.go) and the level gate (log.go should).
   Counters are uint32 (wrap written in), clock readings and resetAt are int64
   (wrap of now+Period written in).  Sequential semantics: one [sample] call is
   one Sampler.Sample call; the concurrent BasicSampler is the LTS at the end. *)
From Verif Require Import Base.Prelude Misc.Level.
Open Scope Z_scope.

Inductive sampler :=
| SBasic (n : N) (cnt : N)
| SBurst (burst : N) (period : Z) (next : option sampler) (cnt : N) (resetAt : Z)
| SLevel (t d i w e : option sampler).

Definition inc32 (c : N) : N := ((c + 1) mod two32)%N.

(* BasicSampler.Sample *)
Definition basic_sample (n cnt : N) : bool * N :=
  if (n =? 0)%N then (false, cnt)
  else if (n =? 1)%N then (true, cnt)
  else let c := inc32 cnt in ((c mod n =? 1)%N, c).

(* BurstSampler.inc, sequential: the CAS on resetAt always succeeds *)
Definition burst_inc (period : Z) (cnt : N) (resetAt now : Z) : N * N * Z :=
  if now >=? resetAt then (1%N, 1%N, wrap64 (now + period))
  else let c := inc32 cnt in (c, c, resetAt).

Fixpoint sample (s : sampler) (now : Z) (lvl : level) {struct s} : bool * sampler :=
  match s with
  | SBasic n cnt => let '(r, c) := basic_sample n cnt in (r, SBasic n c)
  | SBurst burst period next cnt resetAt =>
      let sample_next (cnt' : N) (resetAt' : Z) :=
        match next with
        | None => (false, SBurst burst period None cnt' resetAt')
        | Some nx => let '(r, nx') := sample nx now lvl in (r, SBurst burst period (Some nx') cnt' resetAt')
        end in
      if (0 <? burst)%N && (0 <? period) then
        let '(c, cnt', resetAt') := burst_inc period cnt resetAt now in
        if (c <=? burst)%N then (true, SBurst burst period next cnt' resetAt')
        else sample_next cnt' resetAt'
      else sample_next cnt resetAt
  | SLevel t d i w e =>
      let sub (o : option sampler) (rebuild : option sampler -> sampler) :=
        match o with
        | None => (true, s)
        | Some x => let '(r, x') := sample x now lvl in (r, rebuild (Some x'))
        end in
      if lvl =? TraceLevel then sub t (fun x => SLevel x d i w e)
      else if lvl =? DebugLevel then sub d (fun x => SLevel t x i w e)
      else if lvl =? InfoLevel then sub i (fun x => SLevel t d x w e)
      else if lvl =? WarnLevel then sub w (fun x => SLevel t d i x e)
      else if lvl =? ErrorLevel then sub e (fun x => SLevel t d i w x)
      else (true, s)
  end.

(* ---- the level gate: Logger.should ---- *)
Record gate := { g_has_writer : bool; g_level : level; g_global : level;
                 g_sampling_disabled : bool; g_sampler : option sampler }.

Definition set_sampler (g : gate) (s : option sampler) : gate :=
  {| g_has_writer := g_has_writer g; g_level := g_level g; g_global := g_global g;
     g_sampling_disabled := g_sampling_disabled g; g_sampler := s |}.

Definition should (g : gate) (now : Z) (lvl : level) : bool * gate :=
  if negb (g_has_writer g) then (false, g)
  else if (lvl <? g_level g) || (lvl <? g_global g) then (false, g)
  else match g_sampler g with
       | Some s =>
           if g_sampling_disabled g then (true, g)
           else let '(r, s') := sample s now lvl in (r, set_sampler g (Some s'))
       | None => (true, g)
       end.

(* a history is a list of (clock reading, level); the run returns the
   admit/reject decisions in order, and the final state *)
Fixpoint run_gate (g : gate) (h : list (Z * level)) : list bool * gate :=
  match h with
  | [] => ([], g)
  | (now, lvl) :: t =>
      let '(r, g') := should g now lvl in
      let '(rs, g'') := run_gate g' t in (r :: rs, g'')
  end.

Fixpoint run_sampler (s : sampler) (h : list (Z * level)) : list bool * sampler :=
  match h with
  | [] => ([], s)
  | (now, lvl) :: t =>
      let '(r, s') := sample s now lvl in
      let '(rs, s'') := run_sampler s' t in (r :: rs, s'')
  end.

(* ---- concurrent BasicSampler: each Sample is one atomic AddUint32 ---- *)
(* threads hold the number of calls they still have to make; a schedule is a
   list of thread ids; a step by thread [t] performs one whole Sample (the
   method body is a single atomic read-modify-write on the shared counter). *)
Record bstate := { b_cnt : N; b_todo : list nat; b_log : list (nat * bool) }.

Definition bstep (n : N) (s : bstate) (t : nat) : bstate :=
  match nth_error (b_todo s) t with
  | Some (S k) =>
      let '(r, c) := basic_sample n (b_cnt s) in
      {| b_cnt := c; b_todo := upd (b_todo s) t k; b_log := b_log s ++ [(t, r)] |}
  | _ => s
  end.

Definition brun (n : N) (todo : list nat) (sched : list nat) : bstate :=
  fold_left (bstep n) sched {| b_cnt := 0; b_todo := todo; b_log := [] |}.

(* ---- the declarative window specification of BurstSampler ---- *)
(* [win] is the abstract state: end of the current window and the number of
   events seen in it (unbounded).  Initially no window is open (end = 0, which
   is what the zero value of resetAt means: any clock reading >= 0 opens one). *)
Record win := { w_end : Z; w_seen : N }.

Definition win_step (period : Z) (w : win) (now : Z) : win :=
  if now >=? w_end w then {| w_end := now + period; w_seen := 1 |}
  else {| w_end := w_end w; w_seen := (w_seen w + 1)%N |}.

(* spec decision of one event: inside the burst iff its position in its window
   is <= burst; otherwise (or when burst or period is zero) the next sampler
   decides, reject if none *)
Definition burst_in_burst (burst : N) (w : win) : bool := (w_seen w <=? burst)%N.

Fixpoint burst_spec (burst : N) (period : Z) (next : option sampler) (w : win)
         (h : list (Z * level)) : list bool :=
  match h with
  | [] => []
  | (now, lvl) :: t =>
      let w' := win_step period w now in
      if burst_in_burst burst w' then true :: burst_spec burst period next w' t
      else match next with
           | None => false :: burst_spec burst period None w' t
           | Some nx => let '(r, nx') := sample nx now lvl in r :: burst_spec burst period (Some nx') w' t
           end
  end.

(* the premises of the refinement: now+Period does not overflow int64 and no
   window sees 2^32 events or more (the counter is a uint32) *)
Fixpoint burst_ok (period : Z) (w : win) (h : list (Z * level)) : Prop :=
  match h with
  | [] => True
  | (now, _) :: t =>
      let w' := win_step period w now in
      (- two63Z <= now + period < two63Z) /\ (w_seen w' < two32)%N /\ burst_ok period w' t
  end.
