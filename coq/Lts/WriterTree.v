(* Writers built from writers (writer.go, MultiLevelWriter): an argument of
   MultiLevelWriter may itself be the result of an earlier MultiLevelWriter call
   (a service-wide fan-out extended by a per-request destination; a nested
   fan-out), possibly behind SyncWriter / FilteredLevelWriter / LevelWriterAdapter.
   A multiLevelWriter is a LevelWriter, so the outer one calls its WriteLevel (or
   Write) like that of any destination and treats what it returns - (n, err) of
   the inner loop - like the answer of a destination.

   [wtree] is such a writer expression; [tree_call] is what one call does: the
   fake destinations are numbered left to right, the oracle says what each
   does.  [flatten] is the list of destinations with the wrappers met on the way
   down in front of each one's own chain.  Proofs/WriterTreeP.v shows that a
   nested writer is, in calls and in the error it reports, the one-level
   MultiLevelWriter over its flattening (Lts/Writers.v, [multi_write]). *)
From Verif Require Import Base.Prelude Misc.Level Lts.Writers.
Open Scope Z_scope.

Inductive wtree :=
| TDest (d : dest)                                 (* a destination: wrappers over a fake *)
| TMulti (ws : list wrapper) (args : list wtree).  (* ws around MultiLevelWriter(args...) *)

Fixpoint leaves (t : wtree) : nat :=
  match t with
  | TDest _ => 1%nat
  | TMulti _ args => list_sum (map leaves args)
  end.

(* the loop of multiLevelWriter.Write / WriteLevel over arguments of any kind:
   [call a i] is the call of argument a whose first destination has number i *)
Section ArgsLoop.
  Variable A : Type.
  Variable call : A -> nat -> list action * ret.
  Variable size : A -> nat.
  Variable len : Z.
  Fixpoint args_loop (l : list A) (i : nat) (acc : ret) : list action * ret :=
    match l with
    | [] => ([], acc)
    | a :: r =>
        let '(cs, rr) := call a i in
        let '(rest, acc') := args_loop r (i + size a)%nat (acc_step acc rr len) in
        (cs ++ rest, acc')
    end.
End ArgsLoop.

Fixpoint tree_call (t : wtree) (i : nat) (m : mode) (p : bytes) (o : nat -> outcome) : list action * ret :=
  match t with
  | TDest d => dest_call i d m p (o i)
  | TMulti ws args =>
      match through ws m with
      | None => ([], (blen p, None))     (* swallowed by a FilteredLevelWriter: len(p), nil *)
      | Some m' => args_loop wtree (fun a j => tree_call a j m' p o) leaves (blen p) args i (0, None)
      end
  end.

Definition under (ws : list wrapper) (d : dest) : dest :=
  {| d_wraps := ws ++ d_wraps d; d_leaf := d_leaf d |}.

Fixpoint flatten (t : wtree) : list dest :=
  match t with
  | TDest d => [d]
  | TMulti ws args => map (under ws) (flat_map flatten args)
  end.

(* every MultiLevelWriter call in the expression has at least one argument
   (MultiLevelWriter() returns (0, nil) from Write: as an argument of another
   one it is a short write for every non-empty event) *)
Fixpoint nonempty (t : wtree) : bool :=
  match t with
  | TDest _ => true
  | TMulti _ args => match args with [] => false | _ => forallb nonempty args end
  end.
