(* TriggerLevelWriter (writer.go), as implemented:
   - buf holds the held lines as frames: one byte byte(l) followed by the line;
   - trigger() latches [triggered], then re-splits buf on '\n' (bytes.IndexByte),
     takes Level(line[0]) as the level (uint8 -> int8 reinterpretation) and writes
     line[1:] to the destination; it stops at the first destination error;
   - WriteLevel: trigger first if untriggered and l >= TriggerLevel; buffer if
     untriggered and l <= ConditionalLevel; otherwise pass through;
   - Trigger(): trigger(); Close(): the buffer goes back to the pool (the held
     lines are dropped), [triggered] is NOT reset;
   - every exported method runs between w.mu.Lock() and the deferred Unlock.
   The destination is a recorder; a script says which of its calls fail
   (empty script = every call succeeds).  Also: the declarative specification
   the model is proved to refine, and the lock-level LTS of concurrent use. *)
From Verif Require Import Base.Prelude Misc.Level.
Open Scope Z_scope.

Definition bytes := list N.
Definition blen (p : bytes) : Z := Z.of_nat (length p).

(* byte(l) for l : Level (int8), and Level(b) for b : byte *)
Definition level_byte (l : level) : N := Z.to_N (to_u8 l).
Definition byte_level (b : N) : level := to_i8 (Z.of_N b).

Record tcfg := {
  t_cond : level;     (* ConditionalLevel *)
  t_trig : level;     (* TriggerLevel *)
  t_lw : bool         (* the destination implements LevelWriter (WriteLevel is used) *)
}.

(* one call received by the destination: WriteLevel(l, p) or Write(p) *)
Definition dcall := (option level * bytes)%type.
Definition dest_write (lw : bool) (l : level) (p : bytes) : dcall := (if lw then Some l else None, p).

(* destination behaviour: per call, None = success, Some e = error value e *)
Definition script := list (option N).
Definition next_outcome (sc : script) : option N * script :=
  match sc with [] => (None, []) | o :: t => (o, t) end.

Record tstate := {
  s_buf : option bytes;      (* nil or the pooled buffer's content *)
  s_triggered : bool;
  s_script : script
}.

Definition init (sc : script) : tstate := {| s_buf := None; s_triggered := false; s_script := sc |}.

(* i := bytes.IndexByte(p, '\n'); (p[0:i+1], p[i+1:]); None when there is no newline *)
Fixpoint split_nl (p : bytes) : option (bytes * bytes) :=
  match p with
  | [] => None
  | b :: t =>
      if (b =? 10)%N then Some ([b], t)
      else match split_nl t with
           | Some (l, r) => Some (b :: l, r)
           | None => None
           end
  end.

Inductive tres :=
| TOk
| TErr (e : N)      (* the destination's error is returned *)
| TPanic.           (* index out of range: no newline left, line = p[0:0], line[0] *)

(* the loop of trigger(): [for len(p) > 0 { ... }]; fuel = length p suffices
   (Proofs/TriggerP.v, flush_fuel) *)
Fixpoint flush (fuel : nat) (lw : bool) (p : bytes) (sc : script) : list dcall * tres * script :=
  match fuel with
  | O => ([], TOk, sc)
  | S f =>
      match p with
      | [] => ([], TOk, sc)
      | _ :: _ =>
          match split_nl p with
          | None => ([], TPanic, sc)
          | Some (line, rest) =>
              match line with
              | [] => ([], TPanic, sc)
              | b :: body =>
                  let c := dest_write lw (byte_level b) body in
                  let '(o, sc') := next_outcome sc in
                  match o with
                  | Some e => ([c], TErr e, sc')
                  | None => let '(cs, r, sc'') := flush f lw rest sc' in (c :: cs, r, sc'')
                  end
              end
          end
      end
  end.

(* trigger(), lock held *)
Definition trigger (c : tcfg) (s : tstate) : tstate * list dcall * tres :=
  if s_triggered s then (s, [], TOk)
  else match s_buf s with
       | None => ({| s_buf := None; s_triggered := true; s_script := s_script s |}, [], TOk)
       | Some p =>
           let '(cs, r, sc) := flush (length p) (t_lw c) p (s_script s) in
           ({| s_buf := Some p; s_triggered := true; s_script := sc |}, cs, r)
       end.

(* what a method returns *)
Inductive mret :=
| ROk (n : Z)          (* (n, nil) / nil *)
| RErr (n : Z) (e : N) (* (n, err) / err *)
| RPanic.

Definition write_level (c : tcfg) (s : tstate) (l : level) (p : bytes) : tstate * list dcall * mret :=
  let '(s1, cs1, r1) :=
    if negb (s_triggered s) && (l >=? t_trig c) then trigger c s else (s, [], TOk) in
  match r1 with
  | TErr e => (s1, cs1, RErr 0 e)
  | TPanic => (s1, cs1, RPanic)
  | TOk =>
      if negb (s_triggered s1) && (l <=? t_cond c) then
        let old := match s_buf s1 with Some b => b | None => [] end in
        ({| s_buf := Some (old ++ level_byte l :: p); s_triggered := s_triggered s1; s_script := s_script s1 |},
         cs1, ROk (blen p))
      else
        let '(o, sc') := next_outcome (s_script s1) in
        ({| s_buf := s_buf s1; s_triggered := s_triggered s1; s_script := sc' |},
         cs1 ++ [dest_write (t_lw c) l p],
         match o with None => ROk (blen p) | Some e => RErr 0 e end)
  end.

Inductive op := OWrite (l : level) (p : bytes) | OTrigger | OClose.

Definition step (c : tcfg) (s : tstate) (o : op) : tstate * list dcall * mret :=
  match o with
  | OWrite l p => write_level c s l p
  | OTrigger =>
      let '(s1, cs, r) := trigger c s in
      (s1, cs, match r with TOk => ROk 0 | TErr e => RErr 0 e | TPanic => RPanic end)
  | OClose =>
      ({| s_buf := None; s_triggered := s_triggered s; s_script := s_script s |}, [], ROk 0)
  end.

(* a history; per operation: the destination calls made during it, and its result *)
Fixpoint run (c : tcfg) (s : tstate) (h : list op) : list (list dcall * mret) * tstate :=
  match h with
  | [] => ([], s)
  | o :: t =>
      let '(s1, cs, r) := step c s o in
      let '(rs, s2) := run c s1 t in ((cs, r) :: rs, s2)
  end.

(* ------------------------------------------------------------------ *)
(* the declarative specification (the property text as a state machine) *)
(* ------------------------------------------------------------------ *)
(* held: the lines held back so far, oldest first; fired: the trigger happened.
   - a line arriving after the trigger is written at once;
   - the first line at or above TriggerLevel releases the held lines, in order,
     with their levels, followed by that line;
   - otherwise a line at or below ConditionalLevel is held, any other line is
     written at once;
   - Trigger() releases the held lines; Close() discards them. *)
Record sstate := { held : list (level * bytes); fired : bool }.
Definition sinit : sstate := {| held := []; fired := false |}.

Definition spec_step (cond trig : level) (s : sstate) (o : op) : sstate * list (level * bytes) :=
  match o with
  | OWrite l p =>
      if fired s then (s, [(l, p)])
      else if l >=? trig then ({| held := []; fired := true |}, held s ++ [(l, p)])
      else if l <=? cond then ({| held := held s ++ [(l, p)]; fired := false |}, [])
      else (s, [(l, p)])
  | OTrigger =>
      if fired s then (s, []) else ({| held := []; fired := true |}, held s)
  | OClose => ({| held := []; fired := fired s |}, [])
  end.

Fixpoint spec_run (cond trig : level) (s : sstate) (h : list op) : list (list (level * bytes)) * sstate :=
  match h with
  | [] => ([], s)
  | o :: t =>
      let '(s1, out) := spec_step cond trig s o in
      let '(outs, s2) := spec_run cond trig s1 t in (out :: outs, s2)
  end.

(* the histories the property quantifies over: every written line is
   newline-terminated without interior newline, its level is an int8 other than 10 *)
Definition line_ok (p : bytes) : Prop := exists body, p = body ++ [10%N] /\ ~ In 10%N body.
Definition op_ok (o : op) : Prop :=
  match o with
  | OWrite l p => level_ok l /\ l <> 10 /\ line_ok p
  | _ => True
  end.

(* ------------------------------------------------------------------ *)
(* concurrent use: every exported method is  mu.Lock(); body; mu.Unlock() *)
(* ------------------------------------------------------------------ *)
(* A thread is a program: the list of operations it still has to perform, the
   head being the one in progress.  A schedule is a list of thread ids;
   scheduling thread t lets it take one step of its current method:
     - w.mu is free: Lock() succeeds (the acquisition order is recorded);
     - t holds w.mu and has not run the body: the whole body runs - the only
       place where the shared state and the destination are touched;
     - t holds w.mu and the body has run: the deferred Unlock(), the method returns;
     - another thread holds w.mu: t stays blocked in Lock(), nothing happens.
   What this assumes: sync.Mutex provides mutual exclusion and its Unlock
   happens-before the next Lock (Go memory model), so that the state seen by a
   body is the state left by the previous holder; and the bodies are exactly what
   lies between w.mu.Lock() and the deferred w.mu.Unlock() in writer.go
   (WriteLevel, Trigger, Close; trigger() is only called from them). *)
Record cstate := {
  cs_state : tstate;
  cs_lock : option (nat * bool);             (* holder of w.mu; has its body run? *)
  cs_progs : list (list op);
  cs_log : list (nat * list dcall * mret);   (* per completed body: thread, destination calls, result *)
  cs_acq : list (nat * op)                   (* lock-acquisition order *)
}.

Definition cstep (c : tcfg) (st : cstate) (t : nat) : cstate :=
  match nth_error (cs_progs st) t with
  | Some (o :: rest) =>
      match cs_lock st with
      | None =>
          {| cs_state := cs_state st; cs_lock := Some (t, false); cs_progs := cs_progs st;
             cs_log := cs_log st; cs_acq := cs_acq st ++ [(t, o)] |}
      | Some (t', ran) =>
          if Nat.eqb t' t then
            if ran then
              {| cs_state := cs_state st; cs_lock := None; cs_progs := upd (cs_progs st) t rest;
                 cs_log := cs_log st; cs_acq := cs_acq st |}
            else
              let '(s1, calls, r) := step c (cs_state st) o in
              {| cs_state := s1; cs_lock := Some (t, true); cs_progs := cs_progs st;
                 cs_log := cs_log st ++ [(t, calls, r)]; cs_acq := cs_acq st |}
          else st
      end
  | _ => st
  end.

Definition cinit (sc : script) (progs : list (list op)) : cstate :=
  {| cs_state := init sc; cs_lock := None; cs_progs := progs; cs_log := []; cs_acq := [] |}.

Definition crun (c : tcfg) (sc : script) (progs : list (list op)) (sched : list nat) : cstate :=
  fold_left (cstep c) sched (cinit sc progs).

(* the operations thread t performed, in the order it acquired the lock for them *)
Definition ops_of (t : nat) (acq : list (nat * op)) : list op :=
  map snd (filter (fun x => Nat.eqb (fst x) t) acq).
