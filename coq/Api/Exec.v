(* Programs over the Event / Context / Array / Fields API and their execution on
   byte buffers, parametric in nothing: this is the JSON build (enc = the
   internal/json encoder, Enc/JsonEnc.v).  Mirrors event.go, context.go,
   array.go, fields.go, log.go newEvent and write().  No proofs here.

   A program is data: marshalers (LogObjectMarshaler, LogArrayMarshaler), hooks
   and Func callbacks are program fragments, because they can act on an event
   only through its API.  Values carry the Go standard library's answers as
   oracle texts (see Enc/JsonEnc.v). *)
From Verif Require Import Base.Prelude Base.Decimal Enc.JsonEnc Misc.Level.
Open Scope N_scope.

(* ---------------- values of the regular (key, primitive) methods ---------------- *)
Inductive prim :=
| PStr (s : bytes)                 (* AppendString: Str, Stringer(non-nil), Type, IPAddr, IPPrefix, MACAddr, error text, caller text *)
| PBytes (s : bytes)
| PHex (s : bytes)
| PStrs (l : list bytes)
| PStringer (o : option bytes)
| PStringers (l : list (option bytes))
| PBool (b : bool) | PBools (l : list bool)
| PInt (z : Z) | PInts (l : list Z)          (* every signed width: AppendInt(int64(v)) *)
| PUint (n : N) | PUints (l : list N)        (* every unsigned width *)
| PF32 (f : fval) | PF64 (f : fval) | PFs32 (l : list fval) | PFs64 (l : list fval)
| PTime (t : tval) | PTimes (l : list tval)
| PDur (d : dval) | PDurs (l : list dval)
| PIface (r : ifaceres)
| PRawJSON (b : bytes)
| PRawCBOR (b64 : bytes)
| PNil.

(* global settings in force (globals.go) *)
Record settings := {
  s_level_name : bytes; s_message_name : bytes; s_error_name : bytes; s_stack_name : bytes;
  s_timestamp_name : bytes; s_caller_name : bytes;
  s_timefmt : timefmt; s_dur_unit : Z; s_dur_int : bool; s_prec : Z;
  s_nil_iface : ifaceres;                  (* InterfaceMarshalFunc(nil) *)
  s_level_text : level -> bytes;           (* LevelFieldMarshalFunc *)
  s_stack_marshaler : bool                 (* ErrorStackMarshaler != nil *)
}.

Definition append_prim (st : settings) (dst : bytes) (p : prim) : bytes :=
  match p with
  | PStr s => AppendString dst s
  | PBytes s => AppendBytes dst s
  | PHex s => AppendHex dst s
  | PStrs l => AppendStrings dst l
  | PStringer o => AppendStringer dst o nil_stringer_iface
  | PStringers l => AppendStringers dst l nil_stringer_iface
  | PBool b => AppendBool dst b
  | PBools l => AppendBools dst l
  | PInt z => AppendInt dst z
  | PInts l => AppendInts dst l
  | PUint n => AppendUint dst n
  | PUints l => AppendUints dst l
  | PF32 f => AppendFloat32 dst f (s_prec st)
  | PF64 f => AppendFloat64 dst f (s_prec st)
  | PFs32 l => AppendFloats32 dst l (s_prec st)
  | PFs64 l => AppendFloats64 dst l (s_prec st)
  | PTime t => AppendTime dst t (s_timefmt st)
  | PTimes l => AppendTimes dst l (s_timefmt st)
  | PDur d => AppendDuration dst d (s_dur_unit st) (s_dur_int st) (s_prec st)
  | PDurs l => AppendDurations dst l (s_dur_unit st) (s_dur_int st) (s_prec st)
  | PIface r => AppendInterface dst r
  | PRawJSON b => appendJSON dst b
  | PRawCBOR b => appendCBOR dst b
  | PNil => AppendNil dst
  end.

(* what ErrorMarshalFunc(err) / ErrorStackMarshaler(err) yields, resolved by
   the type switch that consumes it *)
Inductive errv (A : Type) :=
| ENil                 (* nil interface *)
| ETypedNil            (* an error (or Stringer...) whose value part is nil *)
| EObj (fs : A)        (* a LogObjectMarshaler *)
| EText (s : bytes)    (* a non-nil error (its Error() text) or a string *)
| EIface (r : ifaceres). (* anything else: goes to Interface *)
Arguments ENil {A}. Arguments ETypedNil {A}. Arguments EObj {A}. Arguments EText {A}. Arguments EIface {A}.

(* values Fields() can meet besides the regular primitives *)
Inductive fieldval (A : Type) :=
| FVPrim (p : prim)            (* every simple case of the type switch, nil, typed nil pointers (= PNil), default (= PIface) *)
| FVObj (fs : A)               (* a LogObjectMarshaler value *)
| FVErr (e : errv A) (stk : errv A)   (* an error value; stk = ErrorStackMarshaler(err) (consulted only when stack is on and the marshaler is set) *)
| FVErrs (es : list (errv A)).
Arguments FVPrim {A}. Arguments FVObj {A}. Arguments FVErr {A}. Arguments FVErrs {A}.

(* one op = one API call on an Event, a Context or an Array *)
Inductive op :=
(* on Event and Context *)
| OKey (key : bytes) (p : prim)                     (* every regular method: Str, Int8, Floats32, Time, IPAddr, ... *)
| ODict (key : bytes) (fs : list op)                (* Dict(key, zerolog.Dict()...) *)
| OArray (key : bytes) (es : list op)               (* Array(key, zerolog.Arr()... or a LogArrayMarshaler) *)
| OObject (key : bytes) (o : option (list op))      (* Object(key, obj); None: nil obj *)
| OEmbed (o : option (list op))                     (* EmbedObject *)
| OFields (kvs : list (option bytes * fieldval (list op)))  (* Fields(slice or sorted map); None key: a non-string key, skipped *)
| OAnErr (key : bytes) (e : errv (list op))
| OErr (e : errv (list op)) (stk : errv (list op))  (* Err(err); stk = ErrorStackMarshaler(err) *)
| OErrs (key : bytes) (es : list (errv (list op)))
| OStack
| OFunc (fs : list op)                              (* Func(f): runs f only on an enabled event *)
| OTimestamp (t : tval)                             (* Timestamp(): TimestampFunc() answered t *)
| OCaller (r : option bytes)                        (* Caller(): runtime.Caller ok? and the CallerMarshalFunc text *)
| OMark (id : N)                                    (* no API call: a hook / callback noting that it ran *)
| ODiscard                                          (* Discard() - last op of its fragment *)
(* on Array *)
| AElem (p : prim)                                  (* Str, Int, ..., Interface(non-marshaler), RawJSON *)
| AObj (fs : list op)                               (* Object(marshaler) / Interface(marshaler) *)
| ADict (fs : list op)
| AErr (e : errv (list op)).

(* event state while it is being built *)
Record ev := { e_buf : bytes; e_stack : bool; e_discarded : bool; e_marks : list N }.
Definition set_buf (e : ev) (b : bytes) : ev :=
  {| e_buf := b; e_stack := e_stack e; e_discarded := e_discarded e; e_marks := e_marks e |}.

(* a fresh helper event as newEvent leaves it: "{" and stack off; marks are
   the global trace, threaded through *)
Definition fresh (marks : list N) : ev := {| e_buf := AppendBeginMarker []; e_stack := false; e_discarded := false; e_marks := marks |}.

Section Exec.
  Variable st : settings.

  Definition key_prim (e : ev) (key : bytes) (p : prim) : ev := set_buf e (append_prim st (AppendKey (e_buf e) key) p).

  (* The helpers below are parametric in [ex], the executor of one op on an
     event; [exec] ties the knot.  This keeps every helper a plain list
     recursion that can be reasoned about on its own. *)
  Section WithEx.
    Variable ex : op -> ev -> ev.

    Fixpoint run_list (l : list op) (e : ev) : ev :=
      match l with [] => e | o :: t => run_list t (ex o e) end.

    (* a marshaler's fragment run on a fresh helper event (Dict(), newEvent(nil,0)
       with buf[:0] + appendObject, ...): its bytes "{" fields "}" and the marks *)
    Definition sub_object (fs : list op) (marks : list N) : bytes * list N :=
      let e' := run_list fs (fresh marks) in (AppendEndMarker (e_buf e'), e_marks e').

    (* the value an error turns into when it is written as an element/value at [dst] *)
    Definition errv_value (dst : bytes) (marks : list N) (x : errv (list op)) : bytes * list N :=
      match x with
      | EObj fs => let '(b, m) := sub_object fs marks in (dst ++ b, m)
      | ETypedNil => (AppendNil dst, marks)
      | EText s => (AppendString dst s, marks)
      | ENil => (AppendInterface dst (s_nil_iface st), marks)
      | EIface r => (AppendInterface dst r, marks)
      end.

    (* one Array method on the array buffer *)
    Definition arr_op (o : op) (a : bytes * list N) : bytes * list N :=
      let '(buf, marks) := a in
      match o with
      | AElem p => (append_prim st (AppendArrayDelim buf) p, marks)
      | AObj fs | ADict fs => let '(b, m) := sub_object fs marks in (AppendArrayDelim buf ++ b, m)
      | AErr x => errv_value (AppendArrayDelim buf) marks x
      | _ => a
      end.
    Definition arr_list (l : list op) (a : bytes * list N) : bytes * list N := fold_left (fun a o => arr_op o a) l a.

    (* Array.write: "[" buf "]" *)
    Definition array_bytes (es : list op) (marks : list N) : bytes * list N :=
      let '(b, m) := arr_list es ([], marks) in (AppendArrayEnd (AppendArrayStart [] ++ b), m).

    (* Errs: arr := Arr(); per error Object / Err / Str / Interface *)
    Definition errs_bytes (es : list (errv (list op))) (marks : list N) : bytes * list N :=
      let '(b, m) := fold_left (fun a x => errv_value (AppendArrayDelim (fst a)) (snd a) x) es ([], marks) in
      (AppendArrayEnd (AppendArrayStart [] ++ b), m).

    (* the []error case of Fields: "[" e1 "," e2 ... "]" appended to dst *)
    Fixpoint fields_errs (l : list (errv (list op))) (first : bool) (d : bytes) (m : list N) : bytes * list N :=
      match l with
      | [] => (d, m)
      | x :: t =>
          let '(d1, m1) := errv_value (if first then d else AppendArrayDelim d) m x in
          fields_errs t false d1 m1
      end.

    Definition field_value (stack : bool) (dst : bytes) (marks : list N) (v : fieldval (list op)) : bytes * list N :=
      match v with
      | FVPrim p => (append_prim st dst p, marks)
      | FVObj fs => let '(b, m) := sub_object fs marks in (dst ++ b, m)
      | FVErr x stk =>
          let '(d1, m1) := errv_value dst marks x in
          if stack && s_stack_marshaler st then
            match stk with
            | ENil | ETypedNil | EObj _ => (d1, m1)   (* EObj: not produced for Fields (its switch has no marshaler case) *)
            | EText s => (AppendString (AppendKey d1 (s_stack_name st)) s, m1)
            | EIface r => (AppendInterface (AppendKey d1 (s_stack_name st)) r, m1)
            end
          else (d1, m1)
      | FVErrs es => let '(d1, m1) := fields_errs es true (AppendArrayStart dst) marks in (AppendArrayEnd d1, m1)
      end.

    Fixpoint fields (stack : bool) (l : list (option bytes * fieldval (list op))) (buf : bytes) (marks : list N) : bytes * list N :=
      match l with
      | [] => (buf, marks)
      | (None, _) :: t => fields stack t buf marks
      | (Some key, v) :: t =>
          let '(dst', marks') := field_value stack (AppendKey buf key) marks v in
          fields stack t dst' marks'
      end.

    (* Object(key, obj) / appendObject on the event itself: the marshaler sees the same event *)
    Definition object_on (e : ev) (key : bytes) (fs : list op) : ev :=
      let e' := run_list fs (set_buf e (AppendBeginMarker (AppendKey (e_buf e) key))) in
      set_buf e' (AppendEndMarker (e_buf e')).

    (* AnErr's switch *)
    Definition an_err (e : ev) (key : bytes) (x : errv (list op)) : ev :=
      match x with
      | ENil | ETypedNil => e
      | EObj fs => object_on e key fs
      | EText s => key_prim e key (PStr s)
      | EIface r => key_prim e key (PIface r)
      end.

    Definition with_buf_marks (e : ev) (bm : bytes * list N) : ev :=
      {| e_buf := fst bm; e_stack := e_stack e; e_discarded := e_discarded e; e_marks := snd bm |}.

    Definition exec_body (o : op) (e : ev) : ev :=
      match o with
      | OKey key p => key_prim e key p
      | ODict key fs =>
          let '(b, m) := sub_object fs (e_marks e) in with_buf_marks e (AppendKey (e_buf e) key ++ b, m)
      | OArray key es =>
          let '(b, m) := array_bytes es (e_marks e) in with_buf_marks e (AppendKey (e_buf e) key ++ b, m)
      | OObject key None => set_buf e (AppendNil (AppendKey (e_buf e) key))
      | OObject key (Some fs) => object_on e key fs
      | OEmbed None => e
      | OEmbed (Some fs) => run_list fs e
      | OFields kvs => with_buf_marks e (fields (e_stack e) kvs (e_buf e) (e_marks e))
      | OAnErr key x => an_err e key x
      | OErr x stk =>
          let e1 :=
            if e_stack e && s_stack_marshaler st then
              match stk with
              | ENil | ETypedNil => e
              | EObj fs => object_on e (s_stack_name st) fs
              | EText s => key_prim e (s_stack_name st) (PStr s)
              | EIface r => key_prim e (s_stack_name st) (PIface r)
              end
            else e in
          an_err e1 (s_error_name st) x
      | OErrs key es =>
          let '(b, m) := errs_bytes es (e_marks e) in with_buf_marks e (AppendKey (e_buf e) key ++ b, m)
      | OStack => {| e_buf := e_buf e; e_stack := true; e_discarded := e_discarded e; e_marks := e_marks e |}
      | OFunc fs => if e_discarded e then e else run_list fs e
      | OTimestamp t => key_prim e (s_timestamp_name st) (PTime t)
      | OCaller None => e
      | OCaller (Some txt) => key_prim e (s_caller_name st) (PStr txt)
      | OMark id => {| e_buf := e_buf e; e_stack := e_stack e; e_discarded := e_discarded e; e_marks := e_marks e ++ [id] |}
      | ODiscard => {| e_buf := e_buf e; e_stack := e_stack e; e_discarded := true; e_marks := e_marks e |}
      | AElem _ | AObj _ | ADict _ | AErr _ => e
      end.
  End WithEx.

  (* executing with fuel: [exec_n n] handles programs of nesting depth < n; an
     exhausted fuel leaves the event untouched (never reached when n > depth,
     see [exec_fuel_enough] in Proofs/FuelP.v) *)
  Fixpoint exec_n (n : nat) (o : op) (e : ev) : ev :=
    match n with
    | O => e
    | S n' => exec_body (exec_n n') o e
    end.

  (* nesting depth *)
  Fixpoint depth (o : op) : nat :=
    let dl := fix dl (l : list op) : nat := match l with [] => O | x :: t => Nat.max (depth x) (dl t) end in
    let de (x : errv (list op)) : nat := match x with EObj fs => dl fs | _ => O end in
    let del := fix del (l : list (errv (list op))) : nat := match l with [] => O | x :: t => Nat.max (de x) (del t) end in
    S (match o with
       | ODict _ fs | OArray _ fs | OObject _ (Some fs) | OEmbed (Some fs) | OFunc fs | AObj fs | ADict fs => dl fs
       | OFields kvs =>
           (fix dk (l : list (option bytes * fieldval (list op))) : nat :=
              match l with
              | [] => O
              | (_, v) :: t =>
                  Nat.max (match v with FVPrim _ => O | FVObj fs => dl fs | FVErr x s => Nat.max (de x) (de s) | FVErrs es => del es end) (dk t)
              end) kvs
       | OAnErr _ x | AErr x => de x
       | OErr x s => Nat.max (de x) (de s)
       | OErrs _ es => del es
       | _ => O
       end).
  Definition depth_list (l : list op) : nat := fold_right (fun o d => Nat.max (depth o) d) O l.

  Definition exec (o : op) (e : ev) : ev := exec_n (depth o) o e.
  Definition exec_list (l : list op) (e : ev) : ev := run_list (exec_n (depth_list l)) l e.

  (* ---------------- loggers and whole events ---------------- *)
  (* a hook is a fragment run on the event (Timestamp()/Caller() on Context are such hooks) *)
  Record logger := { l_context : bytes; l_hooks : list (list op); l_stack : bool }.
  Definition root : logger := {| l_context := []; l_hooks := []; l_stack := false |}.

  (* Logger.newEvent for an admitted event of level [lvl] (NoLevel = 6): level field, context splice, stack *)
  Definition new_event (l : logger) (lvl : level) (marks : list N) : ev :=
    let e0 := fresh marks in
    let e1 := if negb (lvl =? NoLevel)%Z && negb (match s_level_name st with [] => true | _ => false end)
              then key_prim e0 (s_level_name st) (PStr (s_level_text st lvl)) else e0 in
    let e2 := if (1 <? N.of_nat (length (l_context l))) then set_buf e1 (AppendObjectData (e_buf e1) (l_context l)) else e1 in
    {| e_buf := e_buf e2; e_stack := l_stack l; e_discarded := false; e_marks := e_marks e2 |}.

  (* Event.msg + write(): hooks in order, message, end marker, line break.
     Result: None = not written (discarded), Some line = the single Write argument *)
  Definition finish (l : logger) (e : ev) (msg : bytes) : option bytes * list N :=
    let e1 := fold_left (fun e h => exec_list h e) (l_hooks l) e in
    let e2 := match msg with [] => e1 | _ => key_prim e1 (s_message_name st) (PStr msg) end in
    if e_discarded e2 then (None, e_marks e2)
    else (Some (AppendLineBreak (AppendEndMarker (e_buf e2))), e_marks e2).

  Definition run_event (l : logger) (lvl : level) (fs : list op) (msg : bytes) : option bytes * list N :=
    finish l (exec_list fs (new_event l lvl [])) msg.

  (* ---------------- Context (With()...Logger()) ---------------- *)
  (* With(): copy of the context, or "{" if the parent has none *)
  Definition with_ (l : logger) : logger :=
    {| l_context := match l_context l with [] => AppendBeginMarker [] | c => c end; l_hooks := l_hooks l; l_stack := l_stack l |}.

  (* Context methods mirror the Event ones on l.context; the differences are
     written out: Object/EmbedObject go through a helper event and
     AppendObjectData, Errs treats a nil error inline, Timestamp/Caller add
     hooks, Reset. [ctx_op] runs an [op] on the context buffer by running it as
     an event op on an event whose buffer is the context. *)
  Inductive cop :=
  | COp (o : op)                        (* ops whose Context method is the same code on l.context: OKey ODict OArray OFields OStack *)
  | CAnErr (key : bytes) (x : errv (list op))
  | CErr (x : errv (list op)) (stk : errv (list op))
  | CErrs (key : bytes) (es : list (errv (list op)))
  | CObject (key : bytes) (o : option (list op))
  | CEmbed (o : option (list op))
  | CHook (h : list op)                 (* Timestamp() / Caller() / Logger.Hook(h) *)
  | CReset.

  Definition ctx_set (l : logger) (b : bytes) : logger := {| l_context := b; l_hooks := l_hooks l; l_stack := l_stack l |}.
  Definition ctx_object (l : logger) (key : bytes) (o : option (list op)) : logger :=
    let e := exec (OObject key o) (fresh []) in ctx_set l (AppendObjectData (l_context l) (e_buf e)).
  Definition ctx_key_prim (l : logger) (key : bytes) (p : prim) : logger :=
    ctx_set l (append_prim st (AppendKey (l_context l) key) p).
  Definition ctx_an_err (l : logger) (key : bytes) (x : errv (list op)) : logger :=
    match x with
    | ENil | ETypedNil => l
    | EObj fs => ctx_object l key (Some fs)
    | EText s => ctx_key_prim l key (PStr s)
    | EIface r => ctx_key_prim l key (PIface r)
    end.

  Definition ctx_exec (c : cop) (l : logger) : logger :=
    match c with
    | COp o =>
        let e := exec o {| e_buf := l_context l; e_stack := l_stack l; e_discarded := false; e_marks := [] |} in
        {| l_context := e_buf e; l_hooks := l_hooks l; l_stack := e_stack e |}
    | CAnErr key x => ctx_an_err l key x
    | CErr x stk =>
        let l1 :=
          if l_stack l && s_stack_marshaler st then
            match stk with
            | ENil | ETypedNil => l
            | EObj fs => ctx_object l (s_stack_name st) (Some fs)
            | EText s => ctx_key_prim l (s_stack_name st) (PStr s)
            | EIface r => ctx_key_prim l (s_stack_name st) (PIface r)
            end
          else l in
        ctx_an_err l1 (s_error_name st) x
    | CErrs key es =>
        (* Context.Errs: a nil-valued error goes to Interface(nil), not AppendNil *)
        let es' := map (fun x => match x with ETypedNil => ENil | y => y end) es in
        let e := exec (OErrs key es') {| e_buf := l_context l; e_stack := l_stack l; e_discarded := false; e_marks := [] |} in
        ctx_set l (e_buf e)
    | CObject key o => ctx_object l key o
    | CEmbed o =>
        let e := exec (OEmbed o) (fresh []) in
        if (1 <? N.of_nat (length (e_buf e)))
        then {| l_context := AppendObjectData (l_context l) (e_buf e); l_hooks := l_hooks l; l_stack := l_stack l |}
        else l
    | CHook h => {| l_context := l_context l; l_hooks := l_hooks l ++ [h]; l_stack := l_stack l |}
    | CReset => {| l_context := AppendBeginMarker []; l_hooks := l_hooks l; l_stack := l_stack l |}
    end.

  Definition derive (l : logger) (cs : list cop) : logger := fold_left (fun l c => ctx_exec c l) cs (with_ l).

  (* UpdateContext(f): f's context edits are kept, hooks / stack set inside f are dropped
     (the code copies only c.l.context back) *)
  Definition update_ctx (l : logger) (cs : list cop) : logger :=
    let l1 := fold_left (fun l c => ctx_exec c l) cs (with_ l) in
    {| l_context := l_context l1; l_hooks := l_hooks l; l_stack := l_stack l |}.

  Definition step (l : logger) (s : bool * list cop) : logger :=
    if fst s then update_ctx l (snd s) else derive l (snd s).

  (* a derivation chain from the root, then one event *)
  Definition run_chain (chain : list (bool * list cop)) (lvl : level) (fs : list op) (msg : bytes) : option bytes * list N :=
    run_event (fold_left step chain root) lvl fs msg.
End Exec.
