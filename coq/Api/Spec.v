(* Declarative specification of what a logging program denotes: the ordered
   list of (key, value) members of the emitted JSON object, as abstract values
   [jv] (Base/JsonSpec.v).  This is the reference the theorems of C01/C02/C03
   compare the encoder against; it mentions no bytes except through [go_runes]
   (how arbitrary bytes read as text), [print_Z] (decimal digits) and the
   oracle texts carried by the values. *)
From Verif Require Import Base.Prelude Base.Decimal Base.Utf8 Base.JsonSpec Enc.JsonEnc Misc.Level
     Proofs.JsonEncP Api.Exec.
Open Scope N_scope.

Definition member := (list N * jv)%type.

(* the value a pre-encoded fragment denotes (the parser is sound and complete
   for [Json], so this is "the" value of a valid fragment) *)
Definition raw_jv (raw : bytes) : jv := match parse_json raw with Some v => v | None => JNull end.
Definition iface_jv (r : ifaceres) : jv :=
  match r with IfOk raw => raw_jv raw | IfErr msg => JStr (go_runes msg) end.

Definition str_jv (s : bytes) : jv := JStr (go_runes s).

Section Spec.
  Variable st : settings.

  Definition nil_jv : jv := iface_jv (s_nil_iface st).

  Definition prim_jv (p : prim) : jv :=
    match p with
    | PStr s | PBytes s => str_jv s
    | PHex s => JStr (hex_digits s)
    | PStrs l => JArr (map str_jv l)
    | PStringer o => stringer_jv JNull o
    | PStringers l => JArr (map (stringer_jv JNull) l)
    | PBool b => JBool b
    | PBools l => JArr (map JBool l)
    | PInt z => JNum (print_Z z)
    | PInts l => JArr (map (fun z => JNum (print_Z z)) l)
    | PUint n => JNum (print_N n)
    | PUints l => JArr (map (fun n => JNum (print_N n)) l)
    | PF32 f => float_jv true f (s_prec st)
    | PF64 f => float_jv false f (s_prec st)
    | PFs32 l => JArr (map (fun f => float_jv true f (s_prec st)) l)
    | PFs64 l => JArr (map (fun f => float_jv false f (s_prec st)) l)
    | PTime t => time_jv t (s_timefmt st)
    | PTimes l => JArr (map (fun t => time_jv t (s_timefmt st)) l)
    | PDur d => duration_jv d (s_dur_unit st) (s_dur_int st) (s_prec st)
    | PDurs l => JArr (map (fun d => duration_jv d (s_dur_unit st) (s_dur_int st) (s_prec st)) l)
    | PIface r => iface_jv r
    | PRawJSON b => raw_jv b
    | PRawCBOR b64 => JStr (cbor_pfx ++ b64)
    | PNil => JNull
    end.

  (* the oracle hypotheses / exclusions of the property, per value *)
  Definition raw_ok (raw : bytes) : Prop := (exists v, Json raw v) /\ GoodTxt raw.
  Definition iface_ok (r : ifaceres) : Prop := match r with IfOk raw => raw_ok raw | IfErr _ => True end.
  Definition time_ok (t : tval) : Prop := s_timefmt st = TFLayout -> plain_text (t_fmt t).
  (* integer durations: d / DurationFieldUnit panics in Go when the unit is 0 *)
  Definition dur_ok (d : dval) : Prop :=
    (s_dur_int st = false -> float_ok (d_quot d)) /\ (s_dur_int st = true -> s_dur_unit st <> 0%Z).

  Definition prim_ok (p : prim) : Prop :=
    match p with
    | PHex s => Forall (fun b => b < 256) s
    | PF32 f | PF64 f => float_ok f
    | PFs32 l | PFs64 l => Forall float_ok l
    | PTime t => time_ok t
    | PTimes l => Forall time_ok l
    | PDur d => dur_ok d
    | PDurs l => Forall dur_ok l
    | PIface r => iface_ok r
    | PRawJSON b => raw_ok b
    | PRawCBOR b64 => Forall b64char b64
    | _ => True
    end.

  (* spec state: the event's stack flag and whether it has been discarded *)
  Definition sstate := (bool * bool)%type.

  Section WithSp.
    (* [sp o s] = members contributed by op o in state s, and the new state *)
    Variable sp : op -> sstate -> list member * sstate.

    Fixpoint spec_list (l : list op) (s : sstate) : list member * sstate :=
      match l with
      | [] => ([], s)
      | o :: t => let '(m1, s1) := sp o s in let '(m2, s2) := spec_list t s1 in (m1 ++ m2, s2)
      end.

    (* a fragment run on a fresh helper event *)
    Definition obj_jv (fs : list op) : jv := JObj (fst (spec_list fs (false, false))).

    Definition errv_jv (x : errv (list op)) : jv :=
      match x with
      | EObj fs => obj_jv fs
      | ETypedNil => JNull
      | EText s => str_jv s
      | ENil => nil_jv
      | EIface r => iface_jv r
      end.

    Definition arr_jv (o : op) : list jv :=
      match o with
      | AElem p => [prim_jv p]
      | AObj fs | ADict fs => [obj_jv fs]
      | AErr x => [errv_jv x]
      | _ => []
      end.

    Definition stack_members (stack : bool) (stk : errv (list op)) : list member :=
      if stack && s_stack_marshaler st then
        match stk with
        | EText s => [(go_runes (s_stack_name st), str_jv s)]
        | EIface r => [(go_runes (s_stack_name st), iface_jv r)]
        | _ => []
        end
      else [].

    Definition field_members (stack : bool) (kv : option bytes * fieldval (list op)) : list member :=
      match kv with
      | (None, _) => []
      | (Some key, FVPrim p) => [(go_runes key, prim_jv p)]
      | (Some key, FVObj fs) => [(go_runes key, obj_jv fs)]
      | (Some key, FVErr x stk) => (go_runes key, errv_jv x) :: stack_members stack stk
      | (Some key, FVErrs es) => [(go_runes key, JArr (map errv_jv es))]
      end.

    (* Object(key, marshaler) on the event itself: the fragment sees and may change the event's state *)
    Definition object_members (key : bytes) (fs : list op) (s : sstate) : list member * sstate :=
      let '(ms, s') := spec_list fs s in ([(go_runes key, JObj ms)], s').

    Definition an_err_members (key : bytes) (x : errv (list op)) (s : sstate) : list member * sstate :=
      match x with
      | ENil | ETypedNil => ([], s)
      | EObj fs => object_members key fs s
      | EText t => ([(go_runes key, str_jv t)], s)
      | EIface r => ([(go_runes key, iface_jv r)], s)
      end.

    Definition spec_body (o : op) (s : sstate) : list member * sstate :=
      match o with
      | OKey key p => ([(go_runes key, prim_jv p)], s)
      | ODict key fs => ([(go_runes key, obj_jv fs)], s)
      | OArray key es => ([(go_runes key, JArr (flat_map arr_jv es))], s)
      | OObject key None => ([(go_runes key, JNull)], s)
      | OObject key (Some fs) => object_members key fs s
      | OEmbed None => ([], s)
      | OEmbed (Some fs) => spec_list fs s
      | OFields kvs => (flat_map (field_members (fst s)) kvs, s)
      | OAnErr key x => an_err_members key x s
      | OErr x stk =>
          let '(m1, s1) :=
            if fst s && s_stack_marshaler st then
              match stk with
              | ENil | ETypedNil => ([], s)
              | EObj fs => object_members (s_stack_name st) fs s
              | EText t => ([(go_runes (s_stack_name st), str_jv t)], s)
              | EIface r => ([(go_runes (s_stack_name st), iface_jv r)], s)
              end
            else ([], s) in
          let '(m2, s2) := an_err_members (s_error_name st) x s1 in (m1 ++ m2, s2)
      | OErrs key es => ([(go_runes key, JArr (map errv_jv es))], s)
      | OStack => ([], (true, snd s))
      | OFunc fs => if snd s then ([], s) else spec_list fs s
      | OTimestamp t => ([(go_runes (s_timestamp_name st), time_jv t (s_timefmt st))], s)
      | OCaller None => ([], s)
      | OCaller (Some txt) => ([(go_runes (s_caller_name st), str_jv txt)], s)
      | OMark _ => ([], s)
      | ODiscard => ([], (fst s, true))
      | AElem _ | AObj _ | ADict _ | AErr _ => ([], s)
      end.

    (* the oracle hypotheses for everything inside an op *)
    Variable okr : op -> Prop.
    Definition errv_ok (x : errv (list op)) : Prop :=
      match x with EObj fs => Forall okr fs | EIface r => iface_ok r | ENil => iface_ok (s_nil_iface st) | _ => True end.
    (* ops inside an Array are handled at the level of the enclosing Array op *)
    Definition arr_ok (o : op) : Prop :=
      match o with
      | AElem p => prim_ok p
      | AObj fs | ADict fs => Forall okr fs
      | AErr x => errv_ok x
      | _ => True
      end.
    Definition ok_body (o : op) : Prop :=
      match o with
      | OKey _ p => prim_ok p
      | OArray _ es => Forall arr_ok es
      | ODict _ fs | OObject _ (Some fs) | OEmbed (Some fs) | OFunc fs => Forall okr fs
      | OFields kvs =>
          Forall (fun kv => match snd kv with
                            | FVPrim p => prim_ok p
                            | FVObj fs => Forall okr fs
                            | FVErr x stk => errv_ok x /\ errv_ok stk
                            | FVErrs es => Forall errv_ok es
                            end) kvs
      | OAnErr _ x => errv_ok x
      | OErr x stk => errv_ok x /\ errv_ok stk
      | OErrs _ es => Forall errv_ok es
      | OTimestamp t => time_ok t
      | _ => True
      end.
  End WithSp.

  Fixpoint spec_n (n : nat) (o : op) (s : sstate) : list member * sstate :=
    match n with O => ([], s) | S n' => spec_body (spec_n n') o s end.
  Fixpoint ok_n (n : nat) (o : op) : Prop :=
    match n with O => True | S n' => ok_body (ok_n n') o end.

  Definition spec_ops (l : list op) (s : sstate) : list member * sstate := spec_list (spec_n (depth_list l)) l s.
  Definition ops_ok (l : list op) : Prop := Forall (ok_n (depth_list l)) l.
End Spec.

(* ---------------- loggers: the members of the context, the hooks, the stack flag ---------------- *)
Section LoggerSpec.
  Variable st : settings.

  Definition op_spec (o : op) (s : sstate) : list member * sstate := spec_n st (depth o) o s.
  Definition op_ok (o : op) : Prop := ok_n st (depth o) o.

  Record lspec := { ls_kvs : list member; ls_hooks : list (list op); ls_stack : bool }.
  Definition lspec_root : lspec := {| ls_kvs := []; ls_hooks := []; ls_stack := false |}.

  Definition errv_jv' (x : errv (list op)) : jv :=
    match x with
    | EObj fs => JObj (fst (spec_ops st fs (false, false)))
    | ETypedNil => JNull
    | EText s => str_jv s
    | ENil => nil_jv st
    | EIface r => iface_jv r
    end.

  (* helper-event based Context methods: the fragment runs on a fresh event (stack off) *)
  Definition fresh_members (o : op) : list member := fst (op_spec o (false, false)).

  Definition can_err_members (key : bytes) (x : errv (list op)) : list member :=
    match x with
    | ENil | ETypedNil => []
    | EObj fs => fresh_members (OObject key (Some fs))
    | EText s => [(go_runes key, str_jv s)]
    | EIface r => [(go_runes key, iface_jv r)]
    end.

  Definition cop_spec (c : cop) (l : lspec) : lspec :=
    match c with
    | COp o =>
        let '(ms, s') := op_spec o (ls_stack l, false) in
        {| ls_kvs := ls_kvs l ++ ms; ls_hooks := ls_hooks l; ls_stack := fst s' |}
    | CAnErr key x => {| ls_kvs := ls_kvs l ++ can_err_members key x; ls_hooks := ls_hooks l; ls_stack := ls_stack l |}
    | CErr x stk =>
        let m1 := if ls_stack l && s_stack_marshaler st then can_err_members (s_stack_name st) stk else [] in
        {| ls_kvs := ls_kvs l ++ m1 ++ can_err_members (s_error_name st) x; ls_hooks := ls_hooks l; ls_stack := ls_stack l |}
    | CErrs key es =>
        let es' := map (fun x => match x with ETypedNil => ENil | y => y end) es in
        {| ls_kvs := ls_kvs l ++ fst (op_spec (OErrs key es') (ls_stack l, false)); ls_hooks := ls_hooks l; ls_stack := ls_stack l |}
    | CObject key o => {| ls_kvs := ls_kvs l ++ fresh_members (OObject key o); ls_hooks := ls_hooks l; ls_stack := ls_stack l |}
    | CEmbed o => {| ls_kvs := ls_kvs l ++ fresh_members (OEmbed o); ls_hooks := ls_hooks l; ls_stack := ls_stack l |}
    | CHook h => {| ls_kvs := ls_kvs l; ls_hooks := ls_hooks l ++ [h]; ls_stack := ls_stack l |}
    | CReset => {| ls_kvs := []; ls_hooks := ls_hooks l; ls_stack := ls_stack l |}
    end.

  Definition errv_ok' (x : errv (list op)) : Prop :=
    match x with EObj fs => ops_ok st fs | EIface r => iface_ok r | ENil => iface_ok (s_nil_iface st) | _ => True end.

  Definition cop_ok (c : cop) : Prop :=
    match c with
    | COp o => op_ok o
    | CAnErr key x => op_ok (OAnErr key x)
    | CErr x stk => op_ok (OAnErr (s_error_name st) x) /\ op_ok (OAnErr (s_stack_name st) stk)
    | CErrs key es => op_ok (OErrs key (map (fun x => match x with ETypedNil => ENil | y => y end) es))
    | CObject key o => op_ok (OObject key o)
    | CEmbed o => op_ok (OEmbed o)
    | CHook h => ops_ok st h
    | CReset => True
    end.

  Definition step_spec (l : lspec) (s : bool * list cop) : lspec :=
    let l1 := fold_left (fun l c => cop_spec c l) (snd s) l in
    if fst s then {| ls_kvs := ls_kvs l1; ls_hooks := ls_hooks l; ls_stack := ls_stack l |} else l1.

  Definition chain_spec (chain : list (bool * list cop)) : lspec := fold_left step_spec chain lspec_root.
  Definition chain_ok (chain : list (bool * list cop)) : Prop := Forall (fun s => Forall cop_ok (snd s)) chain.

  (* hooks run in order on the event, each from the state the previous one left *)
  Fixpoint hooks_spec (hs : list (list op)) (s : sstate) : list member * sstate :=
    match hs with
    | [] => ([], s)
    | h :: t => let '(m1, s1) := spec_ops st h s in let '(m2, s2) := hooks_spec t s1 in (m1 ++ m2, s2)
    end.

  Definition level_members (lvl : level) : list member :=
    if negb (lvl =? NoLevel)%Z && negb (match s_level_name st with [] => true | _ => false end)
    then [(go_runes (s_level_name st), str_jv (s_level_text st lvl))] else [].
  Definition msg_members (msg : bytes) : list member :=
    match msg with [] => [] | _ => [(go_runes (s_message_name st), str_jv msg)] end.

  (* the whole event: members in order, and whether it is written at all *)
  Definition event_spec (chain : list (bool * list cop)) (lvl : level) (ops : list op) (msg : bytes) : list member * bool :=
    let l := chain_spec chain in
    let '(me, s1) := spec_ops st ops (ls_stack l, false) in
    let '(mh, s2) := hooks_spec (ls_hooks l) s1 in
    (level_members lvl ++ ls_kvs l ++ me ++ mh ++ msg_members msg, negb (snd s2)).
End LoggerSpec.
