package cborgen

// The decoder-side oracle tables (the same scan as harness/cmd/c17): for every
// position of a binary line that could be a float32 / float64 / timestamp
// payload, the text Go's strconv / time produce.

import (
	"encoding/binary"
	"fmt"
	"math"
	"sort"
	"strconv"
	"time"

	. "verifharness/hlib"
)

// ---------------------------------------------------------------- oracles
type DecTables struct {
	f32 map[uint32][]byte
	f64 map[uint64][]byte
	tsi map[int64][]byte
	tsf map[[2]uint64][]byte // {1 if float32, bits}
}

func NewDecTables() *DecTables {
	return &DecTables{map[uint32][]byte{}, map[uint64][]byte{}, map[int64][]byte{}, map[[2]uint64][]byte{}}
}

var OracleMaxLen = map[string]int{}

func noteLen(kind string, n int) {
	if n > OracleMaxLen[kind] {
		OracleMaxLen[kind] = n
	}
}

func fmtTimeInt(n int64) []byte {
	return time.Unix(n, 0).In(time.UTC).AppendFormat(nil, time.RFC3339)
}

// the float branch of decodeTimeStamp, restated
func fmtTimeFloat(v float64) []byte {
	secs := int64(v)
	v -= float64(secs)
	v *= float64(1e9)
	return time.Unix(secs, int64(v)).In(time.UTC).AppendFormat(nil, time.RFC3339Nano)
}

func f32val(bits uint32) float64 { return float64(math.Float32frombits(bits)) }

// scan adds the oracle answers for every position of in that could be a
// float32 / float64 / timestamp payload.
func (tb *DecTables) Scan(in []byte) {
	for i := 0; i < len(in); i++ {
		switch in[i] {
		case 0xfa:
			if i+5 <= len(in) {
				bits := binary.BigEndian.Uint32(in[i+1:])
				v := f32val(bits)
				if !math.IsNaN(v) && !math.IsInf(v, 0) {
					if _, ok := tb.f32[bits]; !ok {
						tb.f32[bits] = strconv.AppendFloat(nil, v, 'f', -1, 32)
						noteLen("f32", len(tb.f32[bits]))
					}
				}
				if i > 0 && in[i-1] == 0xc1 {
					k := [2]uint64{1, uint64(bits)}
					if _, ok := tb.tsf[k]; !ok {
						tb.tsf[k] = fmtTimeFloat(v)
						noteLen("ts", len(tb.tsf[k]))
					}
				}
			}
		case 0xfb:
			if i+9 <= len(in) {
				bits := binary.BigEndian.Uint64(in[i+1:])
				v := math.Float64frombits(bits)
				if !math.IsNaN(v) && !math.IsInf(v, 0) {
					if _, ok := tb.f64[bits]; !ok {
						tb.f64[bits] = strconv.AppendFloat(nil, v, 'f', -1, 64)
						noteLen("f64", len(tb.f64[bits]))
					}
				}
				if i > 0 && in[i-1] == 0xc1 {
					k := [2]uint64{0, bits}
					if _, ok := tb.tsf[k]; !ok {
						tb.tsf[k] = fmtTimeFloat(v)
						noteLen("ts", len(tb.tsf[k]))
					}
				}
			}
		case 0xc1:
			if i+1 < len(in) {
				b := in[i+1]
				if b>>5 <= 1 {
					minor := b & 0x1f
					var val int64
					ok := true
					switch {
					case minor <= 23:
						val = int64(minor)
					case minor <= 27:
						k := 1 << (minor - 24)
						if i+2+k <= len(in) {
							for _, x := range in[i+2 : i+2+k] {
								val = val*256 + int64(x)
							}
						} else {
							ok = false
						}
					default:
						ok = false
					}
					if ok {
						if b>>5 == 1 {
							val = -1 - val
						}
						if _, have := tb.tsi[val]; !have {
							tb.tsi[val] = fmtTimeInt(val)
							noteLen("ts", len(tb.tsi[val]))
						}
					}
				}
			}
		}
	}
}

func (tb *DecTables) Coq() string {
	var a, b, c, d []string
	for k, v := range tb.f32 {
		a = append(a, fmt.Sprintf("(%s,%s)", cn(uint64(k)), cbs(v)))
	}
	for k, v := range tb.f64 {
		b = append(b, fmt.Sprintf("(%s,%s)", cn(k), cbs(v)))
	}
	for k, v := range tb.tsi {
		c = append(c, fmt.Sprintf("(%s,%s)", cz(k), cbs(v)))
	}
	for k, v := range tb.tsf {
		d = append(d, fmt.Sprintf("(%s,%s,%s)", CoqBool(k[0] == 1), cn(k[1]), cbs(v)))
	}
	sort.Strings(a)
	sort.Strings(b)
	sort.Strings(c)
	sort.Strings(d)
	if len(a)+len(b)+len(c)+len(d) == 0 {
		return "T0"
	}
	return fmt.Sprintf("(mkT %s %s %s %s)", CoqList(a), CoqList(b), CoqList(c), CoqList(d))
}

