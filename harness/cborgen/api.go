package cborgen

import (
	"encoding/base64"
	"fmt"
	"io"
	"math"
	"net"
	"sort"
	"strconv"
	"time"

	"github.com/rs/zerolog"
	"verifharness/cborref"
	. "verifharness/hlib"
)

// JTables: what the Go standard library answers on the JSON build's side for
// the values of one program (computed here, independently of zerolog).
type JTables struct {
	f32  map[uint32][2][]byte
	f64  map[uint64][2][]byte
	time map[tkey][]byte
	ip   map[string][]byte
	mac  map[string][]byte
	pfx  map[string][]byte
	pfxk map[string][2][]byte
	b64  map[string][]byte
	// F counts what strconv answered (validation of the float oracle hypotheses)
	Floats int
}

func newJTables() *JTables {
	return &JTables{f32: map[uint32][2][]byte{}, f64: map[uint64][2][]byte{}, time: map[tkey][]byte{}, ip: map[string][]byte{},
		mac: map[string][]byte{}, pfx: map[string][]byte{}, pfxk: map[string][2][]byte{}, b64: map[string][]byte{}}
}

// curJT is the table of the program being generated (nil outside Gen).
var curJT *JTables

func (j *JTables) addF32(b uint32) {
	if j == nil {
		return
	}
	v := float64(math.Float32frombits(b))
	j.f32[b] = [2][]byte{strconv.AppendFloat(nil, v, 'f', -1, 32), strconv.AppendFloat(nil, v, 'e', -1, 32)}
	j.Floats++
}
func (j *JTables) addF64(b uint64) {
	if j == nil {
		return
	}
	v := math.Float64frombits(b)
	j.f64[b] = [2][]byte{strconv.AppendFloat(nil, v, 'f', -1, 64), strconv.AppendFloat(nil, v, 'e', -1, 64)}
	j.Floats++
}
func (j *JTables) addTime(t time.Time) {
	if j == nil {
		return
	}
	u := t.UTC()
	j.time[tkey{u.Unix(), int64(u.Nanosecond())}] = t.AppendFormat(nil, time.RFC3339)
}
func (j *JTables) addIP(ip []byte) {
	if j != nil {
		j.ip[string(ip)] = []byte(net.IP(ip).String())
	}
}
func (j *JTables) addMAC(ha []byte) {
	if j != nil {
		j.mac[string(ha)] = []byte(net.HardwareAddr(ha).String())
	}
}
func (j *JTables) addPrefix(ip, mask []byte) {
	if j != nil {
		n := net.IPNet{IP: ip, Mask: mask}
		k := string(ip) + "|" + string(mask)
		j.pfx[k] = []byte(n.String())
		j.pfxk[k] = [2][]byte{append([]byte{}, ip...), append([]byte{}, mask...)}
	}
}
func (j *JTables) addB64(b []byte) {
	if j != nil {
		j.b64[string(b)] = []byte(base64.StdEncoding.EncodeToString(b))
	}
}

// Coq prints the tables as a term of type Harness.C08H.jtables.
func (j *JTables) Coq() string {
	var a, b, c, d, e, f, g []string
	for k, v := range j.f32 {
		a = append(a, fmt.Sprintf("(%s,(%s,%s))", cn(uint64(k)), cbs(v[0]), cbs(v[1])))
	}
	for k, v := range j.f64 {
		b = append(b, fmt.Sprintf("(%s,(%s,%s))", cn(k), cbs(v[0]), cbs(v[1])))
	}
	for k, v := range j.time {
		c = append(c, fmt.Sprintf("(%s,%s,%s)", cz(k.s), cn(uint64(k.n)), cbs(v)))
	}
	for k, v := range j.ip {
		d = append(d, fmt.Sprintf("(%s,%s)", cbs([]byte(k)), cbs(v)))
	}
	for k, v := range j.mac {
		e = append(e, fmt.Sprintf("(%s,%s)", cbs([]byte(k)), cbs(v)))
	}
	for k, v := range j.pfx {
		f = append(f, fmt.Sprintf("(%s,%s,%s)", cbs(j.pfxk[k][0]), cbs(j.pfxk[k][1]), cbs(v)))
	}
	for k, v := range j.b64 {
		g = append(g, fmt.Sprintf("(%s,%s)", cbs([]byte(k)), cbs(v)))
	}
	for _, x := range [][]string{a, b, c, d, e, f, g} {
		sort.Strings(x)
	}
	return fmt.Sprintf("(mkJT %s %s %s %s %s %s %s)", CoqList(a), CoqList(b), CoqList(c), CoqList(d), CoqList(e), CoqList(f), CoqList(g))
}

// F32Texts / F64Texts expose the float oracle answers (for the oracle-hypothesis monitors).
func (j *JTables) FloatTexts() (out [][2][]byte) {
	for _, v := range j.f32 {
		out = append(out, v)
	}
	for _, v := range j.f64 {
		out = append(out, v)
	}
	return
}

// KV is one expected field: key, Gallina term of the value, expected CBOR item.
type KV struct {
	K    string
	Coq  string
	Want *cborref.Item
}

// Prog is one generated logging program.
type Prog struct {
	Desc   map[string]interface{}
	Pre    []KV   // fields written before the context splice (the level)
	Ctx    []KV   // fields of the logger context
	Ev     []KV   // fields of the event, incl. the message
	Tb     string // Gallina: float conversions of time.go (Harness.C09H.tables)
	JT     *JTables
	Kinds  []string
	run    func(w io.Writer)
	unit   time.Duration
	useInt bool
	now    time.Time
}

// FieldsCoq prints (pre, ctx, ev) as the Gallina triple the harness glue takes.
func (p *Prog) FieldsCoq() string {
	return fmt.Sprintf("(%s, %s, %s)", kvsCoq(unKV(p.Pre)), kvsCoq(unKV(p.Ctx)), kvsCoq(unKV(p.Ev)))
}
func unKV(xs []KV) []kv {
	out := make([]kv, len(xs))
	for i, x := range xs {
		out[i] = kv{x.K, val{x.Coq, x.Want}}
	}
	return out
}
func toKV(xs []kv) []KV {
	out := make([]KV, len(xs))
	for i, x := range xs {
		out[i] = KV{x.k, x.v.coq, x.v.want}
	}
	return out
}

// All returns pre ++ ctx ++ ev (the order of the keys in the written line).
func (p *Prog) All() []KV { return append(append(append([]KV{}, p.Pre...), p.Ctx...), p.Ev...) }

// Run executes the program against the real API; the event is written to w
// (one Write).  Global settings are set for the call and restored.
func (p *Prog) Run(w io.Writer) {
	oldU, oldI, oldT, oldC := zerolog.DurationFieldUnit, zerolog.DurationFieldInteger, zerolog.TimestampFunc, zerolog.CallerMarshalFunc
	defer func() {
		zerolog.DurationFieldUnit, zerolog.DurationFieldInteger, zerolog.TimestampFunc, zerolog.CallerMarshalFunc = oldU, oldI, oldT, oldC
	}()
	zerolog.DurationFieldUnit, zerolog.DurationFieldInteger = p.unit, p.useInt
	now := p.now
	zerolog.TimestampFunc = func() time.Time { return now }
	zerolog.CallerMarshalFunc = func(pc uintptr, file string, line int) string { return "F:1" }
	zerolog.SetGlobalLevel(zerolog.TraceLevel)
	p.run(w)
}

var levelNames = map[zerolog.Level]string{zerolog.TraceLevel: "trace", zerolog.DebugLevel: "debug", zerolog.InfoLevel: "info", zerolog.WarnLevel: "warn", zerolog.ErrorLevel: "error"}

// Gen generates one program from r.  With c08 the values are restricted to
// what property C08 quantifies over (4/16-byte IPs, 6-byte MACs, canonical
// prefixes, embedded JSON that is JSON) and all times of the program are in
// one location.
func Gen(r *Rng, c08 bool) *Prog {
	g := &gen{r: r, tb: newTables(), c08: c08}
	jt := newJTables()
	curJT = jt
	defer func() { curJT = nil }()
	g.unit = []time.Duration{time.Millisecond, time.Millisecond, time.Second, time.Nanosecond, time.Microsecond, time.Minute}[r.Intn(6)]
	g.useInt = r.Chance(40)
	if c08 {
		g.loc = []*time.Location{time.UTC, time.UTC, time.FixedZone("a", 3600), time.FixedZone("b", -7*3600), time.FixedZone("c", 19800)}[r.Intn(5)]
	}
	g.now = time.Unix(1700000000+int64(r.Intn(1000)), int64(r.Intn(2))*int64(r.Intn(1000000000)))
	if g.loc != nil {
		g.now = g.now.In(g.loc)
	}
	var ctxLayers [][]gfield
	layers := r.Intn(3)
	for li := 0; li < layers; li++ {
		var fs []gfield
		for len(fs) < r.Intn(4) {
			f := g.field(g.key(), 2)
			if f.ctx == nil {
				continue
			}
			if f.kind == "Stringer(nil)" {
				f.out = []kv{{f.out[0].k, pIface(nil)}}
			}
			fs = append(fs, f)
		}
		ctxLayers = append(ctxLayers, fs)
	}
	evF := g.fields(r.Intn(7), 3)
	lvl := []zerolog.Level{zerolog.TraceLevel, zerolog.DebugLevel, zerolog.InfoLevel, zerolog.WarnLevel, zerolog.ErrorLevel, zerolog.NoLevel}[r.Intn(6)]
	msg := ""
	if r.Chance(70) {
		msg = g.str()
	}
	fin := r.Intn(3)
	p := &Prog{JT: jt, unit: g.unit, useInt: g.useInt, now: g.now}
	if lvl != zerolog.NoLevel {
		p.Pre = toKV([]kv{{"level", pString(levelNames[lvl])}})
	}
	var ctxF []gfield
	for _, fs := range ctxLayers {
		ctxF = append(ctxF, fs...)
	}
	p.Ctx = toKV(flatten(ctxF))
	ev := flatten(evF)
	if msg != "" {
		ev = append(ev, kv{"message", pString(msg)})
	}
	p.Ev = toKV(ev)
	p.Tb = g.tb.coq()
	for _, f := range append(append([]gfield{}, ctxF...), evF...) {
		p.Kinds = append(p.Kinds, f.kind)
	}
	p.Desc = map[string]interface{}{"context": kinds2(ctxF), "event": kinds2(evF), "level": lvl.String(), "msg": msg, "unit": g.unit.String(), "dur_int": g.useInt}
	p.run = func(w io.Writer) {
		l := zerolog.New(w)
		for _, fs := range ctxLayers {
			cx := l.With()
			for _, f := range fs {
				cx = f.ctx(cx)
			}
			l = cx.Logger()
		}
		var e *zerolog.Event
		if lvl == zerolog.NoLevel {
			e = l.Log()
		} else {
			e = l.WithLevel(lvl)
		}
		for _, f := range evF {
			e = f.ev(e)
		}
		switch fin {
		case 0:
			e.Msg(msg)
		case 1:
			if msg == "" {
				e.Send()
			} else {
				e.Msgf("%s", msg)
			}
		default:
			m := msg
			e.MsgFunc(func() string { return m })
		}
	}
	return p
}

// Fixed builds a program from explicit event calls (corpus cases).
func Fixed(desc string, ctx func(zerolog.Context) zerolog.Context, ev func(*zerolog.Event) *zerolog.Event, ctxKV, evKV func() []KV) *Prog {
	jt := newJTables()
	curJT = jt
	defer func() { curJT = nil }()
	p := &Prog{JT: jt, unit: time.Millisecond, now: time.Unix(1700000000, 0).UTC(), Tb: newTables().coq()}
	p.Pre = toKV([]kv{{"level", pString("info")}})
	if ctxKV != nil {
		p.Ctx = ctxKV()
	}
	p.Ev = evKV()
	p.Desc = map[string]interface{}{"corpus": desc}
	p.Kinds = []string{"corpus"}
	p.run = func(w io.Writer) {
		l := zerolog.New(w)
		if ctx != nil {
			l = ctx(l.With()).Logger()
		}
		ev(l.Info()).Send()
	}
	return p
}

// value constructors for corpus cases
func KStr(k, s string) KV          { v := pString(s); return KV{k, v.coq, v.want} }
func KUint(k string, n uint64) KV  { v := pUint(n); return KV{k, v.coq, v.want} }
func KBytes(k string, b []byte) KV { v := pBytes(b); return KV{k, v.coq, v.want} }
func KHex(k string, b []byte) KV   { v := pHex(b); return KV{k, v.coq, v.want} }

// KIface: a value logged through Interface / Any (what encoding/json answers for it, or its error)
func KIface(k string, v interface{}) KV { x := pIface(v); return KV{k, x.coq, x.want} }

// KF64 / KF32: a float logged through a typed method or a Fields case
func KF64(k string, f float64) KV { x := pF64(math.Float64bits(f)); return KV{k, x.coq, x.want} }
func KF32(k string, f float32) KV { x := pF32(math.Float32bits(f)); return KV{k, x.coq, x.want} }

// KDict: a nested object with the given members
func KDict(k string, xs ...KV) KV {
	v := dictVal(unKV(xs))
	return KV{k, v.coq, v.want}
}
func KArr(k string, xs ...KV) KV {
	vs := make([]val, len(xs))
	for i, x := range xs {
		vs[i] = val{x.Coq, x.Want}
	}
	v := arrVal(vs)
	return KV{k, v.coq, v.want}
}
