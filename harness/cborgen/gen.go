// Package cborgen: the seeded generator of logging programs over the public
// Event / Context / Array / Dict / Object / Fields API together with, for each
// program, the expected field list as a Gallina term (Enc/CborEnc.v cval), the
// expected generic CBOR item (cborref) and the oracle tables of both builds.
// Shared by the C08 driver (built under both encoders); the code is the
// generator of harness/cmd/c09, which keeps its own copy.
package cborgen

import (
	"encoding/json"
	"errors"
	"fmt"
	"math"
	"net"
	"reflect"
	"sort"
	"strings"
	"time"

	"github.com/rs/zerolog"
	"verifharness/cborref"
	. "verifharness/hlib"
)

// ---------------------------------------------------------------- Gallina printers
func cz(z int64) string  { return fmt.Sprintf("(%d)%%Z", z) }
func cn(n uint64) string { return fmt.Sprintf("%d%%N", n) }
func cbs(b []byte) string {
	if len(b) == 0 {
		return "(@nil N)"
	}
	return CoqBytes(b)
}
func cbss(xs [][]byte) string {
	ys := make([]string, len(xs))
	for i, x := range xs {
		ys[i] = cbs(x)
	}
	return "(" + CoqList(ys) + " : list (list N))"
}
func copt(b []byte, some bool) string {
	if !some {
		return "(@None (list N))"
	}
	return "(Some " + cbs(b) + ")"
}
func czs(xs []int64) string {
	ys := make([]string, len(xs))
	for i, x := range xs {
		ys[i] = cz(x)
	}
	return "(" + CoqList(ys) + " : list Z)"
}
func cns(xs []uint64) string {
	ys := make([]string, len(xs))
	for i, x := range xs {
		ys[i] = cn(x)
	}
	return "(" + CoqList(ys) + " : list N)"
}

type tkey struct {
	s int64
	n int64
}
type dkey struct{ d, u int64 }
type tables struct {
	t map[tkey]uint64
	d map[dkey]uint64
}

func newTables() *tables { return &tables{t: map[tkey]uint64{}, d: map[dkey]uint64{}} }

// the float conversions of time.go, computed here with Go's own arithmetic
func (tb *tables) addTime(t time.Time) {
	u := t.UTC()
	secs, nanos := u.Unix(), u.Nanosecond()
	var val float64
	val = float64(secs)*1.0 + float64(nanos)*1e-9
	tb.t[tkey{secs, int64(nanos)}] = math.Float64bits(val)
}
func (tb *tables) addDur(d, unit time.Duration) {
	tb.d[dkey{int64(d), int64(unit)}] = math.Float64bits(float64(d) / float64(unit))
}
func (tb *tables) coq() string {
	var ts, ds []string
	for k, v := range tb.t {
		ts = append(ts, fmt.Sprintf("(%s,%s,%s)", cz(k.s), cn(uint64(k.n)), cn(v)))
	}
	for k, v := range tb.d {
		ds = append(ds, fmt.Sprintf("(%s,%s,%s)", cz(k.d), cz(k.u), cn(v)))
	}
	sortStrings(ts)
	sortStrings(ds)
	return fmt.Sprintf("((%s : list (Z*N*N)), (%s : list (Z*Z*N)))", CoqList(ts), CoqList(ds))
}
func sortStrings(xs []string) {
	for i := 1; i < len(xs); i++ {
		for j := i; j > 0 && xs[j] < xs[j-1]; j-- {
			xs[j], xs[j-1] = xs[j-1], xs[j]
		}
	}
}
func ctime(t time.Time) string {
	u := t.UTC()
	return fmt.Sprintf("(%s,%s)", cz(u.Unix()), cn(uint64(u.Nanosecond())))
}

// ---------------------------------------------------------------- expected items (spec re-implementation)
func wantTime(t time.Time) *cborref.Item {
	u := t.UTC()
	if u.Nanosecond() == 0 {
		return cborref.Tg(1, cborref.Int(u.Unix()))
	}
	// the documented form: seconds since the epoch as a float64
	return cborref.Tg(1, cborref.Fl64(canon64(math.Float64bits(float64(u.Unix())+float64(u.Nanosecond())*1e-9))))
}
func canon32(b uint32) uint32 {
	if b&0x7f800000 == 0x7f800000 && b&0x007fffff != 0 {
		return 0x7fc00000
	}
	return b
}
func canon64(b uint64) uint64 {
	if b&0x7ff0000000000000 == 0x7ff0000000000000 && b&0x000fffffffffffff != 0 {
		return 0x7ff8000000000000
	}
	return b
}
func wantDur(d, unit time.Duration, useInt bool) *cborref.Item {
	if useInt {
		return cborref.Int(int64(d / unit))
	}
	return cborref.Fl64(canon64(math.Float64bits(float64(d) / float64(unit))))
}
func wantSlice(n int, f func(i int) *cborref.Item) *cborref.Item {
	if n == 0 {
		return cborref.ArrI()
	}
	xs := make([]*cborref.Item, n)
	for i := range xs {
		xs[i] = f(i)
	}
	return cborref.Arr(xs...)
}
func maskOnes(m net.IPMask) uint64 {
	ones, _ := m.Size()
	return uint64(uint8(ones))
}

func trunc(s string, n int) string {
	if len(s) > n {
		return s[:n] + fmt.Sprintf("...(%d)", len(s))
	}
	return s
}

func truncB(b []byte, n int) []byte {
	if len(b) > n {
		return b[:n]
	}
	return b
}

func lenBucket(n int) string {
	switch {
	case n <= 1:
		return "0-1"
	case n <= 24:
		return "2-24"
	case n <= 257:
		return "25-257"
	case n <= 65537:
		return "258-65537"
	default:
		return ">65537"
	}
}

type strer struct{ s string }

func (s strer) String() string { return s.s }

func fillBytes(r *Rng, n int, mode int) []byte {
	b := make([]byte, n)
	for i := range b {
		switch mode {
		case 0:
			b[i] = byte('a' + i%26)
		case 1:
			b[i] = byte(r.Intn(256))
		default:
			alphabet := []byte("a\"b\\c\n\xff\x00\xc3\xa9\xf0\x9f\x98\x80 ")
			b[i] = alphabet[r.Intn(len(alphabet))]
		}
	}
	return b
}

var int64Bounds = []int64{0, 1, 2, 22, 23, 24, 25, 100, 254, 255, 256, 257, 1000, 65534, 65535, 65536, 65537, 1 << 24,
	1<<31 - 1, 1 << 31, 1<<32 - 2, 1<<32 - 1, 1 << 32, 1<<32 + 1, 1 << 40, 1<<62 - 1, 1 << 62, math.MaxInt64 - 1, math.MaxInt64,
	-1, -2, -22, -23, -24, -25, -26, -100, -255, -256, -257, -258, -65535, -65536, -65537, -65538, -(1 << 31), -(1 << 31) - 1,
	-(1 << 32) + 1, -(1 << 32), -(1 << 32) - 1, -(1 << 32) - 2, -(1 << 62), math.MinInt64 + 1, math.MinInt64}

var uint64Bounds = []uint64{0, 1, 22, 23, 24, 25, 254, 255, 256, 257, 65534, 65535, 65536, 65537, 1<<32 - 1, 1 << 32, 1<<32 + 1,
	1<<63 - 1, 1 << 63, 1<<63 + 1, math.MaxUint64 - 1, math.MaxUint64}

var f32Bits = []uint32{0, 0x80000000, 0x3f800000, 0xbf800000, 0x7f800000, 0xff800000, 0x7fc00000, 0xffc00000, 0x7fc00001, 0x7f800001,
	0xff800001, 0x7fffffff, 0x00000001, 0x007fffff, 0x00800000, 0x7f7fffff, 0xff7fffff, 0x3eaaaaab, 0x40490fdb, 0x7f000000}

var f64Bits = []uint64{0, 0x8000000000000000, 0x3ff0000000000000, 0xbff0000000000000, 0x7ff0000000000000, 0xfff0000000000000,
	0x7ff8000000000000, 0x7ff8000000000001, 0xfff8000000000000, 0x7ff0000000000001, 0xfff0000000000001, 0x7fffffffffffffff,
	1, 0x000fffffffffffff, 0x0010000000000000, 0x7fefffffffffffff, 0xffefffffffffffff, 0x3fd5555555555555, 0x400921fb54442d18, 0x41d0000000000000}

type val struct {
	coq  string // Gallina term of type cval
	want *cborref.Item
}
type kv struct {
	k string
	v val
}

// one generated API call: how to apply it to an Event / a Context / an Array,
// and the (key, value) fields it is expected to add
type gfield struct {
	kind string
	ev   func(e *zerolog.Event) *zerolog.Event
	ctx  func(c zerolog.Context) zerolog.Context
	arr  func(a *zerolog.Array) *zerolog.Array
	out  []kv
}

func vp(p string, w *cborref.Item) val { return val{"(VP (" + p + "))", w} }

func kvsCoq(xs []kv) string {
	ys := make([]string, len(xs))
	for i, x := range xs {
		ys[i] = "(" + cbs([]byte(x.k)) + ", " + x.v.coq + ")"
	}
	return "(" + CoqList(ys) + " : list (list N * cval))"
}
func kvsWant(xs []kv) []*cborref.Item {
	var out []*cborref.Item
	for _, x := range xs {
		out = append(out, cborref.Tx(x.k), x.v.want)
	}
	return out
}
func dictVal(xs []kv) val {
	return val{"(VDict " + kvsCoq(xs) + ")", cborref.MapI(kvsWant(xs)...)}
}
func arrVal(xs []val) val {
	ys := make([]string, len(xs))
	ws := make([]*cborref.Item, len(xs))
	for i, x := range xs {
		ys[i], ws[i] = x.coq, x.want
	}
	return val{"(VArr (" + CoqList(ys) + " : list cval))", cborref.ArrI(ws...)}
}

type objM struct{ fs []gfield }

func (o objM) MarshalZerologObject(e *zerolog.Event) {
	for _, f := range o.fs {
		f.ev(e)
	}
}

type arrM struct{ fs []gfield }

func (o arrM) MarshalZerologArray(a *zerolog.Array) {
	for _, f := range o.fs {
		f.arr(a)
	}
}

type gen struct {
	c08    bool
	loc    *time.Location
	r      *Rng
	tb     *tables
	unit   time.Duration
	useInt bool
	now    time.Time
	nkey   int
	// forceN: the length of every typed slice this generator makes (SliceProgs); otherwise n() draws it
	forced bool
	forceN int
}

var keyPool = []string{"a", "k", "key", "", "é", "with space", "q\"uote", strings.Repeat("k", 23), strings.Repeat("k", 24), strings.Repeat("L", 256), "level", "message", "time", "a"}

func (g *gen) key() string {
	g.nkey++
	if g.r.Chance(70) {
		return fmt.Sprintf("f%d", g.nkey)
	}
	return keyPool[g.r.Intn(len(keyPool))]
}
func (g *gen) str() string {
	r := g.r
	switch r.Intn(8) {
	case 0:
		return ""
	case 1:
		return string(fillBytes(r, []int{22, 23, 24, 25, 254, 255, 256, 257}[r.Intn(8)], 0))
	case 2:
		return string(fillBytes(r, r.Intn(40), 1))
	default:
		return string(fillBytes(r, r.Intn(20), 2))
	}
}
func (g *gen) bytes() []byte { return []byte(g.str()) }
func (g *gen) i64() int64 {
	if g.r.Chance(60) {
		return int64Bounds[g.r.Intn(len(int64Bounds))]
	}
	return int64(g.r.Next()) >> uint(g.r.Intn(64))
}
func (g *gen) u64() uint64 {
	if g.r.Chance(60) {
		return uint64Bounds[g.r.Intn(len(uint64Bounds))]
	}
	return g.r.Next() >> uint(g.r.Intn(64))
}
func (g *gen) f32() uint32 {
	if g.r.Chance(50) {
		return f32Bits[g.r.Intn(len(f32Bits))]
	}
	return uint32(g.r.Next())
}
func (g *gen) f64() uint64 {
	if g.r.Chance(50) {
		return f64Bits[g.r.Intn(len(f64Bits))]
	}
	return g.r.Next()
}
func (g *gen) time() time.Time {
	r := g.r
	secs := []int64{0, 23, 24, 255, 256, 65535, 65536, 1<<32 - 1, 1 << 32, 1700000000, -1, -24, -25, -257, -(1 << 33), 1 << 50}[r.Intn(16)]
	if r.Chance(30) {
		secs = int64(r.Next()) >> uint(4+r.Intn(50))
	}
	ns := int64(0)
	if r.Chance(50) {
		ns = int64(r.Intn(1000000000))
	}
	if g.c08 {
		// C08: years 1..9999 (what RFC 3339 can write); with a fraction |secs| < 2^33 (1698..2242), where
		// the float64 seconds of CBOR tag 1 still resolve a microsecond
		if ns != 0 {
			secs %= 1 << 33
		} else if secs < -62135596800 || secs > 253402300799 {
			u := uint64(secs) % uint64(253402300799+62135596800)
			secs = -62135596800 + int64(u)
		}
	}
	t := time.Unix(secs, ns)
	if g.loc != nil {
		t = t.In(g.loc) // C08: one location per program (the JSON text of a time depends on it)
	} else if r.Chance(30) {
		t = t.In(time.FixedZone("z", (r.Intn(27)-13)*3600))
	}
	g.tb.addTime(t)
	return t
}
func (g *gen) dur() time.Duration {
	d := time.Duration(g.i64())
	g.tb.addDur(d, g.unit)
	return d
}
func (g *gen) n() int {
	if g.forced {
		return g.forceN
	}
	return []int{0, 1, 2, 3, 23, 24, 25, 5}[g.r.Intn(8)]
}

func pString(s string) val { return vp("PString "+cbs([]byte(s)), cborref.Tx(s)) }
func pInt(v int64) val     { return vp("PInt "+cz(v), cborref.Int(v)) }
func pUint(v uint64) val   { return vp("PUint "+cn(v), cborref.U(v)) }
func pF32(b uint32) val    { curJT.addF32(b); return vp("PF32 "+cn(uint64(b)), cborref.Fl32(canon32(b))) }
func pF64(b uint64) val    { curJT.addF64(b); return vp("PF64 "+cn(b), cborref.Fl64(canon64(b))) }
func pBool(b bool) val {
	w := cborref.Sv(20)
	if b {
		w = cborref.Sv(21)
	}
	return vp("PBool "+CoqBool(b), w)
}
func pNil() val            { return vp("PNil", cborref.Sv(22)) }
func pBytes(b []byte) val  { return vp("PBytes "+cbs(b), cborref.Bs(b)) }
func pHex(b []byte) val    { return vp("PHex "+cbs(b), cborref.Tg(263, cborref.Bs(b))) }
func pJSON(b []byte) val   { return vp("PJSON "+cbs(b), cborref.Tg(262, cborref.Bs(b))) }
func pCBOR(b []byte) val   { curJT.addB64(b); return vp("PCBOR "+cbs(b), cborref.Tg(63, cborref.Bs(b))) }
func pTime(t time.Time) val { curJT.addTime(t); return vp("PTime "+ctime(t), wantTime(t)) }
func (g *gen) pDur(d time.Duration) val {
	curJT.addF64(math.Float64bits(float64(d) / float64(g.unit)))
	return vp(fmt.Sprintf("PDur %s %s %s", cz(int64(g.unit)), CoqBool(g.useInt), cz(int64(d))), wantDur(d, g.unit, g.useInt))
}
func pIface(v interface{}) val {
	j, err := json.Marshal(v)
	if err != nil {
		msg := err.Error()
		return vp("PIface (inr "+cbs([]byte(msg))+")", cborref.Tx("marshaling error: "+msg))
	}
	return vp("PIface (inl "+cbs(j)+")", cborref.Tg(262, cborref.Bs(j)))
}
func pIP(ip []byte) val  { curJT.addIP(ip); return vp("PIP "+cbs(ip), cborref.Tg(260, cborref.Bs(ip))) }
func pMAC(ha []byte) val { curJT.addMAC(ha); return vp("PMAC "+cbs(ha), cborref.Tg(260, cborref.Bs(ha))) }
func pPrefix(ip, mask []byte) val {
	curJT.addPrefix(ip, mask)
	return vp("PPrefix "+cbs(ip)+" "+cbs(mask), cborref.Tg(261, cborref.MapD(cborref.Bs(ip), cborref.U(maskOnes(mask)))))
}
func sliceVal(ctor string, list string, n int, f func(i int) *cborref.Item) val {
	return vp(ctor+" "+list, wantSlice(n, f))
}

var ifaceVals = []interface{}{nil, 42, "str", 2.5, []int{1, 2}, map[string]interface{}{"x": 1, "y": "é\""}, struct{ A, B int }{1, 2}, make(chan int), true, []string{}}

// field generates one API call for key k.  depth bounds nesting.
func (g *gen) field(k string, depth int) gfield {
	r := g.r
	kindMax := 46
	if depth <= 0 {
		kindMax = 40
	}
	switch kind := r.Intn(kindMax); kind {
	case 0, 1:
		s := g.str()
		return gfield{"Str", func(e *zerolog.Event) *zerolog.Event { return e.Str(k, s) }, func(c zerolog.Context) zerolog.Context { return c.Str(k, s) },
			func(a *zerolog.Array) *zerolog.Array { return a.Str(s) }, []kv{{k, pString(s)}}}
	case 2:
		n := g.n()
		ss := make([]string, n)
		bss := make([][]byte, n)
		for i := range ss {
			ss[i] = g.str()
			bss[i] = []byte(ss[i])
		}
		xs := make([]*cborref.Item, n)
		for i := range xs {
			xs[i] = cborref.Tx(ss[i])
		}
		v := vp("PStrings "+cbss(bss), cborref.Arr(xs...))
		return gfield{"Strs", func(e *zerolog.Event) *zerolog.Event { return e.Strs(k, ss) }, func(c zerolog.Context) zerolog.Context { return c.Strs(k, ss) }, nil, []kv{{k, v}}}
	case 3:
		if r.Chance(25) {
			// nil Stringer: Event writes null; Context marshals nil through AppendInterface
			return gfield{"Stringer(nil)", func(e *zerolog.Event) *zerolog.Event { return e.Stringer(k, nil) }, func(c zerolog.Context) zerolog.Context { return c.Stringer(k, nil) }, nil, []kv{{k, pNil()}}}
		}
		s := g.str()
		return gfield{"Stringer", func(e *zerolog.Event) *zerolog.Event { return e.Stringer(k, strer{s}) }, func(c zerolog.Context) zerolog.Context { return c.Stringer(k, strer{s}) }, nil,
			[]kv{{k, vp("PStringer "+copt([]byte(s), true), cborref.Tx(s))}}}
	case 4:
		n := g.n()
		sv := make([]fmt.Stringer, n)
		os := make([]string, n)
		ws := make([]*cborref.Item, n)
		for i := range sv {
			if r.Chance(20) {
				os[i], ws[i] = copt(nil, false), cborref.Sv(22)
			} else {
				s := g.str()
				sv[i], os[i], ws[i] = strer{s}, copt([]byte(s), true), cborref.Tx(s)
			}
		}
		v := vp("PStringers ("+CoqList(os)+" : list (option (list N)))", cborref.ArrI(ws...))
		return gfield{"Stringers", func(e *zerolog.Event) *zerolog.Event { return e.Stringers(k, sv) }, nil, nil, []kv{{k, v}}}
	case 5:
		b := g.bytes()
		return gfield{"Bytes", func(e *zerolog.Event) *zerolog.Event { return e.Bytes(k, b) }, func(c zerolog.Context) zerolog.Context { return c.Bytes(k, b) },
			func(a *zerolog.Array) *zerolog.Array { return a.Bytes(b) }, []kv{{k, pBytes(b)}}}
	case 6:
		b := g.bytes()
		return gfield{"Hex", func(e *zerolog.Event) *zerolog.Event { return e.Hex(k, b) }, func(c zerolog.Context) zerolog.Context { return c.Hex(k, b) },
			func(a *zerolog.Array) *zerolog.Array { return a.Hex(b) }, []kv{{k, pHex(b)}}}
	case 7:
		raws := [][]byte{[]byte(`{"a":1}`), []byte(`[1,2,"x"]`), []byte(`null`), []byte(``), []byte(`"s"`), []byte(strings.Repeat(" ", 300))}
		if g.c08 { // C08: the embedded text must itself be JSON
			raws = [][]byte{[]byte(`{"a":1}`), []byte(`[1,2,"x"]`), []byte(`null`), []byte(` {"k" : [1e5, -0.5, "\u00e9"] } `), []byte(`"s"`), []byte(`12345678901234567890`)}
		}
		b := raws[r.Intn(6)]
		return gfield{"RawJSON", func(e *zerolog.Event) *zerolog.Event { return e.RawJSON(k, b) }, func(c zerolog.Context) zerolog.Context { return c.RawJSON(k, b) },
			func(a *zerolog.Array) *zerolog.Array { return a.RawJSON(b) }, []kv{{k, pJSON(b)}}}
	case 8:
		b := [][]byte{{0x01}, {0xbf, 0xff}, {}, {0x83, 1, 2, 3}, fillBytes(r, 30, 1)}[r.Intn(5)]
		return gfield{"RawCBOR", func(e *zerolog.Event) *zerolog.Event { return e.RawCBOR(k, b) }, nil, nil, []kv{{k, pCBOR(b)}}}
	case 9:
		b := r.Bool()
		return gfield{"Bool", func(e *zerolog.Event) *zerolog.Event { return e.Bool(k, b) }, func(c zerolog.Context) zerolog.Context { return c.Bool(k, b) },
			func(a *zerolog.Array) *zerolog.Array { return a.Bool(b) }, []kv{{k, pBool(b)}}}
	case 10:
		n := g.n()
		bs := make([]bool, n)
		for i := range bs {
			bs[i] = r.Bool()
		}
		v := sliceVal("PBools", CoqBools(bs), n, func(i int) *cborref.Item {
			if bs[i] {
				return cborref.Sv(21)
			}
			return cborref.Sv(20)
		})
		return gfield{"Bools", func(e *zerolog.Event) *zerolog.Event { return e.Bools(k, bs) }, func(c zerolog.Context) zerolog.Context { return c.Bools(k, bs) }, nil, []kv{{k, v}}}
	case 11:
		v := g.i64()
		switch r.Intn(5) {
		case 0:
			return gfield{"Int", func(e *zerolog.Event) *zerolog.Event { return e.Int(k, int(v)) }, func(c zerolog.Context) zerolog.Context { return c.Int(k, int(v)) },
				func(a *zerolog.Array) *zerolog.Array { return a.Int(int(v)) }, []kv{{k, pInt(v)}}}
		case 1:
			w := int8(v)
			return gfield{"Int8", func(e *zerolog.Event) *zerolog.Event { return e.Int8(k, w) }, func(c zerolog.Context) zerolog.Context { return c.Int8(k, w) },
				func(a *zerolog.Array) *zerolog.Array { return a.Int8(w) }, []kv{{k, pInt(int64(w))}}}
		case 2:
			w := int16(v)
			return gfield{"Int16", func(e *zerolog.Event) *zerolog.Event { return e.Int16(k, w) }, func(c zerolog.Context) zerolog.Context { return c.Int16(k, w) },
				func(a *zerolog.Array) *zerolog.Array { return a.Int16(w) }, []kv{{k, pInt(int64(w))}}}
		case 3:
			w := int32(v)
			return gfield{"Int32", func(e *zerolog.Event) *zerolog.Event { return e.Int32(k, w) }, func(c zerolog.Context) zerolog.Context { return c.Int32(k, w) },
				func(a *zerolog.Array) *zerolog.Array { return a.Int32(w) }, []kv{{k, pInt(int64(w))}}}
		default:
			return gfield{"Int64", func(e *zerolog.Event) *zerolog.Event { return e.Int64(k, v) }, func(c zerolog.Context) zerolog.Context { return c.Int64(k, v) },
				func(a *zerolog.Array) *zerolog.Array { return a.Int64(v) }, []kv{{k, pInt(v)}}}
		}
	case 12:
		n := g.n()
		xs := make([]int64, n)
		which := r.Intn(5)
		for i := range xs {
			xs[i] = g.i64()
			switch which {
			case 1:
				xs[i] = int64(int8(xs[i]))
			case 2:
				xs[i] = int64(int16(xs[i]))
			case 3:
				xs[i] = int64(int32(xs[i]))
			}
		}
		v := sliceVal("PInts", czs(xs), n, func(i int) *cborref.Item { return cborref.Int(xs[i]) })
		switch which {
		case 0:
			w := make([]int, n)
			for i := range w {
				w[i] = int(xs[i])
			}
			return gfield{"Ints", func(e *zerolog.Event) *zerolog.Event { return e.Ints(k, w) }, func(c zerolog.Context) zerolog.Context { return c.Ints(k, w) }, nil, []kv{{k, v}}}
		case 1:
			w := make([]int8, n)
			for i := range w {
				w[i] = int8(xs[i])
			}
			return gfield{"Ints8", func(e *zerolog.Event) *zerolog.Event { return e.Ints8(k, w) }, func(c zerolog.Context) zerolog.Context { return c.Ints8(k, w) }, nil, []kv{{k, v}}}
		case 2:
			w := make([]int16, n)
			for i := range w {
				w[i] = int16(xs[i])
			}
			return gfield{"Ints16", func(e *zerolog.Event) *zerolog.Event { return e.Ints16(k, w) }, func(c zerolog.Context) zerolog.Context { return c.Ints16(k, w) }, nil, []kv{{k, v}}}
		case 3:
			w := make([]int32, n)
			for i := range w {
				w[i] = int32(xs[i])
			}
			return gfield{"Ints32", func(e *zerolog.Event) *zerolog.Event { return e.Ints32(k, w) }, func(c zerolog.Context) zerolog.Context { return c.Ints32(k, w) }, nil, []kv{{k, v}}}
		default:
			return gfield{"Ints64", func(e *zerolog.Event) *zerolog.Event { return e.Ints64(k, xs) }, func(c zerolog.Context) zerolog.Context { return c.Ints64(k, xs) }, nil, []kv{{k, v}}}
		}
	case 13:
		v := g.u64()
		switch r.Intn(5) {
		case 0:
			return gfield{"Uint", func(e *zerolog.Event) *zerolog.Event { return e.Uint(k, uint(v)) }, func(c zerolog.Context) zerolog.Context { return c.Uint(k, uint(v)) },
				func(a *zerolog.Array) *zerolog.Array { return a.Uint(uint(v)) }, []kv{{k, pUint(v)}}}
		case 1:
			w := uint8(v)
			return gfield{"Uint8", func(e *zerolog.Event) *zerolog.Event { return e.Uint8(k, w) }, func(c zerolog.Context) zerolog.Context { return c.Uint8(k, w) },
				func(a *zerolog.Array) *zerolog.Array { return a.Uint8(w) }, []kv{{k, pUint(uint64(w))}}}
		case 2:
			w := uint16(v)
			return gfield{"Uint16", func(e *zerolog.Event) *zerolog.Event { return e.Uint16(k, w) }, func(c zerolog.Context) zerolog.Context { return c.Uint16(k, w) },
				func(a *zerolog.Array) *zerolog.Array { return a.Uint16(w) }, []kv{{k, pUint(uint64(w))}}}
		case 3:
			w := uint32(v)
			return gfield{"Uint32", func(e *zerolog.Event) *zerolog.Event { return e.Uint32(k, w) }, func(c zerolog.Context) zerolog.Context { return c.Uint32(k, w) },
				func(a *zerolog.Array) *zerolog.Array { return a.Uint32(w) }, []kv{{k, pUint(uint64(w))}}}
		default:
			return gfield{"Uint64", func(e *zerolog.Event) *zerolog.Event { return e.Uint64(k, v) }, func(c zerolog.Context) zerolog.Context { return c.Uint64(k, v) },
				func(a *zerolog.Array) *zerolog.Array { return a.Uint64(v) }, []kv{{k, pUint(v)}}}
		}
	case 14:
		n := g.n()
		xs := make([]uint64, n)
		which := r.Intn(5)
		for i := range xs {
			xs[i] = g.u64()
			switch which {
			case 1:
				xs[i] = uint64(uint8(xs[i]))
			case 2:
				xs[i] = uint64(uint16(xs[i]))
			case 3:
				xs[i] = uint64(uint32(xs[i]))
			}
		}
		v := sliceVal("PUints", cns(xs), n, func(i int) *cborref.Item { return cborref.U(xs[i]) })
		switch which {
		case 0:
			w := make([]uint, n)
			for i := range w {
				w[i] = uint(xs[i])
			}
			return gfield{"Uints", func(e *zerolog.Event) *zerolog.Event { return e.Uints(k, w) }, func(c zerolog.Context) zerolog.Context { return c.Uints(k, w) }, nil, []kv{{k, v}}}
		case 1:
			w := make([]uint8, n)
			for i := range w {
				w[i] = uint8(xs[i])
			}
			return gfield{"Uints8", func(e *zerolog.Event) *zerolog.Event { return e.Uints8(k, w) }, func(c zerolog.Context) zerolog.Context { return c.Uints8(k, w) }, nil, []kv{{k, v}}}
		case 2:
			w := make([]uint16, n)
			for i := range w {
				w[i] = uint16(xs[i])
			}
			return gfield{"Uints16", func(e *zerolog.Event) *zerolog.Event { return e.Uints16(k, w) }, func(c zerolog.Context) zerolog.Context { return c.Uints16(k, w) }, nil, []kv{{k, v}}}
		case 3:
			w := make([]uint32, n)
			for i := range w {
				w[i] = uint32(xs[i])
			}
			return gfield{"Uints32", func(e *zerolog.Event) *zerolog.Event { return e.Uints32(k, w) }, func(c zerolog.Context) zerolog.Context { return c.Uints32(k, w) }, nil, []kv{{k, v}}}
		default:
			return gfield{"Uints64", func(e *zerolog.Event) *zerolog.Event { return e.Uints64(k, xs) }, func(c zerolog.Context) zerolog.Context { return c.Uints64(k, xs) }, nil, []kv{{k, v}}}
		}
	case 15:
		b := g.f32()
		f := math.Float32frombits(b)
		return gfield{"Float32", func(e *zerolog.Event) *zerolog.Event { return e.Float32(k, f) }, func(c zerolog.Context) zerolog.Context { return c.Float32(k, f) },
			func(a *zerolog.Array) *zerolog.Array { return a.Float32(f) }, []kv{{k, pF32(b)}}}
	case 16:
		b := g.f64()
		f := math.Float64frombits(b)
		return gfield{"Float64", func(e *zerolog.Event) *zerolog.Event { return e.Float64(k, f) }, func(c zerolog.Context) zerolog.Context { return c.Float64(k, f) },
			func(a *zerolog.Array) *zerolog.Array { return a.Float64(f) }, []kv{{k, pF64(b)}}}
	case 17:
		n := g.n()
		xs := make([]uint64, n)
		fs := make([]float32, n)
		for i := range fs {
			b := g.f32()
			curJT.addF32(b)
			xs[i], fs[i] = uint64(b), math.Float32frombits(b)
		}
		v := sliceVal("PFs32", cns(xs), n, func(i int) *cborref.Item { return cborref.Fl32(canon32(uint32(xs[i]))) })
		return gfield{"Floats32", func(e *zerolog.Event) *zerolog.Event { return e.Floats32(k, fs) }, func(c zerolog.Context) zerolog.Context { return c.Floats32(k, fs) }, nil, []kv{{k, v}}}
	case 18:
		n := g.n()
		xs := make([]uint64, n)
		fs := make([]float64, n)
		for i := range fs {
			xs[i] = g.f64()
			curJT.addF64(xs[i])
			fs[i] = math.Float64frombits(xs[i])
		}
		v := sliceVal("PFs64", cns(xs), n, func(i int) *cborref.Item { return cborref.Fl64(canon64(xs[i])) })
		return gfield{"Floats64", func(e *zerolog.Event) *zerolog.Event { return e.Floats64(k, fs) }, func(c zerolog.Context) zerolog.Context { return c.Floats64(k, fs) }, nil, []kv{{k, v}}}
	case 19, 20:
		t := g.time()
		return gfield{"Time", func(e *zerolog.Event) *zerolog.Event { return e.Time(k, t) }, func(c zerolog.Context) zerolog.Context { return c.Time(k, t) },
			func(a *zerolog.Array) *zerolog.Array { return a.Time(t) }, []kv{{k, pTime(t)}}}
	case 21:
		n := g.n()
		ts := make([]time.Time, n)
		cs := make([]string, n)
		for i := range ts {
			ts[i] = g.time()
			curJT.addTime(ts[i])
			cs[i] = ctime(ts[i])
		}
		v := sliceVal("PTimes", "("+CoqList(cs)+" : list (Z*N))", n, func(i int) *cborref.Item { return wantTime(ts[i]) })
		return gfield{"Times", func(e *zerolog.Event) *zerolog.Event { return e.Times(k, ts) }, func(c zerolog.Context) zerolog.Context { return c.Times(k, ts) }, nil, []kv{{k, v}}}
	case 22, 23:
		d := g.dur()
		return gfield{"Dur", func(e *zerolog.Event) *zerolog.Event { return e.Dur(k, d) }, func(c zerolog.Context) zerolog.Context { return c.Dur(k, d) },
			func(a *zerolog.Array) *zerolog.Array { return a.Dur(d) }, []kv{{k, g.pDur(d)}}}
	case 24:
		n := g.n()
		ds := make([]time.Duration, n)
		xs := make([]int64, n)
		for i := range ds {
			ds[i] = g.dur()
			curJT.addF64(math.Float64bits(float64(ds[i]) / float64(g.unit)))
			xs[i] = int64(ds[i])
		}
		unit, useInt := g.unit, g.useInt
		v := sliceVal(fmt.Sprintf("PDurs %s %s", cz(int64(unit)), CoqBool(useInt)), czs(xs), n, func(i int) *cborref.Item { return wantDur(ds[i], unit, useInt) })
		return gfield{"Durs", func(e *zerolog.Event) *zerolog.Event { return e.Durs(k, ds) }, func(c zerolog.Context) zerolog.Context { return c.Durs(k, ds) }, nil, []kv{{k, v}}}
	case 25:
		t, s := g.time(), g.time()
		var d time.Duration
		if t.After(s) {
			d = t.Sub(s)
		}
		g.tb.addDur(d, g.unit)
		return gfield{"TimeDiff", func(e *zerolog.Event) *zerolog.Event { return e.TimeDiff(k, t, s) }, nil, nil, []kv{{k, g.pDur(d)}}}
	case 26, 27:
		v := ifaceVals[r.Intn(len(ifaceVals))]
		return gfield{"Interface", func(e *zerolog.Event) *zerolog.Event {
			if r.Bool() {
				return e.Any(k, v)
			}
			return e.Interface(k, v)
		}, func(c zerolog.Context) zerolog.Context { return c.Interface(k, v) },
			func(a *zerolog.Array) *zerolog.Array { return a.Interface(v) }, []kv{{k, pIface(v)}}}
	case 28:
		v := ifaceVals[r.Intn(len(ifaceVals))]
		var pv val
		if v == nil {
			pv = vp("PType "+copt(nil, false), cborref.Tx("<nil>"))
		} else {
			ts := reflect.TypeOf(v).String()
			pv = vp("PType "+copt([]byte(ts), true), cborref.Tx(ts))
		}
		return gfield{"Type", func(e *zerolog.Event) *zerolog.Event { return e.Type(k, v) }, func(c zerolog.Context) zerolog.Context { return c.Type(k, v) }, nil, []kv{{k, pv}}}
	case 29:
		ips := [][]byte{{127, 0, 0, 1}, net.ParseIP("2001:db8::ff00:42:8329"), net.ParseIP("10.1.2.3"), nil, {1, 2, 3}}
		if g.c08 { // C08: 4- or 16-byte addresses
			ips = [][]byte{{127, 0, 0, 1}, net.ParseIP("2001:db8::ff00:42:8329"), net.ParseIP("10.1.2.3"), net.ParseIP("::"), net.ParseIP("1:0:0:2:0:0:0:3")}
		}
		ip := ips[r.Intn(5)]
		return gfield{"IPAddr", func(e *zerolog.Event) *zerolog.Event { return e.IPAddr(k, ip) }, func(c zerolog.Context) zerolog.Context { return c.IPAddr(k, ip) },
			func(a *zerolog.Array) *zerolog.Array { return a.IPAddr(ip) }, []kv{{k, pIP(ip)}}}
	case 30:
		var ip, mask []byte
		pk := r.Intn(4)
		if g.c08 { // C08: canonical prefixes (IP and mask of one length), IPv4-mapped ones included
			pk = r.Intn(2)
			if r.Chance(25) {
				pk = 4
			}
		}
		switch pk {
		case 4:
			ip, mask = net.ParseIP("::ffff:1.2.3.0"), net.CIDRMask(96+r.Intn(33), 128)
			if r.Bool() {
				ip, mask = net.ParseIP("::ffff:10.20.0.0"), net.CIDRMask(r.Intn(129), 128)
			}
		case 0:
			ip, mask = []byte{192, 168, 0, 0}, net.CIDRMask(r.Intn(33), 32)
		case 1:
			ip, mask = net.ParseIP("2001:db8::"), net.CIDRMask(r.Intn(129), 128)
		case 2:
			ip, mask = []byte{10, 0, 0, 0}, []byte{255, 0, 255, 0}
		default:
			ip, mask = []byte{10, 0, 0, 0}, nil
		}
		n := net.IPNet{IP: ip, Mask: mask}
		return gfield{"IPPrefix", func(e *zerolog.Event) *zerolog.Event { return e.IPPrefix(k, n) }, func(c zerolog.Context) zerolog.Context { return c.IPPrefix(k, n) },
			func(a *zerolog.Array) *zerolog.Array { return a.IPPrefix(n) }, []kv{{k, pPrefix(ip, mask)}}}
	case 31:
		has := [][]byte{{0, 1, 2, 3, 4, 5}, {0xde, 0xad, 0xbe, 0xef, 0, 1, 2, 3}, nil}
		if g.c08 { // C08: 6-byte MACs
			has = [][]byte{{0, 1, 2, 3, 4, 5}, {0xde, 0xad, 0xbe, 0xef, 0, 1}, {0xff, 0xff, 0xff, 0xff, 0xff, 0xff}}
		}
		ha := has[r.Intn(3)]
		return gfield{"MACAddr", func(e *zerolog.Event) *zerolog.Event { return e.MACAddr(k, ha) }, func(c zerolog.Context) zerolog.Context { return c.MACAddr(k, ha) },
			func(a *zerolog.Array) *zerolog.Array { return a.MACAddr(ha) }, []kv{{k, pMAC(ha)}}}
	case 32:
		if r.Chance(25) {
			return gfield{"Err(nil)", func(e *zerolog.Event) *zerolog.Event { return e.Err(nil) }, func(c zerolog.Context) zerolog.Context { return c.Err(nil) }, nil, nil}
		}
		msg := g.str()
		err := errors.New(msg)
		return gfield{"Err", func(e *zerolog.Event) *zerolog.Event { return e.Err(err) }, func(c zerolog.Context) zerolog.Context { return c.Err(err) },
			func(a *zerolog.Array) *zerolog.Array { return a.Err(err) }, []kv{{"error", pString(msg)}}}
	case 33:
		msg := g.str()
		err := errors.New(msg)
		return gfield{"AnErr", func(e *zerolog.Event) *zerolog.Event { return e.AnErr(k, err) }, func(c zerolog.Context) zerolog.Context { return c.AnErr(k, err) }, nil, []kv{{k, pString(msg)}}}
	case 34:
		n := r.Intn(4)
		errs := make([]error, n)
		vs := make([]val, n)
		for i := range errs {
			if r.Chance(25) {
				vs[i] = pIface(nil) // a nil error in Errs goes through Interface(nil)
			} else {
				m := g.str()
				errs[i], vs[i] = errors.New(m), pString(m)
			}
		}
		return gfield{"Errs", func(e *zerolog.Event) *zerolog.Event { return e.Errs(k, errs) }, func(c zerolog.Context) zerolog.Context { return c.Errs(k, errs) }, nil, []kv{{k, arrVal(vs)}}}
	case 35:
		return gfield{"Caller", func(e *zerolog.Event) *zerolog.Event { return e.Caller() }, nil, nil, []kv{{"caller", pString("F:1")}}}
	case 36:
		now := g.now
		g.tb.addTime(now)
		return gfield{"Timestamp", func(e *zerolog.Event) *zerolog.Event { return e.Timestamp() }, nil, nil, []kv{{"time", pTime(now)}}}
	case 37:
		// Fields(map): keys sorted
		m := map[string]interface{}{}
		var out []kv
		n := r.Intn(4)
		for i := 0; i < n; i++ {
			kk := g.key()
			if _, dup := m[kk]; dup {
				continue
			}
			v, pv := g.fieldsValue()
			m[kk] = v
			out = append(out, kv{kk, pv})
		}
		sort.SliceStable(out, func(i, j int) bool { return out[i].k < out[j].k })
		return gfield{"Fields(map)", func(e *zerolog.Event) *zerolog.Event { return e.Fields(m) }, func(c zerolog.Context) zerolog.Context { return c.Fields(m) }, nil, out}
	case 38:
		var l []interface{}
		var out []kv
		n := r.Intn(4)
		for i := 0; i < n; i++ {
			kk := g.key()
			v, pv := g.fieldsValue()
			l = append(l, kk, v)
			out = append(out, kv{kk, pv})
		}
		if r.Chance(30) {
			l = append(l, "dangling")
		}
		return gfield{"Fields(slice)", func(e *zerolog.Event) *zerolog.Event { return e.Fields(l) }, func(c zerolog.Context) zerolog.Context { return c.Fields(l) }, nil, out}
	case 39:
		return gfield{"Object(nil)", func(e *zerolog.Event) *zerolog.Event { return e.Object(k, nil) }, nil, nil, []kv{{k, pNil()}}}
	case 40, 41:
		sub := g.fields(r.Intn(4), depth-1)
		out := flatten(sub)
		if r.Bool() {
			return gfield{"Dict", func(e *zerolog.Event) *zerolog.Event {
				d := zerolog.Dict()
				for _, f := range sub {
					f.ev(d)
				}
				return e.Dict(k, d)
			}, func(c zerolog.Context) zerolog.Context {
				d := zerolog.Dict()
				for _, f := range sub {
					f.ev(d)
				}
				return c.Dict(k, d)
			}, func(a *zerolog.Array) *zerolog.Array {
				d := zerolog.Dict()
				for _, f := range sub {
					f.ev(d)
				}
				return a.Dict(d)
			}, []kv{{k, dictVal(out)}}}
		}
		o := objM{sub}
		return gfield{"Object", func(e *zerolog.Event) *zerolog.Event { return e.Object(k, o) }, func(c zerolog.Context) zerolog.Context { return c.Object(k, o) },
			func(a *zerolog.Array) *zerolog.Array { return a.Object(o) }, []kv{{k, dictVal(out)}}}
	case 42, 43:
		n := r.Intn(5)
		var sub []gfield
		var vs []val
		for len(sub) < n {
			f := g.field("", depth-1)
			if f.arr == nil || len(f.out) != 1 {
				continue
			}
			sub = append(sub, f)
			vs = append(vs, f.out[0].v)
		}
		if r.Bool() {
			return gfield{"Array(Arr)", func(e *zerolog.Event) *zerolog.Event {
				a := zerolog.Arr()
				for _, f := range sub {
					f.arr(a)
				}
				return e.Array(k, a)
			}, func(c zerolog.Context) zerolog.Context {
				a := zerolog.Arr()
				for _, f := range sub {
					f.arr(a)
				}
				return c.Array(k, a)
			}, nil, []kv{{k, arrVal(vs)}}}
		}
		am := arrM{sub}
		return gfield{"Array(marshaler)", func(e *zerolog.Event) *zerolog.Event { return e.Array(k, am) }, func(c zerolog.Context) zerolog.Context { return c.Array(k, am) }, nil, []kv{{k, arrVal(vs)}}}
	default:
		sub := g.fields(r.Intn(3), depth-1)
		o := objM{sub}
		return gfield{"EmbedObject", func(e *zerolog.Event) *zerolog.Event { return e.EmbedObject(o) }, func(c zerolog.Context) zerolog.Context { return c.EmbedObject(o) }, nil, flatten(sub)}
	}
}

// a value for Fields(): Go value and the primitive the type switch selects
func (g *gen) fieldsValue() (interface{}, val) {
	r := g.r
	switch r.Intn(14) {
	case 0:
		s := g.str()
		return s, pString(s)
	case 1:
		b := g.bytes()
		return b, pBytes(b)
	case 2:
		m := g.str()
		return errors.New(m), pString(m)
	case 3:
		v := g.i64()
		return int(v), pInt(v)
	case 4:
		v := g.u64()
		return v, pUint(v)
	case 5:
		b := g.f64()
		return math.Float64frombits(b), pF64(b)
	case 6:
		b := g.f32()
		return math.Float32frombits(b), pF32(b)
	case 7:
		t := g.time()
		return t, pTime(t)
	case 8:
		d := g.dur()
		return d, g.pDur(d)
	case 9:
		return nil, pNil()
	case 10:
		b := r.Bool()
		return b, pBool(b)
	case 11:
		v := int8(g.i64())
		return &v, pInt(int64(v))
	case 12:
		var p *string
		return p, pNil()
	default:
		v := ifaceVals[1+r.Intn(len(ifaceVals)-1)]
		switch v.(type) {
		case int, string, float64, bool, []int, []string:
			return struct{ Z int }{3}, pIface(struct{ Z int }{3})
		}
		return v, pIface(v)
	}
}

func (g *gen) fields(n, depth int) []gfield {
	fs := make([]gfield, 0, n)
	for i := 0; i < n; i++ {
		fs = append(fs, g.field(g.key(), depth))
	}
	return fs
}
func flatten(fs []gfield) []kv {
	var out []kv
	for _, f := range fs {
		out = append(out, f.out...)
	}
	return out
}

func kinds2(fs []gfield) []string {
	out := make([]string, len(fs))
	for i, f := range fs {
		out[i] = f.kind
	}
	return out
}

func firstDiff(a, b *cborref.Item) string {
	if a.Kind != b.Kind || a.Indef != b.Indef {
		return fmt.Sprintf("got %s, want %s", trunc(a.String(), 120), trunc(b.String(), 120))
	}
	switch a.Kind {
	case cborref.Array, cborref.Map:
		if len(a.Items) != len(b.Items) {
			return fmt.Sprintf("%d items, want %d", len(a.Items), len(b.Items))
		}
		for i := range a.Items {
			if !cborref.Equal(a.Items[i], b.Items[i]) {
				return fmt.Sprintf("item %d: %s", i, firstDiff(a.Items[i], b.Items[i]))
			}
		}
	case cborref.Tag:
		if a.N == b.N {
			return fmt.Sprintf("tag %d: %s", a.N, firstDiff(a.Inner, b.Inner))
		}
	}
	return fmt.Sprintf("got %s, want %s", trunc(a.String(), 120), trunc(b.String(), 120))
}
