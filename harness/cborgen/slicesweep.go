package cborgen

import (
	"fmt"
	"io"
	"time"

	"github.com/rs/zerolog"
	. "verifharness/hlib"
)

// SliceKinds: the typed slice methods whose binary form is a definite-length array (header = major type 4
// with the element count in the 0..23 / 1 / 2 / 4 / 8-byte form).
var SliceKinds = []string{"Strs", "Bools", "Ints", "Ints8", "Ints16", "Ints32", "Ints64", "Uints", "Uints8", "Uints16", "Uints32", "Uints64",
	"Floats32", "Floats64", "Times", "Durs"}

// SliceProg: one program logging a slice of exactly n elements through the typed method `kind` (as an event
// field, or in the logger context when inCtx), followed by one more field, so that elements spilling out
// of a wrong header change what follows.  The element values come from the generator's own value pools.
func SliceProg(r *Rng, kind string, n int, inCtx bool) *Prog {
	mk := func(rr Rng, n int) (*gen, *JTables, gfield) {
		g := &gen{r: &rr, tb: newTables(), c08: true, forced: true, forceN: n}
		jt := newJTables()
		curJT = jt
		defer func() { curJT = nil }()
		g.unit = []time.Duration{time.Millisecond, time.Second, time.Nanosecond}[g.r.Intn(3)]
		g.useInt = g.r.Chance(40)
		g.loc = time.UTC
		g.now = time.Unix(1700000000, 0).UTC()
		return g, jt, g.field("s", 0)
	}
	for tries := 0; tries < 20000; tries++ {
		// which method a generator state selects does not depend on the forced length: probe with empty
		// slices, then replay the same state with n elements
		state := *r.Fork()
		if _, _, probe := mk(state, 0); probe.kind != kind || (inCtx && probe.ctx == nil) {
			continue
		}
		g, jt, f := mk(state, n)
		if f.kind != kind {
			panic("cborgen.SliceProg: the selected method depends on the slice length")
		}
		curJT = jt
		after := kv{"after", pString("x")}
		curJT = nil
		p := &Prog{JT: jt, unit: g.unit, useInt: g.useInt, now: g.now}
		p.Pre = toKV([]kv{{"level", pString("info")}})
		if inCtx {
			p.Ctx = toKV(f.out)
			p.Ev = toKV([]kv{after})
		} else {
			p.Ev = toKV(append(append([]kv{}, f.out...), after))
		}
		p.Tb = g.tb.coq()
		p.Kinds = []string{kind}
		where := "Event"
		if inCtx {
			where = "Context"
		}
		p.Desc = map[string]interface{}{"slice_sweep": fmt.Sprintf("%s.%s(\"s\", <%d elements>) then Str(\"after\",\"x\")", where, kind, n), "elements": n, "unit": g.unit.String(), "dur_int": g.useInt}
		p.run = func(w io.Writer) {
			l := zerolog.New(w)
			if inCtx {
				l = f.ctx(l.With()).Logger()
				l.Info().Str("after", "x").Send()
				return
			}
			f.ev(l.Info()).Str("after", "x").Send()
		}
		return p
	}
	panic("cborgen.SliceProg: the generator never produced kind " + kind)
}
