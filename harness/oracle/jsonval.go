// Package oracle holds property monitors that are independent of the Coq
// model and of zerolog: reference validators / parsers applied to what the
// implementation produced.
package oracle

import (
	"fmt"
	"unicode/utf8"
)

// Member is one object member in document order (duplicates kept).
type Member struct {
	Key string
	Val Value
}

// Value is a parsed JSON value; numbers keep their literal text.
type Value struct {
	Kind    byte // n null, t true, f false, # number, s string, a array, o object
	Num     string
	Str     string
	Arr     []Value
	Members []Member
}

type parser struct {
	b []byte
	i int
}

func (p *parser) ws() {
	for p.i < len(p.b) && (p.b[p.i] == ' ' || p.b[p.i] == '\t' || p.b[p.i] == '\n' || p.b[p.i] == '\r') {
		p.i++
	}
}

func (p *parser) fail(msg string) error { return fmt.Errorf("offset %d: %s", p.i, msg) }

func (p *parser) lit(s string, k byte) (Value, error) {
	if p.i+len(s) <= len(p.b) && string(p.b[p.i:p.i+len(s)]) == s {
		p.i += len(s)
		return Value{Kind: k}, nil
	}
	return Value{}, p.fail("bad literal")
}

func isDigit(c byte) bool { return c >= '0' && c <= '9' }

func (p *parser) number() (Value, error) {
	st := p.i
	if p.i < len(p.b) && p.b[p.i] == '-' {
		p.i++
	}
	if p.i >= len(p.b) {
		return Value{}, p.fail("number: eof")
	}
	if p.b[p.i] == '0' {
		p.i++
	} else if p.b[p.i] >= '1' && p.b[p.i] <= '9' {
		for p.i < len(p.b) && isDigit(p.b[p.i]) {
			p.i++
		}
	} else {
		return Value{}, p.fail("number: digit expected")
	}
	if p.i < len(p.b) && p.b[p.i] == '.' {
		p.i++
		if p.i >= len(p.b) || !isDigit(p.b[p.i]) {
			return Value{}, p.fail("number: fraction digit expected")
		}
		for p.i < len(p.b) && isDigit(p.b[p.i]) {
			p.i++
		}
	}
	if p.i < len(p.b) && (p.b[p.i] == 'e' || p.b[p.i] == 'E') {
		p.i++
		if p.i < len(p.b) && (p.b[p.i] == '+' || p.b[p.i] == '-') {
			p.i++
		}
		if p.i >= len(p.b) || !isDigit(p.b[p.i]) {
			return Value{}, p.fail("number: exponent digit expected")
		}
		for p.i < len(p.b) && isDigit(p.b[p.i]) {
			p.i++
		}
	}
	return Value{Kind: '#', Num: string(p.b[st:p.i])}, nil
}

func hexv(c byte) (rune, bool) {
	switch {
	case c >= '0' && c <= '9':
		return rune(c - '0'), true
	case c >= 'a' && c <= 'f':
		return rune(c-'a') + 10, true
	case c >= 'A' && c <= 'F':
		return rune(c-'A') + 10, true
	}
	return 0, false
}

func (p *parser) hex4() (rune, error) {
	if p.i+4 > len(p.b) {
		return 0, p.fail("\\u: eof")
	}
	var r rune
	for k := 0; k < 4; k++ {
		v, ok := hexv(p.b[p.i+k])
		if !ok {
			return 0, p.fail("\\u: bad hex digit")
		}
		r = r*16 + v
	}
	p.i += 4
	return r, nil
}

func (p *parser) str() (string, error) {
	if p.i >= len(p.b) || p.b[p.i] != '"' {
		return "", p.fail("string: quote expected")
	}
	p.i++
	var out []rune
	for {
		if p.i >= len(p.b) {
			return "", p.fail("string: eof")
		}
		c := p.b[p.i]
		switch {
		case c == '"':
			p.i++
			return string(out), nil
		case c < 0x20:
			return "", p.fail(fmt.Sprintf("string: raw control byte 0x%02x", c))
		case c == '\\':
			p.i++
			if p.i >= len(p.b) {
				return "", p.fail("escape: eof")
			}
			e := p.b[p.i]
			p.i++
			switch e {
			case '"', '\\', '/':
				out = append(out, rune(e))
			case 'b':
				out = append(out, 8)
			case 'f':
				out = append(out, 12)
			case 'n':
				out = append(out, 10)
			case 'r':
				out = append(out, 13)
			case 't':
				out = append(out, 9)
			case 'u':
				r, err := p.hex4()
				if err != nil {
					return "", err
				}
				if r >= 0xD800 && r < 0xDC00 && p.i+1 < len(p.b) && p.b[p.i] == '\\' && p.b[p.i+1] == 'u' {
					save := p.i
					p.i += 2
					r2, err := p.hex4()
					if err == nil && r2 >= 0xDC00 && r2 < 0xE000 {
						r = 0x10000 + (r-0xD800)<<10 + (r2 - 0xDC00)
					} else {
						p.i = save
					}
				}
				out = append(out, r) // lone surrogates are grammatical in RFC 8259
			default:
				return "", p.fail("bad escape")
			}
		default:
			r, size := utf8.DecodeRune(p.b[p.i:])
			if r == utf8.RuneError && size == 1 {
				return "", p.fail(fmt.Sprintf("string: ill-formed UTF-8 byte 0x%02x", c))
			}
			out = append(out, r)
			p.i += size
		}
	}
}

func (p *parser) value(depth int) (Value, error) {
	if depth > 10000 {
		return Value{}, p.fail("too deep")
	}
	p.ws()
	if p.i >= len(p.b) {
		return Value{}, p.fail("value: eof")
	}
	switch c := p.b[p.i]; {
	case c == 'n':
		return p.lit("null", 'n')
	case c == 't':
		return p.lit("true", 't')
	case c == 'f':
		return p.lit("false", 'f')
	case c == '"':
		s, err := p.str()
		return Value{Kind: 's', Str: s}, err
	case c == '-' || isDigit(c):
		return p.number()
	case c == '[':
		p.i++
		v := Value{Kind: 'a'}
		p.ws()
		if p.i < len(p.b) && p.b[p.i] == ']' {
			p.i++
			return v, nil
		}
		for {
			e, err := p.value(depth + 1)
			if err != nil {
				return v, err
			}
			v.Arr = append(v.Arr, e)
			p.ws()
			if p.i >= len(p.b) {
				return v, p.fail("array: eof")
			}
			if p.b[p.i] == ',' {
				p.i++
				continue
			}
			if p.b[p.i] == ']' {
				p.i++
				return v, nil
			}
			return v, p.fail("array: , or ] expected")
		}
	case c == '{':
		p.i++
		v := Value{Kind: 'o'}
		p.ws()
		if p.i < len(p.b) && p.b[p.i] == '}' {
			p.i++
			return v, nil
		}
		for {
			p.ws()
			k, err := p.str()
			if err != nil {
				return v, err
			}
			p.ws()
			if p.i >= len(p.b) || p.b[p.i] != ':' {
				return v, p.fail("object: colon expected")
			}
			p.i++
			e, err := p.value(depth + 1)
			if err != nil {
				return v, err
			}
			v.Members = append(v.Members, Member{k, e})
			p.ws()
			if p.i >= len(p.b) {
				return v, p.fail("object: eof")
			}
			if p.b[p.i] == ',' {
				p.i++
				continue
			}
			if p.b[p.i] == '}' {
				p.i++
				return v, nil
			}
			return v, p.fail("object: , or } expected")
		}
	}
	return Value{}, p.fail(fmt.Sprintf("unexpected byte 0x%02x", p.b[p.i]))
}

// ParseJSON parses exactly one JSON value (surrounding whitespace allowed).
func ParseJSON(b []byte) (Value, error) {
	p := &parser{b: b}
	v, err := p.value(0)
	if err != nil {
		return v, err
	}
	p.ws()
	if p.i != len(b) {
		return v, p.fail("trailing bytes after the value")
	}
	return v, nil
}

// CheckEventLine states C01 on one Write argument: exactly one RFC 8259 object, valid UTF-8,
// ended by exactly one newline, no other byte below 0x20.
func CheckEventLine(line []byte) (Value, error) {
	if len(line) == 0 || line[len(line)-1] != '\n' {
		return Value{}, fmt.Errorf("does not end in a newline")
	}
	body := line[:len(line)-1]
	for i, c := range body {
		if c < 0x20 {
			return Value{}, fmt.Errorf("raw control byte 0x%02x at offset %d", c, i)
		}
	}
	if !utf8.Valid(body) {
		return Value{}, fmt.Errorf("not valid UTF-8")
	}
	if len(body) == 0 || body[0] != '{' {
		return Value{}, fmt.Errorf("does not start with {")
	}
	v, err := ParseJSON(body)
	if err != nil {
		return v, fmt.Errorf("not well-formed JSON: %v", err)
	}
	if v.Kind != 'o' {
		return v, fmt.Errorf("not a JSON object")
	}
	return v, nil
}
