//go:build verif

// This file is NOT part of rs/zerolog. It is injected into package zerolog at
// check time with `go build -overlay`: what the C08 driver needs from
// internal/cbor.  Compiles with and without -tags binary_log.
package zerolog

import (
	"io"

	"github.com/rs/zerolog/internal/cbor"
)

// VerifC08EncIsCBOR reports whether this build uses the binary encoder.
func VerifC08EncIsCBOR() bool {
	_, ok := interface{}(enc).(cbor.Encoder)
	return ok
}

// VerifC08Decode is the bundled CBOR-to-JSON decoder.
func VerifC08Decode(src io.Reader, dst io.Writer) error { return cbor.Cbor2JsonManyObjects(src, dst) }
