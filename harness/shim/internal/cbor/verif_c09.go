//go:build verif

// This file is NOT part of rs/zerolog. It is injected into package
// internal/cbor at check time with `go build -overlay` (nothing is committed
// to /repo): it exports the unexported prefix encoder to the C09 driver.
package cbor

func VerifAppendCborTypePrefix(dst []byte, major byte, number uint64) []byte {
	return appendCborTypePrefix(dst, major, number)
}
