//go:build verif

// This file is NOT part of rs/zerolog. It is injected into package zerolog at
// check time with `go build -overlay`.  internal/cbor cannot be imported from
// outside the module, so the C09 driver reaches the CBOR encoder primitives
// through these re-exports.  Compiles with and without -tags binary_log.
package zerolog

import "github.com/rs/zerolog/internal/cbor"

// VerifCbor is the binary encoder (the value `enc` has under -tags binary_log).
var VerifCbor = cbor.Encoder{}

func VerifCborPrefix(dst []byte, major byte, number uint64) []byte {
	return cbor.VerifAppendCborTypePrefix(dst, major, number)
}
func VerifCborEmbeddedJSON(dst, s []byte) []byte { return cbor.AppendEmbeddedJSON(dst, s) }
func VerifCborEmbeddedCBOR(dst, s []byte) []byte { return cbor.AppendEmbeddedCBOR(dst, s) }

// VerifCborSetJSONMarshal installs the marshal function AppendInterface uses
// (encoder_cbor.go does the same in its init under binary_log).
func VerifCborSetJSONMarshal(f func(interface{}) ([]byte, error)) { cbor.JSONMarshalFunc = f }
func VerifCborJSONMarshal() func(interface{}) ([]byte, error)     { return cbor.JSONMarshalFunc }

// VerifEncIsCBOR reports whether package zerolog was built with the binary encoder.
func VerifEncIsCBOR() bool {
	_, ok := interface{}(enc).(cbor.Encoder)
	return ok
}
