//go:build verif

package diode

// Harness access (C10-C12 driver) to what NewWriter is built from: the many-to-one ring and the poller
// of diode/internal/diodes, through their exported API only, so that the harness can put its own Diode
// (the real ring behind a wrapper that marks the probes) under the real Poller.  Nothing here is used
// by the library.

import (
	"context"
	"time"

	"github.com/rs/zerolog/diode/internal/diodes"
)

type VerifDiode = diodes.Diode
type VerifData = diodes.GenericDataType

// VerifFetcher: what Writer keeps in its d field (Set from the producers, Next from the consumer loop)
type VerifFetcher interface {
	Set(VerifData)
	Next() VerifData
}

func VerifNewManyToOne(size int, f func(missed int)) VerifDiode {
	return diodes.NewManyToOne(size, diodes.AlertFunc(f))
}

// VerifNewPoller builds the poller exactly as NewWriter does for pollInterval > 0, over the given Diode.
func VerifNewPoller(d VerifDiode, pollInterval time.Duration, ctx context.Context) VerifFetcher {
	return diodes.NewPoller(d,
		diodes.WithPollingInterval(pollInterval),
		diodes.WithPollingContext(ctx))
}
