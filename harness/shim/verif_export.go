//go:build verif

// This file is NOT part of rs/zerolog. It is injected into package zerolog at
// check time with `go build -overlay` (nothing is committed to /repo) and
// gives the verification harness narrow access to unexported state.
package zerolog

import "sync/atomic"

// ---- samplers (C13) ----

func VerifSetBasicCounter(s *BasicSampler, c uint32) { atomic.StoreUint32(&s.counter, c) }
func VerifBasicCounter(s *BasicSampler) uint32       { return atomic.LoadUint32(&s.counter) }
func VerifSetBurstState(s *BurstSampler, c uint32, resetAt int64) {
	atomic.StoreUint32(&s.counter, c)
	atomic.StoreInt64(&s.resetAt, resetAt)
}
func VerifBurstState(s *BurstSampler) (uint32, int64) {
	return atomic.LoadUint32(&s.counter), atomic.LoadInt64(&s.resetAt)
}
