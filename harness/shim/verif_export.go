//go:build verif

// This file is NOT part of rs/zerolog. It is injected into package zerolog at
// check time with `go build -overlay` (nothing is committed to /repo) and
// gives the verification harness narrow access to unexported state.
package zerolog

import (
	"reflect"
	"sync/atomic"
	"unsafe"
)

// ---- samplers (C13) ----
//
// The private state of the samplers is located by SHAPE (the first unexported
// uint32 field = the call counter, the first unexported int64 field = the
// window mark), not by name: a change that renames or re-interprets such a
// field must not stop the harness from building, because then the monitors
// could not look for a failing input at all (seeded change C13-5).  When a
// field of the expected shape does not exist the setters report false and the
// driver generates fresh (zero-state) samplers only.

func verifPrivField(p interface{}, k reflect.Kind) unsafe.Pointer {
	v := reflect.ValueOf(p).Elem()
	t := v.Type()
	for i := 0; i < t.NumField(); i++ {
		f := t.Field(i)
		if f.PkgPath != "" && f.Type.Kind() == k {
			return unsafe.Pointer(v.Field(i).UnsafeAddr())
		}
	}
	return nil
}

func VerifSetBasicCounter(s *BasicSampler, c uint32) bool {
	p := verifPrivField(s, reflect.Uint32)
	if p == nil {
		return false
	}
	atomic.StoreUint32((*uint32)(p), c)
	return true
}
func VerifBasicCounter(s *BasicSampler) uint32 {
	p := verifPrivField(s, reflect.Uint32)
	if p == nil {
		return 0
	}
	return atomic.LoadUint32((*uint32)(p))
}

// VerifSetBurstState presets the counter and the window mark (on the pinned
// tree: resetAt, the end of the current window in UnixNano).
func VerifSetBurstState(s *BurstSampler, c uint32, resetAt int64) bool {
	pc := verifPrivField(s, reflect.Uint32)
	pr := verifPrivField(s, reflect.Int64)
	if pc == nil || pr == nil {
		return false
	}
	atomic.StoreUint32((*uint32)(pc), c)
	atomic.StoreInt64((*int64)(pr), resetAt)
	return true
}
func VerifBurstState(s *BurstSampler) (uint32, int64) {
	pc := verifPrivField(s, reflect.Uint32)
	pr := verifPrivField(s, reflect.Int64)
	if pc == nil || pr == nil {
		return 0, 0
	}
	return atomic.LoadUint32((*uint32)(pc)), atomic.LoadInt64((*int64)(pr))
}
