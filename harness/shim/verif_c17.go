//go:build verif

// This file is NOT part of rs/zerolog. It is injected into package zerolog at
// check time with `go build -overlay`: re-exports of the CBOR-to-JSON decoder
// of internal/cbor for the C17 driver.  Compiles with and without binary_log.
package zerolog

import (
	"io"

	"github.com/rs/zerolog/internal/cbor"
)

func VerifCbor2JsonManyObjects(src io.Reader, dst io.Writer) error {
	return cbor.Cbor2JsonManyObjects(src, dst)
}
func VerifDecodeIfBinaryToBytes(in []byte) []byte   { return cbor.DecodeIfBinaryToBytes(in) }
func VerifDecodeIfBinaryToString(in []byte) string  { return cbor.DecodeIfBinaryToString(in) }
func VerifDecodeObjectToStr(in []byte) string       { return cbor.DecodeObjectToStr(in) }
func VerifC17EncIsCBOR() bool {
	_, ok := interface{}(enc).(cbor.Encoder)
	return ok
}
func VerifC17TimeFormats() (string, string) { return cbor.IntegerTimeFieldFormat, cbor.NanoTimeFieldFormat }
