//go:build verif

// Injected into package zerolog at check time (overlay); not part of rs/zerolog.
package zerolog

// VerifDrainEventPool takes n events out of the event pool and reports how many of them are the SAME object
// as an earlier one (an object that was put back more than once), then puts each distinct object back once.
func VerifDrainEventPool(n int) int {
	seen := map[*Event]bool{}
	dups := 0
	var got []*Event
	for i := 0; i < n; i++ {
		e := eventPool.Get().(*Event)
		if seen[e] {
			dups++
			continue
		}
		seen[e] = true
		got = append(got, e)
	}
	for _, e := range got {
		eventPool.Put(e)
	}
	return dups
}
