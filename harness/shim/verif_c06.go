//go:build verif

// Injected into package zerolog at check time (overlay); not part of rs/zerolog.
package zerolog

import (
	"bytes"
	"sync"
)

// VerifDrainEventPool takes n events out of the event pool and reports how many of them are the SAME object
// as an earlier one (an object that was put back more than once), then puts each distinct object back once.
func VerifDrainEventPool(n int) int {
	seen := map[*Event]bool{}
	dups := 0
	var got []*Event
	for i := 0; i < n; i++ {
		e := eventPool.Get().(*Event)
		if seen[e] {
			dups++
			continue
		}
		seen[e] = true
		got = append(got, e)
	}
	for _, e := range got {
		eventPool.Put(e)
	}
	return dups
}

// VerifC06FreshPools replaces the event and array pools by empty ones (same New functions as event.go / array.go):
// what a call chain renders right after it is what the chain produces when run alone, with no pool history.
// Only called while no goroutine is logging.
func VerifC06FreshPools() {
	eventPool = &sync.Pool{New: func() interface{} { return &Event{buf: make([]byte, 0, 500)} }}
	arrayPool = &sync.Pool{New: func() interface{} { return &Array{buf: make([]byte, 0, 500)} }}
}

// VerifC06FreshConsolePool replaces ConsoleWriter's buffer pool by an empty one (same New function as console.go).
// Only called while no goroutine is logging.
func VerifC06FreshConsolePool() {
	consoleBufPool = sync.Pool{New: func() interface{} { return bytes.NewBuffer(make([]byte, 0, 100)) }}
}
