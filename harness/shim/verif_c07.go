//go:build verif

// Injected into package zerolog at check time (overlay); not part of rs/zerolog.
package zerolog

import (
	"sync"
	"sync/atomic"
)

var (
	VerifEventNews int64
	VerifArrayNews int64
)

// VerifResetPools replaces both pools by empty ones whose New functions count how often they had to allocate.
func VerifResetPools() {
	atomic.StoreInt64(&VerifEventNews, 0)
	atomic.StoreInt64(&VerifArrayNews, 0)
	eventPool = &sync.Pool{New: func() interface{} {
		atomic.AddInt64(&VerifEventNews, 1)
		return &Event{buf: make([]byte, 0, 500)}
	}}
	arrayPool = &sync.Pool{New: func() interface{} {
		atomic.AddInt64(&VerifArrayNews, 1)
		return &Array{buf: make([]byte, 0, 500)}
	}}
}

func VerifPoolNews() (int64, int64) {
	return atomic.LoadInt64(&VerifEventNews), atomic.LoadInt64(&VerifArrayNews)
}
