package diodeh

// Black-box overflow episodes (C12, and the Close variant for C11): the ring is lapped several
// times in a row with varying pauses in between, and after every episode the books must balance
// WITHOUT any further Write or Close: every Write that returned has reached the wrapped writer
// or is covered by the counts handed to the Alerter.
//
// One producer, and the consumer is held inside the wrapped writer while the ring is lapped, so
// no Set overlaps a TryNext: none of the known findings (abandoned position, first-lap
// overwrite, lost wake-up) can occur in the part that is judged, and on the unchanged code
// delivered + reported == written is reached within microseconds of the release.  The monitor
// only demands ">=" and waits bbLimit for it.

import (
	"fmt"
	"sync"
	"sync/atomic"
	"time"

	"github.com/rs/zerolog/diode"
	"verifharness/hlib"
)

type ovCfg struct {
	poll     time.Duration
	ring     int
	perEp    int           // Writes per episode while the consumer is held (>= ring+1: the ring is lapped)
	gap      time.Duration // pause between the balance of one episode and the start of the next
	episodes int
}

type ovResult struct {
	cfg      ovCfg
	viol     *hlib.Violation
	balanced int // episodes after which the books balanced
	exact    bool
}

func (x ovCfg) json(scenario string) map[string]interface{} {
	return map[string]interface{}{"scenario": scenario, "poll": x.poll.String(), "ring": x.ring, "writes_per_episode_while_sink_blocked": x.perEp,
		"pause_between_episodes": x.gap.String(), "episodes": x.episodes, "producers": 1}
}

// runOverflowEpisodes: closeAtOnce=false (C12): after every episode wait, without Write or Close,
// for delivered + reported >= written.  closeAtOnce=true (C11): the same episodes, only the state
// after Close is judged: the last episode is followed by Close at once and the books are looked
// at after Close returned.
func runOverflowEpisodes(x ovCfg, closeAtOnce bool) (res ovResult) {
	res.cfg = x
	res.exact = true
	scenario := "overflow-episodes-then-quiet"
	if closeAtOnce {
		scenario = "overflow-episodes-then-close"
	}
	cs := x.json(scenario)
	g := newGate(true)
	sink := &bbSink{g: g}
	var reported int64
	var alerts []string
	var amu sync.Mutex
	t0 := time.Now()
	dw := diode.NewWriter(sink, x.ring, x.poll, func(m int) {
		atomic.AddInt64(&reported, int64(m))
		amu.Lock()
		alerts = append(alerts, fmt.Sprintf("+%d@%dms", m, time.Since(t0).Milliseconds()))
		amu.Unlock()
	})
	closed := false
	defer func() {
		if !closed {
			within(func() { dw.Close() })
		}
	}()
	written := 0
	write := func(tag string) {
		dw.Write([]byte(fmt.Sprintf("{\"w\":\"%s%d\"}\n", tag, written)))
		written++
	}
	var history []map[string]interface{}
	for ep := 0; ep < x.episodes; ep++ {
		if ep > 0 {
			time.Sleep(x.gap)
		}
		// hold the consumer inside the wrapped writer: one message, wait until it is in there.  (A
		// message written to an idle waiter can sit unnoticed - the known lost wake-up; a second
		// one wakes the consumer, so keep writing one every 200 ms.)
		g.shut()
		held := false
		for try := 0; try < 25 && !held; try++ {
			write("h")
			for t := time.Now(); time.Since(t) < 200*time.Millisecond; {
				if atomic.LoadInt32(&sink.inside) == 1 {
					held = true
					break
				}
				time.Sleep(50 * time.Microsecond)
			}
		}
		if !held {
			res.viol = &hlib.Violation{Key: "consumer-never-delivers", Monitor: "black-box " + scenario,
				Desc: fmt.Sprintf("episode %d: 25 Writes over 5 s into an idle diode, the wrapped writer was never called", ep), Case: cs, Observed: history}
			g.release()
			return
		}
		for k := 0; k < x.perEp; k++ {
			write("o")
		}
		tRel := time.Now()
		g.release()
		last := ep == x.episodes-1
		if closeAtOnce && last {
			break
		}
		// quiet: nothing is written, Close is not called.  (In the Close variant this wait is not
		// judged: it only lets the consumer catch up, so that the next episode's first Write
		// cannot overlap a read of the same ring position; it ends when the books balance or
		// when the wrapped writer has not been called for 20 ms.)
		ok := false
		var del int
		var rep int64
		lastDel, lastChange := -1, time.Now()
		for time.Since(tRel) < bbLimit {
			del, rep = len(sink.snapshot()), atomic.LoadInt64(&reported)
			if int64(del)+rep >= int64(written) {
				ok = true
				break
			}
			if del != lastDel {
				lastDel, lastChange = del, time.Now()
			}
			if closeAtOnce && atomic.LoadInt32(&sink.inside) == 0 && time.Since(lastChange) > 20*time.Millisecond {
				break
			}
			time.Sleep(200 * time.Microsecond)
		}
		amu.Lock()
		history = append(history, map[string]interface{}{"episode": ep, "written_so_far": written, "delivered": del, "reported_dropped": rep, "alerter_calls": append([]string{}, alerts...)})
		amu.Unlock()
		if !ok && closeAtOnce {
			continue
		}
		if !ok {
			res.viol = &hlib.Violation{Key: "drops-unreported-while-quiet", Monitor: "black-box " + scenario,
				Desc: fmt.Sprintf("overflow episode %d of %d (ring %d, %d Writes while the wrapped writer was blocked, %v after the previous episode balanced): %v after the last Write returned and the writer was released, with no further Write and no Close, %d Writes have returned but only %d reached the wrapped writer and %d were reported to the Alerter: %d message(s) neither delivered nor reported",
					ep+1, x.episodes, x.ring, x.perEp, x.gap, bbLimit, written, del, rep, int64(written)-int64(del)-rep),
				Case: cs, Observed: history, Expected: "delivered + reported >= written without a later Write or Close"}
			return
		}
		if int64(del)+rep != int64(written) {
			res.exact = false
		}
		res.balanced++
	}
	closed = true
	if !within(func() { dw.Close() }) {
		res.viol = &hlib.Violation{Key: "close-never-returns", Monitor: "black-box " + scenario, Desc: fmt.Sprintf("Writer.Close did not return within %v", bbLimit), Case: cs, Observed: history}
		return
	}
	if closeAtOnce {
		del, rep := len(sink.snapshot()), atomic.LoadInt64(&reported)
		amu.Lock()
		history = append(history, map[string]interface{}{"after": "Close", "written": written, "delivered": del, "reported_dropped": rep, "alerter_calls": append([]string{}, alerts...)})
		amu.Unlock()
		if int64(del)+rep < int64(written) {
			res.viol = &hlib.Violation{Key: "lost-at-close-after-overflow", Monitor: "black-box " + scenario,
				Desc: fmt.Sprintf("%d overflow episodes (ring %d, %d Writes each while the wrapped writer was blocked, %v apart), Close right after the last one: Close returned with %d Writes returned, %d delivered, %d reported to the Alerter: %d message(s) neither delivered nor reported",
					x.episodes, x.ring, x.perEp, x.gap, written, del, rep, int64(written)-int64(del)-rep),
				Case: cs, Observed: history, Expected: "delivered + reported >= written after Close"}
			return
		}
		if int64(del)+rep != int64(written) {
			res.exact = false
		}
		res.balanced++
	}
	return
}

// bbOverflowEpisodes runs the sweep: both consumer modes x two ring sizes x just-lapped / lapped
// three times x pauses of 0, 30 and 300 ms between episodes (a report that is held back, batched
// or rate-limited shows up at the pause that is shorter than its period; one that is delayed but
// does come out within bbLimit is accepted), three episodes each.  The runs are independent and
// run side by side.
func bbOverflowEpisodes(c *hlib.Ctx, closeAtOnce bool) {
	var cfgs []ovCfg
	for _, poll := range []time.Duration{0, 2 * time.Millisecond} {
		for _, ring := range []int{4, 16} {
			for _, per := range []int{ring + 2, 3*ring + 1} {
				for _, gap := range []time.Duration{0, 30 * time.Millisecond, 300 * time.Millisecond} {
					cfgs = append(cfgs, ovCfg{poll: poll, ring: ring, perEp: per, gap: gap, episodes: 3})
				}
			}
		}
	}
	out := make([]ovResult, len(cfgs))
	var wg sync.WaitGroup
	for i := range cfgs {
		wg.Add(1)
		go func(i int) {
			defer wg.Done()
			out[i] = runOverflowEpisodes(cfgs[i], closeAtOnce)
		}(i)
	}
	wg.Wait()
	balanced, exact := 0, 0
	for _, r := range out {
		if r.viol != nil {
			c.Violate(*r.viol)
		}
		balanced += r.balanced
		if r.exact && r.viol == nil {
			exact++
		}
	}
	name := "blackbox_overflow_quiet"
	if closeAtOnce {
		name = "blackbox_overflow_close"
	}
	c.Res.ExtraCoverage[name+"_runs"] = len(cfgs)
	c.Res.ExtraCoverage[name+"_balance_points"] = balanced
	c.Res.ExtraCoverage[name+"_runs_with_exact_balance"] = exact
}
