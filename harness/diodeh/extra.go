package diodeh

import (
	"bytes"
	"context"
	"encoding/json"
	"errors"
	"fmt"
	"io"
	"os"
	"os/exec"
	"strings"
	"sync"
	"sync/atomic"
	"time"

	"github.com/rs/zerolog"
	"github.com/rs/zerolog/diode"
	zlog "github.com/rs/zerolog/log"
	"verifharness/hlib"
)

// The Fatal path in a re-executed process.  A child is described by three environment variables:
//
//	VERIF_C11_FATAL        mode: which destination / which moment (wait, poll, slow, closing, closing-poll)
//	VERIF_C11_FATAL_FIN    how the fatal event is finished (finalizer spelling x message class), see fatalFins
//	VERIF_C11_FATAL_SHAPE  how the logger on which Fatal is called was obtained, see fatalShapes
//
// (FIN and SHAPE empty = Msg("fatal-last-words") on zerolog.New(diode writer), the scenario of rounds 1-5.)
const fatalMarker = "fatal-last-words"

// fatalFins: every way of finishing an event, with an empty and a non-empty message.  The callback that closes the
// writer and exits receives the message; whether the message is empty, formatted, produced by a function or absent
// (Send) must make no difference to what is flushed before the process exits.
var fatalFins = []string{
	"msg-text", "msgf-args", "msgfunc-text", "msg-long", "msg-space",
	"msg-empty", "msgf-empty", "msgf-args-empty", "msgfunc-empty", "send", "err-send",
}

// fatalFinText: the finalizer as Go source, for the replay files.
var fatalFinText = map[string]string{
	"": `.Msg("fatal-last-words")`, "msg-text": `.Msg("fatal-last-words")`, "msgf-args": `.Msgf("fatal-%s-%d", "last-words", 1)`,
	"msgfunc-text": `.MsgFunc(func() string { return "fatal-last-words" })`, "msg-long": `.Msg(strings.Repeat("fatal-last-words ", 120))`,
	"msg-space": `.Msg(" ")`, "msg-empty": `.Msg("")`, "msgf-empty": `.Msgf("")`, "msgf-args-empty": `.Msgf("%s", "")`,
	"msgfunc-empty": `.MsgFunc(func() string { return "" })`, "send": `.Send()`, "err-send": `.Err(errors.New("giving up")).Send()`,
}

// fatalShapeText: the logger on which Fatal() is called as Go source (dw = diode.NewWriter(stdout, 64, poll, alerter);
// the "before" events are logged through the same logger l).
var fatalShapeText = map[string]string{
	"": "l := zerolog.New(dw); l.Fatal()", "plain": "l := zerolog.New(dw); l.Fatal()",
	"with":              `l := zerolog.New(dw).With().Str("svc", "x").Logger(); l.Fatal()`,
	"level":             "l := zerolog.New(dw).Level(zerolog.InfoLevel); l.Fatal()",
	"hook":              "l := zerolog.New(dw).Hook(noopHook{}); l.Fatal()",
	"sample":            "l := zerolog.New(dw).Sample(&zerolog.BasicSampler{N: 1}); l.Fatal()",
	"ctx":               "l := zerolog.New(dw); zerolog.Ctx(l.WithContext(context.Background())).Fatal()",
	"global":            "l := zerolog.New(dw); log.Logger = l; log.Fatal()",
	"output":            "l := zerolog.New(io.Discard).Output(dw); l.Fatal()",
	"w-adapter":         "l := zerolog.New(zerolog.LevelWriterAdapter{Writer: dw}); l.Fatal()",
	"w-filtered":        "l := zerolog.New(&zerolog.FilteredLevelWriter{Writer: zerolog.LevelWriterAdapter{Writer: dw}, Level: zerolog.InfoLevel}); l.Fatal()",
	"w-multi":           "l := zerolog.New(zerolog.MultiLevelWriter(dw)); l.Fatal()",
	"w-sync":            "l := zerolog.New(zerolog.SyncWriter(dw)); l.Fatal()",
	"filtered-level":    "l := zerolog.New(dw); l.Level(zerolog.PanicLevel).Fatal()",
	"filtered-disabled": "l := zerolog.New(dw); l.Level(zerolog.Disabled).Fatal()",
	"filtered-sampler":  "l := zerolog.New(dw); l.Sample(neverSampler{}).Fatal()",
	"filtered-global":   "l := zerolog.New(dw); zerolog.SetGlobalLevel(zerolog.PanicLevel); l.Fatal()",
	fatalWithLevelShape: "l := zerolog.New(dw); l.WithLevel(zerolog.FatalLevel)<finalizer>; dw.Close(); os.Exit(1)",
}

// fatalShapes: ways of obtaining the logger whose Fatal is called (all of them diode-backed and with the fatal level
// enabled): derived loggers, the logger stored in a context, the global logger of package log, and the documented
// Close-forwarding level writers between the logger and the diode.
var fatalShapes = []string{
	"plain", "with", "level", "hook", "sample", "ctx", "global", "output",
	"w-adapter", "w-filtered", "w-multi", "w-sync",
}

// fatalFilteredShapes: the Fatal call itself is filtered out (level, sampler, global level) on a logger derived from
// the one that wrote the backlog; the process still ends through Logger.Fatal, so the backlog is still owed.
var fatalFilteredShapes = []string{"filtered-level", "filtered-disabled", "filtered-sampler", "filtered-global"}

// "withlevel-close": WithLevel(FatalLevel) neither closes nor exits; the caller closes the diode itself and exits.
const fatalWithLevelShape = "withlevel-close"

type neverSampler struct{}

func (neverSampler) Sample(zerolog.Level) bool { return false }

type noopHook struct{}

func (noopHook) Run(*zerolog.Event, zerolog.Level, string) {}

// fatalFinish finishes the (possibly nil) event with the given spelling.
func fatalFinish(e *zerolog.Event, fin string) {
	e = e.Str("marker", fatalMarker)
	switch fin {
	case "", "msg-text":
		e.Msg("fatal-last-words")
	case "msgf-args":
		e.Msgf("fatal-%s-%d", "last-words", 1)
	case "msgfunc-text":
		e.MsgFunc(func() string { return "fatal-last-words" })
	case "msg-long":
		e.Msg(strings.Repeat("fatal-last-words ", 120))
	case "msg-space":
		e.Msg(" ")
	case "msg-empty":
		e.Msg("")
	case "msgf-empty":
		e.Msgf("")
	case "msgf-args-empty":
		e.Msgf("%s", "")
	case "msgfunc-empty":
		e.MsgFunc(func() string { return "" })
	case "send":
		e.Send()
	case "err-send":
		e.Err(errors.New("giving up")).Send()
	default:
		fmt.Fprintf(os.Stderr, "unknown finalizer %q\n", fin)
		os.Exit(9)
	}
}

// fatalLogger builds the logger that writes the "before" events for the given shape.
func fatalLogger(shape string, dw diode.Writer) zerolog.Logger {
	switch shape {
	case "with":
		return zerolog.New(dw).With().Str("svc", "x").Logger()
	case "level":
		return zerolog.New(dw).Level(zerolog.InfoLevel)
	case "hook":
		return zerolog.New(dw).Hook(noopHook{})
	case "sample":
		return zerolog.New(dw).Sample(&zerolog.BasicSampler{N: 1})
	case "output":
		return zerolog.New(io.Discard).Output(dw)
	case "w-adapter":
		return zerolog.New(zerolog.LevelWriterAdapter{Writer: dw})
	case "w-filtered":
		return zerolog.New(&zerolog.FilteredLevelWriter{Writer: zerolog.LevelWriterAdapter{Writer: dw}, Level: zerolog.InfoLevel})
	case "w-multi":
		return zerolog.New(zerolog.MultiLevelWriter(dw))
	case "w-sync":
		return zerolog.New(zerolog.SyncWriter(dw))
	}
	return zerolog.New(dw)
}

// FatalChild: when re-executed with VERIF_C11_FATAL set, log through a diode.Writer and end with Logger.Fatal.
func FatalChild() {
	mode := os.Getenv("VERIF_C11_FATAL")
	if mode == "" {
		return
	}
	fin := os.Getenv("VERIF_C11_FATAL_FIN")
	shape := os.Getenv("VERIF_C11_FATAL_SHAPE")
	var poll time.Duration
	if mode == "poll" {
		poll = 5 * time.Millisecond
	}
	var out io.Writer = os.Stdout
	n := 5
	if mode == "slow" {
		// a destination that is alive but slow: draining what is in the ring takes about 1.5 s
		out = slowStdout{}
		n = 14
	}
	var cs *countingSlowStdout
	if mode == "closing" || mode == "closing-poll" {
		// a shutdown path closes the writer (from another goroutine) and, while that Close is
		// draining a backlog into a slow destination, Fatal is called
		cs = &countingSlowStdout{delay: 20 * time.Millisecond}
		out = cs
		n = 20
		if mode == "closing-poll" {
			poll = 2 * time.Millisecond
		}
	}
	dw := diode.NewWriter(out, 64, poll, func(missed int) { fmt.Fprintf(os.Stderr, "missed %d\n", missed) })
	l := fatalLogger(shape, dw)
	for i := 0; i < n; i++ {
		l.Info().Int("i", i).Msg("before")
	}
	if cs != nil {
		go dw.Close()
		for t := time.Now(); atomic.LoadInt32(&cs.lines) < 2 && time.Since(t) < 3*time.Second; {
			time.Sleep(200 * time.Microsecond)
		}
	}
	switch shape {
	case "ctx":
		ctx := l.WithContext(context.Background())
		fatalFinish(zerolog.Ctx(ctx).Fatal(), fin)
	case "global":
		zlog.Logger = l
		fatalFinish(zlog.Fatal(), fin)
	case "filtered-level":
		fl := l.Level(zerolog.PanicLevel)
		fatalFinish(fl.Fatal(), fin)
	case "filtered-disabled":
		fl := l.Level(zerolog.Disabled)
		fatalFinish(fl.Fatal(), fin)
	case "filtered-sampler":
		fl := l.Sample(neverSampler{})
		fatalFinish(fl.Fatal(), fin)
	case "filtered-global":
		zerolog.SetGlobalLevel(zerolog.PanicLevel)
		fatalFinish(l.Fatal(), fin)
	case fatalWithLevelShape:
		fatalFinish(l.WithLevel(zerolog.FatalLevel), fin)
		dw.Close()
		os.Exit(1)
	default:
		fatalFinish(l.Fatal(), fin)
	}
	os.Exit(7) // not reached
}

// fatalChildLimit bounds every re-executed child: a child in which Fatal never exits (Close hangs) is killed
// and judged on what it had written by then (exit code -1).
const fatalChildLimit = 30 * time.Second

// fatalParallel: how many children run at the same time (they mostly sleep in their slow destination).
const fatalParallel = 8

type fatalSpec struct {
	mode, fin, shape string
}

type fatalResult struct {
	code        int
	out, errOut string
}

func fatalChildCmd(self string, s fatalSpec) (*exec.Cmd, context.CancelFunc) {
	ctx, cancel := context.WithTimeout(context.Background(), fatalChildLimit)
	cmd := exec.CommandContext(ctx, self)
	cmd.WaitDelay = 2 * time.Second
	cmd.Env = append(os.Environ(), "VERIF_C11_FATAL="+s.mode, "VERIF_C11_FATAL_FIN="+s.fin, "VERIF_C11_FATAL_SHAPE="+s.shape)
	return cmd, cancel
}

func runFatalChild(self string, s fatalSpec) fatalResult {
	cmd, cancel := fatalChildCmd(self, s)
	var out, errb bytes.Buffer
	cmd.Stdout, cmd.Stderr = &out, &errb
	err := cmd.Run()
	cancel()
	code := -1
	if ee, ok := err.(*exec.ExitError); ok {
		code = ee.ExitCode()
	} else if err == nil {
		code = 0
	}
	return fatalResult{code, out.String(), errb.String()}
}

// fatalSpecs: the runs of one check.  Rounds 1-5: wait x3, poll x3, slow, closing, closing-poll with Msg(text) on the
// plain logger.  Round 6: every mode x every finalizer spelling / message class on the plain logger; every logger
// shape x {Msg(text), Send()} in the modes wait and poll; a filtered Fatal and the WithLevel(FatalLevel)+Close
// control in the modes wait, poll and slow.
func fatalSpecs() []fatalSpec {
	var specs []fatalSpec
	for _, mode := range []string{"wait", "poll", "slow", "closing", "closing-poll"} {
		for i := 0; i < 3; i++ {
			if mode != "wait" && mode != "poll" && i > 0 {
				break
			}
			specs = append(specs, fatalSpec{mode, "", ""})
		}
	}
	for _, fin := range fatalFins {
		for _, mode := range []string{"wait", "poll", "slow", "closing", "closing-poll"} {
			if fin == "msg-text" && mode != "wait" && mode != "poll" {
				continue // the same run as the default spelling above
			}
			specs = append(specs, fatalSpec{mode, fin, "plain"})
		}
	}
	for _, shape := range fatalShapes {
		if shape == "plain" {
			continue
		}
		for _, fin := range []string{"msg-text", "send"} {
			for _, mode := range []string{"wait", "poll"} {
				specs = append(specs, fatalSpec{mode, fin, shape})
			}
		}
	}
	for _, shape := range fatalFilteredShapes {
		for _, mode := range []string{"wait", "poll", "slow"} {
			specs = append(specs, fatalSpec{mode, "msg-text", shape})
		}
	}
	for _, fin := range fatalFins {
		for _, mode := range []string{"wait", "poll"} {
			specs = append(specs, fatalSpec{mode, fin, fatalWithLevelShape})
		}
	}
	specs = append(specs, fatalSpec{"slow", "send", fatalWithLevelShape})
	return specs
}

func fatalCallText(s fatalSpec) string {
	fin := `.Str("marker", "fatal-last-words")` + fatalFinText[s.fin]
	if t := fatalShapeText[s.shape]; strings.Contains(t, "<finalizer>") {
		return strings.Replace(t, "<finalizer>", fin, 1)
	} else {
		return t + fin
	}
}

func isFilteredShape(shape string) bool { return strings.HasPrefix(shape, "filtered-") }

// countFatalLines: how many "before" events, how many fatal-level lines carrying the marker field, and how many lines
// in all the child's wrapped writer (its stdout) received.
func countFatalLines(out string) (before, fatal, lines int) {
	for _, ln := range strings.Split(out, "\n") {
		if ln == "" {
			continue
		}
		lines++
		var m map[string]interface{}
		if json.Unmarshal([]byte(ln), &m) != nil {
			continue
		}
		if m["message"] == "before" && m["level"] == "info" {
			before++
		}
		if m["level"] == "fatal" && m["marker"] == fatalMarker {
			fatal++
		}
	}
	return
}

// fatalPath: Logger.Fatal closes the diode writer (drains the ring) before os.Exit(1).
func fatalPath(c *hlib.Ctx) {
	self, err := os.Executable()
	if err != nil {
		c.Note("fatal path not run: %v", err)
		return
	}
	if strings.HasSuffix(self, ".test") {
		// a `go test` binary would run its tests again in the child, which spawn children again: never re-execute one
		c.Note("fatal path not run: the executable is a test binary")
		return
	}
	specs := fatalSpecs()
	results := make([]fatalResult, len(specs))
	var wg sync.WaitGroup
	next := int32(-1)
	for k := 0; k < fatalParallel; k++ {
		wg.Add(1)
		go func() {
			defer wg.Done()
			for {
				i := int(atomic.AddInt32(&next, 1))
				if i >= len(specs) {
					return
				}
				results[i] = runFatalChild(self, specs[i])
			}
		}()
	}
	wg.Wait()
	for i, s := range specs {
		judgeFatalChild(c, s, results[i])
	}
	c.Res.ExtraCoverage["fatal_path_runs"] = len(specs)
	c.Res.ExtraCoverage["fatal_path_finalizers"] = len(fatalFins)
	c.Res.ExtraCoverage["fatal_path_logger_shapes"] = len(fatalShapes) + len(fatalFilteredShapes) + 1
}

func judgeFatalChild(c *hlib.Ctx, s fatalSpec, r fatalResult) {
	if s.mode == "closing" || s.mode == "closing-poll" {
		fatalWhileClosing(c, s, r)
		return
	}
	before, fatal, lines := countFatalLines(r.out)
	wantBefore := 5
	if s.mode == "slow" {
		wantBefore = 14
	}
	kase := map[string]interface{}{"mode": s.mode}
	if s.fin != "" || s.shape != "" {
		kase["finalizer"] = s.fin
		kase["logger"] = s.shape
		kase["fatal_call"] = fatalCallText(s)
		kase["events_before"] = wantBefore
		kase["ring"] = 64
	}
	obs := map[string]interface{}{"exit": r.code, "before_events_on_stdout": before, "fatal_events_on_stdout": fatal, "stdout": r.out, "stderr": r.errOut}
	switch {
	case isFilteredShape(s.shape):
		// The Fatal event itself is filtered out (nothing is demanded about it, nor about the exit code: C04);
		// the events written before it through the same diode are still in the ring when the process ends through
		// Logger.Fatal, and the Fatal path closes the writer first.
		if r.code == -1 || before != wantBefore {
			c.Violate(hlib.Violation{Key: "fatal-filtered-loses-backlog", Monitor: "fatal-path",
				Desc: fmt.Sprintf("%d events logged through a diode.Writer (ring 64), then Logger.Fatal on a logger derived from it that filters the fatal level out (%s): the process ends through Logger.Fatal, which must close the writer first, so all %d earlier events reach the wrapped writer; %d did, exit code %d", wantBefore, s.shape, wantBefore, before, r.code),
				Case: kase, Observed: obs, Expected: fmt.Sprintf("%d 'before' events on stdout before the process exits", wantBefore)})
		}
	case s.shape == fatalWithLevelShape:
		if r.code != 1 || before != wantBefore || fatal != 1 || lines != wantBefore+1 {
			c.Violate(hlib.Violation{Key: "withlevel-fatal-close-loses-messages", Monitor: "fatal-path",
				Desc: fmt.Sprintf("%d events and one WithLevel(FatalLevel) event (finalizer %s) logged through a diode.Writer (ring 64), then Writer.Close and os.Exit(1): all %d events must have reached the wrapped writer when Close returned", wantBefore, s.fin, wantBefore+1),
				Case: kase, Observed: obs, Expected: fmt.Sprintf("exit 1 with %d lines on stdout, the last-written one at fatal level", wantBefore+1)})
		}
	default:
		if r.code != 1 || !strings.Contains(r.out, fatalMarker) || lines != wantBefore+1 || before != wantBefore || fatal != 1 {
			c.Violate(hlib.Violation{Key: "fatal-loses-messages", Monitor: "fatal-path", Desc: fmt.Sprintf("Logger.Fatal through a diode.Writer: the process must exit 1 after all %d events reached the wrapped writer (mode slow: the destination takes 100 ms per write; finalizer = how the fatal event was finished, e.g. Send() / Msg(\"\") leave the message empty; logger = how the logger was obtained)", wantBefore+1),
				Case: kase, Observed: obs, Expected: fmt.Sprintf("exit 1 with %d 'before' events and the fatal event on stdout", wantBefore)})
		}
	}
}

// fatalWhileClosing: all "before" events were written (their Writes returned) before either Close was called; the
// shutdown Close is draining them into a destination that takes 20 ms per write when Fatal is called.  Fatal's own
// Close must not return (and the process must not exit) before they have all been handed to the destination.
// The Fatal event itself is written after a Close was called: nothing is demanded about it.
func fatalWhileClosing(c *hlib.Ctx, s fatalSpec, r fatalResult) {
	before := strings.Count(r.out, "\"message\":\"before\"")
	if r.code != 1 || before != 20 {
		kase := map[string]interface{}{"mode": s.mode, "events_before": 20, "destination_takes_per_write": "20ms", "ring": 64, "order": "20 x Info (returned); go Writer.Close(); wait until 2 events reached the destination; Logger.Fatal"}
		if s.fin != "" || s.shape != "" {
			kase["finalizer"] = s.fin
			kase["logger"] = s.shape
			kase["fatal_call"] = fatalCallText(s)
		}
		c.Violate(hlib.Violation{Key: "fatal-loses-messages", Monitor: "fatal-path", Desc: fmt.Sprintf("20 events logged through a diode.Writer (ring 64) over a destination that takes 20 ms per write; a goroutine calls Writer.Close (shutdown) and, once the drain is under way, Logger.Fatal is called: the process must exit 1 only after all 20 events reached the destination; %d did, exit code %d", before, r.code),
			Case:     kase,
			Observed: map[string]interface{}{"exit": r.code, "before_events_on_stdout": before, "stdout": r.out, "stderr": r.errOut}, Expected: "exit 1 with 20 'before' events on stdout"})
	}
}

type countingSlowStdout struct {
	delay time.Duration
	lines int32
}

func (w *countingSlowStdout) Write(p []byte) (int, error) {
	time.Sleep(w.delay)
	n, err := os.Stdout.Write(p)
	atomic.AddInt32(&w.lines, 1)
	return n, err
}

type slowStdout struct{}

func (slowStdout) Write(p []byte) (int, error) {
	time.Sleep(100 * time.Millisecond)
	return os.Stdout.Write(p)
}
