package diodeh

import (
	"bytes"
	"fmt"
	"os"
	"os/exec"
	"strings"
	"time"

	"github.com/rs/zerolog"
	"github.com/rs/zerolog/diode"
	"verifharness/hlib"
)

// FatalChild: when re-executed with VERIF_C11_FATAL set, log through a diode.Writer and end with Logger.Fatal.
func FatalChild() {
	mode := os.Getenv("VERIF_C11_FATAL")
	if mode == "" {
		return
	}
	var poll time.Duration
	if mode == "poll" {
		poll = 5 * time.Millisecond
	}
	dw := diode.NewWriter(os.Stdout, 64, poll, func(missed int) { fmt.Fprintf(os.Stderr, "missed %d\n", missed) })
	l := zerolog.New(dw)
	for i := 0; i < 5; i++ {
		l.Info().Int("i", i).Msg("before")
	}
	l.Fatal().Msg("fatal-last-words")
	os.Exit(7) // not reached
}

// fatalPath: Logger.Fatal closes the diode writer (drains the ring) before os.Exit(1).
func fatalPath(c *hlib.Ctx) {
	self, err := os.Executable()
	if err != nil {
		c.Note("fatal path not run: %v", err)
		return
	}
	runs := 0
	for _, mode := range []string{"wait", "poll"} {
		for i := 0; i < 3; i++ {
			cmd := exec.Command(self)
			cmd.Env = append(os.Environ(), "VERIF_C11_FATAL="+mode)
			var out, errb bytes.Buffer
			cmd.Stdout, cmd.Stderr = &out, &errb
			err := cmd.Run()
			code := -1
			if ee, ok := err.(*exec.ExitError); ok {
				code = ee.ExitCode()
			} else if err == nil {
				code = 0
			}
			runs++
			lines := strings.Count(out.String(), "\n")
			if code != 1 || !strings.Contains(out.String(), "fatal-last-words") || lines != 6 {
				c.Violate(hlib.Violation{Key: "fatal-loses-messages", Monitor: "fatal-path", Desc: "Logger.Fatal through a diode.Writer: the process must exit 1 after all 6 events reached the wrapped writer",
					Case: map[string]interface{}{"mode": mode}, Observed: map[string]interface{}{"exit": code, "stdout": out.String(), "stderr": errb.String()}})
			}
		}
	}
	c.Res.ExtraCoverage["fatal_path_runs"] = runs
}
