package diodeh

import (
	"bytes"
	"context"
	"fmt"
	"io"
	"os"
	"os/exec"
	"strings"
	"sync/atomic"
	"time"

	"github.com/rs/zerolog"
	"github.com/rs/zerolog/diode"
	"verifharness/hlib"
)

// FatalChild: when re-executed with VERIF_C11_FATAL set, log through a diode.Writer and end with Logger.Fatal.
func FatalChild() {
	mode := os.Getenv("VERIF_C11_FATAL")
	if mode == "" {
		return
	}
	var poll time.Duration
	if mode == "poll" {
		poll = 5 * time.Millisecond
	}
	var out io.Writer = os.Stdout
	n := 5
	if mode == "slow" {
		// a destination that is alive but slow: draining what is in the ring takes about 1.5 s
		out = slowStdout{}
		n = 14
	}
	var cs *countingSlowStdout
	if mode == "closing" || mode == "closing-poll" {
		// a shutdown path closes the writer (from another goroutine) and, while that Close is
		// draining a backlog into a slow destination, Fatal is called
		cs = &countingSlowStdout{delay: 20 * time.Millisecond}
		out = cs
		n = 20
		if mode == "closing-poll" {
			poll = 2 * time.Millisecond
		}
	}
	dw := diode.NewWriter(out, 64, poll, func(missed int) { fmt.Fprintf(os.Stderr, "missed %d\n", missed) })
	l := zerolog.New(dw)
	for i := 0; i < n; i++ {
		l.Info().Int("i", i).Msg("before")
	}
	if cs != nil {
		go dw.Close()
		for t := time.Now(); atomic.LoadInt32(&cs.lines) < 2 && time.Since(t) < 3*time.Second; {
			time.Sleep(200 * time.Microsecond)
		}
	}
	l.Fatal().Msg("fatal-last-words")
	os.Exit(7) // not reached
}

// fatalChildLimit bounds every re-executed child: a child in which Fatal never exits (Close hangs) is killed
// and judged on what it had written by then (exit code -1).
const fatalChildLimit = 30 * time.Second

func fatalChildCmd(self, mode string) (*exec.Cmd, context.CancelFunc) {
	ctx, cancel := context.WithTimeout(context.Background(), fatalChildLimit)
	cmd := exec.CommandContext(ctx, self)
	cmd.WaitDelay = 2 * time.Second
	cmd.Env = append(os.Environ(), "VERIF_C11_FATAL="+mode)
	return cmd, cancel
}

// fatalPath: Logger.Fatal closes the diode writer (drains the ring) before os.Exit(1).
func fatalPath(c *hlib.Ctx) {
	self, err := os.Executable()
	if err != nil {
		c.Note("fatal path not run: %v", err)
		return
	}
	if strings.HasSuffix(self, ".test") {
		// a `go test` binary would run its tests again in the child, which spawn children again: never re-execute one
		c.Note("fatal path not run: the executable is a test binary")
		return
	}
	runs := 0
	for _, mode := range []string{"wait", "poll", "slow", "closing", "closing-poll"} {
		for i := 0; i < 3; i++ {
			if mode == "slow" && i > 0 {
				break
			}
			if mode == "closing" || mode == "closing-poll" {
				if i == 0 {
					fatalWhileClosing(c, self, mode)
					runs++
				}
				continue
			}
			cmd, cancel := fatalChildCmd(self, mode)
			var out, errb bytes.Buffer
			cmd.Stdout, cmd.Stderr = &out, &errb
			err := cmd.Run()
			cancel()
			code := -1
			if ee, ok := err.(*exec.ExitError); ok {
				code = ee.ExitCode()
			} else if err == nil {
				code = 0
			}
			runs++
			lines := strings.Count(out.String(), "\n")
			wantLines := 6
			if mode == "slow" {
				wantLines = 15
			}
			if code != 1 || !strings.Contains(out.String(), "fatal-last-words") || lines != wantLines {
				c.Violate(hlib.Violation{Key: "fatal-loses-messages", Monitor: "fatal-path", Desc: fmt.Sprintf("Logger.Fatal through a diode.Writer: the process must exit 1 after all %d events reached the wrapped writer (mode slow: the destination takes 100 ms per write)", wantLines),
					Case: map[string]interface{}{"mode": mode}, Observed: map[string]interface{}{"exit": code, "stdout": out.String(), "stderr": errb.String()}})
			}
		}
	}
	c.Res.ExtraCoverage["fatal_path_runs"] = runs
}

// fatalWhileClosing: all "before" events were written (their Writes returned) before either Close was called; the
// shutdown Close is draining them into a destination that takes 20 ms per write when Fatal is called.  Fatal's own
// Close must not return (and the process must not exit) before they have all been handed to the destination.
// The Fatal event itself is written after a Close was called: nothing is demanded about it.
func fatalWhileClosing(c *hlib.Ctx, self, mode string) {
	cmd, cancel := fatalChildCmd(self, mode)
	var out, errb bytes.Buffer
	cmd.Stdout, cmd.Stderr = &out, &errb
	err := cmd.Run()
	cancel()
	code := -1
	if ee, ok := err.(*exec.ExitError); ok {
		code = ee.ExitCode()
	} else if err == nil {
		code = 0
	}
	before := strings.Count(out.String(), "\"message\":\"before\"")
	if code != 1 || before != 20 {
		c.Violate(hlib.Violation{Key: "fatal-loses-messages", Monitor: "fatal-path", Desc: fmt.Sprintf("20 events logged through a diode.Writer (ring 64) over a destination that takes 20 ms per write; a goroutine calls Writer.Close (shutdown) and, once the drain is under way, Logger.Fatal is called: the process must exit 1 only after all 20 events reached the destination; %d did, exit code %d", before, code),
			Case:     map[string]interface{}{"mode": mode, "events_before": 20, "destination_takes_per_write": "20ms", "ring": 64, "order": "20 x Info (returned); go Writer.Close(); wait until 2 events reached the destination; Logger.Fatal"},
			Observed: map[string]interface{}{"exit": code, "before_events_on_stdout": before, "stdout": out.String(), "stderr": errb.String()}, Expected: "exit 1 with 20 'before' events on stdout"})
	}
}

type countingSlowStdout struct {
	delay time.Duration
	lines int32
}

func (w *countingSlowStdout) Write(p []byte) (int, error) {
	time.Sleep(w.delay)
	n, err := os.Stdout.Write(p)
	atomic.AddInt32(&w.lines, 1)
	return n, err
}

type slowStdout struct{}

func (slowStdout) Write(p []byte) (int, error) {
	time.Sleep(100 * time.Millisecond)
	return os.Stdout.Write(p)
}
