package diodeh

import (
	"bytes"
	"fmt"
	"io"
	"os"
	"os/exec"
	"strings"
	"time"

	"github.com/rs/zerolog"
	"github.com/rs/zerolog/diode"
	"verifharness/hlib"
)

// FatalChild: when re-executed with VERIF_C11_FATAL set, log through a diode.Writer and end with Logger.Fatal.
func FatalChild() {
	mode := os.Getenv("VERIF_C11_FATAL")
	if mode == "" {
		return
	}
	var poll time.Duration
	if mode == "poll" {
		poll = 5 * time.Millisecond
	}
	var out io.Writer = os.Stdout
	n := 5
	if mode == "slow" {
		// a destination that is alive but slow: draining what is in the ring takes about 1.5 s
		out = slowStdout{}
		n = 14
	}
	dw := diode.NewWriter(out, 64, poll, func(missed int) { fmt.Fprintf(os.Stderr, "missed %d\n", missed) })
	l := zerolog.New(dw)
	for i := 0; i < n; i++ {
		l.Info().Int("i", i).Msg("before")
	}
	l.Fatal().Msg("fatal-last-words")
	os.Exit(7) // not reached
}

// fatalPath: Logger.Fatal closes the diode writer (drains the ring) before os.Exit(1).
func fatalPath(c *hlib.Ctx) {
	self, err := os.Executable()
	if err != nil {
		c.Note("fatal path not run: %v", err)
		return
	}
	runs := 0
	for _, mode := range []string{"wait", "poll", "slow"} {
		for i := 0; i < 3; i++ {
			if mode == "slow" && i > 0 {
				break
			}
			cmd := exec.Command(self)
			cmd.Env = append(os.Environ(), "VERIF_C11_FATAL="+mode)
			var out, errb bytes.Buffer
			cmd.Stdout, cmd.Stderr = &out, &errb
			err := cmd.Run()
			code := -1
			if ee, ok := err.(*exec.ExitError); ok {
				code = ee.ExitCode()
			} else if err == nil {
				code = 0
			}
			runs++
			lines := strings.Count(out.String(), "\n")
			wantLines := 6
			if mode == "slow" {
				wantLines = 15
			}
			if code != 1 || !strings.Contains(out.String(), "fatal-last-words") || lines != wantLines {
				c.Violate(hlib.Violation{Key: "fatal-loses-messages", Monitor: "fatal-path", Desc: fmt.Sprintf("Logger.Fatal through a diode.Writer: the process must exit 1 after all %d events reached the wrapped writer (mode slow: the destination takes 100 ms per write)", wantLines),
					Case: map[string]interface{}{"mode": mode}, Observed: map[string]interface{}{"exit": code, "stdout": out.String(), "stderr": errb.String()}})
			}
		}
	}
	c.Res.ExtraCoverage["fatal_path_runs"] = runs
}

type slowStdout struct{}

func (slowStdout) Write(p []byte) (int, error) {
	time.Sleep(100 * time.Millisecond)
	return os.Stdout.Write(p)
}
