package diodeh

import (
	"bytes"
	"fmt"
	"os"
	"os/exec"
	"strings"
	"sync"
	"time"

	"github.com/rs/zerolog"
	"github.com/rs/zerolog/diode"
	"verifharness/hlib"
)

// FatalChild: when re-executed with VERIF_C11_FATAL set, log through a diode.Writer and end with Logger.Fatal.
func FatalChild() {
	mode := os.Getenv("VERIF_C11_FATAL")
	if mode == "" {
		return
	}
	var poll time.Duration
	if mode == "poll" {
		poll = 5 * time.Millisecond
	}
	dw := diode.NewWriter(os.Stdout, 64, poll, func(missed int) { fmt.Fprintf(os.Stderr, "missed %d\n", missed) })
	l := zerolog.New(dw)
	for i := 0; i < 5; i++ {
		l.Info().Int("i", i).Msg("before")
	}
	l.Fatal().Msg("fatal-last-words")
	os.Exit(7) // not reached
}

// fatalPath: Logger.Fatal closes the diode writer (drains the ring) before os.Exit(1).
func fatalPath(c *hlib.Ctx) {
	self, err := os.Executable()
	if err != nil {
		c.Note("fatal path not run: %v", err)
		return
	}
	runs := 0
	for _, mode := range []string{"wait", "poll"} {
		for i := 0; i < 3; i++ {
			cmd := exec.Command(self)
			cmd.Env = append(os.Environ(), "VERIF_C11_FATAL="+mode)
			var out, errb bytes.Buffer
			cmd.Stdout, cmd.Stderr = &out, &errb
			err := cmd.Run()
			code := -1
			if ee, ok := err.(*exec.ExitError); ok {
				code = ee.ExitCode()
			} else if err == nil {
				code = 0
			}
			runs++
			lines := strings.Count(out.String(), "\n")
			if code != 1 || !strings.Contains(out.String(), "fatal-last-words") || lines != 6 {
				c.Violate(hlib.Violation{Key: "fatal-loses-messages", Monitor: "fatal-path", Desc: "Logger.Fatal through a diode.Writer: the process must exit 1 after all 6 events reached the wrapped writer",
					Case: map[string]interface{}{"mode": mode}, Observed: map[string]interface{}{"exit": code, "stdout": out.String(), "stderr": errb.String()}})
			}
		}
	}
	c.Res.ExtraCoverage["fatal_path_runs"] = runs
}

type slowWriter struct {
	mu  sync.Mutex
	got []string
}

func (w *slowWriter) Write(p []byte) (int, error) {
	w.mu.Lock()
	w.got = append(w.got, string(p))
	w.mu.Unlock()
	return len(p), nil
}

// realPrimitives: the uninstrumented Writer on the real sync/context primitives: Close returns and
// drains in both modes (no schedule control here; a sanity run of what the shims stand for).
func realPrimitives(c *hlib.Ctx) {
	runs := 0
	for _, poll := range []time.Duration{0, time.Millisecond} {
		for it := 0; it < 40; it++ {
			w := &slowWriter{}
			dw := diode.NewWriter(w, 64, poll, nil)
			var wg sync.WaitGroup
			for g := 0; g < 3; g++ {
				wg.Add(1)
				go func(g int) {
					defer wg.Done()
					for i := 0; i < 5; i++ {
						dw.Write([]byte(fmt.Sprintf("g%d-%d\n", g, i)))
					}
				}(g)
			}
			wg.Wait()
			done := make(chan struct{})
			go func() { dw.Close(); close(done) }()
			select {
			case <-done:
			case <-time.After(5 * time.Second):
				c.Violate(hlib.Violation{Key: "close-never-returns", Monitor: "real-primitives", Desc: "Writer.Close did not return within 5 s on the real runtime", Case: map[string]interface{}{"poll": poll.String()}})
				return
			}
			w.mu.Lock()
			n := len(w.got)
			w.mu.Unlock()
			if n != 15 {
				c.Violate(hlib.Violation{Key: "close-does-not-drain", Monitor: "real-primitives", Desc: "15 messages written into a ring of 64, Close returned, not all delivered", Case: map[string]interface{}{"poll": poll.String()}, Observed: n, Expected: 15})
			}
			runs++
		}
	}
	c.Res.ExtraCoverage["real_primitive_runs"] = runs
}
