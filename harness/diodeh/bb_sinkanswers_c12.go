package diodeh

// Black-box sink answers, judged for C12: the wrapped writer answers its Write calls with every kind
// of (count, error) pair (the kinds of bb_sinkanswers.go) - on the first call, on some calls, on every
// call - and what is judged is C12's own statement:
//
//	"Once a Write has returned, the message reaches the wrapped writer (or is reported dropped)
//	 without needing any later Write or Close to happen ...  Close returns in every schedule, and
//	 neither the consumer nor Close can end up blocked forever while work is pending."
//
// Nothing in the statement is conditional on what the wrapped writer answers: a sink that says
// "(0, nil)" (a filter that skipped the line, a transport that discards while disconnected), a short
// count, a count above len(p), an error - the messages written AFTER that call must still be handed
// over, and Close must still return.  Two shapes:
//
//	spaced   one producer; message k+1 is written only after message k has been handed over (and a
//	         pause long enough for the consumer to be parked / asleep again: the known lost wake-up
//	         window of waiter mode is not entered); each message must be handed to the wrapped
//	         writer (or reported dropped) within 5 s of its Write returning, with no further Write
//	         and no Close;
//	backlog  1-3 producers write everything while the wrapped writer is held (far fewer messages
//	         than ring positions), it is released: within 5 s every message is handed over or
//	         reported, with no further Write and no Close.
//
// Then Close, under a watchdog: it must return within 5 s + (ring+1) calls of the wrapped writer
// (which answers at once here, so 5 s).  "Handed over" = was the argument of a call of the wrapped
// writer's Write, whatever else the wrapped writer was handed (repeats and remainders are C10's
// subject, judged there).
//
// A diode that never gets past a message keeps a goroutine (and a Close call) behind: the wrapped
// writer slows down to one call per millisecond after 4 x Writes + 16 calls, at most c12saInFlight
// scenarios run at a time and none is started once c12saStuckStop of them have reported a stuck
// state.  The kinds of answer most likely to stall a consumer (zero counts) are tried first, a
// negative count last.

import (
	"fmt"
	"strings"
	"sync"
	"sync/atomic"
	"time"

	"github.com/rs/zerolog/diode"
	"verifharness/hlib"
)

const (
	c12saInFlight  = 4
	c12saStuckStop = 3
)

// c12Sink answers call i (1-based) as scripted, for ever; it records what it is handed up to limit calls.
type c12Sink struct {
	g     *gate
	mu    sync.Mutex
	got   []string
	said  []string
	calls int
	pick  func(call int) int
	limit int
}

func (w *c12Sink) Write(p []byte) (int, error) {
	w.g.wait()
	w.mu.Lock()
	w.calls++
	call := w.calls
	a := sinkAnswers[w.pick(call)]
	n, err := a.ret(p)
	if call <= w.limit {
		w.got = append(w.got, string(p))
		w.said = append(w.said, fmt.Sprintf("(%d, %v)", n, err))
	}
	w.mu.Unlock()
	if call > w.limit {
		time.Sleep(time.Millisecond) // a consumer that calls for ever must not spin the machine
	}
	return n, err
}

// handed: how many of the messages in want have been the argument of a call so far
func (w *c12Sink) handed(want []string) (n int, missing string) {
	w.mu.Lock()
	defer w.mu.Unlock()
	have := map[string]bool{}
	for _, s := range w.got {
		have[s] = true
	}
	for _, s := range want {
		if have[s] {
			n++
		} else if missing == "" {
			missing = s
		}
	}
	return
}

func (w *c12Sink) observed(written int, reported int64) map[string]interface{} {
	w.mu.Lock()
	defer w.mu.Unlock()
	lo := 0
	if len(w.got) > 8 {
		lo = len(w.got) - 8
	}
	calls := []map[string]interface{}{}
	for j := lo; j < len(w.got); j++ {
		calls = append(calls, map[string]interface{}{"call": j + 1, "handed": trunc(w.got[j], 120), "answered": w.said[j]})
	}
	return map[string]interface{}{"writes_returned": written, "calls_of_the_wrapped_writer": w.calls, "reported_dropped": reported, "last_recorded_calls": calls}
}

type c12saCfg struct {
	sa    saCfg
	shape string // spaced | backlog
}

func (x c12saCfg) json() map[string]interface{} {
	m := x.sa.json()
	m["scenario"] = "sink-answers-then-later-messages-and-close"
	m["shape"] = x.shape
	delete(m, "wrapped_writer_held_until_all_writes_returned")
	if x.shape == "spaced" {
		m["order"] = "one producer; each message is written 2 ms after the previous one was handed to the wrapped writer; no other Write, no Close until all are accounted for; then Close"
	} else {
		m["order"] = "the wrapped writer is held; every producer makes its Writes (they fit the ring); the wrapped writer is released; no other Write, no Close until all are accounted for; then Close"
	}
	return m
}

func c12Payload(g, k int) string {
	return fmt.Sprintf("{\"w\":\"%c%d\",\"pad\":\"%s\"}\n", 'p'+g, k, strings.Repeat("x", (g*5+k*3)%17))
}

// runC12SinkAnswers returns the violations of one scenario (at most two: a message that is stuck and a Close
// that does not return) and whether it left a stuck consumer / Close call behind.
func runC12SinkAnswers(x c12saCfg) (vs []hlib.Violation, stuck bool) {
	cs := x.json()
	total := x.sa.producers * x.sa.each
	sink := &c12Sink{g: newGate(x.shape == "spaced"), pick: x.sa.pick, limit: 4*total + 16}
	var reported int64
	dw := diode.NewWriter(sink, x.sa.ring, x.sa.poll, func(m int) { atomic.AddInt64(&reported, int64(m)) })
	var written []string
	// accounted: every message of written handed over or as many reported dropped, within bbLimit, nothing else happening
	accounted := func() (bool, string, time.Duration) {
		t0 := time.Now()
		for {
			n, missing := sink.handed(written)
			if int64(n)+atomic.LoadInt64(&reported) >= int64(len(written)) {
				return true, "", time.Since(t0)
			}
			if time.Since(t0) > bbLimit {
				return false, missing, time.Since(t0)
			}
			time.Sleep(100 * time.Microsecond)
		}
	}
	stuckMsg := func(missing string, idx int) {
		stuck = true
		vs = append(vs, hlib.Violation{Key: "message-stuck-after-sink-answer", Monitor: "black-box sink-answers (C12)",
			Desc: fmt.Sprintf("%d Write(s) had returned; message %s (Write %d of %d) was neither handed to the wrapped writer nor reported dropped within %v, with no later Write and no Close (the wrapped writer answers %s on calls '%s')",
				len(written), strings.TrimSpace(trunc(missing, 60)), idx, total, bbLimit, answerNames(x.sa), x.sa.pattern),
			Case: cs, Observed: sink.observed(len(written), atomic.LoadInt64(&reported)),
			Expected: "once a Write has returned the message reaches the wrapped writer or is reported dropped without any later Write or Close, whatever the wrapped writer answered to earlier calls"})
	}
	if x.shape == "spaced" {
		for k := 0; k < x.sa.each; k++ {
			pay := c12Payload(0, k)
			written = append(written, pay)
			buf := callerBuf(k, pay)
			if !within(func() { dw.Write(buf) }) {
				vs = append(vs, hlib.Violation{Key: "producer-blocked", Monitor: "black-box sink-answers (C12)", Desc: fmt.Sprintf("Write %d did not return within %v", k+1, bbLimit), Case: cs})
				return vs, true
			}
			if ok, missing, _ := accounted(); !ok {
				stuckMsg(missing, k+1)
				break
			}
			time.Sleep(2 * time.Millisecond) // the consumer is parked (waiter) or asleep (poller) again
		}
	} else {
		per := make([][]string, x.sa.producers)
		var wg sync.WaitGroup
		for g := 0; g < x.sa.producers; g++ {
			wg.Add(1)
			go func(g int) {
				defer wg.Done()
				for k := 0; k < x.sa.each; k++ {
					pay := c12Payload(g, k)
					per[g] = append(per[g], pay)
					dw.Write(callerBuf(g+k, pay))
				}
			}(g)
		}
		if !within(wg.Wait) {
			sink.g.release()
			vs = append(vs, hlib.Violation{Key: "producer-blocked", Monitor: "black-box sink-answers (C12)", Desc: fmt.Sprintf("%d goroutines x %d Writes did not return within %v", x.sa.producers, x.sa.each, bbLimit), Case: cs})
			return vs, true
		}
		for _, l := range per {
			written = append(written, l...)
		}
		sink.g.release()
		if ok, missing, _ := accounted(); !ok {
			stuckMsg(missing, 1+indexOf(written, missing))
		}
	}
	// Close under a watchdog
	closed := make(chan struct{})
	t0 := time.Now()
	go func() { dw.Close(); close(closed) }()
	limit := bbLimit // + (ring+1) x the time the wrapped writer takes per call, which is nothing here
	select {
	case <-closed:
	case <-time.After(limit):
		stuck = true
		vs = append(vs, hlib.Violation{Key: "close-did-not-return", Monitor: "black-box sink-answers (C12)",
			Desc: fmt.Sprintf("%d Write(s) had returned and the wrapped writer had answered %s on calls '%s'; Close was called and did not return within %v (the wrapped writer has been called %d times)",
				len(written), answerNames(x.sa), x.sa.pattern, time.Since(t0).Round(time.Millisecond), sink.observed(0, 0)["calls_of_the_wrapped_writer"]),
			Case: cs, Observed: sink.observed(len(written), atomic.LoadInt64(&reported)), Expected: "Close returns in every schedule, whatever the wrapped writer answers"})
	}
	return vs, stuck
}

func answerNames(x saCfg) string {
	if x.pattern == "mix" {
		return "a seeded mix of all kinds"
	}
	return sinkAnswers[x.answer].name
}

func indexOf(l []string, s string) int {
	for i, v := range l {
		if v == s {
			return i
		}
	}
	return -1
}

// bbSinkAnswersC12: every answer kind x {only call 1, only call 3, odd calls, from call 4 on, every call} x both
// consumer modes in the spaced shape, every kind x {only-1, every} in the backlog shape, plus seeded mixes.
func bbSinkAnswersC12(c *hlib.Ctx) {
	// zero counts first, a negative count last (see the header)
	var order []int
	for a := 1; a < len(sinkAnswers); a++ {
		if strings.HasPrefix(sinkAnswers[a].name, "(0,") {
			order = append(order, a)
		}
	}
	for a := 1; a < len(sinkAnswers); a++ {
		if !strings.HasPrefix(sinkAnswers[a].name, "(0,") && !strings.HasPrefix(sinkAnswers[a].name, "(-") {
			order = append(order, a)
		}
	}
	for a := 1; a < len(sinkAnswers); a++ {
		if strings.HasPrefix(sinkAnswers[a].name, "(-") {
			order = append(order, a)
		}
	}
	var cfgs []c12saCfg
	n := 0
	for _, a := range order {
		for _, pat := range []string{"only-1", "every", "only-3", "odd", "from-4"} {
			for _, poll := range []time.Duration{0, time.Millisecond} {
				n++
				cfgs = append(cfgs, c12saCfg{sa: saCfg{poll: poll, answer: a, pattern: pat, ring: 64, producers: 1, each: 6}, shape: "spaced"})
				if pat == "only-1" || pat == "every" {
					cfgs = append(cfgs, c12saCfg{sa: saCfg{poll: poll, answer: a, pattern: pat, ring: 64, producers: 1 + n%3, each: 5}, shape: "backlog"})
				}
			}
		}
	}
	for i := 0; i < 16; i++ {
		r := c.R.Fork()
		mix := make([]int, 5+r.Intn(8))
		for j := range mix {
			mix[j] = order[r.Intn(len(order)-1)] // every kind but the negative count (it is last in order)
		}
		x := c12saCfg{sa: saCfg{poll: []time.Duration{0, time.Millisecond}[i%2], pattern: "mix", mix: mix, ring: 64, producers: 1, each: 4 + r.Intn(5)}, shape: []string{"spaced", "backlog"}[(i/2)%2]}
		if x.shape == "backlog" {
			x.sa.producers = 1 + r.Intn(3)
		}
		cfgs = append(cfgs, x)
	}
	out := make([][]hlib.Violation, len(cfgs))
	var stuckN int32
	sem := make(chan struct{}, c12saInFlight)
	var wg sync.WaitGroup
	ran := 0
	for i := range cfgs {
		sem <- struct{}{}
		if atomic.LoadInt32(&stuckN) >= c12saStuckStop {
			<-sem
			break
		}
		ran++
		wg.Add(1)
		go func(i int) {
			defer wg.Done()
			defer func() { <-sem }()
			vs, stuck := runC12SinkAnswers(cfgs[i])
			out[i] = vs
			if stuck {
				atomic.AddInt32(&stuckN, 1)
			}
		}(i)
	}
	wg.Wait()
	seen := map[string]int{}
	for _, vs := range out {
		for _, v := range vs {
			if seen[v.Key] < 3 {
				c.Violate(v)
			}
			seen[v.Key]++
		}
	}
	c.Res.ExtraCoverage["blackbox_sink_answer_c12_runs"] = ran
	c.Res.ExtraCoverage["blackbox_sink_answer_c12_planned"] = len(cfgs)
	if ran < len(cfgs) {
		c.Note("black-box sink-answers (C12): %d of %d scenarios run; the rest were skipped after %d scenarios left a stuck consumer or Close behind", ran, len(cfgs), atomic.LoadInt32(&stuckN))
	}
}
