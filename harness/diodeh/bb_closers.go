package diodeh

// Black-box Close scenarios on the uninstrumented diode.Writer (exported API only).
//
// (1) bbConcurrentClosers (C11): several Close calls on one Writer - at once, staggered into the
//     drain of the first, and one after the other - over a backlog that a slow wrapped writer takes
//     a while to absorb.  The statement speaks of "Close" without singling out one call: EVERY
//     Close that has returned has drained (shutdown paths close from a signal handler and from a
//     deferred call; Fatal closes while a shutdown Close is in progress).  Far fewer messages than
//     ring positions, every Write returned before the first Close: none may be dropped, so at the
//     return of each Close all of them must have been handed to the wrapped writer (or be covered
//     by Alerter counts).  On the unchanged code every Close waits for the poll goroutine to end,
//     which happens after the ring is empty, so the demand holds on every schedule.
//     The same histories are run for C12 ("Close returns in every schedule"), where only the return
//     of EVERY Close call is judged (within bbLimit, no panic) and nothing about the messages; both
//     properties also get the idle shapes: a writer that never saw a Write, and one whose messages
//     have all been delivered and whose consumer is parked/asleep, closed two or three times - at
//     once, staggered, one after the other without and with a pause (a deferred Close after an
//     explicit one on the shutdown path).
//
// (2) bbCloseWhileStalledAndWriting (C12): "Close returns in every schedule ... for all
//     interleavings of one or more producers, the consumer loop and the cancel path": Close is
//     called while the consumer is held inside the wrapped writer, producers go on writing
//     (nothing, less than a ring, exactly a ring, several rings) while Close is in progress, then
//     the wrapped writer is released and the producers stop: Close must return.  Nothing is
//     demanded about the messages written after Close was called.  A second form has no gate: the
//     wrapped writer is merely slow (5-50 ms per Write) and the producers write three times as
//     fast as it absorbs, for three rings' worth of Writes (runCloseWhileSlow).

import (
	"fmt"
	"sync"
	"sync/atomic"
	"time"

	"github.com/rs/zerolog/diode"
	"verifharness/hlib"
)

// slowSink takes `delay` per Write; counts the calls begun; optionally an io.Closer.
type slowSink struct {
	delay  time.Duration
	begun  int64
	closes int32
}

func (s *slowSink) Write(p []byte) (int, error) {
	atomic.AddInt64(&s.begun, 1)
	if s.delay > 0 {
		time.Sleep(s.delay)
	}
	return len(p), nil
}

type slowSinkCloser struct{ *slowSink }

func (s slowSinkCloser) Close() error { atomic.AddInt32(&s.closes, 1); return nil }

type ccCfg struct {
	poll      time.Duration
	ring      int
	producers int
	backlog   int           // messages written (all Writes returned) before the first Close; < ring
	delay     time.Duration // per Write of the wrapped writer
	closers   int
	stagger   time.Duration // closer i calls Close i*stagger after closer 0; < 0: one after the other (sequential)
	closer    bool          // the wrapped writer implements io.Closer
	idle      bool          // the first Close is called after every message has been handed to the wrapped writer and the consumer went idle
	pause     time.Duration // sequential Close calls: pause between the return of one and the call of the next
}

func (x ccCfg) json() map[string]interface{} {
	st := x.stagger.String()
	if x.stagger < 0 {
		st = fmt.Sprintf("sequential: each Close is called %v after the previous one returned", x.pause)
	}
	sc := "several-close-calls-over-a-backlog"
	if x.idle {
		sc = "several-close-calls-on-an-idle-writer"
	}
	return map[string]interface{}{"scenario": sc, "poll": x.poll.String(), "ring": x.ring, "producers": x.producers,
		"messages_written_before_the_first_close": x.backlog, "wrapped_writer_takes_per_write": x.delay.String(), "close_calls": x.closers,
		"delay_between_close_calls": st, "wrapped_writer_is_io_closer": x.closer,
		"first_close_called_after_everything_was_delivered_and_the_consumer_idle": x.idle}
}

// runConcurrentClosers: judgeDrain = C11 (every Close that returned has drained); otherwise (C12) only the return of
// every Close call is judged.
func runConcurrentClosers(x ccCfg, judgeDrain bool) *hlib.Violation {
	cs := x.json()
	sink := &slowSink{delay: x.delay}
	var reported int64
	var dw diode.Writer
	alert := func(m int) { atomic.AddInt64(&reported, int64(m)) }
	if x.closer {
		dw = diode.NewWriter(slowSinkCloser{sink}, x.ring, x.poll, alert)
	} else {
		dw = diode.NewWriter(sink, x.ring, x.poll, alert)
	}
	var wg sync.WaitGroup
	for g := 0; g < x.producers; g++ {
		wg.Add(1)
		go func(g int) {
			defer wg.Done()
			for k := g; k < x.backlog; k += x.producers {
				dw.Write([]byte(fmt.Sprintf("{\"w\":\"%c%d\"}\n", 'p'+g, k)))
			}
		}(g)
	}
	wg.Wait() // every Write has returned
	if x.idle {
		// every message is handed over and the consumer finds the ring empty and parks / sleeps.  (A message written
		// to an idle waiter can sit unnoticed - the known lost wake-up; one more Write wakes the consumer.)
		delivered := func() bool {
			for t := time.Now(); time.Since(t) < 200*time.Millisecond; {
				if atomic.LoadInt64(&sink.begun)+atomic.LoadInt64(&reported) >= int64(x.backlog) {
					return true
				}
				time.Sleep(100 * time.Microsecond)
			}
			return false
		}
		ok := delivered()
		for try := 0; try < 25 && !ok; try++ {
			dw.Write([]byte(fmt.Sprintf("{\"w\":\"i%d\"}\n", x.backlog)))
			x.backlog++
			ok = delivered()
		}
		if !ok {
			within(func() { dw.Close() })
			return &hlib.Violation{Key: "consumer-never-delivers", Monitor: "black-box several-close-calls", Desc: fmt.Sprintf("%d Writes over 5 s into a ring of %d, the wrapped writer was called %d times", x.backlog, x.ring, atomic.LoadInt64(&sink.begun)), Case: cs}
		}
		time.Sleep(5*time.Millisecond + 2*x.poll)
	}
	type closeRes struct {
		returned  bool
		panicked  string
		delivered int64
		reported  int64
		afterMs   int64
	}
	res := make([]closeRes, x.closers)
	t0 := time.Now()
	one := func(i int) {
		defer func() {
			if r := recover(); r != nil {
				res[i].panicked = fmt.Sprint(r)
			}
		}()
		dw.Close()
		// what had been handed to the wrapped writer when this Close returned
		res[i].delivered, res[i].reported = atomic.LoadInt64(&sink.begun), atomic.LoadInt64(&reported)
		res[i].afterMs = time.Since(t0).Milliseconds()
		res[i].returned = true
	}
	all := func() {
		if x.stagger < 0 {
			for i := 0; i < x.closers; i++ {
				if i > 0 {
					time.Sleep(x.pause)
				}
				one(i)
			}
			return
		}
		var cw sync.WaitGroup
		for i := 0; i < x.closers; i++ {
			cw.Add(1)
			go func(i int) {
				defer cw.Done()
				time.Sleep(time.Duration(i) * x.stagger)
				one(i)
			}(i)
		}
		cw.Wait()
	}
	finished := within(all)
	obs := []map[string]interface{}{}
	for i, r := range res {
		obs = append(obs, map[string]interface{}{"close_call": i, "returned": r.returned, "returned_after_ms": r.afterMs, "handed_to_wrapped_writer_at_return": r.delivered, "reported_dropped_at_return": r.reported, "panic": r.panicked})
	}
	for i, r := range res {
		if r.panicked != "" {
			return &hlib.Violation{Key: "close-panicked", Monitor: "black-box several-close-calls", Desc: fmt.Sprintf("Close call %d of %d panicked: %s", i, x.closers, r.panicked), Case: cs, Observed: obs}
		}
	}
	if !finished {
		stuck := []int{}
		for i, r := range res {
			if !r.returned {
				stuck = append(stuck, i)
			}
		}
		return &hlib.Violation{Key: "close-never-returns", Monitor: "black-box several-close-calls", Desc: fmt.Sprintf("%d Close calls on one Writer: not all returned within %v (Close call(s) %v did not return; numbered in call order)", x.closers, bbLimit, stuck), Case: cs, Observed: obs,
			Expected: "every Close call returns"}
	}
	if !judgeDrain {
		return nil
	}
	for i, r := range res {
		if r.delivered+r.reported < int64(x.backlog) {
			return &hlib.Violation{Key: "close-returned-before-drain", Monitor: "black-box several-close-calls",
				Desc: fmt.Sprintf("%d messages written into a ring of %d (every Write returned), then %d Close calls; the wrapped writer takes %v per message: Close call %d returned after %d ms when only %d message(s) had been handed to the wrapped writer and %d were reported to the Alerter: %d message(s) neither delivered nor reported when that Close returned",
					x.backlog, x.ring, x.closers, x.delay, i, r.afterMs, r.delivered, r.reported, int64(x.backlog)-r.delivered-r.reported),
				Case: cs, Observed: obs, Expected: fmt.Sprintf("at the return of every Close: delivered + reported >= %d", x.backlog)}
		}
	}
	return nil
}

// ccShape: idle = the first Close comes after everything was delivered (backlog 0: the writer never saw a Write)
type ccShape struct {
	ring, backlog int
	delay         time.Duration
	idle          bool
}

// bbConcurrentClosers: judgeDrain = true for C11 (2, 3, 8 Close calls; at once, 1 ms / 15 ms apart, one after the
// other; three backlog shapes and the two idle shapes); false for C12 (2 or 3 Close calls; at once, 1 ms apart, one
// after the other without and with a pause; one backlog shape and the two idle shapes): a Close that does not
// return leaves a goroutine behind, so the C12 sweep is kept to a few dozen writers.
func bbConcurrentClosers(c *hlib.Ctx, judgeDrain bool) {
	var cfgs []ccCfg
	n := 0
	idleShapes := []ccShape{{16, 0, 0, true}, {16, 5, 0, true}}
	closerCounts := []int{2, 3, 8}
	staggers := []time.Duration{0, time.Millisecond, 15 * time.Millisecond, -1}
	shapes := append([]ccShape{{64, 40, time.Millisecond, false}, {16, 12, 5 * time.Millisecond, false}, {256, 100, 300 * time.Microsecond, false}}, idleShapes...)
	if !judgeDrain {
		closerCounts = []int{2, 3}
		staggers = []time.Duration{0, time.Millisecond, -1, -2}
		shapes = append([]ccShape{{16, 12, 2 * time.Millisecond, false}}, idleShapes...)
	}
	for _, poll := range []time.Duration{0, 2 * time.Millisecond} {
		for _, closers := range closerCounts {
			for _, stagger := range staggers {
				for _, shape := range shapes {
					n++
					x := ccCfg{poll: poll, ring: shape.ring, producers: 1 + n%3, backlog: shape.backlog, delay: shape.delay, closers: closers, stagger: stagger, closer: n%2 == 0, idle: shape.idle}
					if stagger == -2 { // one after the other, with a pause
						x.stagger, x.pause = -1, 20*time.Millisecond
					}
					cfgs = append(cfgs, x)
				}
			}
		}
	}
	out := make([]*hlib.Violation, len(cfgs))
	var wg sync.WaitGroup
	sem := make(chan struct{}, 48)
	for i := range cfgs {
		wg.Add(1)
		sem <- struct{}{}
		go func(i int) {
			defer wg.Done()
			defer func() { <-sem }()
			out[i] = runConcurrentClosers(cfgs[i], judgeDrain)
		}(i)
	}
	wg.Wait()
	seen := map[string]int{}
	for _, v := range out {
		if v != nil {
			if seen[v.Key] < 3 {
				c.Violate(*v)
			}
			seen[v.Key]++
		}
	}
	c.Res.ExtraCoverage["blackbox_several_close_calls_runs"] = len(cfgs)
}

// ---------------------------------------------------------------------------------------------

type cwCfg struct {
	poll      time.Duration
	ring      int
	producers int
	after     int           // Writes made while Close is in progress and the consumer is held
	lead      time.Duration // between the call of Close and the first of those Writes
	sinkDelay time.Duration // > 0: the wrapped writer is not held but slow (this long per Write), see runCloseWhileSlow
}

func (x cwCfg) json() map[string]interface{} {
	if x.sinkDelay > 0 {
		return map[string]interface{}{"scenario": "close-while-consumer-busy-in-a-slow-writer-and-producers-writing", "poll": x.poll.String(), "ring": x.ring, "producers": x.producers,
			"wrapped_writer_takes_per_write": x.sinkDelay.String(), "writes_while_close_in_progress": x.after, "pause_between_those_writes_per_producer": (x.sinkDelay / 3).String(),
			"pause_between_close_call_and_those_writes": x.lead.String(),
			"order": fmt.Sprintf("one message is written and the consumer is inside the wrapped writer's Write (which takes %v); %d more are written (they fit the ring); Close is called (it has that backlog to drain); the producers make their Writes, three per Write of the wrapped writer each, and stop; Close must return", x.sinkDelay, x.ring-1)}
	}
	return map[string]interface{}{"scenario": "close-while-consumer-stalled-and-producers-writing", "poll": x.poll.String(), "ring": x.ring, "producers": x.producers,
		"writes_while_close_in_progress": x.after, "pause_between_close_call_and_those_writes": x.lead.String(),
		"order": "one message is written and the consumer is held inside the wrapped writer's Write; Close is called (it cannot return yet); the producers make their Writes and stop; the wrapped writer is released; Close must return"}
}

func runCloseWhileStalled(x cwCfg) *hlib.Violation {
	cs := x.json()
	g := newGate(false)
	sink := &bbSink{g: g}
	var reported int64
	dw := diode.NewWriter(sink, x.ring, x.poll, func(m int) { atomic.AddInt64(&reported, int64(m)) })
	written := 0
	// hold the consumer inside the wrapped writer (a message written to an idle waiter can sit
	// unnoticed - the known lost wake-up; one more Write wakes the consumer)
	held := false
	for try := 0; try < 25 && !held; try++ {
		dw.Write([]byte(fmt.Sprintf("{\"w\":\"h%d\"}\n", written)))
		written++
		for t := time.Now(); time.Since(t) < 200*time.Millisecond; {
			if atomic.LoadInt32(&sink.inside) == 1 {
				held = true
				break
			}
			time.Sleep(50 * time.Microsecond)
		}
	}
	if !held {
		g.release()
		within(func() { dw.Close() })
		return &hlib.Violation{Key: "consumer-never-delivers", Monitor: "black-box close-while-stalled", Desc: "25 Writes over 5 s into an idle diode, the wrapped writer was never called", Case: cs}
	}
	closed := make(chan struct{})
	go func() { dw.Close(); close(closed) }()
	time.Sleep(x.lead)
	var wg sync.WaitGroup
	for p := 0; p < x.producers; p++ {
		wg.Add(1)
		go func(p int) {
			defer wg.Done()
			for k := p; k < x.after; k += x.producers {
				dw.Write([]byte(fmt.Sprintf("{\"w\":\"%c%d\"}\n", 'p'+p, k)))
			}
		}(p)
	}
	if !within(wg.Wait) {
		g.release()
		return &hlib.Violation{Key: "producer-blocked", Monitor: "black-box close-while-stalled", Desc: fmt.Sprintf("Writes made while Close was in progress did not return within %v", bbLimit), Case: cs}
	}
	g.release()
	select {
	case <-closed:
	case <-time.After(bbLimit):
		return &hlib.Violation{Key: "close-never-returns", Monitor: "black-box close-while-stalled",
			Desc: fmt.Sprintf("Close was called while the consumer was held inside the wrapped writer's Write; %d producer(s) then made %d Write(s) into the ring of %d and stopped; the wrapped writer was released: Close did not return within %v (delivered %d, reported dropped %d)",
				x.producers, x.after, x.ring, bbLimit, len(sink.snapshot()), atomic.LoadInt64(&reported)),
			Case: cs, Observed: map[string]interface{}{"delivered": sink.snapshot(), "reported_dropped": atomic.LoadInt64(&reported)}, Expected: "Close returns"}
	}
	return nil
}

// runCloseWhileSlow: the variant without a gate.  The wrapped writer is alive but slow; Close is called while the
// consumer works through a backlog, and the producers go on writing faster than the wrapped writer absorbs (so they
// lap the ring, the consumer and whatever Close may have put into the ring) for a bounded number of Writes.  Once
// they have stopped the ring holds at most `ring` messages, which the wrapped writer absorbs in ring x sinkDelay:
// Close must have returned bbLimit after that.  Nothing is demanded about the messages.
func runCloseWhileSlow(x cwCfg) *hlib.Violation {
	cs := x.json()
	sink := &slowSink{delay: x.sinkDelay}
	var reported int64
	dw := diode.NewWriter(sink, x.ring, x.poll, func(m int) { atomic.AddInt64(&reported, int64(m)) })
	written := 0
	busy := false
	for try := 0; try < 25 && !busy; try++ {
		dw.Write([]byte(fmt.Sprintf("{\"w\":\"h%d\"}\n", written)))
		written++
		for t := time.Now(); time.Since(t) < 200*time.Millisecond; {
			if atomic.LoadInt64(&sink.begun) >= 1 {
				busy = true
				break
			}
			time.Sleep(50 * time.Microsecond)
		}
	}
	if !busy {
		within(func() { dw.Close() })
		return &hlib.Violation{Key: "consumer-never-delivers", Monitor: "black-box close-while-busy", Desc: "25 Writes over 5 s into an idle diode, the wrapped writer was never called", Case: cs}
	}
	for k := 0; k < x.ring-1; k++ {
		dw.Write([]byte(fmt.Sprintf("{\"w\":\"b%d\"}\n", k)))
	}
	closed := make(chan struct{})
	go func() { dw.Close(); close(closed) }()
	time.Sleep(x.lead)
	var wg sync.WaitGroup
	for p := 0; p < x.producers; p++ {
		wg.Add(1)
		go func(p int) {
			defer wg.Done()
			for k := p; k < x.after; k += x.producers {
				dw.Write([]byte(fmt.Sprintf("{\"w\":\"%c%d\"}\n", 'p'+p, k)))
				time.Sleep(x.sinkDelay / 3)
			}
		}(p)
	}
	wg.Wait() // bounded: x.after Writes, none of which waits for anything (C10's subject), and as many short sleeps
	limit := bbLimit + time.Duration(x.ring+1)*x.sinkDelay
	select {
	case <-closed:
	case <-time.After(limit):
		return &hlib.Violation{Key: "close-never-returns-while-writer-busy", Monitor: "black-box close-while-busy",
			Desc: fmt.Sprintf("Close was called while the consumer was working through %d messages into a wrapped writer that takes %v per Write; %d producer(s) then made %d Write(s) into the ring of %d (one every %v each) and stopped: Close did not return within %v after the last of them (the wrapped writer was called %d times, reported dropped %d)",
				x.ring, x.sinkDelay, x.producers, x.after, x.ring, x.sinkDelay/3, limit, atomic.LoadInt64(&sink.begun), atomic.LoadInt64(&reported)),
			Case: cs, Observed: map[string]interface{}{"wrapped_writer_calls": atomic.LoadInt64(&sink.begun), "reported_dropped": atomic.LoadInt64(&reported)}, Expected: "Close returns"}
	}
	return nil
}

func bbCloseWhileStalledAndWriting(c *hlib.Ctx) {
	var cfgs []cwCfg
	n := 0
	for _, poll := range []time.Duration{0, 2 * time.Millisecond} {
		for _, ring := range []int{1, 4, 16} {
			done := map[int]bool{}
			for _, after := range []int{0, 1, ring - 1, ring, ring + 1, 2 * ring, 3*ring + 1} {
				if done[after] {
					continue
				}
				done[after] = true
				n++
				lead := []time.Duration{0, 2 * time.Millisecond, 30 * time.Millisecond}[n%3]
				cfgs = append(cfgs, cwCfg{poll: poll, ring: ring, producers: 1 + n%2, after: after, lead: lead})
			}
		}
	}
	// the slow-writer variant: both modes x (ring, time per Write) x 1-2 producers, three rings' worth of Writes
	slow := 0
	for _, poll := range []time.Duration{0, 2 * time.Millisecond} {
		for _, sh := range []struct {
			ring  int
			delay time.Duration
		}{{2, 50 * time.Millisecond}, {4, 10 * time.Millisecond}, {8, 5 * time.Millisecond}} {
			n++
			slow++
			cfgs = append(cfgs, cwCfg{poll: poll, ring: sh.ring, producers: 1 + n%2, after: 3*sh.ring + 1, lead: []time.Duration{0, 2 * time.Millisecond}[n%2], sinkDelay: sh.delay})
		}
	}
	out := make([]*hlib.Violation, len(cfgs))
	var wg sync.WaitGroup
	for i := range cfgs {
		wg.Add(1)
		go func(i int) {
			defer wg.Done()
			if cfgs[i].sinkDelay > 0 {
				out[i] = runCloseWhileSlow(cfgs[i])
			} else {
				out[i] = runCloseWhileStalled(cfgs[i])
			}
		}(i)
	}
	wg.Wait()
	seen := map[string]int{}
	for _, v := range out {
		if v != nil {
			if seen[v.Key+v.Monitor] < 3 {
				c.Violate(*v)
			}
			seen[v.Key+v.Monitor]++
		}
	}
	c.Res.ExtraCoverage["blackbox_close_while_stalled_runs"] = len(cfgs) - slow
	c.Res.ExtraCoverage["blackbox_close_while_busy_runs"] = slow
}
