package diodeh

// Black-box scenarios: the uninstrumented diode.Writer on the real runtime, exported API only.
// No schedule control; every expectation is one that holds on every schedule, and every
// wait has a limit (5 s) far beyond what the operation needs, so a report means the
// operation did not happen.  They run on every check and they are what is left to search
// for a failing input when the sources can no longer be instrumented.

import (
	"fmt"
	"strings"
	"sync"
	"sync/atomic"
	"time"

	"github.com/rs/zerolog/diode"
	"verifharness/hlib"
)

const bbLimit = 5 * time.Second

type gate struct {
	mu   sync.Mutex
	open chan struct{}
}

func newGate(open bool) *gate {
	g := &gate{open: make(chan struct{})}
	if open {
		close(g.open)
	}
	return g
}
func (g *gate) wait() {
	g.mu.Lock()
	ch := g.open
	g.mu.Unlock()
	<-ch
}
func (g *gate) release() {
	g.mu.Lock()
	select {
	case <-g.open:
	default:
		close(g.open)
	}
	g.mu.Unlock()
}
func (g *gate) shut() {
	g.mu.Lock()
	select {
	case <-g.open:
		g.open = make(chan struct{})
	default:
	}
	g.mu.Unlock()
}

type bbSink struct {
	g      *gate
	mu     sync.Mutex
	got    []string
	inside int32
	nested bool
}

func (w *bbSink) Write(p []byte) (int, error) {
	if atomic.AddInt32(&w.inside, 1) != 1 {
		w.nested = true
	}
	w.g.wait()
	w.mu.Lock()
	w.got = append(w.got, string(p))
	w.mu.Unlock()
	atomic.AddInt32(&w.inside, -1)
	return len(p), nil
}
func (w *bbSink) snapshot() []string {
	w.mu.Lock()
	defer w.mu.Unlock()
	return append([]string{}, w.got...)
}

func within(f func()) bool {
	done := make(chan struct{})
	go func() { f(); close(done) }()
	select {
	case <-done:
		return true
	case <-time.After(bbLimit):
		return false
	}
}

// callerBuf: the caller's slice in three shapes; it is scribbled on after Write returns.
func callerBuf(i int, pay string) []byte {
	switch i % 3 {
	case 0:
		return []byte(pay)
	case 1:
		return append(make([]byte, 0, 1<<17), pay...)
	}
	return append(make([]byte, 0, 512), pay...)
}

func checkDeliveries(c *hlib.Ctx, prop, scenario string, cs map[string]interface{}, got []string, written map[string]bool) {
	seen := map[string]bool{}
	last := map[string]int{}
	for i, s := range got {
		if !written[s] {
			c.Violate(hlib.Violation{Key: "delivered-bytes-differ", Monitor: "black-box " + scenario, Desc: fmt.Sprintf("delivery %d is not byte-identical to the argument of any Write", i), Case: cs, Observed: trunc(s, 120)})
			return
		}
		if seen[s] {
			c.Violate(hlib.Violation{Key: "delivered-twice", Monitor: "black-box " + scenario, Desc: fmt.Sprintf("delivery %d repeats an earlier one", i), Case: cs, Observed: trunc(s, 120)})
			return
		}
		seen[s] = true
		var g string
		var k int
		if n, _ := fmt.Sscanf(s, "{\"w\":\"%1s%d\"", &g, &k); n == 2 {
			if l, ok := last[g]; ok && k <= l {
				c.Violate(hlib.Violation{Key: "producer-order-violated", Monitor: "black-box " + scenario, Desc: fmt.Sprintf("producer %s: message %d delivered after message %d", g, k, l), Case: cs})
				return
			}
			last[g] = k
		}
	}
}

func trunc(s string, n int) string {
	if len(s) > n {
		return s[:n] + "..."
	}
	return s
}

// bbNonBlocking (C10): Writes return while the wrapped writer is blocked, also while the alerter is
// stuck in the same sink and when the alerter itself logs through the diode; what is delivered
// afterwards is byte-identical to Write arguments although the callers reuse their slices.
func bbNonBlocking(c *hlib.Ctx) {
	runs := 0
	for _, poll := range []time.Duration{0, 2 * time.Millisecond} {
		for _, alert := range []string{"none", "count", "blocks-in-sink", "logs-through-diode"} {
			cs := map[string]interface{}{"scenario": "non-blocking", "poll": poll.String(), "alerter": alert, "ring": 4, "producers": 3, "writes_each": 6}
			sinkGate, alertGate := newGate(false), newGate(true)
			sink := &bbSink{g: sinkGate}
			written := map[string]bool{}
			var wmu sync.Mutex
			var dw diode.Writer
			var alerts int64
			var f diode.Alerter
			switch alert {
			case "count":
				f = func(m int) { atomic.AddInt64(&alerts, int64(m)) }
			case "blocks-in-sink":
				f = func(m int) { atomic.AddInt64(&alerts, int64(m)); alertGate.wait() }
			case "logs-through-diode":
				f = func(m int) {
					n := atomic.AddInt64(&alerts, int64(m))
					pay := fmt.Sprintf("{\"w\":\"a%d\",\"dropped\":%d}\n", n, m)
					wmu.Lock()
					written[pay] = true
					wmu.Unlock()
					dw.Write([]byte(pay))
				}
			}
			dw = diode.NewWriter(sink, 4, poll, f)
			round := func(tag string, base int) bool {
				var wg sync.WaitGroup
				for g := 0; g < 3; g++ {
					wg.Add(1)
					go func(g int) {
						defer wg.Done()
						for k := 0; k < 6; k++ {
							pay := fmt.Sprintf("{\"w\":\"%c%d\",\"pad\":\"%s\"}\n", 'p'+g, base+k, strings.Repeat("x", (g*7+k)%13))
							wmu.Lock()
							written[pay] = true
							wmu.Unlock()
							buf := callerBuf(g+k, pay)
							n, err := dw.Write(buf)
							if n != len(pay) || err != nil {
								c.Violate(hlib.Violation{Key: "write-result", Monitor: "black-box non-blocking", Desc: "Write did not report (len(p), nil)", Case: cs, Observed: fmt.Sprint(n, err)})
							}
							for i := range buf {
								buf[i] = '#'
							}
						}
					}(g)
				}
				if !within(wg.Wait) {
					c.Violate(hlib.Violation{Key: "producer-blocked", Monitor: "black-box non-blocking",
						Desc: fmt.Sprintf("3 goroutines x 6 Writes did not return within %v while %s", bbLimit, tag), Case: cs})
					return false
				}
				return true
			}
			ok := round("the wrapped writer is blocked", 0)
			if ok && alert == "blocks-in-sink" {
				// let the consumer run into the lapped ring: the alerter is called and stays there
				alertGate.shut()
				sinkGate.release()
				deadline := time.Now().Add(bbLimit)
				for atomic.LoadInt64(&alerts) == 0 && time.Now().Before(deadline) {
					time.Sleep(time.Millisecond)
				}
				if atomic.LoadInt64(&alerts) > 0 {
					ok = round("the alerter does not return", 100)
				}
			}
			sinkGate.release()
			alertGate.release()
			if !within(func() { dw.Close() }) {
				if ok {
					c.Violate(hlib.Violation{Key: "close-never-returns", Monitor: "black-box non-blocking", Desc: fmt.Sprintf("Close did not return within %v after the wrapped writer was released", bbLimit), Case: cs})
				}
				runs++
				continue
			}
			got := sink.snapshot()
			wmu.Lock()
			checkDeliveries(c, "C10", "non-blocking", cs, got, written)
			wmu.Unlock()
			if sink.nested {
				c.Violate(hlib.Violation{Key: "deliveries-overlap", Monitor: "black-box non-blocking", Desc: "two calls of the wrapped writer overlapped", Case: cs})
			}
			runs++
		}
	}
	c.Res.ExtraCoverage["blackbox_nonblocking_runs"] = runs
}

// bbCloseDrains (C11): fewer messages than ring positions, then Close: everything is delivered and
// Close returns, with the consumer parked (waiter) or asleep (poller; also a long interval).
func bbCloseDrains(c *hlib.Ctx) {
	runs := 0
	for _, x := range []struct {
		poll time.Duration
		its  int
	}{{0, 40}, {time.Millisecond, 40}, {40 * time.Millisecond, 4}, {300 * time.Millisecond, 1}} {
		for it := 0; it < x.its; it++ {
			cs := map[string]interface{}{"scenario": "close-drains", "poll": x.poll.String(), "ring": 64, "producers": 3, "writes_each": 5}
			sink := &bbSink{g: newGate(true)}
			dw := diode.NewWriter(sink, 64, x.poll, nil)
			if x.poll >= 40*time.Millisecond {
				time.Sleep(5 * time.Millisecond) // the consumer found the ring empty and sleeps
			}
			written := map[string]bool{}
			var wmu sync.Mutex
			var wg sync.WaitGroup
			for g := 0; g < 3; g++ {
				wg.Add(1)
				go func(g int) {
					defer wg.Done()
					for k := 0; k < 5; k++ {
						pay := fmt.Sprintf("{\"w\":\"%c%d\"}\n", 'p'+g, k)
						wmu.Lock()
						written[pay] = true
						wmu.Unlock()
						dw.Write([]byte(pay))
					}
				}(g)
			}
			wg.Wait()
			runs++
			if !within(func() { dw.Close() }) {
				c.Violate(hlib.Violation{Key: "close-never-returns", Monitor: "black-box close-drains", Desc: fmt.Sprintf("Writer.Close did not return within %v on the real runtime", bbLimit), Case: cs})
				return
			}
			got := sink.snapshot()
			checkDeliveries(c, "C11", "close-drains", cs, got, written)
			if len(got) != 15 {
				c.Violate(hlib.Violation{Key: "close-does-not-drain", Monitor: "black-box close-drains", Desc: "15 messages written into a ring of 64, Close returned, not all delivered", Case: cs, Observed: len(got), Expected: 15})
			}
		}
	}
	c.Res.ExtraCoverage["blackbox_close_drains_runs"] = runs
}

// bbDeliversWhenIdle (C12): a message written while the consumer is idle reaches the wrapped writer
// without any later Write or Close, also after the ring has overflowed once.
func bbDeliversWhenIdle(c *hlib.Ctx) {
	runs := 0
	for _, poll := range []time.Duration{0, 2 * time.Millisecond} {
		for _, overflow := range []bool{false, true} {
			cs := map[string]interface{}{"scenario": "delivers-when-idle", "poll": poll.String(), "ring": 4, "overflow_first": overflow}
			g := newGate(true)
			sink := &bbSink{g: g}
			dw := diode.NewWriter(sink, 4, poll, func(int) {})
			if overflow {
				g.shut()
				for k := 0; k < 11; k++ {
					dw.Write([]byte(fmt.Sprintf("{\"w\":\"o%d\"}\n", k)))
				}
				g.release()
			}
			// idle: far longer than one delivery takes, so the consumer has caught up and is parked
			// or polling (the lost-wake-up window of the known finding is not entered)
			time.Sleep(100 * time.Millisecond)
			before := len(sink.snapshot())
			pay := "{\"w\":\"z1\"}\n"
			dw.Write([]byte(pay))
			deadline := time.Now().Add(bbLimit)
			ok := false
			for time.Now().Before(deadline) {
				got := sink.snapshot()
				if len(got) > before && got[len(got)-1] == pay {
					ok = true
					break
				}
				time.Sleep(time.Millisecond)
			}
			runs++
			if !ok {
				c.Violate(hlib.Violation{Key: "message-stuck-while-idle", Monitor: "black-box delivers-when-idle",
					Desc: fmt.Sprintf("a Write made while the consumer was idle did not reach the wrapped writer within %v without a later Write or Close", bbLimit), Case: cs})
			}
			if !within(func() { dw.Close() }) {
				c.Violate(hlib.Violation{Key: "close-never-returns", Monitor: "black-box delivers-when-idle", Desc: fmt.Sprintf("Writer.Close did not return within %v", bbLimit), Case: cs})
				return
			}
		}
	}
	c.Res.ExtraCoverage["blackbox_idle_runs"] = runs
}

// bbPollerStaysPrompt (C12, polling mode): after a long quiet period the poller still looks at the ring every
// interval: a Write made then reaches the wrapped writer within a small multiple of the interval.  Reading of
// "promptly" committed to here: 250 poll intervals (0.5 s for the 2 ms used) - two orders of magnitude of slack for
// a loaded machine, and still below what a poller that backs off while idle would take.
func bbPollerStaysPrompt(c *hlib.Ctx) {
	const interval = 2 * time.Millisecond
	const bound = 250 * interval
	type res struct {
		idle  time.Duration
		delay time.Duration
		ok    bool
	}
	out := make([]res, 4)
	var wg sync.WaitGroup
	for k := range out {
		wg.Add(1)
		go func(k int) {
			defer wg.Done()
			sink := &bbSink{g: newGate(true)}
			dw := diode.NewWriter(sink, 16, interval, func(int) {})
			idle := time.Duration(1100+150*k) * time.Millisecond
			time.Sleep(idle)
			t0 := time.Now()
			dw.Write([]byte("{\"w\":\"late\"}\n"))
			deadline := t0.Add(bbLimit)
			ok := false
			for time.Now().Before(deadline) {
				if len(sink.snapshot()) == 1 {
					ok = true
					break
				}
				time.Sleep(time.Millisecond)
			}
			out[k] = res{idle, time.Since(t0), ok}
			within(func() { dw.Close() })
		}(k)
	}
	wg.Wait()
	var worst time.Duration
	for _, r := range out {
		if r.delay > worst {
			worst = r.delay
		}
		if !r.ok || r.delay > bound {
			c.Violate(hlib.Violation{Key: "poller-delivery-late", Monitor: "black-box poller-stays-prompt",
				Desc: fmt.Sprintf("polling mode, interval %v: after %v without traffic a Write reached the wrapped writer only after %v (delivered: %v); bound %v = 250 intervals", interval, r.idle, r.delay, r.ok, bound),
				Case: map[string]interface{}{"scenario": "poller-stays-prompt", "poll": interval.String(), "idle": r.idle.String()}, Observed: r.delay.String(), Expected: "<= " + bound.String()})
		}
	}
	c.Res.ExtraCoverage["blackbox_poller_prompt_worst_delay"] = worst.String()
}

func blackBox(c *hlib.Ctx, prop string) {
	switch prop {
	case "C10":
		bbNonBlocking(c)
		bbSinkAnswers(c)
	case "C11":
		bbCloseDrains(c)
		bbOverflowEpisodes(c, true)
		bbSinkFaults(c)
		bbConcurrentClosers(c, true)
		fatalPath(c)
	case "C12":
		bbDeliversWhenIdle(c)
		bbCloseDrains(c)
		bbOverflowEpisodes(c, false)
		bbCloseWhileStalledAndWriting(c)
		bbConcurrentClosers(c, false)
		bbPollerStaysPrompt(c)
		bbPollerWindow(c)
		bbSinkAnswersC12(c)
	}
}
