package diodeh

import (
	"fmt"
	"strings"

	"verifharness/hlib"
)

// prefix tree of executions of one configuration
type tnode struct {
	en    uint64
	hasEn bool
	obs   []Obs
	kids  []*tedge
	idx   map[[3]int64]*tedge
}

type tedge struct {
	t, k, v int64
	sub     *tnode
}

func newNode() *tnode { return &tnode{idx: map[[3]int64]*tedge{}} }

// insert adds one execution; returns the number of new edges
func (root *tnode) insert(r *Res) int {
	n := root
	added := 0
	cp := 0
	attach := func(pos int) {
		for cp < len(r.Cp) && r.Cp[cp].At == pos {
			o := r.Cp[cp]
			dup := false
			for _, x := range n.obs {
				if obsKey(x) == obsKey(o) {
					dup = true
				}
			}
			if !dup {
				n.obs = append(n.obs, o)
			}
			if !n.hasEn {
				n.en, n.hasEn = o.En, true
			}
			cp++
		}
	}
	for i, s := range r.St {
		attach(i)
		n.en, n.hasEn = uint64(s[3]), true
		key := [3]int64{s[0], s[1], s[2]}
		e := n.idx[key]
		if e == nil {
			e = &tedge{t: s[0], k: s[1], v: s[2], sub: newNode()}
			n.idx[key] = e
			n.kids = append(n.kids, e)
			added++
		}
		n = e.sub
	}
	attach(len(r.St))
	return added
}

func obsKey(o Obs) string { return coqObs(o) }

func coqNs(xs []uint64) string {
	ss := make([]string, len(xs))
	for i, x := range xs {
		ss[i] = fmt.Sprint(x)
	}
	return "[" + strings.Join(ss, ";") + "]"
}

func coqObs(o Obs) string {
	al := make([]uint64, len(o.Al))
	for i, a := range o.Al {
		al[i] = uint64(a)
	}
	fl := 0
	if o.Closed {
		fl |= 1
	}
	if o.CDone {
		fl |= 2
	}
	if o.Parked {
		fl |= 4
	}
	if o.PDone {
		fl |= 8
	}
	return fmt.Sprintf("Ob %s %s %s %d %d %d %d", coqNs(o.Del), coqNs(al), coqNs(o.Ret), o.Ri, o.Claims, o.Col, fl)
}

func (n *tnode) size() int {
	c := 1
	for _, e := range n.kids {
		c += e.sub.size()
	}
	return c
}

func (n *tnode) print(b *strings.Builder) {
	fmt.Fprintf(b, "Nd %d [", n.en)
	for i, o := range n.obs {
		if i > 0 {
			b.WriteString(";")
		}
		b.WriteString(coqObs(o))
	}
	b.WriteString("] [")
	for i, e := range n.kids {
		if i > 0 {
			b.WriteString(";")
		}
		fmt.Fprintf(b, "Ed %d %d %d (", e.t, e.k, e.v)
		e.sub.print(b)
		b.WriteString(")")
	}
	b.WriteString("]")
}

// pieces splits the tree into sub-trees of at most max nodes, each wrapped in the linear chain
// leading to it from the root (so every piece is checked from the initial state).
func (n *tnode) pieces(max int) []*tnode {
	if n.size() <= max || len(n.kids) == 0 {
		return []*tnode{n}
	}
	var out []*tnode
	// the node itself (its enabled set and snapshots) goes with the first piece only
	first := true
	for _, e := range n.kids {
		for _, sub := range e.sub.pieces(max) {
			w := &tnode{en: n.en, hasEn: n.hasEn}
			if first {
				w.obs = n.obs
				first = false
			}
			w.kids = []*tedge{{t: e.t, k: e.k, v: e.v, sub: sub}}
			out = append(out, w)
		}
	}
	return out
}

func coqMsgs(msgs [][]uint64) string {
	ss := make([]string, len(msgs))
	for i, m := range msgs {
		ss[i] = coqNs(m)
	}
	return "[" + strings.Join(ss, ";") + "]"
}

func (j *Job) coqCase(t *tnode) string {
	var b strings.Builder
	if j.Level == "diode" {
		fmt.Fprintf(&b, "(DRing %d%%nat %s (", j.Size, coqMsgs(j.Msgs))
	} else {
		fmt.Fprintf(&b, "(DWriter %s %s %d%%nat %s (", hlib.CoqBool(j.Waiter), hlib.CoqBool(j.Gated), j.Size, coqMsgs(j.Msgs))
	}
	t.print(&b)
	b.WriteString("), 0)")
	return b.String()
}
