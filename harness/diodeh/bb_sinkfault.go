package diodeh

// Black-box sink faults (C11): the wrapped writer fails one call (or a few consecutive calls) and
// works again afterwards.  Messages are written before, during and after the failing call, far
// fewer than the ring holds; then Close.
//
// What is demanded, from the statement: "delivered to the wrapped writer" means handed to the
// wrapped writer's Write - the call counts whatever it returns (nothing says the diode retries,
// and nothing is demanded about that: a message handed over twice is not an offence here).
// Fewer messages than ring positions are outstanding at all times and there is one producer, so
// none may be dropped: after Close every message written must have been the argument of a call
// of the wrapped writer's Write.  Close must return.

import (
	"context"
	"errors"
	"fmt"
	"io"
	"io/fs"
	"net"
	"os"
	"sync"
	"sync/atomic"
	"syscall"
	"time"

	"github.com/rs/zerolog/diode"
	"verifharness/hlib"
)

type sinkFault struct {
	name string
	ret  func(p []byte) (int, error)
}

var sinkFaults = []sinkFault{
	{"errors.New", func(p []byte) (int, error) { return 0, errors.New("verif: sink failed") }},
	{"os.ErrClosed", func(p []byte) (int, error) { return 0, os.ErrClosed }},
	{"PathError{os.ErrClosed}", func(p []byte) (int, error) {
		return 0, &fs.PathError{Op: "write", Path: "app.log", Err: os.ErrClosed}
	}},
	{"io.ErrClosedPipe", func(p []byte) (int, error) { return 0, io.ErrClosedPipe }},
	{"syscall.EPIPE", func(p []byte) (int, error) { return 0, syscall.EPIPE }},
	{"OpError{SyscallError{EPIPE}}", func(p []byte) (int, error) {
		return 0, &net.OpError{Op: "write", Net: "tcp", Err: os.NewSyscallError("write", syscall.EPIPE)}
	}},
	{"syscall.ECONNRESET", func(p []byte) (int, error) { return 0, syscall.ECONNRESET }},
	{"syscall.EBADF", func(p []byte) (int, error) { return 0, syscall.EBADF }},
	{"syscall.ENOSPC-partial", func(p []byte) (int, error) { return len(p) / 2, syscall.ENOSPC }},
	{"net.ErrClosed", func(p []byte) (int, error) { return 0, net.ErrClosed }},
	{"io.EOF", func(p []byte) (int, error) { return 0, io.EOF }},
	{"io.ErrShortWrite", func(p []byte) (int, error) { return len(p) / 2, io.ErrShortWrite }},
	{"short-count-nil-error", func(p []byte) (int, error) { return len(p) / 2, nil }},
	{"zero-count-nil-error", func(p []byte) (int, error) { return 0, nil }},
	{"context.Canceled", func(p []byte) (int, error) { return 0, context.Canceled }},
	{"os.ErrDeadlineExceeded", func(p []byte) (int, error) { return 0, os.ErrDeadlineExceeded }},
}

type faultySink struct {
	mu      sync.Mutex
	calls   []string
	n       int
	failAt  int // 1-based index of the first failing call
	failFor int // number of consecutive failing calls
	fault   sinkFault
	entered chan struct{} // closed when the first failing call has begun
	hold    chan struct{} // the first failing call returns after this is closed
	errs    int32
}

func (w *faultySink) Write(p []byte) (int, error) {
	w.mu.Lock()
	w.n++
	n := w.n
	w.calls = append(w.calls, string(p))
	w.mu.Unlock()
	if n >= w.failAt && n < w.failAt+w.failFor {
		if n == w.failAt {
			close(w.entered)
			<-w.hold
		}
		atomic.AddInt32(&w.errs, 1)
		return w.fault.ret(p)
	}
	return len(p), nil
}

func (w *faultySink) snapshot() []string {
	w.mu.Lock()
	defer w.mu.Unlock()
	return append([]string{}, w.calls...)
}

type sfCfg struct {
	poll    time.Duration
	fault   sinkFault
	failAt  int
	failFor int
	pause   time.Duration // between the return of the failing call and the Writes made after it
}

func runSinkFault(x sfCfg) *hlib.Violation {
	const ring = 64
	const during, after = 3, 3
	cs := map[string]interface{}{"scenario": "sink-fails-then-recovers", "poll": x.poll.String(), "ring": ring, "producers": 1,
		"sink_write_result": x.fault.name, "first_failing_call": x.failAt, "consecutive_failing_calls": x.failFor,
		"writes_before_and_behind_the_failing_call": x.failAt + 2, "writes_while_the_failing_call_is_in_progress": during,
		"pause_after_the_failing_call": x.pause.String(), "writes_after_it": after}
	sink := &faultySink{failAt: x.failAt, failFor: x.failFor, fault: x.fault, entered: make(chan struct{}), hold: make(chan struct{})}
	var reported int64
	dw := diode.NewWriter(sink, ring, x.poll, func(m int) { atomic.AddInt64(&reported, int64(m)) })
	var written []string
	write := func(tag string) {
		pay := fmt.Sprintf("{\"w\":\"%s%d\"}\n", tag, len(written))
		written = append(written, pay)
		dw.Write([]byte(pay))
	}
	released := false
	release := func() {
		if !released {
			released = true
			close(sink.hold)
		}
	}
	defer release()
	for i := 0; i < x.failAt+2; i++ {
		write("b")
	}
	// the consumer reaches the failing call (a message written to an idle waiter can sit unnoticed
	// - the known lost wake-up; one more Write wakes the consumer, so add one every 200 ms)
	reached := false
	for try := 0; try < 25 && !reached; try++ {
		select {
		case <-sink.entered:
			reached = true
		case <-time.After(200 * time.Millisecond):
			write("b")
		}
	}
	if !reached {
		release()
		within(func() { dw.Close() })
		return &hlib.Violation{Key: "consumer-never-delivers", Monitor: "black-box sink-fails-then-recovers",
			Desc: fmt.Sprintf("%d Writes over 5 s, the wrapped writer was called %d times, call %d never began", len(written), len(sink.snapshot()), x.failAt), Case: cs}
	}
	for i := 0; i < during; i++ {
		write("d")
	}
	release()
	time.Sleep(x.pause)
	for i := 0; i < after; i++ {
		write("a")
	}
	if !within(func() { dw.Close() }) {
		return &hlib.Violation{Key: "close-never-returns", Monitor: "black-box sink-fails-then-recovers", Desc: fmt.Sprintf("Writer.Close did not return within %v", bbLimit), Case: cs}
	}
	calls := sink.snapshot()
	got := map[string]bool{}
	for _, s := range calls {
		got[s] = true
	}
	var missing []string
	for _, s := range written {
		if !got[s] {
			missing = append(missing, s)
		}
	}
	if len(missing) > 0 {
		rep := atomic.LoadInt64(&reported)
		return &hlib.Violation{Key: "lost-after-sink-error", Monitor: "black-box sink-fails-then-recovers",
			Desc: fmt.Sprintf("the wrapped writer's Write returned %s on call %d (%d consecutive call(s)) and worked afterwards; %d messages into a ring of %d by one producer, Close returned: %d message(s) were never handed to the wrapped writer, %d reported to the Alerter",
				x.fault.name, x.failAt, x.failFor, len(written), ring, len(missing), rep),
			Case: cs, Observed: map[string]interface{}{"calls_of_the_wrapped_writer": calls, "never_handed_over": missing, "reported_dropped": rep, "failing_calls": atomic.LoadInt32(&sink.errs)},
			Expected: "every message written is the argument of a call of the wrapped writer's Write before Close returns (fewer messages than ring positions: none may be dropped)"}
	}
	return nil
}

// bbSinkFaults: every result kind x first failing call 1 / 3 / 6 x one or three consecutive
// failing calls x both consumer modes, pause 0 or 20 ms after the failing call.
func bbSinkFaults(c *hlib.Ctx) {
	var cfgs []sfCfg
	n := 0
	for _, poll := range []time.Duration{0, time.Millisecond} {
		for _, f := range sinkFaults {
			for _, at := range []int{1, 3, 6} {
				for _, cnt := range []int{1, 3} {
					n++
					cfgs = append(cfgs, sfCfg{poll: poll, fault: f, failAt: at, failFor: cnt, pause: time.Duration(n%2) * 20 * time.Millisecond})
				}
			}
		}
	}
	out := make([]*hlib.Violation, len(cfgs))
	sem := make(chan struct{}, 32)
	var wg sync.WaitGroup
	for i := range cfgs {
		wg.Add(1)
		sem <- struct{}{}
		go func(i int) {
			defer wg.Done()
			defer func() { <-sem }()
			out[i] = runSinkFault(cfgs[i])
		}(i)
	}
	wg.Wait()
	for _, v := range out {
		if v != nil {
			c.Violate(*v)
		}
	}
	c.Res.ExtraCoverage["blackbox_sink_fault_runs"] = len(cfgs)
	c.Res.ExtraCoverage["blackbox_sink_fault_kinds"] = len(sinkFaults)
}
