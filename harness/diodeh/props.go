package diodeh

import (
	"encoding/json"
	"fmt"
	"os"
	"time"

	"verifharness/hlib"
)

type sess struct {
	c          *hlib.Ctx
	b          *Built
	prop       string
	nodes      int // nodes in the open shard
	scheds     int
	steps      int
	ids        int
	coqScheds  int
	coqNodes   int
	exhaustive bool
}

func (s *sess) nextID() int { s.ids++; return s.ids }

const shardNodes = 20000

func openSess(c *hlib.Ctx, prop string) *sess {
	repo := os.Getenv("VERIF_REPO")
	if repo == "" {
		repo = "/repo"
	}
	if os.Getenv("VERIF_DIODE_BLACKBOX_ONLY") != "" && c.Replay == "" {
		// builders' switch: only the black-box scenarios (to try a timing-dependent scenario repeatedly without the
		// schedule exploration).  The result is marked broken, so such a run can never count as a passed check.
		c.Res.Broken = append(c.Res.Broken, "VERIF_DIODE_BLACKBOX_ONLY is set: the schedule exploration was skipped (schedule-level correspondence not established)")
		blackBox(c, prop)
		c.Res.Rule = "black-box scenarios only (VERIF_DIODE_BLACKBOX_ONLY)"
		c.Finish()
		os.Exit(0)
	}
	b, err := BuildRunner(repo)
	if err != nil {
		// a repository whose diode sources cannot be instrumented/built: the correspondence cannot be established
		// that obligation is broken; what is left is the black-box search for a failing input
		fmt.Fprintln(os.Stderr, "diodeh: "+err.Error())
		c.Res.Broken = append(c.Res.Broken, "the diode sources cannot be instrumented (schedule-level correspondence not established): "+err.Error())
		blackBox(c, prop)
		c.Finish()
		os.Exit(0)
	}
	s := &sess{c: c, b: b, prop: prop, exhaustive: true}
	if c.Thorough() {
		JobTimeout = 1800 * time.Second
	}
	s.open()
	return s
}

func (s *sess) open() {
	p := s.prop[1:]
	s.c.OpenShards("From Verif Require Import Base.Prelude Lts.Diode Lts.Waiter Harness.DiodeH Harness.C"+p+"H.\nOpen Scope N_scope.",
		"dcase * N", "mismatches c"+p+"_run c"+p+"_eqb", 1000)
	s.nodes = 0
}

// ship writes the tree of one job to the shards (split in pieces)
func (s *sess) ship(j *Job, root *tnode, desc map[string]interface{}) {
	for _, p := range root.pieces(shardNodes / 2) {
		sz := p.size()
		if s.nodes+sz > shardNodes && s.nodes > 0 {
			s.open()
		}
		s.nodes += sz
		d := map[string]interface{}{"job": j, "nodes": sz}
		for k, v := range desc {
			d[k] = v
		}
		s.c.AddCase(j.coqCase(p), d)
	}
}

func mkMsgs(P, W int) [][]uint64 {
	var msgs [][]uint64
	for p := 0; p < P; p++ {
		var l []uint64
		for i := 0; i < W; i++ {
			l = append(l, uint64(100*(p+1)+i))
		}
		msgs = append(msgs, l)
	}
	return msgs
}

// explore runs one job, applies the monitors of the property to every execution, and ships
// (a sample of) the executions to the Coq shards.
type exploreOpt struct {
	coqEvery int // ship every k-th execution to Coq (1 = all, 0 = none)
	label    string
}

func (s *sess) explore(j *Job, o exploreOpt) (n int) {
	root := newNode()
	m := &monCtx{c: s.c, prop: s.prop}
	i := 0
	shipped := 0
	nn, trunc, err := s.b.RunJob(j, func(r *Res) {
		f := analyse(j, r)
		m.c10(j, r, f) // safety monitors apply to every run of every property
		switch s.prop {
		case "C11":
			m.c11(j, r, f)
		case "C12":
			m.c11(j, r, f)
			m.c12(j, r, f)
		}
		if len(r.Unk) > 0 {
			m.violate(j, r, "unknown-operation", "instrumentation", fmt.Sprintf("the instrumented code performed operations the model does not know: %v", r.Unk), nil, nil)
		}
		nontrivial := f.ctxSwitch >= 3 && f.consSteps > 0
		s.c.Count(schedKey(j, r), nontrivial)
		if o.coqEvery > 0 && i%o.coqEvery == 0 {
			root.insert(r)
			shipped++
		}
		i++
		s.steps += len(r.St)
		if f.lapped {
			s.c.Hist("lapping", "lapped")
		} else {
			s.c.Hist("lapping", "no-lap")
		}
		s.c.Hist("status", j.Level+":"+r.Status)
		if len(s.c.Res.Samples) < 4 && nontrivial {
			s.c.Sample(map[string]interface{}{"level": j.Level, "size": j.Size, "msgs": j.Msgs, "waiter": j.Waiter, "schedule": schedOf(r), "final": r.Cp[len(r.Cp)-1]})
		}
	})
	if err != nil {
		// the instrumented code did not get through a job (it hangs, crashes or leaves the protocol): the
		// schedule-level correspondence is not established - a broken obligation.  What is left is the
		// model-independent search for a failing input on the uninstrumented Writer, so that the report
		// carries one whenever the black-box scenarios can produce it.
		fmt.Fprintln(os.Stderr, "diodeh: runner failed: "+err.Error())
		s.b.Cleanup()
		s.c.Res.Broken = append(s.c.Res.Broken, "the instrumented diode code did not complete a job (schedule-level correspondence not established): "+err.Error())
		s.exhaustive = false
		if s.c.Replay == "" {
			blackBox(s.c, s.prop)
		}
		s.finish(ruleCommon + "; INCOMPLETE: the exploration stopped at a job the instrumented code did not complete; the black-box scenarios were run")
		s.c.Finish()
		os.Exit(0)
	}
	s.scheds += nn
	cfg := fmt.Sprintf("%s P=%d W=%d size=%d", j.Level, len(j.Msgs), len(j.Msgs[0]), j.Size)
	if j.Level == "writer" {
		cfg += fmt.Sprintf(" waiter=%v gated=%v", j.Waiter, j.Gated)
	}
	s.c.Hist("config", cfg)
	if j.Mode == "dfs" {
		s.c.Note("%s %s: %d schedules enumerated (truncated=%v), %d shipped to Coq as %d tree nodes", o.label, cfg, nn, trunc, shipped, root.size())
		if trunc {
			s.exhaustive = false
		}
	}
	if shipped > 0 {
		s.coqScheds += shipped
		s.coqNodes += root.size()
		s.ship(j, root, map[string]interface{}{"label": o.label, "schedules": shipped})
	}
	if m.stuck >= stuckStop && s.c.Replay == "" {
		// The stuck-state detector has its witnesses (executions of the instrumented code in which Close
		// does not return or the fair completion does not terminate; never the case on code that meets
		// the property, and not a known finding).  Every further exhaustive job on such code runs each
		// schedule into the step cap or into the job timeout (minutes of all cores per job) only to
		// repeat the report: stop the exploration here, run the black-box scenarios, and say so.
		fmt.Fprintf(os.Stderr, "diodeh: exploration stopped after job %d: %d executions reported by the stuck-state detector\n", j.ID, m.stuck)
		s.b.Cleanup()
		s.c.Res.Broken = append(s.c.Res.Broken, fmt.Sprintf("the schedule exploration was stopped after job %d (%s): the stuck-state detector reported %d of its executions (Close does not return / no termination); the remaining jobs were not run (schedule-level correspondence not established beyond this job)", j.ID, cfg, m.stuck))
		s.exhaustive = false
		blackBox(s.c, s.prop)
		s.finish(ruleCommon + "; INCOMPLETE: the exploration was stopped at the first job with stuck executions; the black-box scenarios were run")
		s.c.Finish()
		os.Exit(0)
	}
	return nn
}

// stuckStop: number of stuck executions within one job after which the exploration is not continued
const stuckStop = 3

// schedKey: a 64-bit FNV-1a hash of (job, schedule) as the distinctness key (keeps memory bounded)
func schedKey(j *Job, r *Res) string {
	h := uint64(14695981039346656037)
	mix := func(x uint64) {
		for i := 0; i < 8; i++ {
			h ^= x & 0xff
			h *= 1099511628211
			x >>= 8
		}
	}
	mix(uint64(j.ID))
	for _, st := range r.St {
		mix(uint64(st[0]))
	}
	return fmt.Sprintf("%x", h)
}

func randCfg(r *hlib.Rng, maxP, maxW, maxSize int) (P, W, size int) {
	P = 1 + r.Intn(maxP)
	W = 1 + r.Intn(maxW)
	size = 1 + r.Intn(maxSize)
	if r.Chance(60) && P*W <= size { // force lapping most of the time
		size = 1 + r.Intn(imax(1, P*W-1))
		if size > maxSize {
			size = maxSize
		}
	}
	return
}

func imax(a, b int) int {
	if a > b {
		return a
	}
	return b
}

// ---- witnesses of the known findings (role ids: 0 consumer, 3+p producer p)
var (
	k2Msgs  = [][]uint64{{100, 101}, {102}}
	k2Sched = []int{3, 3, 3, 3, 3, 3, 4, 4, 0, 0, 4, 4, 4, 4}
	k3Msgs  = [][]uint64{{100, 101}, {200}}
	k3Sched = []int{4, 3, 3, 3, 3, 3, 3, 4, 4}
	k4Msgs  = [][]uint64{{100}}
	k4Sched = []int{0, 0, 0, 3, 3, 3, 3, 0}
)

// corpus: minimized failing schedules of defects that were fixed; run first on every check.
// fixed 1123673 (close-races-last-poll): the Write completes and Close is called between the consumer's
// failed TryNext and its isDone check; before the fix Next returned nil and the message stayed in the ring.
func (s *sess) corpus() {
	msgs := [][]uint64{{100}}
	for _, wt := range []bool{true, false} {
		sched := []int{0, 0, 3, 3, 3, 3, 2, 0}
		if !wt {
			sched = []int{0, 3, 3, 3, 2, 0}
		}
		j := &Job{ID: s.nextID(), Level: "writer", Size: 1, Msgs: msgs, Bytes: mkBytes(msgs), Waiter: wt, Gated: true, Budget: 10, Mode: "list", Scheds: [][]int{sched}, Post: "finish"}
		s.explore(j, exploreOpt{coqEvery: 1, label: "corpus close-races-last-poll"})
	}
	msgs3 := [][]uint64{{100, 101, 102}}
	j := &Job{ID: s.nextID(), Level: "writer", Size: 1, Msgs: msgs3, Bytes: mkBytes(msgs3), Waiter: false, Gated: true, Budget: 10, Mode: "list",
		Scheds: [][]int{{0, 3, 0, 3, 3, 0, 0, 3, 3, 0, 0, 0, 0, 3, 0, 0, 3, 3, 0, 3, 2, 0}}, Post: "finish"}
	s.explore(j, exploreOpt{coqEvery: 1, label: "corpus close-races-last-poll"})
}

func (s *sess) ringDFS(cfgs [][3]int, extra int, label string) { s.ringDFSx(cfgs, extra, label, 0, 1) }

func (s *sess) ringDFSx(cfgs [][3]int, extra int, label string, maxSched, coqEvery int) {
	for _, cfg := range cfgs {
		j := &Job{ID: s.nextID(), Level: "diode", Size: cfg[2], Msgs: mkMsgs(cfg[0], cfg[1]), Budget: cfg[0]*cfg[1] + extra, Mode: "dfs", Post: "drain", MaxSched: maxSched}
		s.explore(j, exploreOpt{coqEvery: coqEvery, label: label})
	}
}

func (s *sess) ringRandom(nCfg, per int, maxP, maxW, maxSize int, coqEvery int) {
	for i := 0; i < nCfg; i++ {
		r := s.c.R.Fork()
		P, W, size := randCfg(r, maxP, maxW, maxSize)
		j := &Job{ID: s.nextID(), Level: "diode", Size: size, Msgs: mkMsgs(P, W), Budget: P*W + 3, Mode: "rand", Seed: r.Next(), Count: per, Post: "drain"}
		s.explore(j, exploreOpt{coqEvery: coqEvery, label: "random"})
	}
}

func (s *sess) writerRandom(nCfg, per int, maxP, maxW, maxSize int, lapping bool, coqEvery int) {
	for i := 0; i < nCfg; i++ {
		r := s.c.R.Fork()
		P, W, size := randCfg(r, maxP, maxW, maxSize)
		if !lapping {
			size = P*W + r.Intn(2)
		}
		msgs := mkMsgs(P, W)
		j := &Job{ID: s.nextID(), Level: "writer", Size: size, Msgs: msgs, Bytes: mkBytes(msgs), Waiter: r.Bool(), Gated: r.Chance(70), Budget: P*W + 3,
			Mode: "rand", Seed: r.Next(), Count: per, Post: "finish"}
		s.explore(j, exploreOpt{coqEvery: coqEvery, label: "random-writer"})
	}
}

// replay re-runs the schedule of a replay file (written by bin/check from a Violation) on the
// instrumented code, with the monitors of the property and the model comparison.
func (s *sess) replay() bool {
	if s.c.Replay == "" {
		return false
	}
	raw, err := os.ReadFile(s.c.Replay)
	if err != nil {
		fmt.Fprintln(os.Stderr, "diodeh: cannot read replay file: "+err.Error())
		os.Exit(2)
	}
	var rp struct {
		Case struct {
			Job      Job   `json:"job"`
			Schedule []int `json:"schedule"`
		} `json:"case"`
	}
	if err := json.Unmarshal(raw, &rp); err != nil || rp.Case.Job.Level == "" {
		fmt.Fprintln(os.Stderr, "diodeh: replay file has no schedule case")
		os.Exit(2)
	}
	j := rp.Case.Job
	j.ID = s.nextID()
	j.Mode = "list"
	j.Scheds = [][]int{rp.Case.Schedule}
	// the recorded schedule includes the post phase; replay it as given
	j.Post = ""
	s.explore(&j, exploreOpt{coqEvery: 1, label: "replay"})
	s.finish("replay of " + s.c.Replay)
	return true
}

func (s *sess) finish(rule string) {
	s.c.Res.Rule = rule
	s.c.Res.Exhaustive = s.exhaustive
	s.c.Res.ExtraCoverage["schedules_executed"] = s.scheds
	s.c.Res.ExtraCoverage["schedules_checked_against_model"] = s.coqScheds
	s.c.Res.ExtraCoverage["model_tree_nodes"] = s.coqNodes
	s.c.Res.ExtraCoverage["atomic_steps_executed"] = s.steps
	s.c.Res.ExtraCoverage["instrumenter_rewrites"] = s.b.Counts
	s.c.Res.ExtraCoverage["instrumented_sources"] = "diode/*.go, diode/internal/diodes/*.go of $VERIF_REPO (current working tree), rewritten at check time into a temporary module"
}

const ruleCommon = "a case is one configuration (level ring|writer, ring size, messages per producer, waiter|poller, Close gated on the last Write) with the prefix tree of the schedules executed on the instrumented REAL diode code; every edge carries the observed (thread, operation, value), every node the observed enabled set, leaves and check points the observables (delivered, alerts, returned Writes, indices, collision log lines, Close/consumer status); exhaustive = depth-first enumeration of every choice of enabled thread with a budget on consumer TryNext attempts (writes + 2..3), each schedule re-executed from a fresh diode; random = seeded priority schedules (random priorities with change points, consumer starved in a third of them so that producers lap it) and uniform schedules; non-trivial = at least 3 context switches and at least one consumer step; distinct by schedule"

// ------------------------------------------------------------------ C10
func RunC10(c *hlib.Ctx) {
	s := openSess(c, "C10")
	defer s.b.Cleanup()
	if s.replay() {
		return
	}
	// exhaustive small configurations (P, W, size) at ring level
	s.ringDFS([][3]int{{1, 2, 1}, {2, 1, 2}, {2, 1, 1}}, 2, "exhaustive")
	// producers alone: every Write returns although the consumer never takes a step
	for _, cfg := range [][3]int{{2, 2, 1}, {2, 2, 2}, {3, 1, 2}} {
		j := &Job{ID: s.nextID(), Level: "diode", Size: cfg[2], Msgs: mkMsgs(cfg[0], cfg[1]), Budget: 0, Mode: "dfs", NoCons: true, Post: ""}
		m := &monCtx{c: c, prop: "C10"}
		s.b.RunJob(j, func(r *Res) {
			o := r.Cp[len(r.Cp)-1]
			if !o.PDone {
				m.violate(j, r, "producer-needs-consumer", "non-blocking", "producers did not finish their Writes without consumer steps", o, nil)
			}
		})
		s.explore(j, exploreOpt{coqEvery: 4, label: "no-consumer"})
	}
	// writer level, consumer blocked inside the wrapped writer forever / never scheduled
	for _, wt := range []bool{true, false} {
		msgs := mkMsgs(2, 2)
		j := &Job{ID: s.nextID(), Level: "writer", Size: 2, Msgs: msgs, Bytes: mkBytes(msgs), Waiter: wt, Gated: true, Budget: 0, Mode: "rand", Seed: c.R.Next(), Count: 40, NoCons: true, Post: ""}
		m := &monCtx{c: c, prop: "C10"}
		s.b.RunJob(j, func(r *Res) {
			o := r.Cp[len(r.Cp)-1]
			if !o.PDone {
				m.violate(j, r, "producer-needs-consumer", "non-blocking", "Writer.Write did not return without consumer steps", o, nil)
			}
		})
		s.explore(j, exploreOpt{coqEvery: 1, label: "writer-no-consumer"})
	}
	if c.Thorough() {
		s.ringDFSx([][3]int{{2, 2, 1}, {3, 1, 2}, {2, 2, 2}}, 1, "exhaustive-thorough", 3000000, 150)
		s.ringRandom(400, 500, 4, 6, 4, 25)
		s.writerRandom(200, 200, 3, 4, 3, true, 20)
	} else {
		s.ringRandom(50, 50, 4, 6, 4, 2)
		s.writerRandom(24, 25, 3, 3, 3, true, 2)
	}
	blackBox(c, "C10")
	s.finish(ruleCommon + "; C10 monitors: delivered subset of written with identical bytes, no duplicate, strictly increasing ring position, per-producer program order, deliveries only from the single poll goroutine and never nested, alerts positive and delivered+reported <= claimed, every unfinished producer enabled at every step and only add/load/cas/broadcast operations on the producer path, producers complete with the consumer never scheduled")
}

// ------------------------------------------------------------------ C11
func RunC11(c *hlib.Ctx) {
	s := openSess(c, "C11")
	defer s.b.Cleanup()
	if s.replay() {
		return
	}
	s.corpus()
	// known-finding witnesses, on the real instrumented code
	s.explore(&Job{ID: s.nextID(), Level: "diode", Size: 2, Msgs: k2Msgs, Budget: 10, Mode: "list", Scheds: [][]int{k2Sched}, Post: "drain"}, exploreOpt{coqEvery: 1, label: "K2-witness"})
	s.explore(&Job{ID: s.nextID(), Level: "diode", Size: 2, Msgs: k3Msgs, Budget: 10, Mode: "list", Scheds: [][]int{k3Sched}, Post: "drain"}, exploreOpt{coqEvery: 1, label: "K3-witness"})
	s.ringDFS([][3]int{{1, 2, 1}, {2, 1, 2}, {2, 1, 1}, {1, 3, 2}}, 2, "exhaustive")
	if c.Thorough() {
		s.ringDFSx([][3]int{{2, 2, 1}, {3, 1, 2}, {2, 2, 2}}, 1, "exhaustive-thorough", 3000000, 150)
		s.ringRandom(400, 500, 4, 6, 4, 25)
		s.writerRandom(200, 200, 3, 4, 3, true, 20)
	} else {
		s.ringRandom(50, 50, 4, 6, 4, 2)
		s.writerRandom(24, 25, 3, 3, 3, true, 2)
	}
	blackBox(c, "C11")
	s.finish(ruleCommon + "; Close after the last Write = the consumer runs TryNext until it fails (ring level) or Writer.Close with the closer gated on the last Write (writer level); C11 monitors at Close: delivered + reported >= returned, equality when no 'Diode set collision' was logged, nothing dropped when fewer than size positions were outstanding at every fetch-add, wrapped writer closed; failures classified structurally (abandoned position after a failed CAS at the final read index = diode-hole-at-close; lost message overwritten by a first-lap CAS of smaller seq = diode-firstlap-overwrite; anything else under its own key); plus Logger.Fatal through a diode.Writer in re-executed processes: five destination / timing modes (waiter, poller, slow destination, Fatal while a shutdown Close is draining, the same polled) x eleven ways of finishing the fatal event (Msg / Msgf / MsgFunc with a text, long text, a blank, the empty message; Send; Err(e).Send), twelve ways of obtaining the logger (derived, from a context, the global logger, behind the Close-forwarding level writers), a Fatal that is itself filtered out after a backlog, and WithLevel(FatalLevel) followed by an explicit Close")
}

// ------------------------------------------------------------------ C12
func RunC12(c *hlib.Ctx) {
	s := openSess(c, "C12")
	defer s.b.Cleanup()
	if s.replay() {
		return
	}
	s.corpus()
	msgs := k4Msgs
	s.explore(&Job{ID: s.nextID(), Level: "writer", Size: 2, Msgs: msgs, Bytes: mkBytes(msgs), Waiter: true, Gated: true, Budget: 10, Mode: "list", Scheds: [][]int{k4Sched}, Post: "finish"}, exploreOpt{coqEvery: 1, label: "K4-witness"})
	type wc struct {
		P, W, size    int
		waiter, gated bool
		max, every    int
	}
	cfgs := []wc{
		{1, 1, 1, true, true, 0, 1}, {1, 1, 1, false, true, 0, 1}, {1, 1, 1, false, false, 0, 1},
		{1, 2, 2, false, true, 0, 2}, {1, 1, 1, true, false, 0, 32},
		{1, 2, 2, false, false, 0, 16}, {1, 2, 2, true, true, 60000, 30}, {2, 1, 2, true, true, 60000, 30}, {2, 1, 2, false, true, 60000, 30},
	}
	if c.Thorough() {
		cfgs = append(cfgs, wc{1, 2, 2, true, true, 3000000, 400}, wc{2, 1, 2, true, true, 3000000, 400}, wc{2, 1, 2, false, true, 0, 100},
			wc{1, 2, 2, true, false, 2000000, 400}, wc{2, 2, 4, false, true, 2000000, 400})
	}
	for _, x := range cfgs {
		msgs := mkMsgs(x.P, x.W)
		j := &Job{ID: s.nextID(), Level: "writer", Size: x.size, Msgs: msgs, Bytes: mkBytes(msgs), Waiter: x.waiter, Gated: x.gated, Budget: x.P*x.W + 1, Mode: "dfs", Post: "finish", MaxSched: x.max}
		s.explore(j, exploreOpt{coqEvery: x.every, label: "exhaustive"})
	}
	if c.Thorough() {
		s.writerRandom(300, 300, 3, 3, 3, false, 30)
	} else {
		s.writerRandom(30, 30, 3, 3, 3, false, 2)
	}
	blackBox(c, "C12")
	s.finish(ruleCommon + "; writer level = the real diode.Writer (NewWriter, Write, poll, Close) over scheduler-controlled Mutex/Cond/context/Sleep, ring large enough that no lapping occurs; after the explored prefix the runner (a) lets the consumer, the cancel goroutine and the Writes already in progress run until nothing moves, with no new Write and no Close (check point 'quiet'), then (b) completes fairly with Close (check point 'final'); C12 monitors: at 'quiet' every returned Write is delivered or reported (structure 'producer Broadcast woke nobody between the failed TryNext and the Wait, consumer parked, message at the read index' = waiter-lost-wakeup), at 'final' all threads finished and Close returned (stuck-state detector), plus the C10/C11 safety and accounting monitors; and a run of the uninstrumented Writer on the real runtime primitives")
}

func mkBytes(msgs [][]uint64) map[string]string {
	m := map[string]string{}
	for _, l := range msgs {
		for _, id := range l {
			s := fmt.Sprintf("{\"msg\":%d,\"pad\":\"", id)
			for i := 0; i < int(id%7); i++ {
				s += "x"
			}
			m[fmt.Sprint(id)] = s + "\"}\n"
		}
	}
	return m
}
