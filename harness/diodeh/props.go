package diodeh

import (
	"fmt"
	"os"

	"verifharness/hlib"
)

type sess struct {
	c      *hlib.Ctx
	b      *Built
	prop   string
	nodes  int // nodes in the open shard
	scheds int
	steps  int
}

const shardNodes = 30000

func openSess(c *hlib.Ctx, prop string) *sess {
	repo := os.Getenv("VERIF_REPO")
	if repo == "" {
		repo = "/repo"
	}
	b, err := BuildRunner(repo)
	if err != nil {
		// a repository whose diode sources cannot be instrumented/built: the correspondence cannot be established
		fmt.Fprintln(os.Stderr, "diodeh: "+err.Error())
		c.Finish()
		os.Exit(3)
	}
	s := &sess{c: c, b: b, prop: prop}
	s.open()
	return s
}

func (s *sess) open() {
	p := s.prop[1:]
	s.c.OpenShards("From Verif Require Import Base.Prelude Lts.Diode Lts.Waiter Harness.DiodeH Harness.C"+p+"H.\nOpen Scope N_scope.",
		"dcase * N", "mismatches c"+p+"_run c"+p+"_eqb", 1000)
	s.nodes = 0
}

// ship writes the tree of one job to the shards (split in pieces)
func (s *sess) ship(j *Job, root *tnode, desc map[string]interface{}) {
	for _, p := range root.pieces(shardNodes / 2) {
		sz := p.size()
		if s.nodes+sz > shardNodes && s.nodes > 0 {
			s.open()
		}
		s.nodes += sz
		d := map[string]interface{}{"job": j, "nodes": sz}
		for k, v := range desc {
			d[k] = v
		}
		s.c.AddCase(j.coqCase(p), d)
	}
}

func mkMsgs(P, W int) [][]uint64 {
	var msgs [][]uint64
	for p := 0; p < P; p++ {
		var l []uint64
		for i := 0; i < W; i++ {
			l = append(l, uint64(100*(p+1)+i))
		}
		msgs = append(msgs, l)
	}
	return msgs
}

func RunC10(c *hlib.Ctx) {
	s := openSess(c, "C10")
	defer s.b.Cleanup()
	for _, cfg := range [][3]int{{1, 2, 1}, {2, 1, 2}, {2, 1, 1}} {
		j := &Job{Level: "diode", Size: cfg[2], Msgs: mkMsgs(cfg[0], cfg[1]), Budget: cfg[0]*cfg[1] + 2, Mode: "dfs", Post: "drain"}
		root := newNode()
		n, _, err := s.b.RunJob(j, func(r *Res) {
			root.insert(r)
			c.Count(fmt.Sprint(r.St), true)
		})
		if err != nil {
			fmt.Fprintln(os.Stderr, err)
			os.Exit(3)
		}
		c.Note("cfg %v: %d schedules, %d tree nodes", cfg, n, root.size())
		s.ship(j, root, nil)
	}
}

func RunC11(c *hlib.Ctx) {}
func RunC12(c *hlib.Ctx) {}
