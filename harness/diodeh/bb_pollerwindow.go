package diodeh

// Polling mode, prompt delivery at chosen points of the consumer's schedule - without the instrumenter.
//
// The real Poller (diodes.NewPoller with the options NewWriter passes) is put over the real many-to-one
// ring behind a thin Diode wrapper of the harness.  The wrapper does nothing but call the ring and mark
// the two points a Diode sees: "the consumer's probe (TryNext) has just come back" and "the ring Set has
// just been done".  At a chosen mark the harness lets a producer make one complete Set - on the
// consumer's goroutine or on another goroutine while the consumer stands at the mark - which is the
// schedule "the producer's Set falls between the consumer's probe and whatever the poller does next",
// the window no test can aim at.  Or it holds the producer at its mark for several poll intervals.
//
// Judged (C12, polling mode): "Once a Write has returned, the message reaches the wrapped writer ...
// without needing any later Write or Close": after that Set has returned nothing else is set and the
// context is not cancelled; Next must return the message within 250 poll intervals + 1 s (the reading
// of "promptly" of bbPollerStaysPrompt plus a second for a loaded machine).  On the unchanged poller
// every probe looks at the ring, so the message is found one interval later on every schedule.
//
// Sweep: poll intervals 1 us .. 1 ms x placement (inside the probe that returned the previous message;
// the 1st / 2nd / 3rd empty probe after it; producer held after its ring Set) x 0 or 2 messages
// delivered beforehand x Set on the consumer's / another goroutine x 1 or 3 messages in the window.
// A placement the poller never reaches (it stopped probing) is recorded, not judged.

import (
	"context"
	"fmt"
	"sync"
	"sync/atomic"
	"time"
	"unsafe"

	"github.com/rs/zerolog/diode"
	"verifharness/hlib"
)

type markDiode struct {
	inner    diode.VerifDiode
	afterTry atomic.Value // func(ok bool)
	afterSet atomic.Value // func()
}

func (h *markDiode) Set(d diode.VerifData) {
	h.inner.Set(d)
	if f, _ := h.afterSet.Load().(func()); f != nil {
		f()
	}
}

func (h *markDiode) TryNext() (diode.VerifData, bool) {
	d, ok := h.inner.TryNext()
	if f, _ := h.afterTry.Load().(func(bool)); f != nil {
		f(ok)
	}
	return d, ok
}

type pwCfg struct {
	interval time.Duration
	place    string // in-successful-probe | empty-probe-1..3 | producer-held-after-ring-set
	prior    int
	other    bool // the Set in the window runs on another goroutine while the consumer stands at the mark
	burst    int
}

func (x pwCfg) bound() time.Duration { return 250*x.interval + time.Second }

func (x pwCfg) json() map[string]interface{} {
	by := "the consumer's goroutine, at the mark"
	if x.other {
		by = "another goroutine, while the consumer stands at the mark"
	}
	return map[string]interface{}{"scenario": "poller-set-at-a-chosen-point-of-the-consumer", "poll": x.interval.String(), "ring": 8,
		"messages_delivered_beforehand": x.prior, "placement_of_the_set": x.place, "set_made_by": by, "messages_set_there": x.burst,
		"order": "messages_delivered_beforehand are set and delivered one by one; a trigger message is set; the placement counts from the probe that returns the trigger; the window message(s) are set there; nothing else is set, the context is not cancelled"}
}

func runPollerWindow(x pwCfg) (v *hlib.Violation, reached bool) {
	cs := x.json()
	ctx, cancel := context.WithCancel(context.Background())
	md := &markDiode{inner: diode.VerifNewManyToOne(8, func(int) {})}
	p := diode.VerifNewPoller(md, x.interval, ctx)
	var mu sync.Mutex
	var got []string
	var gotAt []time.Time
	done := make(chan struct{})
	go func() { // what Writer.poll does
		defer close(done)
		for {
			d := p.Next()
			if d == nil {
				return
			}
			mu.Lock()
			got = append(got, *(*string)(d))
			gotAt = append(gotAt, time.Now())
			mu.Unlock()
		}
	}()
	defer func() {
		cancel()
		select {
		case <-done:
		case <-time.After(bbLimit):
		}
	}()
	set := func(s string) { p.Set(diode.VerifData(unsafe.Pointer(&s))) }
	has := func(s string) (bool, time.Time) {
		mu.Lock()
		defer mu.Unlock()
		for i, g := range got {
			if g == s {
				return true, gotAt[i]
			}
		}
		return false, time.Time{}
	}
	waitFor := func(s string, lim time.Duration) bool {
		for t := time.Now(); time.Since(t) < lim; time.Sleep(50 * time.Microsecond) {
			if ok, _ := has(s); ok {
				return true
			}
		}
		ok, _ := has(s)
		return ok
	}
	for k := 0; k < x.prior; k++ {
		s := fmt.Sprintf("prior-%d", k)
		set(s)
		if !waitFor(s, bbLimit) {
			return &hlib.Violation{Key: "poller-message-stuck", Monitor: "black-box poller-window", Desc: fmt.Sprintf("message %d of an otherwise idle poller was not returned by Next within %v", k+1, bbLimit), Case: cs}, true
		}
		time.Sleep(2*x.interval + 200*time.Microsecond)
	}
	var win []string
	for k := 0; k < x.burst; k++ {
		win = append(win, fmt.Sprintf("in-the-window-%d", k))
	}
	var fired int32
	var setReturned atomic.Value // time.Time
	fire := func() {
		if !atomic.CompareAndSwapInt32(&fired, 0, 1) {
			return
		}
		do := func() {
			for _, s := range win {
				set(s)
			}
			setReturned.Store(time.Now())
		}
		if x.other {
			ch := make(chan struct{})
			go func() { do(); close(ch) }()
			<-ch
		} else {
			do()
		}
	}
	if x.place == "producer-held-after-ring-set" {
		// the trigger is delivered, the poller has gone idle; then the window message: its producer is held
		// between the ring Set and the return of Set for several intervals
		set("trigger")
		if !waitFor("trigger", bbLimit) {
			return &hlib.Violation{Key: "poller-message-stuck", Monitor: "black-box poller-window", Desc: fmt.Sprintf("the trigger message was not returned by Next within %v", bbLimit), Case: cs}, true
		}
		time.Sleep(3*x.interval + 300*time.Microsecond)
		var held int32
		md.afterSet.Store(func() {
			if atomic.CompareAndSwapInt32(&held, 0, 1) {
				time.Sleep(5*x.interval + time.Millisecond)
			}
		})
		fire()
	} else {
		var seenTrigger, empties int32
		md.afterTry.Store(func(ok bool) {
			if atomic.LoadInt32(&fired) != 0 {
				return
			}
			if ok {
				if atomic.CompareAndSwapInt32(&seenTrigger, 0, 1) && x.place == "in-successful-probe" {
					fire()
				}
				return
			}
			if atomic.LoadInt32(&seenTrigger) == 1 {
				n := atomic.AddInt32(&empties, 1)
				if x.place == fmt.Sprintf("empty-probe-%d", n) {
					fire()
				}
			}
		})
		set("trigger")
		for t := time.Now(); atomic.LoadInt32(&fired) == 0 && time.Since(t) < x.bound(); time.Sleep(50 * time.Microsecond) {
		}
		if atomic.LoadInt32(&fired) == 0 {
			return nil, false // the poller never got to that point (a poller that stops probing): nothing to judge here
		}
	}
	for t := time.Now(); setReturned.Load() == nil && time.Since(t) < bbLimit; time.Sleep(20 * time.Microsecond) {
	}
	t0, _ := setReturned.Load().(time.Time)
	if t0.IsZero() {
		return &hlib.Violation{Key: "producer-blocked", Monitor: "black-box poller-window", Desc: fmt.Sprintf("Set did not return within %v", bbLimit), Case: cs}, true
	}
	for i, s := range win {
		left := x.bound() - time.Since(t0)
		if left < 0 {
			left = 0
		}
		if waitFor(s, left) {
			continue
		}
		waited := time.Since(t0)
		// diagnosis only: does one more Set bring it out?
		set("one-more")
		later := waitFor(s, bbLimit)
		mu.Lock()
		returned := append([]string{}, got...)
		mu.Unlock()
		return &hlib.Violation{Key: "poller-message-stuck-in-window", Monitor: "black-box poller-window",
			Desc: fmt.Sprintf("polling mode, interval %v: a Set made at '%s' (message %d of %d set there) returned and %v later Next had not returned the message, with nothing else set and the context not cancelled (bound %v = 250 intervals + 1 s); after one more Set it came out: %v",
				x.interval, x.place, i+1, x.burst, waited.Round(time.Millisecond), x.bound(), later),
			Case: cs, Observed: map[string]interface{}{"returned_by_next_in_order": returned, "waited": waited.String(), "came_out_after_one_more_set": later},
			Expected: "the message reaches the consumer without any later Write or Close"}, true
	}
	return nil, true
}

func bbPollerWindow(c *hlib.Ctx) {
	var cfgs []pwCfg
	n := 0
	for _, iv := range []time.Duration{time.Microsecond, 10 * time.Microsecond, 100 * time.Microsecond, time.Millisecond} {
		for _, place := range []string{"in-successful-probe", "empty-probe-1", "empty-probe-2", "empty-probe-3", "producer-held-after-ring-set"} {
			for _, prior := range []int{0, 2} {
				n++
				cfgs = append(cfgs, pwCfg{interval: iv, place: place, prior: prior, other: n%2 == 0, burst: 1 + 2*(n/2%2)})
				cfgs = append(cfgs, pwCfg{interval: iv, place: place, prior: prior, other: n%2 != 0, burst: 1})
			}
		}
	}
	out := make([]*hlib.Violation, len(cfgs))
	reached := make([]bool, len(cfgs))
	var wg sync.WaitGroup
	for i := range cfgs {
		wg.Add(1)
		go func(i int) {
			defer wg.Done()
			out[i], reached[i] = runPollerWindow(cfgs[i])
		}(i)
	}
	wg.Wait()
	seen := map[string]int{}
	nr := 0
	for i, v := range out {
		if reached[i] {
			nr++
		}
		if v != nil {
			if seen[v.Key] < 3 {
				c.Violate(*v)
			}
			seen[v.Key]++
		}
	}
	c.Res.ExtraCoverage["blackbox_poller_window_runs"] = len(cfgs)
	c.Res.ExtraCoverage["blackbox_poller_window_placements_reached"] = nr
}
