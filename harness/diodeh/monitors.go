package diodeh

import (
	"fmt"

	"verifharness/hlib"
)

// Monitors: the properties stated directly on what the instrumented REAL code did
// (step log + snapshots), independent of the Coq model.

type attempt struct {
	P       int
	Wi      uint64
	Old     int64 // 0 nil, seq+1
	Loaded  bool
	Outcome string // open | installed | casfail | newer
	Msg     uint64
	CasStep int // index of the CAS step
}

type overwrite struct {
	Wi, OldSeq uint64
	FirstLap   bool
}

type facts struct {
	attempts   []attempt
	seqOf      map[uint64]uint64 // message -> ring position of its successful CAS
	msgAt      map[uint64]uint64 // ring position -> message
	abandoned  map[uint64]string // ring position -> casfail | newer
	overwrites []overwrite
	lostBcast  bool // a producer Broadcast woke nobody while the consumer was between a failed TryNext and its Wait
	capOK      bool // fewer than n positions outstanding at every fetch-add
	delSeqs    []uint64
	problems   []Violationish
	ctxSwitch  int
	lapped     bool
	consSteps  int
	lastSwap   int            // index of the consumer's last TryNext (swap) step, -1 if none
	casStep    map[uint64]int // message -> index of its successful CAS step
	closeStep  int            // index of the closer's cancel step, -1 if none
	quietBad   []quietPoint
}

// a point of the schedule at which nothing but Close could run although a returned Write was undelivered
type quietPoint struct {
	Step      int
	Returned  int
	Delivered int
	Parked    bool
	LostBcast bool
}

type Violationish struct{ Key, Mon, Desc string }

func roleIsProd(r int64) bool { return r >= RoleProd0 && r < 64 }

func analyse(j *Job, r *Res) *facts {
	f := &facts{seqOf: map[uint64]uint64{}, msgAt: map[uint64]uint64{}, abandoned: map[uint64]string{}, capOK: true, lastSwap: -1, closeStep: -1, casStep: map[uint64]int{}}
	retCount, delCount, reported := 0, 0, int64(0)
	lastConsKind := int64(0)
	n := uint64(j.Size)
	P := len(j.Msgs)
	cur := make([]*attempt, P)
	done := make([]int, P) // installs so far
	pendingB := make([]bool, P)
	var ri uint64
	var claims uint64
	// consumer: which swaps failed (next consumer step is the select), window intervals
	type ck struct {
		idx  int
		kind int64
	}
	var cks []ck
	for i, s := range r.St {
		if s[0] == RoleCons {
			cks = append(cks, ck{i, s[1]})
		}
	}
	inWindow := make([]bool, len(r.St)+1)
	if j.Level == "writer" && j.Waiter {
		for k, c := range cks {
			if c.kind != KSwap {
				continue
			}
			failed := k+1 < len(cks) && cks[k+1].kind == KSelect
			if k+1 == len(cks) {
				failed = r.St[c.idx][2] == 0
			}
			if !failed {
				continue
			}
			end := len(r.St)
			for k2 := k + 1; k2 < len(cks); k2++ {
				if cks[k2].kind == KWait {
					end = cks[k2].idx
					break
				}
				if cks[k2].kind != KSelect {
					end = cks[k2].idx
					break
				}
			}
			for x := c.idx + 1; x <= end && x < len(inWindow); x++ {
				inWindow[x] = true
			}
		}
	}
	last := int64(-1)
	for i, s := range r.St {
		t, k, v, en := s[0], s[1], s[2], uint64(s[3])
		if t != last {
			f.ctxSwitch++
			last = t
		}
		// non-blocking: every producer with work left is enabled
		for p := 0; p < P; p++ {
			unfinished := done[p] < len(j.Msgs[p]) || pendingB[p]
			if unfinished && en&(1<<uint(RoleProd0+p)) == 0 {
				f.problems = append(f.problems, Violationish{"producer-blocked", "non-blocking", fmt.Sprintf("step %d: producer %d has work left but no enabled step", i, p)})
			}
		}
		if roleIsProd(t) {
			p := int(t - RoleProd0)
			switch k {
			case KAdd:
				if claims >= ri+n {
					f.capOK = false
				}
				if claims >= n {
					f.lapped = f.lapped || claims-ri >= n
				}
				claims++
				msg := uint64(0)
				if done[p] < len(j.Msgs[p]) {
					msg = j.Msgs[p][done[p]]
				}
				if cur[p] != nil && cur[p].Outcome == "open" {
					// previous attempt ended in the newer-test branch
					cur[p].Outcome = "newer"
					f.abandoned[cur[p].Wi] = "newer"
				}
				f.attempts = append(f.attempts, attempt{P: p, Wi: uint64(v), Outcome: "open", Msg: msg})
				cur[p] = &f.attempts[len(f.attempts)-1]
			case KLoad:
				if cur[p] != nil {
					cur[p].Old, cur[p].Loaded = v, true
				}
			case KCas:
				if cur[p] == nil {
					break
				}
				if v == 1 {
					cur[p].Outcome = "installed"
					cur[p].CasStep = i
					f.casStep[cur[p].Msg] = i
					if !(j.Level == "writer" && j.Waiter) {
						retCount++
					}
					f.seqOf[cur[p].Msg] = cur[p].Wi
					f.msgAt[cur[p].Wi] = cur[p].Msg
					if cur[p].Old > 0 && uint64(cur[p].Old-1) > cur[p].Wi {
						f.overwrites = append(f.overwrites, overwrite{Wi: cur[p].Wi, OldSeq: uint64(cur[p].Old - 1), FirstLap: cur[p].Wi < n})
					}
					done[p]++
					if j.Level == "writer" && j.Waiter {
						pendingB[p] = true
					}
				} else {
					cur[p].Outcome = "casfail"
					f.abandoned[cur[p].Wi] = "casfail"
				}
			case KBcast:
				pendingB[p] = false
				retCount++
				if v == 0 && inWindow[i] {
					f.lostBcast = true
				}
			case KStore:
				// an unconditional store in place of the CAS: the position takes effect here
				if cur[p] != nil {
					cur[p].Outcome = "installed"
					cur[p].CasStep = i
					f.casStep[cur[p].Msg] = i
					f.seqOf[cur[p].Msg] = cur[p].Wi
					f.msgAt[cur[p].Wi] = cur[p].Msg
					if cur[p].Old > 0 && uint64(cur[p].Old-1) > cur[p].Wi {
						f.overwrites = append(f.overwrites, overwrite{Wi: cur[p].Wi, OldSeq: uint64(cur[p].Old - 1), FirstLap: cur[p].Wi < n})
					}
					done[p]++
					if j.Level == "writer" && j.Waiter {
						pendingB[p] = true
					} else {
						retCount++
					}
				}
			case KLock, KWait, KWake, KAwait, KSleep:
				f.problems = append(f.problems, Violationish{"producer-blocking-op", "non-blocking", fmt.Sprintf("step %d: producer %d performs a blocking operation (kind %d) inside Write", i, p, k)})
			}
		} else if t == RoleCloser && k == KClose {
			f.closeStep = i
			// nothing but Close can run: the system is quiescent without it
			if en&^(1<<RoleCloser) == 0 && j.Level == "writer" && f.capOK && delCount+int(reported) < retCount {
				f.quietBad = append(f.quietBad, quietPoint{Step: i, Returned: retCount, Delivered: delCount, Parked: lastConsKind == KWait, LostBcast: f.lostBcast})
			}
		} else if t == RoleCons {
			f.consSteps++
			lastConsKind = k
			if k == KSwap {
				f.lastSwap = i
			}
			if k == KWWrite {
				delCount++
			}
			if k == KSwap && v > 0 && uint64(v-1) >= ri {
				f.delSeqs = append(f.delSeqs, uint64(v-1))
				if uint64(v-1) > ri {
					reported += int64(uint64(v-1) - ri)
				}
				ri = uint64(v-1) + 1
			}
		}
	}
	for p := range cur {
		if cur[p] != nil && cur[p].Outcome == "open" && cur[p].Loaded {
			// still in flight at the end of the log, or abandoned by the newer-test with no later add
			if done[p] >= len(j.Msgs[p]) {
				cur[p].Outcome = "newer"
				f.abandoned[cur[p].Wi] = "newer"
			}
		}
	}
	return f
}

func sumAl(al []int64) int64 {
	var s int64
	for _, a := range al {
		s += a
	}
	return s
}

type monCtx struct {
	c     *hlib.Ctx
	prop  string
	stuck int // executions reported by the stuck-state detector (Close does not return / no termination)
}

func schedOf(r *Res) []int64 {
	out := make([]int64, len(r.St))
	for i, s := range r.St {
		out[i] = s[0]
	}
	return out
}

func (m *monCtx) violate(j *Job, r *Res, key, mon, desc string, obs interface{}, exp interface{}) {
	jj := *j
	jj.Mode = "list"
	jj.Scheds = nil
	if mon == "stuck-state" {
		m.stuck++
	}
	m.c.Violate(hlib.Violation{Key: key, Monitor: mon, Desc: desc,
		Case:     map[string]interface{}{"job": jj, "schedule": schedOf(r), "note": "replay: job with mode=list and scheds=[schedule] on the runner"},
		Observed: obs, Expected: exp})
}

// ---- C10: never blocks, never corrupts, duplicates or reorders
func (m *monCtx) c10(j *Job, r *Res, f *facts) {
	for _, p := range f.problems {
		m.violate(j, r, p.Key, p.Mon, p.Desc, nil, nil)
	}
	written := map[uint64]int{} // msg -> producer
	pos := map[uint64]int{}     // msg -> index in its producer's list
	for p, l := range j.Msgs {
		for i, id := range l {
			written[id] = p
			pos[id] = i
		}
	}
	for _, o := range r.Cp {
		seen := map[uint64]bool{}
		lastPos := map[int]int{}
		var lastSeq uint64
		for i, id := range o.Del {
			p, ok := written[id]
			if !ok {
				m.violate(j, r, "delivered-not-written", "delivered-subset", fmt.Sprintf("delivery %d is not the argument of any Write", i), o, nil)
				return
			}
			if seen[id] {
				m.violate(j, r, "delivered-twice", "no-duplicate", fmt.Sprintf("message %d delivered twice", id), o, nil)
				return
			}
			seen[id] = true
			if lp, ok := lastPos[p]; ok && pos[id] < lp {
				m.violate(j, r, "producer-order", "program-order", fmt.Sprintf("producer %d: message %d delivered after a later message of the same producer", p, id), o, nil)
				return
			}
			lastPos[p] = pos[id]
			sq, ok := f.seqOf[id]
			if !ok {
				m.violate(j, r, "delivered-before-write-took-effect", "delivered-subset", fmt.Sprintf("message %d delivered but its Write never completed its CAS", id), o, nil)
				return
			}
			if i > 0 && sq <= lastSeq {
				m.violate(j, r, "delivered-order", "order", fmt.Sprintf("message %d (position %d) delivered after position %d", id, sq, lastSeq), o, nil)
				return
			}
			lastSeq = sq
			if j.Level == "writer" && i < len(o.DelB) && o.DelB[i] != j.Bytes[fmt.Sprint(id)] {
				m.violate(j, r, "delivered-bytes-differ", "byte-identical", fmt.Sprintf("delivery %d: bytes differ from the Write argument", i), o.DelB[i], j.Bytes[fmt.Sprint(id)])
				return
			}
		}
		if o.Nested {
			m.violate(j, r, "concurrent-delivery", "one-at-a-time", "the wrapped writer's Write was entered while another Write was in progress", o, nil)
		}
		for _, a := range o.Al {
			if a <= 0 {
				m.violate(j, r, "alert-nonpositive", "alert-bound", "the alerter was called with a non-positive count", o, nil)
			}
		}
		if uint64(len(o.Del))+uint64(sumAl(o.Al)) > o.Claims {
			m.violate(j, r, "alerts-exceed-claims", "alert-bound", fmt.Sprintf("delivered %d + reported %d > %d ring positions claimed", len(o.Del), sumAl(o.Al), o.Claims), o, nil)
		}
		// returned Writes are Writes
		rs := map[uint64]bool{}
		for _, id := range o.Ret {
			if _, ok := written[id]; !ok || rs[id] {
				m.violate(j, r, "returned-log-corrupt", "delivered-subset", "returned-Write log is not a duplicate-free subset of the written messages", o, nil)
			}
			rs[id] = true
		}
	}
	for i, s := range r.St {
		if s[1] == KWWrite && s[0] != RoleCons {
			m.violate(j, r, "concurrent-delivery", "one-at-a-time", fmt.Sprintf("step %d: the wrapped writer is called from thread %d, not from the single poll goroutine", i, s[0]), nil, nil)
		}
	}
	if r.Err != "" {
		if len(r.Err) > 13 && r.Err[:13] == "schedule step" {
			m.violate(j, r, "schedule-not-replayable", "execution", "a corpus/witness schedule cannot be replayed on this code: "+r.Err, nil, nil)
		} else {
			m.violate(j, r, "runtime-failure", "execution", r.Err, nil, nil)
		}
	}
}

// ---- C11: delivered or reported; Close drains
// classify a failed accounting at Close by the structure of the schedule
func classifyLoss(j *Job, f *facts, o Obs) (string, string) {
	n := uint64(j.Size)
	del := map[uint64]bool{}
	for _, id := range o.Del {
		del[id] = true
	}
	// Close raced with the consumer's last poll: every lost Write completed its CAS after the consumer's last
	// TryNext, and the consumer then saw the cancelled context and left without another TryNext
	if j.Level == "writer" && f.closeStep >= 0 && o.SlotRi == int64(o.Ri)+1 {
		// the message at the read index is still in the ring and deliverable
		if id, ok := f.msgAt[o.Ri]; ok {
			if st, ok := f.casStep[id]; ok && st > f.lastSwap {
				return "close-races-last-poll", fmt.Sprintf("the Write of message %d completed (step %d) after the consumer's last TryNext (step %d) and Close was called before the consumer's isDone check: Next returns nil without another TryNext; Close returns with the message still in the ring at the read index", id, st, f.lastSwap)
			}
		}
	}
	// (K2) the consumer stopped at a position that a producer claimed and abandoned after a failed CAS
	if cause, ok := f.abandoned[o.Ri]; ok && cause == "casfail" {
		return "diode-hole-at-close", fmt.Sprintf("position %d was claimed and abandoned after a failed CAS; nobody fills it, the consumer stops there and Close drops the later messages without an alert", o.Ri)
	}
	// (K3) a lost message was overwritten by a smaller seq installed on the first lap (underflow disables the newer-test)
	for _, id := range o.Ret {
		if del[id] {
			continue
		}
		sq, ok := f.seqOf[id]
		if !ok || sq < o.Ri {
			continue
		}
		for _, ow := range f.overwrites {
			if ow.OldSeq == sq && ow.FirstLap && ow.Wi < n {
				return "diode-firstlap-overwrite", fmt.Sprintf("first lap: position %d (wi-len underflows, newer-test disabled) was installed over position %d; message %d is neither delivered nor reported", ow.Wi, sq, id)
			}
		}
	}
	if cause, ok := f.abandoned[o.Ri]; ok {
		return "diode-hole-" + cause, fmt.Sprintf("position %d was abandoned (%s) and never filled; later messages dropped without alert", o.Ri, cause)
	}
	return "diode-silent-loss", "a returned Write is neither delivered nor covered by the reported counts at Close"
}

func (m *monCtx) c11(j *Job, r *Res, f *facts) {
	for _, o := range r.Cp {
		atClose := o.Tag == "drained" || (o.Tag == "final" && j.Gated && o.Closed)
		if !atClose || !o.PDone {
			continue
		}
		got := uint64(len(o.Del)) + uint64(sumAl(o.Al))
		if got < uint64(len(o.Ret)) {
			key, desc := classifyLoss(j, f, o)
			m.violate(j, r, key, "accounting-at-close", desc, o, fmt.Sprintf("delivered %d + reported %d >= returned %d", len(o.Del), sumAl(o.Al), len(o.Ret)))
		} else if o.Col == 0 && got != uint64(len(o.Ret)) {
			m.violate(j, r, "accounting-not-exact", "accounting-at-close", "no producer retried a position but delivered + reported != written", o, nil)
		}
		if f.capOK && got >= uint64(len(o.Ret)) {
			// fewer than n outstanding at every fetch-add: nothing may be dropped, Close delivers everything
			if len(o.Al) != 0 || len(o.Del) != len(o.Ret) {
				m.violate(j, r, "drop-below-capacity", "below-capacity", "fewer messages than the ring size were outstanding at every Write, yet something was dropped or not delivered at Close", o, nil)
			}
		}
		if o.Tag == "final" && !o.WClosed {
			m.violate(j, r, "wrapped-writer-not-closed", "close", "Close returned without closing the wrapped writer", o, nil)
		}
	}
}

// ---- C12: prompt delivery without further writes; Close returns
func (m *monCtx) c12(j *Job, r *Res, f *facts) {
	for _, q := range f.quietBad {
		if j.Waiter && q.Parked && q.LostBcast {
			m.violate(j, r, "waiter-lost-wakeup", "prompt-delivery", fmt.Sprintf("step %d: nothing but Close can run; the producer's Broadcast fell between the consumer's failed TryNext and its Wait, the consumer sleeps in Cond.Wait with a returned message in the ring", q.Step), q, nil)
		} else if q.Parked {
			m.violate(j, r, "waiter-asleep-with-pending", "prompt-delivery", fmt.Sprintf("step %d: nothing but Close can run, the consumer sleeps in Cond.Wait although a returned Write is undelivered and no Broadcast was lost", q.Step), q, nil)
		} else {
			m.violate(j, r, "not-prompt", "prompt-delivery", fmt.Sprintf("step %d: nothing but Close can run although a returned Write is undelivered", q.Step), q, nil)
		}
	}
	for _, o := range r.Cp {
		switch o.Tag {
		case "quiet":
			// no Write in progress, no Close yet: every returned Write must have reached the wrapped writer
			// (only claimed where the ring never overflowed, as in the property's reading)
			if !f.capOK || o.Busy != 0 {
				continue
			}
			if len(o.Del)+int(sumAl(o.Al)) < len(o.Ret) {
				if j.Waiter && o.Parked && f.lostBcast && o.SlotRi > 0 {
					m.violate(j, r, "waiter-lost-wakeup", "prompt-delivery", "the producer's Broadcast fell between the consumer's failed TryNext and its Wait: the consumer sleeps in Cond.Wait with the returned message in the ring; only a later Write or Close wakes it", o, nil)
				} else if o.Parked {
					m.violate(j, r, "waiter-asleep-with-pending", "prompt-delivery", "the consumer sleeps in Cond.Wait although a returned Write is undelivered and no Broadcast was lost", o, nil)
				} else {
					m.violate(j, r, "not-prompt", "prompt-delivery", "a returned Write is neither delivered nor reported although the consumer ran until it found nothing", o, nil)
				}
			}
		case "final":
			switch r.Status {
			case "complete":
				if !o.Closed || !o.CDone {
					m.violate(j, r, "close-incomplete", "close-returns", "all threads finished but Close did not return / the poll goroutine did not finish", o, nil)
				}
			case "stuck":
				if !o.Closed {
					m.violate(j, r, "close-never-returns", "stuck-state", "no thread can move: Close waits for the poll goroutine, which is blocked", o, nil)
				} else {
					m.violate(j, r, "thread-stuck-after-close", "stuck-state", "Close returned but some goroutine is blocked forever", o, nil)
				}
			default:
				m.violate(j, r, "no-termination", "stuck-state", "the fair completion did not terminate within the step cap", o, nil)
			}
		}
	}
}
