package diodeh

import (
	"bufio"
	"encoding/json"
	"fmt"
	"io"
	"os/exec"
	"strings"
	"time"
)

// JobTimeout bounds one job on the runner; a job that does not finish is a broken correspondence.
var JobTimeout = 300 * time.Second

// Job / Obs / Res mirror the runner's JSON protocol (rt/runner/main.go.txt).
type Job struct {
	ID       int               `json:"id"`
	Level    string            `json:"level"`
	Size     int               `json:"size"`
	Msgs     [][]uint64        `json:"msgs"`
	Bytes    map[string]string `json:"bytes,omitempty"`
	Waiter   bool              `json:"waiter"`
	Gated    bool              `json:"gated"`
	Budget   int               `json:"budget"`
	Mode     string            `json:"mode"`
	Seed     uint64            `json:"seed,omitempty"`
	Count    int               `json:"count,omitempty"`
	Scheds   [][]int           `json:"scheds,omitempty"`
	Post     string            `json:"post"`
	MaxSched int               `json:"maxsched,omitempty"`
	MaxSteps int               `json:"maxsteps,omitempty"`
	NoCons   bool              `json:"nocons,omitempty"`
}

type Obs struct {
	At      int      `json:"at"`
	Tag     string   `json:"tag"`
	Del     []uint64 `json:"del"`
	DelB    []string `json:"delb,omitempty"`
	Al      []int64  `json:"al"`
	Ret     []uint64 `json:"ret"`
	Ri      uint64   `json:"ri"`
	Claims  uint64   `json:"claims"`
	Col     int      `json:"col"`
	Closed  bool     `json:"closed"`
	WClosed bool     `json:"wclosed"`
	CDone   bool     `json:"cdone"`
	Parked  bool     `json:"parked"`
	SlotRi  int64    `json:"slotri"`
	En      uint64   `json:"en"`
	PDone   bool     `json:"pdone"`
	Busy    uint64   `json:"busy"`
	Nested  bool     `json:"nested,omitempty"`
}

type Res struct {
	Job    int        `json:"job"`
	St     [][4]int64 `json:"st,omitempty"`
	Cp     []Obs      `json:"cp,omitempty"`
	Status string     `json:"status,omitempty"`
	Err    string     `json:"err,omitempty"`
	Unk    []string   `json:"unk,omitempty"`
	End    bool       `json:"end,omitempty"`
	N      int        `json:"n,omitempty"`
	Trunc  bool       `json:"trunc,omitempty"`
}

const (
	RoleCons   = 0
	RoleCancel = 1
	RoleCloser = 2
	RoleProd0  = 3
)

const (
	KAdd = 1 + iota
	KLoad
	KCas
	KSwap
	KBcast
	KLock
	KUnlock
	KWait
	KWake
	KSelect
	KSleep
	KWWrite
	KAwait
	KClose
	KStore
)

// RunJob executes one job on the runner and calls f for every schedule executed.
func (b *Built) RunJob(job *Job, f func(*Res)) (n int, trunc bool, err error) {
	cmd := exec.Command(b.Bin)
	in, _ := cmd.StdinPipe()
	out, _ := cmd.StdoutPipe()
	var stderr strings.Builder
	cmd.Stderr = &stderr
	if err := cmd.Start(); err != nil {
		return 0, false, err
	}
	timedOut := false
	timer := time.AfterFunc(JobTimeout, func() { timedOut = true; cmd.Process.Kill() })
	defer timer.Stop()
	go func() {
		json.NewEncoder(in).Encode(job)
		in.Close()
	}()
	rd := bufio.NewReaderSize(out, 1<<20)
	dec := json.NewDecoder(rd)
	ended := false
	for {
		var r Res
		if e := dec.Decode(&r); e != nil {
			if e != io.EOF {
				err = e
			}
			break
		}
		if r.End {
			ended = true
			n, trunc = r.N, r.Trunc
			continue
		}
		f(&r)
	}
	werr := cmd.Wait()
	if timedOut {
		return n, trunc, fmt.Errorf("the exploration of job %d (%s P=%d size=%d mode=%s) did not finish within %v on the instrumented code", job.ID, job.Level, len(job.Msgs), job.Size, job.Mode, JobTimeout)
	}
	if err == nil && werr != nil {
		err = fmt.Errorf("runner: %v: %s", werr, stderr.String())
	}
	if err == nil && !ended {
		err = fmt.Errorf("runner ended without completing the job: %s", stderr.String())
	}
	return
}
