// Package diodeh is the shared harness of C10, C11 and C12: it instruments the
// CURRENT sources of diode/ and diode/internal/diodes of the repository under
// check (import paths -> scheduler-controlled shims, go statements, blocking
// receives, non-blocking selects), builds a runner from the rewritten copies in
// a temporary module, executes schedules on it, and compares/monitors the result.
package diodeh

import (
	"bytes"
	"embed"
	"fmt"
	"go/ast"
	"go/parser"
	"go/printer"
	"go/token"
	"io/fs"
	"os"
	"os/exec"
	"path/filepath"
	"reflect"
	"strconv"
	"strings"
)

//go:embed rt
var rtFS embed.FS

const modName = "vrun"

var importMap = map[string]string{
	"sync/atomic": modName + "/shim/atomic",
	"sync":        modName + "/shim/sync",
	"time":        modName + "/shim/time",
	"github.com/rs/zerolog/diode/internal/diodes": modName + "/diodes",
}

type rewriter struct {
	fset   *token.FileSet
	used   bool // vsched referenced
	errs   []string
	counts map[string]int
}

var (
	exprType  = reflect.TypeOf((*ast.Expr)(nil)).Elem()
	stmtType  = reflect.TypeOf((*ast.Stmt)(nil)).Elem()
	stmtsType = reflect.TypeOf([]ast.Stmt(nil))
)

func sel(pkg, name string) ast.Expr {
	return &ast.SelectorExpr{X: ast.NewIdent(pkg), Sel: ast.NewIdent(name)}
}

func isRecv(e ast.Expr) (*ast.UnaryExpr, bool) {
	for {
		p, ok := e.(*ast.ParenExpr)
		if !ok {
			break
		}
		e = p.X
	}
	u, ok := e.(*ast.UnaryExpr)
	return u, ok && u.Op == token.ARROW
}

func (r *rewriter) pos(n ast.Node) string { return r.fset.Position(n.Pos()).String() }

func (r *rewriter) rewriteStmt(s ast.Stmt) []ast.Stmt {
	switch x := s.(type) {
	case *ast.GoStmt:
		// go f(args)  ->  vsched.Go(func() { f(args) })
		r.used = true
		r.counts["go"]++
		return []ast.Stmt{&ast.ExprStmt{X: &ast.CallExpr{Fun: sel("vsched", "Go"), Args: []ast.Expr{
			&ast.FuncLit{Type: &ast.FuncType{Params: &ast.FieldList{}}, Body: &ast.BlockStmt{List: []ast.Stmt{&ast.ExprStmt{X: x.Call}}}}}}}}
	case *ast.ExprStmt:
		if u, ok := isRecv(x.X); ok {
			r.used = true
			r.counts["recv"]++
			return []ast.Stmt{&ast.ExprStmt{X: &ast.CallExpr{Fun: sel("vsched", "Await"), Args: []ast.Expr{u.X}}}}
		}
	case *ast.AssignStmt:
		if len(x.Lhs) == 2 && len(x.Rhs) == 1 {
			if _, ok := isRecv(x.Rhs[0]); ok {
				r.errs = append(r.errs, r.pos(x)+": two-value receive is not supported by the instrumenter")
			}
		}
	case *ast.SelectStmt:
		hasDefault := false
		for _, c := range x.Body.List {
			if cc, ok := c.(*ast.CommClause); ok && cc.Comm == nil {
				hasDefault = true
			}
		}
		if !hasDefault {
			r.errs = append(r.errs, r.pos(x)+": blocking select is not supported by the instrumenter")
			return []ast.Stmt{s}
		}
		r.used = true
		r.counts["select"]++
		y := &ast.ExprStmt{X: &ast.CallExpr{Fun: sel("vsched", "Yield"), Args: []ast.Expr{&ast.BasicLit{Kind: token.STRING, Value: `"select"`}, ast.NewIdent("nil")}}}
		return []ast.Stmt{y, s}
	case *ast.SendStmt:
		r.errs = append(r.errs, r.pos(x)+": channel send is not supported by the instrumenter")
	case *ast.RangeStmt:
		// ranging over a channel would block
	}
	return []ast.Stmt{s}
}

// walk rewrites statements lists and receive expressions everywhere below v.
func (r *rewriter) walk(v reflect.Value, inComm bool) {
	switch v.Kind() {
	case reflect.Ptr:
		if v.IsNil() {
			return
		}
		if cc, ok := v.Interface().(*ast.CommClause); ok {
			// the communication of a select case stays as it is; its body is rewritten
			r.walk(reflect.ValueOf(&cc.Body).Elem(), false)
			return
		}
		r.walk(v.Elem(), inComm)
	case reflect.Interface:
		if v.IsNil() {
			return
		}
		r.walk(v.Elem(), inComm)
	case reflect.Struct:
		for i := 0; i < v.NumField(); i++ {
			f := v.Field(i)
			name := v.Type().Field(i).Name
			if name == "Obj" || name == "Scope" || name == "Unresolved" || name == "Comments" || name == "Doc" || name == "Comment" || name == "Imports" {
				continue
			}
			r.walkField(f)
		}
	case reflect.Slice:
		if v.Type() == stmtsType && v.CanSet() {
			var out []ast.Stmt
			for i := 0; i < v.Len(); i++ {
				s := v.Index(i).Interface().(ast.Stmt)
				out = append(out, r.rewriteStmt(s)...)
			}
			v.Set(reflect.ValueOf(out))
			for i := 0; i < v.Len(); i++ {
				r.walk(v.Index(i), false)
			}
			return
		}
		for i := 0; i < v.Len(); i++ {
			r.walkField(v.Index(i))
		}
	}
}

func (r *rewriter) walkField(f reflect.Value) {
	if f.Type() == exprType && !f.IsNil() && f.CanSet() {
		if u, ok := isRecv(f.Interface().(ast.Expr)); ok {
			r.used = true
			r.counts["recv"]++
			f.Set(reflect.ValueOf(&ast.CallExpr{Fun: sel("vsched", "Recv"), Args: []ast.Expr{u.X}}))
		}
	}
	if f.Type() == stmtType && !f.IsNil() && f.CanSet() {
		out := r.rewriteStmt(f.Interface().(ast.Stmt))
		if len(out) == 1 {
			f.Set(reflect.ValueOf(out[0]))
		} else {
			f.Set(reflect.ValueOf(&ast.BlockStmt{List: out}))
		}
	}
	r.walk(f, false)
}

// RewriteSource instruments one Go source file.
func RewriteSource(name string, src []byte) ([]byte, map[string]int, error) {
	fset := token.NewFileSet()
	f, err := parser.ParseFile(fset, name, src, parser.ParseComments|parser.SkipObjectResolution)
	if err != nil {
		return nil, nil, err
	}
	r := &rewriter{fset: fset, counts: map[string]int{}}
	// statements first (ExprStmt receives become Await), then remaining receive expressions
	for _, d := range f.Decls {
		r.walk(reflect.ValueOf(d), false)
	}
	if len(r.errs) > 0 {
		return nil, nil, fmt.Errorf("%s", strings.Join(r.errs, "; "))
	}
	for _, d := range f.Decls {
		gd, ok := d.(*ast.GenDecl)
		if !ok || gd.Tok != token.IMPORT {
			continue
		}
		for _, sp := range gd.Specs {
			is := sp.(*ast.ImportSpec)
			p, _ := strconv.Unquote(is.Path.Value)
			if np, ok := importMap[p]; ok {
				is.Path.Value = strconv.Quote(np)
				r.counts["import:"+p]++
			}
		}
	}
	if r.used {
		imp := &ast.GenDecl{Tok: token.IMPORT, Specs: []ast.Spec{&ast.ImportSpec{Path: &ast.BasicLit{Kind: token.STRING, Value: strconv.Quote(modName + "/vsched")}}}}
		f.Decls = append([]ast.Decl{imp}, f.Decls...)
	}
	f.Comments = nil
	var buf bytes.Buffer
	if err := (&printer.Config{Mode: printer.UseSpaces | printer.TabIndent, Tabwidth: 8}).Fprint(&buf, fset, f); err != nil {
		return nil, nil, err
	}
	return buf.Bytes(), r.counts, nil
}

// Built is an instrumented runner binary in a temporary directory.
type Built struct {
	Dir    string
	Bin    string
	Counts map[string]int
}

func (b *Built) Cleanup() {
	if b != nil && b.Dir != "" {
		os.RemoveAll(b.Dir)
	}
}

func copyRewritten(srcDir, dstDir string, counts map[string]int) error {
	ents, err := os.ReadDir(srcDir)
	if err != nil {
		return err
	}
	if err := os.MkdirAll(dstDir, 0o755); err != nil {
		return err
	}
	n := 0
	for _, e := range ents {
		if e.IsDir() || !strings.HasSuffix(e.Name(), ".go") || strings.HasSuffix(e.Name(), "_test.go") {
			continue
		}
		src, err := os.ReadFile(filepath.Join(srcDir, e.Name()))
		if err != nil {
			return err
		}
		out, c, err := RewriteSource(filepath.Join(srcDir, e.Name()), src)
		if err != nil {
			return fmt.Errorf("instrumenting %s: %v", filepath.Join(srcDir, e.Name()), err)
		}
		for k, v := range c {
			counts[k] += v
		}
		if err := os.WriteFile(filepath.Join(dstDir, e.Name()), out, 0o644); err != nil {
			return err
		}
		n++
	}
	if n == 0 {
		return fmt.Errorf("no Go sources in %s", srcDir)
	}
	return nil
}

// BuildRunner instruments $repo/diode and $repo/diode/internal/diodes and builds the runner.
func BuildRunner(repo string) (*Built, error) {
	dir, err := os.MkdirTemp(os.Getenv("VERIF_WORK"), "verif-diode-") // under the check's work directory (.work/<ID>) when run by bin/check
	if err != nil {
		return nil, err
	}
	b := &Built{Dir: dir, Counts: map[string]int{}}
	fail := func(err error) (*Built, error) { b.Cleanup(); return nil, err }
	// runtime: scheduler and shims
	err = fs.WalkDir(rtFS, "rt", func(p string, de fs.DirEntry, err error) error {
		if err != nil || de.IsDir() {
			return err
		}
		data, err := rtFS.ReadFile(p)
		if err != nil {
			return err
		}
		rel := strings.TrimPrefix(p, "rt/")
		var dst string
		switch {
		case rel == "runner/main.go.txt":
			dst = "main.go"
		case rel == "runner/zz_verif_diodes.go.txt":
			dst = "diodes/zz_verif.go"
		case rel == "runner/zz_verif_diode.go.txt":
			dst = "diode/zz_verif.go"
		case strings.HasSuffix(rel, ".go"):
			dst = rel
			data = bytes.ReplaceAll(data, []byte("verifharness/diodeh/rt/"), []byte(modName+"/"))
		default:
			return nil
		}
		full := filepath.Join(dir, dst)
		if err := os.MkdirAll(filepath.Dir(full), 0o755); err != nil {
			return err
		}
		return os.WriteFile(full, data, 0o644)
	})
	if err != nil {
		return fail(err)
	}
	if err := os.WriteFile(filepath.Join(dir, "go.mod"), []byte("module "+modName+"\n\ngo 1.21\n"), 0o644); err != nil {
		return fail(err)
	}
	if err := copyRewritten(filepath.Join(repo, "diode", "internal", "diodes"), filepath.Join(dir, "diodes"), b.Counts); err != nil {
		return fail(err)
	}
	if err := copyRewritten(filepath.Join(repo, "diode"), filepath.Join(dir, "diode"), b.Counts); err != nil {
		return fail(err)
	}
	b.Bin = filepath.Join(dir, "runner")
	cmd := exec.Command("go", "build", "-o", b.Bin, ".")
	cmd.Dir = dir
	cmd.Env = append(os.Environ(), "GOFLAGS=-mod=mod", "GOPROXY=off", "GOSUMDB=off", "GOTOOLCHAIN=local", "CGO_ENABLED=0", "GOWORK=off")
	out, err := cmd.CombinedOutput()
	if err != nil {
		msg := string(out)
		if len(msg) > 3000 {
			msg = msg[:3000]
		}
		return fail(fmt.Errorf("instrumented build of %s/diode failed: %v\n%s", repo, err, msg))
	}
	return b, nil
}
